/-
  nfdriver — runs the executable model on the same operations as the Rust harness and compares.
  stdin : one JSON object per line  {"i":n,"op":{...},"impl":{...}}   (merged by check.py)
  stdout: one verdict per line      {"i":n,"corr":bool,"diff":[...],"oracle":{...},...}
  `nfdriver encode`: fills "hex" of ops that carry abstract messages, using the spec writer.
-/
import NetflowModel.Wire
import NetflowModel.Generated
import NetflowModel.Oracle
import NetflowModel.Findings
import NetflowModel.Cost
import NetflowModel.Fast
import NetflowModel.CostPrealloc
import NetflowModel.CostWork
import NetflowModel.Ctl
import NetflowModel.GeneratedCtl
import NetflowModel.ExportProg
import NetflowModel.GeneratedExport
open Lean Netflow

/-- one `parse_bytes` call as observed on the real crate and on the model -/
structure Call where
  buf : Bytes
  jsons : List String := []
  impl : ParseAns
  model : ParseAns
  implBefore : PState
  alloc : Nat := 0                                 -- heap bytes the real crate requested during the call (counting allocator)

structure Sess where
  allowed : List (Nat × List Nat) := []
  sts : List (Nat × PState) := []                  -- model state per parser
  implSts : List (Nat × PState) := []              -- last state reported by the real crate per parser
  calls : List (Nat × List Call) := []             -- per parser, most recent first
  defs : List (Nat × Option Spec.Defs) := []       -- exporter-side template memory per parser; none = unknown
  flats : List (Nat × (List CommonFlow × List CommonFlow)) := []   -- (impl, model) results of `flat` ops
  sticky : List (Nat × List String) := []          -- history-level finding classes per parser (state-polluting)
  unknownFields : Bool := true
  dead : Bool := false                             -- the harness crashed earlier in this scenario

def allVersions : List Nat := List.range 65536

def Sess.cfg (s : Sess) (p : Nat) : Config :=
  { t := Generated.tables, allowed := (s.allowed.lookup p).getD Generated.defaultAllowed, unknownFields := s.unknownFields }

def upd {β : Type} (l : List (Nat × β)) (p : Nat) (v : β) : List (Nat × β) := (p, v) :: l.filter (·.1 != p)

def Sess.st (s : Sess) (p : Nat) : PState := (s.sts.lookup p).getD {}
def Sess.implSt (s : Sess) (p : Nat) : PState := (s.implSts.lookup p).getD {}
def Sess.callsOf (s : Sess) (p : Nat) : List Call := ((s.calls.lookup p).getD []).reverse

def getNatD (j : Json) (k : String) (d : Nat) : Nat :=
  match j.getObjValAs? Nat k with | .ok n => n | .error _ => d
def getStrD (j : Json) (k : String) (d : String) : String :=
  match j.getObjValAs? String k with | .ok n => n | .error _ => d
def getBoolD (j : Json) (k : String) (d : Bool) : Bool :=
  match j.getObjValAs? Bool k with | .ok n => n | .error _ => d
def getNatList (j : Json) (k : String) : Option (List Nat) :=
  match j.getObjValAs? (List Nat) k with | .ok n => some n | .error _ => none
def wants (op : Json) (w : String) : Bool :=
  match op.getObjValAs? (List String) "want" with | .ok l => l.contains w | .error _ => false

def outcomeStr : Outcome → String
  | .done _ => "done" | .panic _ => "panic" | .overflow _ => "overflow"
def outcomePkts : Outcome → List Packet
  | .done ps => ps | .panic _ => [] | .overflow _ => []

/-- The executable model FOLLOWS what the translator read from the source on this run.  While the regenerated control skeleton and
    exporter programs are the modelled ones (always, on the unchanged tree: `Props.Ctl_skeleton_is_modelled`, `G3.v9ExportProg_shape`)
    the hand-written functions run (they have the csimp fast paths of Fast.lean).  When an edit of the source changed one of the
    extracted items, the `…K` functions / the program interpreter run with the NEW items instead, so that the model keeps describing
    the code and the property's oracle, not a stale model, decides on every generated input. -/
def ctlIsStd : Bool := decide (Generated.ctl = Ctl.std)
def v9ProgIsStd : Bool := Emit.beqL Generated.v9ExportProg G3.v9StdProg
def ipProgIsStd : Bool := Emit.beqL Generated.ipExportProg G3.ipStdProg

def parseBytesM (c : Config) (st : PState) (buf : Bytes) : PState × Outcome :=
  if ctlIsStd then parseBytes c st buf else parseBytesK Generated.ctl c st buf

def exportPacketM (c : Config) : Packet → Option (Out Bytes)
  | .v9 h ss => some (if v9ProgIsStd then exportV9 c h ss else runL c.vc Generated.v9ExportProg [("self", treeOfV9 c h ss)])
  | .ipfix h ss => some (if ipProgIsStd then exportIpfix c h ss else runL c.vc Generated.ipExportProg [("self", treeOfIpfix c h ss)])
  | p => exportPacket c p

def modelParse (c : Config) (st : PState) (buf : Bytes) (wExport wCommon : Bool) : ParseAns × PState :=
  let (st', out) := parseBytesM c st buf
  let pkts := outcomePkts out
  ({ outcome := outcomeStr out, pkts := pkts, state := st',
     exports := if wExport then pkts.map (exportPacketM c) else [],
     common := if wCommon then pkts.map (toCommon c) else [] }, st')

def diffParts (c : Config) (a b : ParseAns) : List String :=
  (if a.outcome != b.outcome then ["outcome"] else []) ++
  (if a.pkts != b.pkts then ["pkts"] else []) ++
  (if a.state != b.state then ["state"] else []) ++
  (if a.exports != b.exports then ["exports"] else []) ++
  -- `a` is the implementation's answer, `b` the model's: on V9 packets with a duplicate projected key the choice is open
  (if !Preds.commonCorr c b.pkts a.common b.common then ["common"] else [])

def pktNontrivial : Packet → Bool
  | .v5 _ rs => !rs.isEmpty
  | .v7 _ rs => !rs.isEmpty
  | .v9 _ ss => !ss.isEmpty
  | .ipfix _ ss => !ss.isEmpty
  | .error _ _ => true

def pktTag : Packet → String
  | .v5 .. => "v5" | .v7 .. => "v7" | .v9 .. => "v9" | .ipfix .. => "ipfix"
  | .error .incomplete _ => "err.incomplete"
  | .error (.partialParse v _) _ => s!"err.partial{v}"
  | .error (.unknownVersion _) _ => "err.unknown"

def setTags : Packet → List String
  | .v9 _ ss => ss.map fun s => match s.body with
    | .templates .. => "v9.templates" | .optTemplates .. => "v9.optTemplates" | .data .. => "v9.data" | .optData .. => "v9.optData"
  | .ipfix _ ss => ss.map fun s => match s.body with
    | .template .. => "ip.template" | .optTemplate .. => "ip.optTemplate" | .data .. => "ip.data" | .optData .. => "ip.optData"
  | _ => []

def jsonOfList (l : List String) : Json := Json.arr (l.map Json.str).toArray
def jsonOfOracle (l : List (String × Bool)) : Json := Json.mkObj (l.map fun (k, v) => (k, Json.bool v))

def handleParse (s : Sess) (i : Nat) (op impl : Json) (line2 : Option Json := none) : Sess × Json :=
  let p := getNatD op "p" 0
  let c := s.cfg p
  let st := s.st p
  match unhex (getStrD op "hex" "") with
  | none => (s, Json.mkObj [("i", i), ("bad", "hex")])
  | some buf =>
    let wE := wants op "export"
    let wC := wants op "common"
    let (m, st') := modelParse c st buf wE wC
    let s' := { s with sts := upd s.sts p st' }
    -- exporter-side template memory (only for unmutated calls that carry abstract messages)
    let (sv, defs') : Option Preds.SpecView × Option Spec.Defs :=
      match (if [5, 7, 9, 10].all c.allowed.contains then (s.defs.lookup p).getD (some {}) else none) with
      | none => (none, (s.defs.lookup p).getD (some {}))
      | some d =>
        match (if getBoolD op "nospec" false then Except.error "nospec" else op.getObjVal? "msgs") with
        | .error _ => (none, none)                    -- raw bytes / deliberately non-conformant shapes: the memory becomes unknown
        | .ok ms =>
          match (fromJson? ms : Except String (List Spec.Msg)) with
          | .error _ => (none, none)
          | .ok msgs =>
            match Spec.expMsgs c Preds.names d msgs with
            | some (d', pkts) => (some { conformant := true, pkts := pkts, defs := d' }, some d')
            | none => (some { conformant := false, pkts := [], defs := d }, none)
    let s' := { s' with defs := upd s'.defs p defs' }
    let implOutcome := getStrD impl "outcome" "missing"
    if implOutcome == "abort" || implOutcome == "timeout" || implOutcome == "missing" then
      ({ s' with dead := true },
        Json.mkObj [("i", i), ("kind", "parse"), ("corr", m.outcome == "overflow"), ("diff", jsonOfList ["outcome"]),
          ("model_outcome", m.outcome), ("impl_outcome", implOutcome), ("returned", false),
          ("oracle", Json.mkObj [("C01", false)]), ("len", buf.length)])
    else
      match (fromJson? impl : Except String ParseAns) with
      | .error e =>
        (s', Json.mkObj [("i", i), ("kind", "parse"), ("corr", false), ("diff", jsonOfList ["undecodable"]),
          ("decode_error", e), ("model_outcome", m.outcome), ("impl_outcome", implOutcome), ("returned", true),
          ("oracle", Json.mkObj []), ("len", buf.length)])
      | .ok a =>
        let d := diffParts c a m
        let before := s.implSt p
        let orc := Preds.parseOracles c before buf a sv wE wC
        let morc := Preds.parseOracles c st buf m sv wE wC
        let c07 (x : ParseAns) : List (String × Bool) :=
          match op.getObjValAs? Nat "unknown_id", op.getObjValAs? Nat "unknown_proto" with
          | .ok tid, .ok proto => [("C07", Preds.noRecordsFor tid proto x.pkts)]
          | _, _ => []
        -- C17: `impl2` (when present) is the answer of the DEFAULT build to the same history; `a` is the
        -- answer of the build without `parse_unknown_fields`
        let c17 : List (String × Bool) :=
          match line2 with
          | none => []
          | some j2 =>
            match (fromJson? j2 : Except String ParseAns) with
            | .error _ => [("C17", false)]
            | .ok a2 =>
              let same := a.pkts == a2.pkts && a.exports == a2.exports && a.common == a2.common && a.state == a2.state
              -- once a history has involved a field unknown to the library the two builds may hold different caches
              -- (the build without the feature drops the sets after an undecodable one): equality is required only before that
              let tainted := ((s.sticky.lookup p).getD []).contains "c17-ipfix-caches-diverged"
              -- the V9 caches never depend on the feature (a failing V9 data record does not stop the flowset loop)
              let v9Same := a.state.v9T == a2.state.v9T && a.state.v9O == a2.state.v9O
              [("C17", v9Same && (tainted || Findings.usesUnknown c a2.state || Findings.usesUnknown c before || Findings.reportsUnknownTemplate c a2.pkts || same) && Findings.noUnknownEntries c a.pkts && Findings.noRecordsOfUnknownTemplates c before a.state a.pkts)]
        let jsons : List Json := match impl.getObjVal? "json" with | .ok (.arr xs) => xs.toList | _ => []
        let c16 : List (String × Bool) := if wants op "json" then [("C16", a.outcome != "done" || Preds.jsonAllOk c a.pkts jsons)] else []
        let alloc := getNatD impl "alloc" 0
        -- PEAK live heap during the call (same counting allocator).  peak ≤ total, so the property's bound on the total implies the same
        -- bound on the peak: checking it can never raise an alarm where the property holds, and it keeps its bite inside the known class
        -- "buffer packed with packets" (quadratic TOTAL through the per-packet tail copy, but each copy is freed before the next is made)
        let peak := getNatD impl "peak" 0
        -- nom's `count(p, n)` reserves min(n, 64 KiB / size_of) elements before parsing any: every `count` site the parser reaches may
        -- add up to 64 KiB that no byte of the buffer pays for (CostPrealloc.lean walks the buffer as the parser does and sums an upper
        -- bound of these reservations).  The additive constant covers the other fixed costs; the reservations are allowed on top (×2).
        let pre := if wants op "alloc" then Cost.preallocOf c before buf else 0
        -- WORK that is legitimately discarded: a packet / set that fails late throws away what was decoded before (an IPFIX record of
        -- one-byte fields costs a map of several hundred bytes per byte; 4-byte V9 flowsets cost ~140 bytes per byte in bookkeeping), so
        -- no byte of the RESULT pays for it.  The allowance therefore adds the modelled data-path work of this call (`Cost.workOf`,
        -- CostWork.lean: decode attempts of the record loops as the code runs them now, IPFIX template-element copies) — for templates
        -- without zero-length fields every attempt consumes a byte (`C15_ipfix_work_product`, `C15_v9_work_paid_by_records`), so the bound
        -- stays linear in |buf|; A covers the per-flowset bookkeeping.  (A false alarm of the earlier A = 64 without work term, found
        -- under VERIF_SEED=1: 2171 empty options-data flowsets discarded by a failing last flowset, 1.2 MB for 8.7 KB.)
        let work := if wants op "alloc" then Cost.workOf c before buf else 0
        let allow := 131072 + 2 * pre + 1024 * work
        let peakOk : Bool := Cost.allocBounded 192 16 allow buf a.pkts peak
        let c15 : List (String × Bool) :=
          if wants op "alloc" then
            [("C15", a.outcome != "done" || (Cost.allocBounded 192 16 allow buf a.pkts alloc && peakOk && Cost.resultBounded 256 1024 buf before a.pkts))]
          else []
        let orc := orc ++ c07 a ++ c17 ++ c16 ++ c15
        let morc := morc ++ c07 m
        let classes0 := Findings.outputClasses c a.pkts ++
            (match (fromJson? ((op.getObjVal? "msgs").toOption.getD Json.null) : Except String (List Spec.Msg)) with
              | .ok msgs =>
                let d0 : Spec.Defs := ((s.defs.lookup p).getD (some {})).getD {}
                Findings.inputClasses c d0 msgs ++ (match sv with | some v => Findings.inputClasses c v.defs msgs | none => [])
              | .error _ => [])
        let classes0 := classes0 ++
          (if a.pkts.length ≥ 32 && (peakOk || !wants op "alloc") then ["c15-many-packets"] else []) ++
          (if a.pkts.any (fun p => match p with
                | .ipfix _ ss => ss.any fun s => match s.body with
                  | .template t => t.fields.any fun f => f.len == 65535
                  | .optTemplate t => t.fields.any fun f => f.len == 65535
                  | _ => false
                | _ => false) ||
              a.state.ipT.any (fun e => e.2.fields.any fun f => f.len == 65535) || a.state.ipO.any (fun e => e.2.fields.any fun f => f.len == 65535) ||
              before.ipT.any (fun e => e.2.fields.any fun f => f.len == 65535) || before.ipO.any (fun e => e.2.fields.any fun f => f.len == 65535)
            then ["ipfix-varlen-field"] else []) ++
          (if (before.ipT.any (fun e => e.2.fields.any fun f => f.len == 0) || before.ipO.any (fun e => e.2.fields.any fun f => f.len == 0) ||
              before.v9T.any (fun e => e.2.fields.any fun f => f.len == 0)) &&
              -- the recorded finding is what zero-length fields do to ONE decode attempt per record: a template of k such fields costs k
              -- operations and k entries per record whatever the record's bytes (so `workOf` and the result are not linear in |buf|).
              -- It excuses the SECOND half of C15 only; the allocation must stay within the allowance above (property bound plus the
              -- modelled work).  A loop that retries, or clones the template per iteration, is outside the class.
              (!wants op "alloc" ||
                (Cost.allocBounded 192 16 allow buf a.pkts alloc && peakOk))
            then ["c15-zero-length-fields"] else [])
        let unkNow : Bool := match line2 with
          | some j2 => (match (fromJson? j2 : Except String ParseAns) with
            | .ok a2 => a.state.ipT != a2.state.ipT || a.state.ipO != a2.state.ipO
            | .error _ => false)
          | none => false
        let stickyNow := ((s.sticky.lookup p).getD []) ++ classes0.filter (fun x => x == "ipfix-multi-template-set") ++
          (if unkNow then ["c17-ipfix-caches-diverged"] else [])
        let classes := (classes0 ++ stickyNow).eraseDups
        let call : Call := { buf := buf, impl := a, model := m, implBefore := before, jsons := jsons.map (·.compress), alloc := getNatD impl "alloc" 0 }
        let s' := { s' with sticky := upd s'.sticky p stickyNow.eraseDups, implSts := upd s'.implSts p a.state, calls := upd s'.calls p (call :: (s'.calls.lookup p).getD []) }
        (s', Json.mkObj [("i", i), ("kind", "parse"), ("corr", d.isEmpty), ("diff", jsonOfList d),
          ("model_outcome", m.outcome), ("impl_outcome", implOutcome), ("returned", true),
          ("oracle", jsonOfOracle orc), ("model_oracle", jsonOfOracle morc),
          ("conformant", match sv with | some v => Json.bool v.conformant | none => Json.null),
          ("state_changed", a.state != before),
          ("tags", jsonOfList (a.pkts.map pktTag ++ a.pkts.flatMap setTags)),
          ("nontrivial", a.pkts.any pktNontrivial),
          ("digest", (hash (toString (toJson a.pkts) ++ toString (toJson a.state))).toNat),
          ("model", if d.isEmpty || buf.length > 4096 then Json.null else toJson m),
          ("expected", match sv with
            | some v => if v.conformant && buf.length ≤ 4096 then toJson (v.pkts.map fun e => match e with | .pkt p => toJson p | .inexpressible _ => Json.str "inexpressible") else Json.null
            | none => Json.null),
          ("impl_pkts", match sv with
            | some v => if v.conformant && buf.length ≤ 4096 then toJson a.pkts else Json.null
            | none => Json.null),
          ("classes", jsonOfList classes),
          ("alloc", getNatD impl "alloc" 0), ("peak", getNatD impl "peak" 0), ("prealloc", pre), ("result_size", Cost.resultSize a.pkts), ("state_wire", Cost.stateWire before),
          ("npkts", a.pkts.length),
          ("len", buf.length)])

def allPkts (cs : List Call) (f : Call → ParseAns) : List Packet := cs.flatMap fun c => (f c).pkts
def lastState (cs : List Call) (f : Call → ParseAns) : PState :=
  match cs.getLast? with | some c => (f c).state | none => {}

/-- scenario-level (relational) oracles: each is evaluated on the real crate's answers and,
    separately, on the model's answers -/
def handleAssert (s : Sess) (i : Nat) (op : Json) : Json :=
  let kind := getStrD op "op" ""
  let a := getNatD op "a" 0
  let b := getNatD op "b" 1
  let ca := s.callsOf a
  let cb := s.callsOf b
  let mk (key : String) (implOk modelOk : Bool) : Json :=
    Json.mkObj [("i", i), ("kind", "assert"), ("assert", kind), ("corr", true), ("diff", jsonOfList []),
      ("oracle", Json.mkObj [(key, Json.bool implOk)]), ("model_oracle", Json.mkObj [(key, Json.bool modelOk)]),
      ("returned", true), ("nontrivial", !ca.isEmpty), ("digest", Json.null)]
  match kind with
  | "assert_chain" =>
    -- C11: joined delivery on `a` = per-packet delivery on `b`
    let f (sel : Call → ParseAns) := allPkts ca sel == allPkts cb sel && lastState ca sel == lastState cb sel
    mk "C11" (f (·.impl)) (f (·.model))
  | "assert_same" =>
    let key := getStrD op "key" "C06"
    let lastOnly := getBoolD op "last_only" false
    let pktsOnly := getBoolD op "pkts_only" false      -- compare what was decoded, not the caches (they may legitimately hold extra ids)
    let f (sel : Call → ParseAns) :=
      (if lastOnly then (ca.getLast?.map fun c => (sel c).pkts) == (cb.getLast?.map fun c => (sel c).pkts)
       else ca.map (fun c => (sel c).pkts) == cb.map (fun c => (sel c).pkts)) && (pktsOnly || lastState ca sel == lastState cb sel)
    -- two parser instances fed the same history serialise to identical text
    let sameText := key != "C16" || ca.map (·.jsons) == cb.map (·.jsons)
    mk key (f (·.impl) && sameText) (f (·.model))
  | "assert_filter" =>
    -- C12: a = allowed set S, b = every version allowed, same buffer; optional c = all-allowed parser fed the allowed prefix only
    let S := (s.allowed.lookup a).getD Generated.defaultAllowed
    let cfgAll := s.cfg b
    let f (sel : Call → ParseAns) : Bool :=
      match ca.getLast?, cb.getLast? with
      | some x, some y =>
        let pre := Preds.takeAllowed cfgAll S (x.buf.length + 1) x.buf (sel y).pkts
        (sel x).pkts == pre &&
        (match op.getObjValAs? Nat "c" with
         | .ok cpar =>
           (match (s.callsOf cpar).getLast? with
            | some z => (sel x).state == (sel z).state && (sel x).pkts == (sel z).pkts
            | none => false)
         | .error _ => true)
      | _, _ => false
    mk "C12" (f (·.impl)) (f (·.model))
  | "assert_trunc" =>
    -- C14: a parsed  pre ++ cut ; b parsed pre alone (same history).  `cutlen` = |cut|
    let k := getNatD op "cutlen" 0
    let keep := getBoolD op "keep_state" true
    let f (sel : Call → ParseAns) : Bool :=
      match ca.getLast?, cb.getLast? with
      | some x, some y =>
        let cut := x.buf.drop (x.buf.length - k)
        (match (sel x).pkts.getLast? with
         | some (.error _ rem) => rem == cut && (sel x).pkts.dropLast == (sel y).pkts
         | _ => false) &&
        (!keep || (sel x).state == (sel y).state)
      | _, _ => false
    mk "C14" (f (·.impl)) (f (·.model))
  | "assert_scale" =>
    -- C15 (growth): parser `b` received the same shape of input as parser `a`, `k` times as large; the heap bytes requested by
    -- the last call may grow by at most 1.5·k (+ 64 KiB for nom's capped pre-allocations).  The model has no allocator: its side
    -- of the verdict is the same statement about the SIZE OF THE RESULT (Cost.resultSize), which the theorems bound linearly.
    let k := getNatD op "k" 2
    let ok (x y : Nat) : Bool := 2 * y ≤ 3 * k * x + 2 * 65536
    (match ca.getLast?, cb.getLast? with
     | some x, some y =>
       mk "C15" (ok x.alloc y.alloc && ok (Cost.resultSize x.impl.pkts) (Cost.resultSize y.impl.pkts))
                (ok (Cost.resultSize x.model.pkts) (Cost.resultSize y.model.pkts))
     | _, _ => mk "C15" false false)
  | "assert_unchanged" =>
    -- the last call on `a` left the caches as they were
    let key := getStrD op "key" "C06"
    let f (sel : Call → ParseAns) (before : Call → PState) : Bool :=
      match ca.getLast? with
      | some x => (sel x).state == before x
      | none => false
    let modelBefore : PState := match ca.dropLast.getLast? with | some c => c.model.state | none => {}
    mk key (f (·.impl) (·.implBefore)) (f (·.model) (fun _ => modelBefore))
  | "assert_flat" =>
    -- C13: flat(b) = concatenation of the common flows of the non-error packets parsed on a
    let (fi, fm) := (s.flats.lookup b).getD ([], [])
    let cat (sel : Call → ParseAns) : List CommonFlow :=
      ca.flatMap fun c => (sel c).common.flatMap fun o => match o with | some cm => cm.flows | none => []
    mk "C13" (fi == cat (·.impl)) (fm == cat (·.model))
  | _ => Json.mkObj [("i", i), ("kind", "unknown-op"), ("op", kind)]

def handleFlat (s : Sess) (i : Nat) (op impl : Json) : Sess × Json :=
  let p := getNatD op "p" 0
  let c := s.cfg p
  match unhex (getStrD op "hex" "") with
  | none => (s, Json.mkObj [("i", i), ("bad", "hex")])
  | some buf =>
    let (st', out) := parseBytesM c (s.st p) buf
    let mflat := commonFlat c (outcomePkts out)
    let s' := { s with sts := upd s.sts p st' }
    match impl.getObjValAs? (List CommonFlow) "flat" with
    | .error e => (s', Json.mkObj [("i", i), ("kind", "flat"), ("corr", false), ("diff", jsonOfList ["undecodable"]), ("decode_error", e), ("oracle", Json.mkObj [])])
    | .ok fl =>
      let (pi, pm) := (s.flats.lookup p).getD ([], [])
      ({ s' with flats := upd s'.flats p (pi ++ fl, pm ++ mflat) },
        let fc := fl == mflat || Preds.flatCorr c (outcomePkts out) fl
        Json.mkObj [("i", i), ("kind", "flat"), ("corr", fc), ("diff", jsonOfList (if fc then [] else ["common"])),
          ("oracle", Json.mkObj []), ("returned", true)])

/-- C08, second half: a V5/V7 STRUCTURE (count = number of records) exported by the real `to_be_bytes` and parsed
    back by the real `parse_bytes` must come back equal; the model does the same with `exportFixed` / `parsePacket`. -/
def handleFixedRoundtrip (s : Sess) (i : Nat) (op impl : Json) : Json :=
  let c := s.cfg 0
  let v := getNatD op "v" 5
  let (hdrL, recL, hO, rO) := if v == 5 then (c.t.v5Hdr, c.t.v5Rec, c.t.v5HdrOrder, c.t.v5RecOrder) else (c.t.v7Hdr, c.t.v7Rec, c.t.v7HdrOrder, c.t.v7RecOrder)
  match op.getObjValAs? (List Nat) "hdr", op.getObjValAs? (List (List Nat)) "recs" with
  | .ok h, .ok rs0 =>
    -- the derived protocol name is a function of the protocol number (the harness builds it with `ProtocolTypes::from`)
    let pn := recL.indexOf "protocol_number"
    let pt := recL.indexOf "protocol_type"
    -- "raw_pt": the harness takes the (derived) protocol_type from slot 14 instead of deriving it from protocol_number
    let rawPt := getBoolD op "raw_pt" false
    let rs := rs0.map fun r => r.set pt (c.t.protoFromU8 (if rawPt then r.getD pt 0 else r.getD pn 0))
    -- finding classes: a structure whose DERIVED fields (version, protocol_type) do not carry what the parser would put there
    let classes : List String :=
      (if h.getD 0 0 != v then ["c08-struct-version-field"] else []) ++
      (if rs.any (fun r => r.getD pt 0 != c.t.protoFromU8 (r.getD pn 0)) then ["c08-struct-protocol-type-field"] else [])
    let expected : Packet := if v == 5 then .v5 h rs else .v7 h rs
    let bytes := exportFixed hdrL recL hO rO h rs
    let (_, mout) := parseBytesM c {} bytes
    let mpk := outcomePkts mout
    match impl.getObjValAs? Bytes "bytes", impl.getObjValAs? (List Packet) "pkts" with
    | .ok ib, .ok ipk =>
      let d := (if ib != bytes then ["exports"] else []) ++ (if ipk != mpk then ["pkts"] else [])
      Json.mkObj [("i", i), ("kind", "parse"), ("corr", d.isEmpty), ("diff", jsonOfList d),
        ("oracle", Json.mkObj [("C08", Json.bool (ipk == [expected]))]), ("model_oracle", Json.mkObj [("C08", Json.bool (mpk == [expected]))]),
        ("returned", true), ("nontrivial", true), ("digest", (hash (toString (toJson ipk))).toNat), ("tags", jsonOfList (ipk.map pktTag)),
        ("impl_outcome", "done"), ("model_outcome", "done"), ("len", bytes.length), ("classes", jsonOfList classes)]
    | _, _ => Json.mkObj [("i", i), ("kind", "parse"), ("corr", false), ("diff", jsonOfList ["undecodable"]), ("oracle", Json.mkObj []), ("returned", true)]
  | _, _ => Json.mkObj [("i", i), ("bad", "fixed_roundtrip")]

def handle (s : Sess) (line : Json) : Sess × Json :=
  let i := getNatD line "i" 0
  let op := (line.getObjVal? "op").toOption.getD Json.null
  let impl := (line.getObjVal? "impl").toOption.getD Json.null
  match getStrD op "op" "" with
  | "scenario" => ({ unknownFields := s.unknownFields }, Json.mkObj [("i", i), ("kind", "scenario")])
  | "config" =>
    ({ s with unknownFields := getBoolD op "unknownFields" true }, Json.mkObj [("i", i), ("kind", "config")])
  | "new" =>
    let p := getNatD op "p" 0
    let a := match op.getObjVal? "allowed" with
      | .ok (.str "all") => allVersions
      | _ => (getNatList op "allowed").getD Generated.defaultAllowed
    ({ s with sts := upd s.sts p {}, implSts := upd s.implSts p {}, calls := upd s.calls p [], defs := upd s.defs p (some {}),
              allowed := upd s.allowed p a, flats := upd s.flats p ([], []) },
      Json.mkObj [("i", i), ("kind", "new")])
  | "allowed" =>
    ({ s with allowed := upd s.allowed (getNatD op "p" 0) ((getNatList op "set").getD []) }, Json.mkObj [("i", i), ("kind", "allowed")])
  | "forget" =>
    -- the CALLER removes a template id from the public cache maps of one protocol (`parser.v9_parser.templates.remove(&id)` …: template
    -- expiry); the model erases the id from the same two maps, and so does the recorded implementation state the oracles start from
    let p := getNatD op "p" 0
    let id := getNatD op "id" 0
    let forget (st : PState) : PState :=
      if getNatD op "proto" 9 == 9 then { st with v9T := amErase id st.v9T, v9O := amErase id st.v9O }
      else { st with ipT := amErase id st.ipT, ipO := amErase id st.ipO }
    ({ s with sts := upd s.sts p (forget ((s.sts.lookup p).getD {})), implSts := upd s.implSts p (forget ((s.implSts.lookup p).getD {})) },
      Json.mkObj [("i", i), ("kind", "forget")])
  | "adopt" =>
    -- the CALLER replaces the public cache maps of one protocol on parser `p` by a copy of those of parser `from`
    -- (`a.ipfix_parser.templates = b.ipfix_parser.templates.clone()` …: one parser serving several exporters, a restored snapshot)
    let p := getNatD op "p" 0
    let q := getNatD op "from" 0
    let adopt (dst src : PState) : PState :=
      if getNatD op "proto" 9 == 9 then { dst with v9T := src.v9T, v9O := src.v9O } else { dst with ipT := src.ipT, ipO := src.ipO }
    ({ s with sts := upd s.sts p (adopt ((s.sts.lookup p).getD {}) ((s.sts.lookup q).getD {})),
              implSts := upd s.implSts p (adopt ((s.implSts.lookup p).getD {}) ((s.implSts.lookup q).getD {})) },
      Json.mkObj [("i", i), ("kind", "adopt")])
  | "parse" =>
    if s.dead then (s, Json.mkObj [("i", i), ("kind", "skipped")]) else handleParse s i op impl (line.getObjVal? "impl2").toOption
  | "fixed_roundtrip" => (s, handleFixedRoundtrip s i op impl)
  | "flat" =>
    if s.dead then (s, Json.mkObj [("i", i), ("kind", "skipped")]) else handleFlat s i op impl
  | other =>
    if other.startsWith "assert_" then
      if s.dead then (s, Json.mkObj [("i", i), ("kind", "skipped")])
      -- an assertion about a parser that made no call in this scenario says nothing (e.g. a shrunk replay)
      else if (s.callsOf (getNatD op "a" 0)).isEmpty then (s, Json.mkObj [("i", i), ("kind", "skipped")])
      else (s, handleAssert s i op)
    else (s, Json.mkObj [("i", i), ("kind", "unknown-op"), ("op", other)])

partial def loop (h : IO.FS.Stream) (out : IO.FS.Stream) (s : Sess) : IO Unit := do
  let line ← h.getLine
  if line.isEmpty then return ()
  if line.trimAscii.toString.isEmpty then loop h out s else
  match Json.parse line with
  | .error e =>
    out.putStrLn (Json.mkObj [("bad", "json"), ("err", e)]).compress
    loop h out s
  | .ok j =>
    let (s', v) := handle s j
    out.putStrLn v.compress
    out.flush
    loop h out s'

/-- record boundaries of a V5 / V7 packet (a cut exactly there is still a cut strictly inside the packet) -/
def fixedBoundaries : Spec.Msg → List Nat
  | .v5 _ rs => (List.range rs.length).map fun j => 24 + 48 * j
  | .v7 _ rs => (List.range rs.length).map fun j => 24 + 52 * j
  | _ => []

/-- byte offsets inside the encoded message at which a flowset/set (or the header) ends -/
def setBoundaries : Spec.Msg → List Nat
  | .v9 m => (m.sets.foldl (fun (acc : List Nat × Nat) s => let n := acc.2 + (Spec.encV9FS s).length; (n :: acc.1, n)) ([20], 20)).1
  | _ => []

/-- `encode` mode: fill in `"hex"` of every op that carries abstract messages (`"msgs"`) using the
    specification's writer `Spec.enc`; everything else is passed through. -/
partial def encodeLoop (h : IO.FS.Stream) (out : IO.FS.Stream) (lastCut : Nat) : IO Unit := do
  let line ← h.getLine
  if line.isEmpty then return ()
  if line.trimAscii.toString.isEmpty then encodeLoop h out lastCut else
  match Json.parse line with
  | .error e => throw (IO.userError s!"encode: bad json: {e}")
  | .ok j =>
    match j.getObjVal? "msgs" with
    | .error _ =>
      -- `"cutlen":"last"` in an assert op refers to the cut computed for the preceding parse op
      let j := match j.getObjVal? "cutlen" with
        | .ok (.str "last") => j.setObjVal! "cutlen" (Json.num lastCut)
        | _ => j
      out.putStrLn j.compress
      encodeLoop h out lastCut
    | .ok ms =>
      match (fromJson? ms : Except String (List Spec.Msg)) with
      | .error e => throw (IO.userError s!"encode: bad msgs: {e} in {line.take 200}")
      | .ok msgs =>
        match j.getObjValAs? Nat "cutfrac" with
        | .error _ =>
          out.putStrLn (j.setObjVal! "hex" (Json.str (toHex (msgs.flatMap Spec.enc)))).compress
          encodeLoop h out lastCut
        | .ok frac =>
          -- truncation family: all messages but the last complete, the last one cut strictly inside
          -- (for V9: not on a flowset boundary); the cut point is frac/1000 of the way through
          let pre := msgs.dropLast.flatMap Spec.enc
          match msgs.getLast? with
          | none => throw (IO.userError "encode: cutfrac without msgs")
          | some last =>
            let e := Spec.enc last
            -- optional: cut `cutdelta` bytes after the `cutbound`-th flowset boundary instead
            let k0 := match j.getObjValAs? Nat "cutbound", j.getObjValAs? Nat "cutdelta" with
              | .ok bi, .ok dl =>
                let bs0 := (setBoundaries last).reverse ++ fixedBoundaries last
                if bs0.isEmpty then 1 + (e.length - 2) * frac / 1000 else bs0.getD (bi % bs0.length) 20 + dl
              | _, _ => 1 + (e.length - 2) * frac / 1000
            let bs := setBoundaries last
            let k := if bs.contains k0 then (if k0 + 1 < e.length then k0 + 1 else k0 - 1) else k0
            let k := if k ≥ e.length then e.length - 1 else k
            let j := (j.setObjVal! "hex" (Json.str (toHex (pre ++ e.take k)))).setObjVal! "cutlen" (Json.num k)
            -- the abstract messages no longer describe the bytes
            let j := j.setObjVal! "msgs_cut" ms
            let j := Json.mkObj ((j.getObj?.toOption.map (fun o => o.toList.filter (·.1 != "msgs"))).getD [])
            out.putStrLn j.compress
            encodeLoop h out k

def main (args : List String) : IO Unit := do
  match args with
  | ["encode"] => encodeLoop (← IO.getStdin) (← IO.getStdout) 0
  | _ => loop (← IO.getStdin) (← IO.getStdout) {}
