/-
  nfdriver — runs the executable model on the same operations as the Rust harness and compares.
  stdin : one JSON object per line  {"i":n,"op":{...},"impl":{...}}   (merged by check.py)
  stdout: one verdict per line      {"i":n,"corr":bool,"diff":[...],"oracle":{...},...}
-/
import NetflowModel.Wire
import NetflowModel.Generated
import NetflowModel.Oracle
open Lean Netflow

structure Sess where
  allowed : List (Nat × List Nat) := []
  sts : List (Nat × PState) := []
  unknownFields : Bool := true
  dead : Bool := false           -- the harness crashed earlier in this scenario

def Sess.cfg (s : Sess) (p : Nat) : Config :=
  { t := Generated.tables, allowed := (s.allowed.lookup p).getD Generated.defaultAllowed, unknownFields := s.unknownFields }

def Sess.st (s : Sess) (p : Nat) : PState := (s.sts.lookup p).getD {}

def Sess.setSt (s : Sess) (p : Nat) (st : PState) : Sess :=
  { s with sts := (p, st) :: s.sts.filter (·.1 != p) }

def Sess.setAllowed (s : Sess) (p : Nat) (a : List Nat) : Sess :=
  { s with allowed := (p, a) :: s.allowed.filter (·.1 != p) }

def getNatD (j : Json) (k : String) (d : Nat) : Nat :=
  match j.getObjValAs? Nat k with | .ok n => n | .error _ => d

def getStrD (j : Json) (k : String) (d : String) : String :=
  match j.getObjValAs? String k with | .ok n => n | .error _ => d

def getNatList (j : Json) (k : String) : Option (List Nat) :=
  match j.getObjValAs? (List Nat) k with | .ok n => some n | .error _ => none

def wants (op : Json) (w : String) : Bool :=
  match op.getObjValAs? (List String) "want" with | .ok l => l.contains w | .error _ => false

def outcomeStr : Outcome → String
  | .done _ => "done" | .panic _ => "panic" | .overflow _ => "overflow"

def outcomePkts : Outcome → List Packet
  | .done ps => ps | .panic _ => [] | .overflow _ => []

def modelParse (c : Config) (st : PState) (buf : Bytes) (wExport wCommon : Bool) : ParseAns × PState :=
  let (st', out) := parseBytes c st buf
  let pkts := outcomePkts out
  ({ outcome := outcomeStr out, pkts := pkts, state := st',
     exports := if wExport then pkts.map (exportPacket c) else [],
     common := if wCommon then pkts.map (toCommon c) else [] }, st')

def diffParts (a b : ParseAns) : List String :=
  (if a.outcome != b.outcome then ["outcome"] else []) ++
  (if a.pkts != b.pkts then ["pkts"] else []) ++
  (if a.state != b.state then ["state"] else []) ++
  (if a.exports != b.exports then ["exports"] else []) ++
  (if a.common != b.common then ["common"] else [])

def pktNontrivial : Packet → Bool
  | .v5 _ rs => !rs.isEmpty
  | .v7 _ rs => !rs.isEmpty
  | .v9 _ ss => !ss.isEmpty
  | .ipfix _ ss => !ss.isEmpty
  | .error _ _ => true

def pktTag : Packet → String
  | .v5 .. => "v5" | .v7 .. => "v7" | .v9 .. => "v9" | .ipfix .. => "ipfix"
  | .error .incomplete _ => "err.incomplete"
  | .error (.partialParse v _) _ => s!"err.partial{v}"
  | .error (.unknownVersion _) _ => "err.unknown"

def jsonOfList (l : List String) : Json := Json.arr (l.map Json.str).toArray

def handleParse (s : Sess) (i : Nat) (op impl : Json) : Sess × Json :=
  let p := getNatD op "p" 0
  let c := s.cfg p
  let st := s.st p
  match unhex (getStrD op "hex" "") with
  | none => (s, Json.mkObj [("i", i), ("bad", "hex")])
  | some buf =>
    let (m, st') := modelParse c st buf (wants op "export") (wants op "common")
    let s' := s.setSt p st'
    let implOutcome := getStrD impl "outcome" "missing"
    if implOutcome == "abort" || implOutcome == "timeout" || implOutcome == "missing" then
      -- the real code did not return: nothing to compare structurally
      ({ s' with dead := true },
        Json.mkObj [("i", i), ("kind", "parse"), ("corr", m.outcome == "overflow"), ("diff", jsonOfList ["outcome"]),
          ("model_outcome", m.outcome), ("impl_outcome", implOutcome), ("returned", false),
          ("oracle", Json.mkObj [("C01", false)]), ("len", buf.length)])
    else
      match (fromJson? impl : Except String ParseAns) with
      | .error e =>
        (s', Json.mkObj [("i", i), ("kind", "parse"), ("corr", false), ("diff", jsonOfList ["undecodable"]),
          ("decode_error", e), ("model_outcome", m.outcome), ("impl_outcome", implOutcome), ("returned", true),
          ("oracle", Json.mkObj []), ("len", buf.length)])
      | .ok a =>
        let d := diffParts a m
        let orc := Preds.parseOracles c st buf a
        (s', Json.mkObj [("i", i), ("kind", "parse"), ("corr", d.isEmpty), ("diff", jsonOfList d),
          ("model_outcome", m.outcome), ("impl_outcome", implOutcome), ("returned", true),
          ("oracle", Json.mkObj (orc.map fun (k, v) => (k, Json.bool v))),
          ("classes", jsonOfList (Preds.parseClasses c st buf a)),
          ("tags", jsonOfList (a.pkts.map pktTag)),
          ("nontrivial", a.pkts.any pktNontrivial),
          ("digest", (hash (toString (toJson a.pkts) ++ toString (toJson a.state))).toNat),
          ("model", if d.isEmpty || buf.length > 4096 then Json.null else toJson m),
          ("len", buf.length)])

def handle (s : Sess) (line : Json) : Sess × Json :=
  let i := getNatD line "i" 0
  let op := (line.getObjVal? "op").toOption.getD Json.null
  let impl := (line.getObjVal? "impl").toOption.getD Json.null
  match getStrD op "op" "" with
  | "scenario" => ({ unknownFields := s.unknownFields }, Json.mkObj [("i", i), ("kind", "scenario")])
  | "config" =>
    ({ s with unknownFields := (op.getObjValAs? Bool "unknownFields").toOption.getD true }, Json.mkObj [("i", i), ("kind", "config")])
  | "new" =>
    let p := getNatD op "p" 0
    let s := s.setSt p {}
    let s := match getNatList op "allowed" with | some a => s.setAllowed p a | none => s.setAllowed p Generated.defaultAllowed
    (s, Json.mkObj [("i", i), ("kind", "new")])
  | "allowed" =>
    (s.setAllowed (getNatD op "p" 0) ((getNatList op "set").getD []), Json.mkObj [("i", i), ("kind", "allowed")])
  | "parse" =>
    if s.dead then (s, Json.mkObj [("i", i), ("kind", "skipped")]) else handleParse s i op impl
  | other => (s, Json.mkObj [("i", i), ("kind", "unknown-op"), ("op", other)])

partial def loop (h : IO.FS.Stream) (out : IO.FS.Stream) (s : Sess) : IO Unit := do
  let line ← h.getLine
  if line.isEmpty then return ()
  if line.trimAscii.toString.isEmpty then loop h out s else
  match Json.parse line with
  | .error e =>
    out.putStrLn (Json.mkObj [("bad", "json"), ("err", e)]).compress
    loop h out s
  | .ok j =>
    let (s', v) := handle s j
    out.putStrLn v.compress
    out.flush
    loop h out s'

/-- `encode` mode: fill in `"hex"` of every op that carries abstract messages (`"msgs"`) using the
    specification's writer `Spec.enc`; everything else is passed through. -/
partial def encodeLoop (h : IO.FS.Stream) (out : IO.FS.Stream) : IO Unit := do
  let line ← h.getLine
  if line.isEmpty then return ()
  if line.trimAscii.toString.isEmpty then encodeLoop h out else
  match Json.parse line with
  | .error e => throw (IO.userError s!"encode: bad json: {e}")
  | .ok j =>
    match j.getObjVal? "msgs" with
    | .error _ => out.putStrLn j.compress
    | .ok ms =>
      match (fromJson? ms : Except String (List Spec.Msg)) with
      | .error e => throw (IO.userError s!"encode: bad msgs: {e} in {line.take 200}")
      | .ok msgs =>
        let bytes := msgs.flatMap Spec.enc
        out.putStrLn (j.setObjVal! "hex" (Json.str (toHex bytes))).compress
    encodeLoop h out

def main (args : List String) : IO Unit := do
  match args with
  | ["encode"] => encodeLoop (← IO.getStdin) (← IO.getStdout)
  | _ => loop (← IO.getStdin) (← IO.getStdout) {}
