/-
  Spec/Cisco.lean — the Cisco NetFlow V5 / V7 export formats (Cisco white paper "NetFlow Export
  Datagram Format"), written by hand as (field name, width in bytes) in wire order, using the
  crate's field names.  This is SPECIFICATION: the generated layouts are compared with it.
-/
import NetflowModel.Layout
namespace Netflow.Spec

/-- V5 header (24 bytes including the 2-byte version) -/
def ciscoV5Hdr : List (String × Nat) :=
  [("version", 2), ("count", 2), ("sys_up_time", 4), ("unix_secs", 4), ("unix_nsecs", 4), ("flow_sequence", 4),
   ("engine_type", 1), ("engine_id", 1), ("sampling_interval", 2)]

/-- V5 flow record (48 bytes) -/
def ciscoV5Rec : List (String × Nat) :=
  [("src_addr", 4), ("dst_addr", 4), ("next_hop", 4), ("input", 2), ("output", 2), ("d_pkts", 4), ("d_octets", 4),
   ("first", 4), ("last", 4), ("src_port", 2), ("dst_port", 2), ("pad1", 1), ("tcp_flags", 1), ("protocol_number", 1),
   ("tos", 1), ("src_as", 2), ("dst_as", 2), ("src_mask", 1), ("dst_mask", 1), ("pad2", 2)]

/-- V7 header (24 bytes including the version) -/
def ciscoV7Hdr : List (String × Nat) :=
  [("version", 2), ("count", 2), ("sys_up_time", 4), ("unix_secs", 4), ("unix_nsecs", 4), ("flow_sequence", 4), ("reserved", 4)]

/-- V7 flow record (52 bytes) -/
def ciscoV7Rec : List (String × Nat) :=
  [("src_addr", 4), ("dst_addr", 4), ("next_hop", 4), ("input", 2), ("output", 2), ("d_pkts", 4), ("d_octets", 4),
   ("first", 4), ("last", 4), ("src_port", 2), ("dst_port", 2), ("flags_fields_valid", 1), ("tcp_flags", 1),
   ("protocol_number", 1), ("tos", 1), ("src_as", 2), ("dst_as", 2), ("src_mask", 1), ("dst_mask", 1),
   ("flags_fields_invalid", 2), ("router_src", 4)]

/-- what a derive(Nom) layout occupies on the wire, the 2-byte version (consumed by the
    dispatcher and injected as a constant) counted at its declared width -/
def layoutWire (lay : Layout) : List (String × Nat) :=
  lay.filterMap fun f =>
    match f.kind with
    | .wire w => some (f.name, w)
    | .const _ => some (f.name, f.tw)
    | .protoOf _ => none

def offsetOf (spec : List (String × Nat)) (name : String) : Nat :=
  ((spec.takeWhile fun p => p.1 != name).map (·.2)).sum

def totalLen (spec : List (String × Nat)) : Nat := (spec.map (·.2)).sum

end Netflow.Spec
