/-
  Spec/Expected.lean — what a collector must report for an abstract stream (the reference the
  properties C04/C05/C06/C07/C13 are stated against): "latest definition wins" template memory,
  per-type big-endian interpretation `interpSpec`, conformance predicates.  SPECIFICATION.
-/
import NetflowModel.Spec.Stream
import NetflowModel.Spec.Iana
namespace Netflow.Spec
open Netflow

/-- what is known about template id `id` of one protocol: the most recent definition, of either kind -/
inductive V9Def where
  | t (t : V9Template)
  | o (t : V9OptTemplate)
  deriving Repr, DecidableEq

inductive IpDef where
  | t (t : IpTemplateSpec)
  | o (t : IpOptTemplateSpec)
  deriving Repr, DecidableEq

/-- the exporter-side truth about templates announced so far, per protocol -/
structure Defs where
  v9 : List (Nat × V9Def) := []
  ip : List (Nat × IpDef) := []
  deriving Repr, DecidableEq

/-! ### per-type interpretation of a field's bytes -/

/-- `DataNumber` variant the library uses for an unsigned field of `w` bytes -/
def unsignedOf (bs : Bytes) : Option DataNumber :=
  let n := beNat bs
  match bs.length with
  | 1 => some (.u8 n) | 2 => some (.u16 n) | 3 => some (.u24 n) | 4 => some (.u32 n)
  | 8 => some (.u64 n) | 16 => some (.u128 n)
  | _ => none

/-- signed fields: the library has a 24-bit and a 32-bit signed variant only -/
def signedOf (bs : Bytes) : Option DataNumber :=
  match bs.length with
  | 1 | 2 | 4 | 8 | 16 => some (.i32 (beInt bs))
  | 3 => some (.i24 (beInt bs))
  | _ => none

/-- protocol number → discriminant of the variant carrying its IANA name -/
def protoDiscOf (names : List (Nat × String)) (n : Nat) : Option Nat :=
  match names.find? (fun p => p.2 == ianaName n) with
  | some p => some p.1
  | none => none

/-- the value a field of library type `ty` with content `bs` stands for; `none` = width not in the
    supported set of that type -/
def interpSpec (protoNames : List (Nat × String)) (ty : FType) (bs : Bytes) : Option FieldValue :=
  match ty with
  | .unsigned => (unsignedOf bs).map .num
  | .signed => (signedOf bs).map .num
  | .str => some (.str (utf8Lossy bs))
  | .ip4 => if bs.length = 4 then some (.ip4 (beNat bs)) else none
  | .ip6 => if bs.length = 16 then some (.ip6 (beNat bs)) else none
  | .mac => if bs.length = 6 then some (.mac bs) else none
  | .f64 => if bs.length = 8 then some (.f64 (beNat bs)) else none
  | .proto => if bs.length = 1 then (protoDiscOf protoNames (beNat bs)).map .proto else none
  | .durS => if bs.length ∈ [1, 2, 3, 4, 8] then some (.dur (beNat bs) 0) else none
  | .durMs => if bs.length ∈ [1, 2, 3, 4, 8] then some (.dur (beNat bs / 1000) (beNat bs % 1000 * 1000000)) else none
  | .durUs => if bs.length ∈ [1, 2, 3, 4, 8] then some (.dur (beNat bs / 1000000) (beNat bs % 1000000 * 1000)) else none
  | .durNs => if bs.length ∈ [1, 2, 3, 4, 8] then some (.dur (beNat bs / 1000000000) (beNat bs % 1000000000)) else none
  | .vec => some (.vec bs)
  | .unknown => some (.vec bs)

def allSome {α : Type} : List (Option α) → Option (List α)
  | [] => some []
  | none :: _ => none
  | some a :: rest => (allSome rest).map (a :: ·)

/-! ### V9 -/

def v9Insert (d : List (Nat × V9Def)) (k : Nat) (v : V9Def) : List (Nat × V9Def) := amInsert k v d

def expV9Rec (c : Config) (names : List (Nat × String)) (fs : List TField) (r : List Bytes) : Option Rec :=
  if fs.length ≠ r.length then none else
  allSome ((fs.zip r).zipIdx.map fun p =>
    let f := p.1.1; let bs := p.1.2
    if bs.length ≠ f.len then none else
    (interpSpec names (c.t.v9Ty (c.t.v9Field f.typ)) bs).map fun v => (p.2, c.t.v9Field f.typ, v))

/-- expected body of one flowset and the template memory after it; `none` = the flowset is not
    conformant (undefined template, wrong record shape, unsupported width) or the crate's result
    type cannot express it -/
def expV9Set (c : Config) (names : List (Nat × String)) (d : List (Nat × V9Def)) : V9FS → Option (List (Nat × V9Def) × Option V9Set)
  | .templates ts pad =>
    some (ts.foldl (fun d t => v9Insert d t.id (.t t)) d,
          some ({ id := 0, len := (encV9FS (.templates ts pad)).length, body := .templates ts pad } : V9Set))
  | .optTemplates ts pad =>
    some (ts.foldl (fun d t => v9Insert d t.id (.o t)) d,
          some ({ id := 1, len := (encV9FS (.optTemplates ts pad)).length, body := .optTemplates ts pad } : V9Set))
  | .data id recs pad =>
    match amLookup id d with
    | some (.t t) =>
      -- a record must occupy at least one byte and padding must be shorter than a record
      if (t.fields.map (·.len)).sum = 0 ∨ pad.length ≥ (t.fields.map (·.len)).sum then none else
      match allSome (recs.map (expV9Rec c names t.fields)) with
      | some rs => some (d, some ({ id := id, len := (encV9FS (.data id recs pad)).length, body := .data rs pad } : V9Set))
      | none => none
    | some (.o t) =>
      if recs.any (fun r => r.length ≠ t.scope.length + t.opts.length ∨
          (t.scope ++ t.opts).map (·.len) ≠ r.map (·.length)) then none else
      match recs with
      | [r] =>
        let sc := (t.scope.zip (r.take t.scope.length)).map fun p => (c.t.scopeField p.1.typ, p.2)
        let os := (t.opts.zip (r.drop t.scope.length)).map fun p => (c.t.v9Field p.1.typ, p.2)
        some (d, some ({ id := id, len := (encV9FS (.data id recs pad)).length, body := .optData sc os pad } : V9Set))
      | _ => some (d, none)      -- conformant, but the crate's `OptionsData` type holds one record: inexpressible
    | none => none

def expV9Sets (c : Config) (names : List (Nat × String)) : List (Nat × V9Def) → List V9FS → Option (List (Nat × V9Def) × Option (List V9Set))
  | d, [] => some (d, some [])
  | d, s :: ss =>
    match expV9Set c names d s with
    | none => none
    | some (d1, s1) =>
      match expV9Sets c names d1 ss with
      | none => none
      | some (d2, ss1) =>
        match s1, ss1 with
        | some a, some b => some (d2, some (a :: b))
        | _, _ => some (d2, none)

/-! ### IPFIX -/

def ipInsert (d : List (Nat × IpDef)) (k : Nat) (v : IpDef) : List (Nat × IpDef) := amInsert k v d

def ipFieldTy (c : Config) (f : IpTField) : Option FType :=
  match f.ent with
  | some _ => none                      -- enterprise-specific: opaque bytes
  | none => some (c.t.ipTy (c.t.ipField f.typ))

def expIpField (c : Config) (names : List (Nat × String)) (f : IpTField) (v : FieldBytes) : Option FieldValue :=
  -- framing must agree with the template: variable-length iff declared length 65535
  if (f.len = 65535) ≠ (v.form ≠ .fixed) then none
  else if f.len ≠ 65535 ∧ v.content.length ≠ f.len then none
  else if v.form = .short ∧ v.content.length ≥ 255 then none
  else if v.content.length ≥ 65536 then none
  else
    match ipFieldTy c f with
    | none => some (.vec v.content)
    | some ty => interpSpec names ty v.content

def expIpRec (c : Config) (names : List (Nat × String)) (fs : List IpTField) (r : List FieldBytes) : Option (List Rec) :=
  if fs.length ≠ r.length then none else
  allSome ((fs.zip r).zipIdx.map fun p =>
    (expIpField c names p.1.1 p.1.2).map fun v => [(p.2, (match p.1.1.ent with | some _ => c.t.ipEnterprise | none => c.t.ipField p.1.1.typ), v)])

def expIpSet (c : Config) (names : List (Nat × String)) (d : List (Nat × IpDef)) : IpFS → Option (List (Nat × IpDef) × Option IpSet)
  | .templates ts pad =>
    match ts with
    | [t] =>
      some (ipInsert d t.id (.t t),
            some ({ id := 2, len := (encIpFS (.templates ts pad)).length, body := .template { id := t.id, fieldCount := t.fields.length, fields := t.fields, pad := pad } } : IpSet))
    | _ => some (ts.foldl (fun d t => ipInsert d t.id (.t t)) d, none)   -- conformant (RFC 7011 §3.4.1) but the crate's `FlowSetBody::Template` holds ONE record: inexpressible
  | .optTemplates ts pad =>
    match ts with
    | [t] =>
      some (ipInsert d t.id (.o t),
            some ({ id := 3, len := (encIpFS (.optTemplates ts pad)).length, body := .optTemplate { id := t.id, fieldCount := t.fields.length, scopeCount := t.scopeCount, fields := t.fields, pad := pad } } : IpSet))
    | _ => some (ts.foldl (fun d t => ipInsert d t.id (.o t)) d, none)
  | .data id recs pad =>
    match amLookup id d with
    | some (.t t) =>
      match allSome (recs.map (expIpRec c names t.fields)) with
      | some rs => some (d, some ({ id := id, len := (encIpFS (.data id recs pad)).length, body := .data rs.flatten pad } : IpSet))
      | none => none
    | some (.o t) =>
      match allSome (recs.map (expIpRec c names t.fields)) with
      | some rs => some (d, some ({ id := id, len := (encIpFS (.data id recs pad)).length, body := .optData rs.flatten pad } : IpSet))
      | none => none
    | none => none

def expIpSets (c : Config) (names : List (Nat × String)) : List (Nat × IpDef) → List IpFS → Option (List (Nat × IpDef) × Option (List IpSet))
  | d, [] => some (d, some [])
  | d, s :: ss =>
    match expIpSet c names d s with
    | none => none
    | some (d1, s1) =>
      match expIpSets c names d1 ss with
      | none => none
      | some (d2, ss1) =>
        match s1, ss1 with
        | some a, some b => some (d2, some (a :: b))
        | _, _ => some (d2, none)

/-! ### whole messages -/

def protoSpecDisc (names : List (Nat × String)) (n : Nat) : Nat := (protoDiscOf names n).getD 0

/-- expected decoded form of a Cisco fixed-format packet: values in the order of the generated
    layout, looked up BY NAME in the Cisco layout; the symbolic protocol is the IANA name's variant -/
def expFixedVals (names : List (Nat × String)) (lay : Layout) (spec : List (String × Nat)) (version count : Nat) (vals : List Nat) : List Nat :=
  let named : List (String × Nat) := ("version", version) :: ("count", count) :: (spec.map (·.1)).zip vals
  lay.map fun f =>
    match f.kind with
    | .protoOf src => protoSpecDisc names ((named.lookup ((lay.map (·.name)).getD src "")).getD 0)
    | _ => (named.lookup f.name).getD 0

/-- what must be reported for one message -/
inductive Exp where
  | pkt (p : Packet)
  | inexpressible (version : Nat)      -- conformant input that the crate's result types cannot represent
  deriving Repr, DecidableEq

/-- expected packet and template memory after one message; `none` = not a conformant message -/
def expMsg (c : Config) (names : List (Nat × String)) (d : Defs) : Msg → Option (Defs × Exp)
  | .v5 h rs =>
    some (d, .pkt (.v5 (expFixedVals names c.t.v5Hdr (ciscoV5Hdr.drop 2) 5 rs.length h)
                 (rs.map (expFixedVals names c.t.v5Rec ciscoV5Rec 5 0))))
  | .v7 h rs =>
    some (d, .pkt (.v7 (expFixedVals names c.t.v7Hdr (ciscoV7Hdr.drop 2) 7 rs.length h)
                 (rs.map (expFixedVals names c.t.v7Rec ciscoV7Rec 7 0))))
  | .v9 m =>
    if m.count ≠ m.sets.length then none else
    match expV9Sets c names d.v9 m.sets with
    | none => none
    | some (d', some ss) => some ({ d with v9 := d' }, .pkt (.v9 [9, m.count, m.sysUpTime, m.unixSecs, m.seq, m.sourceId] ss))
    | some (d', none) => some ({ d with v9 := d' }, .inexpressible 9)
  | .ipfix m =>
    match expIpSets c names d.ip m.sets with
    | none => none
    | some (d', some ss) => some ({ d with ip := d' }, .pkt (.ipfix [10, (encIpfix m).length, m.exportTime, m.seq, m.odid] ss))
    | some (d', none) => some ({ d with ip := d' }, .inexpressible 10)
  | .raw _ => none

def expMsgs (c : Config) (names : List (Nat × String)) : Defs → List Msg → Option (Defs × List Exp)
  | d, [] => some (d, [])
  | d, m :: ms =>
    match expMsg c names d m with
    | none => none
    | some (d1, p) =>
      match expMsgs c names d1 ms with
      | none => none
      | some (d2, ps) => some (d2, p :: ps)

end Netflow.Spec
