/-
  Spec/Stream.lean — abstract export streams and the RFC 3954 / RFC 7011 / Cisco WRITERS.
  SPECIFICATION (hand-written from the RFCs, no reference to the crate's code): `enc` turns an
  abstract message into the bytes an exporter would send.
-/
import NetflowModel.Types
import NetflowModel.Spec.Cisco
namespace Netflow.Spec
open Netflow

/-- how an IPFIX field value is framed in a data record (RFC 7011 §7) -/
inductive VarForm where
  | fixed            -- fixed-length field: content only
  | short            -- variable length, 1-byte length prefix (< 255)
  | long             -- variable length, 255 then 2-byte length
  deriving Repr, DecidableEq

structure FieldBytes where
  content : Bytes
  form : VarForm
  deriving Repr, DecidableEq

/-- V9 flowsets (RFC 3954 §5) -/
inductive V9FS where
  | templates (ts : List V9Template) (pad : Bytes)
  | optTemplates (ts : List V9OptTemplate) (pad : Bytes)
  | data (id : Nat) (recs : List (List Bytes)) (pad : Bytes)    -- data or options data records
  deriving Repr, DecidableEq

structure V9Msg where
  count : Nat
  sysUpTime : Nat
  unixSecs : Nat
  seq : Nat
  sourceId : Nat
  sets : List V9FS
  deriving Repr, DecidableEq

structure IpTemplateSpec where
  id : Nat
  fields : List IpTField            -- `typ` < 32768; `ent = some pen` sets the enterprise bit
  deriving Repr, DecidableEq

structure IpOptTemplateSpec where
  id : Nat
  scopeCount : Nat
  fields : List IpTField
  deriving Repr, DecidableEq

/-- IPFIX sets (RFC 7011 §3.3) -/
inductive IpFS where
  | templates (ts : List IpTemplateSpec) (pad : Bytes)
  | optTemplates (ts : List IpOptTemplateSpec) (pad : Bytes)
  | data (id : Nat) (recs : List (List FieldBytes)) (pad : Bytes)
  deriving Repr, DecidableEq

structure IpMsg where
  exportTime : Nat
  seq : Nat
  odid : Nat
  sets : List IpFS
  deriving Repr, DecidableEq

/-- one export packet / message -/
inductive Msg where
  | v5 (hdr : List Nat) (recs : List (List Nat))    -- values of the Cisco fields after `count`, records by Cisco record fields
  | v7 (hdr : List Nat) (recs : List (List Nat))
  | v9 (m : V9Msg)
  | ipfix (m : IpMsg)
  | raw (b : Bytes)
  deriving Repr, DecidableEq

/-! ### writers -/

def encByLayout (spec : List (String × Nat)) (vals : List Nat) : Bytes :=
  (spec.zip vals).flatMap fun p => toBE p.1.2 p.2

/-- Cisco V5/V7: version, count = number of records, remaining header fields, records -/
def encFixed (version : Nat) (hdrSpec recSpec : List (String × Nat)) (hdr : List Nat) (recs : List (List Nat)) : Bytes :=
  toBE 2 version ++ toBE 2 recs.length ++ encByLayout (hdrSpec.drop 2) hdr ++ recs.flatMap (encByLayout recSpec)

def encTField (f : TField) : Bytes := toBE 2 f.typ ++ toBE 2 f.len

def encV9Template (t : V9Template) : Bytes :=
  toBE 2 t.id ++ toBE 2 t.fieldCount ++ t.fields.flatMap encTField

def encV9OptTemplate (t : V9OptTemplate) : Bytes :=
  toBE 2 t.id ++ toBE 2 t.scopeLen ++ toBE 2 t.optLen ++ t.scope.flatMap encTField ++ t.opts.flatMap encTField

/-- FlowSet = id, length (header included), body -/
def frame (id : Nat) (body : Bytes) : Bytes := toBE 2 id ++ toBE 2 (body.length + 4) ++ body

def encV9FS : V9FS → Bytes
  | .templates ts pad => frame 0 (ts.flatMap encV9Template ++ pad)
  | .optTemplates ts pad => frame 1 (ts.flatMap encV9OptTemplate ++ pad)
  | .data id recs pad => frame id (recs.flatMap List.flatten ++ pad)

def encV9 (m : V9Msg) : Bytes :=
  toBE 2 9 ++ toBE 2 m.count ++ toBE 4 m.sysUpTime ++ toBE 4 m.unixSecs ++ toBE 4 m.seq ++ toBE 4 m.sourceId ++
  m.sets.flatMap encV9FS

def encIpTField (f : IpTField) : Bytes :=
  match f.ent with
  | some pen => toBE 2 (f.typ + 32768) ++ toBE 2 f.len ++ toBE 4 pen
  | none => toBE 2 f.typ ++ toBE 2 f.len

def encIpTemplate (t : IpTemplateSpec) : Bytes :=
  toBE 2 t.id ++ toBE 2 t.fields.length ++ t.fields.flatMap encIpTField

def encIpOptTemplate (t : IpOptTemplateSpec) : Bytes :=
  toBE 2 t.id ++ toBE 2 t.fields.length ++ toBE 2 t.scopeCount ++ t.fields.flatMap encIpTField

def encFieldBytes (f : FieldBytes) : Bytes :=
  match f.form with
  | .fixed => f.content
  | .short => toBE 1 f.content.length ++ f.content
  | .long => [255] ++ toBE 2 f.content.length ++ f.content

def encIpFS : IpFS → Bytes
  | .templates ts pad => frame 2 (ts.flatMap encIpTemplate ++ pad)
  | .optTemplates ts pad => frame 3 (ts.flatMap encIpOptTemplate ++ pad)
  | .data id recs pad => frame id (recs.flatMap (fun r => r.flatMap encFieldBytes) ++ pad)

def encIpfix (m : IpMsg) : Bytes :=
  let body := m.sets.flatMap encIpFS
  toBE 2 10 ++ toBE 2 (body.length + 16) ++ toBE 4 m.exportTime ++ toBE 4 m.seq ++ toBE 4 m.odid ++ body

def enc : Msg → Bytes
  | .v5 h rs => encFixed 5 ciscoV5Hdr ciscoV5Rec h rs
  | .v7 h rs => encFixed 7 ciscoV7Hdr ciscoV7Rec h rs
  | .v9 m => encV9 m
  | .ipfix m => encIpfix m
  | .raw b => b

end Netflow.Spec
