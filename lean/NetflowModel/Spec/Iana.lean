/-
  Spec/Iana.lean — IANA "Assigned Internet Protocol Numbers" by number, in the crate's variant
  vocabulary (identification of IANA keywords with variant spellings made once, by hand:
  BBN-RCC-MON = Bbcrccmon, 3PC = Threepc, TP++ = Tppp, 61 = Anydistributedprotocol (any host
  internal protocol), 63 = Anylocalnetwork, 68 = Anydistributedfilesystem,
  99 = Anyprivateencryptionscheme, 114 = Any0Hopprotocol, …).  Numbers 145..254 carry no name
  in the crate's vocabulary (`Unknown`), 255 is `Reserved`.  SPECIFICATION.
-/
namespace Netflow.Spec

def ianaAssigned : List String :=
  ["Hopopt", "Icmp", "Igmp", "Ggp", "Ipv4", "St", "Tcp", "Cbt", "Egp", "Igp",
   "Bbcrccmon", "Nvpii", "Pup", "Argus", "Emcon", "Xnet", "Chaos", "Udp", "Mux", "Dcnmeas",
   "Hmp", "Prm", "Xnxidp", "Trunk1", "Trunk2", "Leaf1", "Leaf2", "Rdp", "Irtp", "Isotp4",
   "Netblt", "Mfensp", "Meritinp", "Dccp", "Threepc", "Idpr", "Xtp", "Ddp", "Idprcmtp", "Tppp",
   "Il", "Ipv6", "Sdrp", "Ipv6Route", "Ipv6Frag", "Idrp", "Rsvp", "Gre", "Dsr", "Bna",
   "Esp", "Ah", "Inlsp", "Swipe", "Narp", "Mobile", "Tlsp", "Skip", "Ipv6Icmp", "Ipv6Nonxt",
   "Ipv6Opts", "Anydistributedprotocol", "Cftp", "Anylocalnetwork", "Satexpak", "Kryptolan", "Rvd", "Ippc",
   "Anydistributedfilesystem", "Satmon",
   "Visa", "Ipcv", "Cpnx", "Cphb", "Wsn", "Pvp", "Brsatmon", "Sunnd", "Wbmon", "Wbexpak",
   "Isoip", "Vmtp", "Securevmtp", "Vines", "Iptm", "Nsfnetigp", "Dgp", "Tcf", "Eigrp", "Ospfigp",
   "Spriterpc", "Larp", "Mtp", "Ax25", "Ipip", "Micp", "Sccsp", "Etherip", "Encap", "Anyprivateencryptionscheme",
   "Gmtp", "Ifmp", "Pnni", "Pim", "Aris", "Scps", "Qnx", "An", "Ipcomp", "Snp",
   "Compaqpeer", "Ipxinip", "Vrrp", "Pgm", "Any0Hopprotocol", "L2Tp", "Ddx", "Iatp", "Stp", "Srp",
   "Uti", "Smp", "Sm", "Ptp", "Isisoveripv4", "Fire", "Crtp", "Crudp", "Sscopmce", "Iplt",
   "Sps", "Pipe", "Sctp", "Fc", "Rsvpe2Eignore", "Mobilityheader", "Udplite", "Mplsinip", "Manet", "Hip",
   "Shim6", "Wesp", "Rohc", "Ethernet", "Aggfrag"]

/-- IANA name (crate vocabulary) of protocol number `n` -/
def ianaName (n : Nat) : String :=
  if n = 255 then "Reserved" else ianaAssigned.getD n "Unknown"

end Netflow.Spec
