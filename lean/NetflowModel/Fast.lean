/-
  Fast.lean — run-time replacements (`@[csimp]`) for the hot functions of the executable model.

  NOTHING here changes a model definition: every replacement `f ↦ fFast` is justified by a
  kernel-checked theorem `@f = @fFast`, which the code generator uses when it compiles code that
  mentions `f` AFTER the theorem was declared.  Because the model files were compiled before this
  file, a replacement only takes effect in definitions compiled later; therefore the whole call
  chain from the driver's entry points (`parseBytes`, `Findings.inputClasses`) down to the
  primitives is re-stated here:

  * `…C`  : a verbatim COPY of the model definition (proof `rfl` or a trivial induction) whose
            only purpose is to be compiled again, now with the replacements below in force;
  * `…F`/`…M` : a genuinely different, faster algorithm, with an equality proof.

  What was slow (input is `List UInt8`, `List.length` is O(n)):
    takeN/beU            `n ≤ i.length`                 → `lenGe n i` walks ≤ n cells
    ipRecLoop            `i.length - r.length` per record→ consumed-byte count returned by a
                                                            measured record parser, length threaded
    ipParseSets          `r.length = i.length` per set   → O(1) test on the set's header fields
    many0 (3 callers)    `r.length = i.length` per item  → dropped (the item parsers always consume)
    v9ScopeLoop/OptLoop  `r.length = i.length` per field → `f.len = 0`
    v9RecLoop            `acc ++ [r]` per record         → reversed accumulator
    Findings.varlenTail  `rest.sum` per record           → one pass computing suffix sums
    Preds.decomposes / c03ok / errConsistent / takeAllowed / versionOf (per-call oracles)
                         `n ≤ buf.length`, old `beU` per packet → `lenGe`, new `beU`

  Entry points used by Main.lean that are re-routed: `parseBytes`, `Findings.inputClasses`,
  `Preds.parseOracles`, `Preds.takeAllowed`.  Every `@[csimp]` theorem below depends on no axioms
  beyond propext / Quot.sound (`#print axioms`).
-/
import NetflowModel.Lemmas.Basic
import NetflowModel.Findings
import NetflowModel.Oracle
namespace Netflow.Fast
open Netflow

/-! ### primitives -/

/-- `decide (n ≤ i.length)` looking at no more than `n` cells -/
def lenGe {α : Type} : Nat → List α → Bool
  | 0, _ => true
  | _ + 1, [] => false
  | n + 1, _ :: t => lenGe n t

theorem lenGe_eq {α : Type} : ∀ (n : Nat) (i : List α), lenGe n i = decide (n ≤ i.length)
  | 0, _ => by simp [lenGe]
  | _ + 1, [] => by simp [lenGe]
  | n + 1, _ :: t => by simp [lenGe, lenGe_eq n t]

def takeNF (n : Nat) : P Bytes := fun i =>
  if lenGe n i then some (i.take n, i.drop n) else none

@[csimp] theorem takeN_eq : @takeN = @takeNF := by
  funext n i; simp [takeN, takeNF, lenGe_eq]

def beUF (w : Nat) : P Nat := fun i =>
  if lenGe w i then some (beNat (i.take w), i.drop w) else none

@[csimp] theorem beU_eq : @beU = @beUF := by
  funext n i; simp [beU, beUF, lenGe_eq]

/-! ### length bookkeeping of the primitives -/

theorem takeN_len {n : Nat} {i b r : Bytes} (h : takeN n i = some (b, r)) : i.length = r.length + n := by
  obtain ⟨h1, _, h3⟩ := takeN_some h
  subst h3; rw [List.length_drop]; omega

theorem beU_len {w : Nat} {i r : Bytes} {v : Nat} (h : beU w i = some (v, r)) : i.length = r.length + w := by
  obtain ⟨h1, _, h3⟩ := beU_some h
  subst h3; rw [List.length_drop]; omega

/-! ### Nom.lean -/

def countPC {α : Type} (p : P α) : Nat → P (List α)
  | 0, i => some ([], i)
  | n + 1, i =>
    match p i with
    | none => none
    | some (a, r) =>
      match countPC p n r with
      | none => none
      | some (as, r') => some (a :: as, r')

@[csimp] theorem countP_eq : @countP = @countPC := by
  funext α p n
  induction n with
  | zero => rfl
  | succ n ih => funext i; simp only [countP, countPC, ih]; rfl

/-- `many0F` without the no-progress test -/
def many0FNC {α : Type} (p : P α) : Nat → Bytes → Loop (List α × Bytes)
  | 0, _ => .outOfFuel
  | f + 1, i =>
    match p i with
    | none => .ok ([], i)
    | some (a, r) =>
      match many0FNC p f r with
      | .ok (as, r') => .ok (a :: as, r')
      | .err => .err
      | .outOfFuel => .outOfFuel

def many0NC {α : Type} (p : P α) : Bytes → Loop (List α × Bytes) := fun i => many0FNC p (i.length + 1) i

/-- for a parser that always consumes, nom's no-progress test never fires -/
theorem many0F_eq_NC {α : Type} {p : P α} (hp : ∀ i a r, p i = some (a, r) → r.length ≠ i.length) :
    ∀ (f : Nat) (i : Bytes), many0F p f i = many0FNC p f i := by
  intro f
  induction f with
  | zero => intro i; rfl
  | succ f ih =>
    intro i
    simp only [many0F, many0FNC]
    cases hpi : p i with
    | none => rfl
    | some ar =>
      obtain ⟨a, r⟩ := ar
      simp only [hp i a r hpi, ↓reduceIte, ih r]
      rfl

theorem many0_eq_NC {α : Type} {p : P α} (hp : ∀ i a r, p i = some (a, r) → r.length ≠ i.length) (i : Bytes) :
    many0 p i = many0NC p i := many0F_eq_NC hp _ i

/-! ### Value.lean -/

def DataNumber.parseC (arms : DnArms) (len : Nat) (signed : Bool) : P DataNumber := fun i =>
  match arms.lookup (len, signed) with
  | none => none
  | some arm =>
    match takeN len i with
    | none => none
    | some (bs, r) => some (DataNumber.make arm signed bs, r)

@[csimp] theorem DataNumber.parse_eq : @DataNumber.parse = @DataNumber.parseC := rfl

def parseValueC (c : ValueCfg) (ty : FType) (len : Nat) : P FieldValue := fun i =>
  match ty with
  | .unsigned =>
    match DataNumber.parse c.dnArms len false i with
    | none => none | some (d, r) => some (.num d, r)
  | .signed =>
    match DataNumber.parse c.dnArms len true i with
    | none => none | some (d, r) => some (.num d, r)
  | .str =>
    match takeN len i with
    | none => none | some (b, r) => some (.str (utf8Lossy b), r)
  | .ip4 =>
    match beU 4 i with
    | none => none | some (n, r) => some (.ip4 n, r)
  | .ip6 =>
    match beU 16 i with
    | none => none | some (n, r) => some (.ip6 n, r)
  | .mac =>
    match takeN 6 i with
    | none => none | some (b, r) => some (.mac b, r)
  | .durS =>
    match DataNumber.parse c.dnArms len false i with
    | none => none | some (d, r) => some (durOf 1 d, r)
  | .durMs =>
    match DataNumber.parse c.dnArms len false i with
    | none => none | some (d, r) => some (durOf 1000 d, r)
  | .durUs =>
    match DataNumber.parse c.dnArms len false i with
    | none => none | some (d, r) => some (durOf 1000000 d, r)
  | .durNs =>
    match DataNumber.parse c.dnArms len false i with
    | none => none | some (d, r) => some (durOf 1000000000 d, r)
  | .proto =>
    match beU 1 i with
    | none => none
    | some (n, r) =>
      match c.protoParse n with
      | none => none | some p => some (.proto p, r)
  | .f64 =>
    match beU 8 i with
    | none => none | some (n, r) => some (.f64 n, r)
  | .vec =>
    match takeN len i with
    | none => none | some (b, r) => some (.vec b, r)
  | .unknown =>
    if c.unknownFields then
      match takeN len i with
      | none => none | some (b, r) => some (.vec b, r)
    else none

@[csimp] theorem parseValue_eq : @parseValue = @parseValueC := rfl

theorem dnParse_len {arms : DnArms} {len : Nat} {sg : Bool} {i r : Bytes} {d : DataNumber}
    (h : DataNumber.parse arms len sg i = some (d, r)) : i.length = r.length + len := by
  unfold DataNumber.parse at h
  split at h
  · simp at h
  · split at h
    · simp at h
    · rename_i bs r' ht
      simp only [Option.some.injEq, Prod.mk.injEq] at h
      rw [← h.2]; exact takeN_len ht

/-- number of bytes a successful `parseValue` consumes -/
def valWidth (ty : FType) (len : Nat) : Nat :=
  match ty with
  | .ip4 => 4 | .ip6 => 16 | .mac => 6 | .proto => 1 | .f64 => 8
  | _ => len

theorem parseValue_len {c : ValueCfg} {ty : FType} {len : Nat} {i r : Bytes} {v : FieldValue}
    (h : parseValue c ty len i = some (v, r)) : i.length = r.length + valWidth ty len := by
  have dn : ∀ {sg : Bool} {g : DataNumber → FieldValue},
      (match DataNumber.parse c.dnArms len sg i with
        | none => none | some (d, r) => some (g d, r)) = some (v, r) → i.length = r.length + len := by
    intro sg g h
    cases hd : DataNumber.parse c.dnArms len sg i with
    | none => simp [hd] at h
    | some dr =>
      obtain ⟨d, r'⟩ := dr
      simp only [hd, Option.some.injEq, Prod.mk.injEq] at h
      rw [← h.2]; exact dnParse_len hd
  have tk : ∀ {n : Nat} {g : Bytes → FieldValue},
      (match takeN n i with
        | none => none | some (b, r) => some (g b, r)) = some (v, r) → i.length = r.length + n := by
    intro n g h
    cases hd : takeN n i with
    | none => simp [hd] at h
    | some dr =>
      obtain ⟨d, r'⟩ := dr
      simp only [hd, Option.some.injEq, Prod.mk.injEq] at h
      rw [← h.2]; exact takeN_len hd
  have bu : ∀ {n : Nat} {g : Nat → FieldValue},
      (match beU n i with
        | none => none | some (b, r) => some (g b, r)) = some (v, r) → i.length = r.length + n := by
    intro n g h
    cases hd : beU n i with
    | none => simp [hd] at h
    | some dr =>
      obtain ⟨d, r'⟩ := dr
      simp only [hd, Option.some.injEq, Prod.mk.injEq] at h
      rw [← h.2]; exact beU_len hd
  cases ty <;> simp only [parseValue, valWidth] at h ⊢
  case unsigned => exact dn h
  case signed => exact dn h
  case str => exact tk h
  case ip4 => exact bu h
  case ip6 => exact bu h
  case mac => exact tk h
  case durS => exact dn h
  case durMs => exact dn h
  case durUs => exact dn h
  case durNs => exact dn h
  case f64 => exact bu h
  case vec => exact tk h
  case proto =>
    cases hd : beU 1 i with
    | none => simp [hd] at h
    | some dr =>
      obtain ⟨d, r'⟩ := dr
      simp only [hd] at h
      cases hp : c.protoParse d with
      | none => simp [hp] at h
      | some p =>
        simp only [hp, Option.some.injEq, Prod.mk.injEq] at h
        rw [← h.2]; exact beU_len hd
  case unknown =>
    split at h
    · exact tk h
    · simp at h

/-! ### Layout.lean -/

def parseFieldsC (proto : Nat → Nat) : Layout → List Nat → P (List Nat)
  | [], acc, i => some (acc, i)
  | f :: fs, acc, i =>
    match f.kind with
    | .wire w =>
      match beU w i with
      | none => none
      | some (v, r) => parseFieldsC proto fs (acc ++ [v]) r
    | .const v => parseFieldsC proto fs (acc ++ [v]) i
    | .protoOf src => parseFieldsC proto fs (acc ++ [proto (acc.getD src 0)]) i

@[csimp] theorem parseFields_eq : @parseFields = @parseFieldsC := by
  funext proto lay
  induction lay with
  | nil => rfl
  | cons f fs ih => funext acc i; simp only [parseFields, parseFieldsC, ih]; rfl

def parseLayoutC (proto : Nat → Nat) (lay : Layout) : P (List Nat) := parseFields proto lay []

@[csimp] theorem parseLayout_eq : @parseLayout = @parseLayoutC := rfl

/-! ### V9.lean -/

/-- the rest returned by a successful parse is not longer than the input -/
def Shrinks {α : Type} (p : P α) : Prop := ∀ i a r, p i = some (a, r) → r.length ≤ i.length

theorem countP_shrinks {α : Type} {p : P α} (hp : Shrinks p) : ∀ n, Shrinks (countP p n) := by
  intro n
  induction n with
  | zero => intro i a r h; simp [countP] at h; rw [h.2]; exact Nat.le_refl _
  | succ n ih =>
    intro i as r h
    simp only [countP] at h
    cases hpi : p i with
    | none => simp [hpi] at h
    | some ar =>
      obtain ⟨a, r1⟩ := ar
      simp only [hpi] at h
      cases hc : countP p n r1 with
      | none => simp [hc] at h
      | some asr =>
        obtain ⟨as', r2⟩ := asr
        simp only [hc, Option.some.injEq, Prod.mk.injEq] at h
        have h1 := hp i a r1 hpi
        have h2 := ih r1 as' r2 hc
        rw [← h.2]; omega

def parseTFieldC : P TField := fun i =>
  match beU 2 i with
  | none => none
  | some (t, r) =>
    match beU 2 r with
    | none => none
    | some (l, r') => some ({ typ := t, len := l }, r')

@[csimp] theorem parseTField_eq : @parseTField = @parseTFieldC := rfl

theorem parseTField_shrinks : Shrinks parseTField := by
  intro i a r h
  unfold parseTField at h
  cases h1 : beU 2 i with
  | none => simp [h1] at h
  | some x =>
    obtain ⟨t, r1⟩ := x
    simp only [h1] at h
    cases h2 : beU 2 r1 with
    | none => simp [h2] at h
    | some y =>
      obtain ⟨l, r2⟩ := y
      simp only [h2, Option.some.injEq, Prod.mk.injEq] at h
      have := beU_len h1; have := beU_len h2
      rw [← h.2]; omega

def parseV9TemplateC : P V9Template := fun i =>
  match beU 2 i with
  | none => none
  | some (id, r) =>
    match beU 2 r with
    | none => none
    | some (fc, r1) =>
      match countP parseTField fc r1 with
      | none => none
      | some (fs, r2) => some ({ id := id, fieldCount := fc, fields := fs }, r2)

@[csimp] theorem parseV9Template_eq : @parseV9Template = @parseV9TemplateC := rfl

theorem parseV9Template_progress (i : Bytes) (a : V9Template) (r : Bytes)
    (h : parseV9Template i = some (a, r)) : r.length ≠ i.length := by
  unfold parseV9Template at h
  cases h1 : beU 2 i with
  | none => simp [h1] at h
  | some x =>
    obtain ⟨t, r1⟩ := x
    simp only [h1] at h
    cases h2 : beU 2 r1 with
    | none => simp [h2] at h
    | some y =>
      obtain ⟨l, r2⟩ := y
      simp only [h2] at h
      cases h3 : countP parseTField l r2 with
      | none => simp [h3] at h
      | some z =>
        obtain ⟨fs, r3⟩ := z
        simp only [h3, Option.some.injEq, Prod.mk.injEq] at h
        have := beU_len h1; have := beU_len h2
        have := countP_shrinks parseTField_shrinks l r2 fs r3 h3
        rw [← h.2]; omega

def parseV9OptTemplateC : P V9OptTemplate := fun i =>
  match beU 2 i with
  | none => none
  | some (id, r) =>
    match beU 2 r with
    | none => none
    | some (sl, r1) =>
      match beU 2 r1 with
      | none => none
      | some (ol, r2) =>
        match countP parseTField (sl / 4) r2 with
        | none => none
        | some (ss, r3) =>
          match countP parseTField (ol / 4) r3 with
          | none => none
          | some (os, r4) => some ({ id := id, scopeLen := sl, optLen := ol, scope := ss, opts := os }, r4)

@[csimp] theorem parseV9OptTemplate_eq : @parseV9OptTemplate = @parseV9OptTemplateC := rfl

theorem parseV9OptTemplate_progress (i : Bytes) (a : V9OptTemplate) (r : Bytes)
    (h : parseV9OptTemplate i = some (a, r)) : r.length ≠ i.length := by
  unfold parseV9OptTemplate at h
  cases h1 : beU 2 i with
  | none => simp [h1] at h
  | some x =>
    obtain ⟨t, r1⟩ := x
    simp only [h1] at h
    cases h2 : beU 2 r1 with
    | none => simp [h2] at h
    | some y =>
      obtain ⟨l, r2⟩ := y
      simp only [h2] at h
      cases h2' : beU 2 r2 with
      | none => simp [h2'] at h
      | some y' =>
        obtain ⟨l', r2'⟩ := y'
        simp only [h2'] at h
        cases h3 : countP parseTField (l / 4) r2' with
        | none => simp [h3] at h
        | some z =>
          obtain ⟨fs, r3⟩ := z
          simp only [h3] at h
          cases h4 : countP parseTField (l' / 4) r3 with
          | none => simp [h4] at h
          | some z' =>
            obtain ⟨fs', r4⟩ := z'
            simp only [h4, Option.some.injEq, Prod.mk.injEq] at h
            have := beU_len h1; have := beU_len h2; have := beU_len h2'
            have := countP_shrinks parseTField_shrinks _ r2' fs r3 h3
            have := countP_shrinks parseTField_shrinks _ r3 fs' r4 h4
            rw [← h.2]; omega

def v9ParseRecC (c : Config) : List TField → Nat → P Rec
  | [], _, i => some ([], i)
  | f :: fs, idx, i =>
    match parseValue c.vc (c.t.v9Ty (c.t.v9Field f.typ)) f.len i with
    | none => none
    | some (v, r) =>
      match v9ParseRecC c fs (idx + 1) r with
      | none => none
      | some (es, r') => some ((idx, c.t.v9Field f.typ, v) :: es, r')

@[csimp] theorem v9ParseRec_eq : @v9ParseRec = @v9ParseRecC := by
  funext c fs
  induction fs with
  | nil => rfl
  | cons f fs ih => funext idx i; simp only [v9ParseRec, v9ParseRecC, ih]; rfl

/-- a record that does not decode leaves the input where it was: the `fold` of the model fails again on every remaining iteration -/
theorem v9RecLoop_fail_fast (c : Config) (fs : List TField) (n : Nat) (i : Bytes) (acc : List Rec)
    (h : v9ParseRec c fs 0 i = none) : v9RecLoop c fs n i acc = (acc, i) := by
  induction n with
  | zero => rfl
  | succ n ih => simp only [v9RecLoop, h]; exact ih

/-- `v9RecLoop` with the accumulator kept in reverse (cons instead of `acc ++ [r]`), STOPPING at the first record that does not
    decode (as the Rust loop does since fix 4588be7; same result as going on, `v9RecLoop_fail_fast`) -/
def v9RecLoopR (c : Config) (fs : List TField) : Nat → Bytes → List Rec → List Rec × Bytes
  | 0, i, acc => (acc.reverse, i)
  | n + 1, i, acc =>
    match v9ParseRec c fs 0 i with
    | none => (acc.reverse, i)
    | some (r, i') => v9RecLoopR c fs n i' (r :: acc)

def v9RecLoopF (c : Config) (fs : List TField) (n : Nat) (i : Bytes) (acc : List Rec) : List Rec × Bytes :=
  v9RecLoopR c fs n i acc.reverse

theorem v9RecLoopR_eq (c : Config) (fs : List TField) :
    ∀ (n : Nat) (i : Bytes) (acc : List Rec), v9RecLoopR c fs n i acc = v9RecLoop c fs n i acc.reverse := by
  intro n
  induction n with
  | zero => intro i acc; rfl
  | succ n ih =>
    intro i acc
    cases h : v9ParseRec c fs 0 i with
    | none => simp only [v9RecLoopR, h]; exact (v9RecLoop_fail_fast c fs (n + 1) i acc.reverse h).symm
    | some x =>
      obtain ⟨r, i'⟩ := x
      simp only [v9RecLoopR, v9RecLoop, h, ih i' (r :: acc), List.reverse_cons]

@[csimp] theorem v9RecLoop_eq : @v9RecLoop = @v9RecLoopF := by
  funext c fs n i acc
  simp only [v9RecLoopF, v9RecLoopR_eq, List.reverse_reverse]

/-- `v9ScopeLoop` with the no-progress test `r.length = i.length` replaced by `f.len = 0` -/
def v9ScopeLoopF (c : Config) : List TField → Bytes → Option (List (Nat × Bytes) × Bytes)
  | [], i => some ([], i)
  | f :: fs, i =>
    match takeN f.len i with
    | none => some ([], i)
    | some (v, r) =>
      if c.t.scopeKnown f.typ then
        if f.len = 0 then none
        else
          match v9ScopeLoopF c fs r with
          | none => none
          | some (vs, r') => some ((c.t.scopeField f.typ, v) :: vs, r')
      else some ([], i)

@[csimp] theorem v9ScopeLoop_eq : @v9ScopeLoop = @v9ScopeLoopF := by
  funext c fs
  induction fs with
  | nil => rfl
  | cons f fs ih =>
    funext i
    simp only [v9ScopeLoop, v9ScopeLoopF]
    cases h : takeN f.len i with
    | none => rfl
    | some x =>
      obtain ⟨v, r⟩ := x
      have hl := takeN_len h
      have e : (r.length = i.length) = (f.len = 0) := propext ⟨fun _ => by omega, fun _ => by omega⟩
      simp only [e, ih]
      rfl

def v9OptLoopF (c : Config) : List TField → Bytes → Option (List (Nat × Bytes) × Bytes)
  | [], i => some ([], i)
  | f :: fs, i =>
    match takeN f.len i with
    | none => some ([], i)
    | some (v, r) =>
      if f.len = 0 then none
      else
        match v9OptLoopF c fs r with
        | none => none
        | some (vs, r') => some ((c.t.v9Field f.typ, v) :: vs, r')

@[csimp] theorem v9OptLoop_eq : @v9OptLoop = @v9OptLoopF := by
  funext c fs
  induction fs with
  | nil => rfl
  | cons f fs ih =>
    funext i
    simp only [v9OptLoop, v9OptLoopF]
    cases h : takeN f.len i with
    | none => rfl
    | some x =>
      obtain ⟨v, r⟩ := x
      have hl := takeN_len h
      have e : (r.length = i.length) = (f.len = 0) := propext ⟨fun _ => by omega, fun _ => by omega⟩
      simp only [e, ih]
      rfl

/-- `v9ParseBody` with `many0` replaced by `many0NC` for the two template parsers -/
def v9ParseBodyF (c : Config) (st : PState) (id : Nat) (body : Bytes) : PState × Res V9Body :=
  if id = c.t.v9TemplateId then
    match many0NC parseV9Template body with
    | .ok (ts, pad) => (insertV9Templates st ts, .ok (.templates ts pad))
    | .err => (st, .err)
    | .outOfFuel => (st, .overflow)
  else if id = c.t.v9OptTemplateId then
    match many0NC parseV9OptTemplate body with
    | .ok (ts, pad) => (insertV9OptTemplates st ts, .ok (.optTemplates ts pad))
    | .err => (st, .err)
    | .outOfFuel => (st, .overflow)
  else
    match amLookup id st.v9O with
    | some ot =>
      match v9ScopeLoop c ot.scope body with
      | none => (st, .err)
      | some (ss, r) =>
        match v9OptLoop c ot.opts r with
        | none => (st, .err)
        | some (os, pad) => (st, .ok (.optData ss os pad))
    | none =>
      match amLookup id st.v9T with
      | some t =>
        let total := v9TotalSize t.fields
        if total = 0 then (st, .err)
        else
          let (recs, pad) := v9RecLoop c t.fields (body.length / total) body []
          (st, .ok (.data recs pad))
      | none => (st, .err)

@[csimp] theorem v9ParseBody_eq : @v9ParseBody = @v9ParseBodyF := by
  funext c st id body
  simp only [v9ParseBody, v9ParseBodyF, many0_eq_NC parseV9Template_progress,
    many0_eq_NC parseV9OptTemplate_progress]
  rfl

def v9ParseSetC (c : Config) (st : PState) (i : Bytes) : PState × Res (V9Set × Bytes) :=
  match parseLayout c.t.protoFromU8 c.t.v9SetHdr i with
  | none => (st, .err)
  | some (h, r) =>
    let id := c.t.v9SetHdr.get "flowset_id" h
    let len := c.t.v9SetHdr.get "length" h
    match takeN (len - 4) r with
    | none => (st, .err)
    | some (body, r') =>
      match v9ParseBody c st id body with
      | (st', .ok b) => (st', .ok ({ id := id, len := len, body := b }, r'))
      | (st', .err) => (st', .err)
      | (st', .panic) => (st', .panic)
      | (st', .overflow) => (st', .overflow)

@[csimp] theorem v9ParseSet_eq : @v9ParseSet = @v9ParseSetC := rfl

def v9ParseSetsC (c : Config) : Nat → PState → Bytes → PState × Res (List V9Set × Bytes)
  | 0, st, i => (st, .ok ([], i))
  | n + 1, st, i =>
    if i.isEmpty then v9ParseSetsC c n st i
    else
      match v9ParseSet c st i with
      | (st', .ok (s, r)) =>
        match v9ParseSetsC c n st' r with
        | (st'', .ok (ss, r')) => (st'', .ok (s :: ss, r'))
        | (st'', .err) => (st'', .err)
        | (st'', .panic) => (st'', .panic)
        | (st'', .overflow) => (st'', .overflow)
      | (st', .err) => (st', .err)
      | (st', .panic) => (st', .panic)
      | (st', .overflow) => (st', .overflow)

@[csimp] theorem v9ParseSets_eq : @v9ParseSets = @v9ParseSetsC := by
  funext c n
  induction n with
  | zero => rfl
  | succ n ih => funext st i; simp only [v9ParseSets, v9ParseSetsC, ih]; rfl

def parseV9C (c : Config) (st : PState) (i : Bytes) : PState × Res (Packet × Bytes) :=
  match parseLayout c.t.protoFromU8 c.t.v9Hdr i with
  | none => (st, .err)
  | some (h, r) =>
    match v9ParseSets c (c.t.v9Hdr.get "count" h) st r with
    | (st', .ok (ss, r')) => (st', .ok (.v9 h ss, r'))
    | (st', .err) => (st', .err)
    | (st', .panic) => (st', .panic)
    | (st', .overflow) => (st', .overflow)

@[csimp] theorem parseV9_eq : @parseV9 = @parseV9C := rfl

/-! ### Ipfix.lean -/

def parseIpTFieldC : P IpTField := fun i =>
  match beU 2 i with
  | none => none
  | some (t, r) =>
    match beU 2 r with
    | none => none
    | some (l, r1) =>
      if t > 32767 then
        match beU 4 r1 with
        | none => none
        | some (e, r2) => some ({ typ := t - 32768, len := l, ent := some e }, r2)
      else some ({ typ := t, len := l, ent := none }, r1)

@[csimp] theorem parseIpTField_eq : @parseIpTField = @parseIpTFieldC := rfl

theorem parseIpTField_progress (i : Bytes) (a : IpTField) (r : Bytes)
    (h : parseIpTField i = some (a, r)) : r.length ≠ i.length := by
  unfold parseIpTField at h
  cases h1 : beU 2 i with
  | none => simp [h1] at h
  | some x =>
    obtain ⟨t, r1⟩ := x
    simp only [h1] at h
    cases h2 : beU 2 r1 with
    | none => simp [h2] at h
    | some y =>
      obtain ⟨l, r2⟩ := y
      simp only [h2] at h
      have := beU_len h1; have := beU_len h2
      split at h
      · cases h3 : beU 4 r2 with
        | none => simp [h3] at h
        | some z =>
          obtain ⟨e, r3⟩ := z
          simp only [h3, Option.some.injEq, Prod.mk.injEq] at h
          have := beU_len h3
          rw [← h.2]; omega
      · simp only [Option.some.injEq, Prod.mk.injEq] at h
        rw [← h.2]; omega

/-- `parseIpTemplate` with `many0NC` -/
def parseIpTemplateF (body : Bytes) : Res IpTemplate :=
  match beU 2 body with
  | none => .err
  | some (id, r) =>
    match beU 2 r with
    | none => .err
    | some (fc, r1) =>
      match many0NC parseIpTField r1 with
      | .ok (fs, pad) => .ok { id := id, fieldCount := fc, fields := fs, pad := pad }
      | .err => .err
      | .outOfFuel => .overflow

@[csimp] theorem parseIpTemplate_eq : @parseIpTemplate = @parseIpTemplateF := by
  funext body
  simp only [parseIpTemplate, parseIpTemplateF, many0_eq_NC parseIpTField_progress]
  rfl

def parseIpOptTemplateC (body : Bytes) : Res IpOptTemplate :=
  match beU 2 body with
  | none => .err
  | some (id, r) =>
    match beU 2 r with
    | none => .err
    | some (fc, r1) =>
      match beU 2 r1 with
      | none => .err
      | some (sc, r2) =>
        let combined := if sc ≤ fc then fc else min (sc + fc) 65535
        match countP parseIpTField combined r2 with
        | none => .err
        | some (fs, pad) => .ok { id := id, fieldCount := fc, scopeCount := sc, fields := fs, pad := pad }

@[csimp] theorem parseIpOptTemplate_eq : @parseIpOptTemplate = @parseIpOptTemplateC := rfl

/-! #### measured record parser: also returns the number of bytes consumed -/

/-- `m` is `o` with the number of consumed bytes attached -/
def Meas {α : Type} (i : Bytes) (o : Option (α × Bytes)) (m : Option (α × Bytes × Nat)) : Prop :=
  match o, m with
  | none, none => True
  | some (a, r), some (a', r', k) => a = a' ∧ r = r' ∧ i.length = r.length + k
  | _, _ => False

def ipFieldLengthM (f : IpTField) (i : Bytes) : Option (Nat × Bytes × Nat) :=
  if f.len = 65535 then
    match beU 1 i with
    | none => none
    | some (l, r) =>
      if l = 255 then
        match beU 2 r with
        | none => none
        | some (l2, r2) => some (l2, r2, 3)
      else some (l, r, 1)
  else some (f.len, i, 0)

theorem ipFieldLengthM_meas (f : IpTField) (i : Bytes) : Meas i (ipFieldLength f i) (ipFieldLengthM f i) := by
  unfold ipFieldLength ipFieldLengthM
  split
  · cases h1 : beU 1 i with
    | none => simp [Meas]
    | some x =>
      obtain ⟨l, r⟩ := x
      have := beU_len h1
      simp only []
      split
      · cases h2 : beU 2 r with
        | none => simp [Meas]
        | some y =>
          obtain ⟨l2, r2⟩ := y
          have := beU_len h2
          simp only [Meas, true_and]; omega
      · simp only [Meas, true_and]; omega
  · simp [Meas]

def ipParseValueM (c : Config) (f : IpTField) (i : Bytes) : Option (FieldValue × Bytes × Nat) :=
  match ipFieldLengthM f i with
  | none => none
  | some (len, r, k) =>
    match f.ent with
    | some _ =>
      match takeN len r with
      | none => none
      | some (b, r') => some (.vec b, r', k + len)
    | none =>
      match parseValue c.vc (c.t.ipTy (c.t.ipField f.typ)) len r with
      | none => none
      | some (v, r') => some (v, r', k + valWidth (c.t.ipTy (c.t.ipField f.typ)) len)

theorem ipParseValueM_meas (c : Config) (f : IpTField) (i : Bytes) :
    Meas i (ipParseValue c f i) (ipParseValueM c f i) := by
  have hl := ipFieldLengthM_meas f i
  unfold ipParseValue ipParseValueM
  cases h1 : ipFieldLength f i with
  | none =>
    cases h2 : ipFieldLengthM f i with
    | none => simp [Meas]
    | some y => simp [Meas, h1, h2] at hl
  | some x =>
    obtain ⟨len, r⟩ := x
    cases h2 : ipFieldLengthM f i with
    | none => simp [Meas, h1, h2] at hl
    | some y =>
      obtain ⟨len', r', k⟩ := y
      simp only [Meas, h1, h2] at hl
      obtain ⟨e1, e2, e3⟩ := hl
      subst e1; subst e2
      simp only []
      cases he : f.ent with
      | some e =>
        simp only []
        cases h3 : takeN len r with
        | none => simp [Meas]
        | some z =>
          obtain ⟨b, r2⟩ := z
          have := takeN_len h3
          simp only [Meas, true_and]; omega
      | none =>
        simp only []
        cases h3 : parseValue c.vc (c.t.ipTy (c.t.ipField f.typ)) len r with
        | none => simp [Meas]
        | some z =>
          obtain ⟨v, r2⟩ := z
          have := parseValue_len h3
          simp only [Meas, true_and]; omega

def ipParseRecM (c : Config) : List IpTField → Nat → Bytes → Option (List Rec × Bytes × Nat)
  | [], _, i => some ([], i, 0)
  | f :: fs, idx, i =>
    match ipParseValueM c f i with
    | none => none
    | some (v, r, k) =>
      match ipParseRecM c fs (idx + 1) r with
      | none => none
      | some (es, r', k') => some ([(idx, ipFieldDisc c f, v)] :: es, r', k + k')

theorem ipParseRecM_meas (c : Config) : ∀ (fs : List IpTField) (idx : Nat) (i : Bytes),
    Meas i (ipParseRec c fs idx i) (ipParseRecM c fs idx i) := by
  intro fs
  induction fs with
  | nil => intro idx i; simp [ipParseRec, ipParseRecM, Meas]
  | cons f fs ih =>
    intro idx i
    have hv := ipParseValueM_meas c f i
    simp only [ipParseRec, ipParseRecM]
    cases h1 : ipParseValue c f i with
    | none =>
      cases h2 : ipParseValueM c f i with
      | none => simp [Meas]
      | some y => simp [Meas, h1, h2] at hv
    | some x =>
      obtain ⟨v, r⟩ := x
      cases h2 : ipParseValueM c f i with
      | none => simp [Meas, h1, h2] at hv
      | some y =>
        obtain ⟨v', r', k⟩ := y
        simp only [Meas, h1, h2] at hv
        obtain ⟨e1, e2, e3⟩ := hv
        subst e1; subst e2
        simp only []
        have hr := ih (idx + 1) r
        cases h3 : ipParseRec c fs (idx + 1) r with
        | none =>
          cases h4 : ipParseRecM c fs (idx + 1) r with
          | none => simp [Meas]
          | some y => simp [Meas, h3, h4] at hr
        | some x =>
          obtain ⟨es, r2⟩ := x
          cases h4 : ipParseRecM c fs (idx + 1) r with
          | none => simp [Meas, h3, h4] at hr
          | some y =>
            obtain ⟨es', r2', k'⟩ := y
            simp only [Meas, h3, h4] at hr
            obtain ⟨e1, e2, e4⟩ := hr
            subst e1; subst e2
            simp only [Meas, true_and]; omega

/-- `ipRecLoop` with the length `n = i.length` of the remaining input threaded through and the
    per-record consumption taken from the measured record parser -/
def ipRecLoopM (c : Config) (fs : List IpTField) : Nat → Nat → Bytes → Res (List Rec × Bytes)
  | 0, _, _ => .overflow
  | fuel + 1, n, i =>
    match ipParseRecM c fs 0 i with
    | none => .err
    | some (es, r, taken) =>
      if taken = 0 then .ok (es, r)
      else if n - taken ≥ taken then
        match ipRecLoopM c fs fuel (n - taken) r with
        | .ok (more, r') => .ok (es ++ more, r')
        | .err => .err
        | .panic => .panic
        | .overflow => .overflow
      else .ok (es, r)

def ipRecLoopF (c : Config) (fs : List IpTField) (fuel : Nat) (i : Bytes) : Res (List Rec × Bytes) :=
  ipRecLoopM c fs fuel i.length i

theorem ipRecLoopM_eq (c : Config) (fs : List IpTField) :
    ∀ (fuel : Nat) (i : Bytes), ipRecLoopM c fs fuel i.length i = ipRecLoop c fs fuel i := by
  intro fuel
  induction fuel with
  | zero => intro i; rfl
  | succ fuel ih =>
    intro i
    have hm := ipParseRecM_meas c fs 0 i
    simp only [ipRecLoopM, ipRecLoop]
    cases h1 : ipParseRec c fs 0 i with
    | none =>
      cases h2 : ipParseRecM c fs 0 i with
      | none => rfl
      | some y => simp [Meas, h1, h2] at hm
    | some x =>
      obtain ⟨es, r⟩ := x
      cases h2 : ipParseRecM c fs 0 i with
      | none => simp [Meas, h1, h2] at hm
      | some y =>
        obtain ⟨es', r', k⟩ := y
        simp only [Meas, h1, h2] at hm
        obtain ⟨e1, e2, e3⟩ := hm
        subst e1; subst e2
        have a1 : i.length - r.length = k := by omega
        have a2 : i.length - k = r.length := by omega
        simp only [a1, a2, ih r]
        rfl

@[csimp] theorem ipRecLoop_eq : @ipRecLoop = @ipRecLoopF := by
  funext c fs fuel i
  exact (ipRecLoopM_eq c fs fuel i).symm

def ipParseBodyC (c : Config) (st : PState) (id : Nat) (body : Bytes) : PState × Res IpBody :=
  if id < c.t.ipSetMinRange ∧ id ≠ c.t.ipOptTemplateId then
    match parseIpTemplate body with
    | .ok t => if ipValid t.fields then ({ st with ipT := amInsert t.id t st.ipT, ipO := amErase t.id st.ipO }, .ok (.template t)) else (st, .err)
    | .err => (st, .err)
    | .panic => (st, .panic)
    | .overflow => (st, .overflow)
  else if id = c.t.ipOptTemplateId then
    match parseIpOptTemplate body with
    | .ok t => if ipValid t.fields then ({ st with ipO := amInsert t.id t st.ipO, ipT := amErase t.id st.ipT }, .ok (.optTemplate t)) else (st, .err)
    | .err => (st, .err)
    | .panic => (st, .panic)
    | .overflow => (st, .overflow)
  else
    match amLookup id st.ipT with
    | some t =>
      if t.fields.isEmpty then (st, .err)
      else
        match ipRecLoop c t.fields (body.length + 1) body with
        | .ok (recs, pad) => (st, .ok (.data recs pad))
        | .err => (st, .err)
        | .panic => (st, .panic)
        | .overflow => (st, .overflow)
    | none =>
      match amLookup id st.ipO with
      | some t =>
        if t.fields.isEmpty then (st, .err)
        else
          match ipRecLoop c t.fields (body.length + 1) body with
          | .ok (recs, pad) => (st, .ok (.optData recs pad))
          | .err => (st, .err)
          | .panic => (st, .panic)
          | .overflow => (st, .overflow)
      | none => (st, .err)

@[csimp] theorem ipParseBody_eq : @ipParseBody = @ipParseBodyC := rfl

def ipParseSetC (c : Config) (st : PState) (i : Bytes) : PState × Res (IpSet × Bytes) :=
  match parseLayout c.t.protoFromU8 c.t.ipSetHdr i with
  | none => (st, .err)
  | some (h, r) =>
    let id := c.t.ipSetHdr.get "header_id" h
    let len := c.t.ipSetHdr.get "length" h
    match takeN (len - 4) r with
    | none => (st, .err)
    | some (body, r') =>
      match ipParseBody c st id body with
      | (st', .ok b) => (st', .ok ({ id := id, len := len, body := b }, r'))
      | (st', .err) => (st', .err)
      | (st', .panic) => (st', .panic)
      | (st', .overflow) => (st', .overflow)

@[csimp] theorem ipParseSet_eq : @ipParseSet = @ipParseSetC := rfl

/-- a decoded set occupies its header plus `len - 4` bytes -/
theorem ipParseSet_len {c : Config} {st st' : PState} {i r : Bytes} {s : IpSet}
    (h : ipParseSet c st i = (st', .ok (s, r))) :
    i.length = r.length + (c.t.ipSetHdr.wireLen + (s.len - 4)) := by
  unfold ipParseSet at h
  cases h1 : parseLayout c.t.protoFromU8 c.t.ipSetHdr i with
  | none => simp [h1] at h
  | some x =>
    obtain ⟨hd, r1⟩ := x
    simp only [h1] at h
    obtain ⟨hw, hr1⟩ := parseLayout_consumes c.t.protoFromU8 c.t.ipSetHdr i hd r1 h1
    cases h2 : takeN (c.t.ipSetHdr.get "length" hd - 4) r1 with
    | none => simp [h2] at h
    | some y =>
      obtain ⟨body, r2⟩ := y
      simp only [h2] at h
      have hl := takeN_len h2
      rw [hr1, List.length_drop] at hl
      split at h <;> simp only [Prod.mk.injEq, Res.ok.injEq, reduceCtorEq, and_false] at h
      obtain ⟨_, hs, hr⟩ := h
      subst hs; subst hr
      simp only []
      omega

/-- `ipParseSets` with the no-progress test computed from the decoded set instead of two `length`s -/
def ipParseSetsF (c : Config) : Nat → PState → Bytes → PState × Res (List IpSet)
  | 0, st, _ => (st, .overflow)
  | fuel + 1, st, i =>
    match ipParseSet c st i with
    | (st', .ok (s, r)) =>
      if c.t.ipSetHdr.wireLen + (s.len - 4) = 0 then (st', .err)
      else
        match ipParseSetsF c fuel st' r with
        | (st'', .ok ss) => (st'', .ok (s :: ss))
        | (st'', .err) => (st'', .err)
        | (st'', .panic) => (st'', .panic)
        | (st'', .overflow) => (st'', .overflow)
    | (st', .err) => (st', .ok [])
    | (st', .panic) => (st', .panic)
    | (st', .overflow) => (st', .overflow)

@[csimp] theorem ipParseSets_eq : @ipParseSets = @ipParseSetsF := by
  funext c fuel
  induction fuel with
  | zero => rfl
  | succ fuel ih =>
    funext st i
    simp only [ipParseSets, ipParseSetsF, ih]
    cases h : ipParseSet c st i with
    | mk st' res =>
      cases res with
      | ok x =>
        obtain ⟨s, r⟩ := x
        have hl := ipParseSet_len h
        have e : (r.length = i.length) = (c.t.ipSetHdr.wireLen + (s.len - 4) = 0) :=
          propext ⟨fun _ => by omega, fun _ => by omega⟩
        simp only [e]
        rfl
      | err => rfl
      | panic => rfl
      | overflow => rfl

def parseIpfixC (c : Config) (st : PState) (i : Bytes) : PState × Res (Packet × Bytes) :=
  match parseLayout c.t.protoFromU8 c.t.ipHdr i with
  | none => (st, .err)
  | some (h, r) =>
    match takeN (c.t.ipHdr.get "length" h - 16) r with
    | none => (st, .err)
    | some (body, r') =>
      match ipParseSets c (body.length + 1) st body with
      | (st', .ok ss) => (st', .ok (.ipfix h ss, r'))
      | (st', .err) => (st', .err)
      | (st', .panic) => (st', .panic)
      | (st', .overflow) => (st', .overflow)

@[csimp] theorem parseIpfix_eq : @parseIpfix = @parseIpfixC := by
  funext c st i
  simp only [parseIpfix, parseIpfixC]
  cases parseLayout c.t.protoFromU8 c.t.ipHdr i with
  | none => rfl
  | some x =>
    obtain ⟨h, r⟩ := x
    simp only []
    cases takeN (c.t.ipHdr.get "length" h - 16) r with
    | none => rfl
    | some y =>
      obtain ⟨body, r'⟩ := y
      simp only []
      generalize ipParseSets c (body.length + 1) st body = z
      rfl

/-! ### Parser.lean -/

def parseFixedC (c : Config) (hdr rec : Layout) (i : Bytes) : Option ((List Nat × List (List Nat)) × Bytes) :=
  match parseLayout c.t.protoFromU8 hdr i with
  | none => none
  | some (h, r) =>
    match countP (parseLayout c.t.protoFromU8 rec) (hdr.get "count" h) r with
    | none => none
    | some (recs, r') => some ((h, recs), r')

@[csimp] theorem parseFixed_eq : @parseFixed = @parseFixedC := rfl

def parseVersionedC (c : Config) (st : PState) (kind : Nat) (body : Bytes) : PState × Step :=
  if kind = 5 then
    match parseFixed c c.t.v5Hdr c.t.v5Rec body with
    | some ((h, rs), r) => (st, .ok (.v5 h rs) r)
    | none => (st, .fail (.partialParse 5 body))
  else if kind = 7 then
    match parseFixed c c.t.v7Hdr c.t.v7Rec body with
    | some ((h, rs), r) => (st, .ok (.v7 h rs) r)
    | none => (st, .fail (.partialParse 7 body))
  else if kind = 9 then
    ((parseV9 c st body).1, liftRes 9 body (parseV9 c st body).2)
  else if kind = 10 then
    ((parseIpfix c st body).1, liftRes 10 body (parseIpfix c st body).2)
  else (st, .fail (.unknownVersion body))

@[csimp] theorem parseVersioned_eq : @parseVersioned = @parseVersionedC := rfl

def parsePacketC (c : Config) (st : PState) (buf : Bytes) : PState × Step :=
  match beU 2 buf with
  | none => (st, .fail .incomplete)
  | some (version, body) =>
    if c.allowed.contains version then
      match c.t.dispatch.lookup version with
      | some kind => parseVersioned c st kind body
      | none => (st, .fail (.unknownVersion body))
    else (st, .unallowed)

@[csimp] theorem parsePacket_eq : @parsePacket = @parsePacketC := rfl

def parseBytesFC (c : Config) : Nat → PState → Bytes → PState × Outcome
  | 0, st, _ => (st, .overflow [])
  | fuel + 1, st, buf =>
    if buf.isEmpty then (st, .done [])
    else
      match parsePacket c st buf with
      | (st', .ok pkt rest) =>
        if rest.isEmpty then (st', .done [pkt])
        else
          match parseBytesFC c fuel st' rest with
          | (st'', out) => (st'', out.cons pkt)
      | (st', .fail e) => (st', .done [.error e buf])
      | (st', .unallowed) => (st', .done [])
      | (st', .panic) => (st', .panic [])
      | (st', .overflow) => (st', .overflow [])

@[csimp] theorem parseBytesF_eq : @parseBytesF = @parseBytesFC := by
  funext c fuel
  induction fuel with
  | zero => rfl
  | succ fuel ih => funext st buf; simp only [parseBytesF, parseBytesFC, ih]; rfl

def parseBytesC (c : Config) (st : PState) (buf : Bytes) : PState × Outcome :=
  parseBytesF c (buf.length + 1) st buf

@[csimp] theorem parseBytes_eq : @parseBytes = @parseBytesC := rfl

/-! ### Findings.lean : `varlenTail` recomputed `rest.sum` for every record -/

/-- one pass from the right: (sum of the list, `varlenTail.go` of the list) -/
def vtGo (p : Nat) : List Nat → Nat × Bool
  | [] => (0, false)
  | s :: rest =>
    let x := vtGo p rest
    (s + x.1, (!rest.isEmpty && decide (s > x.1 + p)) || x.2)

theorem vtGo_eq (pad : Bytes) : ∀ l : List Nat, vtGo pad.length l = (l.sum, Findings.varlenTail.go pad l)
  | [] => by simp [vtGo, Findings.varlenTail.go]
  | [s] => by simp [vtGo, Findings.varlenTail.go]
  | s :: t :: rest => by
    rw [vtGo, vtGo_eq pad (t :: rest)]
    simp [Findings.varlenTail.go]

def varlenTailF (recs : List (List Spec.FieldBytes)) (pad : Bytes) : Bool :=
  (vtGo pad.length (recs.map fun r => (r.map Findings.fieldBytesSize).sum)).2

@[csimp] theorem varlenTail_eq : @Findings.varlenTail = @varlenTailF := by
  funext recs pad
  simp only [Findings.varlenTail, varlenTailF, vtGo_eq]

open Findings in
def inputClassesC (c : Config) (d : Spec.Defs) (msgs : List Spec.Msg) : List String :=
  let ipSets := msgs.flatMap fun m => match m with | .ipfix x => x.sets | _ => []
  let v9Sets := msgs.flatMap fun m => match m with | .v9 x => x.sets | _ => []
  (if ipSets.any (fun s => match s with | .templates ts _ => ts.length ≥ 2 | .optTemplates ts _ => ts.length ≥ 2 | _ => false)
    then ["ipfix-multi-template-set"] else []) ++
  (if ipSets.any (fun s => match s with | .data _ recs pad => varlenTail recs pad | _ => false) then ["ipfix-varlen-tail"] else []) ++
  (if ipSets.any (fun s => match s with | .data _ recs _ => recs.any (fun r => r.any fun f => f.form != .fixed) | _ => false)
    then ["ipfix-varlen-field"] else []) ++
  (if ipSets.any (fun s => match s with | .data _ recs _ => recs.any (fun r => r.any fun f => signedWide f.content) | _ => false) ||
      v9Sets.any (fun s => match s with | .data _ recs _ => recs.any (fun r => r.any signedWide) | _ => false)
    then ["signed-wide-candidate"] else []) ++
  (let optIds := (v9Sets.flatMap fun s => match s with | .optTemplates ts _ => ts.map (·.id) | _ => []) ++
      (d.v9.filterMap fun e => match e.2 with | .o _ => some e.1 | _ => none)
   if v9Sets.any (fun s => match s with
      | .data id recs _ => optIds.contains id && recs.length ≥ 2
      | _ => false) then ["v9-options-multi-record"] else []) ++
  (let hasProto (fs : List TField) : Bool := fs.any fun f => c.t.v9Ty (c.t.v9Field f.typ) == .proto
   let protoTemplates :=
     (v9Sets.any fun s => match s with | .templates ts _ => ts.any (fun t => hasProto t.fields) | _ => false) ||
     (d.v9.any fun e => match e.2 with | .t t => hasProto t.fields | _ => false)
   if protoTemplates && v9Sets.any (fun s => match s with
      | .data _ recs _ => recs.any fun r => r.any fun b => b.length == 1 && 146 ≤ beNat b && beNat b ≤ 254
      | _ => false) then ["v9-proto-146-254"] else [])

@[csimp] theorem inputClasses_eq : @Findings.inputClasses = @inputClassesC := rfl

/-! ### Preds.lean / Oracle.lean : the per-call oracles walk the buffer packet by packet and asked
    for `buf.length` (or called the old `beU`) at every packet -/

open Preds in
def versionOfC (buf : Bytes) : Option Nat :=
  match beU 2 buf with
  | some (v, _) => some v
  | none => none

@[csimp] theorem versionOf_eq : @Preds.versionOf = @versionOfC := rfl

open Preds in
def errConsistentF (buf : Bytes) : ErrKind → Bool
  | .incomplete => !lenGe 2 buf
  | .partialParse v body => decide (versionOf buf = some v) && body == buf.drop 2
  | .unknownVersion body => lenGe 2 buf && body == buf.drop 2

@[csimp] theorem errConsistent_eq : @Preds.errConsistent = @errConsistentF := by
  funext buf k
  cases k
  case incomplete =>
    simp only [Preds.errConsistent, errConsistentF, lenGe_eq]
    by_cases h : 2 ≤ buf.length
    · simp [h, Nat.not_lt.mpr h]
    · simp [h, Nat.lt_of_not_le h]
  case partialParse v body => rfl
  case unknownVersion body => simp [Preds.errConsistent, errConsistentF, lenGe_eq]

open Preds in
def decomposesF (c : Config) : Bytes → List Packet → Bool
  | buf, [] =>
    buf.isEmpty ||
    (match versionOf buf with
     | some v => !c.allowed.contains v
     | none => false)
  | buf, [.error k rem] => !buf.isEmpty && rem == buf && errConsistent buf k
  | buf, p :: ps =>
    match wireLen c p with
    | none => false
    | some n => decide (0 < n) && lenGe n buf && decomposesF c (buf.drop n) ps

@[csimp] theorem decomposes_eq : @Preds.decomposes = @decomposesF := by
  funext c buf pkts
  induction pkts generalizing buf with
  | nil => simp only [Preds.decomposes, decomposesF]; rfl
  | cons p ps ih =>
    cases ps with
    | nil =>
      cases p <;> simp only [Preds.decomposes, decomposesF, lenGe_eq] <;> rfl
    | cons q qs =>
      simp only [Preds.decomposes, decomposesF, lenGe_eq, ih]; rfl

open Preds in
def takeAllowedC (cAll : Config) (S : List Nat) : Nat → Bytes → List Packet → List Packet
  | 0, _, _ => []
  | _ + 1, _, [] => []
  | fuel + 1, buf, p :: ps =>
    match versionOf buf with
    | none => [p]
    | some v =>
      if !S.contains v then []
      else
        match wireLen cAll p with
        | none => [p]
        | some n => p :: takeAllowedC cAll S fuel (buf.drop n) ps

@[csimp] theorem takeAllowed_eq : @Preds.takeAllowed = @takeAllowedC := by
  funext cAll S fuel
  induction fuel with
  | zero => funext buf pkts; simp only [Preds.takeAllowed, takeAllowedC]
  | succ fuel ih =>
    funext buf pkts
    cases pkts with
    | nil => simp only [Preds.takeAllowed, takeAllowedC]
    | cons p ps => simp only [Preds.takeAllowed, takeAllowedC, ih]; rfl

open Preds in
/-- `c03ok` with `buf.length < a` computed as `!lenGe a buf` -/
def c03okF (c : Config) (names : List (Nat × String)) : Nat → Bytes → List Packet → Bool
  | 0, _, _ => true
  | fuel + 1, buf, pkts =>
    match versionOf buf with
    | none => true
    | some v =>
      if !c.allowed.contains v then true
      else
        let fixed (hdrLay recLay : Layout) (hdrSpec recSpec : List (String × Nat)) (isV : Packet → Option (List Nat × List (List Nat))) : Bool :=
          let need := Spec.totalLen hdrSpec + Spec.totalLen recSpec * beNat ((buf.drop 2).take 2)
          if lenGe (Spec.totalLen hdrSpec) buf = false ∨ lenGe need buf = false then
            (match pkts with
             | [.error _ _] => true
             | _ => false)
          else
            match pkts with
            | p :: ps =>
              (match isV p with
               | some (h, rs) => fixedDecodes names hdrLay recLay hdrSpec recSpec buf h rs && c03okF c names fuel (buf.drop need) ps
               | none => false)
            | [] => false
        if v = 5 then
          fixed c.t.v5Hdr c.t.v5Rec Spec.ciscoV5Hdr Spec.ciscoV5Rec (fun p => match p with | .v5 h rs => some (h, rs) | _ => none)
        else if v = 7 then
          fixed c.t.v7Hdr c.t.v7Rec Spec.ciscoV7Hdr Spec.ciscoV7Rec (fun p => match p with | .v7 h rs => some (h, rs) | _ => none)
        else
          match pkts with
          | p :: ps =>
            (match wireLen c p with
             | some n => if n = 0 then true else c03okF c names fuel (buf.drop n) ps
             | none => true)
          | [] => true

theorem lenGe_false {α : Type} (n : Nat) (i : List α) : (lenGe n i = false) = (i.length < n) := by
  rw [lenGe_eq]; simp

@[csimp] theorem c03ok_eq : @Preds.c03ok = @c03okF := by
  funext c names fuel
  induction fuel with
  | zero => rfl
  | succ fuel ih =>
    funext buf pkts
    simp only [Preds.c03ok, c03okF, ih, lenGe_false]
    rfl

open Preds in
def parseOraclesC (c : Config) (_st : PState) (buf : Bytes) (a : ParseAns) (sv : Option SpecView) (wExport wCommon : Bool) : List (String × Bool) :=
  let done := a.outcome == "done"
  [ ("C01", done && a.exports.all (fun e => e != some .panic)),
    ("C02", !done || decomposes c buf a.pkts),
    ("C03", !done || c03ok c names (buf.length + 1) buf a.pkts),
    ("C08", !done || !wExport || reexportOk c isFixedPkt buf a.pkts a.exports),
    ("C09", !done || !wExport || reexportOk c isV9Pkt buf a.pkts a.exports),
    ("C10", !done || !wExport || reexportOk c isIpfixPkt buf a.pkts a.exports),
    ("C13", !done || !wCommon || commonOkDup c names a.pkts a.common) ] ++
  (match sv with
   | some v =>
     if v.conformant then
       let agree (sel : Nat → Bool) : Bool :=
         done && a.pkts.length == v.pkts.length && (v.pkts.zip a.pkts).all fun p =>
           match p.1 with
           | .pkt e => !sel (expVersion e) || e == p.2
           | .inexpressible ver => !sel ver
       [("C03spec", agree (fun v => v == 5 || v == 7)), ("C04", agree (· == 9)), ("C05", agree (· == 10)),
        ("C06", agree (fun v => v == 9 || v == 10))]
     else []
   | none => [])

@[csimp] theorem parseOracles_eq : @Preds.parseOracles = @parseOraclesC := rfl

end Netflow.Fast
