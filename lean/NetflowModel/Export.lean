/-
  Export.lean — model of the four `to_be_bytes` exporters.
-/
import NetflowModel.Parser
namespace Netflow

def Out.append : Out Bytes → Out Bytes → Out Bytes
  | .ok a, .ok b => .ok (a ++ b)
  | .panic, _ => .panic
  | .err, _ => .err
  | .ok _, .panic => .panic
  | .ok _, .err => .err

/-- concatenate exporter results left to right; the first failure wins (`?` / panic) -/
def Out.concat : List (Out Bytes) → Out Bytes
  | [] => .ok []
  | x :: xs => x.append (Out.concat xs)

/-- `V5::to_be_bytes` / `V7::to_be_bytes` -/
def exportFixed (hdr rec : Layout) (hOrder rOrder : List String) (h : List Nat) (recs : List (List Nat)) : Bytes :=
  exportByOrder hdr hOrder h ++ recs.flatMap (exportByOrder rec rOrder)

def exportTField (f : TField) : Bytes := toBE 2 f.typ ++ toBE 2 f.len

def exportV9Template (t : V9Template) : Bytes :=
  toBE 2 t.id ++ toBE 2 t.fieldCount ++ t.fields.flatMap exportTField

def exportV9OptTemplate (t : V9OptTemplate) : Bytes :=
  toBE 2 t.id ++ toBE 2 t.scopeLen ++ toBE 2 t.optLen ++ t.scope.flatMap exportTField ++ t.opts.flatMap exportTField

def exportRec (vc : ValueCfg) (r : Rec) : Out Bytes := Out.concat (r.map fun e => e.2.2.toBE vc)

def exportRecs (vc : ValueCfg) (rs : List Rec) : Out Bytes := Out.concat (rs.map (exportRec vc))

def exportV9Body (vc : ValueCfg) : V9Body → Out Bytes
  | .templates ts pad => .ok (ts.flatMap exportV9Template ++ pad)
  | .optTemplates ts pad => .ok (ts.flatMap exportV9OptTemplate ++ pad)
  | .data recs pad => (exportRecs vc recs).append (.ok pad)
  | .optData ss os pad => .ok (ss.flatMap (·.2) ++ os.flatMap (·.2) ++ pad)

def exportV9Set (vc : ValueCfg) (s : V9Set) : Out Bytes :=
  (Out.ok (toBE 2 s.id ++ toBE 2 s.len)).append (exportV9Body vc s.body)

/-- `V9::to_be_bytes` -/
def exportV9 (c : Config) (h : List Nat) (sets : List V9Set) : Out Bytes :=
  (Out.ok (exportByOrder c.t.v9Hdr c.t.v9HdrOrder h)).append (Out.concat (sets.map (exportV9Set c.vc)))

def exportIpTField (f : IpTField) : Bytes :=
  toBE 2 f.typ ++ toBE 2 f.len ++ (match f.ent with | some e => toBE 4 e | none => [])

def exportIpBody (vc : ValueCfg) : IpBody → Out Bytes
  | .template t => .ok (toBE 2 t.id ++ toBE 2 t.fieldCount ++ t.fields.flatMap exportIpTField ++ t.pad)
  | .optTemplate t =>
    .ok (toBE 2 t.id ++ toBE 2 t.fieldCount ++ toBE 2 t.scopeCount ++ t.fields.flatMap exportIpTField ++ t.pad)
  | .data recs pad => (exportRecs vc recs).append (.ok pad)
  | .optData recs pad => (exportRecs vc recs).append (.ok pad)

def exportIpSet (vc : ValueCfg) (s : IpSet) : Out Bytes :=
  (Out.ok (toBE 2 s.id ++ toBE 2 s.len)).append (exportIpBody vc s.body)

/-- `IPFix::to_be_bytes` -/
def exportIpfix (c : Config) (h : List Nat) (sets : List IpSet) : Out Bytes :=
  (Out.ok (exportByOrder c.t.ipHdr c.t.ipHdrOrder h)).append (Out.concat (sets.map (exportIpSet c.vc)))

/-- re-export of any decoded packet (`none` for error elements, which have no exporter) -/
def exportPacket (c : Config) : Packet → Option (Out Bytes)
  | .v5 h rs => some (.ok (exportFixed c.t.v5Hdr c.t.v5Rec c.t.v5HdrOrder c.t.v5RecOrder h rs))
  | .v7 h rs => some (.ok (exportFixed c.t.v7Hdr c.t.v7Rec c.t.v7HdrOrder c.t.v7RecOrder h rs))
  | .v9 h ss => some (exportV9 c h ss)
  | .ipfix h ss => some (exportIpfix c h ss)
  | .error _ _ => none

end Netflow
