/-
  Ctl.lean — the CONTROL SKELETON of the crate's hand-modelled parsers as data.

  `tools/translate.py` reads, on every run, the constants, comparison operators, match-arm orders and
  guard/flag shapes of the control code of src/lib.rs, src/variable_versions/v9.rs and ipfix.rs (the part of
  the crate that `V9.lean`, `Ipfix.lean` and `Parser.lean` model by hand) and writes them as
  `Generated.ctl : Ctl` (GeneratedCtl.lean).  This file holds the `…K` versions of the control functions:
  the same functions with every such constant / operator / arm order taken from a `Ctl` value.
  `Lemmas/G2Ctl.lean` proves that for `k = Generated.ctl` they ARE the hand-written functions, so every
  theorem about `parseBytes` is a theorem about the skeleton the source has NOW; an edit of one of these
  constants (`saturating_sub(4)` → `(3)`, `id < SET_MIN_RANGE` → `<=`, the two `contains_key` arms swapped, the
  allowed-version gate moved behind the dispatch …) regenerates a different `Ctl`, the equalities no longer
  check, and the property's obligations break even if no generated input happens to reach the difference.
-/
import NetflowModel.Parser
namespace Netflow

/-- comparison operators of the source, as data -/
inductive Cmp where
  | lt | le | eq | ne | gt | ge
  deriving Repr, DecidableEq

def Cmp.eval : Cmp → Nat → Nat → Bool
  | .lt, a, b => decide (a < b)
  | .le, a, b => decide (a ≤ b)
  | .eq, a, b => decide (a = b)
  | .ne, a, b => decide (a ≠ b)
  | .gt, a, b => decide (a > b)
  | .ge, a, b => decide (a ≥ b)

/-- arms of `FlowSetBody::parse` (v9.rs), in source order; first arm whose guard holds wins -/
inductive V9Arm where
  | tmpl | optTmpl | optData | data
  deriving Repr, DecidableEq

/-- arms of `FlowSetBody::parse` (ipfix.rs) -/
inductive IpArm where
  | tmpl | optTmpl | data | optData
  deriving Repr, DecidableEq

structure Ctl where
  /-- lib.rs: the `allowed_versions` gate precedes the `match version` dispatch -/
  gateFirst : Bool
  /-- `PartialParse { version: N, .. }` written by each parser wrapper -/
  v5ErrVersion : Nat
  v7ErrVersion : Nat
  v9ErrVersion : Nat
  ipErrVersion : Nat
  /-- v9.rs `FlowSet`: `header.length.saturating_sub(N)` -/
  v9SetSub : Nat
  v9Arms : List V9Arm
  /-- v9.rs `OptionsTemplate`: `options_scope_length / N`, `options_length / N` -/
  v9ScopeDiv : Nat
  v9OptDiv : Nat
  /-- `parse_flowsets`: an exhausted input skips the remaining iterations -/
  v9SkipEmpty : Bool
  /-- `FieldParser::parse`: total size 0 is a parse error (instead of a division by zero) -/
  v9ZeroIsErr : Bool
  /-- `FieldParser::parse`: the record loop STOPS at the first record that does not decode (`for … { … Err(_) => break }`); `false` is
      the `fold` of the code before the fix, which went on — and failed again — for every remaining iteration -/
  v9StopOnErr : Bool
  /-- saturation bound of `get_total_size` (u16) -/
  v9SizeSat : Nat
  /-- ipfix.rs `IPFix`: `header.length.saturating_sub(N)`; `FlowSet`: `saturating_sub(N)` -/
  ipMsgSub : Nat
  ipSetSub : Nat
  ipArms : List IpArm
  /-- template-set guard `id <op> SET_MIN_RANGE && id <op2> OPTIONS_TEMPLATE_ID` -/
  ipTmplCmp : Cmp
  ipTmplCmp2 : Cmp
  /-- `Cond = "field_type_number > 32767"`, `overflowing_sub(32768)` -/
  ipEntCmp : Cmp
  ipEntThr : Nat
  ipEntSub : Nat
  /-- `is_valid`: `any(|f| f.field_length > 0)` -/
  ipValidCmp : Cmp
  ipValidThr : Nat
  /-- `parse_field_length`: `65535 => …`, `if length == 255` -/
  ipVarLen : Nat
  ipVarEscCmp : Cmp
  ipVarEsc : Nat
  /-- record loop: `if total_taken == 0 || remaining.len() < total_taken { break }` -/
  ipBreakCmp1 : Cmp
  ipBreakVal : Nat
  ipBreakCmp2 : Cmp
  /-- `ErrorIf = "template.get_fields().is_empty()"` on both data kinds -/
  ipEmptyErr : Bool
  deriving Repr, DecidableEq

/-- the skeleton the hand-written model of V9.lean / Ipfix.lean / Parser.lean hard-codes (`Props.Ctl_skeleton_is_modelled` proves
    that the one read from the source on this run is this one) -/
def Ctl.std : Ctl :=
  { gateFirst := true, v5ErrVersion := 5, v7ErrVersion := 7, v9ErrVersion := 9, ipErrVersion := 10,
    v9SetSub := 4, v9Arms := [.tmpl, .optTmpl, .optData, .data], v9ScopeDiv := 4, v9OptDiv := 4, v9SkipEmpty := true,
    v9ZeroIsErr := true, v9StopOnErr := true, v9SizeSat := 65535, ipMsgSub := 16, ipSetSub := 4, ipArms := [.tmpl, .optTmpl, .data, .optData],
    ipTmplCmp := .lt, ipTmplCmp2 := .ne, ipEntCmp := .gt, ipEntThr := 32767, ipEntSub := 32768, ipValidCmp := .gt,
    ipValidThr := 0, ipVarLen := 65535, ipVarEscCmp := .eq, ipVarEsc := 255, ipBreakCmp1 := .eq, ipBreakVal := 0,
    ipBreakCmp2 := .lt, ipEmptyErr := true }

/-! ### V9 -/

def parseV9OptTemplateK (k : Ctl) : P V9OptTemplate := fun i =>
  match beU 2 i with
  | none => none
  | some (id, r) =>
    match beU 2 r with
    | none => none
    | some (sl, r1) =>
      match beU 2 r1 with
      | none => none
      | some (ol, r2) =>
        match countP parseTField (sl / k.v9ScopeDiv) r2 with
        | none => none
        | some (ss, r3) =>
          match countP parseTField (ol / k.v9OptDiv) r3 with
          | none => none
          | some (os, r4) => some ({ id := id, scopeLen := sl, optLen := ol, scope := ss, opts := os }, r4)

def v9TotalSizeK (k : Ctl) (fs : List TField) : Nat :=
  fs.foldl (fun acc f => min (acc + f.len) k.v9SizeSat) 0

def v9ArmGuard (c : Config) (st : PState) (id : Nat) : V9Arm → Bool
  | .tmpl => decide (id = c.t.v9TemplateId)
  | .optTmpl => decide (id = c.t.v9OptTemplateId)
  | .optData => (amLookup id st.v9O).isSome
  | .data => (amLookup id st.v9T).isSome

/-- `FieldParser::parse` (v9): the record loop with the code's reaction to a record that does not decode — stop, or (the old `fold`)
    go on with the same input.  Both give the same result (`G2.v9RecLoopK_eq`): a failing record leaves the input where it was. -/
def v9RecLoopK (stop : Bool) (c : Config) (fs : List TField) : Nat → Bytes → List Rec → List Rec × Bytes
  | 0, i, acc => (acc, i)
  | n + 1, i, acc =>
    match v9ParseRec c fs 0 i with
    | none => if stop then (acc, i) else v9RecLoopK stop c fs n i acc
    | some (r, i') => v9RecLoopK stop c fs n i' (acc ++ [r])

def v9ArmRun (k : Ctl) (c : Config) (st : PState) (id : Nat) (body : Bytes) : V9Arm → PState × Res V9Body
  | .tmpl =>
    match many0 parseV9Template body with
    | .ok (ts, pad) => (insertV9Templates st ts, .ok (.templates ts pad))
    | .err => (st, .err)
    | .outOfFuel => (st, .overflow)
  | .optTmpl =>
    match many0 (parseV9OptTemplateK k) body with
    | .ok (ts, pad) => (insertV9OptTemplates st ts, .ok (.optTemplates ts pad))
    | .err => (st, .err)
    | .outOfFuel => (st, .overflow)
  | .optData =>
    match amLookup id st.v9O with
    | some ot =>
      match v9ScopeLoop c ot.scope body with
      | none => (st, .err)
      | some (ss, r) =>
        match v9OptLoop c ot.opts r with
        | none => (st, .err)
        | some (os, pad) => (st, .ok (.optData ss os pad))
    | none => (st, .err)
  | .data =>
    match amLookup id st.v9T with
    | some t =>
      let total := v9TotalSizeK k t.fields
      if total = 0 then (if k.v9ZeroIsErr then (st, .err) else (st, .panic))
      else
        let (recs, pad) := v9RecLoopK k.v9StopOnErr c t.fields (body.length / total) body []
        (st, .ok (.data recs pad))
    | none => (st, .err)

def v9ParseBodyK (k : Ctl) (c : Config) (st : PState) (id : Nat) (body : Bytes) : PState × Res V9Body :=
  match k.v9Arms.find? (v9ArmGuard c st id) with
  | some a => v9ArmRun k c st id body a
  | none => (st, .err)

def v9ParseSetK (k : Ctl) (c : Config) (st : PState) (i : Bytes) : PState × Res (V9Set × Bytes) :=
  match parseLayout c.t.protoFromU8 c.t.v9SetHdr i with
  | none => (st, .err)
  | some (h, r) =>
    let id := c.t.v9SetHdr.get "flowset_id" h
    let len := c.t.v9SetHdr.get "length" h
    match takeN (len - k.v9SetSub) r with
    | none => (st, .err)
    | some (body, r') =>
      match v9ParseBodyK k c st id body with
      | (st', .ok b) => (st', .ok ({ id := id, len := len, body := b }, r'))
      | (st', .err) => (st', .err)
      | (st', .panic) => (st', .panic)
      | (st', .overflow) => (st', .overflow)

def v9ParseSetsK (k : Ctl) (c : Config) : Nat → PState → Bytes → PState × Res (List V9Set × Bytes)
  | 0, st, i => (st, .ok ([], i))
  | n + 1, st, i =>
    if k.v9SkipEmpty && i.isEmpty then v9ParseSetsK k c n st i
    else
      match v9ParseSetK k c st i with
      | (st', .ok (s, r)) =>
        match v9ParseSetsK k c n st' r with
        | (st'', .ok (ss, r')) => (st'', .ok (s :: ss, r'))
        | (st'', .err) => (st'', .err)
        | (st'', .panic) => (st'', .panic)
        | (st'', .overflow) => (st'', .overflow)
      | (st', .err) => (st', .err)
      | (st', .panic) => (st', .panic)
      | (st', .overflow) => (st', .overflow)

def parseV9K (k : Ctl) (c : Config) (st : PState) (i : Bytes) : PState × Res (Packet × Bytes) :=
  match parseLayout c.t.protoFromU8 c.t.v9Hdr i with
  | none => (st, .err)
  | some (h, r) =>
    match v9ParseSetsK k c (c.t.v9Hdr.get "count" h) st r with
    | (st', .ok (ss, r')) => (st', .ok (.v9 h ss, r'))
    | (st', .err) => (st', .err)
    | (st', .panic) => (st', .panic)
    | (st', .overflow) => (st', .overflow)

/-! ### IPFIX -/

def parseIpTFieldK (k : Ctl) : P IpTField := fun i =>
  match beU 2 i with
  | none => none
  | some (t, r) =>
    match beU 2 r with
    | none => none
    | some (l, r1) =>
      if k.ipEntCmp.eval t k.ipEntThr then
        match beU 4 r1 with
        | none => none
        | some (e, r2) => some ({ typ := t - k.ipEntSub, len := l, ent := some e }, r2)
      else some ({ typ := t, len := l, ent := none }, r1)

def ipValidK (k : Ctl) (fs : List IpTField) : Bool := fs.any fun f => k.ipValidCmp.eval f.len k.ipValidThr

def parseIpTemplateK (k : Ctl) (body : Bytes) : Res IpTemplate :=
  match beU 2 body with
  | none => .err
  | some (id, r) =>
    match beU 2 r with
    | none => .err
    | some (fc, r1) =>
      match many0 (parseIpTFieldK k) r1 with
      | .ok (fs, pad) => .ok { id := id, fieldCount := fc, fields := fs, pad := pad }
      | .err => .err
      | .outOfFuel => .overflow

def parseIpOptTemplateK (k : Ctl) (body : Bytes) : Res IpOptTemplate :=
  match beU 2 body with
  | none => .err
  | some (id, r) =>
    match beU 2 r with
    | none => .err
    | some (fc, r1) =>
      match beU 2 r1 with
      | none => .err
      | some (sc, r2) =>
        let combined := if sc ≤ fc then fc else min (sc + fc) 65535
        match countP (parseIpTFieldK k) combined r2 with
        | none => .err
        | some (fs, pad) => .ok { id := id, fieldCount := fc, scopeCount := sc, fields := fs, pad := pad }

def ipFieldLengthK (k : Ctl) (f : IpTField) : P Nat := fun i =>
  if f.len = k.ipVarLen then
    match beU 1 i with
    | none => none
    | some (l, r) => if k.ipVarEscCmp.eval l k.ipVarEsc then beU 2 r else some (l, r)
  else some (f.len, i)

def ipParseValueK (k : Ctl) (c : Config) (f : IpTField) : P FieldValue := fun i =>
  match ipFieldLengthK k f i with
  | none => none
  | some (len, r) =>
    match f.ent with
    | some _ =>
      match takeN len r with
      | none => none
      | some (b, r') => some (.vec b, r')
    | none => parseValue c.vc (c.t.ipTy (c.t.ipField f.typ)) len r

def ipParseRecK (k : Ctl) (c : Config) : List IpTField → Nat → P (List Rec)
  | [], _, i => some ([], i)
  | f :: fs, idx, i =>
    match ipParseValueK k c f i with
    | none => none
    | some (v, r) =>
      match ipParseRecK k c fs (idx + 1) r with
      | none => none
      | some (es, r') => some ([(idx, ipFieldDisc c f, v)] :: es, r')

def ipRecLoopK (k : Ctl) (c : Config) (fs : List IpTField) : Nat → Bytes → Res (List Rec × Bytes)
  | 0, _ => .overflow
  | fuel + 1, i =>
    match ipParseRecK k c fs 0 i with
    | none => .err
    | some (es, r) =>
      let taken := i.length - r.length
      if k.ipBreakCmp1.eval taken k.ipBreakVal then .ok (es, r)
      else if !(k.ipBreakCmp2.eval r.length taken) then
        match ipRecLoopK k c fs fuel r with
        | .ok (more, r') => .ok (es ++ more, r')
        | .err => .err
        | .panic => .panic
        | .overflow => .overflow
      else .ok (es, r)

def ipArmGuard (k : Ctl) (c : Config) (st : PState) (id : Nat) : IpArm → Bool
  | .tmpl => k.ipTmplCmp.eval id c.t.ipSetMinRange && k.ipTmplCmp2.eval id c.t.ipOptTemplateId
  | .optTmpl => decide (id = c.t.ipOptTemplateId)
  | .data => (amLookup id st.ipT).isSome
  | .optData => (amLookup id st.ipO).isSome

def ipArmRun (k : Ctl) (c : Config) (st : PState) (id : Nat) (body : Bytes) : IpArm → PState × Res IpBody
  | .tmpl =>
    match parseIpTemplateK k body with
    | .ok t => if ipValidK k t.fields then ({ st with ipT := amInsert t.id t st.ipT, ipO := amErase t.id st.ipO }, .ok (.template t)) else (st, .err)
    | .err => (st, .err)
    | .panic => (st, .panic)
    | .overflow => (st, .overflow)
  | .optTmpl =>
    match parseIpOptTemplateK k body with
    | .ok t => if ipValidK k t.fields then ({ st with ipO := amInsert t.id t st.ipO, ipT := amErase t.id st.ipT }, .ok (.optTemplate t)) else (st, .err)
    | .err => (st, .err)
    | .panic => (st, .panic)
    | .overflow => (st, .overflow)
  | .data =>
    match amLookup id st.ipT with
    | some t =>
      if k.ipEmptyErr && t.fields.isEmpty then (st, .err)
      else
        match ipRecLoopK k c t.fields (body.length + 1) body with
        | .ok (recs, pad) => (st, .ok (.data recs pad))
        | .err => (st, .err)
        | .panic => (st, .panic)
        | .overflow => (st, .overflow)
    | none => (st, .err)
  | .optData =>
    match amLookup id st.ipO with
    | some t =>
      if k.ipEmptyErr && t.fields.isEmpty then (st, .err)
      else
        match ipRecLoopK k c t.fields (body.length + 1) body with
        | .ok (recs, pad) => (st, .ok (.optData recs pad))
        | .err => (st, .err)
        | .panic => (st, .panic)
        | .overflow => (st, .overflow)
    | none => (st, .err)

def ipParseBodyK (k : Ctl) (c : Config) (st : PState) (id : Nat) (body : Bytes) : PState × Res IpBody :=
  match k.ipArms.find? (ipArmGuard k c st id) with
  | some a => ipArmRun k c st id body a
  | none => (st, .err)

def ipParseSetK (k : Ctl) (c : Config) (st : PState) (i : Bytes) : PState × Res (IpSet × Bytes) :=
  match parseLayout c.t.protoFromU8 c.t.ipSetHdr i with
  | none => (st, .err)
  | some (h, r) =>
    let id := c.t.ipSetHdr.get "header_id" h
    let len := c.t.ipSetHdr.get "length" h
    match takeN (len - k.ipSetSub) r with
    | none => (st, .err)
    | some (body, r') =>
      match ipParseBodyK k c st id body with
      | (st', .ok b) => (st', .ok ({ id := id, len := len, body := b }, r'))
      | (st', .err) => (st', .err)
      | (st', .panic) => (st', .panic)
      | (st', .overflow) => (st', .overflow)

def ipParseSetsK (k : Ctl) (c : Config) : Nat → PState → Bytes → PState × Res (List IpSet)
  | 0, st, _ => (st, .overflow)
  | fuel + 1, st, i =>
    match ipParseSetK k c st i with
    | (st', .ok (s, r)) =>
      if r.length = i.length then (st', .err)
      else
        match ipParseSetsK k c fuel st' r with
        | (st'', .ok ss) => (st'', .ok (s :: ss))
        | (st'', .err) => (st'', .err)
        | (st'', .panic) => (st'', .panic)
        | (st'', .overflow) => (st'', .overflow)
    | (st', .err) => (st', .ok [])
    | (st', .panic) => (st', .panic)
    | (st', .overflow) => (st', .overflow)

def parseIpfixK (k : Ctl) (c : Config) (st : PState) (i : Bytes) : PState × Res (Packet × Bytes) :=
  match parseLayout c.t.protoFromU8 c.t.ipHdr i with
  | none => (st, .err)
  | some (h, r) =>
    match takeN (c.t.ipHdr.get "length" h - k.ipMsgSub) r with
    | none => (st, .err)
    | some (body, r') =>
      match ipParseSetsK k c (body.length + 1) st body with
      | (st', .ok ss) => (st', .ok (.ipfix h ss, r'))
      | (st', .err) => (st', .err)
      | (st', .panic) => (st', .panic)
      | (st', .overflow) => (st', .overflow)

/-! ### top level -/

def parseVersionedK (k : Ctl) (c : Config) (st : PState) (kind : Nat) (body : Bytes) : PState × Step :=
  if kind = 5 then
    match parseFixed c c.t.v5Hdr c.t.v5Rec body with
    | some ((h, rs), r) => (st, .ok (.v5 h rs) r)
    | none => (st, .fail (.partialParse k.v5ErrVersion body))
  else if kind = 7 then
    match parseFixed c c.t.v7Hdr c.t.v7Rec body with
    | some ((h, rs), r) => (st, .ok (.v7 h rs) r)
    | none => (st, .fail (.partialParse k.v7ErrVersion body))
  else if kind = 9 then
    ((parseV9K k c st body).1, liftRes k.v9ErrVersion body (parseV9K k c st body).2)
  else if kind = 10 then
    ((parseIpfixK k c st body).1, liftRes k.ipErrVersion body (parseIpfixK k c st body).2)
  else (st, .fail (.unknownVersion body))

/-- `parse_packet_by_version`; with `gateFirst = false` the dispatch would run (and teach the caches) before the
    allowed-set test refuses the packet -/
def parsePacketK (k : Ctl) (c : Config) (st : PState) (buf : Bytes) : PState × Step :=
  match beU 2 buf with
  | none => (st, .fail .incomplete)
  | some (version, body) =>
    if k.gateFirst then
      if c.allowed.contains version then
        match c.t.dispatch.lookup version with
        | some kind => parseVersionedK k c st kind body
        | none => (st, .fail (.unknownVersion body))
      else (st, .unallowed)
    else
      let res := match c.t.dispatch.lookup version with
        | some kind => parseVersionedK k c st kind body
        | none => (st, .fail (.unknownVersion body))
      if c.allowed.contains version then res else (res.1, .unallowed)

def parseBytesFK (k : Ctl) (c : Config) : Nat → PState → Bytes → PState × Outcome
  | 0, st, _ => (st, .overflow [])
  | fuel + 1, st, buf =>
    if buf.isEmpty then (st, .done [])
    else
      match parsePacketK k c st buf with
      | (st', .ok pkt rest) =>
        if rest.isEmpty then (st', .done [pkt])
        else
          match parseBytesFK k c fuel st' rest with
          | (st'', out) => (st'', out.cons pkt)
      | (st', .fail e) => (st', .done [.error e buf])
      | (st', .unallowed) => (st', .done [])
      | (st', .panic) => (st', .panic [])
      | (st', .overflow) => (st', .overflow [])

def parseBytesK (k : Ctl) (c : Config) (st : PState) (buf : Bytes) : PState × Outcome :=
  parseBytesFK k c (buf.length + 1) st buf

end Netflow
