/-
  Findings.lean — decidable CLASS PREDICATES of the known findings (known_findings.json): for one
  `parse_bytes` call, which recorded defect classes its input / decoded output falls into.  A failing
  oracle is excused only if one of these holds for the call AND the real crate deviates exactly as the
  model does (check.py); anything else is reported as a violation.  Core only.
-/
import NetflowModel.Preds
namespace Netflow.Findings
open Netflow

def recValues (pkts : List Packet) : List FieldValue :=
  pkts.flatMap fun p =>
    match p with
    | .v9 _ ss => ss.flatMap fun s => match s.body with
      | .data recs _ => recs.flatMap fun r => r.map (·.2.2)
      | _ => []
    | .ipfix _ ss => ss.flatMap fun s => match s.body with
      | .data recs _ => recs.flatMap fun r => r.map (·.2.2)
      | .optData recs _ => recs.flatMap fun r => r.map (·.2.2)
      | _ => []
    | _ => []

def fixedRecs (c : Config) (pkts : List Packet) : List Nat :=
  pkts.flatMap fun p =>
    match p with
    | .v5 _ rs => rs.map (c.t.v5Rec.get "protocol_number")
    | .v7 _ rs => rs.map (c.t.v7Rec.get "protocol_number")
    | _ => []

def hasSub (needle : Bytes) : Bytes → Bool
  | [] => needle.isEmpty
  | b :: rest => needle.isPrefixOf (b :: rest) || hasSub needle rest

/-- protocol numbers that the common view projects out of V9 / IPFIX data records (a numeric field 4; a `ProtocolType`-typed
    value is refused by the converter and falls under `common-kind-rejected`) -/
def projectedProtos (c : Config) (pkts : List Packet) : List Nat :=
  pkts.flatMap fun p =>
    match p with
    | .v9 _ ss => (v9DataRecs ss).flatMap fun r => (Preds.fieldsOf r c.t.commonV9.proto).filterMap (Preds.protoNumOf c.t)
    | .ipfix _ ss => (Preds.regroup (ipDataRecs ss) []).flatMap fun r => (Preds.fieldsOf r c.t.commonIp.proto).filterMap (Preds.protoNumOf c.t)
    | _ => []

/-- classes visible in what was decoded -/
def outputClasses (c : Config) (pkts : List Packet) : List String :=
  let vals := recValues pkts
  let protos := fixedRecs c pkts ++ projectedProtos c pkts
  (if protos.contains 0 then ["proto-name-0"] else []) ++
  (if protos.contains 1 then ["proto-name-1"] else []) ++
  (if protos.contains 144 then ["proto-name-144"] else []) ++
  (if protos.contains 255 then ["proto-name-255"] else []) ++
  (if vals.any (fun v => match v with | .dur _ _ => true | _ => false) then ["value-duration"] else []) ++
  (if vals.any (fun v => match v with | .mac _ => true | _ => false) then ["value-mac"] else []) ++
  (if vals.any (fun v => match v with | .str s => hasSub replChar s | _ => false) then ["value-string-replacement"] else []) ++
  (if vals.any (fun v => match v with | .num (.i32 _) => true | .num (.i24 _) => true | _ => false) then ["value-signed"] else []) ++
  (if vals.any (fun v => match v with | .proto d => d == 145 | _ => false) then ["value-proto-unknown"] else []) ++
  (if vals.any (fun v => match v with | .proto _ => true | _ => false) then ["value-proto"] else []) ++
  (if vals.any (fun v => match v with | .f64 _ => true | .ip4 _ => true | .ip6 _ => true | _ => false) then ["value-fixed-size-decoder"] else []) ++
  (if pkts.any (fun p => match p with
      | .v9 _ ss => ss.any fun s => match s.body with | .data _ pad => !pad.isEmpty | _ => false
      | _ => false) then ["v9-data-padding"] else []) ++
  (if pkts.any (fun p => match p with
      | .ipfix _ ss => ss.any fun s => match s.body with
        | .template t => t.fields.any (·.ent.isSome) | .optTemplate t => t.fields.any (·.ent.isSome) | _ => false
      | _ => false) then ["ipfix-enterprise-field"] else []) ++
  (if pkts.any (fun p => match p with
      | .ipfix _ ss => !ss.isEmpty
      | _ => false) then ["ipfix-any-set"] else []) ++
  -- an IPFIX message whose reported sets do not add up to its header.length (sets after an undecodable one were dropped)
  (if pkts.any (fun p => match p with
      | .ipfix h ss => ((ss.map fun s => max s.len 4).sum + 16 != max (c.t.ipHdr.get "length" h) 16)
      | _ => false) then ["ipfix-dropped-sets"] else []) ++
  -- common view: a projected field is present but decoded with a kind the converter does not accept
  (let rejected (k : CommonKeys) (r : Rec) : Bool :=
     -- every field of the record with that key counts (a record may define a key twice: the choice among them is open, C13c)
     let bad (key : Nat) (ok : FieldValue → Bool) : Bool := (Preds.fieldsOf r key).any fun v => !ok v
     bad k.sport (fun v => (asU16 v).isSome) || bad k.dport (fun v => (asU16 v).isSome) ||
     bad k.proto (fun v => (asU8 v).isSome) || bad k.first (fun v => (asU32 v).isSome) || bad k.last (fun v => (asU32 v).isSome) ||
     bad k.smac (fun v => (asString v).isSome) || bad k.dmac (fun v => (asString v).isSome) ||
     bad k.src4 (fun v => (asIp v).isSome) || bad k.src6 (fun v => (asIp v).isSome) ||
     bad k.dst4 (fun v => (asIp v).isSome) || bad k.dst6 (fun v => (asIp v).isSome)
   if pkts.any (fun p => match p with
      | .v9 _ ss => (v9DataRecs ss).any (rejected c.t.commonV9)
      | .ipfix _ ss => (Preds.regroup (ipDataRecs ss) []).any (rejected c.t.commonIp)
      | _ => false) then ["common-kind-rejected"] else []) ++
  (if pkts.any (fun p => match p with
      | .ipfix _ ss => (Preds.regroup (ipDataRecs ss) []).any (fun r => r.length ≥ 2)
      | _ => false) then ["ipfix-per-field-flows"] else []) ++
  (if pkts.any (fun p => match p with
      | .ipfix _ ss => ss.any fun s => match s.body with | .data .. => true | .optData .. => true | _ => false
      | .v9 _ ss => ss.any fun s => match s.body with | .data .. => true | _ => false
      | _ => false) then ["has-data-records"] else [])

/-! ### classes visible in the abstract input (when the call carried abstract messages) -/

def fieldBytesSize (f : Spec.FieldBytes) : Nat := (Spec.encFieldBytes f).length

/-- some record (not the last) is longer than everything that follows it in the set -/
def varlenTail (recs : List (List Spec.FieldBytes)) (pad : Bytes) : Bool :=
  let sizes := recs.map fun r => (r.map fieldBytesSize).sum
  let rec go : List Nat → Bool
    | [] => false
    | [_] => false
    | s :: rest => decide (s > rest.sum + pad.length) || go rest
  go sizes

def signedWide (bs : Bytes) : Bool :=
  (bs.length = 8 || bs.length = 16) && (beInt bs < -(2 ^ 31 : Int) || beInt bs ≥ (2 ^ 31 : Int))

def inputClasses (c : Config) (d : Spec.Defs) (msgs : List Spec.Msg) : List String :=
  let ipSets := msgs.flatMap fun m => match m with | .ipfix x => x.sets | _ => []
  let v9Sets := msgs.flatMap fun m => match m with | .v9 x => x.sets | _ => []
  (if ipSets.any (fun s => match s with | .templates ts _ => ts.length ≥ 2 | .optTemplates ts _ => ts.length ≥ 2 | _ => false)
    then ["ipfix-multi-template-set"] else []) ++
  (if ipSets.any (fun s => match s with | .data _ recs pad => varlenTail recs pad | _ => false) then ["ipfix-varlen-tail"] else []) ++
  (if ipSets.any (fun s => match s with | .data _ recs _ => recs.any (fun r => r.any fun f => f.form != .fixed) | _ => false)
    then ["ipfix-varlen-field"] else []) ++
  (if ipSets.any (fun s => match s with | .data _ recs _ => recs.any (fun r => r.any fun f => signedWide f.content) | _ => false) ||
      v9Sets.any (fun s => match s with | .data _ recs _ => recs.any (fun r => r.any signedWide) | _ => false)
    then ["signed-wide-candidate"] else []) ++
  (let optIds := (v9Sets.flatMap fun s => match s with | .optTemplates ts _ => ts.map (·.id) | _ => []) ++
      (d.v9.filterMap fun e => match e.2 with | .o _ => some e.1 | _ => none)
   if v9Sets.any (fun s => match s with
      | .data id recs _ => optIds.contains id && recs.length ≥ 2
      | _ => false) then ["v9-options-multi-record"] else []) ++
  (let hasProto (fs : List TField) : Bool := fs.any fun f => c.t.v9Ty (c.t.v9Field f.typ) == .proto
   let protoTemplates :=
     (v9Sets.any fun s => match s with | .templates ts _ => ts.any (fun t => hasProto t.fields) | _ => false) ||
     (d.v9.any fun e => match e.2 with | .t t => hasProto t.fields | _ => false)
   if protoTemplates && v9Sets.any (fun s => match s with
      | .data _ recs _ => recs.any fun r => r.any fun b => b.length == 1 && 146 ≤ beNat b && beNat b ≤ 254
      | _ => false) then ["v9-proto-146-254"] else [])

/-! ### C17 — feature `parse_unknown_fields` off -/

/-- some cached template has a field whose library type is `Unknown` ("not known to the library") -/
def usesUnknown (c : Config) (st : PState) : Bool :=
  st.v9T.any (fun e => e.2.fields.any fun f => c.t.v9Ty (c.t.v9Field f.typ) == .unknown) ||
  st.ipT.any (fun e => e.2.fields.any fun f => f.ent.isNone && c.t.ipTy (c.t.ipField f.typ) == .unknown) ||
  st.ipO.any (fun e => e.2.fields.any fun f => f.ent.isNone && c.t.ipTy (c.t.ipField f.typ) == .unknown)

/-- some template REPORTED in these packets has a field of unknown library type -/
def reportsUnknownTemplate (c : Config) (pkts : List Packet) : Bool :=
  pkts.any fun p =>
    match p with
    | .v9 _ ss => ss.any fun s => match s.body with
      | .templates ts _ => ts.any fun t => t.fields.any fun f => c.t.v9Ty (c.t.v9Field f.typ) == .unknown
      | _ => false
    | .ipfix _ ss => ss.any fun s => match s.body with
      | .template t => t.fields.any fun f => f.ent.isNone && c.t.ipTy (c.t.ipField f.typ) == .unknown
      | .optTemplate t => t.fields.any fun f => f.ent.isNone && c.t.ipTy (c.t.ipField f.typ) == .unknown
      | _ => false
    | _ => false

/-- no decoded data record carries a field of a type unknown to the library -/
def noUnknownEntries (c : Config) (pkts : List Packet) : Bool :=
  pkts.all fun p =>
    match p with
    | .v9 _ ss => ss.all fun s => match s.body with
      | .data recs _ => recs.all fun r => r.all fun e => c.t.v9Ty e.2.1 != .unknown
      | _ => true
    | .ipfix _ ss => ss.all fun s => match s.body with
      | .data recs _ => recs.all fun r => r.all fun e => e.2.1 == c.t.ipEnterprise || c.t.ipTy e.2.1 != .unknown
      | .optData recs _ => recs.all fun r => r.all fun e => e.2.1 == c.t.ipEnterprise || c.t.ipTy e.2.1 != .unknown
      | _ => true
    | _ => true

/-- with the feature off, a data set whose governing template has a field of unknown type reports no
    decoded record at all.  The governing template is tracked through the call: the caches before it,
    updated by every template set REPORTED in the result, in order. -/
def noRecordsOfUnknownTemplates (c : Config) (before _after : PState) (pkts : List Packet) : Bool :=
  let unkV9 (t : V9Template) : Bool := t.fields.any fun f => c.t.v9Ty (c.t.v9Field f.typ) == .unknown
  let unkIp (fs : List IpTField) : Bool := fs.any fun f => f.ent.isNone && c.t.ipTy (c.t.ipField f.typ) == .unknown
  -- (v9 data templates, ipfix templates, ipfix options templates) : id ↦ has an unknown-typed field
  let init : List (Nat × Bool) × List (Nat × Bool) × List (Nat × Bool) :=
    (before.v9T.map (fun e => (e.1, unkV9 e.2)), before.ipT.map (fun e => (e.1, unkIp e.2.fields)), before.ipO.map (fun e => (e.1, unkIp e.2.fields)))
  let stepV9 (acc : (List (Nat × Bool) × List (Nat × Bool) × List (Nat × Bool)) × Bool) (s : V9Set) :=
    let (m, ok) := acc
    match s.body with
    | .templates ts _ => ((ts.foldl (fun t x => (x.id, unkV9 x) :: t) m.1, m.2.1, m.2.2), ok)
    | .optTemplates ts _ => ((m.1.filter (fun e => !(ts.any fun x => x.id == e.1)), m.2.1, m.2.2), ok)
    | .data recs _ => (m, ok && (recs.isEmpty || (m.1.lookup s.id) != some true))
    | _ => (m, ok)
  let stepIp (acc : (List (Nat × Bool) × List (Nat × Bool) × List (Nat × Bool)) × Bool) (s : IpSet) :=
    let (m, ok) := acc
    match s.body with
    | .template t => ((m.1, (t.id, unkIp t.fields) :: m.2.1, m.2.2.filter (·.1 != t.id)), ok)
    | .optTemplate t => ((m.1, m.2.1.filter (·.1 != t.id), (t.id, unkIp t.fields) :: m.2.2), ok)
    | .data recs _ => (m, ok && (recs.isEmpty || (m.2.1.lookup s.id) != some true))
    | .optData recs _ => (m, ok && (recs.isEmpty || (m.2.2.lookup s.id) != some true))
  (pkts.foldl (fun acc p =>
    match p with
    | .v9 _ ss => ss.foldl stepV9 acc
    | .ipfix _ ss => ss.foldl stepIp acc
    | _ => acc) (init, true)).2

end Netflow.Findings
