/-
  Arms.lean — descriptor language for the `match` arms of `FieldValue::from_field_type`,
  `FieldValue::to_be_bytes`, `DataNumber::to_be_bytes` and `From<DataNumber> for usize` (data_number.rs).
  `tools/translate.py` regenerates the arm TABLES from the Rust source on every run (`Generated.valueArms`,
  `Generated.exportArms`, `Generated.dnExportArms`, `Generated.dnUsizeArms`); the interpreters below give each descriptor
  its meaning, and `Props/*` prove that the hand-written model functions `parseValue`, `FieldValue.toBE`,
  `DataNumber.toBE`, `DataNumber.toUsize` ARE the interpretation of the regenerated tables (`Lemmas/G1Arms.lean`).
  So an edit of an arm in the source (another reader, another unit, another constructor) changes the regenerated
  table and breaks that obligation — the model can no longer silently differ from the code on the arm structure.
  Core only.
-/
import NetflowModel.Value
namespace Netflow

/-- one arm of `FieldValue::from_field_type` -/
inductive ValueArm where
  | number (signed : Bool)        -- `DataNumber::parse(remaining, field_length, signed)` → `FieldValue::DataNumber`
  | text                          -- `take(field_length)` → `String::from_utf8_lossy` → `FieldValue::String`
  | ipv4 (bytes : Nat)            -- `be_u32` → `Ipv4Addr::from` → `FieldValue::Ip4Addr`
  | ipv6 (bytes : Nat)            -- `be_u128` → `Ipv6Addr::from` → `FieldValue::Ip6Addr`
  | mac (bytes : Nat)             -- `take(6)` → `MacAddress::from(..).to_string()` → `FieldValue::MacAddr`
  | duration (perSecond : Nat)    -- `DataNumber::parse(.., false)` → `into::<usize>() as u64` → `Duration::from_{secs,millis,micros,nanos}`
  | protocol                      -- `ProtocolTypes::parse` → `FieldValue::ProtocolType`
  | float (bytes : Nat)           -- `f64::parse` → `FieldValue::Float64`
  | bytes                         -- `take(field_length)` → `FieldValue::Vec`
  | unknownGated                  -- `parse_unknown_fields`: feature on = `take(field_length)` → `Vec`; feature off = error
  deriving Repr, DecidableEq

def interpValueArm (c : ValueCfg) (a : ValueArm) (len : Nat) : P FieldValue := fun i =>
  match a with
  | .number s =>
    match DataNumber.parse c.dnArms len s i with
    | none => none | some (d, r) => some (.num d, r)
  | .text =>
    match takeN len i with
    | none => none | some (b, r) => some (.str (utf8Lossy b), r)
  | .ipv4 n =>
    match beU n i with
    | none => none | some (v, r) => some (.ip4 v, r)
  | .ipv6 n =>
    match beU n i with
    | none => none | some (v, r) => some (.ip6 v, r)
  | .mac n =>
    match takeN n i with
    | none => none | some (b, r) => some (.mac b, r)
  | .duration u =>
    match DataNumber.parse c.dnArms len false i with
    | none => none | some (d, r) => some (durOf u d, r)
  | .protocol =>
    match beU 1 i with
    | none => none
    | some (n, r) =>
      match c.protoParse n with
      | none => none | some p => some (.proto p, r)
  | .float n =>
    match beU n i with
    | none => none | some (v, r) => some (.f64 v, r)
  | .bytes =>
    match takeN len i with
    | none => none | some (b, r) => some (.vec b, r)
  | .unknownGated =>
    if c.unknownFields then
      match takeN len i with
      | none => none | some (b, r) => some (.vec b, r)
    else none

abbrev ValueArms := List (FType × ValueArm)

/-- the arm selected for a library type (the `match` is exhaustive in Rust; a missing entry rejects) -/
def valueArmOf (t : ValueArms) (ty : FType) : Option ValueArm := t.lookup ty

def parseValueBy (t : ValueArms) (c : ValueCfg) (ty : FType) (len : Nat) : P FieldValue := fun i =>
  match valueArmOf t ty with
  | some a => interpValueArm c a len i
  | none => none

/-- constructor tags of `FieldValue` (scrutinee side of `to_be_bytes`) -/
inductive VTag where
  | str | num | f64 | dur | ip4 | ip6 | mac | vec | proto | unknown
  deriving Repr, DecidableEq

def FieldValue.tag : FieldValue → VTag
  | .str _ => .str | .num _ => .num | .f64 _ => .f64 | .dur .. => .dur | .ip4 _ => .ip4 | .ip6 _ => .ip6
  | .mac _ => .mac | .vec _ => .vec | .proto _ => .proto | .unknown _ => .unknown

/-- one arm of `FieldValue::to_be_bytes` -/
inductive ExportArm where
  | held                       -- the bytes the value holds: `s.as_bytes().to_vec()`, `v.clone()`, `mac.as_bytes().to_vec()` (the TEXT)
  | number                     -- `d.to_be_bytes()`
  | be (bytes : Nat)           -- `x.to_be_bytes().to_vec()` / `ip.octets().to_vec()` of a `bytes`-wide scalar
  | secsU32                    -- `u32::try_from(d.as_secs())?` big endian
  | protoU8                    -- `u8::from(*p).to_be_bytes()`
  deriving Repr, DecidableEq

def interpExportArm (c : ValueCfg) (a : ExportArm) (v : FieldValue) : Out Bytes :=
  match a, v with
  | .held, .str s => .ok s
  | .held, .vec b => .ok b
  | .held, .unknown b => .ok b
  | .held, .mac raw => .ok (macText raw)
  | .number, .num d => d.toBE
  | .be n, .f64 b => .ok (Netflow.toBE n b)
  | .be n, .ip4 x => .ok (Netflow.toBE n x)
  | .be n, .ip6 x => .ok (Netflow.toBE n x)
  | .secsU32, .dur secs _ => if secs < 2 ^ 32 then .ok (Netflow.toBE 4 secs) else .err
  | .protoU8, .proto p => .ok [UInt8.ofNat (c.protoToU8 p)]
  | _, _ => .panic               -- an arm applied to a value of another kind: cannot be written in Rust

abbrev ExportArms := List (VTag × ExportArm)

def toBEBy (t : ExportArms) (c : ValueCfg) (v : FieldValue) : Out Bytes :=
  match t.lookup v.tag with
  | some a => interpExportArm c a v
  | none => .panic

/-- one arm of `DataNumber::to_be_bytes`: native `to_be_bytes` of a `bytes`-wide integer, or byteorder's
    `write_u24` / `write_i24` (which assert the range and panic outside it) -/
inductive DnExportArm where
  | native (bytes : Nat) | writeU24 | writeI24
  deriving Repr, DecidableEq

def DataNumber.armTag : DataNumber → DnArm
  | .u8 _ => .u8 | .u16 _ => .u16 | .u24 _ => .u24 | .i24 _ => .i24 | .u32 _ => .u32 | .u64 _ => .u64 | .u128 _ => .u128 | .i32 _ => .i32

def DataNumber.asInt : DataNumber → Int
  | .u8 n | .u16 n | .u24 n | .u32 n | .u64 n | .u128 n => (n : Int)
  | .i24 z | .i32 z => z

/-- the value as the unsigned integer that is written (two's complement image for the signed variants) -/
def DataNumber.lowNat (bits : Nat) : DataNumber → Nat
  | .u8 n | .u16 n | .u24 n | .u32 n | .u64 n | .u128 n => n
  | .i24 z | .i32 z => wrapUnsigned bits z

def interpDnExportArm (a : DnExportArm) (d : DataNumber) : Out Bytes :=
  match a with
  | .native n => .ok (Netflow.toBE n (d.lowNat (8 * n)))
  | .writeU24 =>
    match d with                    -- `write_u24(*n)` takes the `u32` payload of `U24` and asserts `n < 2^24`
    | .u24 n => if n < 2 ^ 24 then .ok (Netflow.toBE 3 n) else .panic
    | _ => .panic
  | .writeI24 =>
    match d with                    -- `write_i24(*n)` takes the `i32` payload of `I24` and asserts the 24-bit range
    | .i24 z => if -(2 ^ 23 : Int) ≤ z ∧ z < 2 ^ 23 then .ok (Netflow.toBE 3 (wrapUnsigned 24 z)) else .panic
    | _ => .panic

abbrev DnExportArms := List (DnArm × DnExportArm)

def dnToBEBy (t : DnExportArms) (d : DataNumber) : Out Bytes :=
  match t.lookup d.armTag with
  | some a => interpDnExportArm a d
  | none => .panic

/-! ### conversions used by the common view (`TryFrom<&FieldValue> for u8/u16/u32/…/String/IpAddr`) -/

/-- `impl_try_from!(t => V, …)`: a value converts to the integer type `ty` iff it is a `DataNumber` of exactly the variant the
    macro invocation pairs with `ty` (no widening, no narrowing) -/
def convNumBy (t : List (String × DnArm)) (ty : String) : FieldValue → Option Int
  | .num d =>
    match t.lookup ty with
    | some arm => if d.armTag = arm then some d.asInt else none
    | none => none
  | _ => none

/-- `TryFrom<&FieldValue> for String`: the text held by the accepted kinds -/
def convStringBy (tags : List VTag) (v : FieldValue) : Option Bytes :=
  if tags.contains v.tag then
    match v with
    | .str s => some s
    | .mac raw => some (macText raw)
    | _ => none
  else none

/-- `TryFrom<&FieldValue> for IpAddr`: (is_v6, value) of the accepted kinds -/
def convIpBy (tags : List VTag) (v : FieldValue) : Option (Bool × Nat) :=
  if tags.contains v.tag then
    match v with
    | .ip4 n => some (false, n)
    | .ip6 n => some (true, n)
    | _ => none
  else none

end Netflow
