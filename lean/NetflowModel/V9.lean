/-
  V9.lean — model of src/variable_versions/v9.rs (parser side).
-/
import NetflowModel.Types
namespace Netflow

def parseTField : P TField := fun i =>
  match beU 2 i with
  | none => none
  | some (t, r) =>
    match beU 2 r with
    | none => none
    | some (l, r') => some ({ typ := t, len := l }, r')

/-- `Template::parse` : id, field_count, `count(TemplateField::parse, field_count)` -/
def parseV9Template : P V9Template := fun i =>
  match beU 2 i with
  | none => none
  | some (id, r) =>
    match beU 2 r with
    | none => none
    | some (fc, r1) =>
      match countP parseTField fc r1 with
      | none => none
      | some (fs, r2) => some ({ id := id, fieldCount := fc, fields := fs }, r2)

/-- `OptionsTemplate::parse` -/
def parseV9OptTemplate : P V9OptTemplate := fun i =>
  match beU 2 i with
  | none => none
  | some (id, r) =>
    match beU 2 r with
    | none => none
    | some (sl, r1) =>
      match beU 2 r1 with
      | none => none
      | some (ol, r2) =>
        match countP parseTField (sl / 4) r2 with
        | none => none
        | some (ss, r3) =>
          match countP parseTField (ol / 4) r3 with
          | none => none
          | some (os, r4) => some ({ id := id, scopeLen := sl, optLen := ol, scope := ss, opts := os }, r4)

/-- `Template::get_total_size` : saturating u16 sum of the declared lengths -/
def v9TotalSize (fs : List TField) : Nat :=
  fs.foldl (fun acc f => min (acc + f.len) 65535) 0

/-- `FieldParser::parse_data_field` : one record, fields in template order -/
def v9ParseRec (c : Config) : List TField → Nat → P Rec
  | [], _, i => some ([], i)
  | f :: fs, idx, i =>
    match parseValue c.vc (c.t.v9Ty (c.t.v9Field f.typ)) f.len i with
    | none => none
    | some (v, r) =>
      match v9ParseRec c fs (idx + 1) r with
      | none => none
      | some (es, r') => some ((idx, c.t.v9Field f.typ, v) :: es, r')

/-- `FieldParser::parse` : the fold over `0..record_count`; a failing record parse leaves the
    accumulator unchanged and the fold goes on (so it fails again) -/
def v9RecLoop (c : Config) (fs : List TField) : Nat → Bytes → List Rec → List Rec × Bytes
  | 0, i, acc => (acc, i)
  | n + 1, i, acc =>
    match v9ParseRec c fs 0 i with
    | none => v9RecLoop c fs n i acc
    | some (r, i') => v9RecLoop c fs n i' (acc ++ [r])

/-- `many0(complete(ScopeDataField::parse(i, field.next()?)))`; `none` = `ErrorKind::Many0` -/
def v9ScopeLoop (c : Config) : List TField → Bytes → Option (List (Nat × Bytes) × Bytes)
  | [], i => some ([], i)
  | f :: fs, i =>
    match takeN f.len i with
    | none => some ([], i)
    | some (v, r) =>
      if c.t.scopeKnown f.typ then
        if r.length = i.length then none
        else
          match v9ScopeLoop c fs r with
          | none => none
          | some (vs, r') => some ((c.t.scopeField f.typ, v) :: vs, r')
      else some ([], i)

/-- `many0(complete(OptionDataField::parse(i, field.next()?)))` -/
def v9OptLoop (c : Config) : List TField → Bytes → Option (List (Nat × Bytes) × Bytes)
  | [], i => some ([], i)
  | f :: fs, i =>
    match takeN f.len i with
    | none => some ([], i)
    | some (v, r) =>
      if r.length = i.length then none
      else
        match v9OptLoop c fs r with
        | none => none
        | some (vs, r') => some ((c.t.v9Field f.typ, v) :: vs, r')

/-- result of a step that may fail at run time -/
inductive Res (α : Type) where
  | ok (a : α)
  | err                       -- nom error
  | panic                     -- Rust panic (division by zero in `FieldParser::parse`)
  | overflow                  -- unbounded recursion (model loop ran out of fuel)
  deriving Repr, DecidableEq

def insertV9Templates (st : PState) : List V9Template → PState
  | [] => st
  | t :: ts => insertV9Templates { st with v9T := amInsert t.id t st.v9T, v9O := amErase t.id st.v9O } ts

def insertV9OptTemplates (st : PState) : List V9OptTemplate → PState
  | [] => st
  | t :: ts => insertV9OptTemplates { st with v9O := amInsert t.id t st.v9O, v9T := amErase t.id st.v9T } ts

/-- `FlowSetBody::parse` on the `length - 4` bytes of the flowset -/
def v9ParseBody (c : Config) (st : PState) (id : Nat) (body : Bytes) : PState × Res V9Body :=
  if id = c.t.v9TemplateId then
    match many0 parseV9Template body with
    | .ok (ts, pad) => (insertV9Templates st ts, .ok (.templates ts pad))
    | .err => (st, .err)
    | .outOfFuel => (st, .overflow)
  else if id = c.t.v9OptTemplateId then
    match many0 parseV9OptTemplate body with
    | .ok (ts, pad) => (insertV9OptTemplates st ts, .ok (.optTemplates ts pad))
    | .err => (st, .err)
    | .outOfFuel => (st, .overflow)
  else
    match amLookup id st.v9O with
    | some ot =>
      match v9ScopeLoop c ot.scope body with
      | none => (st, .err)
      | some (ss, r) =>
        match v9OptLoop c ot.opts r with
        | none => (st, .err)
        | some (os, pad) => (st, .ok (.optData ss os pad))
    | none =>
      match amLookup id st.v9T with
      | some t =>
        let total := v9TotalSize t.fields
        if total = 0 then (st, .err)          -- `ErrorKind::Verify` (was: division-by-zero panic, fixed)
        else
          let (recs, pad) := v9RecLoop c t.fields (body.length / total) body []
          (st, .ok (.data recs pad))
      | none => (st, .err)

/-- `FlowSet::parse` : header, `take(length.saturating_sub(4))`, body -/
def v9ParseSet (c : Config) (st : PState) (i : Bytes) : PState × Res (V9Set × Bytes) :=
  match parseLayout c.t.protoFromU8 c.t.v9SetHdr i with
  | none => (st, .err)
  | some (h, r) =>
    let id := c.t.v9SetHdr.get "flowset_id" h
    let len := c.t.v9SetHdr.get "length" h
    match takeN (len - 4) r with
    | none => (st, .err)
    | some (body, r') =>
      match v9ParseBody c st id body with
      | (st', .ok b) => (st', .ok ({ id := id, len := len, body := b }, r'))
      | (st', .err) => (st', .err)
      | (st', .panic) => (st', .panic)
      | (st', .overflow) => (st', .overflow)

/-- `FlowSetParser::parse_flowsets` : `try_fold` over `0..count` -/
def v9ParseSets (c : Config) : Nat → PState → Bytes → PState × Res (List V9Set × Bytes)
  | 0, st, i => (st, .ok ([], i))
  | n + 1, st, i =>
    if i.isEmpty then v9ParseSets c n st i
    else
      match v9ParseSet c st i with
      | (st', .ok (s, r)) =>
        match v9ParseSets c n st' r with
        | (st'', .ok (ss, r')) => (st'', .ok (s :: ss, r'))
        | (st'', .err) => (st'', .err)
        | (st'', .panic) => (st'', .panic)
        | (st'', .overflow) => (st'', .overflow)
      | (st', .err) => (st', .err)
      | (st', .panic) => (st', .panic)
      | (st', .overflow) => (st', .overflow)

/-- `V9::parse` (input after the 2-byte version) -/
def parseV9 (c : Config) (st : PState) (i : Bytes) : PState × Res (Packet × Bytes) :=
  match parseLayout c.t.protoFromU8 c.t.v9Hdr i with
  | none => (st, .err)
  | some (h, r) =>
    match v9ParseSets c (c.t.v9Hdr.get "count" h) st r with
    | (st', .ok (ss, r')) => (st', .ok (.v9 h ss, r'))
    | (st', .err) => (st', .err)
    | (st', .panic) => (st', .panic)
    | (st', .overflow) => (st', .overflow)

end Netflow
