/-
  JsonSchema.lean — WHICH MEMBERS the hand-written serialiser `toJ` (Json.lean) writes for every result type, as a table, and the
  lemmas that `toJ` writes exactly these (names and order).  `Generated.serdeSchema` (GeneratedSerde.lean) is the same table read from
  the `derive(Serialize)` declarations of the Rust source on every run (member order, `skip_serializing`, `skip_serializing_if`,
  `untagged`); `Props/SerdeGen.lean` proves the two equal.  A renamed / reordered / newly skipped / no longer skipped member regenerates
  a different table and the C16 obligations stop checking.
-/
import NetflowModel.Json
namespace Netflow.JsonSchema
open Netflow

/-- the part of the schema `toJ` models: (type, container attribute, members with their serde attribute) -/
def modelSchema : List (String × String × List (String × String)) := [
  ("lib::NetflowPacket", "", [("V5", ""), ("V7", ""), ("V9", ""), ("IPFix", ""), ("Error", "")]),
  ("lib::NetflowPacketError", "", [("error", ""), ("remaining", "")]),
  ("lib::NetflowParseError", "", [("Incomplete", ""), ("Partial", ""), ("UnallowedVersion", ""), ("UnknownVersion", "")]),
  ("lib::PartialParse", "", [("version", ""), ("remaining", ""), ("error", "")]),
  ("v9::V9", "", [("header", ""), ("flowsets", "")]),
  ("v9::FlowSet", "", [("header", ""), ("body", "")]),
  ("v9::FlowSetHeader", "", [("flowset_id", ""), ("length", "")]),
  ("v9::FlowSetBody", "", [("Template", ""), ("OptionsTemplate", ""), ("Data", ""), ("OptionsData", "")]),
  ("v9::Templates", "", [("templates", ""), ("padding", "skip")]),
  ("v9::OptionsTemplates", "", [("templates", ""), ("padding", "skip")]),
  ("v9::Template", "", [("template_id", ""), ("field_count", ""), ("fields", "")]),
  ("v9::OptionsTemplate", "", [("template_id", ""), ("options_scope_length", ""), ("options_length", ""), ("scope_fields", ""), ("option_fields", "")]),
  ("v9::OptionsTemplateScopeField", "", [("field_type_number", ""), ("field_type", ""), ("field_length", "")]),
  ("v9::TemplateField", "", [("field_type_number", ""), ("field_type", ""), ("field_length", "")]),
  ("v9::OptionsData", "", [("scope_fields", ""), ("options_fields", ""), ("padding", "skip")]),
  ("v9::ScopeDataField", "", [("System", ""), ("Interface", ""), ("LineCard", ""), ("NetFlowCache", ""), ("Template", "")]),
  ("v9::Data", "", [("fields", ""), ("padding", "skip")]),
  ("v9::OptionDataField", "", [("field_type", ""), ("field_value", "")]),
  ("ipfix::IPFix", "", [("header", ""), ("flowsets", "")]),
  ("ipfix::FlowSetBody", "", [("Template", ""), ("OptionsTemplate", ""), ("Data", ""), ("OptionsData", "")]),
  ("ipfix::FlowSet", "", [("header", ""), ("body", "")]),
  ("ipfix::FlowSetHeader", "", [("header_id", ""), ("length", "")]),
  ("ipfix::Data", "", [("fields", ""), ("padding", "skip")]),
  ("ipfix::OptionsData", "", [("fields", ""), ("padding", "skip")]),
  ("ipfix::OptionsTemplate", "", [("template_id", ""), ("field_count", ""), ("scope_field_count", ""), ("fields", ""), ("padding", "skip")]),
  ("ipfix::Template", "", [("template_id", ""), ("field_count", ""), ("fields", ""), ("padding", "skip")]),
  ("ipfix::TemplateField", "", [("field_type_number", ""), ("field_type", ""), ("field_length", ""), ("enterprise_number", "skip_if_none")]),
  ("data_number::DataNumber", "untagged", [("U8", ""), ("U16", ""), ("U24", ""), ("I24", ""), ("U32", ""), ("U64", ""), ("U128", ""), ("I32", "")]),
  ("data_number::FieldValue", "", [("String", ""), ("DataNumber", ""), ("Float64", ""), ("Duration", ""), ("Ip4Addr", ""), ("Ip6Addr", ""), ("MacAddr", ""), ("Vec", ""), ("ProtocolType", ""), ("Unknown", "")])]

/-- the types of `modelSchema` (the others that derive `Serialize` — the parser state, the field-type enum — never occur in a result) -/
def modelled : List String := modelSchema.map (·.1)

/-- members of a type that are ALWAYS written (no `skip`, no `skip_if_none`), in order -/
def always (ty : String) : List String :=
  match modelSchema.lookup ty with
  | some (_, ms) => (ms.filter fun m => m.2 == "").map (·.1)
  | none => []

/-- all member / variant names of a type -/
def names (ty : String) : List String :=
  match modelSchema.lookup ty with
  | some (_, ms) => ms.map (·.1)
  | none => []

def objKeys : JVal → List String
  | .obj kvs => kvs.map (·.1)
  | _ => []

/-! ### `toJ` writes exactly the members of the table (every lemma is about SYMBOLIC values: it holds for every packet) -/

theorem packet_variants (c : Config) (nm : JNames) (p : Packet) : ∃ v inner, toJ c nm p = .obj [(v, inner)] ∧ v ∈ names "lib::NetflowPacket" := by
  cases p <;> exact ⟨_, _, rfl, by decide⟩

theorem error_members (c : Config) (nm : JNames) (k : ErrKind) (rem : Bytes) :
    ∃ inner, toJ c nm (.error k rem) = .obj [("Error", inner)] ∧ objKeys inner = always "lib::NetflowPacketError" := ⟨_, rfl, rfl⟩

theorem parse_error_variants (k : ErrKind) : ∃ v inner, errKindJ k = .obj [(v, inner)] ∧ v ∈ names "lib::NetflowParseError" := by
  cases k <;> exact ⟨_, _, rfl, by decide⟩

theorem partial_members (v : Nat) (rem : Bytes) :
    ∃ inner, errKindJ (.partialParse v rem) = .obj [("Partial", inner)] ∧ objKeys inner = always "lib::PartialParse" := ⟨_, rfl, rfl⟩

theorem v9_members (c : Config) (nm : JNames) (h : List Nat) (ss : List V9Set) :
    ∃ inner, toJ c nm (.v9 h ss) = .obj [("V9", inner)] ∧ objKeys inner = always "v9::V9" := ⟨_, rfl, rfl⟩

theorem ipfix_members (c : Config) (nm : JNames) (h : List Nat) (ss : List IpSet) :
    ∃ inner, toJ c nm (.ipfix h ss) = .obj [("IPFix", inner)] ∧ objKeys inner = always "ipfix::IPFix" := ⟨_, rfl, rfl⟩

/-- every V9 flowset object: `header {flowset_id, length}`, `body` -/
theorem v9_set_members (c : Config) (nm : JNames) (h : List Nat) (ss : List V9Set) :
    ∃ f : V9Set → JVal, toJ c nm (.v9 h ss) = .obj [("V9", .obj [("header", layoutJ nm c.t.v9Hdr h), ("flowsets", .arr (ss.map f))])] ∧
      ∀ s, objKeys (f s) = always "v9::FlowSet" ∧
        ∃ hd, f s = .obj [("header", hd), ("body", v9BodyJ c nm s.body)] ∧ objKeys hd = always "v9::FlowSetHeader" :=
  ⟨_, rfl, fun _ => ⟨rfl, _, rfl, rfl⟩⟩

theorem ipfix_set_members (c : Config) (nm : JNames) (h : List Nat) (ss : List IpSet) :
    ∃ f : IpSet → JVal, toJ c nm (.ipfix h ss) = .obj [("IPFix", .obj [("header", layoutJ nm c.t.ipHdr h), ("flowsets", .arr (ss.map f))])] ∧
      ∀ s, objKeys (f s) = always "ipfix::FlowSet" ∧
        ∃ hd, f s = .obj [("header", hd), ("body", ipBodyJ c nm s.body)] ∧ objKeys hd = always "ipfix::FlowSetHeader" :=
  ⟨_, rfl, fun _ => ⟨rfl, _, rfl, rfl⟩⟩

theorem v9_body_variants (c : Config) (nm : JNames) (b : V9Body) : ∃ v inner, v9BodyJ c nm b = .obj [(v, inner)] ∧ v ∈ names "v9::FlowSetBody" := by
  cases b <;> exact ⟨_, _, rfl, by decide⟩

theorem ipfix_body_variants (c : Config) (nm : JNames) (b : IpBody) : ∃ v inner, ipBodyJ c nm b = .obj [(v, inner)] ∧ v ∈ names "ipfix::FlowSetBody" := by
  cases b <;> exact ⟨_, _, rfl, by decide⟩

/-- V9 template flowset: `templates` only (the padding is skipped); each template `template_id, field_count, fields`;
    each field `field_type_number, field_type, field_length` -/
theorem v9_templates_members (c : Config) (nm : JNames) (ts : List V9Template) (pad : Bytes) :
    ∃ f : V9Template → JVal, v9BodyJ c nm (.templates ts pad) = .obj [("Template", .obj [("templates", .arr (ts.map f))])] ∧
      ["templates"] = always "v9::Templates" ∧
      ∀ t, objKeys (f t) = always "v9::Template" ∧
        ∃ g : TField → JVal, f t = .obj [("template_id", .num t.id), ("field_count", .num t.fieldCount), ("fields", .arr (t.fields.map g))] ∧
          ∀ x, objKeys (g x) = always "v9::TemplateField" :=
  ⟨_, rfl, rfl, fun _ => ⟨rfl, _, rfl, fun _ => rfl⟩⟩

theorem v9_opt_templates_members (c : Config) (nm : JNames) (ts : List V9OptTemplate) (pad : Bytes) :
    ∃ f : V9OptTemplate → JVal, v9BodyJ c nm (.optTemplates ts pad) = .obj [("OptionsTemplate", .obj [("templates", .arr (ts.map f))])] ∧
      ["templates"] = always "v9::OptionsTemplates" ∧
      ∀ t, objKeys (f t) = always "v9::OptionsTemplate" ∧
        ∃ g1 g2 : TField → JVal,
          f t = .obj [("template_id", .num t.id), ("options_scope_length", .num t.scopeLen), ("options_length", .num t.optLen),
                      ("scope_fields", .arr (t.scope.map g1)), ("option_fields", .arr (t.opts.map g2))] ∧
          (∀ x, objKeys (g1 x) = always "v9::OptionsTemplateScopeField") ∧ ∀ x, objKeys (g2 x) = always "v9::TemplateField" :=
  ⟨_, rfl, rfl, fun _ => ⟨rfl, _, _, rfl, fun _ => rfl, fun _ => rfl⟩⟩

theorem v9_data_members (c : Config) (nm : JNames) (recs : List Rec) (pad : Bytes) :
    ∃ inner, v9BodyJ c nm (.data recs pad) = .obj [("Data", inner)] ∧ objKeys inner = always "v9::Data" := ⟨_, rfl, rfl⟩

theorem v9_opt_data_members (c : Config) (nm : JNames) (ss os : List (Nat × Bytes)) (pad : Bytes) :
    ∃ f g : Nat × Bytes → JVal,
      v9BodyJ c nm (.optData ss os pad) = .obj [("OptionsData", .obj [("scope_fields", .arr (ss.map f)), ("options_fields", .arr (os.map g))])] ∧
      ["scope_fields", "options_fields"] = always "v9::OptionsData" ∧
      (∀ s, 1 ≤ s.1 → s.1 ≤ 5 → ∃ v inner, f s = .obj [(v, inner)] ∧ v ∈ names "v9::ScopeDataField") ∧
      ∀ o, objKeys (g o) = always "v9::OptionDataField" := by
  refine ⟨_, _, rfl, rfl, ?_, fun _ => rfl⟩
  intro s h1 h5
  refine ⟨scopeDataName s.1, _, rfl, ?_⟩
  have : s.1 = 1 ∨ s.1 = 2 ∨ s.1 = 3 ∨ s.1 = 4 ∨ s.1 = 5 := by omega
  rcases this with h | h | h | h | h <;> rw [h] <;> decide

/-- IPFIX template field: the three always-written members, then `enterprise_number` exactly when it is `Some` (`skip_serializing_if`) -/
theorem ipfix_field_members (c : Config) (nm : JNames) (f : IpTField) :
    objKeys (ipTFieldJ c nm f) = always "ipfix::TemplateField" ++ (if f.ent.isSome then ["enterprise_number"] else []) ∧
    names "ipfix::TemplateField" = always "ipfix::TemplateField" ++ ["enterprise_number"] := by
  cases h : f.ent <;> simp [ipTFieldJ, objKeys, h] <;> decide

theorem ipfix_template_members (c : Config) (nm : JNames) (t : IpTemplate) :
    ∃ inner, ipBodyJ c nm (.template t) = .obj [("Template", inner)] ∧ objKeys inner = always "ipfix::Template" := ⟨_, rfl, rfl⟩

theorem ipfix_opt_template_members (c : Config) (nm : JNames) (t : IpOptTemplate) :
    ∃ inner, ipBodyJ c nm (.optTemplate t) = .obj [("OptionsTemplate", inner)] ∧ objKeys inner = always "ipfix::OptionsTemplate" := ⟨_, rfl, rfl⟩

theorem ipfix_data_members (c : Config) (nm : JNames) (recs : List Rec) (pad : Bytes) :
    (∃ inner, ipBodyJ c nm (.data recs pad) = .obj [("Data", inner)] ∧ objKeys inner = always "ipfix::Data") ∧
    (∃ inner, ipBodyJ c nm (.optData recs pad) = .obj [("OptionsData", inner)] ∧ objKeys inner = always "ipfix::OptionsData") :=
  ⟨⟨_, rfl, rfl⟩, ⟨_, rfl, rfl⟩⟩

/-- a decoded value is externally tagged with its variant name; `DataNumber` is untagged (the bare number) -/
theorem field_value_variants (nm : JNames) (v : FieldValue) : ∃ tag inner, fieldValueJ nm v = .obj [(tag, inner)] ∧ tag ∈ names "data_number::FieldValue" := by
  cases v <;> exact ⟨_, _, rfl, by decide⟩

theorem data_number_untagged (d : DataNumber) : (∃ n, dataNumberJ d = .num n) ∧ (modelSchema.lookup "data_number::DataNumber").map (·.1) = some "untagged" := by
  constructor
  · cases d <;> exact ⟨_, rfl⟩
  · decide

end Netflow.JsonSchema
