/-
  Layout.lean — generic fixed-layout record engine (what `#[derive(Nom)]` generates for a
  struct of big-endian scalars), and the generic exporter (`to_be_bytes` emission by name).
  The layouts themselves are GENERATED from the Rust source (Generated.lean).
-/
import NetflowModel.Nom
namespace Netflow

/-- how a struct field gets its value -/
inductive FKind where
  | wire (w : Nat)        -- `w` bytes, big-endian (u8/u16/u32, `Map = Ipv4Addr::from, Parse = be_u32`)
  | const (v : Nat)       -- `#[nom(Value = "v")]` : no bytes
  | protoOf (src : Nat)   -- `#[nom(Value(ProtocolTypes::from(x)))]`, x = field number `src` of the same struct
  deriving Repr, DecidableEq

structure LField where
  name : String
  kind : FKind
  tw : Nat                -- size in bytes of the field's Rust type (what `to_be_bytes()` emits)
  deriving Repr, DecidableEq

abbrev Layout := List LField

def FKind.width : FKind → Nat
  | .wire w => w
  | _ => 0

def Layout.wireLen (lay : Layout) : Nat := (lay.map (·.kind.width)).sum

/-- sequential field-by-field parse, `acc` = values decoded so far (in order) -/
def parseFields (proto : Nat → Nat) : Layout → List Nat → P (List Nat)
  | [], acc, i => some (acc, i)
  | f :: fs, acc, i =>
    match f.kind with
    | .wire w =>
      match beU w i with
      | none => none
      | some (v, r) => parseFields proto fs (acc ++ [v]) r
    | .const v => parseFields proto fs (acc ++ [v]) i
    | .protoOf src => parseFields proto fs (acc ++ [proto (acc.getD src 0)]) i

def parseLayout (proto : Nat → Nat) (lay : Layout) : P (List Nat) := parseFields proto lay []

def Layout.indexOf (lay : Layout) (name : String) : Nat := (lay.map (·.name)).idxOf name

/-- value of field `name` in a decoded record -/
def Layout.get (lay : Layout) (name : String) (vals : List Nat) : Nat := vals.getD (lay.indexOf name) 0

def Layout.widthOf (lay : Layout) (name : String) : Nat :=
  match lay.find? (·.name == name) with
  | some f => f.tw
  | none => 0

/-- `to_be_bytes` of one struct: the fields named in `order`, each at its declared width -/
def exportByOrder (lay : Layout) (order : List String) (vals : List Nat) : Bytes :=
  order.flatMap fun n => toBE (lay.widthOf n) (lay.get n vals)

/-- names of the fields that occupy bytes, in wire order -/
def Layout.wireNames (lay : Layout) : List String :=
  (lay.filter fun f => f.kind.width != 0).map (·.name)

end Netflow
