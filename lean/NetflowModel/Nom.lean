/-
  Nom.lean — the handful of nom combinators the crate uses, as total functions.
  A parser is `Bytes → Option (α × Bytes)`; `none` stands for `Err::Error`/`Incomplete`
  (the crate never distinguishes them observably: every caller maps any `Err` to the same
  outcome, and every streaming primitive under `many0` is wrapped in `complete`).
  Loops are structural on a fuel argument so that they reduce in the kernel.
-/
import NetflowModel.Bytes
namespace Netflow

abbrev P (α : Type) := Bytes → Option (α × Bytes)

/-- `nom::bytes::complete::take(n)` -/
def takeN (n : Nat) : P Bytes := fun i =>
  if n ≤ i.length then some (i.take n, i.drop n) else none

/-- `be_u8/16/24/32/64/128` : `w`-byte big-endian unsigned -/
def beU (w : Nat) : P Nat := fun i =>
  if w ≤ i.length then some (beNat (i.take w), i.drop w) else none

/-- `nom::multi::count(p, n)` -/
def countP {α : Type} (p : P α) : Nat → P (List α)
  | 0, i => some ([], i)
  | n + 1, i =>
    match p i with
    | none => none
    | some (a, r) =>
      match countP p n r with
      | none => none
      | some (as, r') => some (a :: as, r')

/-- Result of a fuel-bounded loop. -/
inductive Loop (α : Type) where
  | ok (a : α)
  | err                 -- nom error (e.g. `ErrorKind::Many0`: inner parser made no progress)
  | outOfFuel           -- unreachable with the fuel used by callers (proved per loop)
  deriving Repr, DecidableEq

/-- `nom::multi::many0(complete(p))` with nom's no-progress check.  -/
def many0F {α : Type} (p : P α) : Nat → Bytes → Loop (List α × Bytes)
  | 0, _ => .outOfFuel
  | f + 1, i =>
    match p i with
    | none => .ok ([], i)
    | some (a, r) =>
      if r.length = i.length then .err
      else
        match many0F p f r with
        | .ok (as, r') => .ok (a :: as, r')
        | .err => .err
        | .outOfFuel => .outOfFuel

/-- `many0` as used by the model: fuel `|i| + 1` always suffices (`many0F_fuel`). -/
def many0 {α : Type} (p : P α) : Bytes → Loop (List α × Bytes) := fun i => many0F p (i.length + 1) i

end Netflow
