/-
  Common.lean — model of src/netflow_common.rs (`as_netflow_common`,
  `parse_bytes_as_netflow_common_flowsets`).
-/
import NetflowModel.Parser
namespace Netflow

/-- an `IpAddr`: (is_v6, value) -/
abbrev IpAddrM := Bool × Nat

structure CommonFlow where
  srcAddr : Option IpAddrM := none
  dstAddr : Option IpAddrM := none
  srcPort : Option Nat := none
  dstPort : Option Nat := none
  protoNum : Option Nat := none
  protoType : Option Nat := none
  first : Option Nat := none
  last : Option Nat := none
  srcMac : Option Bytes := none
  dstMac : Option Bytes := none
  deriving Repr, DecidableEq

structure Common where
  version : Nat
  timestamp : Nat
  flows : List CommonFlow
  deriving Repr, DecidableEq

/-- `BTreeMap<Field, FieldValue>` built by `collect()` from the record's entries: last entry wins -/
def recGet (r : Rec) (disc : Nat) : Option FieldValue :=
  match (r.reverse.find? fun e => e.2.1 == disc) with
  | some e => some e.2.2
  | none => none

def asIp : FieldValue → Option IpAddrM
  | .ip4 n => some (false, n)
  | .ip6 n => some (true, n)
  | _ => none

def asU16 : FieldValue → Option Nat
  | .num (.u16 n) => some n
  | _ => none

def asU8 : FieldValue → Option Nat
  | .num (.u8 n) => some n
  | _ => none

def asU32 : FieldValue → Option Nat
  | .num (.u32 n) => some n
  | _ => none

def asString : FieldValue → Option Bytes
  | .str s => some s
  | .mac raw => some (macText raw)
  | _ => none

def commonOfRec (protoFromU8 : Nat → Nat) (k : CommonKeys) (r : Rec) : CommonFlow :=
  { srcAddr := ((recGet r k.src4).orElse fun _ => recGet r k.src6).bind asIp
    dstAddr := ((recGet r k.dst4).orElse fun _ => recGet r k.dst6).bind asIp
    srcPort := (recGet r k.sport).bind asU16
    dstPort := (recGet r k.dport).bind asU16
    protoNum := (recGet r k.proto).bind asU8
    protoType := ((recGet r k.proto).bind asU8).map protoFromU8
    first := (recGet r k.first).bind asU32
    last := (recGet r k.last).bind asU32
    srcMac := (recGet r k.smac).bind asString
    dstMac := (recGet r k.dmac).bind asString }

def commonOfFixed (lay : Layout) (vals : List Nat) : CommonFlow :=
  { srcAddr := some (false, lay.get "src_addr" vals)
    dstAddr := some (false, lay.get "dst_addr" vals)
    srcPort := some (lay.get "src_port" vals)
    dstPort := some (lay.get "dst_port" vals)
    protoNum := some (lay.get "protocol_number" vals)
    protoType := some (lay.get "protocol_type" vals)
    first := some (lay.get "first" vals)
    last := some (lay.get "last" vals) }

def v9DataRecs : List V9Set → List Rec
  | [] => []
  | s :: ss =>
    match s.body with
    | .data recs _ => recs ++ v9DataRecs ss
    | _ => v9DataRecs ss

def ipDataRecs : List IpSet → List Rec
  | [] => []
  | s :: ss =>
    match s.body with
    | .data recs _ => recs ++ ipDataRecs ss
    | _ => ipDataRecs ss

/-- `NetflowPacket::as_netflow_common` (`none` = `Err(UnknownVersion)`) -/
def toCommon (c : Config) : Packet → Option Common
  | .v5 h rs =>
    some { version := c.t.v5Hdr.get "version" h, timestamp := c.t.v5Hdr.get "sys_up_time" h,
           flows := rs.map (commonOfFixed c.t.v5Rec) }
  | .v7 h rs =>
    some { version := c.t.v7Hdr.get "version" h, timestamp := c.t.v7Hdr.get "sys_up_time" h,
           flows := rs.map (commonOfFixed c.t.v7Rec) }
  | .v9 h ss =>
    some { version := c.t.v9Hdr.get "version" h, timestamp := c.t.v9Hdr.get c.t.commonV9.ts h,
           flows := (v9DataRecs ss).map (commonOfRec c.t.protoFromU8 c.t.commonV9) }
  | .ipfix h ss =>
    some { version := c.t.ipHdr.get "version" h, timestamp := c.t.ipHdr.get c.t.commonIp.ts h,
           flows := (ipDataRecs ss).map (commonOfRec c.t.protoFromU8 c.t.commonIp) }
  | .error _ _ => none

/-- `parse_bytes_as_netflow_common_flowsets` applied to an already parsed list -/
def commonFlat (c : Config) (ps : List Packet) : List CommonFlow :=
  ps.flatMap fun p => match toCommon c p with | some cm => cm.flows | none => []

end Netflow
