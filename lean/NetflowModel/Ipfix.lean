/-
  Ipfix.lean — model of src/variable_versions/ipfix.rs (parser side).
-/
import NetflowModel.V9
namespace Netflow

/-- `TemplateField::parse` : number, length, `Cond = number > 32767` enterprise number;
    the PostExec clears the enterprise bit. -/
def parseIpTField : P IpTField := fun i =>
  match beU 2 i with
  | none => none
  | some (t, r) =>
    match beU 2 r with
    | none => none
    | some (l, r1) =>
      if t > 32767 then
        match beU 4 r1 with
        | none => none
        | some (e, r2) => some ({ typ := t - 32768, len := l, ent := some e }, r2)
      else some ({ typ := t, len := l, ent := none }, r1)

/-- discriminant of the `field_type` stored in an IPFIX template field -/
def ipFieldDisc (c : Config) (f : IpTField) : Nat :=
  match f.ent with
  | some _ => c.t.ipEnterprise
  | none => c.t.ipField f.typ

/-- `CommonTemplate::is_valid` -/
def ipValid (fs : List IpTField) : Bool := fs.any fun f => f.len > 0

/-- `Template::parse` : id, field_count, `many0(complete(TemplateField::parse))`, padding = rest -/
def parseIpTemplate (body : Bytes) : Res IpTemplate :=
  match beU 2 body with
  | none => .err
  | some (id, r) =>
    match beU 2 r with
    | none => .err
    | some (fc, r1) =>
      match many0 parseIpTField r1 with
      | .ok (fs, pad) => .ok { id := id, fieldCount := fc, fields := fs, pad := pad }
      | .err => .err
      | .outOfFuel => .overflow

/-- `OptionsTemplate::parse` -/
def parseIpOptTemplate (body : Bytes) : Res IpOptTemplate :=
  match beU 2 body with
  | none => .err
  | some (id, r) =>
    match beU 2 r with
    | none => .err
    | some (fc, r1) =>
      match beU 2 r1 with
      | none => .err
      | some (sc, r2) =>
        -- scope_field_count.saturating_add(field_count.checked_sub(scope).unwrap_or(field_count))
        let combined := if sc ≤ fc then fc else min (sc + fc) 65535
        match countP parseIpTField combined r2 with
        | none => .err
        | some (fs, pad) => .ok { id := id, fieldCount := fc, scopeCount := sc, fields := fs, pad := pad }

/-- `TemplateField::parse_field_length` -/
def ipFieldLength (f : IpTField) : P Nat := fun i =>
  if f.len = 65535 then
    match beU 1 i with
    | none => none
    | some (l, r) => if l = 255 then beU 2 r else some (l, r)
  else some (f.len, i)

/-- `TemplateField::parse_as_field_value` -/
def ipParseValue (c : Config) (f : IpTField) : P FieldValue := fun i =>
  match ipFieldLength f i with
  | none => none
  | some (len, r) =>
    match f.ent with
    | some _ =>
      match takeN len r with
      | none => none
      | some (b, r') => some (.vec b, r')
    | none => parseValue c.vc (c.t.ipTy (c.t.ipField f.typ)) len r

/-- the `try_fold` over the template's fields: one record, every field its own map entry -/
def ipParseRec (c : Config) : List IpTField → Nat → P (List Rec)
  | [], _, i => some ([], i)
  | f :: fs, idx, i =>
    match ipParseValue c f i with
    | none => none
    | some (v, r) =>
      match ipParseRec c fs (idx + 1) r with
      | none => none
      | some (es, r') => some ([(idx, ipFieldDisc c f, v)] :: es, r')

/-- `FieldParser::parse` : one loop iteration per record (the fuel is only there to make the
    definition structural; `ipRecLoop_no_overflow` shows it never runs out). -/
def ipRecLoop (c : Config) (fs : List IpTField) : Nat → Bytes → Res (List Rec × Bytes)
  | 0, _ => .overflow
  | fuel + 1, i =>
    match ipParseRec c fs 0 i with
    | none => .err
    | some (es, r) =>
      let taken := i.length - r.length
      if taken = 0 then .ok (es, r)            -- `total_taken == 0 → break`
      else if r.length ≥ taken then
        match ipRecLoop c fs fuel r with
        | .ok (more, r') => .ok (es ++ more, r')
        | .err => .err
        | .panic => .panic
        | .overflow => .overflow
      else .ok (es, r)

/-- `FlowSetBody::parse` -/
def ipParseBody (c : Config) (st : PState) (id : Nat) (body : Bytes) : PState × Res IpBody :=
  if id < c.t.ipSetMinRange ∧ id ≠ c.t.ipOptTemplateId then
    match parseIpTemplate body with
    | .ok t => if ipValid t.fields then ({ st with ipT := amInsert t.id t st.ipT, ipO := amErase t.id st.ipO }, .ok (.template t)) else (st, .err)
    | .err => (st, .err)
    | .panic => (st, .panic)
    | .overflow => (st, .overflow)
  else if id = c.t.ipOptTemplateId then
    match parseIpOptTemplate body with
    | .ok t => if ipValid t.fields then ({ st with ipO := amInsert t.id t st.ipO, ipT := amErase t.id st.ipT }, .ok (.optTemplate t)) else (st, .err)
    | .err => (st, .err)
    | .panic => (st, .panic)
    | .overflow => (st, .overflow)
  else
    match amLookup id st.ipT with
    | some t =>
      if t.fields.isEmpty then (st, .err)
      else
        match ipRecLoop c t.fields (body.length + 1) body with
        | .ok (recs, pad) => (st, .ok (.data recs pad))
        | .err => (st, .err)
        | .panic => (st, .panic)
        | .overflow => (st, .overflow)
    | none =>
      match amLookup id st.ipO with
      | some t =>
        if t.fields.isEmpty then (st, .err)
        else
          match ipRecLoop c t.fields (body.length + 1) body with
          | .ok (recs, pad) => (st, .ok (.optData recs pad))
          | .err => (st, .err)
          | .panic => (st, .panic)
          | .overflow => (st, .overflow)
      | none => (st, .err)

/-- `FlowSet::parse` -/
def ipParseSet (c : Config) (st : PState) (i : Bytes) : PState × Res (IpSet × Bytes) :=
  match parseLayout c.t.protoFromU8 c.t.ipSetHdr i with
  | none => (st, .err)
  | some (h, r) =>
    let id := c.t.ipSetHdr.get "header_id" h
    let len := c.t.ipSetHdr.get "length" h
    match takeN (len - 4) r with
    | none => (st, .err)
    | some (body, r') =>
      match ipParseBody c st id body with
      | (st', .ok b) => (st', .ok ({ id := id, len := len, body := b }, r'))
      | (st', .err) => (st', .err)
      | (st', .panic) => (st', .panic)
      | (st', .overflow) => (st', .overflow)

/-- `many0(complete(FlowSet::parse))` threading the parser state; stops at the first set that
    does not parse (a nom error), propagates panics / overflow -/
def ipParseSets (c : Config) : Nat → PState → Bytes → PState × Res (List IpSet)
  | 0, st, _ => (st, .overflow)
  | fuel + 1, st, i =>
    match ipParseSet c st i with
    | (st', .ok (s, r)) =>
      if r.length = i.length then (st', .err)
      else
        match ipParseSets c fuel st' r with
        | (st'', .ok ss) => (st'', .ok (s :: ss))
        | (st'', .err) => (st'', .err)
        | (st'', .panic) => (st'', .panic)
        | (st'', .overflow) => (st'', .overflow)
    | (st', .err) => (st', .ok [])
    | (st', .panic) => (st', .panic)
    | (st', .overflow) => (st', .overflow)

/-- `IPFix::parse` (input after the 2-byte version) -/
def parseIpfix (c : Config) (st : PState) (i : Bytes) : PState × Res (Packet × Bytes) :=
  match parseLayout c.t.protoFromU8 c.t.ipHdr i with
  | none => (st, .err)
  | some (h, r) =>
    match takeN (c.t.ipHdr.get "length" h - 16) r with
    | none => (st, .err)
    | some (body, r') =>
      match ipParseSets c (body.length + 1) st body with
      | (st', .ok ss) => (st', .ok (.ipfix h ss, r'))
      | (st', .err) => (st', .err)
      | (st', .panic) => (st', .panic)
      | (st', .overflow) => (st', .overflow)

end Netflow
