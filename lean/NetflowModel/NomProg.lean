/-
  NomProg.lean — the derive(Nom) template-record structs as field programs (what `tools/translate_nom.py` reads from v9.rs / ipfix.rs),
  interpreted with the model's OWN combinators (`beU`, `countP`, `many0`) into the generic tree view of ExportProg.lean.
  `Lemmas/G4Nom.lean` proves that the interpretation of the regenerated programs IS the hand-written `parseTField`, `parseV9Template`,
  `parseV9OptTemplate`, `many0 parseV9Template` (+ rest), `parseIpTField`, `parseIpTemplate`, `parseIpOptTemplate`.
-/
import NetflowModel.Ctl
import NetflowModel.ExportProg
namespace Netflow

/-- the element count of a `count(..)` field, as an expression over the integer fields parsed before it -/
inductive CountExpr where
  | field (n : String)                       -- `Count = "n"`
  | fieldDiv (n : String) (d : Nat)          -- `Count = "(n / d) as usize"`
  | ipOptCombined (sc fc : String)           -- `sc.saturating_add(fc.checked_sub(sc).unwrap_or(fc))` (u16)
  deriving Repr, DecidableEq

inductive NomField where
  | be (name : String) (w : Nat)
  | value (name : String)
  | rest (name : String)
  | many0 (name : String) (struct : String)
  | count (name : String) (struct : String) (n : CountExpr)
  | condBe (name : String) (w : Nat) (dep : String) (cmp : Cmp) (thr sub : Nat)
  deriving Repr, DecidableEq

abbrev NEnv := List (String × ETree)

def envNum (env : NEnv) (n : String) : Nat :=
  match env.lookup n with
  | some (.num v) => v
  | _ => 0

def envSetNum (env : NEnv) (n : String) (v : Nat) : NEnv :=
  env.map fun e => if e.1 == n then (e.1, ETree.num v) else e

def CountExpr.eval (env : NEnv) : CountExpr → Nat
  | .field n => envNum env n
  | .fieldDiv n d => envNum env n / d
  | .ipOptCombined sc fc =>
    let s := envNum env sc
    let f := envNum env fc
    if s ≤ f then f else min (s + f) 65535

def loopToOpt {α : Type} : Loop (List α × Bytes) → Option (List α × Bytes)
  | .ok x => some x
  | _ => none

/-- the fields of one struct, left to right; `sub` parses a nested struct by name -/
def runFields (sub : String → P ETree) : List NomField → NEnv → Bytes → Option (NEnv × Bytes)
  | [], env, i => some (env, i)
  | .be n w :: fs, env, i =>
    match beU w i with
    | none => none
    | some (v, r) => runFields sub fs (env ++ [(n, .num v)]) r
  | .value _ :: fs, env, i => runFields sub fs env i
  | .rest n :: fs, env, i => runFields sub fs (env ++ [(n, .bytes i)]) []
  | .many0 n s :: fs, env, i =>
    match loopToOpt (many0 (sub s) i) with
    | none => none
    | some (xs, r) => runFields sub fs (env ++ [(n, .list xs)]) r
  | .count n s e :: fs, env, i =>
    match countP (sub s) (e.eval env) i with
    | none => none
    | some (xs, r) => runFields sub fs (env ++ [(n, .list xs)]) r
  | .condBe n w dep cmp thr sb :: fs, env, i =>
    if cmp.eval (envNum env dep) thr then
      match beU w i with
      | none => none
      | some (v, r) => runFields sub fs (envSetNum env dep (envNum env dep - sb) ++ [(n, .some (.num v))]) r
    else runFields sub fs (env ++ [(n, .none)]) i

/-- `S::parse` for a struct of the table; the fuel bounds the nesting depth of struct names (3 in this crate) -/
def structP (tbl : List (String × List NomField)) : Nat → String → P ETree
  | 0, _ => fun _ => none
  | fuel + 1, s => fun i =>
    match tbl.lookup s with
    | none => none
    | some fs =>
      match runFields (structP tbl fuel) fs [] i with
      | none => none
      | some (env, r) => some (.struct env, r)

end Netflow
