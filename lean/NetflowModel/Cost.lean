/-
  Cost.lean — size measures for C15: abstract size of a parse result (what the caller receives),
  wire size of the cached templates, and the two linear bounds of the property as decidable
  predicates over MEASURED allocator bytes (the measurement comes from the harness's counting
  allocator; the predicates are evaluated in the driver).  Core only.
-/
import NetflowModel.Parser
namespace Netflow.Cost
open Netflow

/-- bytes a decoded value occupies (enum payload + heap) -/
def valueSize : FieldValue → Nat
  | .str s => 32 + s.length
  | .vec b => 32 + b.length
  | .unknown b => 32 + b.length
  | .mac _ => 32 + 17
  | _ => 32

/-- a `BTreeMap<usize,(Field,FieldValue)>` : one leaf node allocation plus the entries -/
def recSize (r : Rec) : Nat := 64 + (r.map fun e => 16 + valueSize e.2.2).sum

def v9SetSize (s : V9Set) : Nat :=
  48 + match s.body with
  | .templates ts pad => (ts.map fun t => 32 + 8 * t.fields.length).sum + pad.length
  | .optTemplates ts pad => (ts.map fun t => 64 + 8 * (t.scope.length + t.opts.length)).sum + pad.length
  | .data recs pad => (recs.map recSize).sum + pad.length
  | .optData ss os pad => (ss.map fun x => 32 + x.2.length).sum + (os.map fun x => 32 + x.2.length).sum + pad.length

def ipSetSize (s : IpSet) : Nat :=
  48 + match s.body with
  | .template t => 32 + 16 * t.fields.length + t.pad.length
  | .optTemplate t => 32 + 16 * t.fields.length + t.pad.length
  | .data recs pad => (recs.map recSize).sum + pad.length
  | .optData recs pad => (recs.map recSize).sum + pad.length

def errSize : ErrKind → Nat
  | .incomplete => 64
  | .partialParse _ rem => 96 + rem.length
  | .unknownVersion rem => 32 + rem.length

def packetSize : Packet → Nat
  | .v5 _ rs => 64 + 56 * rs.length
  | .v7 _ rs => 64 + 60 * rs.length
  | .v9 _ ss => 64 + (ss.map v9SetSize).sum
  | .ipfix _ ss => 64 + (ss.map ipSetSize).sum
  | .error k rem => 64 + errSize k + rem.length

/-- size of the value returned by `parse_bytes` -/
def resultSize (pkts : List Packet) : Nat := 24 + (pkts.map packetSize).sum

/-- wire size of the templates a state was built from (bytes that were received to define them) -/
def stateWire (st : PState) : Nat :=
  (st.v9T.map fun e => 4 + 4 * e.2.fields.length).sum +
  (st.v9O.map fun e => 6 + 4 * (e.2.scope.length + e.2.opts.length)).sum +
  (st.ipT.map fun e => 4 + 4 * e.2.fields.length + e.2.pad.length).sum +
  (st.ipO.map fun e => 6 + 4 * e.2.fields.length + e.2.pad.length).sum

/-- C15, first half: heap bytes requested during one call ≤ A·|buf| + B·(size of the result) + C -/
def allocBounded (A B C : Nat) (buf : Bytes) (pkts : List Packet) (alloc : Nat) : Bool :=
  alloc ≤ A * buf.length + B * resultSize pkts + C

/-- C15, second half: size of the result ≤ D·(|buf| + wire size of the cached templates) + E -/
def resultBounded (D E : Nat) (buf : Bytes) (st : PState) (pkts : List Packet) : Bool :=
  resultSize pkts ≤ D * (buf.length + stateWire st) + E

end Netflow.Cost
