/-
  Json.lean — model of the `derive(Serialize)` shapes of the crate's result types as serialised by
  `serde_json` (C16).  `toJ` maps a decoded packet to a JSON tree; error message strings (free text
  produced by nom) are modelled as a wildcard.  Core only.
-/
import NetflowModel.Parser
namespace Netflow

/-- a JSON tree; numbers are exact integers, floats are kept as their 64 bits -/
inductive JVal where
  | null
  | num (n : Int)
  | f64 (bits : Nat)            -- finite floats print as numbers, NaN / ±∞ as `null` (serde_json)
  | str (utf8 : Bytes)
  | anyStr                      -- a string whose content is not modelled (error messages)
  | arr (xs : List JVal)
  | obj (kvs : List (String × JVal))
  deriving Repr

/-- names needed to print enums -/
structure JNames where
  proto : List (Nat × String)
  v9Field : List (Nat × String)
  ipField : List (Nat × String)
  scope : List (Nat × String)
  ipv4Fields : List String

def strJ (s : String) : JVal := .str s.toUTF8.toList

def nameOf (tbl : List (Nat × String)) (d : Nat) : JVal := strJ ((tbl.lookup d).getD "?")

def bytesJ (b : Bytes) : JVal := .arr (b.map fun x => .num x.toNat)

def decDigits (n : Nat) : List Char := (toString n).toList

/-- `Ipv4Addr` Display -/
def ip4Text (n : Nat) : String :=
  String.ofList (decDigits (n / 16777216 % 256) ++ ['.'] ++ decDigits (n / 65536 % 256) ++ ['.'] ++
    decDigits (n / 256 % 256) ++ ['.'] ++ decDigits (n % 256))

def hexLower (n : Nat) : List Char :=
  if n < 16 then [hexDigit n] else
  if n < 256 then [hexDigit (n / 16), hexDigit (n % 16)] else
  if n < 4096 then [hexDigit (n / 256), hexDigit (n / 16 % 16), hexDigit (n % 16)] else
  [hexDigit (n / 4096 % 16), hexDigit (n / 256 % 16), hexDigit (n / 16 % 16), hexDigit (n % 16)]

def segments (n : Nat) : List Nat :=
  (List.range 8).map fun i => n / 65536 ^ (7 - i) % 65536

/-- (start, length) of the first longest run of zero segments -/
def longestZeroRun (segs : List Nat) : Nat × Nat :=
  let rec go (rest : List Nat) (idx curStart curLen bestStart bestLen : Nat) : Nat × Nat :=
    match rest with
    | [] => if curLen > bestLen then (curStart, curLen) else (bestStart, bestLen)
    | s :: tl =>
      if s = 0 then
        let cs := if curLen = 0 then idx else curStart
        go tl (idx + 1) cs (curLen + 1) bestStart bestLen
      else
        let (bs, bl) := if curLen > bestLen then (curStart, curLen) else (bestStart, bestLen)
        go tl (idx + 1) 0 0 bs bl
  go segs 0 0 0 0 0

def joinColon (xs : List (List Char)) : List Char := (xs.intersperse [':']).flatten

/-- `Ipv6Addr` Display (std): IPv4-mapped addresses as `::ffff:a.b.c.d`, otherwise the first longest
    run (≥ 2) of zero segments compressed to `::` -/
def ip6Text (n : Nat) : String :=
  let segs := segments n
  if segs.take 5 = [0, 0, 0, 0, 0] ∧ segs.getD 5 0 = 0xffff then
    "::ffff:" ++ ip4Text (n % 4294967296)
  else
    let (st, len) := longestZeroRun segs
    if len ≥ 2 then
      String.ofList (joinColon ((segs.take st).map hexLower) ++ [':', ':'] ++ joinColon ((segs.drop (st + len)).map hexLower))
    else String.ofList (joinColon (segs.map hexLower))

def dataNumberJ : DataNumber → JVal
  | .u8 n | .u16 n | .u24 n | .u32 n | .u64 n | .u128 n => .num n
  | .i24 z | .i32 z => .num z

def fieldValueJ (nm : JNames) : FieldValue → JVal
  | .str s => .obj [("String", .str s)]
  | .num d => .obj [("DataNumber", dataNumberJ d)]
  | .f64 b => .obj [("Float64", .f64 b)]
  | .dur s ns => .obj [("Duration", .obj [("secs", .num s), ("nanos", .num ns)])]
  | .ip4 n => .obj [("Ip4Addr", strJ (ip4Text n))]
  | .ip6 n => .obj [("Ip6Addr", strJ (ip6Text n))]
  | .mac raw => .obj [("MacAddr", .str (macText raw))]
  | .vec b => .obj [("Vec", bytesJ b)]
  | .proto d => .obj [("ProtocolType", nameOf nm.proto d)]
  | .unknown b => .obj [("Unknown", bytesJ b)]

/-- a `BTreeMap<usize,(Field, FieldValue)>` : keys are the decimal indices, in ascending order -/
def recJ (nm : JNames) (fieldNames : List (Nat × String)) (r : Rec) : JVal :=
  .obj (r.map fun e => (toString e.1, .arr [nameOf fieldNames e.2.1, fieldValueJ nm e.2.2]))

/-- a derive(Nom) scalar struct by layout: numbers, except `Ipv4Addr` fields (dotted strings) and the
    protocol enum (variant name) -/
def layoutJ (nm : JNames) (lay : Layout) (vals : List Nat) : JVal :=
  .obj ((lay.zip vals).map fun p =>
    let f := p.1
    (f.name,
      match f.kind with
      | .protoOf _ => nameOf nm.proto p.2
      | _ => if nm.ipv4Fields.contains f.name then strJ (ip4Text p.2) else .num p.2))

def tfieldJ (names : List (Nat × String)) (disc : Nat → Nat) (f : TField) : JVal :=
  .obj [("field_type_number", .num f.typ), ("field_type", nameOf names (disc f.typ)), ("field_length", .num f.len)]

def scopeDataName (d : Nat) : String :=
  match d with
  | 1 => "System" | 2 => "Interface" | 3 => "LineCard" | 4 => "NetFlowCache" | 5 => "Template" | _ => "?"

def v9BodyJ (c : Config) (nm : JNames) : V9Body → JVal
  | .templates ts _ =>
    .obj [("Template", .obj [("templates", .arr (ts.map fun t =>
      .obj [("template_id", .num t.id), ("field_count", .num t.fieldCount),
            ("fields", .arr (t.fields.map (tfieldJ nm.v9Field c.t.v9Field)))]))])]
  | .optTemplates ts _ =>
    .obj [("OptionsTemplate", .obj [("templates", .arr (ts.map fun t =>
      .obj [("template_id", .num t.id), ("options_scope_length", .num t.scopeLen), ("options_length", .num t.optLen),
            ("scope_fields", .arr (t.scope.map (tfieldJ nm.scope c.t.scopeField))),
            ("option_fields", .arr (t.opts.map (tfieldJ nm.v9Field c.t.v9Field)))]))])]
  | .data recs _ => .obj [("Data", .obj [("fields", .arr (recs.map (recJ nm nm.v9Field)))])]
  | .optData ss os _ =>
    .obj [("OptionsData", .obj [
      ("scope_fields", .arr (ss.map fun s => .obj [(scopeDataName s.1, bytesJ s.2)])),
      ("options_fields", .arr (os.map fun o => .obj [("field_type", nameOf nm.v9Field o.1), ("field_value", bytesJ o.2)]))])]

def ipTFieldJ (c : Config) (nm : JNames) (f : IpTField) : JVal :=
  .obj ([("field_type_number", .num f.typ), ("field_type", nameOf nm.ipField (ipFieldDisc c f)), ("field_length", .num f.len)] ++
        (match f.ent with | some e => [("enterprise_number", JVal.num e)] | none => []))

def ipBodyJ (c : Config) (nm : JNames) : IpBody → JVal
  | .template t =>
    .obj [("Template", .obj [("template_id", .num t.id), ("field_count", .num t.fieldCount),
                             ("fields", .arr (t.fields.map (ipTFieldJ c nm)))])]
  | .optTemplate t =>
    .obj [("OptionsTemplate", .obj [("template_id", .num t.id), ("field_count", .num t.fieldCount),
                                    ("scope_field_count", .num t.scopeCount), ("fields", .arr (t.fields.map (ipTFieldJ c nm)))])]
  | .data recs _ => .obj [("Data", .obj [("fields", .arr (recs.map (recJ nm nm.ipField)))])]
  | .optData recs _ => .obj [("OptionsData", .obj [("fields", .arr (recs.map (recJ nm nm.ipField)))])]

def errKindJ : ErrKind → JVal
  | .incomplete => .obj [("Incomplete", .anyStr)]
  | .partialParse v rem => .obj [("Partial", .obj [("version", .num v), ("remaining", bytesJ rem), ("error", .anyStr)])]
  | .unknownVersion rem => .obj [("UnknownVersion", bytesJ rem)]

/-- `serde_json::to_value(&NetflowPacket)` -/
def toJ (c : Config) (nm : JNames) : Packet → JVal
  | .v5 h rs => .obj [("V5", .obj [("header", layoutJ nm c.t.v5Hdr h), ("flowsets", .arr (rs.map (layoutJ nm c.t.v5Rec)))])]
  | .v7 h rs => .obj [("V7", .obj [("header", layoutJ nm c.t.v7Hdr h), ("flowsets", .arr (rs.map (layoutJ nm c.t.v7Rec)))])]
  | .v9 h ss =>
    .obj [("V9", .obj [("header", layoutJ nm c.t.v9Hdr h),
      ("flowsets", .arr (ss.map fun s =>
        .obj [("header", .obj [("flowset_id", .num s.id), ("length", .num s.len)]), ("body", v9BodyJ c nm s.body)]))])]
  | .ipfix h ss =>
    .obj [("IPFix", .obj [("header", layoutJ nm c.t.ipHdr h),
      ("flowsets", .arr (ss.map fun s =>
        .obj [("header", .obj [("header_id", .num s.id), ("length", .num s.len)]), ("body", ipBodyJ c nm s.body)]))])]
  | .error k rem => .obj [("Error", .obj [("error", errKindJ k), ("remaining", bytesJ rem)])]

end Netflow
