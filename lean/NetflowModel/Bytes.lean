/-
  Bytes.lean — byte strings, big-endian codecs.  Core Lean only (no imports).
  `Bytes := List UInt8`.  `beNat` is the big-endian value of a byte string,
  `toBE w n` the `w`-byte big-endian representation of `n mod 256^w`.
-/
namespace Netflow

abbrev Bytes := List UInt8

/-- big-endian value of a byte string -/
def beNat (bs : Bytes) : Nat := bs.foldl (fun acc b => acc * 256 + b.toNat) 0

/-- `w`-byte big-endian representation of `n` (low `8*w` bits) -/
def toBE : Nat → Nat → Bytes
  | 0, _ => []
  | w + 1, n => toBE w (n / 256) ++ [UInt8.ofNat (n % 256)]

/-- two's complement reading of a `w`-byte big-endian string -/
def beInt (bs : Bytes) : Int :=
  let n := beNat bs
  if 2 * n < 256 ^ bs.length then (n : Int) else (n : Int) - (256 ^ bs.length : Nat)

/-- two's complement value of the low `bits` bits of `n` -/
def wrapSigned (bits : Nat) (n : Nat) : Int :=
  let m := n % 2 ^ bits
  if 2 * m < 2 ^ bits then (m : Int) else (m : Int) - (2 ^ bits : Nat)

/-- unsigned image of an integer modulo `2^bits` (Rust `as uN`) -/
def wrapUnsigned (bits : Nat) (z : Int) : Nat := (z % (2 ^ bits : Nat)).toNat

def hexDigit (n : Nat) : Char :=
  if n < 10 then Char.ofNat (48 + n) else Char.ofNat (87 + n)

def hexDigitUpper (n : Nat) : Char :=
  if n < 10 then Char.ofNat (48 + n) else Char.ofNat (55 + n)

def toHex (bs : Bytes) : String :=
  String.ofList (bs.flatMap fun b => [hexDigit (b.toNat / 16), hexDigit (b.toNat % 16)])

end Netflow
