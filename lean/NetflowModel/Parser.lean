/-
  Parser.lean — model of src/lib.rs (`parse_packet_by_version`, `parse_bytes`) and of the
  V5/V7 parsers (src/static_versions).
-/
import NetflowModel.Ipfix
namespace Netflow

/-- `V5::parse` / `V7::parse` (input after the 2-byte version): header, `count(FlowSet::parse, header.count)` -/
def parseFixed (c : Config) (hdr rec : Layout) (i : Bytes) : Option ((List Nat × List (List Nat)) × Bytes) :=
  match parseLayout c.t.protoFromU8 hdr i with
  | none => none
  | some (h, r) =>
    match countP (parseLayout c.t.protoFromU8 rec) (hdr.get "count" h) r with
    | none => none
    | some (recs, r') => some ((h, recs), r')

/-- outcome of `parse_packet_by_version` -/
inductive Step where
  | ok (pkt : Packet) (rest : Bytes)      -- `Ok(ParsedNetflow { remaining, result })`
  | fail (e : ErrKind)                    -- `Incomplete` / `Partial` / `UnknownVersion`
  | unallowed                             -- `UnallowedVersion`
  | panic
  | overflow
  deriving Repr, DecidableEq

def liftRes (version : Nat) (body : Bytes) : Res (Packet × Bytes) → Step
  | .ok (p, r) => .ok p r
  | .err => .fail (.partialParse version body)
  | .panic => .panic
  | .overflow => .overflow

/-- the `match version { 5 => …, 7 => …, 9 => …, 10 => …, _ => UnknownVersion }` arms, by the
    parser the arm dispatches to (`kind`) -/
def parseVersioned (c : Config) (st : PState) (kind : Nat) (body : Bytes) : PState × Step :=
  if kind = 5 then
    match parseFixed c c.t.v5Hdr c.t.v5Rec body with
    | some ((h, rs), r) => (st, .ok (.v5 h rs) r)
    | none => (st, .fail (.partialParse 5 body))
  else if kind = 7 then
    match parseFixed c c.t.v7Hdr c.t.v7Rec body with
    | some ((h, rs), r) => (st, .ok (.v7 h rs) r)
    | none => (st, .fail (.partialParse 7 body))
  else if kind = 9 then
    ((parseV9 c st body).1, liftRes 9 body (parseV9 c st body).2)
  else if kind = 10 then
    ((parseIpfix c st body).1, liftRes 10 body (parseIpfix c st body).2)
  else (st, .fail (.unknownVersion body))

/-- `NetflowParser::parse_packet_by_version` -/
def parsePacket (c : Config) (st : PState) (buf : Bytes) : PState × Step :=
  match beU 2 buf with
  | none => (st, .fail .incomplete)
  | some (version, body) =>
    if c.allowed.contains version then
      match c.t.dispatch.lookup version with
      | some kind => parseVersioned c st kind body
      | none => (st, .fail (.unknownVersion body))
    else (st, .unallowed)

/-- result of `parse_bytes` -/
inductive Outcome where
  | done (pkts : List Packet)
  | panic (before : List Packet)
  | overflow (before : List Packet)
  deriving Repr, DecidableEq

def Outcome.cons (p : Packet) : Outcome → Outcome
  | .done ps => .done (p :: ps)
  | .panic ps => .panic (p :: ps)
  | .overflow ps => .overflow (p :: ps)

/-- `NetflowParser::parse_bytes`, recursion on fuel (one frame per packet in the Rust code) -/
def parseBytesF (c : Config) : Nat → PState → Bytes → PState × Outcome
  | 0, st, _ => (st, .overflow [])
  | fuel + 1, st, buf =>
    if buf.isEmpty then (st, .done [])
    else
      match parsePacket c st buf with
      | (st', .ok pkt rest) =>
        if rest.isEmpty then (st', .done [pkt])
        else
          match parseBytesF c fuel st' rest with
          | (st'', out) => (st'', out.cons pkt)
      | (st', .fail e) => (st', .done [.error e buf])
      | (st', .unallowed) => (st', .done [])
      | (st', .panic) => (st', .panic [])
      | (st', .overflow) => (st', .overflow [])

def parseBytes (c : Config) (st : PState) (buf : Bytes) : PState × Outcome :=
  parseBytesF c (buf.length + 1) st buf

end Netflow
