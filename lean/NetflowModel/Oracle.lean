/-
  Oracle.lean — applies the predicates of Preds.lean to an answer of the harness / the model
  (driver glue).
-/
import NetflowModel.Preds
import NetflowModel.Wire
import NetflowModel.Generated
namespace Netflow.Preds
open Netflow

def names : List (Nat × String) := Generated.protoNames

def expVersion : Packet → Nat
  | .v5 .. => 5 | .v7 .. => 7 | .v9 .. => 9 | .ipfix .. => 10 | .error .. => 0

/-- what the spec says about a call that carried abstract messages -/
structure SpecView where
  conformant : Bool
  pkts : List Spec.Exp
  defs : Spec.Defs

/-- all per-call oracles, evaluated on an answer (impl or model) -/
def parseOracles (c : Config) (_st : PState) (buf : Bytes) (a : ParseAns) (sv : Option SpecView) (wExport wCommon : Bool) : List (String × Bool) :=
  let done := a.outcome == "done"
  [ ("C01", done && a.exports.all (fun e => e != some .panic)),
    ("C02", !done || decomposes c buf a.pkts),
    ("C03", !done || c03ok c names (buf.length + 1) buf a.pkts),
    ("C08", !done || !wExport || reexportOk c isFixedPkt buf a.pkts a.exports),
    ("C09", !done || !wExport || reexportOk c isV9Pkt buf a.pkts a.exports),
    ("C10", !done || !wExport || reexportOk c isIpfixPkt buf a.pkts a.exports),
    ("C13", !done || !wCommon || commonOk c names a.pkts a.common) ] ++
  (match sv with
   | some v =>
     if v.conformant then
       let agree (sel : Nat → Bool) : Bool :=
         done && a.pkts.length == v.pkts.length && (v.pkts.zip a.pkts).all fun p =>
           match p.1 with
           | .pkt e => !sel (expVersion e) || e == p.2
           | .inexpressible ver => !sel ver
       [("C03spec", agree (fun v => v == 5 || v == 7)), ("C04", agree (· == 9)), ("C05", agree (· == 10)),
        ("C06", agree (fun v => v == 9 || v == 10))]
     else []
   | none => [])

end Netflow.Preds
