/-
  Oracle.lean — applies the predicates of Preds.lean to an answer of the harness / the model
  (driver glue).
-/
import NetflowModel.Preds
import NetflowModel.Wire
import NetflowModel.Generated
import NetflowModel.Json
import NetflowModel.JsonText
namespace Netflow.Preds
open Netflow

def names : List (Nat × String) := Generated.protoNames

def expVersion : Packet → Nat
  | .v5 .. => 5 | .v7 .. => 7 | .v9 .. => 9 | .ipfix .. => 10 | .error .. => 0

/-- what the spec says about a call that carried abstract messages -/
structure SpecView where
  conformant : Bool
  pkts : List Spec.Exp
  defs : Spec.Defs

/-- all per-call oracles, evaluated on an answer (impl or model) -/
def parseOracles (c : Config) (_st : PState) (buf : Bytes) (a : ParseAns) (sv : Option SpecView) (wExport wCommon : Bool) : List (String × Bool) :=
  let done := a.outcome == "done"
  [ ("C01", done && a.exports.all (fun e => e != some .panic)),
    ("C02", !done || decomposes c buf a.pkts),
    ("C03", !done || c03ok c names (buf.length + 1) buf a.pkts),
    ("C08", !done || !wExport || reexportOk c isFixedPkt buf a.pkts a.exports),
    ("C09", !done || !wExport || reexportOk c isV9Pkt buf a.pkts a.exports),
    ("C10", !done || !wExport || reexportOk c isIpfixPkt buf a.pkts a.exports),
    ("C13", !done || !wCommon || commonOkDup c names a.pkts a.common) ] ++
  (match sv with
   | some v =>
     if v.conformant then
       let agree (sel : Nat → Bool) : Bool :=
         done && a.pkts.length == v.pkts.length && (v.pkts.zip a.pkts).all fun p =>
           match p.1 with
           | .pkt e => !sel (expVersion e) || e == p.2
           | .inexpressible ver => !sel ver
       [("C03spec", agree (fun v => v == 5 || v == 7)), ("C04", agree (· == 9)), ("C05", agree (· == 10)),
        ("C06", agree (fun v => v == 9 || v == 10))]
     else []
   | none => [])

/-! ### C16 — the JSON text produced by serde_json, read back, is the tree `toJ` of the decoded value -/

def jnames : JNames :=
  { proto := Generated.protoNames, v9Field := Generated.v9FieldNames, ipField := Generated.ipFieldNames,
    scope := Generated.scopeNames, ipv4Fields := Generated.ipv4Fields }

partial def jmatch : JVal → Lean.Json → Bool
  | .null, .null => true
  | .num n, .num jn => jn.exponent == 0 && jn.mantissa == n
  | .f64 bits, j =>
    let f := Float.ofBits bits.toUInt64
    if f.isNaN || f.isInf then j == Lean.Json.null
    else match j with
      | .num jn => if f == 0.0 then jn.mantissa == 0 else jn.toFloat.toBits == f.toBits   -- the reader drops the sign of -0.0
      | _ => false
  | .str b, .str s => s.toUTF8.toList == b
  | .anyStr, .str _ => true
  | .arr xs, .arr ys => xs.length == ys.size && (xs.zip ys.toList).all fun p => jmatch p.1 p.2
  | .obj kvs, .obj m =>
    kvs.length == m.size && kvs.all fun kv =>
      match m.get? kv.1 with
      | some v => jmatch kv.2 v
      | none => false
  | _, _ => false

/-- is the float with these 64 bits finite? -/
def f64Finite (bits : Nat) : Bool :=
  let f := Float.ofBits bits.toUInt64
  !(f.isNaN || f.isInf)

/-- does the number literal denote exactly this finite float?  (machine float reader; the reader drops the sign of -0.0) -/
def f64Lit (bits : Nat) (lit : List Char) : Bool :=
  let f := Float.ofBits bits.toUInt64
  match Lean.Json.parse (String.ofList lit) with
  | .ok (.num jn) => if f == 0.0 then jn.mantissa == 0 else jn.toFloat.toBits == f.toBits
  | _ => false

/-- one packet's serialisation result as reported by the harness: {"ok": text} | "err" | "panic" | "nondeterministic".
    The text must be ONE well-formed JSON value for the model's reader `JText.parseJ` and for Lean's own reader, and the
    tree read from it must match `toJ` of the decoded packet member for member IN ORDER (`JText.jmatchT`). -/
def jsonOk (c : Config) (p : Packet) (j : Lean.Json) : Bool :=
  match j.getObjValAs? String "ok" with
  | .ok text =>
    (match Lean.Json.parse text with
     | .ok tree => jmatch (toJ c jnames p) tree
     | .error _ => false) &&
    (match JText.parseJ text.toList with
     | some t => JText.jmatchT f64Finite f64Lit (toJ c jnames p) t
     | none => false)
  | .error _ => false

def jsonAllOk (c : Config) (pkts : List Packet) (js : List Lean.Json) : Bool :=
  pkts.length == js.length && (pkts.zip js).all fun p => jsonOk c p.1 p.2

end Netflow.Preds
