/-
  Oracle.lean — applies the predicates of Preds.lean to an answer of the harness / the model
  (driver glue).
-/
import NetflowModel.Preds
import NetflowModel.Wire
namespace Netflow.Preds
open Netflow

/-- all per-call oracles, evaluated on an answer (impl or model) -/
def parseOracles (c : Config) (_st : PState) (buf : Bytes) (a : ParseAns) : List (String × Bool) :=
  [ ("C01", a.outcome == "done" && a.exports.all (fun e => e != some .panic)),
    ("C02", a.outcome != "done" || decomposes c buf a.pkts) ]

/-- known-finding class predicates that hold for this call -/
def parseClasses (_c : Config) (_st : PState) (_buf : Bytes) (_a : ParseAns) : List String := []

end Netflow.Preds
