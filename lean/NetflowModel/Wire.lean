/-
  Wire.lean — JSON reader/printer for the model's types (driver glue, not part of the model).
  The Rust harness prints the real crate's values in exactly this format.
-/
import Lean.Data.Json
import Lean.Elab.Deriving.FromToJson
import NetflowModel.Export
import NetflowModel.Common
import NetflowModel.Spec.Stream
namespace Netflow
open Lean

def hexVal (c : Char) : Option Nat :=
  if '0' ≤ c ∧ c ≤ '9' then some (c.toNat - 48)
  else if 'a' ≤ c ∧ c ≤ 'f' then some (c.toNat - 87)
  else if 'A' ≤ c ∧ c ≤ 'F' then some (c.toNat - 55)
  else none

def unhexAux : List Char → Bytes → Option Bytes
  | [], acc => some acc.reverse
  | [_], _ => none
  | a :: b :: rest, acc =>
    match hexVal a, hexVal b with
    | some x, some y => unhexAux rest (UInt8.ofNat (x * 16 + y) :: acc)
    | _, _ => none

def unhex (s : String) : Option Bytes := unhexAux s.toList []

instance (priority := high) instToJsonBytes : ToJson Bytes := ⟨fun b => Json.str (toHex b)⟩
instance (priority := high) instFromJsonBytes : FromJson Bytes :=
  ⟨fun j => match j with
    | .str s => match unhex s with
      | some b => .ok b
      | none => .error s!"bad hex: {s.take 40}"
    | _ => .error "expected hex string"⟩

deriving instance ToJson, FromJson for
  DataNumber, FieldValue, TField, V9Template, V9OptTemplate, IpTField, IpTemplate, IpOptTemplate,
  V9Body, V9Set, IpBody, IpSet, ErrKind, Packet, PState, Out, CommonFlow, Common

deriving instance ToJson, FromJson for
  Spec.VarForm, Spec.FieldBytes, Spec.V9FS, Spec.V9Msg, Spec.IpTemplateSpec, Spec.IpOptTemplateSpec,
  Spec.IpFS, Spec.IpMsg, Spec.Msg

/-- answer to a `parse` op -/
structure ParseAns where
  outcome : String
  pkts : List Packet
  state : PState
  exports : List (Option (Out Bytes))
  common : List (Option Common)
  deriving ToJson, FromJson, DecidableEq

end Netflow
