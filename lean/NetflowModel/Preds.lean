/-
  Preds.lean — the DECIDABLE property predicates.  The theorems in Props/ state them about the
  model for all inputs; the driver evaluates the very same functions on what the real crate
  returned (the oracle).  Core only.
-/
import NetflowModel.Export
import NetflowModel.Common
import NetflowModel.Spec.Expected
namespace Netflow.Preds
open Netflow

/-! ### C02 — the result is a left-to-right decomposition of the buffer -/

def v9SetsLen : List V9Set → Nat
  | [] => 0
  | s :: ss => max s.len 4 + v9SetsLen ss

/-- wire length of a decoded packet as implied by its own header fields -/
def wireLen (c : Config) : Packet → Option Nat
  | .v5 h _ => some (2 + c.t.v5Hdr.wireLen + c.t.v5Rec.wireLen * c.t.v5Hdr.get "count" h)
  | .v7 h _ => some (2 + c.t.v7Hdr.wireLen + c.t.v7Rec.wireLen * c.t.v7Hdr.get "count" h)
  | .v9 _ ss => some (2 + c.t.v9Hdr.wireLen + v9SetsLen ss)
  | .ipfix h _ => some (max (c.t.ipHdr.get "length" h) 16)
  | .error _ _ => none

def versionOf (buf : Bytes) : Option Nat :=
  match beU 2 buf with
  | some (v, _) => some v
  | none => none

def errConsistent (buf : Bytes) : ErrKind → Bool
  | .incomplete => buf.length < 2
  | .partialParse v body => decide (versionOf buf = some v) && body == buf.drop 2
  | .unknownVersion body => decide (2 ≤ buf.length) && body == buf.drop 2

def decomposes (c : Config) : Bytes → List Packet → Bool
  | buf, [] =>
    buf.isEmpty ||
    (match versionOf buf with
     | some v => !c.allowed.contains v
     | none => false)
  | buf, [.error k rem] => !buf.isEmpty && rem == buf && errConsistent buf k
  | buf, p :: ps =>
    match wireLen c p with
    | none => false                 -- an error element that is not last
    | some n => decide (0 < n) && decide (n ≤ buf.length) && decomposes c (buf.drop n) ps


/-! ### C03 — V5/V7 decode per the Cisco layouts -/

/-- the record `vals` (in the order of layout `lay`) carries, for every Cisco field, the big-endian
    value found at that field's Cisco offset in `bytes` -/
def fieldsAtOffsets (lay : Layout) (spec : List (String × Nat)) (bytes : Bytes) (vals : List Nat) : Bool :=
  spec.all fun p => lay.get p.1 vals == beNat ((bytes.drop (Spec.offsetOf spec p.1)).take p.2)

/-- the symbolic protocol attached to a record is the IANA name of its protocol number -/
def protoIsIana (names : List (Nat × String)) (lay : Layout) (vals : List Nat) : Bool :=
  (names.lookup (lay.get "protocol_type" vals)) == some (Spec.ianaName (lay.get "protocol_number" vals))

def recsAtOffsets (names : List (Nat × String)) (lay : Layout) (spec : List (String × Nat)) : Bytes → List (List Nat) → Bool
  | _, [] => true
  | bytes, r :: rs =>
    fieldsAtOffsets lay spec bytes r && protoIsIana names lay r && r.length == lay.length &&
    recsAtOffsets names lay spec (bytes.drop (Spec.totalLen spec)) rs

/-- `pkt` is the faithful decoding of the complete V5/V7 packet at the head of `buf` -/
def fixedDecodes (names : List (Nat × String)) (hdrLay recLay : Layout) (hdrSpec recSpec : List (String × Nat))
    (buf : Bytes) (h : List Nat) (rs : List (List Nat)) : Bool :=
  fieldsAtOffsets hdrLay hdrSpec buf h && h.length == hdrLay.length &&
  rs.length == hdrLay.get "count" h &&
  recsAtOffsets names recLay recSpec (buf.drop (Spec.totalLen hdrSpec)) rs

/-- C03 along the decomposition of a buffer: at every position that starts with an (allowed)
    version word 5 or 7, a complete packet decodes faithfully and an incomplete one is an error -/
def c03ok (c : Config) (names : List (Nat × String)) : Nat → Bytes → List Packet → Bool
  | 0, _, _ => true
  | fuel + 1, buf, pkts =>
    match versionOf buf with
    | none => true
    | some v =>
      if !c.allowed.contains v then true
      else
        let fixed (hdrLay recLay : Layout) (hdrSpec recSpec : List (String × Nat)) (isV : Packet → Option (List Nat × List (List Nat))) : Bool :=
          let need := Spec.totalLen hdrSpec + Spec.totalLen recSpec * beNat ((buf.drop 2).take 2)
          if buf.length < Spec.totalLen hdrSpec ∨ buf.length < need then
            -- shorter than announced: an error, never a packet
            (match pkts with
             | [.error _ _] => true
             | _ => false)
          else
            match pkts with
            | p :: ps =>
              (match isV p with
               | some (h, rs) => fixedDecodes names hdrLay recLay hdrSpec recSpec buf h rs && c03ok c names fuel (buf.drop need) ps
               | none => false)
            | [] => false
        if v = 5 then
          fixed c.t.v5Hdr c.t.v5Rec Spec.ciscoV5Hdr Spec.ciscoV5Rec (fun p => match p with | .v5 h rs => some (h, rs) | _ => none)
        else if v = 7 then
          fixed c.t.v7Hdr c.t.v7Rec Spec.ciscoV7Hdr Spec.ciscoV7Rec (fun p => match p with | .v7 h rs => some (h, rs) | _ => none)
        else
          match pkts with
          | p :: ps =>
            (match wireLen c p with
             | some n => if n = 0 then true else c03ok c names fuel (buf.drop n) ps
             | none => true)
          | [] => true

/-! ### C08 / C09 / C10 — re-export reproduces the bytes each packet occupied -/

def reexportOk (c : Config) (sel : Packet → Bool) : Bytes → List Packet → List (Option (Out Bytes)) → Bool
  | _, [], [] => true
  | buf, p :: ps, e :: es =>
    match wireLen c p with
    | none => e == none && ps.isEmpty
    | some n => (!sel p || e == some (.ok (buf.take n))) && reexportOk c sel (buf.drop n) ps es
  | _, _, _ => false

def isFixedPkt : Packet → Bool
  | .v5 .. => true | .v7 .. => true | _ => false
def isV9Pkt : Packet → Bool
  | .v9 .. => true | _ => false
def isIpfixPkt : Packet → Bool
  | .ipfix .. => true | _ => false

/-! ### C13 — the common view is a faithful projection -/

def numOf : FieldValue → Option Nat
  | .num (.u8 n) | .num (.u16 n) | .num (.u24 n) | .num (.u32 n) | .num (.u64 n) | .num (.u128 n) => some n
  | _ => none

/-- milliseconds carried by a decoded time field -/
def timeOf : FieldValue → Option Nat
  | .dur s ns => some (s * 1000 + ns / 1000000)
  | v => numOf v

def protoNumOf (t : Tables) : FieldValue → Option Nat
  | .proto d => some (t.protoToU8 d)
  | v => numOf v

def firstField (r : Rec) (disc : Nat) : Option FieldValue :=
  match r.find? (fun e => e.2.1 == disc) with
  | some e => some e.2.2
  | none => none

/-- what the common flow of a decoded record must be: every projected attribute equals the decoded
    field of that record, absent iff the record has no such field -/
def specFlow (t : Tables) (names : List (Nat × String)) (k : CommonKeys) (r : Rec) : CommonFlow :=
  let ip (a b : Nat) : Option IpAddrM :=
    match firstField r a with
    | some v => asIp v
    | none => (firstField r b).bind asIp
  { srcAddr := ip k.src4 k.src6
    dstAddr := ip k.dst4 k.dst6
    srcPort := (firstField r k.sport).bind numOf
    dstPort := (firstField r k.dport).bind numOf
    protoNum := (firstField r k.proto).bind (protoNumOf t)
    protoType := ((firstField r k.proto).bind (protoNumOf t)).map (Spec.protoSpecDisc names)
    first := (firstField r k.first).bind timeOf
    last := (firstField r k.last).bind timeOf
    srcMac := (firstField r k.smac).bind asString
    dstMac := (firstField r k.dmac).bind asString }

/-- regroup IPFIX per-field maps into records (a new record starts at field index 0) -/
def regroup : List Rec → List Rec → List Rec
  | [], acc => acc.reverse
  | r :: rs, acc =>
    match r, acc with
    | (0, _) :: _, _ => regroup rs (r :: acc)
    | _, a :: acc' => regroup rs ((a ++ r) :: acc')
    | _, [] => regroup rs [r]

def specFixedFlow (names : List (Nat × String)) (lay : Layout) (vals : List Nat) : CommonFlow :=
  { srcAddr := some (false, lay.get "src_addr" vals), dstAddr := some (false, lay.get "dst_addr" vals)
    srcPort := some (lay.get "src_port" vals), dstPort := some (lay.get "dst_port" vals)
    protoNum := some (lay.get "protocol_number" vals)
    protoType := some (Spec.protoSpecDisc names (lay.get "protocol_number" vals))
    first := some (lay.get "first" vals), last := some (lay.get "last" vals) }

/-- the common view a packet must have -/
def specCommon (c : Config) (names : List (Nat × String)) : Packet → Option Common
  | .v5 h rs => some { version := 5, timestamp := c.t.v5Hdr.get "sys_up_time" h, flows := rs.map (specFixedFlow names c.t.v5Rec) }
  | .v7 h rs => some { version := 7, timestamp := c.t.v7Hdr.get "sys_up_time" h, flows := rs.map (specFixedFlow names c.t.v7Rec) }
  | .v9 h ss => some { version := 9, timestamp := c.t.v9Hdr.get "sys_up_time" h,
                       flows := (v9DataRecs ss).map (specFlow c.t names c.t.commonV9) }
  | .ipfix h ss => some { version := 10, timestamp := c.t.ipHdr.get "export_time" h,
                          flows := (regroup (ipDataRecs ss) []).map (specFlow c.t names c.t.commonIp) }
  | .error _ _ => none

/-- a record defines some projected attribute twice (the property leaves the choice open) -/
def dupKeys (k : CommonKeys) (r : Rec) : Bool :=
  [k.src4, k.src6, k.dst4, k.dst6, k.sport, k.dport, k.proto, k.first, k.last, k.smac, k.dmac].any fun key =>
    (r.filter fun e => e.2.1 == key).length ≥ 2

def pktHasDupKeys (c : Config) : Packet → Bool
  | .v9 _ ss => (v9DataRecs ss).any (dupKeys c.t.commonV9)
  | .ipfix _ ss => (regroup (ipDataRecs ss) []).any (dupKeys c.t.commonIp)
  | _ => false

def commonOk (c : Config) (names : List (Nat × String)) (pkts : List Packet) (cs : List (Option Common)) : Bool :=
  pkts.length == cs.length && (pkts.zip cs).all fun p => pktHasDupKeys c p.1 || specCommon c names p.1 == p.2

/-! #### records that define a projected key more than once
    The property says "equal the corresponding decoded fields of that record": with two fields of one type either is a
    corresponding field, so the choice is open — but NOT the rest: every attribute must still be the conversion of SOME
    decoded field of the record with that key, absent only when there is none (or the chosen one does not convert). -/

/-- the decoded values a record carries for a projected key, in record order -/
def fieldsOf (r : Rec) (disc : Nat) : List FieldValue := (r.filter fun e => e.2.1 == disc).map (·.2.2)

def anyOf {α : Type} [BEq α] (cands : List FieldValue) (conv : FieldValue → Option α) (x : Option α) : Bool :=
  if cands.isEmpty then x == none else cands.any fun v => conv v == x

/-- every attribute of `f` is the conversion of some decoded field of `r` with that key (IPv4 key before IPv6 key) -/
def flowAnyOk (ipC : FieldValue → Option IpAddrM) (portC protoC timeC : FieldValue → Option Nat)
    (macC : FieldValue → Option Bytes) (ptype : Nat → Nat) (k : CommonKeys) (r : Rec) (f : CommonFlow) : Bool :=
  let ipCands (a b : Nat) := if (fieldsOf r a).isEmpty then fieldsOf r b else fieldsOf r a
  anyOf (ipCands k.src4 k.src6) ipC f.srcAddr && anyOf (ipCands k.dst4 k.dst6) ipC f.dstAddr &&
  anyOf (fieldsOf r k.sport) portC f.srcPort && anyOf (fieldsOf r k.dport) portC f.dstPort &&
  anyOf (fieldsOf r k.proto) protoC f.protoNum && f.protoType == f.protoNum.map ptype &&
  anyOf (fieldsOf r k.first) timeC f.first && anyOf (fieldsOf r k.last) timeC f.last &&
  anyOf (fieldsOf r k.smac) macC f.srcMac && anyOf (fieldsOf r k.dmac) macC f.dstMac

/-- the specified view of a V9 packet up to the choice among duplicate fields (IPFIX: the per-field flows are a recorded
    finding; duplicates inside a regrouped record are not judged) -/
def specDupOk (c : Config) (names : List (Nat × String)) : Packet → Option Common → Bool
  | .v9 h ss, some cm =>
    cm.version == 9 && cm.timestamp == c.t.v9Hdr.get "sys_up_time" h &&
    cm.flows.length == (v9DataRecs ss).length &&
    ((v9DataRecs ss).zip cm.flows).all fun p =>
      flowAnyOk asIp numOf (protoNumOf c.t) timeOf asString (Spec.protoSpecDisc names) c.t.commonV9 p.1 p.2
  | .v9 .., none => false
  | _, _ => true

/-- the oracle of C13: `commonOk` and, on the packets it leaves open, the any-candidate form -/
def commonOkDup (c : Config) (names : List (Nat × String)) (pkts : List Packet) (cs : List (Option Common)) : Bool :=
  commonOk c names pkts cs && (pkts.zip cs).all fun p => !pktHasDupKeys c p.1 || specDupOk c names p.1 p.2

/-- what the model's `toCommon` does up to the choice among duplicate fields (correspondence on duplicate-key V9 packets) -/
def modelDupOk (c : Config) : Packet → Option Common → Bool
  | .v9 h ss, some cm =>
    cm.version == c.t.v9Hdr.get "version" h && cm.timestamp == c.t.v9Hdr.get c.t.commonV9.ts h &&
    cm.flows.length == (v9DataRecs ss).length &&
    ((v9DataRecs ss).zip cm.flows).all fun p =>
      flowAnyOk asIp asU16 asU8 asU32 asString c.t.protoFromU8 c.t.commonV9 p.1 p.2
  | _, _ => false

/-- correspondence of the common views: equal, except that on a V9 packet with a duplicate projected key the implementation
    may have chosen another of the duplicates -/
def commonCorr (c : Config) (pkts : List Packet) (impl model : List (Option Common)) : Bool :=
  impl == model ||
  (impl.length == model.length && pkts.length == model.length &&
   (pkts.zip (impl.zip model)).all fun p => p.2.1 == p.2.2 || (pktHasDupKeys c p.1 && modelDupOk c p.1 p.2.1))

/-- the same for the flattening helper: the flat list, cut at the model's per-packet flow counts -/
def flatCorr (c : Config) : List Packet → List CommonFlow → Bool
  | [], fl => fl.isEmpty
  | p :: ps, fl =>
    match toCommon c p with
    | none => flatCorr c ps fl
    | some cm =>
      let n := cm.flows.length
      let a := fl.take n
      a.length == n && (a == cm.flows || (pktHasDupKeys c p && modelDupOk c p (some { cm with flows := a }))) &&
      flatCorr c ps (fl.drop n)

end Netflow.Preds

namespace Netflow.Preds
open Netflow

/-! ### C12 — the result under allowed set `S` is the all-allowed result cut before the first
    packet whose version word is not in `S` -/
def takeAllowed (cAll : Config) (S : List Nat) : Nat → Bytes → List Packet → List Packet
  | 0, _, _ => []
  | _ + 1, _, [] => []
  | fuel + 1, buf, p :: ps =>
    match versionOf buf with
    | none => [p]                                 -- fewer than 2 bytes: the Incomplete error is reported under every S
    | some v =>
      if !S.contains v then []
      else
        match wireLen cAll p with
        | none => [p]
        | some n => p :: takeAllowed cAll S fuel (buf.drop n) ps

end Netflow.Preds

namespace Netflow.Preds
open Netflow

/-! ### C07 — a data set for template id `tid` unknown to protocol `proto` never yields records:
    the V9 packet carrying it is an error, an IPFIX message has no decoded set with that id;
    packets before it are reported (non-error) -/
def noRecordsFor (tid proto : Nat) (pkts : List Packet) : Bool :=
  let noSet : Packet → Bool
    | .v9 _ ss => proto != 9 || ss.all fun s => s.id != tid
    | .ipfix _ ss => proto != 10 || ss.all fun s => s.id != tid
    | _ => true
  pkts.all noSet &&
  (match pkts.getLast? with
   | some (.error (.partialParse v _) _) => proto == 9 && v == 9
   | some (.ipfix _ _) => proto == 10
   | _ => false) &&
  pkts.dropLast.all fun p => match p with | .error _ _ => false | _ => true

end Netflow.Preds
