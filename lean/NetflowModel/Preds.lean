/-
  Preds.lean — the DECIDABLE property predicates.  The theorems in Props/ state them about the
  model for all inputs; the driver evaluates the very same functions on what the real crate
  returned (the oracle).  Core only.
-/
import NetflowModel.Export
import NetflowModel.Common
namespace Netflow.Preds
open Netflow

/-! ### C02 — the result is a left-to-right decomposition of the buffer -/

def v9SetsLen : List V9Set → Nat
  | [] => 0
  | s :: ss => max s.len 4 + v9SetsLen ss

/-- wire length of a decoded packet as implied by its own header fields -/
def wireLen (c : Config) : Packet → Option Nat
  | .v5 h _ => some (2 + c.t.v5Hdr.wireLen + c.t.v5Rec.wireLen * c.t.v5Hdr.get "count" h)
  | .v7 h _ => some (2 + c.t.v7Hdr.wireLen + c.t.v7Rec.wireLen * c.t.v7Hdr.get "count" h)
  | .v9 _ ss => some (2 + c.t.v9Hdr.wireLen + v9SetsLen ss)
  | .ipfix h _ => some (max (c.t.ipHdr.get "length" h) 16)
  | .error _ _ => none

def versionOf (buf : Bytes) : Option Nat :=
  match beU 2 buf with
  | some (v, _) => some v
  | none => none

def errConsistent (buf : Bytes) : ErrKind → Bool
  | .incomplete => buf.length < 2
  | .partialParse v body => decide (versionOf buf = some v) && body == buf.drop 2
  | .unknownVersion body => decide (2 ≤ buf.length) && body == buf.drop 2

def decomposes (c : Config) : Bytes → List Packet → Bool
  | buf, [] =>
    buf.isEmpty ||
    (match versionOf buf with
     | some v => !c.allowed.contains v
     | none => false)
  | buf, [.error k rem] => !buf.isEmpty && rem == buf && errConsistent buf k
  | buf, p :: ps =>
    match wireLen c p with
    | none => false                 -- an error element that is not last
    | some n => decide (0 < n) && decide (n ≤ buf.length) && decomposes c (buf.drop n) ps

end Netflow.Preds
