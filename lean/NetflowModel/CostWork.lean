/-
  CostWork.lean — the WORK half of C15 as an executable model: how many field-decode attempts (each of which may allocate a map
  entry) and template-element copies one `parse_bytes` call performs on the data path, where neither the bytes of the buffer nor the
  size of the result pay for them automatically.

  * V9 `FieldParser::parse`: `|body| / total_size` iterations; every iteration decodes the template's fields in order until one fails.
    `v9RecWorkStop` is the code as it is now (the loop STOPS at the first record that does not decode, the template is borrowed);
    `v9RecWorkRetry` is the code before fix `a V9 record that does not decode is retried`: the `fold` went on — and failed again,
    cloning the template each time — for every remaining iteration.
  * IPFIX `FieldParser::parse`: one clone of the cached template per data set (`PreExec … .cloned()`), then the record loop.
  * `workOf` walks a buffer exactly as `parseBytes` does and sums these terms (oracle side: the allocation the real crate may spend
    inside the recorded class "zero-length fields" is bounded by it; `Props/C15c.lean` has the theorems about the V9 loop).
  Core only.
-/
import NetflowModel.Parser
import NetflowModel.Fast   -- so that the calls below are compiled against the `@[csimp]` replacements (run time only)
namespace Netflow.Cost
open Netflow

/-- `parse_data_field` (v9): calls of `parse_as_field_value`, up to and including the first one that fails -/
def v9RecAttempts (c : Config) : List TField → Bytes → Nat
  | [], _ => 0
  | f :: fs, i =>
    match parseValue c.vc (c.t.v9Ty (c.t.v9Field f.typ)) f.len i with
    | none => 1
    | some (_, r) => 1 + v9RecAttempts c fs r

/-- the record loop as it is now: stops at the first record that does not decode -/
def v9RecWorkStop (c : Config) (fs : List TField) : Nat → Bytes → Nat
  | 0, _ => 0
  | n + 1, i =>
    v9RecAttempts c fs i +
      (match v9ParseRec c fs 0 i with
       | none => 0
       | some (_, i') => v9RecWorkStop c fs n i')

/-- the record loop before the fix: a failing record was retried (and the template cloned: `fs.length` element copies) on every
    remaining iteration -/
def v9RecWorkRetry (c : Config) (fs : List TField) : Nat → Bytes → Nat
  | 0, _ => 0
  | n + 1, i =>
    fs.length + v9RecAttempts c fs i +
      (match v9ParseRec c fs 0 i with
       | none => v9RecWorkRetry c fs n i
       | some (_, i') => v9RecWorkRetry c fs n i')

/-- the record loop of the code as it is now, as a function of its own (same results as `v9RecLoop`: `Props.C15_v9_stop_same_result`) -/
def v9RecLoopStop (c : Config) (fs : List TField) : Nat → Bytes → List Rec → List Rec × Bytes
  | 0, i, acc => (acc, i)
  | n + 1, i, acc =>
    match v9ParseRec c fs 0 i with
    | none => (acc, i)
    | some (r, i') => v9RecLoopStop c fs n i' (acc ++ [r])

/-- `try_fold` over the template's fields (ipfix): attempts up to and including the first failing one -/
def ipRecAttempts (c : Config) : List IpTField → Bytes → Nat
  | [], _ => 0
  | f :: fs, i =>
    match ipParseValue c f i with
    | none => 1
    | some (_, r) => 1 + ipRecAttempts c fs r

/-- the IPFIX record loop (mirrors `ipRecLoop`) -/
def ipRecWork (c : Config) (fs : List IpTField) : Nat → Bytes → Nat
  | 0, _ => 0
  | fuel + 1, i =>
    ipRecAttempts c fs i +
      (match ipParseRec c fs 0 i with
       | none => 0
       | some (_, r) =>
         let taken := i.length - r.length
         if taken = 0 then 0 else if r.length ≥ taken then ipRecWork c fs fuel r else 0)

/-- one V9 flowset body (template and options-template flowsets, options data: every step consumes bytes, nothing to add) -/
def v9BodyWork (c : Config) (st : PState) (id : Nat) (body : Bytes) : Nat :=
  if id = c.t.v9TemplateId ∨ id = c.t.v9OptTemplateId then 0
  else
    match amLookup id st.v9O with
    | some _ => 0
    | none =>
      match amLookup id st.v9T with
      | some t =>
        let total := v9TotalSize t.fields
        if total = 0 then 0 else v9RecWorkStop c t.fields (body.length / total) body
      | none => 0

/-- one IPFIX set body: the clone of the cached template, then the record loop -/
def ipBodyWork (c : Config) (st : PState) (id : Nat) (body : Bytes) : Nat :=
  if (id < c.t.ipSetMinRange ∧ id ≠ c.t.ipOptTemplateId) ∨ id = c.t.ipOptTemplateId then 0
  else
    match amLookup id st.ipT with
    | some t => t.fields.length + ipRecWork c t.fields (body.length + 1) body
    | none =>
      match amLookup id st.ipO with
      | some t => t.fields.length + ipRecWork c t.fields (body.length + 1) body
      | none => 0

def workV9Sets (c : Config) : Nat → PState → Bytes → Nat
  | 0, _, _ => 0
  | n + 1, st, i =>
    if i.isEmpty then 0
    else
      match parseLayout c.t.protoFromU8 c.t.v9SetHdr i with
      | none => 0
      | some (h, r) =>
        let id := c.t.v9SetHdr.get "flowset_id" h
        let len := c.t.v9SetHdr.get "length" h
        match takeN (len - 4) r with
        | none => 0
        | some (body, _) =>
          v9BodyWork c st id body +
            (match v9ParseSet c st i with
             | (st', .ok (_, r')) => workV9Sets c n st' r'
             | _ => 0)

def workIpSets (c : Config) : Nat → PState → Bytes → Nat
  | 0, _, _ => 0
  | fuel + 1, st, i =>
    match parseLayout c.t.protoFromU8 c.t.ipSetHdr i with
    | none => 0
    | some (h, r) =>
      let id := c.t.ipSetHdr.get "header_id" h
      let len := c.t.ipSetHdr.get "length" h
      match takeN (len - 4) r with
      | none => 0
      | some (body, _) =>
        ipBodyWork c st id body +
          (match ipParseSet c st i with
           | (st', .ok (_, r')) => if r'.length = i.length then 0 else workIpSets c fuel st' r'
           | _ => 0)

def workPacket (c : Config) (st : PState) (buf : Bytes) : Nat :=
  match beU 2 buf with
  | none => 0
  | some (version, body) =>
    if c.allowed.contains version then
      match c.t.dispatch.lookup version with
      | some 9 =>
        (match parseLayout c.t.protoFromU8 c.t.v9Hdr body with
         | some (h, r) => workV9Sets c (c.t.v9Hdr.get "count" h) st r
         | none => 0)
      | some 10 =>
        (match parseLayout c.t.protoFromU8 c.t.ipHdr body with
         | some (h, r) =>
           (match takeN (c.t.ipHdr.get "length" h - 16) r with
            | some (b, _) => workIpSets c (b.length + 1) st b
            | none => 0)
         | none => 0)
      | _ => 0
    else 0

def workF (c : Config) : Nat → PState → Bytes → Nat
  | 0, _, _ => 0
  | fuel + 1, st, buf =>
    if buf.isEmpty then 0
    else
      workPacket c st buf +
        (match parsePacket c st buf with
         | (st', .ok _ rest) => if rest.isEmpty then 0 else workF c fuel st' rest
         | _ => 0)

/-- data-path work (field-decode attempts + IPFIX template-element copies) of one `parse_bytes` call on `buf` from state `st` -/
def workOf (c : Config) (st : PState) (buf : Bytes) : Nat := workF c (buf.length + 1) st buf

end Netflow.Cost
