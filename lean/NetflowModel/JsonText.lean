/-
  JsonText.lean — JSON at the TEXT level (C16: "produces well-formed JSON … records' fields in template order").
  * `JTree`      an ORDER-PRESERVING syntax tree (object members are a list, numbers keep their literal)
  * `parseJ`     a total RFC 8259 reader (fuel-structural, rejects everything that is not one JSON value:
                 raw control characters in strings, lone surrogates, leading zeros, trailing garbage)
  * `printTree`  the compact writer of `serde_json::to_string` (its escapes: \" \\ \b \f \n \r \t, \u00XX below 0x20)
  * (`J1.treeOf`, in Lemmas/J1Text.lean: the tree that the writer produces for a `JVal` — number → decimal literal, string → its characters)
  * `jmatchT`    ORDERED comparison of a `JVal` (the model's `toJ` of a decoded packet) with a tree read from text:
                 same members in the same order, same elements, same literals.
  Core only.  Theorems (`Lemmas/J1*.lean`, `Props/C16b.lean`): `parseJ (printTree t) = some t` for well-formed trees and
  `jmatchT v (treeOf v)`; so the text that the model of the serialiser prints for ANY parse result is accepted by the
  reader and matches, member for member and in order.
-/
import NetflowModel.Json
namespace Netflow

inductive JTree where
  | null
  | bool (b : Bool)
  | num (lit : List Char)                 -- the number literal as written
  | str (s : List Char)                   -- decoded characters
  | arr (xs : List JTree)
  | obj (kvs : List (List Char × JTree))  -- members in textual order, duplicates kept
  deriving Repr, Inhabited

namespace JText

def isWs (c : Char) : Bool := c == ' ' || c == '\n' || c == '\r' || c == '\t'

def skipWs : List Char → List Char
  | c :: r => if isWs c then skipWs r else c :: r
  | [] => []

def hexVal (c : Char) : Option Nat :=
  let n := c.toNat
  if 48 ≤ n ∧ n ≤ 57 then some (n - 48)
  else if 97 ≤ n ∧ n ≤ 102 then some (n - 87)
  else if 65 ≤ n ∧ n ≤ 70 then some (n - 55)
  else none

def hex4 (a b c d : Char) : Option Nat :=
  match hexVal a, hexVal b, hexVal c, hexVal d with
  | some w, some x, some y, some z => some (w * 4096 + x * 256 + y * 16 + z)
  | _, _, _, _ => none

/-- the characters of a string literal after its opening quote, up to and including the closing quote;
    `acc` is reversed.  Structural in the text. -/
def parseStrBody : List Char → List Char → Option (List Char × List Char)
  | [], _ => none
  | '"' :: r, acc => some (acc.reverse, r)
  | '\\' :: '"' :: r, acc => parseStrBody r ('"' :: acc)
  | '\\' :: '\\' :: r, acc => parseStrBody r ('\\' :: acc)
  | '\\' :: '/' :: r, acc => parseStrBody r ('/' :: acc)
  | '\\' :: 'b' :: r, acc => parseStrBody r (Char.ofNat 8 :: acc)
  | '\\' :: 'f' :: r, acc => parseStrBody r (Char.ofNat 12 :: acc)
  | '\\' :: 'n' :: r, acc => parseStrBody r ('\n' :: acc)
  | '\\' :: 'r' :: r, acc => parseStrBody r ('\r' :: acc)
  | '\\' :: 't' :: r, acc => parseStrBody r ('\t' :: acc)
  | '\\' :: 'u' :: a :: b :: c :: d :: r, acc =>
    match hex4 a b c d with
    | none => none
    | some hi =>
      if 0xD800 ≤ hi ∧ hi ≤ 0xDBFF then
        -- a high surrogate must be followed by an escaped low surrogate
        match r with
        | '\\' :: 'u' :: e :: f :: g :: h :: r' =>
          match hex4 e f g h with
          | some lo =>
            if 0xDC00 ≤ lo ∧ lo ≤ 0xDFFF then
              parseStrBody r' (Char.ofNat (0x10000 + (hi - 0xD800) * 1024 + (lo - 0xDC00)) :: acc)
            else none
          | none => none
        | _ => none
      else if 0xDC00 ≤ hi ∧ hi ≤ 0xDFFF then none
      else parseStrBody r (Char.ofNat hi :: acc)
  | '\\' :: _, _ => none
  | c :: r, acc => if c.toNat < 0x20 then none else parseStrBody r (c :: acc)

def isDigit (c : Char) : Bool := 48 ≤ c.toNat && c.toNat ≤ 57

def spanDigits : List Char → List Char × List Char
  | c :: r => if isDigit c then let (d, r') := spanDigits r; (c :: d, r') else ([], c :: r)
  | [] => ([], [])

/-- `-? (0 | [1-9][0-9]*) (\.[0-9]+)? ([eE][+-]?[0-9]+)?` ; returns the literal and the rest -/
def parseNum (cs : List Char) : Option (List Char × List Char) :=
  let (sign, r0) := match cs with
    | '-' :: r => (['-'], r)
    | r => ([], r)
  let (ds, r1) := spanDigits r0
  if ds.isEmpty then none
  else if ds.length > 1 ∧ ds.head? = some '0' then none
  else
    let fracPart : Option (List Char × List Char) :=
      match r1 with
      | '.' :: r =>
        let (fs, r') := spanDigits r
        if fs.isEmpty then none else some ('.' :: fs, r')
      | r => some ([], r)
    match fracPart with
    | none => none
    | some (fr, r2) =>
      let expPart : Option (List Char × List Char) :=
        match r2 with
        | e :: r =>
          if e == 'e' || e == 'E' then
            let (sg, r') := match r with
              | '+' :: r' => (['+'], r')
              | '-' :: r' => (['-'], r')
              | r' => ([], r')
            let (es, r'') := spanDigits r'
            if es.isEmpty then none else some (e :: sg ++ es, r'')
          else some ([], e :: r)
        | [] => some ([], [])
      match expPart with
      | none => none
      | some (ex, r3) => some (sign ++ ds ++ fr ++ ex, r3)

mutual
/-- one value (leading white space allowed) -/
def parseVal : Nat → List Char → Option (JTree × List Char)
  | 0, _ => none
  | fuel + 1, cs =>
    match skipWs cs with
    | 'n' :: 'u' :: 'l' :: 'l' :: r => some (.null, r)
    | 't' :: 'r' :: 'u' :: 'e' :: r => some (.bool true, r)
    | 'f' :: 'a' :: 'l' :: 's' :: 'e' :: r => some (.bool false, r)
    | '"' :: r =>
      match parseStrBody r [] with
      | some (s, r') => some (.str s, r')
      | none => none
    | '[' :: r =>
      match skipWs r with
      | ']' :: r' => some (.arr [], r')
      | r' => parseElems fuel r' []
    | '{' :: r =>
      match skipWs r with
      | '}' :: r' => some (.obj [], r')
      | r' => parseMembers fuel r' []
    | c :: r =>
      if c == '-' || isDigit c then
        match parseNum (c :: r) with
        | some (lit, r') => some (.num lit, r')
        | none => none
      else none
    | [] => none
/-- `value (, value)* ]` ; `acc` reversed -/
def parseElems : Nat → List Char → List JTree → Option (JTree × List Char)
  | 0, _, _ => none
  | fuel + 1, cs, acc =>
    match parseVal fuel cs with
    | none => none
    | some (v, r) =>
      match skipWs r with
      | ',' :: r' => parseElems fuel r' (v :: acc)
      | ']' :: r' => some (.arr (v :: acc).reverse, r')
      | _ => none
/-- `string : value (, string : value)* }` ; `acc` reversed -/
def parseMembers : Nat → List Char → List (List Char × JTree) → Option (JTree × List Char)
  | 0, _, _ => none
  | fuel + 1, cs, acc =>
    match skipWs cs with
    | '"' :: r =>
      match parseStrBody r [] with
      | none => none
      | some (k, r1) =>
        match skipWs r1 with
        | ':' :: r2 =>
          match parseVal fuel r2 with
          | none => none
          | some (v, r3) =>
            match skipWs r3 with
            | ',' :: r4 => parseMembers fuel r4 ((k, v) :: acc)
            | '}' :: r4 => some (.obj ((k, v) :: acc).reverse, r4)
            | _ => none
        | _ => none
    | _ => none
end

/-- a whole text is exactly one JSON value (white space around it allowed) -/
def parseJ (text : List Char) : Option JTree :=
  match parseVal (2 * text.length + 2) text with
  | some (t, r) => if (skipWs r).isEmpty then some t else none
  | none => none

/-! ### the compact writer of serde_json -/

def hexDigitLower (n : Nat) : Char := if n < 10 then Char.ofNat (48 + n) else Char.ofNat (87 + n)

def escChar (c : Char) : List Char :=
  if c = '"' then ['\\', '"']
  else if c = '\\' then ['\\', '\\']
  else if c = '\n' then ['\\', 'n']
  else if c = '\r' then ['\\', 'r']
  else if c = '\t' then ['\\', 't']
  else if c.toNat = 8 then ['\\', 'b']
  else if c.toNat = 12 then ['\\', 'f']
  else if c.toNat < 0x20 then ['\\', 'u', '0', '0', hexDigitLower (c.toNat / 16), hexDigitLower (c.toNat % 16)]
  else [c]

def printStr (s : List Char) : List Char := '"' :: (s.flatMap escChar ++ ['"'])

mutual
def printTree : JTree → List Char
  | .null => ['n', 'u', 'l', 'l']
  | .bool true => ['t', 'r', 'u', 'e']
  | .bool false => ['f', 'a', 'l', 's', 'e']
  | .num lit => lit
  | .str s => printStr s
  | .arr xs => '[' :: (printElems xs ++ [']'])
  | .obj kvs => '{' :: (printMembers kvs ++ ['}'])
def printElems : List JTree → List Char
  | [] => []
  | [x] => printTree x
  | x :: y :: r => printTree x ++ ',' :: printElems (y :: r)
def printMembers : List (List Char × JTree) → List Char
  | [] => []
  | [kv] => printStr kv.1 ++ ':' :: printTree kv.2
  | kv :: kv' :: r => printStr kv.1 ++ ':' :: printTree kv.2 ++ ',' :: printMembers (kv' :: r)
end

/-! ### from the model's JSON value to the tree its text denotes -/

/-- decimal literal of an integer, as `itoa` writes it -/
def intLit (z : Int) : List Char :=
  match z with
  | .ofNat n => (toString n).toList
  | .negSucc n => '-' :: (toString (n + 1)).toList

/-- UTF-8 bytes of a list of characters -/
def utf8Of (s : List Char) : Bytes := s.flatMap String.utf8EncodeChar

/-- ORDERED comparison of the expected value with a tree read from text.  `fmatch bits lit` decides whether a number
    literal denotes the given finite float (the shortest-round-trip printer of serde_json is not modelled: the driver
    supplies the machine's float reader); non-finite floats are `null`. `isFinite bits` says which is which. -/
def jmatchT (isFinite : Nat → Bool) (fmatch : Nat → List Char → Bool) : JVal → JTree → Bool
  | .null, .null => true
  | .num n, .num lit => lit == intLit n
  | .f64 bits, .num lit => isFinite bits && fmatch bits lit
  | .f64 bits, .null => !isFinite bits
  | .str b, .str s => utf8Of s == b
  | .anyStr, .str _ => true
  | .arr xs, .arr ys => goArr xs ys
  | .obj kvs, .obj ms => goObj kvs ms
  | _, _ => false
where
  goArr : List JVal → List JTree → Bool
    | [], [] => true
    | x :: xs, y :: ys => jmatchT isFinite fmatch x y && goArr xs ys
    | _, _ => false
  goObj : List (String × JVal) → List (List Char × JTree) → Bool
    | [], [] => true
    | kv :: kvs, m :: ms => kv.1.toList == m.1 && jmatchT isFinite fmatch kv.2 m.2 && goObj kvs ms
    | _, _ => false

end JText
end Netflow
