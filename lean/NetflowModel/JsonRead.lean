/-
  JsonRead.lean — an independent, NAME-KEYED reader of the JSON tree of a decoded packet (C16 read-back).

  `toJ` (Json.lean) is the model of `serde_json::to_value(&NetflowPacket)`.  This file defines, without
  referring to `toJ`, to a `Config` or to the enum name tables,
  * `NormPkt`   the NORMAL FORM of a decoded packet: exactly what a JSON consumer can see.  Header / record
                structs of V5, V7, V9, IPFIX are `(Rust field name, value)` lists; paddings are absent
                (`#[serde(skip_serializing)]`); a `DataNumber` is its integer value (the enum is
                `#[serde(untagged)]`, the width tag is not written); values whose JSON form is TEXT
                (`Ipv4Addr`, `Ipv6Addr`, MAC strings, enum variant names of `ProtocolTypes` / `V9Field` /
                `IPFixField` / `ScopeFieldType` / `ScopeDataField`) stay text; error elements keep their
                `remaining` bytes; error message strings (free text of nom) are dropped.
  * `readJ`     a reader `Schema → JVal → Option NormPkt` that finds every member of every struct BY NAME
                (`List.lookup` on the member list, never a position), recognises every externally tagged enum by
                its TAG, and reads a record (`BTreeMap<usize, (Field, FieldValue)>`) from the object whose member
                names are decimal indices: each name is parsed as a decimal number and the entries are
                inserted into an index-sorted map, so the result does not depend on the order of the members.
                The only positional reads are JSON arrays (Rust `Vec`s and the 2-tuple `(Field, FieldValue)`).
  The `Schema` is the list of Rust field names of the six derive(Nom) structs (V5/V7/V9/IPFIX header, V5/V7 record).
  Definitions only; the theorems are in Lemmas/P2Read.lean and Props/C16c.lean.  Core only.
-/
import NetflowModel.Json
namespace Netflow

/-! ### the normal form -/

/-- a scalar member of a fixed-layout struct: a JSON number, or a JSON string (dotted `Ipv4Addr`, enum variant name) -/
inductive NVal where
  | nat (n : Nat)
  | text (utf8 : Bytes)
  deriving Repr, DecidableEq

/-- a fixed-layout struct: `(Rust field name, value)` in declaration order of the schema -/
abbrev NStruct := List (String × NVal)

/-- `FieldValue` as JSON shows it -/
inductive NFieldValue where
  | str (utf8 : Bytes)              -- `"String"`
  | num (z : Int)                   -- `"DataNumber"`: the value, whatever the width tag was
  | f64 (bits : Nat)                -- `"Float64"`
  | dur (secs nanos : Nat)          -- `"Duration"` → `secs`, `nanos`
  | ip4 (text : Bytes)              -- `"Ip4Addr"`: dotted text
  | ip6 (text : Bytes)              -- `"Ip6Addr"`: RFC 5952 text
  | mac (text : Bytes)              -- `"MacAddr"`: `AA:BB:…` text
  | vec (b : Bytes)                 -- `"Vec"`
  | proto (name : Bytes)            -- `"ProtocolType"`: variant name
  | unknown (b : Bytes)             -- `"Unknown"`
  deriving Repr, DecidableEq

/-- one record entry: (index in the template, name of the field enum variant, value) -/
abbrev NEntry := Nat × Bytes × NFieldValue
/-- a record: entries in ascending index order (the canonical form of a finite map) -/
abbrev NRec := List NEntry

/-- a template field: `field_type_number`, `field_type` (variant name), `field_length`, `enterprise_number` (IPFIX, optional) -/
structure NTField where
  typ : Nat
  name : Bytes
  len : Nat
  ent : Option Nat
  deriving Repr, DecidableEq

structure NV9Template where
  id : Nat
  fieldCount : Nat
  fields : List NTField
  deriving Repr, DecidableEq

structure NV9OptTemplate where
  id : Nat
  scopeLen : Nat
  optLen : Nat
  scope : List NTField
  opts : List NTField
  deriving Repr, DecidableEq

inductive NV9Body where
  | templates (ts : List NV9Template)
  | optTemplates (ts : List NV9OptTemplate)
  | data (recs : List NRec)
  | optData (scope : List (String × Bytes)) (opts : List (Bytes × Bytes))   -- (`ScopeDataField` variant, bytes), (`V9Field` variant name, bytes)
  deriving Repr, DecidableEq

structure NV9Set where
  id : Nat
  len : Nat
  body : NV9Body
  deriving Repr, DecidableEq

inductive NIpBody where
  | template (id fieldCount : Nat) (fields : List NTField)
  | optTemplate (id fieldCount scopeCount : Nat) (fields : List NTField)
  | data (recs : List NRec)
  | optData (recs : List NRec)
  deriving Repr, DecidableEq

structure NIpSet where
  id : Nat
  len : Nat
  body : NIpBody
  deriving Repr, DecidableEq

inductive NErr where
  | incomplete
  | partialParse (version : Nat) (remaining : Bytes)
  | unknownVersion (remaining : Bytes)
  deriving Repr, DecidableEq

inductive NormPkt where
  | v5 (hdr : NStruct) (recs : List NStruct)
  | v7 (hdr : NStruct) (recs : List NStruct)
  | v9 (hdr : NStruct) (sets : List NV9Set)
  | ipfix (hdr : NStruct) (sets : List NIpSet)
  | error (kind : NErr) (remaining : Bytes)
  deriving Repr, DecidableEq

/-- the Rust field names of the six fixed-layout structs, in declaration order -/
structure Schema where
  v5Hdr : List String
  v5Rec : List String
  v7Hdr : List String
  v7Rec : List String
  v9Hdr : List String
  ipHdr : List String
  deriving Repr, DecidableEq

namespace JRead

/-! ### generic getters -/

/-- all-or-nothing map -/
def optAll {α β : Type} (f : α → Option β) : List α → Option (List β)
  | [] => some []
  | a :: as =>
    match f a, optAll f as with
    | some b, some bs => some (b :: bs)
    | _, _ => none

/-- the member called `k` of an object -/
def field (k : String) : JVal → Option JVal
  | .obj kvs => kvs.lookup k
  | _ => none

def getNat : JVal → Option Nat
  | .num z => if 0 ≤ z then some z.toNat else none
  | _ => none

def getInt : JVal → Option Int
  | .num z => some z
  | _ => none

def getStr : JVal → Option Bytes
  | .str b => some b
  | _ => none

def getArr : JVal → Option (List JVal)
  | .arr xs => some xs
  | _ => none

def getByte : JVal → Option UInt8
  | .num z => if 0 ≤ z ∧ z < 256 then some (UInt8.ofNat z.toNat) else none
  | _ => none

/-- a `Vec<u8>` -/
def getBytes (j : JVal) : Option Bytes :=
  match getArr j with
  | some xs => optAll getByte xs
  | none => none

/-- an externally tagged enum value: an object with exactly one member, `(variant name, content)` -/
def getTagged : JVal → Option (String × JVal)
  | .obj [(t, v)] => some (t, v)
  | _ => none

/-- member `k`, read with `g` -/
def fieldWith {α : Type} (k : String) (g : JVal → Option α) (j : JVal) : Option α :=
  match field k j with
  | some v => g v
  | none => none

/-- member `k` if present -/
def fieldOpt {α : Type} (k : String) (g : JVal → Option α) (j : JVal) : Option (Option α) :=
  match field k j with
  | some v => (g v).map some
  | none => some none

/-- array member `k`, every element read with `g` -/
def fieldArr {α : Type} (k : String) (g : JVal → Option α) (j : JVal) : Option (List α) :=
  match fieldWith k getArr j with
  | some xs => optAll g xs
  | none => none

/-! ### fixed-layout structs: every schema name is looked up in the object -/

def readScalar : JVal → Option NVal
  | .num z => if 0 ≤ z then some (.nat z.toNat) else none
  | .str b => some (.text b)
  | _ => none

def readStruct (names : List String) (j : JVal) : Option NStruct :=
  optAll (fun n => (fieldWith n readScalar j).map fun v => (n, v)) names

/-! ### records -/

/-- a decimal index used as member name (`usize` map keys are written as decimal strings) -/
def keyNat (s : String) : Option Nat :=
  let cs := s.toList
  if cs ≠ [] ∧ cs.all Char.isDigit = true then some (Nat.ofDigitChars 10 cs 0) else none

def readFieldValue (j : JVal) : Option NFieldValue :=
  match getTagged j with
  | none => none
  | some (t, v) =>
    if t = "String" then (getStr v).map .str
    else if t = "DataNumber" then (getInt v).map .num
    else if t = "Float64" then (match v with | .f64 b => some (.f64 b) | _ => none)
    else if t = "Duration" then
      (match fieldWith "secs" getNat v, fieldWith "nanos" getNat v with
       | some s, some n => some (.dur s n)
       | _, _ => none)
    else if t = "Ip4Addr" then (getStr v).map .ip4
    else if t = "Ip6Addr" then (getStr v).map .ip6
    else if t = "MacAddr" then (getStr v).map .mac
    else if t = "Vec" then (getBytes v).map .vec
    else if t = "ProtocolType" then (getStr v).map .proto
    else if t = "Unknown" then (getBytes v).map .unknown
    else none

/-- the tuple `(Field, FieldValue)`: a two-element array -/
def readEntry : JVal → Option (Bytes × NFieldValue)
  | .arr [a, b] =>
    (match getStr a, readFieldValue b with
     | some n, some v => some (n, v)
     | _, _ => none)
  | _ => none

/-- the members of a record object, each keyed by its decimal name, collected into an index-sorted map -/
def readMembers : List (String × JVal) → Option NRec
  | [] => some []
  | (k, v) :: rest =>
    match keyNat k, readEntry v, readMembers rest with
    | some i, some e, some r => some (amInsert i e r)
    | _, _, _ => none

def readRec : JVal → Option NRec
  | .obj kvs => readMembers kvs
  | _ => none

/-! ### template definitions -/

def readTField (j : JVal) : Option NTField :=
  match fieldWith "field_type_number" getNat j, fieldWith "field_type" getStr j, fieldWith "field_length" getNat j,
        fieldOpt "enterprise_number" getNat j with
  | some t, some n, some l, some e => some { typ := t, name := n, len := l, ent := e }
  | _, _, _, _ => none

def readV9Template (j : JVal) : Option NV9Template :=
  match fieldWith "template_id" getNat j, fieldWith "field_count" getNat j, fieldArr "fields" readTField j with
  | some i, some n, some fs => some { id := i, fieldCount := n, fields := fs }
  | _, _, _ => none

def readV9OptTemplate (j : JVal) : Option NV9OptTemplate :=
  match fieldWith "template_id" getNat j, fieldWith "options_scope_length" getNat j, fieldWith "options_length" getNat j,
        fieldArr "scope_fields" readTField j, fieldArr "option_fields" readTField j with
  | some i, some sl, some ol, some ss, some os => some { id := i, scopeLen := sl, optLen := ol, scope := ss, opts := os }
  | _, _, _, _, _ => none

/-! ### V9 sets -/

/-- `ScopeDataField`: externally tagged, content = the bytes -/
def readScopeData (j : JVal) : Option (String × Bytes) :=
  match getTagged j with
  | some (t, v) => (getBytes v).map fun b => (t, b)
  | none => none

def readOptionData (j : JVal) : Option (Bytes × Bytes) :=
  match fieldWith "field_type" getStr j, fieldWith "field_value" getBytes j with
  | some n, some b => some (n, b)
  | _, _ => none

def readV9Body (j : JVal) : Option NV9Body :=
  match getTagged j with
  | none => none
  | some (t, v) =>
    if t = "Template" then (fieldArr "templates" readV9Template v).map .templates
    else if t = "OptionsTemplate" then (fieldArr "templates" readV9OptTemplate v).map .optTemplates
    else if t = "Data" then (fieldArr "fields" readRec v).map .data
    else if t = "OptionsData" then
      (match fieldArr "scope_fields" readScopeData v, fieldArr "options_fields" readOptionData v with
       | some ss, some os => some (.optData ss os)
       | _, _ => none)
    else none

def readV9Set (j : JVal) : Option NV9Set :=
  match field "header" j, fieldWith "body" readV9Body j with
  | some h, some b =>
    (match fieldWith "flowset_id" getNat h, fieldWith "length" getNat h with
     | some i, some l => some { id := i, len := l, body := b }
     | _, _ => none)
  | _, _ => none

/-! ### IPFIX sets -/

def readIpBody (j : JVal) : Option NIpBody :=
  match getTagged j with
  | none => none
  | some (t, v) =>
    if t = "Template" then
      (match fieldWith "template_id" getNat v, fieldWith "field_count" getNat v, fieldArr "fields" readTField v with
       | some i, some n, some fs => some (.template i n fs)
       | _, _, _ => none)
    else if t = "OptionsTemplate" then
      (match fieldWith "template_id" getNat v, fieldWith "field_count" getNat v, fieldWith "scope_field_count" getNat v,
             fieldArr "fields" readTField v with
       | some i, some n, some s, some fs => some (.optTemplate i n s fs)
       | _, _, _, _ => none)
    else if t = "Data" then (fieldArr "fields" readRec v).map .data
    else if t = "OptionsData" then (fieldArr "fields" readRec v).map .optData
    else none

def readIpSet (j : JVal) : Option NIpSet :=
  match field "header" j, fieldWith "body" readIpBody j with
  | some h, some b =>
    (match fieldWith "header_id" getNat h, fieldWith "length" getNat h with
     | some i, some l => some { id := i, len := l, body := b }
     | _, _ => none)
  | _, _ => none

/-! ### error elements -/

def readErrKind (j : JVal) : Option NErr :=
  match getTagged j with
  | none => none
  | some (t, v) =>
    if t = "Incomplete" then some .incomplete                     -- the message is free text: not read
    else if t = "Partial" then
      (match fieldWith "version" getNat v, fieldWith "remaining" getBytes v with
       | some n, some r => some (.partialParse n r)
       | _, _ => none)
    else if t = "UnknownVersion" then (getBytes v).map .unknownVersion
    else none

/-- a struct `{ header, flowsets }` -/
def readHdrSets {α β : Type} (rh : JVal → Option α) (rs : JVal → Option β) (v : JVal) : Option (α × List β) :=
  match fieldWith "header" rh v, fieldArr "flowsets" rs v with
  | some h, some ss => some (h, ss)
  | _, _ => none

end JRead

/-! ### the normal form OF a decoded packet (what `readJ` must return for its JSON) -/

/-- UTF-8 bytes of a string (what a JSON string carries) -/
def textOf (s : String) : Bytes := s.toUTF8.toList

/-- the variant name of discriminant `d` -/
def nameBytes (tbl : List (Nat × String)) (d : Nat) : Bytes := textOf ((tbl.lookup d).getD "?")

/-- one member of a derive(Nom) struct: the protocol enum by variant name, `Ipv4Addr` members as dotted text,
    every other member as its number -/
def normLField (nm : JNames) (f : LField) (v : Nat) : NVal :=
  match f.kind with
  | .protoOf _ => .text (nameBytes nm.proto v)
  | _ => if nm.ipv4Fields.contains f.name then .text (textOf (ip4Text v)) else .nat v

/-- a fixed-layout struct: the k-th Rust field name with the k-th decoded value -/
def normStruct (nm : JNames) (lay : Layout) (vals : List Nat) : NStruct :=
  (lay.zip vals).map fun p => (p.1.name, normLField nm p.1 p.2)

/-- the integer value of a `DataNumber` (its width tag forgotten) -/
def dnInt : DataNumber → Int
  | .u8 n | .u16 n | .u24 n | .u32 n | .u64 n | .u128 n => (n : Int)
  | .i24 z | .i32 z => z

def normFieldValue (nm : JNames) : FieldValue → NFieldValue
  | .str s => .str s
  | .num d => .num (dnInt d)
  | .f64 b => .f64 b
  | .dur s ns => .dur s ns
  | .ip4 n => .ip4 (textOf (ip4Text n))
  | .ip6 n => .ip6 (textOf (ip6Text n))
  | .mac raw => .mac (macText raw)
  | .vec b => .vec b
  | .proto d => .proto (nameBytes nm.proto d)
  | .unknown b => .unknown b

def normRecN (nm : JNames) (names : List (Nat × String)) (r : Rec) : NRec :=
  r.map fun e => (e.1, nameBytes names e.2.1, normFieldValue nm e.2.2)

def normTField (names : List (Nat × String)) (disc : Nat → Nat) (f : TField) : NTField :=
  { typ := f.typ, name := nameBytes names (disc f.typ), len := f.len, ent := none }

def normIpTField (c : Config) (nm : JNames) (f : IpTField) : NTField :=
  { typ := f.typ, name := nameBytes nm.ipField (ipFieldDisc c f), len := f.len, ent := f.ent }

/-- V9 set body; every `padding` is dropped -/
def normV9Body (c : Config) (nm : JNames) : V9Body → NV9Body
  | .templates ts _ => .templates (ts.map fun t =>
      { id := t.id, fieldCount := t.fieldCount, fields := t.fields.map (normTField nm.v9Field c.t.v9Field) })
  | .optTemplates ts _ => .optTemplates (ts.map fun t =>
      { id := t.id, scopeLen := t.scopeLen, optLen := t.optLen,
        scope := t.scope.map (normTField nm.scope c.t.scopeField),
        opts := t.opts.map (normTField nm.v9Field c.t.v9Field) })
  | .data recs _ => .data (recs.map (normRecN nm nm.v9Field))
  | .optData ss os _ => .optData (ss.map fun s => (scopeDataName s.1, s.2)) (os.map fun o => (nameBytes nm.v9Field o.1, o.2))

/-- IPFIX set body; every `padding` is dropped -/
def normIpBody (c : Config) (nm : JNames) : IpBody → NIpBody
  | .template t => .template t.id t.fieldCount (t.fields.map (normIpTField c nm))
  | .optTemplate t => .optTemplate t.id t.fieldCount t.scopeCount (t.fields.map (normIpTField c nm))
  | .data recs _ => .data (recs.map (normRecN nm nm.ipField))
  | .optData recs _ => .optData (recs.map (normRecN nm nm.ipField))

def normErr : ErrKind → NErr
  | .incomplete => .incomplete
  | .partialParse v rem => .partialParse v rem
  | .unknownVersion rem => .unknownVersion rem

/-- THE NORMAL FORM of a decoded packet: paddings dropped, `DataNumber` width tags collapsed to the integer,
    structs as (Rust field name, value) lists, text-valued leaves as their text, errors with their bytes -/
def normPkt (c : Config) (nm : JNames) : Packet → NormPkt
  | .v5 h rs => .v5 (normStruct nm c.t.v5Hdr h) (rs.map (normStruct nm c.t.v5Rec))
  | .v7 h rs => .v7 (normStruct nm c.t.v7Hdr h) (rs.map (normStruct nm c.t.v7Rec))
  | .v9 h ss => .v9 (normStruct nm c.t.v9Hdr h) (ss.map fun s => { id := s.id, len := s.len, body := normV9Body c nm s.body })
  | .ipfix h ss => .ipfix (normStruct nm c.t.ipHdr h) (ss.map fun s => { id := s.id, len := s.len, body := normIpBody c nm s.body })
  | .error k rem => .error (normErr k) rem

/-- the schema of a configuration: the field names of its six struct layouts -/
def schemaOf (c : Config) : Schema :=
  { v5Hdr := c.t.v5Hdr.map (·.name), v5Rec := c.t.v5Rec.map (·.name), v7Hdr := c.t.v7Hdr.map (·.name),
    v7Rec := c.t.v7Rec.map (·.name), v9Hdr := c.t.v9Hdr.map (·.name), ipHdr := c.t.ipHdr.map (·.name) }

open JRead in
/-- the reader of `NetflowPacket`: the variant by its tag, every member by its name -/
def readJ (sc : Schema) (j : JVal) : Option NormPkt :=
  match getTagged j with
  | none => none
  | some (t, v) =>
    if t = "V5" then (readHdrSets (readStruct sc.v5Hdr) (readStruct sc.v5Rec) v).map fun p => .v5 p.1 p.2
    else if t = "V7" then (readHdrSets (readStruct sc.v7Hdr) (readStruct sc.v7Rec) v).map fun p => .v7 p.1 p.2
    else if t = "V9" then (readHdrSets (readStruct sc.v9Hdr) readV9Set v).map fun p => .v9 p.1 p.2
    else if t = "IPFix" then (readHdrSets (readStruct sc.ipHdr) readIpSet v).map fun p => .ipfix p.1 p.2
    else if t = "Error" then
      (match fieldWith "error" readErrKind v, fieldWith "remaining" getBytes v with
       | some k, some r => some (.error k r)
       | _, _ => none)
    else none

end Netflow
