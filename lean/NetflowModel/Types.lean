/-
  Types.lean — decoded packet structures, parser state (template caches) and configuration.
-/
import NetflowModel.Layout
import NetflowModel.Value
namespace Netflow

/-! ### association maps kept sorted by key (canonical: equal maps are equal terms) -/

def amInsert {β : Type} (k : Nat) (v : β) : List (Nat × β) → List (Nat × β)
  | [] => [(k, v)]
  | (k', v') :: rest =>
    if k < k' then (k, v) :: (k', v') :: rest
    else if k = k' then (k, v) :: rest
    else (k', v') :: amInsert k v rest

def amErase {β : Type} (k : Nat) : List (Nat × β) → List (Nat × β)
  | [] => []
  | (k', v') :: rest => if k = k' then rest else (k', v') :: amErase k rest

def amLookup {β : Type} (k : Nat) : List (Nat × β) → Option β
  | [] => none
  | (k', v') :: rest => if k = k' then some v' else amLookup k rest

/-! ### templates -/

/-- V9 `TemplateField` / `OptionsTemplateScopeField`: number and declared length
    (the enum-typed `field_type` is a function of the number). -/
structure TField where
  typ : Nat
  len : Nat
  deriving Repr, DecidableEq

structure V9Template where
  id : Nat
  fieldCount : Nat
  fields : List TField
  deriving Repr, DecidableEq

structure V9OptTemplate where
  id : Nat
  scopeLen : Nat
  optLen : Nat
  scope : List TField
  opts : List TField
  deriving Repr, DecidableEq

/-- IPFIX `TemplateField`: `typ` is the number after the enterprise bit was cleared. -/
structure IpTField where
  typ : Nat
  len : Nat
  ent : Option Nat
  deriving Repr, DecidableEq

structure IpTemplate where
  id : Nat
  fieldCount : Nat
  fields : List IpTField
  pad : Bytes
  deriving Repr, DecidableEq

structure IpOptTemplate where
  id : Nat
  fieldCount : Nat
  scopeCount : Nat
  fields : List IpTField
  pad : Bytes
  deriving Repr, DecidableEq

/-- a decoded record entry: (index in the template, field enum discriminant, value) -/
abbrev Entry := Nat × Nat × FieldValue
/-- one `BTreeMap<usize,(Field,FieldValue)>` in ascending key order -/
abbrev Rec := List Entry

inductive V9Body where
  | templates (ts : List V9Template) (pad : Bytes)
  | optTemplates (ts : List V9OptTemplate) (pad : Bytes)
  | data (recs : List Rec) (pad : Bytes)
  | optData (scope : List (Nat × Bytes)) (opts : List (Nat × Bytes)) (pad : Bytes)
  deriving Repr, DecidableEq

structure V9Set where
  id : Nat
  len : Nat
  body : V9Body
  deriving Repr, DecidableEq

inductive IpBody where
  | template (t : IpTemplate)
  | optTemplate (t : IpOptTemplate)
  | data (recs : List Rec) (pad : Bytes)
  | optData (recs : List Rec) (pad : Bytes)
  deriving Repr, DecidableEq

structure IpSet where
  id : Nat
  len : Nat
  body : IpBody
  deriving Repr, DecidableEq

inductive ErrKind where
  | incomplete
  | partialParse (version : Nat) (remaining : Bytes)
  | unknownVersion (remaining : Bytes)
  deriving Repr, DecidableEq

/-- `NetflowPacket` -/
inductive Packet where
  | v5 (hdr : List Nat) (recs : List (List Nat))
  | v7 (hdr : List Nat) (recs : List (List Nat))
  | v9 (hdr : List Nat) (sets : List V9Set)
  | ipfix (hdr : List Nat) (sets : List IpSet)
  | error (kind : ErrKind) (remaining : Bytes)
  deriving Repr, DecidableEq

/-- the four template caches of one `NetflowParser` -/
structure PState where
  v9T : List (Nat × V9Template) := []
  v9O : List (Nat × V9OptTemplate) := []
  ipT : List (Nat × IpTemplate) := []
  ipO : List (Nat × IpOptTemplate) := []
  deriving Repr, DecidableEq

/-- which enum discriminants the converters look up (GENERATED from netflow_common.rs) -/
structure CommonKeys where
  src4 : Nat
  src6 : Nat
  dst4 : Nat
  dst6 : Nat
  sport : Nat
  dport : Nat
  proto : Nat
  first : Nat
  last : Nat
  smac : Nat
  dmac : Nat
  ts : String                       -- header field used as `timestamp`
  deriving Repr, DecidableEq

/-- Everything the model takes from the Rust source as data (GENERATED, see Generated.lean). -/
structure Tables where
  protoFromU8 : Nat → Nat           -- `From<u8> for ProtocolTypes` → discriminant
  protoToU8 : Nat → Nat             -- `From<ProtocolTypes> for u8`, by discriminant
  protoParse : Nat → Option Nat     -- derive(Nom) for the `repr(u8)` enum
  v9Field : Nat → Nat               -- `V9Field::from(u16)` → discriminant
  v9Ty : Nat → FType                -- `From<V9Field> for FieldDataType`, by discriminant
  scopeKnown : Nat → Bool           -- `ScopeFieldType::from(n)` is one of the five known variants
  scopeField : Nat → Nat            -- `ScopeFieldType::from(u16)` → discriminant
  ipField : Nat → Nat               -- `IPFixField::from(u16)` → discriminant
  ipTy : Nat → FType                -- `From<IPFixField> for FieldDataType`, by discriminant
  ipEnterprise : Nat                -- discriminant of `IPFixField::Enterprise`
  dnArms : DnArms
  v5Hdr : Layout
  v5Rec : Layout
  v7Hdr : Layout
  v7Rec : Layout
  v9Hdr : Layout
  v9SetHdr : Layout
  ipHdr : Layout
  ipSetHdr : Layout
  v5HdrOrder : List String          -- emission order of `V5::to_be_bytes` (header part)
  v5RecOrder : List String
  v7HdrOrder : List String
  v7RecOrder : List String
  v9HdrOrder : List String
  ipHdrOrder : List String
  v9TemplateId : Nat
  v9OptTemplateId : Nat
  ipOptTemplateId : Nat
  ipSetMinRange : Nat
  commonV9 : CommonKeys
  commonIp : CommonKeys
  dispatch : List (Nat × Nat)        -- `match version` arms: (literal, 5|7|9|10 = parser dispatched to)

structure Config where
  t : Tables
  allowed : List Nat
  unknownFields : Bool := true

def Config.vc (c : Config) : ValueCfg :=
  { dnArms := c.t.dnArms, protoParse := c.t.protoParse, protoToU8 := c.t.protoToU8, unknownFields := c.unknownFields }

end Netflow
