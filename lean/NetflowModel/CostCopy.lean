/-
  CostCopy.lean — two cost terms that `Cost.lean` does not have (C15).

  1. `copyCost` : bytes COPIED by `NetflowParser::parse_bytes` itself (src/lib.rs), following the
     control flow of `parseBytesF` step by step:
       * `let mut remaining = packet.to_vec();`                       |buf| bytes, once;
       * every packet that parses returns `ParsedNetflow::new(remaining, …)`, whose constructor does
         `remaining: remaining.to_vec()` — a copy of ALL bytes after that packet;
       * the error element: `NetflowPacketError.remaining` takes the loop's vector BY MOVE (no copy),
         but the error kind carries its own copy of the bytes after the version word
         (`PartialParse { remaining: packet.to_vec() }` in v5.rs/v7.rs/v9.rs/ipfix.rs,
         `UnknownVersion(packet.to_vec())` in lib.rs); `Incomplete(String)` copies no bytes.
  2. `maxFields` : the largest number of fields of a DATA template (V9 template, IPFIX template,
     IPFIX options template) in the cache or reported in the result of parsing the buffer, and the
     decidable invariants `FLe M st` / `FLePkts M pkts` ("no such template has more than `M` fields")
     used to prove the product bound of `Props/C15b.lean`.

  Core only.
-/
import NetflowModel.Cost
namespace Netflow.Cost
open Netflow

/-! ## 1. bytes copied by the packet loop -/

/-- bytes copied into the error kind (the bytes after the version word, for `Partial` and
    `UnknownVersion`) -/
def errCopy : ErrKind → Nat
  | .incomplete => 0
  | .partialParse _ rem => rem.length
  | .unknownVersion rem => rem.length

/-- copies made inside the loop of `parse_bytes`; same recursion as `parseBytesF` -/
def copyLoop (c : Config) : Nat → PState → Bytes → Nat
  | 0, _, _ => 0
  | fuel + 1, st, buf =>
    if buf.isEmpty then 0
    else
      match parsePacket c st buf with
      | (st', .ok _ rest) =>
        rest.length + (if rest.isEmpty then 0 else copyLoop c fuel st' rest)
      | (_, .fail e) => errCopy e
      | (_, .unallowed) => 0
      | (_, .panic) => 0
      | (_, .overflow) => 0

/-- bytes copied by one `parse_bytes` call: the initial `packet.to_vec()` plus the loop's copies -/
def copyCost (c : Config) (fuel : Nat) (st : PState) (buf : Bytes) : Nat :=
  buf.length + copyLoop c fuel st buf

/-- the packets of an outcome (whatever way the call ended) -/
def outPkts : Outcome → List Packet
  | .done ps => ps
  | .panic ps => ps
  | .overflow ps => ps

/-- number of elements returned by `parse_bytes` -/
def npkts (c : Config) (st : PState) (buf : Bytes) : Nat := (outPkts (parseBytes c st buf).2).length

/-! ### the extremal family: a buffer packed with header-only IPFIX messages -/

/-- an IPFIX message that is only its 16-byte header (version 10, length 16, zeros) -/
def hdrOnlyIpfix : Bytes := [0, 10, 0, 16, 0, 0, 0, 0, 0, 0, 0, 0, 0, 0, 0, 0]

/-- `n` header-only IPFIX messages -/
def packed : Nat → Bytes
  | 0 => []
  | n + 1 => hdrOnlyIpfix ++ packed n

/-- `Σ_{i<n} 16·(n-1-i)` -/
def packedCopies : Nat → Nat
  | 0 => 0
  | n + 1 => 16 * n + packedCopies n

/-- what the tables / the allowed set must satisfy for a header-only IPFIX message to parse
    (decidable; `decide` for `Generated.tables` with 10 allowed) -/
def packOk (c : Config) : Bool :=
  c.allowed.contains 10 && (c.t.dispatch.lookup 10 == some 10) &&
  (match parseLayout c.t.protoFromU8 c.t.ipHdr (hdrOnlyIpfix.drop 2) with
   | some (h, r) => r.isEmpty && (c.t.ipHdr.get "length" h == 16)
   | none => false) &&
  decide (1 ≤ c.t.ipSetHdr.wireLen)

/-! ## 2. the largest field count of a data template -/

def fleV9T (M : Nat) (t : V9Template) : Bool := decide (t.fields.length ≤ M)
def fleIpT (M : Nat) (t : IpTemplate) : Bool := decide (t.fields.length ≤ M)
def fleIpO (M : Nat) (t : IpOptTemplate) : Bool := decide (t.fields.length ≤ M)

/-- no cached data template has more than `M` fields (V9 options templates are not constrained:
    their data loops need a byte per value) -/
def FLe (M : Nat) (st : PState) : Bool :=
  st.v9T.all (fun e => fleV9T M e.2) && st.ipT.all (fun e => fleIpT M e.2) &&
  st.ipO.all (fun e => fleIpO M e.2)

def fleV9Body (M : Nat) : V9Body → Bool
  | .templates ts _ => ts.all (fleV9T M)
  | _ => true

def fleIpBody (M : Nat) : IpBody → Bool
  | .template t => fleIpT M t
  | .optTemplate t => fleIpO M t
  | _ => true

def flePkt (M : Nat) : Packet → Bool
  | .v9 _ ss => ss.all fun s => fleV9Body M s.body
  | .ipfix _ ss => ss.all fun s => fleIpBody M s.body
  | _ => true

/-- no data template REPORTED in the result has more than `M` fields -/
def FLePkts (M : Nat) (pkts : List Packet) : Bool := pkts.all (flePkt M)

/-- maximum of a list of numbers -/
def lmax : List Nat → Nat
  | [] => 0
  | x :: xs => max x (lmax xs)

/-- largest field count of a cached data template -/
def stateMaxFields (st : PState) : Nat :=
  max (lmax (st.v9T.map fun e => e.2.fields.length))
    (max (lmax (st.ipT.map fun e => e.2.fields.length)) (lmax (st.ipO.map fun e => e.2.fields.length)))

def v9BodyMaxFields : V9Body → Nat
  | .templates ts _ => lmax (ts.map fun t => t.fields.length)
  | _ => 0

def ipBodyMaxFields : IpBody → Nat
  | .template t => t.fields.length
  | .optTemplate t => t.fields.length
  | _ => 0

def pktMaxFields : Packet → Nat
  | .v9 _ ss => lmax (ss.map fun s => v9BodyMaxFields s.body)
  | .ipfix _ ss => lmax (ss.map fun s => ipBodyMaxFields s.body)
  | _ => 0

/-- largest field count of a data template reported in a result -/
def pktsMaxFields (pkts : List Packet) : Nat := lmax (pkts.map pktMaxFields)

/-- largest number of fields of a data template in the cache or announced in (= reported by the
    parse of) the buffer -/
def maxFields (c : Config) (st : PState) (buf : Bytes) : Nat :=
  max (stateMaxFields st) (pktsMaxFields (outPkts (parseBytes c st buf).2))

/-- the per-byte constant of the product bound -/
def fieldW (M : Nat) : Nat := 115 + 112 * M

end Netflow.Cost
