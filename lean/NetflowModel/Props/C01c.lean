/-
  Props/C01c.lean — C01, the clause "Every value it returns can then be … converted to the common
  form and serialized to JSON without a panic".

  The model functions `toCommon` (`NetflowCommon::try_from`) and `toJ` (`serde_json::to_value`) are
  total Lean functions, which by itself says nothing.  What makes the clause true of the Rust code is
  that on these two paths there is NO operation that can fail at run time except the ones the model
  keeps as explicit outcomes:
   * `NetflowCommon::try_from(&NetflowPacket)` has exactly one failing arm,
     `NetflowPacket::Error(_) => Err(UnknownVersion)`; every field conversion is
     `.and_then(|v| v.try_into().ok())` — an `Option`, modelled by `asU8`/`asU16`/`asU32`/`asIp`/
     `asString`, no `unwrap`, no indexing, no arithmetic.  `C01_common_total` is the exact statement:
     the common view is absent IFF the element is an error element; for the four packet kinds it is
     present with one flow per record (`C01_common_shape`), and in a parse result only the LAST
     element can be an error element (`C01_common_only_last_absent`).
   * derived `Serialize` fails only on non-string map keys and on a failing custom `serialize`; the
     model value `toJ` is a tree of objects with STRING member names, arrays, numbers and byte
     strings, and `C01_json_total_text` (= `C16_parse_results_text` under the C01 name, for the state
     reached by any history of earlier buffers) shows that the text printed for it is accepted by an
     RFC 8259 reader and reads back as that very tree — in particular every string in it is valid
     UTF-8 and every number literal is a JSON number.
  `C01_returned_values_convert_and_print` puts the three together for one `parse_bytes` call after any
  history.  Only new definitions/theorems.
-/
import NetflowModel.Props.C01
import NetflowModel.Props.C13
import NetflowModel.Props.C16b
import NetflowModel.Lemmas.A1Layout
namespace Netflow.Props
open Netflow Preds Netflow.JText Netflow.J1

/-! ### 1. the common view -/

/-- **C01, common view, exact totality**: `as_netflow_common` has no result IFF the element is an
    error element (`NetflowPacket::Error`) — the only `Err` arm of the Rust `try_from`. -/
theorem C01_common_total (c : Config) (p : Packet) : toCommon c p = none ↔ ∃ k r, p = .error k r :=
  ⟨C13_errors_only c p, fun ⟨k, r, e⟩ => by rw [e]; rfl⟩

/-- for the four packet kinds the view exists and has one flow per V5/V7 record resp. per decoded
    V9 data record / IPFIX per-field map: nothing is dropped, nothing can make the conversion stop -/
theorem C01_common_shape (c : Config) (p : Packet) :
    match p with
    | .v5 _ rs => ∃ cm, toCommon c p = some cm ∧ cm.flows.length = rs.length
    | .v7 _ rs => ∃ cm, toCommon c p = some cm ∧ cm.flows.length = rs.length
    | .v9 _ ss => ∃ cm, toCommon c p = some cm ∧ cm.flows.length = (v9DataRecs ss).length
    | .ipfix _ ss => ∃ cm, toCommon c p = some cm ∧ cm.flows.length = (ipDataRecs ss).length
    | .error _ _ => toCommon c p = none := by
  cases p <;> simp [toCommon]

/-- every field conversion of the view is an `Option`: a value of a kind the converter does not
    accept gives an absent attribute, never a failure (the model counterpart of `try_into().ok()`) -/
theorem C01_common_conversions_total (v : FieldValue) :
    (asU8 v = none ∨ ∃ n, v = .num (.u8 n) ∧ asU8 v = some n) ∧
    (asU16 v = none ∨ ∃ n, v = .num (.u16 n) ∧ asU16 v = some n) ∧
    (asU32 v = none ∨ ∃ n, v = .num (.u32 n) ∧ asU32 v = some n) ∧
    (asIp v = none ∨ (∃ n, v = .ip4 n) ∨ (∃ n, v = .ip6 n)) ∧
    (asString v = none ∨ (∃ s, v = .str s) ∨ (∃ m, v = .mac m)) := by
  refine ⟨?_, ?_, ?_, ?_, ?_⟩
  · cases v with
    | num d => cases d <;> simp [asU8]
    | _ => simp [asU8]
  · cases v with
    | num d => cases d <;> simp [asU16]
    | _ => simp [asU16]
  · cases v with
    | num d => cases d <;> simp [asU32]
    | _ => simp [asU32]
  · cases v <;> simp [asIp]
  · cases v <;> simp [asString]

/-- a packet returned by `parse_packet_by_version` is never an error element, so it converts -/
theorem C01_common_of_returned_packet (c : Config) (st st' : PState) (buf : Bytes) (pkt : Packet) (rest : Bytes)
    (h : parsePacket c st buf = (st', .ok pkt rest)) : ∃ cm, toCommon c pkt = some cm := by
  obtain ⟨v, kind, _, _, _, hpv⟩ := parsePacket_ok_inv c st st' buf pkt rest h
  rcases parseVersioned_ok_inv_a1 c st st' kind _ _ rest hpv with ⟨_, _, _, _, e, _⟩ | ⟨_, _, _, _, e, _⟩ | ⟨_, _, e⟩ | ⟨_, _, e⟩ <;>
    (subst e; exact ⟨_, rfl⟩)

/-- in a parse result only the LAST element can lack a common view (every fuel) -/
theorem C01_common_only_last_absent_fuel (c : Config) :
    ∀ (fuel : Nat) (st st' : PState) (buf : Bytes) (pkts : List Packet),
      parseBytesF c fuel st buf = (st', .done pkts) → ∀ p ∈ pkts.dropLast, ∃ cm, toCommon c p = some cm := by
  intro fuel
  induction fuel with
  | zero => intro st st' buf pkts h; simp [parseBytesF] at h
  | succ fuel ih =>
    intro st st' buf pkts h
    unfold parseBytesF at h
    by_cases he : buf.isEmpty = true
    · simp only [he, ↓reduceIte, Prod.mk.injEq, Outcome.done.injEq] at h
      rw [← h.2]; simp
    · simp only [he, Bool.false_eq_true, ↓reduceIte] at h
      cases hp : parsePacket c st buf with
      | mk st1 step =>
        simp only [hp] at h
        cases step with
        | ok pkt rest =>
          have hpk := C01_common_of_returned_packet c st st1 buf pkt rest hp
          simp only at h
          by_cases hre : rest.isEmpty = true
          · simp only [hre, ↓reduceIte, Prod.mk.injEq, Outcome.done.injEq] at h
            rw [← h.2]; simp
          · simp only [hre, Bool.false_eq_true, ↓reduceIte] at h
            cases hrec : parseBytesF c fuel st1 rest with
            | mk st2 out =>
              simp only [hrec, Prod.mk.injEq] at h
              cases out with
              | done ps =>
                simp only [Outcome.cons, Outcome.done.injEq] at h
                have hih := ih _ _ _ _ hrec
                rw [← h.2]
                intro p hp'
                cases ps with
                | nil => simp at hp'
                | cons q qs =>
                  rw [List.dropLast_cons_cons] at hp'
                  rcases List.mem_cons.mp hp' with e | hm
                  · rw [e]; exact hpk
                  · exact hih p hm
              | panic ps => simp [Outcome.cons] at h
              | overflow ps => simp [Outcome.cons] at h
        | fail e =>
          simp only [Prod.mk.injEq, Outcome.done.injEq] at h
          rw [← h.2]; simp
        | unallowed =>
          simp only [Prod.mk.injEq, Outcome.done.injEq] at h
          rw [← h.2]; simp
        | panic => simp at h
        | overflow => simp at h

/-- **C01, common view of a parse result**: every element of the list `parse_bytes` returns converts,
    except possibly the last one, and that one fails to convert exactly when it is the error element
    that reports the undecodable rest of the buffer. -/
theorem C01_common_only_last_absent (c : Config) (st st' : PState) (buf : Bytes) (pkts : List Packet)
    (h : parseBytes c st buf = (st', .done pkts)) :
    (∀ p ∈ pkts.dropLast, ∃ cm, toCommon c p = some cm) ∧
    (∀ p ∈ pkts, toCommon c p = none ↔ ∃ k r, p = .error k r) :=
  ⟨C01_common_only_last_absent_fuel c _ _ _ _ _ h, fun p _ => C01_common_total c p⟩

/-- the flattening helper `parse_bytes_as_netflow_common_flowsets` is total in the same sense: it is
    the in-order concatenation of the flows of the elements that convert, error elements contribute
    nothing and do not stop it -/
theorem C01_common_flat_total (c : Config) (pkts : List Packet) :
    commonFlat c pkts = (pkts.filterMap (toCommon c)).flatMap (·.flows) ∧
    ∀ k r, commonFlat c (pkts ++ [.error k r]) = commonFlat c pkts := by
  refine ⟨C13_flat c pkts, fun k r => ?_⟩
  simp [commonFlat, toCommon]

/-! ### 2. JSON -/

/-- **C01, JSON text of every returned value, after any history of earlier buffers.**
    (`C16_parse_results_text` restated under the C01 name.)  `hist` is any list of buffers given to the
    same parser before; `buf` the buffer of this call; `ps` what the call returns.  For EVERY element `p`
    of `ps` — decoded packets and the error element alike — the text the modelled writer prints for
    `serde_json::to_value(p)` is well-formed JSON (the RFC 8259 reader accepts it and reads back the very
    tree of the value) and the ordered matcher accepts it.  The only hypothesis, `hfp`, specifies a
    PARAMETER of the model (the float printer / float reader pair), it is vacuous for values without
    finite floats. -/
theorem C01_json_total_text (c : Config) (nm : JNames) (hist : List Bytes) (buf : Bytes) (st' : PState) (ps : List Packet)
    (hparse : parseBytes c (hist.foldl (fun st b => (parseBytes c st b).1) {}) buf = (st', .done ps))
    (isFinite : Nat → Bool) (fmatch : Nat → List Char → Bool) (fp : Nat → List Char)
    (hfp : ∀ bits, isFinite bits = true → fmatch bits (fp bits) = true ∧ numOk (fp bits) = true) :
    ∀ p ∈ ps,
      parseJ (printTree (treeOf isFinite fp decUtf8 (toJ c nm p))) = some (treeOf isFinite fp decUtf8 (toJ c nm p)) ∧
      jmatchT isFinite fmatch (toJ c nm p) (treeOf isFinite fp decUtf8 (toJ c nm p)) = true :=
  C16_parse_results_text c nm _ st' buf ps hparse isFinite fmatch fp hfp

/-- every string leaf of the JSON value of every returned element is valid UTF-8 (the one thing a
    `String` serializer relies on), again after any history -/
theorem C01_json_strings_valid (c : Config) (nm : JNames) (hist : List Bytes) (buf : Bytes) (st' : PState)
    (ps : List Packet)
    (hparse : parseBytes c (hist.foldl (fun st b => (parseBytes c st b).1) {}) buf = (st', .done ps)) :
    ∀ p ∈ ps, Leaves (fun _ => True) ValidUtf8 (toJ c nm p) :=
  parseBytes_leaves c nm _ st' buf ps hparse

/-! ### 3. the clause as a whole -/

/-- **C01, "every value it returns can be converted to the common form and serialized to JSON"**, for
    one call after any history of earlier buffers, any configuration: the call returns a list, and for
    every element of it (1) the common view is present unless the element is an error element, which
    only the last one can be, (2) its JSON text is well-formed and reads back as the value. -/
theorem C01_returned_values_convert_and_print (c : Config) (nm : JNames) (hist : List Bytes) (buf : Bytes)
    (isFinite : Nat → Bool) (fmatch : Nat → List Char → Bool) (fp : Nat → List Char)
    (hfp : ∀ bits, isFinite bits = true → fmatch bits (fp bits) = true ∧ numOk (fp bits) = true) :
    ∃ st' ps, parseBytes c (hist.foldl (fun st b => (parseBytes c st b).1) {}) buf = (st', .done ps) ∧
      (∀ p ∈ ps.dropLast, ∃ cm, toCommon c p = some cm) ∧
      (∀ p ∈ ps, (toCommon c p = none ↔ ∃ k r, p = .error k r) ∧
        parseJ (printTree (treeOf isFinite fp decUtf8 (toJ c nm p))) = some (treeOf isFinite fp decUtf8 (toJ c nm p)) ∧
        jmatchT isFinite fmatch (toJ c nm p) (treeOf isFinite fp decUtf8 (toJ c nm p)) = true) := by
  obtain ⟨ps, hps⟩ := C01_returns_after_history c hist buf
  have hparse : parseBytes c (hist.foldl (fun st b => (parseBytes c st b).1) {}) buf =
      ((parseBytes c (hist.foldl (fun st b => (parseBytes c st b).1) {}) buf).1, .done ps) := Prod.ext rfl hps
  refine ⟨_, ps, hparse, (C01_common_only_last_absent c _ _ buf ps hparse).1, fun p hp => ⟨C01_common_total c p, ?_⟩⟩
  exact C01_json_total_text c nm hist buf _ ps hparse isFinite fmatch fp hfp p hp

/-! ### non-vacuity -/

/-- a history of two earlier buffers (a V9 template packet, garbage), then the C16 witness buffer plus a
    truncated V5 header: the call returns the V9 packet AND a final error element; the first converts,
    the second does not (evaluated) -/
example :
    let hist : List Bytes := [[0, 9, 0, 1, 0, 0, 0, 1, 0, 0, 0, 2, 0, 0, 0, 3, 0, 0, 0, 4, 0, 0, 0, 12, 1, 0, 0, 1, 0, 1, 0, 3], [1, 2, 3]]
    let st := hist.foldl (fun st b => (parseBytes jsonCfg st b).1) {}
    (parseBytes jsonCfg st (c16bPacketBytes ++ [0, 5, 0, 1])).2 =
      .done [c16bPacket, .error (.partialParse 5 [0, 1]) [0, 5, 0, 1]] ∧
    (toCommon jsonCfg c16bPacket).isSome = true ∧
    toCommon jsonCfg (.error (.partialParse 5 [0, 1]) [0, 5, 0, 1]) = none := by
  decide +kernel

/-- the shape clause evaluated on that V9 packet: one data record, one flow -/
example : (toCommon jsonCfg c16bPacket).map (·.flows.length) = some 1 := by decide +kernel

end Netflow.Props
