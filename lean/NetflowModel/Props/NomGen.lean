/-
  Props/NomGen.lean — C04 / C05 / C06: the TEMPLATE-RECORD parsers are the ones the source declares.

  `Generated.nomStructs` lists, field by field, what nom-derive generates for the nine template-record structs of v9.rs / ipfix.rs
  (read by tools/translate_nom.py on this run: field order, integer widths, `Value`, `Count` expressions, the `Cond`/`PostExec` pair of the
  enterprise number, `Vec<T>` = many0, `Vec<u8>` = rest).  `structP` interprets such a table with the model's own `beU` / `countP` / `many0`.
  The theorems say that for the regenerated table the interpretation IS the hand-written parser (as a function, for every input), in the
  tree view the exporter programs use.  Swapping two fields of `TemplateField`, widening `template_id`, `options_length / 4` → `/ 2`,
  `> 32767` → `>=`, dropping the `PostExec` … regenerate a different table and these theorems stop checking.
-/
import NetflowModel.Lemmas.G4Nom
namespace Netflow.Props
open Netflow Netflow.G4

/-- V9 field specifier and scope field specifier -/
theorem C04_nom_v9_field (k : Nat) :
    structP Generated.nomStructs (k + 1) "v9::TemplateField" = pmap treeOfTField parseTField ∧
    structP Generated.nomStructs (k + 1) "v9::OptionsTemplateScopeField" = pmap treeOfTField parseTField := tfield_struct k

/-- V9 template record -/
theorem C04_nom_v9_template (k : Nat) :
    structP Generated.nomStructs (k + 2) "v9::Template" = pmap treeOfV9Template parseV9Template := v9template_struct k

/-- V9 options template record -/
theorem C04_nom_v9_opt_template (k : Nat) :
    structP Generated.nomStructs (k + 2) "v9::OptionsTemplate" = pmap treeOfV9OptTemplate parseV9OptTemplate := v9opttemplate_struct k

/-- the body of a V9 template flowset, as `FlowSetBody::parse` hands it to `Templates::parse`: the regenerated struct parser returns
    exactly the template list and padding that `v9ParseBody` reports and caches -/
theorem C04_nom_v9_template_flowset (c : Config) (st : PState) (body : Bytes) (k : Nat) :
    (match structP Generated.nomStructs (k + 3) "v9::Templates" body with
     | some (t, _) => some t
     | none => none) =
    (match v9ParseBody c st c.t.v9TemplateId body with
     | (_, .ok b) => some (match treeOfV9Body b with | .variant _ t => t | t => t)
     | _ => none) := by
  rw [v9templates_struct]
  simp only [v9ParseBody, if_true]
  cases many0 parseV9Template body with
  | ok x => obtain ⟨ts, pad⟩ := x; rfl
  | err => rfl
  | outOfFuel => rfl

/-- **C06** side: what that flowset teaches the cache is `insertV9Templates` of exactly the records the regenerated parser returns -/
theorem C06_nom_v9_templates_cached (c : Config) (st : PState) (body : Bytes) (ts : List V9Template) (pad : Bytes)
    (h : many0 parseV9Template body = .ok (ts, pad)) :
    structP Generated.nomStructs 3 "v9::Templates" body =
      some (.struct [("templates", .list (ts.map treeOfV9Template)), ("padding", .bytes pad)], []) ∧
    v9ParseBody c st c.t.v9TemplateId body = (insertV9Templates st ts, .ok (.templates ts pad)) := by
  constructor
  · rw [v9templates_struct 0, h]
  · simp only [v9ParseBody, if_true, h]

/-- IPFIX field specifier, with the enterprise bit: `Cond = number > 32767`, the PostExec clears the bit in the stored number -/
theorem C05_nom_ipfix_field (k : Nat) :
    structP Generated.nomStructs (k + 1) "ipfix::TemplateField" = pmap treeOfIpTField parseIpTField := iptfield_struct k

/-- IPFIX template record (greedy field list, `field_count` not used to delimit) -/
theorem C05_nom_ipfix_template (k : Nat) (i : Bytes) :
    structP Generated.nomStructs (k + 2) "ipfix::Template" i =
      (match parseIpTemplate i with | .ok t => some (treeOfIpTemplate t, []) | _ => none) := iptemplate_struct k i

/-- IPFIX options template record (`scope_field_count.saturating_add(field_count.checked_sub(scope).unwrap_or(field_count))` fields) -/
theorem C05_nom_ipfix_opt_template (k : Nat) (i : Bytes) :
    structP Generated.nomStructs (k + 2) "ipfix::OptionsTemplate" i =
      (match parseIpOptTemplate i with | .ok t => some (treeOfIpOptTemplate t, []) | _ => none) := ipopttemplate_struct k i

/-- non-vacuity: the regenerated programs parse a concrete V9 template record and an IPFIX enterprise field specifier -/
example :
    structP Generated.nomStructs 2 "v9::Template" [1, 0, 0, 2, 0, 1, 0, 4, 0, 7, 0, 2, 9] =
      some (.struct [("template_id", .num 256), ("field_count", .num 2),
                     ("fields", .list [.struct [("field_type_number", .num 1), ("field_length", .num 4)],
                                       .struct [("field_type_number", .num 7), ("field_length", .num 2)]])], [9]) ∧
    structP Generated.nomStructs 1 "ipfix::TemplateField" [0x80, 5, 0, 4, 0, 0, 0x72, 0x79] =
      some (.struct [("field_type_number", .num 5), ("field_length", .num 4), ("enterprise_number", .some (.num 29305))], []) := by
  constructor <;> rfl

end Netflow.Props
