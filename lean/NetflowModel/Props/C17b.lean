/-
  Props/C17b.lean — C17, the two oracle clauses added after Props/C17.lean:

  1. `Findings.noRecordsOfUnknownTemplates c before after pkts` (flag off: a data set governed by a template
     with an unknown-typed field reports no record; the governing template is tracked by the predicate
     itself from the caches `before` through the template sets REPORTED in `pkts`).
       `C17_no_records_of_unknown_templates`      — for EVERY state and buffer, no hypothesis at all
       `C17_no_records_of_unknown_templates_wf`   — the same under `StateWf` (the form that was asked for)
       `C17_no_records_of_unknown_templates_history` — along any history of calls, `before` = the caches the
                                                      previous call left
     The suspected counterexample (a V9 packet that fails midway caches templates that are never reported)
     does NOT break the statement: a failing packet ENDS the call (`parseBytesF` returns
     `[… , .error e buf]`), so nothing is decoded after it within the call, and at the next call the
     predicate starts again from the real caches.  What the predicate must NOT be given is a stale `before`
     (`C17_stale_before_fails` : with the caches of two calls earlier it is false on the model).

  2. the V9 caches never depend on the flag:
       `C17_v9_caches_same`            — same start state, one call
       `C17_v9_caches_same_from`       — start states that agree on the V9 caches (the IPFIX caches may differ)
       `C17_v9_caches_same_history`    — any history of calls
       `C17_packet_boundary_same`, `C17_ipfix_boundary_same` — both builds see the same packet boundaries
     Side condition on the tables: the IPFIX set header occupies bytes (`0 < c.t.ipSetHdr.wireLen`, as in
     `C17_known_only_same`; true of the generated tables).  Without it an IPFIX message could fail in one
     build only (the `many0` no-progress error), and the builds would stop at different packets.

  Helper lemmas: Lemmas/C1xOracles.lean.
-/
import NetflowModel.Lemmas.C1xOracles
import NetflowModel.Props.C17
namespace Netflow.Props
open Netflow Netflow.C1x

/-! ### 1. `noRecordsOfUnknownTemplates` -/

/-- **C17 (oracle clause).**  With the feature off, whatever the caches `st` and the buffer: the packets
    returned satisfy `Findings.noRecordsOfUnknownTemplates` started from `st`.  No hypothesis (the caches
    need not even be key-sorted: the predicate's bookkeeping only ever has to be right where it HAS an
    entry, see `C1x.Corr`). -/
theorem C17_no_records_of_unknown_templates (c : Config) (st st' : PState) (buf : Bytes) (pkts : List Packet)
    (h : parseBytes { c with unknownFields := false } st buf = (st', .done pkts)) :
    Findings.noRecordsOfUnknownTemplates c st st' pkts = true := by
  rw [noRecords_eq]
  exact noRecords_parseBytesF c _ st st' buf pkts _ true (corr_init c st) h

/-- the form that was planned: for well-formed (key-sorted) caches — every reachable state is
    (`C06_state_wf`).  The hypothesis is not used. -/
theorem C17_no_records_of_unknown_templates_wf (c : Config) (st st' : PState) (buf : Bytes) (pkts : List Packet)
    (_hwf : StateWf st)
    (h : parseBytes { c with unknownFields := false } st buf = (st', .done pkts)) :
    Findings.noRecordsOfUnknownTemplates c st st' pkts = true :=
  C17_no_records_of_unknown_templates c st st' buf pkts h

/-- the predicate evaluated with the configuration of the build under test (the predicate reads only the
    tables) -/
theorem C17_no_records_of_unknown_templates_off (c : Config) (st st' : PState) (buf : Bytes) (pkts : List Packet)
    (h : parseBytes { c with unknownFields := false } st buf = (st', .done pkts)) :
    Findings.noRecordsOfUnknownTemplates { c with unknownFields := false } st st' pkts = true :=
  C17_no_records_of_unknown_templates c st st' buf pkts h

/-- the caches after a history of `parse_bytes` calls on one parser -/
def c17Run (c : Config) (st : PState) (bufs : List Bytes) : PState :=
  bufs.foldl (fun s b => (parseBytes c s b).1) st

/-- along any history of calls (from any start state): the predicate holds of every call when `before`
    is what the previous calls left in the caches -/
theorem C17_no_records_of_unknown_templates_history (c : Config) (st0 : PState) (bufs : List Bytes) (buf : Bytes)
    (st' : PState) (pkts : List Packet)
    (h : parseBytes { c with unknownFields := false } (c17Run { c with unknownFields := false } st0 bufs) buf =
      (st', .done pkts)) :
    Findings.noRecordsOfUnknownTemplates c (c17Run { c with unknownFields := false } st0 bufs) st' pkts = true :=
  C17_no_records_of_unknown_templates c _ st' buf pkts h

/-! ### 2. the V9 caches do not depend on the flag -/

/-- both builds see the same packet boundaries: whether the packet at the head of `buf` is accepted,
    rejected or not allowed, and where the next one starts, is the same in the two builds — from ANY two
    states that agree on the V9 caches (`stepKind` forgets the decoded packet, keeps the rest). -/
theorem C17_packet_boundary_same (c : Config) (hw : 0 < c.t.ipSetHdr.wireLen) (s1 s2 : PState) (buf : Bytes)
    (h : AgreeV9 s1 s2) :
    stepKind (parsePacket { c with unknownFields := false } s1 buf).2 =
      stepKind (parsePacket { c with unknownFields := true } s2 buf).2 ∧
    AgreeV9 (parsePacket { c with unknownFields := false } s1 buf).1 (parsePacket { c with unknownFields := true } s2 buf).1 :=
  ⟨(parsePacket_kind c hw false true s1 s2 buf h).2, (parsePacket_kind c hw false true s1 s2 buf h).1⟩

/-- an IPFIX message is consumed by `take(length - 16)` whatever happens inside: acceptance and the rest
    are a function of the bytes alone (`ipfixKind`), for every state and both values of the flag; and the
    message never touches the V9 caches -/
theorem C17_ipfix_boundary_same (c : Config) (hw : 0 < c.t.ipSetHdr.wireLen) (s1 s2 : PState) (i : Bytes) :
    resKind (parseIpfix { c with unknownFields := false } s1 i).2 = ipfixKind c i ∧
    resKind (parseIpfix { c with unknownFields := true } s2 i).2 = ipfixKind c i ∧
    AgreeV9 (parseIpfix { c with unknownFields := false } s1 i).1 s1 ∧
    AgreeV9 (parseIpfix { c with unknownFields := true } s2 i).1 s2 :=
  ⟨parseIpfix_kind (B2.flag c false) hw s1 i, parseIpfix_kind (B2.flag c true) hw s2 i,
   parseIpfix_v9_frame _ s1 i, parseIpfix_v9_frame _ s2 i⟩

/-- **C17 (oracle clause `v9Same`)**, general form: from start states that agree on the two V9 caches (their
    IPFIX caches may differ — they do once the flag-off build has dropped sets), one call leaves V9 caches
    that agree again. -/
theorem C17_v9_caches_same_from (c : Config) (hw : 0 < c.t.ipSetHdr.wireLen) (s1 s2 : PState) (buf : Bytes)
    (h : s1.v9T = s2.v9T ∧ s1.v9O = s2.v9O) :
    (parseBytes { c with unknownFields := false } s1 buf).1.v9T = (parseBytes { c with unknownFields := true } s2 buf).1.v9T ∧
    (parseBytes { c with unknownFields := false } s1 buf).1.v9O = (parseBytes { c with unknownFields := true } s2 buf).1.v9O :=
  parseBytesF_v9_agree c hw false true _ s1 s2 buf h

/-- **C17 (oracle clause `v9Same`)**: same start state, every buffer. -/
theorem C17_v9_caches_same (c : Config) (hw : 0 < c.t.ipSetHdr.wireLen) (st : PState) (buf : Bytes) :
    (parseBytes { c with unknownFields := false } st buf).1.v9T = (parseBytes { c with unknownFields := true } st buf).1.v9T ∧
    (parseBytes { c with unknownFields := false } st buf).1.v9O = (parseBytes { c with unknownFields := true } st buf).1.v9O :=
  C17_v9_caches_same_from c hw st st buf ⟨rfl, rfl⟩

/-- … and after every history of calls -/
theorem C17_v9_caches_same_history (c : Config) (hw : 0 < c.t.ipSetHdr.wireLen) (bufs : List Bytes) :
    ∀ (s1 s2 : PState), (s1.v9T = s2.v9T ∧ s1.v9O = s2.v9O) →
      (c17Run { c with unknownFields := false } s1 bufs).v9T = (c17Run { c with unknownFields := true } s2 bufs).v9T ∧
      (c17Run { c with unknownFields := false } s1 bufs).v9O = (c17Run { c with unknownFields := true } s2 bufs).v9O := by
  induction bufs with
  | nil => intro s1 s2 h; exact h
  | cons b bs ih =>
    intro s1 s2 h
    simp only [c17Run, List.foldl_cons]
    exact ih _ _ (C17_v9_caches_same_from c hw s1 s2 b h)

/-! ### 3. the generated tables -/

theorem C17_generated_no_records_of_unknown_templates (allowed : List Nat) (st st' : PState) (buf : Bytes)
    (pkts : List Packet) (h : parseBytes (C17cfg allowed false) st buf = (st', .done pkts)) :
    Findings.noRecordsOfUnknownTemplates (C17cfg allowed false) st st' pkts = true :=
  C17_no_records_of_unknown_templates (C17cfg allowed false) st st' buf pkts h

theorem C17_generated_v9_caches_same (allowed : List Nat) (st : PState) (buf : Bytes) :
    (parseBytes (C17cfg allowed false) st buf).1.v9T = (parseBytes (C17cfg allowed true) st buf).1.v9T ∧
    (parseBytes (C17cfg allowed false) st buf).1.v9O = (parseBytes (C17cfg allowed true) st buf).1.v9O :=
  C17_v9_caches_same (C17cfg allowed true) (show 0 < Generated.tables.ipSetHdr.wireLen by decide) st buf

theorem C17_generated_v9_caches_same_history (allowed : List Nat) (bufs : List Bytes) (st : PState) :
    (c17Run (C17cfg allowed false) st bufs).v9T = (c17Run (C17cfg allowed true) st bufs).v9T ∧
    (c17Run (C17cfg allowed false) st bufs).v9O = (c17Run (C17cfg allowed true) st bufs).v9O :=
  C17_v9_caches_same_history (C17cfg allowed true) (show 0 < Generated.tables.ipSetHdr.wireLen by decide) bufs st st ⟨rfl, rfl⟩

/-! ### witnesses -/

/-- V9 template flowsets for id 256: field 600 / 4 (type `Unknown`) resp. IN_BYTES / 4 -/
def c17bTU : Bytes := [0, 0, 0, 12, 1, 0, 0, 1, 2, 88, 0, 4]
def c17bTK : Bytes := [0, 0, 0, 12, 1, 0, 0, 1, 0, 1, 0, 4]
/-- data flowset for 256, one 4-byte record -/
def c17bD256 : Bytes := [1, 0, 0, 8, 0xde, 0xad, 0xbe, 0xef]
/-- data flowset for 999 (never defined) -/
def c17bD999 : Bytes := [3, 231, 0, 8, 1, 2, 3, 4]

/-- two V9 packets in ONE buffer: [template 256 unknown-typed][data 256], then [template 256 known][data 256] -/
def c17bTwo : Bytes := c17Hdr9 2 ++ c17bTU ++ c17bD256 ++ c17Hdr9 2 ++ c17bTK ++ c17bD256

/-- the predicate is not trivially true, and it follows the templates through the call: on `c17bTwo` the
    flag-off output has no record under the unknown-typed template and one under its redefinition, and
    satisfies the predicate; the flag-on output (a record under the unknown-typed template) violates it -/
example :
    (parseBytes (C17cfg [5, 7, 9, 10] false) {} c17bTwo).2 =
      .done [.v9 [9, 2, 1, 2, 3, 4] [⟨0, 12, .templates [⟨256, 1, [⟨600, 4⟩]⟩] []⟩, ⟨256, 8, .data [] [0xde, 0xad, 0xbe, 0xef]⟩],
             .v9 [9, 2, 1, 2, 3, 4] [⟨0, 12, .templates [⟨256, 1, [⟨1, 4⟩]⟩] []⟩,
                                      ⟨256, 8, .data [[(0, 1, .num (.u32 3735928559))]] []⟩]] ∧
    Findings.noRecordsOfUnknownTemplates (C17cfg [5, 7, 9, 10] false) {} {}
      (c17Pkts (parseBytes (C17cfg [5, 7, 9, 10] false) {} c17bTwo).2) = true ∧
    Findings.noRecordsOfUnknownTemplates (C17cfg [5, 7, 9, 10] false) {} {}
      (c17Pkts (parseBytes (C17cfg [5, 7, 9, 10] true) {} c17bTwo).2) = false := by
  decide +kernel

/-- from a NON-empty start state that already caches an unknown-typed template (V9 and IPFIX): the data
    flowset alone; `before` matters (with `before := {}` nothing would be demanded) -/
example :
    let st : PState := { v9T := [(256, ⟨256, 1, [⟨600, 4⟩]⟩)], ipT := [(256, ⟨256, 1, [⟨600, 4, none⟩], []⟩)] }
    StateWf st ∧
    (parseBytes (C17cfg [5, 7, 9, 10] false) st (c17Hdr9 1 ++ c17bD256)).2 =
      .done [.v9 [9, 1, 1, 2, 3, 4] [⟨256, 8, .data [] [0xde, 0xad, 0xbe, 0xef]⟩]] ∧
    Findings.noRecordsOfUnknownTemplates (C17cfg [5, 7, 9, 10] false) st st
      (c17Pkts (parseBytes (C17cfg [5, 7, 9, 10] true) st (c17Hdr9 1 ++ c17bD256)).2) = false ∧
    (parseBytes (C17cfg [5, 7, 9, 10] false) st ([0, 10, 0, 24, 0, 0, 0, 1, 0, 0, 0, 2, 0, 0, 0, 3] ++ c17bD256)).2 =
      .done [.ipfix [10, 24, 1, 2, 3] []] := by
  refine ⟨by simp [StateWf, amSorted], ?_⟩
  decide +kernel

/-- the suspected counterexample, played through.  Call 1 reports template 256 (unknown-typed).  Call 2 is a
    V9 packet [template 256 (known)] [data 999 — never defined]: it fails, is reported as the final error
    element, and leaves the KNOWN template cached without ever reporting it.  Call 3 [data 256] decodes a
    record.  The predicate holds of every call when `before` is the real cache … -/
example :
    let cOff := C17cfg [5, 7, 9, 10] false
    let b1 := c17Hdr9 1 ++ c17bTU
    let b2 := c17Hdr9 2 ++ c17bTK ++ c17bD999
    let b3 := c17Hdr9 1 ++ c17bD256
    let s1 := (parseBytes cOff {} b1).1
    let s2 := (parseBytes cOff s1 b2).1
    c17Pkts (parseBytes cOff s1 b2).2 = [.error (.partialParse 9 (b2.drop 2)) b2] ∧
    s1.v9T = [(256, ⟨256, 1, [⟨600, 4⟩]⟩)] ∧ s2.v9T = [(256, ⟨256, 1, [⟨1, 4⟩]⟩)] ∧
    (parseBytes cOff s2 b3).2 = .done [.v9 [9, 1, 1, 2, 3, 4] [⟨256, 8, .data [[(0, 1, .num (.u32 3735928559))]] []⟩]] ∧
    Findings.noRecordsOfUnknownTemplates cOff {} s1 (c17Pkts (parseBytes cOff {} b1).2) = true ∧
    Findings.noRecordsOfUnknownTemplates cOff s1 s2 (c17Pkts (parseBytes cOff s1 b2).2) = true ∧
    Findings.noRecordsOfUnknownTemplates cOff s2 s2 (c17Pkts (parseBytes cOff s2 b3).2) = true := by
  decide +kernel

/-- … but NOT when `before` is stale (here: the caches of one call earlier, i.e. what a tracker fed only by
    REPORTED templates would believe): the runtime oracle must pass the caches as they are when the call
    starts. -/
theorem C17_stale_before_fails :
    let cOff := C17cfg [5, 7, 9, 10] false
    let s1 := (parseBytes cOff {} (c17Hdr9 1 ++ c17bTU)).1
    let s2 := (parseBytes cOff s1 (c17Hdr9 2 ++ c17bTK ++ c17bD999)).1
    Findings.noRecordsOfUnknownTemplates cOff s1 s2 (c17Pkts (parseBytes cOff s2 (c17Hdr9 1 ++ c17bD256)).2) = false := by
  decide +kernel

/-- IPFIX message [template 256 unknown-typed][data 256][template 257], then a V9 packet [template 300] -/
def c17bMixed : Bytes :=
  [0, 10, 0, 48, 0, 0, 0, 1, 0, 0, 0, 2, 0, 0, 0, 3] ++ [0, 2, 0, 12, 1, 0, 0, 1, 2, 88, 0, 4] ++ c17bD256 ++
    [0, 2, 0, 12, 1, 1, 0, 1, 0, 1, 0, 4] ++ c17Hdr9 1 ++ [0, 0, 0, 12, 1, 44, 0, 1, 0, 1, 0, 4]

/-- `C17_v9_caches_same` is about a situation that really occurs: on `c17bMixed` the flag-off build drops the
    IPFIX sets behind the undecodable one (its IPFIX caches lack template 257), both builds nevertheless go
    on with the V9 packet at the same offset and end with the same V9 caches; and the flag-off output
    satisfies the predicate of part 1 -/
example :
    (parseBytes (C17cfg [5, 7, 9, 10] false) {} c17bMixed).1 =
      { v9T := [(300, ⟨300, 1, [⟨1, 4⟩]⟩)], ipT := [(256, ⟨256, 1, [⟨600, 4, none⟩], []⟩)] } ∧
    (parseBytes (C17cfg [5, 7, 9, 10] true) {} c17bMixed).1 =
      { v9T := [(300, ⟨300, 1, [⟨1, 4⟩]⟩)],
        ipT := [(256, ⟨256, 1, [⟨600, 4, none⟩], []⟩), (257, ⟨257, 1, [⟨1, 4, none⟩], []⟩)] } ∧
    (c17Pkts (parseBytes (C17cfg [5, 7, 9, 10] false) {} c17bMixed).2).length = 2 ∧
    (c17Pkts (parseBytes (C17cfg [5, 7, 9, 10] true) {} c17bMixed).2).length = 2 ∧
    Findings.noRecordsOfUnknownTemplates (C17cfg [5, 7, 9, 10] false) {} {}
      (c17Pkts (parseBytes (C17cfg [5, 7, 9, 10] false) {} c17bMixed).2) = true := by
  decide +kernel

/-- the hypothesis of `C17_v9_caches_same_from`, met with different IPFIX caches: the two states the builds
    are in after `c17bMixed` -/
example :
    let s1 := (parseBytes (C17cfg [5, 7, 9, 10] false) {} c17bMixed).1
    let s2 := (parseBytes (C17cfg [5, 7, 9, 10] true) {} c17bMixed).1
    (s1.v9T = s2.v9T ∧ s1.v9O = s2.v9O) ∧ s1.ipT ≠ s2.ipT := by
  decide +kernel

/-- side condition of part 2 for the generated tables -/
example : 0 < Generated.tables.ipSetHdr.wireLen := by decide

end Netflow.Props
