/-
  Props/C15d.lean — C15, first half, at the level of a whole V9 packet: the modelled data-path work (`Cost.workV9Sets`, the V9 part of
  `Cost.workOf`) of a packet that is REPORTED is at most the size of its flowsets in the result plus `M` per flowset, where `M` bounds
  the number of fields of the data templates cached or announced (declared lengths arbitrary — zero included).  Lifts
  `C15_v9_set_work_paid` along exactly the walk `parse_flowsets` makes, threading the cache invariant `FLe M` through the template
  flowsets of the same packet (`P5.v9ParseSet_cost0`).  `C15_ipfix_message_work_paid` is the same for the sets of one IPFIX message,
  with the product term for the one set on which the message stops.
-/
import NetflowModel.Props.C15c
import NetflowModel.Lemmas.P5Fields
namespace Netflow.Props
open Netflow Cost B3 P5 P6

/-- the cache invariant gives the per-id bound `C15_v9_set_work_paid` asks for -/
theorem FLe_lookup_v9 (M : Nat) (st : PState) (hF : FLe M st = true) (id : Nat) (t : V9Template)
    (h : amLookup id st.v9T = some t) : t.fields.length ≤ M := by
  have h1 := ((FLe_iff M st).1 hF).1
  have := amLookup_all (fleV9T M) id t st.v9T h1 h
  simpa [fleV9T] using this

/-- **C15, first half, a reported V9 packet**: work of its flowsets ≤ their share of `resultSize` + `M` per flowset -/
theorem C15_v9_packet_work_paid (c : Config) (hw : 1 ≤ c.t.v9SetHdr.wireLen) (M : Nat) :
    ∀ (n : Nat) (st st' : PState) (i : Bytes) (ss : List V9Set) (r : Bytes), FLe M st = true →
      v9ParseSets c n st i = (st', .ok (ss, r)) → (ss.all fun s => fleV9Body M s.body) = true →
      workV9Sets c n st i ≤ (ss.map v9SetSize).sum + M * ss.length := by
  intro n
  induction n with
  | zero => intro st st' i ss r _ _ _; simp [workV9Sets]
  | succ n ih =>
    intro st st' i ss r hF h hb
    unfold v9ParseSets at h
    unfold workV9Sets
    by_cases he : i.isEmpty = true
    · simp only [he, if_true]; exact Nat.zero_le _
    · simp only [he, Bool.false_eq_true, ↓reduceIte] at h ⊢
      cases hs : v9ParseSet c st i with
      | mk st1 res =>
        cases res with
        | ok sr =>
          obtain ⟨s, r1⟩ := sr
          simp only [hs] at h
          cases hrest : v9ParseSets c n st1 r1 with
          | mk st2 res2 =>
            cases res2 with
            | ok ssr =>
              obtain ⟨ss', r2⟩ := ssr
              simp only [hrest, Prod.mk.injEq, Res.ok.injEq] at h
              obtain ⟨e0, e1, e2⟩ := h
              subst e0 e1 e2
              simp only [List.all_cons, Bool.and_eq_true] at hb
              obtain ⟨a1, _⟩ := v9ParseSet_cost0 c hw (115 + 112 * M) M (Nat.le_refl _) _ _ _ _ _ hF hs hb.1
              have hrec := ih _ _ _ _ _ a1 hrest hb.2
              -- open the flowset the way `workV9Sets` does
              have hs' := hs
              unfold v9ParseSet at hs'
              cases hh : parseLayout c.t.protoFromU8 c.t.v9SetHdr i with
              | none => simp [hh] at hs'
              | some hr =>
                obtain ⟨hd, r0⟩ := hr
                simp only [hh] at hs' ⊢
                cases ht : takeN (c.t.v9SetHdr.get "length" hd - 4) r0 with
                | none => simp [ht] at hs'
                | some br =>
                  obtain ⟨body, rr⟩ := br
                  simp only [ht] at hs' ⊢
                  cases hbd : v9ParseBody c st (c.t.v9SetHdr.get "flowset_id" hd) body with
                  | mk stb resb =>
                    cases resb with
                    | ok b =>
                      simp only [hbd, Prod.mk.injEq, Res.ok.injEq] at hs'
                      obtain ⟨f1, f2, f3⟩ := hs'
                      have hset := C15_v9_set_work_paid c st stb (c.t.v9SetHdr.get "flowset_id" hd)
                        (c.t.v9SetHdr.get "length" hd) body b M hbd (fun t ht' => FLe_lookup_v9 M st hF _ t ht')
                      rw [f2] at hset
                      simp only [List.map_cons, List.sum_cons, List.length_cons, Nat.mul_add, Nat.mul_one]
                      omega
                    | err => simp [hbd] at hs'
                    | panic => simp [hbd] at hs'
                    | overflow => simp [hbd] at hs'
            | err => simp [hrest] at h
            | panic => simp [hrest] at h
            | overflow => simp [hrest] at h
        | err => simp [hs] at h
        | panic => simp [hs] at h
        | overflow => simp [hs] at h

theorem FLe_lookup_ipT (M : Nat) (st : PState) (hF : FLe M st = true) (id : Nat) (t : IpTemplate)
    (h : amLookup id st.ipT = some t) : t.fields.length ≤ M := by
  have h1 := ((FLe_iff M st).1 hF).2.1
  have := amLookup_all (fleIpT M) id t st.ipT h1 h
  simpa [fleIpT] using this

theorem FLe_lookup_ipO (M : Nat) (st : PState) (hF : FLe M st = true) (id : Nat) (t : IpOptTemplate)
    (h : amLookup id st.ipO = some t) : t.fields.length ≤ M := by
  have h1 := ((FLe_iff M st).1 hF).2.2
  have := amLookup_all (fleIpO M) id t st.ipO h1 h
  simpa [fleIpO] using this

/-- **C15, first half, the sets of one IPFIX message**: the work of the sets that are REPORTED is paid by their share of `resultSize`
    plus `M` each; the one set on which the message stops (it is not reported, whatever was decoded of it is discarded) costs at most
    `M·(bytes + 2)` — the product bound, linear in the bytes for a bounded template size. -/
theorem C15_ipfix_message_work_paid (c : Config) (hw : 1 ≤ c.t.ipSetHdr.wireLen) (M : Nat) :
    ∀ (fuel : Nat) (st st' : PState) (i : Bytes) (ss : List IpSet), FLe M st = true →
      ipParseSets c fuel st i = (st', .ok ss) → (ss.all fun s => fleIpBody M s.body) = true →
      workIpSets c fuel st i ≤ (ss.map ipSetSize).sum + M * ss.length + M * (i.length + 2) := by
  intro fuel
  induction fuel with
  | zero => intro st st' i ss _ _ _; simp [workIpSets]
  | succ fuel ih =>
    intro st st' i ss hF h hb
    simp only [ipParseSets] at h
    unfold workIpSets
    cases hh : parseLayout c.t.protoFromU8 c.t.ipSetHdr i with
    | none => exact Nat.zero_le _
    | some hr =>
      obtain ⟨hd, r0⟩ := hr
      simp only []
      cases ht : takeN (c.t.ipSetHdr.get "length" hd - 4) r0 with
      | none => exact Nat.zero_le _
      | some br =>
        obtain ⟨body, rr⟩ := br
        simp only []
        have a := parseLayout_len hh
        obtain ⟨b1, b2⟩ := takeN_len ht
        have hbl : body.length ≤ i.length := by omega
        have hset := C15_ipfix_set_work c st (c.t.ipSetHdr.get "header_id" hd) body M
          (fun t ht' => FLe_lookup_ipT M st hF _ t ht') (fun t ht' => FLe_lookup_ipO M st hF _ t ht')
        have hmono : M * (body.length + 2) ≤ M * (i.length + 2) := Nat.mul_le_mul_left M (by omega)
        cases hs : ipParseSet c st i with
        | mk st1 res =>
          cases res with
          | ok sr =>
            obtain ⟨s, r1⟩ := sr
            simp only [hs] at h ⊢
            by_cases he : r1.length = i.length
            · simp [he] at h
            · simp only [he, ↓reduceIte] at h ⊢
              cases hrest : ipParseSets c fuel st1 r1 with
              | mk st2 res2 =>
                cases res2 with
                | ok ss' =>
                  simp only [hrest, Prod.mk.injEq, Res.ok.injEq] at h
                  obtain ⟨e0, e1⟩ := h
                  subst e0 e1
                  simp only [List.all_cons, Bool.and_eq_true] at hb
                  obtain ⟨a1, _⟩ := ipParseSet_cost0 c hw (115 + 112 * M) M (Nat.le_refl _) _ _ _ _ _ hF hs hb.1
                  have hrec := ih _ _ _ _ a1 hrest hb.2
                  have hs' := hs
                  unfold ipParseSet at hs'
                  simp only [hh, ht] at hs'
                  cases hbd : ipParseBody c st (c.t.ipSetHdr.get "header_id" hd) body with
                  | mk stb resb =>
                    cases resb with
                    | ok b =>
                      simp only [hbd, Prod.mk.injEq, Res.ok.injEq] at hs'
                      obtain ⟨f1, f2, f3⟩ := hs'
                      have hpaid := C15_ipfix_set_work_paid c st stb (c.t.ipSetHdr.get "header_id" hd)
                        (c.t.ipSetHdr.get "length" hd) body b M hbd
                        (fun t ht' => FLe_lookup_ipT M st hF _ t ht') (fun t ht' => FLe_lookup_ipO M st hF _ t ht')
                      rw [f2] at hpaid
                      have hr1 : r1.length ≤ i.length := by rw [← f3]; omega
                      have hm2 : M * (r1.length + 2) ≤ M * (i.length + 2) := Nat.mul_le_mul_left M (by omega)
                      simp only [List.map_cons, List.sum_cons, List.length_cons, Nat.mul_add, Nat.mul_one] at hrec hm2 ⊢
                      omega
                    | err => simp [hbd] at hs'
                    | panic => simp [hbd] at hs'
                    | overflow => simp [hbd] at hs'
                | err => simp [hrest] at h
                | panic => simp [hrest] at h
                | overflow => simp [hrest] at h
          | err =>
            simp only [hs, Prod.mk.injEq, Res.ok.injEq] at h ⊢
            obtain ⟨_, e1⟩ := h
            subst e1
            simp only [List.map_nil, List.sum_nil, List.length_nil, Nat.mul_zero, Nat.add_zero, Nat.zero_add]
            omega
          | panic => simp [hs] at h
          | overflow => simp [hs] at h

end Netflow.Props
