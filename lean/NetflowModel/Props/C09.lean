/-
  Props/C09.lean — C09: re-exporting a decoded V9 packet reproduces the bytes it came from.

  The full-strength statement `C09_full` is FALSE of the model (the model mirrors the crate's lossy
  re-export); each lossy cause has a concrete witness below (`C09_fails_*`).  `C09_partial` proves
  the round trip on the class `V9Lossless` (Lemmas/A7ExportV9.lean): all templates governing the
  packet's data flowsets are statically lossless and all decoded values are `ValueOk`.
  Helper lemmas live in Lemmas/A7Export*.lean.
-/
import NetflowModel.Lemmas.A7ExportStream
import NetflowModel.Generated
import NetflowModel.Lemmas.G1Arms
namespace Netflow.Props
open Netflow Netflow.A7 Preds

/-- C09, full strength (`i` is the input after the 2-byte version word, which the exporter also
    writes): FALSE of the model, see `C09_full_fails`. -/
def C09_full : Prop :=
  ∀ (c : Config) (st : PState) (i : Bytes) (st' : PState) (h : List Nat) (ss : List V9Set) (rest : Bytes),
    parseV9 c st i = (st', .ok (.v9 h ss, rest)) →
    exportV9 c h ss = .ok (toBE 2 9 ++ i.take (i.length - rest.length))

/-- C09 on the lossless class, for any configuration whose generated header layouts have the
    expected shape.  PARTIAL: needs `V9Lossless c st ss` — every template (cached in `st` or
    announced in the packet) whose id is the id of one of the packet's data flowsets has only
    `LosslessField` fields (unsigned/signed numbers whose `DataNumber` arm writes the declared
    width, 4-byte `durS`, `ip4`/`ip6`/`f64` at ANY declared length, `vec`/unknown, `str`, `proto`),
    and every decoded data value is `ValueOk` (no U+FFFD in strings, protocol maps back).
    Missing from the full statement: Duration (ms/µs/ns, or s ≠ 4 bytes), MAC, non-UTF-8 strings,
    narrowed/widened signed numbers, protocol 145 — all of them genuinely fail (`C09_fails_*`). -/
theorem C09_partial (c : Config) (hs : v9SetHdrOk c.t = true) (hk : v9HdrOk c.t = true)
    (st st' : PState) (i : Bytes) (h : List Nat) (ss : List V9Set) (rest : Bytes)
    (hp : parseV9 c st i = (st', .ok (.v9 h ss, rest)))
    (hl : V9Lossless c st ss = true) :
    exportV9 c h ss = .ok (toBE 2 9 ++ i.take (i.length - rest.length)) := by
  simp only [V9Lossless, Bool.and_eq_true] at hl
  exact parseV9_coh c hs hk (v9DataIds ss) st st' i h ss rest hp hl.1 (v9SetsOk_of_lossless c ss hl.2)

/-- the side conditions hold for the tables generated from the Rust source -/
theorem C09_generated_tables_ok :
    v9SetHdrOk Generated.tables = true ∧ v9HdrOk Generated.tables = true := by
  constructor <;> decide

/-- C09 on the lossless class for the generated tables (any allowed-version list, either setting
    of the `parse_unknown_fields` feature). -/
theorem C09_partial_generated (c : Config) (ht : c.t = Generated.tables)
    (st st' : PState) (i : Bytes) (h : List Nat) (ss : List V9Set) (rest : Bytes)
    (hp : parseV9 c st i = (st', .ok (.v9 h ss, rest)))
    (hl : V9Lossless c st ss = true) :
    exportV9 c h ss = .ok (toBE 2 9 ++ i.take (i.length - rest.length)) :=
  C09_partial c (by rw [ht]; exact C09_generated_tables_ok.1) (by rw [ht]; exact C09_generated_tables_ok.2)
    st st' i h ss rest hp hl

/-- the same through `parse_packet_by_version` and the packet exporter: the re-export is the prefix
    of the buffer the packet occupied, version word included.  PARTIAL as `C09_partial`. -/
theorem C09_packet_partial (c : Config) (ht : c.t = Generated.tables)
    (st st' : PState) (buf : Bytes) (h : List Nat) (ss : List V9Set) (rest : Bytes)
    (hp : parsePacket c st buf = (st', .ok (.v9 h ss) rest)) (hl : V9Lossless c st ss = true) :
    exportPacket c (.v9 h ss) = some (.ok (buf.take (buf.length - rest.length))) :=
  parsePacket_v9_coh c (by rw [ht]; decide)
    (by rw [ht]; exact C09_generated_tables_ok.1) (by rw [ht]; exact C09_generated_tables_ok.2)
    st st' buf h ss rest hp hl

theorem C09_generated_export_ok : exportTablesOk Generated.tables = true := by decide

/-- C09 in terms of the oracle predicate `reexportOk` over a whole `parse_bytes` run: every V9
    packet of the result re-exports to the slice of the buffer it occupied.  PARTIAL: needs
    `streamLossless c isV9Pkt …` — each V9 packet is `V9Lossless` w.r.t. the cache state in which
    it was parsed (templates learnt from earlier packets of the same buffer included). -/
theorem C09_stream_partial (c : Config) (ht : c.t = Generated.tables)
    (st st' : PState) (buf : Bytes) (pkts : List Packet)
    (h : parseBytes c st buf = (st', .done pkts))
    (hl : streamLossless c isV9Pkt (buf.length + 1) st buf = true) :
    reexportOk c isV9Pkt buf pkts (pkts.map (exportPacket c)) = true :=
  reexport_stream c (by rw [ht]; exact C09_generated_export_ok) isV9Pkt (fun _ hp => Or.inl hp)
    _ st st' buf pkts h hl

/-- template flowsets, options-template flowsets and options-data flowsets are byte-exact without
    any condition (only data flowsets can be lossy): a packet without data flowsets round-trips
    whatever the cache holds.  In particular options templates whose `scopeLen`/`optLen` are not
    multiples of 4 ARE byte-exact. -/
theorem C09_no_data (c : Config) (hs : v9SetHdrOk c.t = true) (hk : v9HdrOk c.t = true)
    (st st' : PState) (i : Bytes) (h : List Nat) (ss : List V9Set) (rest : Bytes)
    (hp : parseV9 c st i = (st', .ok (.v9 h ss, rest)))
    (hnd : v9DataIds ss = []) :
    exportV9 c h ss = .ok (toBE 2 9 ++ i.take (i.length - rest.length)) := by
  apply C09_partial c hs hk st st' i h ss rest hp
  simp only [V9Lossless, hnd, Bool.and_eq_true]
  constructor
  · simp [v9StOk]
  · simp only [List.all_eq_true]
    intro s hs'
    unfold v9SetOk
    cases hb : s.body with
    | templates ts pad => simp [v9TmplOk]
    | optTemplates ts pad => rfl
    | optData a b p => rfl
    | data recs pad =>
      have := mem_v9DataIds ss s recs pad hs' hb
      rw [hnd] at this
      cases this

/-! ### concrete objects -/

/-- the configuration generated from the Rust source, default allowed versions -/
def cfg09 : Config := { t := Generated.tables, allowed := Generated.defaultAllowed }

/-- a parser state that has learnt one template (id 256) with the given fields -/
def stT09 (fs : List TField) : PState :=
  { v9T := [(256, { id := 256, fieldCount := fs.length, fields := fs })] }

/-- V9 header after the version word: count = 1, sys_up_time = 1, unix_secs = 2, sequence = 3,
    source_id = 4 -/
def hdr09a : Bytes := [0,1, 0,0,0,1, 0,0,0,2, 0,0,0,3, 0,0,0,4]
/-- same with count = 2 -/
def hdr09b : Bytes := [0,2, 0,0,0,1, 0,0,0,2, 0,0,0,3, 0,0,0,4]

/-! #### non-vacuity of `C09_partial` -/

/-- a template flowset (id 256: IN_BYTES/4, IPV4_SRC_ADDR/4, L4_SRC_PORT/2, IPV6_SRC_ADDR/16,
    field 95 `vec`/3, field 94 `str`/2) followed by a data flowset of one record with 1 byte of
    padding, parsed from an EMPTY cache -/
def pktOk09 : Bytes :=
  hdr09b ++ [0,0, 0,32, 1,0, 0,6, 0,1,0,4, 0,8,0,4, 0,7,0,2, 0,27,0,16, 0,95,0,3, 0,94,0,2] ++
  [1,0, 0,36, 0,0,1,0, 10,0,0,1, 0,80, 1,2,3,4,5,6,7,8,9,10,11,12,13,14,15,16, 9,9,9, 104,105, 0]

/-- the hypotheses of `C09_partial` are met by a non-trivial packet (and, consistently, its
    re-export is the input) -/
example :
    (match parseV9 cfg09 {} pktOk09 with
     | (_, .ok (.v9 _ ss, rest)) => V9Lossless cfg09 {} ss && ss.length == 2 && rest.isEmpty
     | _ => false) = true ∧
    v9Reexport cfg09 {} pktOk09 = some (.ok ([0, 9] ++ pktOk09), [0, 9] ++ pktOk09) := by
  constructor <;> decide +kernel

/-- non-vacuity of `C09_stream_partial`: the packet above followed by a second packet whose data
    flowset (with 3 bytes of padding) is decoded with the template learnt from the first -/
def bufOk09 : Bytes :=
  [0, 9] ++ pktOk09 ++ [0, 9] ++ hdr09a ++
  [1,0, 0,38, 0,0,2,0, 10,0,0,2, 1,187, 1,2,3,4,5,6,7,8,9,10,11,12,13,14,15,16, 8,8,8, 0x6F,0x6B, 0,0,0]

example :
    streamLossless cfg09 isV9Pkt (bufOk09.length + 1) {} bufOk09 = true ∧
    (match parseBytes cfg09 {} bufOk09 with
     | (_, .done pkts) => pkts.length == 2 && pkts.all isV9Pkt
     | _ => false) = true := by
  constructor <;> decide +kernel

/-- non-vacuity of `C09_packet_partial` -/
example :
    (match parsePacket cfg09 {} ([0, 9] ++ pktOk09) with
     | (_, .ok (.v9 _ ss) rest) => V9Lossless cfg09 {} ss && ss.length == 2 && rest.isEmpty
     | _ => false) = true := by
  decide +kernel

/-- with the generated `DataNumber::parse` arm table, unsigned fields (the bulk of both field
    tables) are in the static class at every declared length -/
theorem C09_unsigned_lossless (c : Config) (ht : c.t = Generated.tables) (len : Nat) :
    LosslessField c.vc .unsigned len = true :=
  unsigned_lossless_of_arms c.vc (by simp only [Config.vc, ht]; decide) len

/-- the dynamic class for protocols under the generated tables: TCP, UDP, … map back; 145
    (`Unknown`, re-exported as 255) does not -/
example : ValueOk cfg09.vc (.proto 6) = true ∧ ValueOk cfg09.vc (.proto 17) = true ∧
    ValueOk cfg09.vc (.proto 145) = false := by
  refine ⟨?_, ?_, ?_⟩ <;> decide +kernel

/-! #### things that turn out NOT to be lossy -/

/-- fixed-size decoders under a different declared length are byte-exact: template 256 declares
    IPV4_SRC_ADDR with length 8; the record count is computed from 8 but each record consumes 4
    bytes, so a 16-byte body gives 2 records + 8 bytes of "padding", and records ++ padding is
    still the body.  (Covered by `C09_partial`: `LosslessField` accepts `ip4` at any length.) -/
example :
    V9Lossless cfg09 (stT09 [⟨8, 8⟩]) [] = true ∧
    v9Reexport cfg09 (stT09 [⟨8, 8⟩]) (hdr09a ++ [1,0, 0,20, 1,2,3,4, 5,6,7,8, 9,10,11,12, 13,14,15,16]) =
      some (.ok ([0, 9] ++ hdr09a ++ [1,0, 0,20, 1,2,3,4, 5,6,7,8, 9,10,11,12, 13,14,15,16]),
        [0, 9] ++ hdr09a ++ [1,0, 0,20, 1,2,3,4, 5,6,7,8, 9,10,11,12, 13,14,15,16]) := by
  constructor <;> decide +kernel

/-- an options template with `scopeLen = 6`, `optLen = 5` (not multiples of 4): one scope field
    and one option field are parsed, the remaining bytes become padding — byte-exact
    (instance of `C09_no_data`) -/
example :
    v9Reexport cfg09 {} (hdr09a ++ [0,1, 0,20, 1,1, 0,6, 0,5, 0,1,0,4, 0,2,0,2, 0xAA,0xBB]) =
      some (.ok ([0, 9] ++ hdr09a ++ [0,1, 0,20, 1,1, 0,6, 0,5, 0,1,0,4, 0,2,0,2, 0xAA,0xBB]),
        [0, 9] ++ hdr09a ++ [0,1, 0,20, 1,1, 0,6, 0,5, 0,1,0,4, 0,2,0,2, 0xAA,0xBB]) := by
  decide +kernel

/-! #### the lossy causes: one witness each -/

/-- C09_full implies that the two components of `v9Reexport` agree -/
theorem C09_full_reexport (H : C09_full) (c : Config) (st : PState) (i : Bytes) (o : Out Bytes) (e : Bytes)
    (h : v9Reexport c st i = some (o, e)) : o = .ok e := by
  unfold v9Reexport at h
  split at h
  · rename_i st' hd ss rest hp
    simp only [Option.some.injEq, Prod.mk.injEq] at h
    obtain ⟨e1, e2⟩ := h
    subst e1 e2
    exact H c st i st' hd ss rest hp
  · cases h

/-- Duration: LAST_SWITCHED (field 21, milliseconds) with value 1000 ms is re-exported as the
    4-byte number of SECONDS: `00 00 03 E8` comes back as `00 00 00 01` -/
theorem C09_fails_duration :
    v9Reexport cfg09 (stT09 [⟨21, 4⟩]) (hdr09a ++ [1,0, 0,8, 0,0,3,232]) =
      some (.ok ([0, 9] ++ hdr09a ++ [1,0, 0,8, 0,0,0,1]), [0, 9] ++ hdr09a ++ [1,0, 0,8, 0,0,3,232]) := by
  decide +kernel

/-- MAC: IN_SRC_MAC (field 56, 6 bytes) is re-exported as the 17 ASCII bytes `01:02:03:04:05:06`
    (while the flowset header still says length 10) -/
theorem C09_fails_mac :
    v9Reexport cfg09 (stT09 [⟨56, 6⟩]) (hdr09a ++ [1,0, 0,10, 1,2,3,4,5,6]) =
      some (.ok ([0, 9] ++ hdr09a ++
          [1,0, 0,10, 48,49,58, 48,50,58, 48,51,58, 48,52,58, 48,53,58, 48,54]),
        [0, 9] ++ hdr09a ++ [1,0, 0,10, 1,2,3,4,5,6]) := by
  decide +kernel

/-- strings: a byte that is not valid UTF-8 (`FF`) comes back as U+FFFD (`EF BF BD`) -/
theorem C09_fails_utf8 :
    v9Reexport cfg09 (stT09 [⟨94, 2⟩]) (hdr09a ++ [1,0, 0,6, 0xFF,0x41]) =
      some (.ok ([0, 9] ++ hdr09a ++ [1,0, 0,6, 0xEF,0xBF,0xBD,0x41]),
        [0, 9] ++ hdr09a ++ [1,0, 0,6, 0xFF,0x41]) := by
  decide +kernel

/-- protocol: PROTOCOL (field 4) byte 145 decodes to `ProtocolTypes::Unknown`, exported as 255 -/
theorem C09_fails_protocol :
    v9Reexport cfg09 (stT09 [⟨4, 1⟩]) (hdr09a ++ [1,0, 0,5, 145]) =
      some (.ok ([0, 9] ++ hdr09a ++ [1,0, 0,5, 255]), [0, 9] ++ hdr09a ++ [1,0, 0,5, 145]) := by
  decide +kernel

/-- signed numbers (value level; no V9 field has a signed type, IPFIX field 434 has): a 2-byte
    signed field is stored as `I32` and re-exported sign-extended to 4 bytes -/
theorem C09_fails_signed_width :
    parseValue cfg09.vc .signed 2 [0xFF, 0xFE] = some (.num (.i32 (-2)), []) ∧
    (FieldValue.num (.i32 (-2))).toBE cfg09.vc = .ok [0xFF, 0xFF, 0xFF, 0xFE] := by
  constructor <;> decide +kernel

/-- Duration in seconds with 8 bytes (value level): 8 bytes in, 4 bytes out; and with seconds
    ≥ 2^32 the exporter returns an error -/
theorem C09_fails_duration_u64 :
    (∃ v, parseValue cfg09.vc .durS 8 [0,0,0,0,0,0,0,5] = some (v, []) ∧ v.toBE cfg09.vc = .ok [0,0,0,5]) ∧
    (∃ v, parseValue cfg09.vc .durS 8 [0,0,0,1,0,0,0,0] = some (v, []) ∧ v.toBE cfg09.vc = .err) := by
  constructor
  · exact ⟨.dur 5 0, by decide +kernel, by decide +kernel⟩
  · exact ⟨.dur 4294967296 0, by decide +kernel, by decide +kernel⟩

/-- C09 at full strength is false of the model -/
theorem C09_full_fails : ¬ C09_full := by
  intro H
  have := C09_full_reexport H _ _ _ _ _ C09_fails_duration
  revert this
  decide +kernel

/-- **C09.G** (regenerated on every run) the value encoders of the model ARE the interpretations of the arms of
    `FieldValue::to_be_bytes` and `DataNumber::to_be_bytes` as read from data_number.rs now. -/
theorem C09_export_arms_generated (c : ValueCfg) (v : FieldValue) :
    v.toBE c = toBEBy Generated.exportArms c v := G1.toBE_eq_generated c v

theorem C09_number_export_arms_generated (d : DataNumber) :
    d.toBE = dnToBEBy Generated.dnExportArms d := G1.dnToBE_eq_generated d

end Netflow.Props
