/-
  Props/C15.lean — C15 "Parsing cost is bounded by input size plus output size".

  C15 has two halves.
  * FIRST half (heap bytes requested from the Rust allocator during one `parse_bytes` call
    ≤ A·|buf| + B·size(result) + C): this is a property of the Rust allocator traffic; it is
    MEASURED by the harness's counting allocator (`Cost.allocBounded`) and NOT modelled here.
  * SECOND half, proved here about the Lean model: the size of the RESULT (`Cost.resultSize`) is at
    most a fixed multiple of the bytes received.  The full statement (`C15_full`) is FALSE of the
    model (`C15_full_fails`, the known zero-length-field defect); it holds when no template, cached
    or announced in the buffer, has a field of declared length zero (`C15_result_linear_partial`),
    with constants D = 115, E = 184 — within the oracle's D = 256, E = 1024 — and the cached
    templates' wire size is not even needed on the right-hand side.

  Contents
    1. V5/V7                      `C15_fixed_linear`, `C15_fixed_linear_v5_generated`, `…_v7_…`
    2. field values               `C15_utf8Lossy_triples`, `C15_value_linear`
    3. records and the result     `C15_record_entries_v9`, `C15_record_entries_ipfix`,
                                  `C15_v9_record_linear`, `C15_ipfix_record_linear`,
                                  `C15_result_linear_partial`, `C15_result_bounded_partial`, `…_generated`
    4. the defect                 `C15_zero_length_fails`, `…_same_buffer`, `…_v9`, `C15_full_fails`,
                                  `C15_zero_length_lower_bound`, `C15_zero_length_unbounded`
    5. counts need bytes          `C15_count_needs_bytes`, `C15_fixed_count_needs_bytes`,
                                  `C15_v9_template_fields_need_bytes`, `C15_v9_record_count`,
                                  `C15_ipfix_record_count`
-/
import NetflowModel.Lemmas.B3CostTop
import NetflowModel.Lemmas.B3Lower
namespace Netflow.Props
open Netflow Cost B3

/-- configuration over the generated tables -/
def cfg15 (allowed : List Nat) (uf : Bool) : Config :=
  { t := Generated.tables, allowed := allowed, unknownFields := uf }

theorem C15_generated_costOk : costOk Generated.tables = true := by decide

/-- run `parseBytes` and test the packets it returns -/
def check15 (c : Config) (st : PState) (buf : Bytes) (q : List Packet → Bool) : Bool :=
  match parseBytes c st buf with
  | (_, .done pkts) => q pkts
  | _ => false

theorem check15_sound {c : Config} {st : PState} {buf : Bytes} {q : List Packet → Bool}
    (h : check15 c st buf q = true) : ∃ st' pkts, parseBytes c st buf = (st', .done pkts) ∧ q pkts = true := by
  unfold check15 at h
  split at h
  · next st' pkts he => exact ⟨st', pkts, he, h⟩
  · simp at h

/-! ## 1. V5 / V7 : the size is linear in the bytes consumed -/

/-- every record that is returned was present: the parser consumed exactly the header plus
    `rec.wireLen` bytes per record, and the number of records is the header's `count`. -/
theorem C15_fixed_linear (c : Config) (hdr rec : Layout) (i : Bytes) (h : List Nat) (rs : List (List Nat)) (r : Bytes)
    (hp : parseFixed c hdr rec i = some ((h, rs), r)) :
    r.length + hdr.wireLen + rec.wireLen * rs.length = i.length :=
  (parseFixed_len c hdr rec i h rs r hp).1

/-- V5: a 48-byte record costs 56, so the packet costs at most 64 + 2·(bytes consumed) -/
theorem C15_fixed_linear_v5_generated (allowed : List Nat) (uf : Bool) (i : Bytes) (h : List Nat)
    (rs : List (List Nat)) (r : Bytes)
    (hp : parseFixed (cfg15 allowed uf) Generated.tables.v5Hdr Generated.tables.v5Rec i = some ((h, rs), r)) :
    packetSize (.v5 h rs) ≤ 64 + 2 * (i.length - r.length) := by
  have h1 := C15_fixed_linear _ _ _ _ _ _ _ hp
  have h2 : Layout.wireLen Generated.tables.v5Rec = 48 := by decide
  rw [h2] at h1
  simp only [packetSize]
  omega

/-- V7: a 52-byte record costs 60 -/
theorem C15_fixed_linear_v7_generated (allowed : List Nat) (uf : Bool) (i : Bytes) (h : List Nat)
    (rs : List (List Nat)) (r : Bytes)
    (hp : parseFixed (cfg15 allowed uf) Generated.tables.v7Hdr Generated.tables.v7Rec i = some ((h, rs), r)) :
    packetSize (.v7 h rs) ≤ 64 + 2 * (i.length - r.length) := by
  have h1 := C15_fixed_linear _ _ _ _ _ _ _ hp
  have h2 : Layout.wireLen Generated.tables.v7Rec = 52 := by decide
  rw [h2] at h1
  simp only [packetSize]
  omega

/-- non-vacuity: a V5 packet with two records (24 + 2·48 bytes after the version) -/
example : (match parseFixed (cfg15 [5] true) Generated.tables.v5Hdr Generated.tables.v5Rec
      (toBE 2 2 ++ List.replicate (20 + 96) 7) with
    | some ((_, rs), r) => rs.length == 2 && r.isEmpty
    | none => false) = true := by decide +kernel

/-! ## 2. field values -/

/-- `String::from_utf8_lossy` can TRIPLE the length (each invalid byte becomes U+FFFD = 3 bytes),
    and no more -/
theorem C15_utf8Lossy_triples (bs : Bytes) : (utf8Lossy bs).length ≤ 3 * bs.length :=
  utf8Lossy_length bs

/-- the factor 3 is attained -/
example : (utf8Lossy [0xFF, 0xFF]).length = 3 * 2 := by decide

/-- a decoded field value is no larger than 32 plus three times the bytes it consumed
    (`str` triples; `mac` turns 6 bytes into 17 characters; everything else is 32 or a copy) -/
theorem C15_value_linear (vc : ValueCfg) (ty : FType) (len : Nat) (i r : Bytes) (v : FieldValue)
    (h : parseValue vc ty len i = some (v, r)) :
    r.length ≤ i.length ∧ valueSize v ≤ 32 + 3 * (i.length - r.length) := by
  obtain ⟨n, h1, h2, _⟩ := parseValue_cost h
  exact ⟨by omega, by omega⟩

/-- a field of declared length ≥ 1 consumed at least one byte -/
theorem C15_value_progress (vc : ValueCfg) (ty : FType) (len : Nat) (i r : Bytes) (v : FieldValue)
    (hl : 1 ≤ len) (h : parseValue vc ty len i = some (v, r)) : r.length < i.length := by
  obtain ⟨n, h1, _, h3⟩ := parseValue_cost h
  have := h3 hl
  omega

/-! ## 3. records, and the result of `parse_bytes` -/

/-- THE structural fact (V9): a record decoded with a template of `k` fields has `k` entries,
    however few bytes were consumed -/
theorem C15_record_entries_v9 (c : Config) (fs : List TField) (idx : Nat) (i : Bytes) (es : Rec) (r : Bytes)
    (h : v9ParseRec c fs idx i = some (es, r)) : es.length = fs.length :=
  (v9ParseRec_length c fs idx i es r h).1

/-- THE structural fact (IPFIX): a record decoded with a template of `k` fields yields `k` maps -/
theorem C15_record_entries_ipfix (c : Config) (fs : List IpTField) (idx : Nat) (i : Bytes) (es : List Rec) (r : Bytes)
    (h : ipParseRec c fs idx i = some (es, r)) : es.length = fs.length :=
  (ipParseRec_length c fs idx i es r h).1

/-- V9 data record under an honest, non-empty field list: at most 115 per byte consumed -/
theorem C15_v9_record_linear (c : Config) (fs : List TField) (hf : honestFs fs = true) (hne : fs ≠ [])
    (idx : Nat) (i : Bytes) (es : Rec) (r : Bytes) (h : v9ParseRec c fs idx i = some (es, r)) :
    r.length ≤ i.length ∧ recSize es ≤ 115 * (i.length - r.length) := by
  obtain ⟨h1, h2⟩ := v9ParseRec_cost c fs idx i es r hf h
  have : 1 ≤ fs.length := by
    cases fs with
    | nil => exact absurd rfl hne
    | cons _ _ => simp
  rw [recSize_eq]
  exact ⟨by omega, by omega⟩

example : honestFs [⟨4, 1⟩, ⟨8, 4⟩] = true ∧ ([⟨4, 1⟩, ⟨8, 4⟩] : List TField) ≠ [] := by decide

/-- IPFIX data record under an honest field list: at most 115 per byte consumed
    (every field is its own map: 64 + 16 + 32 + 3·payload) -/
theorem C15_ipfix_record_linear (c : Config) (fs : List IpTField) (hf : honestIpFs fs = true)
    (idx : Nat) (i : Bytes) (es : List Rec) (r : Bytes) (h : ipParseRec c fs idx i = some (es, r)) :
    r.length ≤ i.length ∧ (es.map recSize).sum ≤ 115 * (i.length - r.length) := by
  obtain ⟨h1, h2⟩ := ipParseRec_cost c fs idx i es r hf h
  exact ⟨by omega, by omega⟩

example : honestIpFs [⟨82, 65535, none⟩, ⟨1, 4, some 9⟩] = true := by decide

/-- **C15, second half, partial.**  If no cached template and no template reported in the result
    has a field of declared length zero, the size of the result of `parse_bytes` is at most
    `115·|buf| + 184`.  Missing for the full property: the two honesty hypotheses
    (`C15_full_fails` shows they cannot be dropped).  `costOk` holds for the generated tables. -/
theorem C15_result_linear_partial (c : Config) (hc : costOk c.t = true) (st st' : PState) (buf : Bytes)
    (pkts : List Packet) (hH : Honest st = true) (h : parseBytes c st buf = (st', .done pkts))
    (hP : HonestPkts pkts = true) :
    resultSize pkts ≤ 115 * buf.length + 184 := by
  have := parseBytesF_cost c hc _ _ _ _ _ hH h hP
  simp only [resultSize]
  omega

/-- … hence the oracle's predicate with D = 256, E = 1024 (and with D = 115, E = 184) -/
theorem C15_result_bounded_partial (c : Config) (hc : costOk c.t = true) (st st' : PState) (buf : Bytes)
    (pkts : List Packet) (hH : Honest st = true) (h : parseBytes c st buf = (st', .done pkts))
    (hP : HonestPkts pkts = true) :
    resultBounded 115 184 buf st pkts = true ∧ resultBounded 256 1024 buf st pkts = true := by
  have := C15_result_linear_partial c hc st st' buf pkts hH h hP
  simp only [resultBounded, decide_eq_true_eq]
  have h1 : 115 * (buf.length + stateWire st) = 115 * buf.length + 115 * stateWire st := Nat.mul_add _ _ _
  have h2 : 256 * (buf.length + stateWire st) = 256 * buf.length + 256 * stateWire st := Nat.mul_add _ _ _
  exact ⟨by omega, by omega⟩

theorem C15_result_bounded_generated (allowed : List Nat) (uf : Bool) (st st' : PState) (buf : Bytes)
    (pkts : List Packet) (hH : Honest st = true)
    (h : parseBytes (cfg15 allowed uf) st buf = (st', .done pkts)) (hP : HonestPkts pkts = true) :
    resultBounded 256 1024 buf st pkts = true :=
  (C15_result_bounded_partial _ C15_generated_costOk st st' buf pkts hH h hP).2

/-! ### witnesses -/

/-- IPFIX message: header (length 20 + |body|), one set `setId` with body `body` -/
def ipMsg15 (setId : Nat) (body : Bytes) : Bytes :=
  toBE 2 10 ++ toBE 2 (20 + body.length) ++ toBE 4 0 ++ toBE 4 0 ++ toBE 4 0 ++
  toBE 2 setId ++ toBE 2 (4 + body.length) ++ body

/-- IPFIX template 256: `k` string fields (interfaceName, 82) of declared length `z`, then one
    string field of length 1 -/
def tpl15 (k z : Nat) : IpTemplate :=
  { id := 256, fieldCount := k + 1, fields := List.replicate k ⟨82, z, none⟩ ++ [⟨82, 1, none⟩], pad := [] }

/-- non-vacuity of `C15_result_linear_partial`: an honest cached template (3 fields of 1 byte) and a
    data set of 30 bytes (10 records, 30 maps) -/
example : Honest { ipT := [(256, tpl15 2 1)] } = true ∧
    ∃ st' pkts, parseBytes (cfg15 [10] true) { ipT := [(256, tpl15 2 1)] } (ipMsg15 256 (List.replicate 30 65)) = (st', .done pkts) ∧
      (HonestPkts pkts && decide (resultSize pkts = 24 + 64 + 48 + 30 * 113)) = true :=
  ⟨by decide, check15_sound (by decide +kernel)⟩

/-- the constant 115 is attained per byte: 400 one-byte records of an invalid UTF-8 byte under an
    honest one-field template cost `115·400 + 136` for a 420-byte buffer -/
theorem C15_constant_sharp :
    Honest { ipT := [(256, tpl15 0 1)] } = true ∧
    ∃ st' pkts, parseBytes (cfg15 [10] true) { ipT := [(256, tpl15 0 1)] } (ipMsg15 256 (List.replicate 400 0xFF)) = (st', .done pkts) ∧
      (HonestPkts pkts && decide (resultSize pkts = 115 * 400 + 136)) = true :=
  ⟨by decide, check15_sound (by decide +kernel)⟩

/-! ## 4. the defect: zero-length fields inflate the result without bound -/

/-- the full second half of C15 (no honesty hypotheses) for constants `D`, `E` -/
def C15_full (D E : Nat) : Prop :=
  ∀ (allowed : List Nat) (uf : Bool) (st st' : PState) (buf : Bytes) (pkts : List Packet),
    parseBytes (cfg15 allowed uf) st buf = (st', .done pkts) → resultBounded D E buf st pkts = true

/-- cached IPFIX template with 40 zero-length string fields and one 1-byte field, data set of 20
    one-byte records: 40 bytes of buffer + 168 bytes of template wire produce a result of 91,996. -/
theorem C15_zero_length_fails :
    ∃ st' pkts, parseBytes (cfg15 [10] true) { ipT := [(256, tpl15 40 0)] } (ipMsg15 256 (List.replicate 20 65)) = (st', .done pkts) ∧
      ((ipMsg15 256 (List.replicate 20 65)).length + stateWire { ipT := [(256, tpl15 40 0)] } == 208 &&
       decide (resultSize pkts = 91996) && !resultBounded 256 1024 (ipMsg15 256 (List.replicate 20 65)) { ipT := [(256, tpl15 40 0)] } pkts) = true :=
  check15_sound (by decide +kernel)

theorem C15_full_fails : ¬ C15_full 256 1024 := by
  intro hfull
  obtain ⟨st', pkts, hp, hq⟩ := C15_zero_length_fails
  have := hfull _ _ _ _ _ _ hp
  simp only [Bool.and_eq_true, Bool.not_eq_true'] at hq
  rw [this] at hq
  exact absurd hq.2 (by decide)

/-- template set body announcing `tpl15 k 0` -/
def tplBody15 (k : Nat) : Bytes :=
  toBE 2 256 ++ toBE 2 (k + 1) ++ (List.replicate k (toBE 2 82 ++ toBE 2 0)).flatten ++ toBE 2 82 ++ toBE 2 1

/-- the same with an EMPTY cache: the template is announced in the same buffer (first message) and
    used by the second; `Honest st` holds, `HonestPkts pkts` does not, and the bound fails. -/
theorem C15_zero_length_fails_same_buffer :
    Honest {} = true ∧
    ∃ st' pkts, parseBytes (cfg15 [10] true) {} (ipMsg15 2 (tplBody15 40) ++ ipMsg15 256 (List.replicate 20 65)) = (st', .done pkts) ∧
      (!HonestPkts pkts && decide (pkts.length = 2) &&
       !resultBounded 256 1024 (ipMsg15 2 (tplBody15 40) ++ ipMsg15 256 (List.replicate 20 65)) {} pkts) = true :=
  ⟨by decide, check15_sound (by decide +kernel)⟩

/-- V9 message: header (count 1), one flowset -/
def v9Msg15 (setId : Nat) (body : Bytes) : Bytes :=
  toBE 2 9 ++ toBE 2 1 ++ toBE 4 0 ++ toBE 4 0 ++ toBE 4 0 ++ toBE 4 0 ++
  toBE 2 setId ++ toBE 2 (4 + body.length) ++ body

/-- V9: cached template with 60 zero-length string fields (94) and one 1-byte field; every body byte yields a
    61-entry map -/
theorem C15_zero_length_fails_v9 :
    ∃ st' pkts, parseBytes (cfg15 [9] true)
        { v9T := [(256, { id := 256, fieldCount := 61, fields := List.replicate 60 ⟨94, 0⟩ ++ [⟨4, 1⟩] })] }
        (v9Msg15 256 (List.replicate 40 6)) = (st', .done pkts) ∧
      (!resultBounded 256 1024 (v9Msg15 256 (List.replicate 40 6))
        { v9T := [(256, { id := 256, fieldCount := 61, fields := List.replicate 60 ⟨94, 0⟩ ++ [⟨4, 1⟩] })] } pkts) = true :=
  check15_sound (by decide +kernel)

/-- the defect for every `k` and every body (any configuration): an IPFIX template with `k`
    zero-length (enterprise) fields and one 1-byte field turns each body byte into `k + 1` maps:
    `(k + 1)·|body|` maps of total size `(112·(k + 1) + 1)·|body|`, from `|body|` bytes of data and
    `4 + 4·(k + 1)` bytes of template (`Cost.stateWire`). -/
theorem C15_zero_length_lower_bound (c : Config) (st : PState) (id k : Nat) (t : IpTemplate) (body : Bytes)
    (h1 : ¬ (id < c.t.ipSetMinRange ∧ id ≠ c.t.ipOptTemplateId)) (h2 : id ≠ c.t.ipOptTemplateId)
    (hl : amLookup id st.ipT = some t) (ht : t.fields = zeroFs k) (hb : body ≠ []) :
    ∃ recs, ipParseBody c st id body = (st, .ok (.data recs [])) ∧ recs.length = (k + 1) * body.length ∧
      (recs.map recSize).sum = (112 * (k + 1) + 1) * body.length :=
  ipParseBody_zeroFs c st id k t body h1 h2 hl ht hb

/-- non-vacuity for the generated tables: set id 256, template cached under 256 -/
example : ¬ (256 < (cfg15 [10] true).t.ipSetMinRange ∧ 256 ≠ (cfg15 [10] true).t.ipOptTemplateId) ∧
    256 ≠ (cfg15 [10] true).t.ipOptTemplateId ∧
    amLookup 256 ({ ipT := [(256, { id := 256, fieldCount := 4, fields := zeroFs 3, pad := [] })] } : PState).ipT =
      some { id := 256, fieldCount := 4, fields := zeroFs 3, pad := [] } := by decide

/-- hence NO constants work: for all `D`, `E` there are a template (`k` zero-length fields) and a
    data body whose records are larger than `D·(|body| + wire size of the template) + E`. -/
theorem C15_zero_length_unbounded (c : Config) (D E : Nat) :
    ∃ (k : Nat) (body : Bytes) (recs : List Rec),
      ipRecLoop c (zeroFs k) (body.length + 1) body = .ok (recs, []) ∧
      D * (body.length + (4 + 4 * (zeroFs k).length)) + E < (recs.map recSize).sum :=
  zeroFs_unbounded c D E

/-! ## 5. count and length fields never create output for bytes that are not present -/

/-- `count(p, n)` with a parser that consumes at least one byte per item: as many items as
    announced, and that many bytes were there -/
theorem C15_count_needs_bytes {α : Type} (p : P α) (hp : ∀ i a r, p i = some (a, r) → r.length + 1 ≤ i.length)
    (n : Nat) (i : Bytes) (xs : List α) (r : Bytes) (h : countP p n i = some (xs, r)) :
    xs.length = n ∧ r.length + xs.length ≤ i.length := by
  obtain ⟨h1, h2⟩ := countP_len hp n i xs r h
  exact ⟨h1, by omega⟩

/-- V5/V7: `header.count` records are returned only if `rec.wireLen · count` bytes follow the header -/
theorem C15_fixed_count_needs_bytes (c : Config) (hdr rec : Layout) (i : Bytes) (h : List Nat) (rs : List (List Nat)) (r : Bytes)
    (hp : parseFixed c hdr rec i = some ((h, rs), r)) :
    rs.length = hdr.get "count" h ∧ hdr.wireLen + rec.wireLen * hdr.get "count" h ≤ i.length := by
  obtain ⟨h1, h2⟩ := parseFixed_len c hdr rec i h rs r hp
  rw [← h2]
  exact ⟨rfl, by omega⟩

/-- a V5 header announcing 65,535 records over a short body produces nothing -/
example : parseFixed (cfg15 [5] true) Generated.tables.v5Hdr Generated.tables.v5Rec
    (toBE 2 65535 ++ List.replicate 500 0) = none := by decide +kernel

/-- V9 template: `field_count` fields are returned only if `4·field_count` bytes follow -/
theorem C15_v9_template_fields_need_bytes (i : Bytes) (t : V9Template) (r : Bytes) (h : parseV9Template i = some (t, r)) :
    r.length + 4 + 4 * t.fields.length ≤ i.length :=
  parseV9Template_len i t r h

/-- V9 data flowset: at most `|body| / total` records (whatever the template) -/
theorem C15_v9_record_count (c : Config) (fs : List TField) (total : Nat) (body : Bytes) (recs : List Rec) (pad : Bytes)
    (h : v9RecLoop c fs (body.length / total) body [] = (recs, pad)) :
    recs.length ≤ body.length / total ∧ recs.length * total ≤ body.length ∧ pad.length ≤ body.length := by
  obtain ⟨h1, h2⟩ := v9RecLoop_count c fs _ _ _ _ _ h
  simp only [List.length_nil, Nat.zero_add] at h1
  refine ⟨h1, ?_, h2⟩
  calc recs.length * total ≤ (body.length / total) * total := Nat.mul_le_mul_right _ h1
    _ ≤ body.length := Nat.div_mul_le_self _ _

/-- IPFIX data set under an honest template: at most one map per body byte -/
theorem C15_ipfix_record_count (c : Config) (fs : List IpTField) (hf : honestIpFs fs = true)
    (fuel : Nat) (body : Bytes) (recs : List Rec) (pad : Bytes)
    (h : ipRecLoop c fs fuel body = .ok (recs, pad)) : recs.length + pad.length ≤ body.length :=
  (ipRecLoop_cost c fs hf fuel body recs pad h).2

end Netflow.Props
