/-
  Props/ExportGen.lean — C09 / C10 (and the export clause of C01) for the exporters REGENERATED FROM THE SOURCE.

  `Generated.v9ExportProg` / `Generated.ipExportProg` are `V9::to_be_bytes` / `IPFix::to_be_bytes` translated statement by
  statement by tools/translate_export.py on this run (integer widths inferred from the declared Rust field types).
  `Export_*_is_modelled`: run on the tree view of ANY model packet they compute exactly what the hand-written exporters of
  Export.lean compute; the corollaries restate the C09 / C10 round-trip theorems for them.  A change of the emission order,
  a dropped or added field, a dropped padding, another integer type in a struct, a lost `?` … regenerates a different program
  and these theorems no longer check.
-/
import NetflowModel.Lemmas.G3Export
import NetflowModel.Props.C01
import NetflowModel.Props.C09
import NetflowModel.Props.C10
namespace Netflow.Props
open Netflow Netflow.G3 Netflow.A7 Preds

/-- the V9 exporter read from the source IS the modelled exporter, for every header and flowset list -/
theorem Export_v9_is_modelled (c : Config) (ht : c.t = Generated.tables) (h : List Nat) (sets : List V9Set) :
    runL c.vc Generated.v9ExportProg [("self", treeOfV9 c h sets)] = exportV9 c h sets :=
  v9_prog c (by rw [ht]; rfl) (by rw [ht]; rfl) h sets

/-- the IPFIX exporter read from the source IS the modelled exporter -/
theorem Export_ipfix_is_modelled (c : Config) (ht : c.t = Generated.tables) (h : List Nat) (sets : List IpSet) :
    runL c.vc Generated.ipExportProg [("self", treeOfIpfix c h sets)] = exportIpfix c h sets :=
  ipfix_prog c (by rw [ht]; rfl) (by rw [ht]; rfl) h sets

/-- **C09** for the regenerated exporter: parse-then-export of an accepted V9 packet whose governing templates are
    lossless returns the bytes the packet occupied (PARTIAL exactly as `C09_partial`: same hypothesis) -/
theorem C09_export_generated_partial (c : Config) (ht : c.t = Generated.tables)
    (st st' : PState) (i : Bytes) (h : List Nat) (ss : List V9Set) (rest : Bytes)
    (hp : parseV9 c st i = (st', .ok (.v9 h ss, rest)))
    (hl : V9Lossless c st ss = true) :
    runL c.vc Generated.v9ExportProg [("self", treeOfV9 c h ss)] = .ok (toBE 2 9 ++ i.take (i.length - rest.length)) := by
  rw [Export_v9_is_modelled c ht]
  exact C09_partial_generated c ht st st' i h ss rest hp hl

/-- **C10** for the regenerated exporter (PARTIAL exactly as `C10_partial`) -/
theorem C10_export_generated_partial (c : Config) (ht : c.t = Generated.tables)
    (st st' : PState) (i : Bytes) (h : List Nat) (ss : List IpSet) (rest : Bytes)
    (hp : parseIpfix c st i = (st', .ok (.ipfix h ss, rest)))
    (hl : IpLossless c st h ss = true) :
    runL c.vc Generated.ipExportProg [("self", treeOfIpfix c h ss)] = .ok (toBE 2 10 ++ i.take (i.length - rest.length)) := by
  rw [Export_ipfix_is_modelled c ht]
  exact C10_partial_generated c ht st st' i h ss rest hp hl

/-- **C01** (export clause) for the regenerated exporters: no parse result makes them panic -/
theorem C01_export_generated_no_panic (allowed : List Nat) (uf : Bool) (st : PState) (buf : Bytes) (pkts : List Packet)
    (h : (parseBytes { t := Generated.tables, allowed := allowed, unknownFields := uf } st buf).2 = .done pkts) :
    (∀ hd ss, Packet.v9 hd ss ∈ pkts →
      runL (Config.vc { t := Generated.tables, allowed := allowed, unknownFields := uf }) Generated.v9ExportProg
        [("self", treeOfV9 { t := Generated.tables, allowed := allowed, unknownFields := uf } hd ss)] ≠ .panic) ∧
    (∀ hd ss, Packet.ipfix hd ss ∈ pkts →
      runL (Config.vc { t := Generated.tables, allowed := allowed, unknownFields := uf }) Generated.ipExportProg
        [("self", treeOfIpfix { t := Generated.tables, allowed := allowed, unknownFields := uf } hd ss)] ≠ .panic) := by
  have key := C01_export_no_panic_generated allowed uf st buf pkts h
  constructor
  · intro hd ss hm hpanic
    rw [Export_v9_is_modelled _ rfl] at hpanic
    exact key _ hm (by simp [exportPacket, hpanic])
  · intro hd ss hm hpanic
    rw [Export_ipfix_is_modelled _ rfl] at hpanic
    exact key _ hm (by simp [exportPacket, hpanic])

/-- non-vacuity: the regenerated V9 program re-emits a concrete template + data packet byte for byte -/
example :
    runL (Config.vc { t := Generated.tables, allowed := [9] }) Generated.v9ExportProg
      [("self", treeOfV9 { t := Generated.tables, allowed := [9] } [9, 2, 1, 2, 3, 4]
        [{ id := 0, len := 12, body := .templates [{ id := 256, fieldCount := 1, fields := [{ typ := 1, len := 2 }] }] [] },
         { id := 256, len := 8, body := .data [[(0, 1, .num (.u16 0xABCD))], [(0, 1, .num (.u16 0x1234))]] [] }])] =
      .ok [0, 9, 0, 2, 0, 0, 0, 1, 0, 0, 0, 2, 0, 0, 0, 3, 0, 0, 0, 4,
           0, 0, 0, 12, 1, 0, 0, 1, 0, 1, 0, 2,
           1, 0, 0, 8, 0xAB, 0xCD, 0x12, 0x34] := by
  rw [Export_v9_is_modelled _ rfl]
  decide

end Netflow.Props
