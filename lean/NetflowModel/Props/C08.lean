/-
  Props/C08.lean — C08: re-exporting a decoded V5/V7 packet reproduces its bytes, and vice versa.

  * the emission order of the hand-written `to_be_bytes` is "the byte-carrying fields in wire
    order" (`C08_orders`);
  * export ∘ parse: for every V5/V7 packet returned by `parse_packet_by_version`, `to_be_bytes` is
    exactly the prefix of the input the packet occupied (`C08_reexport_v5/_v7`);
  * parse ∘ export: for every well-formed structure (`fixedValsWf`: values fit their widths, `version`
    carries the constant, `protocol_type` is computed from `protocol_number`, `count` = number of
    records), parsing the exported bytes yields exactly that structure and nothing is left over
    (`C08_parse_export_v5/_v7`, at `parseFixed` and at `parsePacket` level).
  Property theorems only; the generic layout lemmas are in Lemmas/A1Layout.lean.
-/
import NetflowModel.Lemmas.A1Layout
import NetflowModel.Props.C02
import NetflowModel.Generated
namespace Netflow.Props
open Netflow Preds

/-! ### 1. emission orders -/

/-- the names a faithful exporter emits, in order: fields that have a size and are not computed
    from another field (`Layout.exportNames`, restated here for the four layouts) -/
theorem C08_orders :
    Generated.v5HdrOrder = Generated.v5Hdr.exportNames ∧ Generated.v5RecOrder = Generated.v5Rec.exportNames ∧
    Generated.v7HdrOrder = Generated.v7Hdr.exportNames ∧ Generated.v7RecOrder = Generated.v7Rec.exportNames := by
  decide

/-- `exportNames` is what the task text says: names of the fields whose `tw ≠ 0` and whose kind is
    not `protoOf`, in layout order -/
theorem C08_exportNames_def (lay : Layout) :
    lay.exportNames =
      (lay.filter fun f => f.tw != 0 && (match f.kind with | .protoOf _ => false | _ => true)).map (·.name) := rfl

/-- all decidable side conditions of the round-trip theorems (layout well-formedness, emission
    orders, dispatch arms) hold for the tables generated from the current Rust source -/
theorem C08_generated_exportOk : Generated.tables.exportOk = true := by decide

/-! ### 2. export ∘ parse -/

/-- **C08, first half, V5**: a V5 packet returned for `buf` re-exports to exactly the bytes it
    occupied — `buf` minus the remaining input (any configuration whose tables satisfy `exportOk`). -/
theorem C08_reexport_v5 (c : Config) (hok : c.t.exportOk = true) (st st' : PState) (buf : Bytes)
    (h : List Nat) (rs : List (List Nat)) (rest : Bytes)
    (hp : parsePacket c st buf = (st', .ok (.v5 h rs) rest)) :
    exportFixed c.t.v5Hdr c.t.v5Rec c.t.v5HdrOrder c.t.v5RecOrder h rs = buf.take (buf.length - rest.length) := by
  simp only [Tables.exportOk, Bool.and_eq_true, beq_iff_eq, List.all_eq_true] at hok
  obtain ⟨⟨⟨⟨⟨⟨⟨⟨h5, r5⟩, h7⟩, r7⟩, o5h⟩, o5r⟩, o7h⟩, o7r⟩, hdisp⟩ := hok
  obtain ⟨v, kind, hv, _, hdk, hpv⟩ := parsePacket_ok_inv c st st' buf _ rest hp
  have hvk : v = kind := hdisp _ (lookup_mem hdk)
  obtain ⟨hl2, hver, _⟩ := beU_some hv
  rcases parseVersioned_ok_inv_a1 c st st' kind _ _ rest hpv with ⟨hk, _, h', rs', e, hpf⟩ | ⟨_, _, _, _, e, _⟩ | ⟨_, _, e⟩ | ⟨_, _, e⟩
  · simp only [Packet.v5.injEq] at e
    obtain ⟨e1, e2⟩ := e
    subst e1 e2
    rw [o5h, o5r]
    exact fixed_reexport c 5 _ _ h5 r5 buf hl2 (by rw [← hver, hvk, hk]) _ _ _ hpf
  · simp at e
  · simp at e
  · simp at e

/-- **C08, first half, V7**. -/
theorem C08_reexport_v7 (c : Config) (hok : c.t.exportOk = true) (st st' : PState) (buf : Bytes)
    (h : List Nat) (rs : List (List Nat)) (rest : Bytes)
    (hp : parsePacket c st buf = (st', .ok (.v7 h rs) rest)) :
    exportFixed c.t.v7Hdr c.t.v7Rec c.t.v7HdrOrder c.t.v7RecOrder h rs = buf.take (buf.length - rest.length) := by
  simp only [Tables.exportOk, Bool.and_eq_true, beq_iff_eq, List.all_eq_true] at hok
  obtain ⟨⟨⟨⟨⟨⟨⟨⟨h5, r5⟩, h7⟩, r7⟩, o5h⟩, o5r⟩, o7h⟩, o7r⟩, hdisp⟩ := hok
  obtain ⟨v, kind, hv, _, hdk, hpv⟩ := parsePacket_ok_inv c st st' buf _ rest hp
  have hvk : v = kind := hdisp _ (lookup_mem hdk)
  obtain ⟨hl2, hver, _⟩ := beU_some hv
  rcases parseVersioned_ok_inv_a1 c st st' kind _ _ rest hpv with ⟨_, _, _, _, e, _⟩ | ⟨hk, _, h', rs', e, hpf⟩ | ⟨_, _, e⟩ | ⟨_, _, e⟩
  · simp at e
  · simp only [Packet.v7.injEq] at e
    obtain ⟨e1, e2⟩ := e
    subst e1 e2
    rw [o7h, o7r]
    exact fixed_reexport c 7 _ _ h7 r7 buf hl2 (by rw [← hver, hvk, hk]) _ _ _ hpf
  · simp at e
  · simp at e

/-- **C08, first half, in the oracle's vocabulary**: `exportPacket` of a returned V5/V7 packet is
    `ok` of the first `wireLen` bytes of the buffer, `wireLen` being the length implied by the packet's
    own header (`Preds.wireLen`, the quantity `Preds.reexportOk` cuts the buffer with). -/
theorem C08_reexport_wireLen (c : Config) (hok : c.t.exportOk = true) (st st' : PState) (buf : Bytes)
    (pkt : Packet) (rest : Bytes) (hfix : isFixedPkt pkt = true)
    (hp : parsePacket c st buf = (st', .ok pkt rest)) :
    ∃ n, wireLen c pkt = some n ∧ n ≤ buf.length ∧ rest = buf.drop n ∧ exportPacket c pkt = some (.ok (buf.take n)) := by
  obtain ⟨v, kind, hv, _, hdk, hpv⟩ := parsePacket_ok_inv c st st' buf _ rest hp
  obtain ⟨hl2, _, _⟩ := beU_some hv
  rcases parseVersioned_ok_inv_a1 c st st' kind _ _ rest hpv with ⟨_, _, h', rs', e, hpf⟩ | ⟨_, _, h', rs', e, hpf⟩ | ⟨_, _, e⟩ | ⟨_, _, e⟩
  · subst e
    obtain ⟨a1, a2, _⟩ := parseFixed_consumes _ _ _ _ _ _ _ hpf
    rw [List.length_drop] at a1
    have := C08_reexport_v5 c hok st st' buf h' rs' rest hp
    refine ⟨_, rfl, by omega, by rw [a2, List.drop_drop, Nat.add_assoc], ?_⟩
    simp only [exportPacket, this, a2, List.length_drop]
    congr 3
    omega
  · subst e
    obtain ⟨a1, a2, _⟩ := parseFixed_consumes _ _ _ _ _ _ _ hpf
    rw [List.length_drop] at a1
    have := C08_reexport_v7 c hok st st' buf h' rs' rest hp
    refine ⟨_, rfl, by omega, by rw [a2, List.drop_drop, Nat.add_assoc], ?_⟩
    simp only [exportPacket, this, a2, List.length_drop]
    congr 3
    omega
  · subst e; simp [isFixedPkt] at hfix
  · subst e; simp [isFixedPkt] at hfix

/-! ### 3. parse ∘ export -/

/-- **C08, second half, V5**: for every well-formed structure (`fixedValsWf`: header and records fit
    the layouts — wire values `< 256^w`, `version = 5`, `protocol_type = ProtocolTypes::from
    (protocol_number)` — and `count` = number of records) parsing its `to_be_bytes` output, after the
    dispatcher consumed the two version bytes, yields exactly that structure and no remaining input. -/
theorem C08_parse_export_v5 (c : Config) (hok : c.t.exportOk = true) (h : List Nat) (rs : List (List Nat))
    (hwf : fixedValsWf c.t.protoFromU8 c.t.v5Hdr c.t.v5Rec h rs = true) :
    parseFixed c c.t.v5Hdr c.t.v5Rec ((exportFixed c.t.v5Hdr c.t.v5Rec c.t.v5HdrOrder c.t.v5RecOrder h rs).drop 2) =
      some ((h, rs), []) := by
  simp only [Tables.exportOk, Bool.and_eq_true, beq_iff_eq, List.all_eq_true] at hok
  obtain ⟨⟨⟨⟨⟨⟨⟨⟨h5, r5⟩, h7⟩, r7⟩, o5h⟩, o5r⟩, o7h⟩, o7r⟩, hdisp⟩ := hok
  rw [o5h, o5r]
  exact fixed_parse_export c 5 _ _ h5 r5 h rs hwf

/-- **C08, second half, V7**. -/
theorem C08_parse_export_v7 (c : Config) (hok : c.t.exportOk = true) (h : List Nat) (rs : List (List Nat))
    (hwf : fixedValsWf c.t.protoFromU8 c.t.v7Hdr c.t.v7Rec h rs = true) :
    parseFixed c c.t.v7Hdr c.t.v7Rec ((exportFixed c.t.v7Hdr c.t.v7Rec c.t.v7HdrOrder c.t.v7RecOrder h rs).drop 2) =
      some ((h, rs), []) := by
  simp only [Tables.exportOk, Bool.and_eq_true, beq_iff_eq, List.all_eq_true] at hok
  obtain ⟨⟨⟨⟨⟨⟨⟨⟨h5, r5⟩, h7⟩, r7⟩, o5h⟩, o5r⟩, o7h⟩, o7r⟩, hdisp⟩ := hok
  rw [o7h, o7r]
  exact fixed_parse_export c 7 _ _ h7 r7 h rs hwf

/-- **C08, second half, through the dispatcher, V5**: `parse_packet_by_version` applied to the exported
    bytes of a well-formed V5 structure returns that structure, nothing remaining, caches untouched
    (5 allowed and dispatched to the V5 parser). -/
theorem C08_parse_export_packet_v5 (c : Config) (hok : c.t.exportOk = true) (st : PState)
    (ha : c.allowed.contains 5 = true) (hd : c.t.dispatch.lookup 5 = some 5)
    (h : List Nat) (rs : List (List Nat)) (hwf : fixedValsWf c.t.protoFromU8 c.t.v5Hdr c.t.v5Rec h rs = true) :
    parsePacket c st (exportFixed c.t.v5Hdr c.t.v5Rec c.t.v5HdrOrder c.t.v5RecOrder h rs) = (st, .ok (.v5 h rs) []) := by
  have hpe := C08_parse_export_v5 c hok h rs hwf
  simp only [Tables.exportOk, Bool.and_eq_true, beq_iff_eq, List.all_eq_true] at hok
  obtain ⟨⟨⟨⟨⟨⟨⟨⟨h5, r5⟩, h7⟩, r7⟩, o5h⟩, o5r⟩, o7h⟩, o7r⟩, hdisp⟩ := hok
  have hh : wfFields c.t.protoFromU8 c.t.v5Hdr [] h = true := by
    simp only [fixedValsWf, Bool.and_eq_true] at hwf; exact hwf.1.1
  have ht := exportFixed_take2 5 c.t.v5Hdr c.t.v5Rec h5 h rs (wfFields_hdr_head _ 5 _ h5 h hh)
  rw [← o5h, ← o5r] at ht
  have hl : 2 ≤ (exportFixed c.t.v5Hdr c.t.v5Rec c.t.v5HdrOrder c.t.v5RecOrder h rs).length := by
    have := congrArg List.length ht
    rw [List.length_take, toBE_length] at this
    omega
  have hbe : beU 2 (exportFixed c.t.v5Hdr c.t.v5Rec c.t.v5HdrOrder c.t.v5RecOrder h rs) =
      some (5, (exportFixed c.t.v5Hdr c.t.v5Rec c.t.v5HdrOrder c.t.v5RecOrder h rs).drop 2) := by
    rw [beU_of_le hl, ht]; rfl
  have ha' : 5 ∈ c.allowed := by simpa using ha
  simp [parsePacket, hbe, ha', hd, parseVersioned, hpe]

/-- **C08, second half, through the dispatcher, V7**. -/
theorem C08_parse_export_packet_v7 (c : Config) (hok : c.t.exportOk = true) (st : PState)
    (ha : c.allowed.contains 7 = true) (hd : c.t.dispatch.lookup 7 = some 7)
    (h : List Nat) (rs : List (List Nat)) (hwf : fixedValsWf c.t.protoFromU8 c.t.v7Hdr c.t.v7Rec h rs = true) :
    parsePacket c st (exportFixed c.t.v7Hdr c.t.v7Rec c.t.v7HdrOrder c.t.v7RecOrder h rs) = (st, .ok (.v7 h rs) []) := by
  have hpe := C08_parse_export_v7 c hok h rs hwf
  simp only [Tables.exportOk, Bool.and_eq_true, beq_iff_eq, List.all_eq_true] at hok
  obtain ⟨⟨⟨⟨⟨⟨⟨⟨h5, r5⟩, h7⟩, r7⟩, o5h⟩, o5r⟩, o7h⟩, o7r⟩, hdisp⟩ := hok
  have hh : wfFields c.t.protoFromU8 c.t.v7Hdr [] h = true := by
    simp only [fixedValsWf, Bool.and_eq_true] at hwf; exact hwf.1.1
  have ht := exportFixed_take2 7 c.t.v7Hdr c.t.v7Rec h7 h rs (wfFields_hdr_head _ 7 _ h7 h hh)
  rw [← o7h, ← o7r] at ht
  have hl : 2 ≤ (exportFixed c.t.v7Hdr c.t.v7Rec c.t.v7HdrOrder c.t.v7RecOrder h rs).length := by
    have := congrArg List.length ht
    rw [List.length_take, toBE_length] at this
    omega
  have hbe : beU 2 (exportFixed c.t.v7Hdr c.t.v7Rec c.t.v7HdrOrder c.t.v7RecOrder h rs) =
      some (7, (exportFixed c.t.v7Hdr c.t.v7Rec c.t.v7HdrOrder c.t.v7RecOrder h rs).drop 2) := by
    rw [beU_of_le hl, ht]; rfl
  have ha' : 7 ∈ c.allowed := by simpa using ha
  simp [parsePacket, hbe, ha', hd, parseVersioned, hpe]

/-- the two halves compose: every V5/V7 structure the parser returns is well-formed in the sense of
    `fixedValsWf`, so parsing its re-export gives it back (no side condition on the tables needed) -/
theorem C08_parsed_wf (c : Config) (st st' : PState) (buf : Bytes) (h : List Nat) (rs : List (List Nat)) (rest : Bytes) :
    (parsePacket c st buf = (st', .ok (.v5 h rs) rest) → fixedValsWf c.t.protoFromU8 c.t.v5Hdr c.t.v5Rec h rs = true) ∧
    (parsePacket c st buf = (st', .ok (.v7 h rs) rest) → fixedValsWf c.t.protoFromU8 c.t.v7Hdr c.t.v7Rec h rs = true) := by
  constructor
  · intro hp
    obtain ⟨v, kind, _, _, _, hpv⟩ := parsePacket_ok_inv c st st' buf _ rest hp
    rcases parseVersioned_ok_inv_a1 c st st' kind _ _ rest hpv with ⟨_, _, h', rs', e, hpf⟩ | ⟨_, _, _, _, e, _⟩ | ⟨_, _, e⟩ | ⟨_, _, e⟩
    · simp only [Packet.v5.injEq] at e
      rw [e.1, e.2]
      exact fixedValsWf_of_parseFixed c _ _ _ _ _ _ hpf
    · simp at e
    · simp at e
    · simp at e
  · intro hp
    obtain ⟨v, kind, _, _, _, hpv⟩ := parsePacket_ok_inv c st st' buf _ rest hp
    rcases parseVersioned_ok_inv_a1 c st st' kind _ _ rest hpv with ⟨_, _, _, _, e, _⟩ | ⟨_, _, h', rs', e, hpf⟩ | ⟨_, _, e⟩ | ⟨_, _, e⟩
    · simp at e
    · simp only [Packet.v7.injEq] at e
      rw [e.1, e.2]
      exact fixedValsWf_of_parseFixed c _ _ _ _ _ _ hpf
    · simp at e
    · simp at e

/-! ### 4. instantiation for the generated tables, non-vacuity -/

/-- the configuration the crate builds from the generated tables -/
abbrev genCfg' (allowed : List Nat) (uf : Bool := true) : Config :=
  { t := Generated.tables, allowed := allowed, unknownFields := uf }

/-- **C08 for the generated tables, first half**: every allowed set, cache state and buffer; every
    V5 or V7 packet returned re-exports to the bytes it occupied. -/
theorem C08_generated_reexport (allowed : List Nat) (uf : Bool) (st st' : PState) (buf : Bytes)
    (h : List Nat) (rs : List (List Nat)) (rest : Bytes) :
    (parsePacket (genCfg' allowed uf) st buf = (st', .ok (.v5 h rs) rest) →
      exportFixed Generated.v5Hdr Generated.v5Rec Generated.v5HdrOrder Generated.v5RecOrder h rs =
        buf.take (buf.length - rest.length)) ∧
    (parsePacket (genCfg' allowed uf) st buf = (st', .ok (.v7 h rs) rest) →
      exportFixed Generated.v7Hdr Generated.v7Rec Generated.v7HdrOrder Generated.v7RecOrder h rs =
        buf.take (buf.length - rest.length)) :=
  ⟨C08_reexport_v5 (genCfg' allowed uf) C08_generated_exportOk st st' buf h rs rest,
   C08_reexport_v7 (genCfg' allowed uf) C08_generated_exportOk st st' buf h rs rest⟩

/-- **C08 for the generated tables, second half** (through the dispatcher): every well-formed V5 (V7)
    structure is what `parse_packet_by_version` returns for its `to_be_bytes` output. -/
theorem C08_generated_parse_export (allowed : List Nat) (uf : Bool) (st : PState) (h : List Nat) (rs : List (List Nat)) :
    (5 ∈ allowed → fixedValsWf Generated.tables.protoFromU8 Generated.v5Hdr Generated.v5Rec h rs = true →
      parsePacket (genCfg' allowed uf) st
        (exportFixed Generated.v5Hdr Generated.v5Rec Generated.v5HdrOrder Generated.v5RecOrder h rs) =
        (st, .ok (.v5 h rs) [])) ∧
    (7 ∈ allowed → fixedValsWf Generated.tables.protoFromU8 Generated.v7Hdr Generated.v7Rec h rs = true →
      parsePacket (genCfg' allowed uf) st
        (exportFixed Generated.v7Hdr Generated.v7Rec Generated.v7HdrOrder Generated.v7RecOrder h rs) =
        (st, .ok (.v7 h rs) [])) :=
  ⟨fun h5 hwf => C08_parse_export_packet_v5 (genCfg' allowed uf) C08_generated_exportOk st (by simpa using h5)
      (show Generated.dispatch.lookup 5 = some 5 by decide) h rs hwf,
   fun h7 hwf => C08_parse_export_packet_v7 (genCfg' allowed uf) C08_generated_exportOk st (by simpa using h7)
      (show Generated.dispatch.lookup 7 = some 7 by decide) h rs hwf⟩

/-- a one-record V5 packet with distinct values in every field (equal-width neighbours differ, so a
    transposition in the exporter would show) -/
def v5One : Bytes :=
  [0, 5, 0, 1, 0, 0, 0, 1, 0, 0, 0, 2, 0, 0, 0, 3, 0, 0, 0, 4, 5, 6, 0, 7,
   10, 0, 0, 1, 10, 0, 0, 2, 10, 0, 0, 254, 0, 11, 0, 12, 0, 0, 0, 13, 0, 0, 0, 14, 0, 0, 0, 15, 0, 0, 0, 16,
   0x12, 0x34, 0xfe, 0xdc, 17, 18, 6, 19, 0, 20, 0, 21, 22, 23, 0, 24]

def v5OneHdr : List Nat := [5, 1, 1, 2, 3, 4, 5, 6, 7]
def v5OneRec : List Nat :=
  [0x0a000001, 0x0a000002, 0x0a0000fe, 11, 12, 13, 14, 15, 16, 0x1234, 0xfedc, 17, 18, 6, 6, 19, 20, 21, 22, 23, 24]

/-- non-vacuity of `C08_reexport_v5`: the model parses `v5One ++ [9, 9]` to the expected structure,
    leaving `[9, 9]` … -/
example : parsePacket (genCfg' [5, 7, 9, 10]) {} (v5One ++ [9, 9]) = ({}, .ok (.v5 v5OneHdr [v5OneRec]) [9, 9]) := by
  decide +kernel

/-- … and the re-export is the 72 bytes the packet occupied (evaluated, not via the theorem) -/
example : exportFixed Generated.v5Hdr Generated.v5Rec Generated.v5HdrOrder Generated.v5RecOrder v5OneHdr [v5OneRec] =
    (v5One ++ [9, 9]).take ((v5One ++ [9, 9]).length - [9, 9].length) := by
  decide +kernel

/-- non-vacuity of `C08_parse_export_v5`: the structure is well-formed … -/
example : fixedValsWf Generated.tables.protoFromU8 Generated.v5Hdr Generated.v5Rec v5OneHdr [v5OneRec] = true := by
  decide +kernel

/-- … a structure whose `count` differs from its number of records is not (the property's premise) -/
example : fixedValsWf Generated.tables.protoFromU8 Generated.v5Hdr Generated.v5Rec v5OneHdr [] = false := by
  decide +kernel

/-- … and parsing its export returns it (evaluated) -/
example : parsePacket (genCfg' [5]) {}
    (exportFixed Generated.v5Hdr Generated.v5Rec Generated.v5HdrOrder Generated.v5RecOrder v5OneHdr [v5OneRec]) =
    ({}, .ok (.v5 v5OneHdr [v5OneRec]) []) := by
  decide +kernel

/-- V7, two records: parse, re-export and well-formedness evaluated on a concrete packet -/
def v7Two : Bytes :=
  [0, 7, 0, 2, 0, 0, 0, 1, 0, 0, 0, 2, 0, 0, 0, 3, 0, 0, 0, 4, 0, 0, 0, 0] ++
  [10, 0, 0, 1, 10, 0, 0, 2, 10, 0, 0, 254, 0, 11, 0, 12, 0, 0, 0, 13, 0, 0, 0, 14, 0, 0, 0, 15, 0, 0, 0, 16,
   0x12, 0x34, 0xfe, 0xdc, 17, 18, 17, 19, 0, 20, 0, 21, 22, 23, 0, 24, 192, 168, 0, 1] ++
  [10, 0, 0, 3, 10, 0, 0, 4, 10, 0, 0, 253, 0, 31, 0, 32, 0, 0, 0, 33, 0, 0, 0, 34, 0, 0, 0, 35, 0, 0, 0, 36,
   0xab, 0xcd, 0x00, 0x35, 37, 38, 47, 39, 0, 40, 0, 41, 42, 43, 0, 44, 192, 168, 0, 2]

example :
    (match parsePacket (genCfg' [7]) {} v7Two with
     | (_, .ok (.v7 h rs) rest) =>
       rs.length == 2 && rest.isEmpty &&
       (exportFixed Generated.v7Hdr Generated.v7Rec Generated.v7HdrOrder Generated.v7RecOrder h rs == v7Two) &&
       fixedValsWf Generated.tables.protoFromU8 Generated.v7Hdr Generated.v7Rec h rs
     | _ => false) = true := by
  decide +kernel

end Netflow.Props

namespace Netflow.Props
open Netflow Preds

/-! ### 5. the oracle predicate `reexportOk … isFixedPkt` along a whole `parse_bytes` run -/

/-- one step of the loop: a returned packet has a header-implied length `n`, the rest is `buf.drop n`,
    and if it is V5/V7 its export is the first `n` bytes -/
theorem C08_step (c : Config) (hok : c.t.exportOk = true) (hf : c.t.framingOk = true) (st st' : PState) (buf : Bytes)
    (pkt : Packet) (rest : Bytes) (hp : parsePacket c st buf = (st', .ok pkt rest)) :
    ∃ n, wireLen c pkt = some n ∧ rest = buf.drop n ∧
      (isFixedPkt pkt = true → exportPacket c pkt = some (.ok (buf.take n))) := by
  obtain ⟨v, kind, hv, _, _, hpv⟩ := parsePacket_ok_inv c st st' buf pkt rest hp
  obtain ⟨m, hw, _, hr⟩ := C02_versioned_ok c hf _ _ _ _ _ _ hpv
  refine ⟨2 + m, hw, by rw [hr, List.drop_drop], ?_⟩
  intro hfix
  obtain ⟨n, hn, _, _, hex⟩ := C08_reexport_wireLen c hok st st' buf pkt rest hfix hp
  rw [hw, Option.some.injEq] at hn
  rw [hn]; exact hex

/-- **C08 along a whole run, in the oracle's vocabulary** (every fuel): the re-export of every V5/V7
    packet in the result of `parse_bytes` is the slice of the buffer that packet occupied. -/
theorem C08_stream_fuel (c : Config) (hok : c.t.exportOk = true) (hf : c.t.framingOk = true) :
    ∀ (fuel : Nat) (st st' : PState) (buf : Bytes) (pkts : List Packet),
      parseBytesF c fuel st buf = (st', .done pkts) →
      reexportOk c isFixedPkt buf pkts (pkts.map (exportPacket c)) = true := by
  intro fuel
  induction fuel with
  | zero => intro st st' buf pkts h; simp [parseBytesF] at h
  | succ fuel ih =>
    intro st st' buf pkts h
    unfold parseBytesF at h
    by_cases he : buf.isEmpty = true
    · simp only [he, ↓reduceIte, Prod.mk.injEq, Outcome.done.injEq] at h
      rw [← h.2]; rfl
    · simp only [he, Bool.false_eq_true, ↓reduceIte] at h
      cases hp : parsePacket c st buf with
      | mk st1 step =>
        simp only [hp] at h
        cases step with
        | ok pkt rest =>
          obtain ⟨n, hw, hr, hex⟩ := C08_step c hok hf st st1 buf pkt rest hp
          have hhead : (!isFixedPkt pkt || exportPacket c pkt == some (.ok (buf.take n))) = true := by
            cases hfx : isFixedPkt pkt with
            | false => rfl
            | true => simp [hex hfx]
          simp only at h
          by_cases hre : rest.isEmpty = true
          · simp only [hre, ↓reduceIte, Prod.mk.injEq, Outcome.done.injEq] at h
            rw [← h.2]
            simp only [List.map_cons, List.map_nil, reexportOk, hw, hhead, Bool.true_and]
          · simp only [hre, Bool.false_eq_true, ↓reduceIte] at h
            cases hrec : parseBytesF c fuel st1 rest with
            | mk st2 out =>
              simp only [hrec, Prod.mk.injEq] at h
              cases out with
              | done ps =>
                simp only [Outcome.cons, Outcome.done.injEq] at h
                have := ih _ _ _ _ hrec
                rw [← h.2]
                simp only [List.map_cons, reexportOk, hw, hhead, Bool.true_and]
                rw [← hr]; exact this
              | panic ps => simp [Outcome.cons] at h
              | overflow ps => simp [Outcome.cons] at h
        | fail e =>
          simp only [Prod.mk.injEq, Outcome.done.injEq] at h
          rw [← h.2]
          simp [reexportOk, wireLen, exportPacket]
        | unallowed =>
          simp only [Prod.mk.injEq, Outcome.done.injEq] at h
          rw [← h.2]; rfl
        | panic => simp at h
        | overflow => simp at h

/-- **C08 for `parse_bytes` as modelled** (fuel `|buf| + 1`). -/
theorem C08_stream (c : Config) (hok : c.t.exportOk = true) (hf : c.t.framingOk = true) (st st' : PState)
    (buf : Bytes) (pkts : List Packet) (h : parseBytes c st buf = (st', .done pkts)) :
    reexportOk c isFixedPkt buf pkts (pkts.map (exportPacket c)) = true :=
  C08_stream_fuel c hok hf _ _ _ _ _ h

/-- **C08 along a run for the generated tables**: every allowed set, cache state and buffer. -/
theorem C08_generated_stream (allowed : List Nat) (uf : Bool) (st st' : PState) (buf : Bytes) (pkts : List Packet)
    (h : parseBytes (genCfg' allowed uf) st buf = (st', .done pkts)) :
    reexportOk (genCfg' allowed uf) isFixedPkt buf pkts (pkts.map (exportPacket (genCfg' allowed uf))) = true :=
  C08_stream _ C08_generated_exportOk C02_generated_framing st st' buf pkts h

/-- non-vacuity: a V7 packet with two records, a V5 packet with one, and a stray byte -/
example :
    let buf := v7Two ++ v5One ++ [9]
    let pkts := match (parseBytes (genCfg' [5, 7, 9, 10]) {} buf).2 with | .done ps => ps | _ => []
    (pkts.length == 3 && reexportOk (genCfg' [5, 7, 9, 10]) isFixedPkt buf pkts
      (pkts.map (exportPacket (genCfg' [5, 7, 9, 10])))) = true := by
  decide +kernel

end Netflow.Props
