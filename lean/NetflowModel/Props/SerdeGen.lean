/-
  Props/SerdeGen.lean — C16: the JSON member schema REGENERATED FROM THE SOURCE is the one the modelled serialiser writes.

  `Generated.serdeSchema` is read by tools/translate_serde.py from every `derive(Serialize)` struct / enum of lib.rs, v9.rs, ipfix.rs,
  data_number.rs on this run: member order, `skip_serializing`, `skip_serializing_if = "Option::is_none"`, `untagged`.
  `JsonSchema.modelSchema` is the table the lemmas of JsonSchema.lean tie to the hand-written `toJ` (for symbolic packets: every lemma
  there holds for every value).  `Serde_schema_is_modelled` is the equality; the `C16_…_generated` corollaries restate the member
  lemmas against the regenerated table.  A renamed, reordered, newly skipped or no longer skipped member (seeds C16-e, C16-f) changes
  `Generated.serdeSchema` and these theorems stop checking.
-/
import NetflowModel.JsonSchema
import NetflowModel.GeneratedSerde
import NetflowModel.Generated
namespace Netflow.Props
open Netflow Netflow.JsonSchema

/-- the schema read from the source, restricted to the result types, IS the modelled schema (names, order, skip attributes, untagged) -/
theorem Serde_schema_is_modelled :
    Generated.serdeSchema.filter (fun e => modelled.contains e.1) = modelSchema := by decide

/-- members of a type that the regenerated schema says are always written -/
def alwaysG (ty : String) : List String :=
  match Generated.serdeSchema.lookup ty with
  | some (_, ms) => (ms.filter fun m => m.2 == "").map (·.1)
  | none => []

theorem Serde_always_generated : ∀ ty ∈ modelled, alwaysG ty = always ty := by decide

/-- the V9 / IPFIX header structs are written through the layouts generated from the same declarations (`layoutJ`): their member
    names in the regenerated serde schema are the layout's field names, in order -/
theorem Serde_headers_are_layouts :
    alwaysG "v9::Header" = Generated.v9Hdr.map (·.name) ∧ alwaysG "ipfix::Header" = Generated.ipHdr.map (·.name) := by decide

/-- the same for V5 / V7 (headers and records are written through `layoutJ` of the layouts generated from the same struct
    declarations): the serde member names of the regenerated schema are the layout's field names, in order, none skipped or renamed;
    the packet structs are `header`, `flowsets` -/
theorem Serde_fixed_are_layouts :
    alwaysG "v5::Header" = Generated.v5Hdr.map (·.name) ∧ alwaysG "v5::FlowSet" = Generated.v5Rec.map (·.name) ∧
    alwaysG "v7::Header" = Generated.v7Hdr.map (·.name) ∧ alwaysG "v7::FlowSet" = Generated.v7Rec.map (·.name) ∧
    alwaysG "v5::V5" = ["header", "flowsets"] ∧ alwaysG "v7::V7" = ["header", "flowsets"] ∧
    (∀ ty ∈ ["v5::V5", "v5::Header", "v5::FlowSet", "v7::V7", "v7::Header", "v7::FlowSet", "v9::Header", "ipfix::Header"],
      (match Generated.serdeSchema.lookup ty with
       | some (cont, ms) => cont == "" && ms.all (fun m => m.2 == "")
       | none => false) = true) := by decide

/-- **C16** (members, V9 packet): the object `toJ` writes for a V9 packet has exactly the members the source declares -/
theorem C16_v9_members_generated (c : Config) (nm : JNames) (h : List Nat) (ss : List V9Set) :
    ∃ inner, toJ c nm (.v9 h ss) = .obj [("V9", inner)] ∧ objKeys inner = alwaysG "v9::V9" := by
  obtain ⟨inner, h1, h2⟩ := v9_members c nm h ss
  exact ⟨inner, h1, by rw [h2, Serde_always_generated _ (by decide)]⟩

/-- **C16** (members, V9 template flowset): `padding` is not written, every template and every field specifier carries exactly the
    members of the regenerated schema, in declaration order -/
theorem C16_v9_template_members_generated (c : Config) (nm : JNames) (ts : List V9Template) (pad : Bytes) :
    ∃ f : V9Template → JVal, v9BodyJ c nm (.templates ts pad) = .obj [("Template", .obj [("templates", .arr (ts.map f))])] ∧
      ["templates"] = alwaysG "v9::Templates" ∧ ∀ t, objKeys (f t) = alwaysG "v9::Template" := by
  obtain ⟨f, h1, h2, h3⟩ := v9_templates_members c nm ts pad
  refine ⟨f, h1, ?_, fun t => ?_⟩
  · rw [Serde_always_generated _ (by decide)]; exact h2
  · rw [Serde_always_generated _ (by decide)]; exact (h3 t).1

/-- **C16** (members, IPFIX field specifier): `enterprise_number` is written exactly when it is `Some` -/
theorem C16_ipfix_field_members_generated (c : Config) (nm : JNames) (f : IpTField) :
    objKeys (ipTFieldJ c nm f) = alwaysG "ipfix::TemplateField" ++ (if f.ent.isSome then ["enterprise_number"] else []) := by
  rw [Serde_always_generated _ (by decide)]
  exact (ipfix_field_members c nm f).1

/-- **C16** (members, error element) -/
theorem C16_error_members_generated (c : Config) (nm : JNames) (k : ErrKind) (rem : Bytes) :
    ∃ inner, toJ c nm (.error k rem) = .obj [("Error", inner)] ∧ objKeys inner = alwaysG "lib::NetflowPacketError" := by
  obtain ⟨inner, h1, h2⟩ := error_members c nm k rem
  exact ⟨inner, h1, by rw [h2, Serde_always_generated _ (by decide)]⟩

end Netflow.Props
