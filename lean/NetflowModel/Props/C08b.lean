/-
  Props/C08b.lean — C08, second half, stated with the property's OWN hypothesis.

  The property text says: "for every V5/V7 structure whose count equals its number of records,
  parsing its to_be_bytes output yields an equal structure".  Props/C08.lean proves the round trip
  under `fixedValsWf` (Lemmas/A1Layout.lean).  This file
   * splits `fixedValsWf` into the part that the Rust TYPES give (`typedVals`: as many values as
     fields, every wire value below `256 ^ width`), the property's own premise (`count` = number of
     records) and the part that NEITHER gives (`derivedAt`: the fields the parser fills with
     `#[nom(Value(..))]`, i.e. `version` = the constant and `protocol_type` =
     `ProtocolTypes::from(protocol_number)`) — `C08_wf_split`, `C08_generated_derived_*`;
   * shows that `fixedValsWf` is not only sufficient but NECESSARY for the round trip
     (`C08_struct_roundtrip_iff_*`), hence the property as worded is false of the model
     (`C08_struct_full_fails`), with the three requested concrete witnesses
     (`C08_parse_export_fails_version / _protocol_type / _range`);
   * restates the positive theorem with the weakest hypothesis (`C08_struct_roundtrip_partial_*`).
  Only new definitions/theorems; nothing existing is changed.
-/
import NetflowModel.Props.C08
namespace Netflow.Props
open Netflow Preds

/-! ### 1. `fixedValsWf` = what the types give ∧ what the derived fields must carry -/

/-- what the Rust TYPES of the struct guarantee about a value list: one value per field, and every
    field read from the wire (`u8`/`u16`/`u32`/`Ipv4Addr`) is below `256 ^ width`.  Nothing is said
    about `const`/`protoOf` fields: `version : u16` and `protocol_type : ProtocolTypes` are ordinary
    public fields that a caller may set to anything. -/
def typedVals : Layout → List Nat → Bool
  | [], [] => true
  | f :: fs, v :: vs =>
    (match f.kind with
     | .wire w => decide (v < 256 ^ w)
     | _ => true) && typedVals fs vs
  | _, _ => false

/-- the DERIVED fields carry what the parser would put there: field number `j + k` of `vals` is the
    constant (for `Value = "c"`) resp. `proto` of the source field (for
    `Value(ProtocolTypes::from(x))`), `k` running over the layout `lay` -/
def derivedAt (proto : Nat → Nat) : Layout → Nat → List Nat → Bool
  | [], _, _ => true
  | f :: fs, j, vals =>
    (match f.kind with
     | .const c => vals.getD j 0 == c
     | .protoOf s => vals.getD j 0 == proto ((vals.take j).getD s 0)
     | .wire _ => true) && derivedAt proto fs (j + 1) vals

theorem typedVals_length : ∀ (lay : Layout) (vs : List Nat), typedVals lay vs = true → vs.length = lay.length
  | [], [], _ => rfl
  | [], _ :: _, h => by simp [typedVals] at h
  | _ :: _, [], h => by simp [typedVals] at h
  | f :: fs, v :: vs, h => by
    simp only [typedVals, Bool.and_eq_true] at h
    simp [typedVals_length fs vs h.2]

/-- **`wfFields` splits**: well-formed = typed ∧ derived fields correct (any layout, any
    accumulator) -/
theorem wfFields_split (proto : Nat → Nat) :
    ∀ (lay : Layout) (acc vs : List Nat),
      wfFields proto lay acc vs = (typedVals lay vs && derivedAt proto lay acc.length (acc ++ vs)) := by
  intro lay
  induction lay with
  | nil =>
    intro acc vs
    cases vs with
    | nil => rfl
    | cons v vs => simp [wfFields, typedVals]
  | cons f fs ih =>
    intro acc vs
    cases vs with
    | nil => simp [wfFields, typedVals]
    | cons v vs =>
      have h1 : (acc ++ v :: vs).getD acc.length 0 = v := getD_append_length acc v vs 0
      have h2 : (acc ++ v :: vs).take acc.length = acc := List.take_left' rfl
      have h3 : acc ++ [v] ++ vs = acc ++ v :: vs := by simp
      have ih' := ih (acc ++ [v]) vs
      rw [List.length_append, List.length_singleton, h3] at ih'
      simp only [wfFields, typedVals, derivedAt, ih', h1, h2]
      cases f.kind <;> simp [Bool.and_assoc, Bool.and_comm, Bool.and_left_comm]

/-- the header/record instance (`acc = []`) -/
theorem wfFields_split0 (proto : Nat → Nat) (lay : Layout) (vs : List Nat) :
    wfFields proto lay [] vs = (typedVals lay vs && derivedAt proto lay 0 vs) := by
  simpa using wfFields_split proto lay [] vs

/-- the three ingredients of `fixedValsWf`, separately -/
def typedStruct (hdr rec : Layout) (h : List Nat) (rs : List (List Nat)) : Bool :=
  typedVals hdr h && rs.all (typedVals rec)

def derivedStruct (proto : Nat → Nat) (hdr rec : Layout) (h : List Nat) (rs : List (List Nat)) : Bool :=
  derivedAt proto hdr 0 h && rs.all (derivedAt proto rec 0)

/-- **C08: what `fixedValsWf` asks beyond the property's premise.**  `fixedValsWf` is the
    conjunction of (1) `typedStruct` — given by the Rust types, (2) `count = #records` — the
    property's own hypothesis, (3) `derivedStruct` — given by NEITHER. -/
theorem C08_wf_split (proto : Nat → Nat) (hdr rec : Layout) (h : List Nat) (rs : List (List Nat)) :
    fixedValsWf proto hdr rec h rs =
      (typedStruct hdr rec h rs && (hdr.get "count" h == rs.length) && derivedStruct proto hdr rec h rs) := by
  have hall : rs.all (wfFields proto rec []) = (rs.all (typedVals rec) && rs.all (derivedAt proto rec 0)) := by
    induction rs with
    | nil => rfl
    | cons r rs ih =>
      simp only [List.all_cons, ih, wfFields_split0]
      cases typedVals rec r <;> cases derivedAt proto rec 0 r <;> simp
  simp only [fixedValsWf, typedStruct, derivedStruct, wfFields_split0, hall]
  cases typedVals hdr h <;> cases derivedAt proto hdr 0 h <;> cases rs.all (typedVals rec) <;>
    cases rs.all (derivedAt proto rec 0) <;> simp

theorem getD_take_of_lt {α : Type} (l : List α) (n i : Nat) (d : α) (h : i < n) :
    (l.take n).getD i d = l.getD i d := by
  simp [List.getD_eq_getElem?_getD, h]

/-- for the generated V5 header the derived part is exactly "`version` is 5" … -/
theorem C08_generated_derived_v5Hdr (proto : Nat → Nat) (h : List Nat) :
    derivedAt proto Generated.v5Hdr 0 h = (Generated.v5Hdr.get "version" h == 5) := by
  have : Generated.v5Hdr.indexOf "version" = 0 := by decide
  rw [Layout.get, this]
  simp [derivedAt, Generated.v5Hdr]

/-- … for the generated V5 record exactly "`protocol_type` is `ProtocolTypes::from(protocol_number)`" -/
theorem C08_generated_derived_v5Rec (proto : Nat → Nat) (r : List Nat) :
    derivedAt proto Generated.v5Rec 0 r =
      (Generated.v5Rec.get "protocol_type" r == proto (Generated.v5Rec.get "protocol_number" r)) := by
  have h1 : Generated.v5Rec.indexOf "protocol_type" = 14 := by decide
  have h2 : Generated.v5Rec.indexOf "protocol_number" = 13 := by decide
  rw [Layout.get, Layout.get, h1, h2]
  simp [derivedAt, Generated.v5Rec]

theorem C08_generated_derived_v7Hdr (proto : Nat → Nat) (h : List Nat) :
    derivedAt proto Generated.v7Hdr 0 h = (Generated.v7Hdr.get "version" h == 7) := by
  have : Generated.v7Hdr.indexOf "version" = 0 := by decide
  rw [Layout.get, this]
  simp [derivedAt, Generated.v7Hdr]

theorem C08_generated_derived_v7Rec (proto : Nat → Nat) (r : List Nat) :
    derivedAt proto Generated.v7Rec 0 r =
      (Generated.v7Rec.get "protocol_type" r == proto (Generated.v7Rec.get "protocol_number" r)) := by
  have h1 : Generated.v7Rec.indexOf "protocol_type" = 14 := by decide
  have h2 : Generated.v7Rec.indexOf "protocol_number" = 13 := by decide
  rw [Layout.get, Layout.get, h1, h2]
  simp [derivedAt, Generated.v7Rec]

/-! ### 2. `fixedValsWf` is necessary and sufficient -/

/-- **C08, second half, exact form (V5)**: parsing the exported bytes gives the structure back
    IF AND ONLY IF the structure is `fixedValsWf` (any tables satisfying `exportOk`).
    "⇐" is `C08_parse_export_v5`; "⇒" because everything the parser returns is well-formed. -/
theorem C08_struct_roundtrip_iff_v5 (c : Config) (hok : c.t.exportOk = true) (h : List Nat) (rs : List (List Nat)) :
    parseFixed c c.t.v5Hdr c.t.v5Rec ((exportFixed c.t.v5Hdr c.t.v5Rec c.t.v5HdrOrder c.t.v5RecOrder h rs).drop 2) =
      some ((h, rs), []) ↔ fixedValsWf c.t.protoFromU8 c.t.v5Hdr c.t.v5Rec h rs = true :=
  ⟨fun hp => fixedValsWf_of_parseFixed c _ _ _ _ _ _ hp, C08_parse_export_v5 c hok h rs⟩

theorem C08_struct_roundtrip_iff_v7 (c : Config) (hok : c.t.exportOk = true) (h : List Nat) (rs : List (List Nat)) :
    parseFixed c c.t.v7Hdr c.t.v7Rec ((exportFixed c.t.v7Hdr c.t.v7Rec c.t.v7HdrOrder c.t.v7RecOrder h rs).drop 2) =
      some ((h, rs), []) ↔ fixedValsWf c.t.protoFromU8 c.t.v7Hdr c.t.v7Rec h rs = true :=
  ⟨fun hp => fixedValsWf_of_parseFixed c _ _ _ _ _ _ hp, C08_parse_export_v7 c hok h rs⟩

/-- whatever bytes are parsed (not only exported ones, any remaining input): a structure that comes
    out of the V5 parser has its derived fields set — so a structure with other values in them is
    not the parse of ANY byte string -/
theorem C08_parsed_derived_v5 (c : Config) (i : Bytes) (h : List Nat) (rs : List (List Nat)) (rest : Bytes)
    (hp : parseFixed c c.t.v5Hdr c.t.v5Rec i = some ((h, rs), rest)) :
    derivedStruct c.t.protoFromU8 c.t.v5Hdr c.t.v5Rec h rs = true := by
  have := fixedValsWf_of_parseFixed c _ _ _ _ _ _ hp
  rw [C08_wf_split, Bool.and_eq_true] at this
  exact this.2

theorem C08_parsed_derived_v7 (c : Config) (i : Bytes) (h : List Nat) (rs : List (List Nat)) (rest : Bytes)
    (hp : parseFixed c c.t.v7Hdr c.t.v7Rec i = some ((h, rs), rest)) :
    derivedStruct c.t.protoFromU8 c.t.v7Hdr c.t.v7Rec h rs = true := by
  have := fixedValsWf_of_parseFixed c _ _ _ _ _ _ hp
  rw [C08_wf_split, Bool.and_eq_true] at this
  exact this.2

/-- **necessity of `version = 5`, universally (generated tables)**: no V5 structure whose `version`
    field is not 5 is the parse of any bytes — in particular not of its own export -/
theorem C08_roundtrip_needs_version (allowed : List Nat) (uf : Bool) (i : Bytes) (h : List Nat)
    (rs : List (List Nat)) (rest : Bytes)
    (hp : parseFixed (genCfg' allowed uf) Generated.v5Hdr Generated.v5Rec i = some ((h, rs), rest)) :
    Generated.v5Hdr.get "version" h = 5 := by
  have := C08_parsed_derived_v5 (genCfg' allowed uf) i h rs rest hp
  simp only [derivedStruct, Bool.and_eq_true] at this
  have h1 := this.1
  rw [show (genCfg' allowed uf).t.v5Hdr = Generated.v5Hdr from rfl, C08_generated_derived_v5Hdr] at h1
  simpa using h1

/-- **necessity of `protocol_type = ProtocolTypes::from(protocol_number)`, universally** -/
theorem C08_roundtrip_needs_protocol_type (allowed : List Nat) (uf : Bool) (i : Bytes) (h : List Nat)
    (rs : List (List Nat)) (rest : Bytes)
    (hp : parseFixed (genCfg' allowed uf) Generated.v5Hdr Generated.v5Rec i = some ((h, rs), rest)) :
    ∀ r ∈ rs, Generated.v5Rec.get "protocol_type" r =
      Generated.tables.protoFromU8 (Generated.v5Rec.get "protocol_number" r) := by
  have := C08_parsed_derived_v5 (genCfg' allowed uf) i h rs rest hp
  simp only [derivedStruct, Bool.and_eq_true, List.all_eq_true] at this
  intro r hr
  have h1 := this.2 r hr
  rw [show (genCfg' allowed uf).t.v5Rec = Generated.v5Rec from rfl, C08_generated_derived_v5Rec] at h1
  simpa using h1

/-! ### 3. the property as worded, and why it fails -/

/-- **C08 second half exactly as the property words it** (V5, generated tables): the only premise
    is that the value lists have the Rust types (`typedStruct`) and that `count` equals the number of
    records. -/
def C08_struct_full : Prop :=
  ∀ (h : List Nat) (rs : List (List Nat)),
    typedStruct Generated.v5Hdr Generated.v5Rec h rs = true →
    Generated.v5Hdr.get "count" h = rs.length →
    parseFixed (genCfg' [5, 7, 9, 10]) Generated.v5Hdr Generated.v5Rec
      ((exportFixed Generated.v5Hdr Generated.v5Rec Generated.v5HdrOrder Generated.v5RecOrder h rs).drop 2) =
      some ((h, rs), [])

/-- the V5 header of `v5One` with `version` set to 6 (a `u16`, so a legal Rust value) -/
def v5HdrVer6 : List Nat := [6, 1, 1, 2, 3, 4, 5, 6, 7]

/-- the record of `v5One` (`protocol_number = 6`, Tcp) with `protocol_type` set to discriminant 17
    (`ProtocolTypes::Udp`) -/
def v5RecUdpName : List Nat :=
  [0x0a000001, 0x0a000002, 0x0a0000fe, 11, 12, 13, 14, 15, 16, 0x1234, 0xfedc, 17, 18, 6, 17, 19, 20, 21, 22, 23, 24]

/-- the record of `v5One` with `tos = 300`: representable in the model (`List Nat`), NOT in Rust
    (`tos : u8`) -/
def v5RecTos300 : List Nat :=
  [0x0a000001, 0x0a000002, 0x0a0000fe, 11, 12, 13, 14, 15, 16, 0x1234, 0xfedc, 17, 18, 6, 6, 300, 20, 21, 22, 23, 24]

/-- **necessity witness 1 (`version`)**: a typed V5 structure with `count` = 1 = number of records
    and `version = 6`.  `V5::parse` applied to its exported bytes (after the version word) returns a
    structure that differs exactly in the version field — the parser injects `Value = "5"` — and
    `parse_packet_by_version` applied to the whole export does not even reach the V5 parser: the
    exported version word is 6 (`UnknownVersion`; 6 is put in the allowed list to get that far). -/
theorem C08_parse_export_fails_version :
    typedStruct Generated.v5Hdr Generated.v5Rec v5HdrVer6 [v5OneRec] = true ∧
    Generated.v5Hdr.get "count" v5HdrVer6 = [v5OneRec].length ∧
    parseFixed (genCfg' [5, 7, 9, 10]) Generated.v5Hdr Generated.v5Rec
      ((exportFixed Generated.v5Hdr Generated.v5Rec Generated.v5HdrOrder Generated.v5RecOrder
        v5HdrVer6 [v5OneRec]).drop 2) = some ((v5OneHdr, [v5OneRec]), []) ∧
    v5OneHdr ≠ v5HdrVer6 ∧ v5OneHdr.drop 1 = v5HdrVer6.drop 1 ∧
    parsePacket (genCfg' [5, 6, 7, 9, 10]) {}
      (exportFixed Generated.v5Hdr Generated.v5Rec Generated.v5HdrOrder Generated.v5RecOrder
        v5HdrVer6 [v5OneRec]) = ({}, .fail (.unknownVersion
          ((exportFixed Generated.v5Hdr Generated.v5Rec Generated.v5HdrOrder Generated.v5RecOrder
            v5HdrVer6 [v5OneRec]).drop 2))) ∧
    parsePacket (genCfg' [5, 7, 9, 10]) {}
      (exportFixed Generated.v5Hdr Generated.v5Rec Generated.v5HdrOrder Generated.v5RecOrder
        v5HdrVer6 [v5OneRec]) = ({}, .unallowed) := by
  refine ⟨by decide +kernel, by decide +kernel, by decide +kernel, by decide, by decide, by decide +kernel,
    by decide +kernel⟩

/-- **necessity witness 2 (`protocol_type`)**: `protocol_number = 6` with `protocol_type = Udp`.
    `to_be_bytes` does not emit `protocol_type` at all; the parser recomputes it from the number, so
    the structure that comes back says `Tcp` (discriminant 6). -/
theorem C08_parse_export_fails_protocol_type :
    typedStruct Generated.v5Hdr Generated.v5Rec v5OneHdr [v5RecUdpName] = true ∧
    Generated.v5Hdr.get "count" v5OneHdr = [v5RecUdpName].length ∧
    Generated.v5Rec.get "protocol_type" v5RecUdpName ≠
      Generated.tables.protoFromU8 (Generated.v5Rec.get "protocol_number" v5RecUdpName) ∧
    parsePacket (genCfg' [5, 7, 9, 10]) {}
      (exportFixed Generated.v5Hdr Generated.v5Rec Generated.v5HdrOrder Generated.v5RecOrder
        v5OneHdr [v5RecUdpName]) = ({}, .ok (.v5 v5OneHdr [v5OneRec]) []) ∧
    v5OneRec ≠ v5RecUdpName ∧
    Generated.v5Rec.get "protocol_type" v5OneRec = 6 ∧ Generated.v5Rec.get "protocol_type" v5RecUdpName = 17 := by
  refine ⟨by decide +kernel, by decide +kernel, by decide +kernel, by decide +kernel, by decide, by decide +kernel,
    by decide +kernel⟩

/-- **necessity witness 3 (range)**: a value that does not fit its field (`tos = 300` in a one-byte
    field).  Only representable in the model — in Rust the field is a `u8` — so this part of
    `fixedValsWf` is NOT an extra hypothesis on the real crate; the exporter keeps the low byte
    (`300 % 256 = 44`). -/
theorem C08_parse_export_fails_range :
    typedStruct Generated.v5Hdr Generated.v5Rec v5OneHdr [v5RecTos300] = false ∧
    derivedStruct Generated.tables.protoFromU8 Generated.v5Hdr Generated.v5Rec v5OneHdr [v5RecTos300] = true ∧
    Generated.v5Hdr.get "count" v5OneHdr = [v5RecTos300].length ∧
    (∃ r', parsePacket (genCfg' [5, 7, 9, 10]) {}
      (exportFixed Generated.v5Hdr Generated.v5Rec Generated.v5HdrOrder Generated.v5RecOrder
        v5OneHdr [v5RecTos300]) = ({}, .ok (.v5 v5OneHdr [r']) []) ∧ r' ≠ v5RecTos300 ∧
      Generated.v5Rec.get "tos" r' = 44) := by
  refine ⟨by decide +kernel, by decide +kernel, by decide +kernel, ?_⟩
  refine ⟨[0x0a000001, 0x0a000002, 0x0a0000fe, 11, 12, 13, 14, 15, 16, 0x1234, 0xfedc, 17, 18, 6, 6, 44, 20, 21, 22,
    23, 24], by decide +kernel, by decide, by decide +kernel⟩

/-- **the property as worded is false of the model** (and of the crate: the two witnesses below are
    ordinary Rust values): `count` = number of records does not make a V5 structure round-trip. -/
theorem C08_struct_full_fails : ¬ C08_struct_full := by
  intro hfull
  have h := hfull v5HdrVer6 [v5OneRec] (by decide +kernel) (by decide +kernel)
  have h' := C08_parse_export_fails_version.2.2.1
  rw [h'] at h
  exact absurd h (by decide)

/-- the same with a correct `version`: the `protocol_type` witness alone refutes it -/
theorem C08_struct_full_fails_protocol_type :
    ¬ (parseFixed (genCfg' [5, 7, 9, 10]) Generated.v5Hdr Generated.v5Rec
        ((exportFixed Generated.v5Hdr Generated.v5Rec Generated.v5HdrOrder Generated.v5RecOrder
          v5OneHdr [v5RecUdpName]).drop 2) = some ((v5OneHdr, [v5RecUdpName]), [])) := by
  intro h
  have := C08_roundtrip_needs_protocol_type [5, 7, 9, 10] true _ _ _ _ h v5RecUdpName (by simp)
  exact absurd this (by decide +kernel)

/-! ### 4. the positive theorem with the weakest hypothesis -/

/-- **C08, second half, weakest hypothesis (V5, any tables with `exportOk`)**.
    PARTIAL w.r.t. the property text: besides the property's own premise (`count` = number of
    records) and what the Rust types give (`typedStruct`), it needs `derivedStruct`.  The fields it
    constrains — `version` in the header, `protocol_type` in every record — are DERIVED fields: the
    Rust parser never reads them from the wire, it sets them with `#[nom(Value = "5")]` resp.
    `#[nom(Value(ProtocolTypes::from(protocol_number)))]`; `to_be_bytes` emits `version` verbatim and
    does not emit `protocol_type` at all.  A structure with other values in them therefore cannot
    round-trip (`C08_parse_export_fails_version`, `C08_parse_export_fails_protocol_type`), and by
    `C08_struct_roundtrip_iff_v5` this hypothesis is exactly necessary and sufficient. -/
theorem C08_struct_roundtrip_partial_v5 (c : Config) (hok : c.t.exportOk = true) (h : List Nat) (rs : List (List Nat))
    (htyped : typedStruct c.t.v5Hdr c.t.v5Rec h rs = true)
    (hcount : c.t.v5Hdr.get "count" h = rs.length)
    (hder : derivedStruct c.t.protoFromU8 c.t.v5Hdr c.t.v5Rec h rs = true) :
    parseFixed c c.t.v5Hdr c.t.v5Rec ((exportFixed c.t.v5Hdr c.t.v5Rec c.t.v5HdrOrder c.t.v5RecOrder h rs).drop 2) =
      some ((h, rs), []) := by
  refine C08_parse_export_v5 c hok h rs ?_
  rw [C08_wf_split, htyped, hder, hcount]
  simp

/-- V7 (derived fields: `version = 7`, `protocol_type`). -/
theorem C08_struct_roundtrip_partial_v7 (c : Config) (hok : c.t.exportOk = true) (h : List Nat) (rs : List (List Nat))
    (htyped : typedStruct c.t.v7Hdr c.t.v7Rec h rs = true)
    (hcount : c.t.v7Hdr.get "count" h = rs.length)
    (hder : derivedStruct c.t.protoFromU8 c.t.v7Hdr c.t.v7Rec h rs = true) :
    parseFixed c c.t.v7Hdr c.t.v7Rec ((exportFixed c.t.v7Hdr c.t.v7Rec c.t.v7HdrOrder c.t.v7RecOrder h rs).drop 2) =
      some ((h, rs), []) := by
  refine C08_parse_export_v7 c hok h rs ?_
  rw [C08_wf_split, htyped, hder, hcount]
  simp

/-- **C08, second half, weakest hypothesis, generated tables, in field names and through the
    dispatcher**: a typed V5 (V7) structure with `count` = number of records, `version = 5` (`7`) and
    `protocol_type = ProtocolTypes::from(protocol_number)` in every record is what
    `parse_packet_by_version` returns for its `to_be_bytes` output, nothing remaining, caches
    untouched.  PARTIAL: the last two premises are not in the property text; they concern DERIVED
    fields (set by the parser with `Value`, see `C08_struct_roundtrip_partial_v5`), and they are
    necessary (`C08_roundtrip_needs_version`, `C08_roundtrip_needs_protocol_type`). -/
theorem C08_struct_roundtrip_partial (allowed : List Nat) (uf : Bool) (st : PState) (h : List Nat) (rs : List (List Nat)) :
    (5 ∈ allowed → typedStruct Generated.v5Hdr Generated.v5Rec h rs = true →
      Generated.v5Hdr.get "count" h = rs.length → Generated.v5Hdr.get "version" h = 5 →
      (∀ r ∈ rs, Generated.v5Rec.get "protocol_type" r =
        Generated.tables.protoFromU8 (Generated.v5Rec.get "protocol_number" r)) →
      parsePacket (genCfg' allowed uf) st
        (exportFixed Generated.v5Hdr Generated.v5Rec Generated.v5HdrOrder Generated.v5RecOrder h rs) =
        (st, .ok (.v5 h rs) [])) ∧
    (7 ∈ allowed → typedStruct Generated.v7Hdr Generated.v7Rec h rs = true →
      Generated.v7Hdr.get "count" h = rs.length → Generated.v7Hdr.get "version" h = 7 →
      (∀ r ∈ rs, Generated.v7Rec.get "protocol_type" r =
        Generated.tables.protoFromU8 (Generated.v7Rec.get "protocol_number" r)) →
      parsePacket (genCfg' allowed uf) st
        (exportFixed Generated.v7Hdr Generated.v7Rec Generated.v7HdrOrder Generated.v7RecOrder h rs) =
        (st, .ok (.v7 h rs) [])) := by
  constructor
  · intro ha ht hc hv hp
    refine (C08_generated_parse_export allowed uf st h rs).1 ha ?_
    rw [C08_wf_split, ht, hc]
    simp only [derivedStruct, C08_generated_derived_v5Hdr, hv, BEq.rfl, Bool.true_and, List.all_eq_true]
    intro r hr
    rw [C08_generated_derived_v5Rec, hp r hr]
    simp
  · intro ha ht hc hv hp
    refine (C08_generated_parse_export allowed uf st h rs).2 ha ?_
    rw [C08_wf_split, ht, hc]
    simp only [derivedStruct, C08_generated_derived_v7Hdr, hv, BEq.rfl, Bool.true_and, List.all_eq_true]
    intro r hr
    rw [C08_generated_derived_v7Rec, hp r hr]
    simp

/-- non-vacuity of `C08_struct_roundtrip_partial`: the structure of `v5One` meets all five premises … -/
example :
    typedStruct Generated.v5Hdr Generated.v5Rec v5OneHdr [v5OneRec] = true ∧
    Generated.v5Hdr.get "count" v5OneHdr = [v5OneRec].length ∧ Generated.v5Hdr.get "version" v5OneHdr = 5 ∧
    (∀ r ∈ [v5OneRec], Generated.v5Rec.get "protocol_type" r =
      Generated.tables.protoFromU8 (Generated.v5Rec.get "protocol_number" r)) := by
  refine ⟨by decide +kernel, by decide +kernel, by decide +kernel, ?_⟩
  intro r hr
  simp only [List.mem_singleton] at hr
  subst hr
  decide +kernel

/-- … and a structure with no records and `count = 0` does too (the premise on records is vacuous,
    the one on `version` is not) -/
example :
    typedStruct Generated.v7Hdr Generated.v7Rec [7, 0, 1, 2, 3, 4, 0] [] = true ∧
    Generated.v7Hdr.get "count" [7, 0, 1, 2, 3, 4, 0] = ([] : List (List Nat)).length ∧
    Generated.v7Hdr.get "version" [7, 0, 1, 2, 3, 4, 0] = 7 := by
  refine ⟨by decide +kernel, by decide +kernel, by decide +kernel⟩

/-- the split evaluated on the witnesses: typed yes, count yes, derived no -/
example :
    derivedStruct Generated.tables.protoFromU8 Generated.v5Hdr Generated.v5Rec v5HdrVer6 [v5OneRec] = false ∧
    derivedStruct Generated.tables.protoFromU8 Generated.v5Hdr Generated.v5Rec v5OneHdr [v5RecUdpName] = false ∧
    derivedStruct Generated.tables.protoFromU8 Generated.v5Hdr Generated.v5Rec v5OneHdr [v5OneRec] = true := by
  refine ⟨by decide +kernel, by decide +kernel, by decide +kernel⟩

end Netflow.Props
