/-
  Props/All.lean — imports every property module, so that the whole proof tree can be built and
  re-checked as ONE target: `lake build NetflowModel.Props.All`.
  (Requires the helper-lemma renames of `rename_clashes.sh`: before them the lemma families
  A1/A2/A3/A4/A5/A6 declare clashing names and cannot be imported together.)
-/
import NetflowModel.Props.C01
import NetflowModel.Props.C02
import NetflowModel.Props.C03
import NetflowModel.Props.C04
import NetflowModel.Props.C05
import NetflowModel.Props.C06
import NetflowModel.Props.C06Refine
import NetflowModel.Props.C07
import NetflowModel.Props.C07b
import NetflowModel.Props.C08
import NetflowModel.Props.C09
import NetflowModel.Props.C10
import NetflowModel.Props.C11
import NetflowModel.Props.C12
import NetflowModel.Props.C13
import NetflowModel.Props.C14
import NetflowModel.Props.C15
import NetflowModel.Props.C16
import NetflowModel.Props.C16b
import NetflowModel.Props.C17
import NetflowModel.Props.C17b
import NetflowModel.Props.H1
import NetflowModel.Props.Ctl
import NetflowModel.Props.ExportGen
import NetflowModel.Props.C04c
import NetflowModel.Props.C14b
import NetflowModel.Props.C06c
import NetflowModel.Props.C15b
import NetflowModel.Props.C15c
import NetflowModel.Props.C15d
import NetflowModel.Props.C08b
import NetflowModel.Props.C07c
import NetflowModel.Props.C07d
import NetflowModel.Props.C13b
import NetflowModel.Props.C13c
import NetflowModel.Props.C01c
import NetflowModel.Props.C16c
import NetflowModel.Props.SerdeGen
import NetflowModel.Props.NomGen
