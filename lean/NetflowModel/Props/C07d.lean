/-
  Props/C07d.lean — C07 for a template the CALLER removed from the public cache maps (`parser.v9_parser.templates.remove(&id)` …:
  template expiry; operation `forget` of the line protocol, `gen.fam_forget`).  The theorems of `Props/C07.lean` hold for EVERY state,
  so they apply to a state the caller edited; what is added here is that erasing an id from both maps of a protocol really makes the id
  unknown on canonical maps (`StateWf`, an invariant of every history: `C06_state_wf`), keeps the maps canonical, touches no other id
  and not the other protocol — and hence that data for the forgotten id is not decoded, whatever was decoded with it before.
  Second part: `adopt` (the caller copies the public maps of another parser): the parser then decodes exactly as the donor does.
-/
import NetflowModel.Props.C07
import NetflowModel.Props.C06
namespace Netflow.Props
open Netflow

/-- the caller's `templates.remove(&id); options_templates.remove(&id)` on the V9 parser -/
def forgetV9 (id : Nat) (st : PState) : PState := { st with v9T := amErase id st.v9T, v9O := amErase id st.v9O }
/-- the same on the IPFIX parser -/
def forgetIp (id : Nat) (st : PState) : PState := { st with ipT := amErase id st.ipT, ipO := amErase id st.ipO }

/-- the edited state is canonical again, so every invariant-carrying theorem applies to the history that follows -/
theorem C07_forget_wf (id : Nat) (st : PState) (h : StateWf st) : StateWf (forgetV9 id st) ∧ StateWf (forgetIp id st) := by
  obtain ⟨h1, h2, h3, h4⟩ := h
  exact ⟨⟨amSorted_amErase id _ h1, amSorted_amErase id _ h2, h3, h4⟩, ⟨h1, h2, amSorted_amErase id _ h3, amSorted_amErase id _ h4⟩⟩

/-- **C07 after `forget` (V9)**: whatever the history before (any canonical state), once the caller has removed `id`, a data flowset
    for `id` is a parse error and changes nothing -/
theorem C07_forget_v9 (c : Config) (st : PState) (id : Nat) (body : Bytes) (h : StateWf st)
    (h1 : id ≠ c.t.v9TemplateId) (h2 : id ≠ c.t.v9OptTemplateId) :
    v9ParseBody c (forgetV9 id st) id body = (forgetV9 id st, .err) :=
  C07_v9_unknown c (forgetV9 id st) id body h1 h2
    (amLookup_amErase_self_a2 id st.v9O h.2.1) (amLookup_amErase_self_a2 id st.v9T h.1)

/-- **C07 after `forget` (IPFIX)**: the set is not decoded, state unchanged -/
theorem C07_forget_ipfix (c : Config) (st : PState) (id : Nat) (body : Bytes) (h : StateWf st)
    (h1 : c.t.ipSetMinRange ≤ id) (h2 : id ≠ c.t.ipOptTemplateId) :
    ipParseBody c (forgetIp id st) id body = (forgetIp id st, .err) :=
  C07_ipfix_unknown c (forgetIp id st) id body h1 h2
    (amLookup_amErase_self_a2 id st.ipT h.2.2.1) (amLookup_amErase_self_a2 id st.ipO h.2.2.2)

/-- `forget` touches no other id and not the other protocol -/
theorem C07_forget_scoped (id j : Nat) (st : PState) (h : StateWf st) (hne : j ≠ id) :
    amLookup j (forgetV9 id st).v9T = amLookup j st.v9T ∧ amLookup j (forgetV9 id st).v9O = amLookup j st.v9O ∧
    (forgetV9 id st).ipT = st.ipT ∧ (forgetV9 id st).ipO = st.ipO ∧
    amLookup j (forgetIp id st).ipT = amLookup j st.ipT ∧ amLookup j (forgetIp id st).ipO = amLookup j st.ipO ∧
    (forgetIp id st).v9T = st.v9T ∧ (forgetIp id st).v9O = st.v9O := by
  obtain ⟨h1, h2, h3, h4⟩ := h
  refine ⟨?_, ?_, rfl, rfl, ?_, ?_, rfl, rfl⟩
  · show amLookup j (amErase id st.v9T) = _; rw [amLookup_amErase_a2 j id _ h1, if_neg hne]
  · show amLookup j (amErase id st.v9O) = _; rw [amLookup_amErase_a2 j id _ h2, if_neg hne]
  · show amLookup j (amErase id st.ipT) = _; rw [amLookup_amErase_a2 j id _ h3, if_neg hne]
  · show amLookup j (amErase id st.ipO) = _; rw [amLookup_amErase_a2 j id _ h4, if_neg hne]

/-- after ANY history of buffers from the fresh parser the state is canonical, so the two theorems above apply there -/
theorem C07_forget_after_history (c : Config) (bufs : List Bytes) (id : Nat) (body : Bytes)
    (h1 : id ≠ c.t.v9TemplateId) (h2 : id ≠ c.t.v9OptTemplateId) :
    let st := bufs.foldl (fun s b => (parseBytes c s b).1) ({} : PState)
    v9ParseBody c (forgetV9 id st) id body = (forgetV9 id st, .err) := by
  intro st
  have hwf : StateWf st := by
    have : ∀ (l : List Bytes) (s : PState), StateWf s → StateWf (l.foldl (fun s b => (parseBytes c s b).1) s) := by
      intro l
      induction l with
      | nil => intro s hs; exact hs
      | cons b l ih => intro s hs; exact ih _ (C06_state_wf c s b hs)
    exact this bufs {} C06_state_wf_empty
  exact C07_forget_v9 c st id body hwf h1 h2

/-- non-vacuity: a canonical state that holds id 256 as a V9 template; after `forget` the lookup is empty -/
example : StateWf ({ v9T := [(256, { id := 256, fieldCount := 1, fields := [{ typ := 1, len := 4 }] })] } : PState) ∧
    amLookup 256 (forgetV9 256 ({ v9T := [(256, { id := 256, fieldCount := 1, fields := [{ typ := 1, len := 4 }] })] } : PState)).v9T = none := by
  constructor
  · simp [StateWf, amSorted]
  · rfl

/-! ### `adopt`: the caller copies the public maps of another parser -/

/-- the caller's `a.v9_parser.templates = b.v9_parser.templates.clone(); a.v9_parser.options_templates = …` -/
def adoptV9 (dst src : PState) : PState := { dst with v9T := src.v9T, v9O := src.v9O }
/-- the same for the IPFIX maps -/
def adoptIp (dst src : PState) : PState := { dst with ipT := src.ipT, ipO := src.ipO }

/-- **after `adopt` (V9)** the parser decodes every V9 packet exactly as the donor does — whatever it had decoded, cached or derived
    before — and its V9 caches evolve as the donor's do (C06: the decoder reads only the two public maps; there is no other state) -/
theorem C06_adopt_v9 (c : Config) (dst src : PState) (i : Bytes) :
    (parseV9 c (adoptV9 dst src) i).2 = (parseV9 c src i).2 ∧
    AgreeV9 (parseV9 c (adoptV9 dst src) i).1 (parseV9 c src i).1 :=
  C06_v9_reads_only_v9 c (adoptV9 dst src) src i ⟨rfl, rfl⟩

/-- **after `adopt` (IPFIX)** -/
theorem C06_adopt_ipfix (c : Config) (dst src : PState) (i : Bytes) :
    (parseIpfix c (adoptIp dst src) i).2 = (parseIpfix c src i).2 ∧
    AgreeIp (parseIpfix c (adoptIp dst src) i).1 (parseIpfix c src i).1 :=
  C06_ipfix_reads_only_ipfix c (adoptIp dst src) src i ⟨rfl, rfl⟩

/-- `adopt` leaves the other protocol's maps alone and keeps canonical maps canonical -/
theorem C06_adopt_scoped (dst src : PState) (hd : StateWf dst) (hs : StateWf src) :
    (adoptV9 dst src).ipT = dst.ipT ∧ (adoptV9 dst src).ipO = dst.ipO ∧ (adoptIp dst src).v9T = dst.v9T ∧ (adoptIp dst src).v9O = dst.v9O ∧
    StateWf (adoptV9 dst src) ∧ StateWf (adoptIp dst src) :=
  ⟨rfl, rfl, rfl, rfl, ⟨hs.1, hs.2.1, hd.2.2.1, hd.2.2.2⟩, ⟨hd.1, hd.2.1, hs.2.2.1, hs.2.2.2⟩⟩

end Netflow.Props
