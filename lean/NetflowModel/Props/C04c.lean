/-
  Props/C04c.lean — property C04 for the header `count` AS RFC 3954 DEFINES IT.

  RFC 3954 §5.1: `Count` = "the total number of records in the Export Packet, which is the sum of
  Options FlowSet records, Template FlowSet records, and Data FlowSet records".  The crate (and
  `Spec.expMsg`, which demands `m.count = m.sets.length`) reads it as the number of FLOWSETS, so every
  theorem of Props/C04.lean silently excludes RFC-conformant packets in which some flowset holds more
  than one record (`C04_expMsg_rejects_rfc_count`).  The crate's flowset loop runs `count` times and
  skips an iteration when the input is exhausted, so such a packet still decodes correctly PROVIDED IT
  ENDS ITS BUFFER:

  * `C04_rfc_count_partial`          — print-then-parse for any `count ≥ number of flowsets`, packet alone
                                       in (or last in) the buffer; `…_expMsg_partial`, `…_generated_partial`,
                                       `…_parseBytes_partial` (one `parse_bytes` call), `…_last_partial` (after a
                                       chain of self-delimiting packets in the same buffer).
  * `rfcCount`, `C04_rfcCount_ge_sets`, `C04_rfcCount_gt_sets` — the RFC count of an abstract message.
  * `C04_rfc_stream_partial`         — the corollary for `m.count = rfcCount m`;
    `C04_rfc_stream_calls_partial`   — a whole stream of such messages, one message per `parse_bytes` call.
  * `C04_rfc_count_any_rest`, `C04_count_above_sets_not_last_fails` — the restriction "ends its buffer"
    is NECESSARY: followed by another packet, the next packet's bytes are read as a flowset and BOTH
    packets are lost (`C04_count_above_sets_not_last_result`).
  * `C04_optdata_multi_record_fails` — an options-data flowset with two records is decoded as ONE record
    and the second record is reported as padding.
  * `C04_count_below_sets_result`    — (remark) a count BELOW the number of flowsets silently drops flowsets
    (the left-over flowset is taken for a packet of a disallowed version and ignored without an error).
  Helpers: Lemmas/P3Count.lean.
-/
import NetflowModel.Props.C04
import NetflowModel.Props.C11
import NetflowModel.Lemmas.P3Count
namespace Netflow.Props
open Netflow Netflow.Spec Netflow.P3

/-! ### 1. any `count ≥ number of flowsets`, packet at the end of its buffer -/

/-- `C04Conformant` does not relate `count` to the flowsets at all (it only asks `count < 65536`);
    it is the same formula as the helper `P3.hdrSetsConf` -/
theorem C04Conformant_eq_hdrSetsConf (c : Config) (names : List (Nat × String)) (d : List (Nat × V9Def)) (m : V9Msg) :
    C04Conformant c names d m = hdrSetsConf c names d m := rfl

/-- **C04, RFC count (partial)** — print-then-parse for a V9 message whose header count is ANY number
    `≥` the number of flowsets (in particular the RFC 3954 record count, `C04_rfc_stream_partial`),
    when the packet ENDS the buffer.  `outs` are the flowsets `Spec.expV9Sets` expects for `m.sets`
    from the template memory `d`; the header is reported with the count as sent.
    Hypotheses, relative to a full-strength statement:
    * `harms`, `hl`, `hconf` exactly as in `C04_partial` (`C04Conformant` does not constrain the
      relation between `count` and the flowsets; it needs `count < 65536`);
    * nothing may follow the packet in the buffer — necessary: `C04_count_above_sets_not_last_fails`. -/
theorem C04_rfc_count_partial (c : Config) (names : List (Nat × String)) (harms : DnArmsOk c.t.dnArms) (hl : V9LayoutOk c.t)
    (hallow : c.allowed.contains 9 = true)
    (d d2 : List (Nat × V9Def)) (st : PState) (m : V9Msg) (outs : List V9Set)
    (hR : Repr9 d st) (hcount : m.sets.length ≤ m.count)
    (hexp : expV9Sets c names d m.sets = some (d2, some outs))
    (hconf : C04Conformant c names d m = true) :
    ∃ st', parsePacket c st (encV9 m) =
        (st', .ok (.v9 [9, m.count, m.sysUpTime, m.unixSecs, m.seq, m.sourceId] outs) []) ∧ Repr9 d2 st' := by
  obtain ⟨st', hp, hR'⟩ := parseV9_enc_le c names harms hl d d2 st m outs hR hcount hexp hconf
  refine ⟨st', ?_, hR'⟩
  have hd := hl.2.2.2.2.2.2.2
  have hv : beU 2 (toBE 2 9 ++ (toBE 2 m.count ++ (toBE 4 m.sysUpTime ++ (toBE 4 m.unixSecs ++ (toBE 4 m.seq ++
        (toBE 4 m.sourceId ++ m.sets.flatMap encV9FS)))))) = some (9, _) :=
    beU_toBE_append _ (by decide)
  simp only [parsePacket, encV9, List.append_assoc, hv, hallow, ↓reduceIte, hd, parseVersioned,
    Nat.reduceEqDiff]
  rw [hp]
  simp only [liftRes]

/-- the message with its count replaced by the number of its flowsets (the only count `Spec.expMsg` accepts) -/
def setsCounted (m : V9Msg) : V9Msg := { m with count := m.sets.length }

/-- **the same, stated against `Spec.expMsg`** for the message with its count replaced by
    `m.sets.length`: the parser returns the packet the specification expects for that message, except
    that the header carries the count as sent; the caches represent the updated memory. -/
theorem C04_rfc_count_expMsg_partial (c : Config) (names : List (Nat × String)) (harms : DnArmsOk c.t.dnArms)
    (hl : V9LayoutOk c.t) (hallow : c.allowed.contains 9 = true)
    (D D' : Defs) (st : PState) (m : V9Msg) (p : Packet)
    (hR : Repr9 D.v9 st) (hcount : m.sets.length ≤ m.count)
    (hexp : expMsg c names D (.v9 (setsCounted m)) = some (D', .pkt p))
    (hconf : C04Conformant c names D.v9 m = true) :
    ∃ outs st', p = .v9 [9, m.sets.length, m.sysUpTime, m.unixSecs, m.seq, m.sourceId] outs ∧
      parsePacket c st (encV9 m) = (st', .ok (.v9 [9, m.count, m.sysUpTime, m.unixSecs, m.seq, m.sourceId] outs) []) ∧
      Repr9 D'.v9 st' := by
  simp only [expMsg, setsCounted, ne_eq, not_true_eq_false, ↓reduceIte] at hexp
  cases he : expV9Sets c names D.v9 m.sets with
  | none => simp [he] at hexp
  | some r =>
    obtain ⟨d2, o⟩ := r
    cases o with
    | none => simp [he] at hexp
    | some outs =>
      simp only [he, Option.some.injEq, Prod.mk.injEq, Exp.pkt.injEq] at hexp
      obtain ⟨rfl, rfl⟩ := hexp
      obtain ⟨st', hp, hR'⟩ := C04_rfc_count_partial c names harms hl hallow D.v9 d2 st m outs hR hcount he hconf
      exact ⟨outs, st', rfl, hp, hR'⟩

/-- **for the shipped tables** (any allowed list containing 9, either feature setting) -/
theorem C04_rfc_count_generated_partial (allowed : List Nat) (uf : Bool) (hallow : allowed.contains 9 = true)
    (d d2 : List (Nat × V9Def)) (st : PState) (m : V9Msg) (outs : List V9Set)
    (hR : Repr9 d st) (hcount : m.sets.length ≤ m.count)
    (hexp : expV9Sets { t := Generated.tables, allowed := allowed, unknownFields := uf } Generated.protoNames d m.sets = some (d2, some outs))
    (hconf : C04Conformant { t := Generated.tables, allowed := allowed, unknownFields := uf } Generated.protoNames d m = true) :
    ∃ st', parsePacket { t := Generated.tables, allowed := allowed, unknownFields := uf } st (encV9 m) =
        (st', .ok (.v9 [9, m.count, m.sysUpTime, m.unixSecs, m.seq, m.sourceId] outs) []) ∧ Repr9 d2 st' :=
  C04_rfc_count_partial _ Generated.protoNames dnArmsOk_generated v9LayoutOk_generated hallow d d2 st m outs hR hcount hexp hconf

/-- **one `parse_bytes` call on the packet alone**: exactly the expected packet, nothing else. -/
theorem C04_rfc_count_parseBytes_partial (c : Config) (names : List (Nat × String)) (harms : DnArmsOk c.t.dnArms)
    (hl : V9LayoutOk c.t) (hf : c.t.framingOk = true) (hallow : c.allowed.contains 9 = true)
    (d d2 : List (Nat × V9Def)) (st : PState) (m : V9Msg) (outs : List V9Set)
    (hR : Repr9 d st) (hcount : m.sets.length ≤ m.count)
    (hexp : expV9Sets c names d m.sets = some (d2, some outs))
    (hconf : C04Conformant c names d m = true) :
    ∃ st', parseBytes c st (encV9 m) =
        (st', .done [.v9 [9, m.count, m.sysUpTime, m.unixSecs, m.seq, m.sourceId] outs]) ∧ Repr9 d2 st' := by
  obtain ⟨st', hp, hR'⟩ := C04_rfc_count_partial c names harms hl hallow d d2 st m outs hR hcount hexp hconf
  exact ⟨st', parseBytes_selfDelimiting c hf hp, hR'⟩

/-- **last in the buffer**: after a chain `ps` of self-delimiting packets (C11's `chainOk`) in the SAME
    buffer, the packet is decoded against the state the chain leaves (`Repr9` assumed of that state). -/
theorem C04_rfc_count_last_partial (c : Config) (names : List (Nat × String)) (harms : DnArmsOk c.t.dnArms)
    (hl : V9LayoutOk c.t) (hf : c.t.framingOk = true) (hallow : c.allowed.contains 9 = true)
    (st0 : PState) (ps : List Bytes) (hchain : chainOk c st0 ps = true)
    (d d2 : List (Nat × V9Def)) (m : V9Msg) (outs : List V9Set)
    (hR : Repr9 d (foldCalls c st0 ps).1) (hcount : m.sets.length ≤ m.count)
    (hexp : expV9Sets c names d m.sets = some (d2, some outs))
    (hconf : C04Conformant c names d m = true) :
    ∃ st', parseBytes c st0 (ps.flatten ++ encV9 m) =
        (st', .done ((foldCalls c st0 ps).2 ++ [.v9 [9, m.count, m.sysUpTime, m.unixSecs, m.seq, m.sourceId] outs])) ∧
      Repr9 d2 st' := by
  obtain ⟨st', hp, hR'⟩ := C04_rfc_count_parseBytes_partial c names harms hl hf hallow d d2 _ m outs hR hcount hexp hconf
  refine ⟨st', ?_, hR'⟩
  rw [C11_chain_append c hf st0 ps hchain (encV9 m), hp]
  simp [Outcome.prepend]

/-! ### 2. the RFC 3954 record count -/

/-- every flowset holds at least one record ⇒ the RFC count is at least the number of flowsets -/
theorem C04_rfcCount_ge_sets (m : V9Msg) (h : ∀ s ∈ m.sets, 1 ≤ fsRecords s) : m.sets.length ≤ rfcCount m :=
  length_le_rfcCount m h

/-- … and strictly larger as soon as one flowset holds two records: exactly the RFC-conformant
    packets that `Spec.expMsg` (hence `C04_partial`) does not cover -/
theorem C04_rfcCount_gt_sets (m : V9Msg) (h : ∀ s ∈ m.sets, 1 ≤ fsRecords s) (h2 : ∃ s ∈ m.sets, 2 ≤ fsRecords s) :
    m.sets.length < rfcCount m :=
  length_lt_sum_fsRecords m.sets h h2

/-- `Spec.expMsg` rejects every message whose count is the RFC count when some flowset holds two
    records (no flowset empty): the C04 theorems of Props/C04.lean are silent about them. -/
theorem C04_expMsg_rejects_rfc_count (c : Config) (names : List (Nat × String)) (D : Defs) (m : V9Msg)
    (h : ∀ s ∈ m.sets, 1 ≤ fsRecords s) (h2 : ∃ s ∈ m.sets, 2 ≤ fsRecords s) (hc : m.count = rfcCount m) :
    expMsg c names D (.v9 m) = none := by
  have := C04_rfcCount_gt_sets m h h2
  have hne : m.count ≠ m.sets.length := by omega
  simp only [expMsg, hne, ne_eq, not_false_eq_true, ↓reduceIte]

/-- **C04 for the RFC 3954 count (partial)**: a message whose header count is the number of records
    (`rfcCount`), none of whose flowsets is empty, conformant as in `C04_partial`, alone in / last in
    its buffer, is decoded to exactly the flowsets the specification expects. -/
theorem C04_rfc_stream_partial (c : Config) (names : List (Nat × String)) (harms : DnArmsOk c.t.dnArms) (hl : V9LayoutOk c.t)
    (hallow : c.allowed.contains 9 = true)
    (d d2 : List (Nat × V9Def)) (st : PState) (m : V9Msg) (outs : List V9Set)
    (hR : Repr9 d st) (hcount : m.count = rfcCount m) (hne : noEmptySet m = true)
    (hexp : expV9Sets c names d m.sets = some (d2, some outs))
    (hconf : C04Conformant c names d m = true) :
    ∃ st', parsePacket c st (encV9 m) =
        (st', .ok (.v9 [9, rfcCount m, m.sysUpTime, m.unixSecs, m.seq, m.sourceId] outs) []) ∧ Repr9 d2 st' := by
  have hle : m.sets.length ≤ m.count := by rw [hcount]; exact length_le_rfcCount_of_noEmptySet m hne
  have := C04_rfc_count_partial c names harms hl hallow d d2 st m outs hR hle hexp hconf
  rwa [hcount] at this

/-! #### a whole stream, one message per call -/

/-- what the specification expects for a stream of V9 messages with ARBITRARY header counts: the
    flowsets by `Spec.expV9Sets` (template memory threaded), the header as sent; `none` if some
    message is not conformant or not expressible -/
def expRfcStream (c : Config) (names : List (Nat × String)) : List (Nat × V9Def) → List V9Msg → Option (List (Nat × V9Def) × List Packet)
  | d, [] => some (d, [])
  | d, m :: ms =>
    match expV9Sets c names d m.sets with
    | some (d1, some outs) =>
      match expRfcStream c names d1 ms with
      | some (d2, ps) => some (d2, .v9 [9, m.count, m.sysUpTime, m.unixSecs, m.seq, m.sourceId] outs :: ps)
      | none => none
    | _ => none

/-- RFC conformance of a stream, threading the template memory: every header count is the RFC record
    count, no flowset is empty, and `C04Conformant` holds relative to the memory in force -/
def rfcStreamConf (c : Config) (names : List (Nat × String)) : List (Nat × V9Def) → List V9Msg → Bool
  | _, [] => true
  | d, m :: ms =>
    decide (m.count = rfcCount m) && noEmptySet m && C04Conformant c names d m &&
    match expV9Sets c names d m.sets with
    | some (d1, _) => rfcStreamConf c names d1 ms
    | none => true

/-- **C04, RFC-count stream (partial)**: a stream of V9 messages whose counts are the RFC 3954 record
    counts, delivered ONE MESSAGE PER `parse_bytes` CALL (one UDP datagram per call), is decoded to
    exactly the expected packets, each data flowset against the templates announced before it, and
    the caches finally represent the exporter's memory.  (Delivery of several such messages in ONE
    buffer does not work: `C04_count_above_sets_not_last_fails`.) -/
theorem C04_rfc_stream_calls_partial (c : Config) (names : List (Nat × String)) (harms : DnArmsOk c.t.dnArms)
    (hl : V9LayoutOk c.t) (hf : c.t.framingOk = true) (hallow : c.allowed.contains 9 = true) :
    ∀ (ms : List V9Msg) (d d' : List (Nat × V9Def)) (st : PState) (pkts : List Packet),
      Repr9 d st → expRfcStream c names d ms = some (d', pkts) → rfcStreamConf c names d ms = true →
      ∃ st', foldCalls c st (ms.map encV9) = (st', pkts) ∧ Repr9 d' st' := by
  intro ms
  induction ms with
  | nil =>
    intro d d' st pkts hR hexp _
    simp only [expRfcStream, Option.some.injEq, Prod.mk.injEq] at hexp
    obtain ⟨rfl, rfl⟩ := hexp
    exact ⟨st, rfl, hR⟩
  | cons m ms ih =>
    intro d d' st pkts hR hexp hconf
    simp only [expRfcStream] at hexp
    cases he : expV9Sets c names d m.sets with
    | none => simp [he] at hexp
    | some r =>
      obtain ⟨d1, o⟩ := r
      cases o with
      | none => simp [he] at hexp
      | some outs =>
        simp only [he] at hexp
        cases hs : expRfcStream c names d1 ms with
        | none => simp [hs] at hexp
        | some q =>
          obtain ⟨d2, ps⟩ := q
          simp only [hs, Option.some.injEq, Prod.mk.injEq] at hexp
          obtain ⟨rfl, rfl⟩ := hexp
          simp only [rfcStreamConf, he, Bool.and_eq_true, decide_eq_true_eq] at hconf
          obtain ⟨⟨⟨hc, hne⟩, hcf⟩, hrest⟩ := hconf
          have hle : m.sets.length ≤ m.count := by rw [hc]; exact length_le_rfcCount_of_noEmptySet m hne
          obtain ⟨st1, hp, hR1⟩ := C04_rfc_count_partial c names harms hl hallow d d1 st m outs hR hle he hcf
          obtain ⟨st2, hfc, hR2⟩ := ih d1 d2 st1 ps hR1 hs hrest
          refine ⟨st2, ?_, hR2⟩
          rw [List.map_cons, foldCalls_cons_selfDelimiting c hf hp, hfc]

/-! ### non-vacuity -/

namespace C04cEx
/-- data template 256 = (IPV4_SRC_ADDR/4, IN_BYTES/2), data template 257 = (PROTOCOL/1) -/
def t256 : V9Template := { id := 256, fieldCount := 2, fields := [⟨8, 4⟩, ⟨1, 2⟩] }
def t257 : V9Template := { id := 257, fieldCount := 1, fields := [⟨4, 1⟩] }
/-- options template 258 = (scope System/4; option 34 SAMPLING_INTERVAL/4) -/
def o258 : V9OptTemplate := { id := 258, scopeLen := 4, optLen := 4, scope := [⟨1, 4⟩], opts := [⟨34, 4⟩] }

/-- ONE template flowset holding TWO template records and one options-template flowset: 2 flowsets,
    RFC count 3 -/
def mT : V9Msg :=
  { count := 3, sysUpTime := 1, unixSecs := 2, seq := 3, sourceId := 4,
    sets := [.templates [t256, t257] [], .optTemplates [o258] [0, 0]] }
/-- one data flowset with THREE records (6 bytes each, 2 bytes padding), one with two 1-byte records,
    one options-data record: 3 flowsets, RFC count 6 -/
def mD : V9Msg :=
  { count := 6, sysUpTime := 5, unixSecs := 6, seq := 7, sourceId := 4,
    sets := [.data 256 [[[10, 0, 0, 1], [0, 9]], [[10, 0, 0, 2], [1, 0]], [[10, 0, 0, 3], [0, 0]]] [0, 0],
             .data 257 [[[6]], [[17]]] [],
             .data 258 [[[0, 0, 0, 1], [0, 0, 0, 100]]] []] }
/-- the follower used by the "not last" witness: a plain one-flowset data packet -/
def mNext : V9Msg :=
  { count := 1, sysUpTime := 5, unixSecs := 6, seq := 7, sourceId := 4,
    sets := [.data 256 [[[10, 0, 0, 1], [0, 9]]] []] }
/-- one template flowset with two template records, header count 2 (the RFC count) -/
def mT2 : V9Msg :=
  { count := 2, sysUpTime := 1, unixSecs := 2, seq := 3, sourceId := 4,
    sets := [.templates [t256, t257] []] }
end C04cEx
open C04cEx

/-- the two messages carry the RFC count, which exceeds the number of flowsets; `Spec.expMsg` rejects both -/
example : mT.count = rfcCount mT ∧ mT.sets.length < mT.count ∧ mD.count = rfcCount mD ∧ mD.sets.length < mD.count ∧
    expMsg genConfig Generated.protoNames {} (.v9 mT) = none := by decide

/-- hypotheses of `C04_rfc_count_partial` / `C04_rfc_stream_partial` hold for `mT` from the empty memory … -/
example : mT.sets.length ≤ mT.count ∧ mT.count = rfcCount mT ∧ noEmptySet mT = true ∧
    (expV9Sets genConfig Generated.protoNames [] mT.sets).isSome = true ∧
    C04Conformant genConfig Generated.protoNames [] mT = true ∧ genConfig.allowed.contains 9 = true := by
  decide +kernel

/-- … and the hypotheses of `C04_rfc_stream_calls_partial` for the stream `[mT, mD]`
    (`expRfcStream` yields two packets; `Repr9.empty` gives the start state) -/
example : rfcStreamConf genConfig Generated.protoNames [] [mT, mD] = true ∧
    ((expRfcStream genConfig Generated.protoNames [] [mT, mD]).map (·.2.length)) = some 2 := by
  decide +kernel

/-- the conclusion instantiated on the example stream: the data message (count 6, three flowsets) is
    decoded with the templates of the first call: 3 + 2 data records and one options record -/
example : (foldCalls genConfig {} [encV9 mT, encV9 mD]).2.map (fun p => match p with
      | .v9 h ss => (h.take 2, ss.map fun s => match s.body with
          | .data rs pad => (rs.length, pad.length) | .optData _ _ pad => (1, pad.length)
          | .templates ts pad => (ts.length, pad.length) | .optTemplates ts pad => (ts.length, pad.length))
      | _ => ([], [])) =
    [([9, 3], [(2, 0), (1, 2)]), ([9, 6], [(3, 2), (2, 0), (1, 0)])] := by
  decide +kernel

/-- the theorem applied to the example -/
example (d' : List (Nat × V9Def)) (pkts : List Packet)
    (h : expRfcStream genConfig Generated.protoNames [] [mT, mD] = some (d', pkts)) :
    ∃ st', foldCalls genConfig {} [encV9 mT, encV9 mD] = (st', pkts) ∧ Repr9 d' st' :=
  C04_rfc_stream_calls_partial genConfig Generated.protoNames dnArmsOk_generated v9LayoutOk_generated
    C02_generated_framing (by decide) [mT, mD] [] d' {} pkts Repr9.empty h (by decide +kernel)

/-- non-vacuity of `C04_rfc_count_expMsg_partial`: the spec expects a packet for the re-counted message -/
example : isPkt (expMsg genConfig Generated.protoNames {} (.v9 (setsCounted mT))) = true := by decide +kernel

/-- non-vacuity of `C04_rfc_count_last_partial`: `mT2` (count 2, one flowset) is not self-delimiting in
    C11's sense, but it may come LAST after a chain — here after a V5 packet in the same buffer -/
example : chainOk genConfig {} [C11ex.v5p] = true ∧ mT2.sets.length < mT2.count ∧
    (parseBytes genConfig {} (C11ex.v5p ++ encV9 mT2)).2.pkts.length = 2 := by
  decide +kernel

/-! ### 3. "alone or last in the buffer" is necessary -/

/-- `C04_rfc_count_partial` for the generated tables WITHOUT the restriction that the packet ends the
    buffer (i.e. with an arbitrary `rest`, as `C04_partial` has for `count = number of flowsets`) -/
def C04_rfc_count_any_rest : Prop :=
  ∀ (d d2 : List (Nat × V9Def)) (st : PState) (m : V9Msg) (outs : List V9Set) (rest : Bytes),
    Repr9 d st → m.sets.length ≤ m.count →
    expV9Sets genConfig Generated.protoNames d m.sets = some (d2, some outs) →
    C04Conformant genConfig Generated.protoNames d m = true →
    ∃ st', parsePacket genConfig st (encV9 m ++ rest) =
      (st', .ok (.v9 [9, m.count, m.sysUpTime, m.unixSecs, m.seq, m.sourceId] outs) rest) ∧ Repr9 d2 st'

/-- what really happens: `mT2` (ONE template flowset with TWO template records, RFC count 2) followed
    in the same buffer by the data packet `mNext`.  The second loop iteration reads the next packet's
    first four bytes `00 09 00 01` as a flowset header (id 9, length 1), finds no template 9 and the
    WHOLE buffer is reported as one `PartialParse` error: both packets are lost — although the
    templates of the first one HAVE been cached by then.  Delivered one per call both decode. -/
theorem C04_count_above_sets_not_last_result :
    parseBytes genConfig {} (encV9 mT2 ++ encV9 mNext) =
      ({ v9T := [(256, t256), (257, t257)] },
       .done [.error (.partialParse 9 ((encV9 mT2 ++ encV9 mNext).drop 2)) (encV9 mT2 ++ encV9 mNext)]) ∧
    (foldCalls genConfig {} [encV9 mT2, encV9 mNext]).2 =
      [.v9 [9, 2, 1, 2, 3, 4] [⟨0, 24, .templates [t256, t257] []⟩],
       .v9 [9, 1, 5, 6, 7, 4] [⟨256, 10, .data [[(0, 8, .ip4 167772161), (1, 1, .num (.u16 9))]] []⟩]] := by
  decide +kernel

/-- **the restriction is necessary**: with bytes following, a packet whose count exceeds its number of
    flowsets is NOT decoded as expected (compare `C11_noCountHyp_fails`). -/
theorem C04_count_above_sets_not_last_fails : ¬ C04_rfc_count_any_rest := by
  intro h
  obtain ⟨st', hp, -⟩ := h [] _ {} mT2 _ (encV9 mNext) Repr9.empty (by decide)
    (by decide +kernel : expV9Sets genConfig Generated.protoNames [] mT2.sets =
      some ([(256, .t t256), (257, .t t257)], some [⟨0, 24, .templates [t256, t257] []⟩]))
    (by decide +kernel)
  have h2 : (parsePacket genConfig {} (encV9 mT2 ++ encV9 mNext)).2 =
      .fail (.partialParse 9 ((encV9 mT2 ++ encV9 mNext).drop 2)) := by decide +kernel
  rw [hp] at h2
  exact Step.noConfusion h2

/-! ### 4. options data with more than one record -/

/-- **an options-data flowset with TWO records is decoded as ONE record plus padding.**  Options
    template 258 (scope System/4, option SAMPLING_INTERVAL/4) is cached; the flowset holds the records
    (system 1, interval 100) and (system 2, interval 200).  The specification says the message is
    conformant but `.inexpressible` (`OptionsData` holds one record); the parser returns `Ok` with the
    first record only and reports the 8 bytes of the SECOND RECORD as padding — with the header count
    written as number of flowsets (1) and equally with the RFC count (2). -/
theorem C04_optdata_multi_record_fails :
    let recs : List (List Bytes) := [[[0, 0, 0, 1], [0, 0, 0, 100]], [[0, 0, 0, 2], [0, 0, 0, 200]]]
    let st : PState := { v9O := [(258, o258)] }
    Repr9 [(258, .o o258)] st ∧
    expMsg genConfig Generated.protoNames { v9 := [(258, .o o258)] } (.v9 (msgOf [.data 258 recs []])) =
      some ({ v9 := [(258, .o o258)] }, .inexpressible 9) ∧
    parsePacket genConfig st (encV9 (msgOf [.data 258 recs []])) =
      (st, .ok (.v9 [9, 1, 0, 0, 0, 0]
        [⟨258, 20, .optData [(1, [0, 0, 0, 1])] [(34, [0, 0, 0, 100])] [0, 0, 0, 2, 0, 0, 0, 200]⟩]) []) ∧
    parsePacket genConfig st (encV9 { msgOf [.data 258 recs []] with count := 2 }) =
      (st, .ok (.v9 [9, 2, 0, 0, 0, 0]
        [⟨258, 20, .optData [(1, [0, 0, 0, 1])] [(34, [0, 0, 0, 100])] [0, 0, 0, 2, 0, 0, 0, 200]⟩]) []) :=
  ⟨repr9_single_o _ _, by decide +kernel, by decide +kernel, by decide +kernel⟩

/-! ### remark: a count BELOW the number of flowsets -/

/-- (remark) with `count` = 1 and TWO flowsets the loop stops after the first flowset; the second
    flowset's bytes (`00 01 00 14 …`, an options-template flowset) are handed back as `remaining`, and
    `parse_bytes` then reads them as a new packet of version 1, which is not an allowed version and is
    dropped WITHOUT any error packet: the options template 258 is silently never learned.
    So `sets.length ≤ count` in `C04_rfc_count_partial` cannot be dropped. -/
theorem C04_count_below_sets_result :
    parseBytes genConfig {} (encV9 { mT with count := 1 }) =
      ({ v9T := [(256, t256), (257, t257)] },
       .done [.v9 [9, 1, 1, 2, 3, 4] [⟨0, 24, .templates [t256, t257] []⟩]]) := by
  decide +kernel

end Netflow.Props
