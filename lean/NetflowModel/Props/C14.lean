/-
  Props/C14.lean — C14: a truncated packet is reported as an error, never as a shorter valid one.

  `v9Boundaries c pkt` (Lemmas/A3Local.lean): for a decoded V9 packet the offsets `20`,
  `20 + max len₁ 4`, `20 + max len₁ 4 + max len₂ 4`, … (with the generated header layout; in general
  `2 + |v9Hdr|` instead of 20) at which a cut yields a shorter well-formed V9 packet; `[]` for the
  other versions.

  Property theorems only; the strictness lemmas live in Lemmas/A3Local.lean.
-/
import NetflowModel.Props.C11
namespace Netflow.Props
open Netflow Preds

/-- **C14, one packet**: if `p` was accepted with nothing left over, then every cut `k < |p|`
    (for V9: not on a flowset boundary) makes `parse_packet_by_version` fail on `p.take k`:
    `Incomplete` below two bytes, otherwise `Partial` with the packet's own version and the bytes
    after the version word.  The caches are unchanged when the packet is V5, V7 or IPFIX. -/
theorem C14_truncated_step (c : Config) (hf : c.t.framingOk = true) (st st' : PState) (p : Bytes) (pkt : Packet)
    (h : parsePacket c st p = (st', .ok pkt [])) (k : Nat) (hk : k < p.length)
    (hb : k ∉ v9Boundaries c pkt) :
    ∃ st'' e, parsePacket c st (p.take k) = (st'', .fail e) ∧
      ((k < 2 ∧ e = .incomplete) ∨
       (2 ≤ k ∧ ∃ v, versionOf p = some v ∧ e = .partialParse v ((p.take k).drop 2))) ∧
      (pkt.isV9 = false → st'' = st) :=
  parsePacket_take_fail c hf h hk hb

/-- **C14**: a packet cut strictly inside (`0 < k < |p|`, for V9 not on a flowset boundary), alone
    or after a chain `qs` of accepted packets: `parse_bytes` reports the packets of the chain
    unchanged, then — as last element — an error whose remaining bytes are exactly the truncated
    packet; no record of the truncated packet is reported.  For a V5, V7 or IPFIX packet the caches
    are those reached after the chain. -/
theorem C14_truncated (c : Config) (hf : c.t.framingOk = true) (st st1 st' : PState) (qs : List Bytes)
    (out : List Packet) (p : Bytes) (pkt : Packet)
    (hq : chainOk c st qs = true)
    (hpre : parseBytes c st qs.flatten = (st1, .done out))
    (h : parsePacket c st1 p = (st', .ok pkt []))
    (k : Nat) (hk0 : 0 < k) (hk : k < p.length) (hb : k ∉ v9Boundaries c pkt) :
    ∃ st2 e, parseBytes c st (qs.flatten ++ p.take k) = (st2, .done (out ++ [.error e (p.take k)])) ∧
      ((k < 2 ∧ e = .incomplete) ∨
       (2 ≤ k ∧ ∃ v, versionOf p = some v ∧ e = .partialParse v ((p.take k).drop 2))) ∧
      (pkt.isV9 = false → st2 = st1) := by
  have hc := C11_chain c hf st qs hq
  rw [hpre] at hc
  simp only [Prod.mk.injEq, Outcome.done.injEq] at hc
  obtain ⟨e1, e2⟩ := hc
  obtain ⟨st2, e, hp, hdesc, hst⟩ := parsePacket_take_fail c hf h hk hb
  have hne : p.take k ≠ [] := by
    cases p with
    | nil => simp at hk
    | cons x xs => cases k with
      | zero => omega
      | succ k => simp
  refine ⟨st2, e, ?_, hdesc, hst⟩
  rw [C11_chain_append c hf st qs hq, ← e1, parseBytes_fail c hne hp, ← e2]
  rfl

/-- **C14** for a packet on its own (empty chain) -/
theorem C14_truncated_alone (c : Config) (hf : c.t.framingOk = true) (st st' : PState) (p : Bytes) (pkt : Packet)
    (h : parsePacket c st p = (st', .ok pkt []))
    (k : Nat) (hk0 : 0 < k) (hk : k < p.length) (hb : k ∉ v9Boundaries c pkt) :
    ∃ st2 e, parseBytes c st (p.take k) = (st2, .done [.error e (p.take k)]) ∧
      (pkt.isV9 = false → st2 = st) := by
  obtain ⟨st2, e, h1, _, h3⟩ := C14_truncated c hf st st st' [] [] p pkt rfl (parseBytes_nil c st) h k hk0 hk hb
  exact ⟨st2, e, by simpa using h1, h3⟩

/-- **C14** for the tables generated from the Rust source -/
theorem C14_generated (allowed : List Nat) (uf : Bool) (st st1 st' : PState) (qs : List Bytes)
    (out : List Packet) (p : Bytes) (pkt : Packet) (k : Nat) :
    let c : Config := { t := Generated.tables, allowed := allowed, unknownFields := uf }
    chainOk c st qs = true → parseBytes c st qs.flatten = (st1, .done out) →
    parsePacket c st1 p = (st', .ok pkt []) → 0 < k → k < p.length → k ∉ v9Boundaries c pkt →
    ∃ st2 e, parseBytes c st (qs.flatten ++ p.take k) = (st2, .done (out ++ [.error e (p.take k)])) ∧
      (pkt.isV9 = false → st2 = st1) := by
  intro c hq hpre h hk0 hk hb
  obtain ⟨st2, e, h1, _, h3⟩ := C14_truncated c C02_generated_framing st st1 st' qs out p pkt hq hpre h k hk0 hk hb
  exact ⟨st2, e, h1, h3⟩

/-- with the generated V9 header the first boundary is at offset 20 -/
theorem C14_generated_boundaries (allowed : List Nat) (uf : Bool) (h : List Nat) (ss : List V9Set) :
    v9Boundaries { t := Generated.tables, allowed := allowed, unknownFields := uf } (.v9 h ss) = setBoundaries 20 ss := rfl

/-! ### the V9 exclusions are necessary -/

/-- C14 WITHOUT the exclusion of flowset boundaries that the property itself makes for V9 (stronger
    than the property, and false even restricted to self-delimiting packets) -/
def C14_anyCut : Prop :=
  ∀ (c : Config) (st : PState) (p : Bytes) (k : Nat), c.t.framingOk = true →
    selfDelimiting c st p = true → 0 < k → k < p.length →
    ∃ st2 e, parseBytes c st (p.take k) = (st2, .done [.error e (p.take k)])

/-- a V9 packet cut exactly between its two flowsets is accepted as a shorter packet (which is why
    the property excludes those cut points) -/
theorem C14_anyCut_fails : ¬ C14_anyCut := by
  intro h
  obtain ⟨st2, e, h1⟩ := h C11ex.cfg {} C11ex.v9p 36 (by decide) (by decide +kernel) (by decide) (by decide)
  have h2 : (parseBytes C11ex.cfg {} (C11ex.v9p.take 36)).2.pkts.all (fun q => q.isV9) = true := by
    decide +kernel
  rw [h1] at h2
  simp [Outcome.pkts, Packet.isV9] at h2

/-- a truncated V9 packet may change the caches: cut inside its second flowset, the template of the
    first one has already been learned (the property claims unchanged caches for V5/V7/IPFIX only) -/
theorem C14_v9_state_changes :
    (parseBytes C11ex.cfg {} (C11ex.v9p.take 40)).1 ≠ {} := by decide +kernel

/-! ### non-vacuity -/

open C11ex

/-- hypotheses of `C14_truncated` met by: chain `[V5, IPFIX template]`, then the IPFIX data message
    cut one byte before its end -/
example : chainOk cfg {} [v5p, ipT] = true ∧
    (∃ st', parsePacket cfg (foldCalls cfg {} [v5p, ipT]).1 ipD = (st', .ok (.ipfix [10, 28, 2, 2, 1]
      [{ id := 256, len := 12, body := .data [[(0, 8, .ip4 167772161)], [(1, 12, .ip4 167772162)]] [] }]) [])) ∧
    27 < ipD.length := by
  refine ⟨by decide +kernel, ⟨(foldCalls cfg {} [v5p, ipT]).1, by decide +kernel⟩, by decide⟩

/-- … and what the model returns there: both chain packets, then the error carrying the 27 bytes -/
example : (parseBytes cfg {} (v5p ++ ipT ++ ipD.take 27)).2.pkts.drop 2 =
    [.error (.partialParse 10 ((ipD.take 27).drop 2)) (ipD.take 27)] := by decide +kernel

/-- a V5 packet cut in the middle of its record, and inside its header -/
example : (parseBytes cfg {} (v5p.take 50)) = ({}, .done [.error (.partialParse 5 ((v5p.take 50).drop 2)) (v5p.take 50)]) ∧
    (parseBytes cfg {} (v5p.take 1)) = ({}, .done [.error .incomplete [0]]) := by
  constructor <;> decide +kernel

/-- a V9 packet cut inside the header of its second flowset (38 is not a boundary: they are 20, 36, 48) -/
example : v9Boundaries cfg (.v9 [9, 2, 1, 2, 3, 4] [{ id := 0, len := 16, body := .templates [] [] },
      { id := 256, len := 12, body := .data [] [] }]) = [20, 36, 48] ∧
    (parseBytes cfg {} (v9p.take 38)).2 = .done [.error (.partialParse 9 ((v9p.take 38).drop 2)) (v9p.take 38)] := by
  constructor <;> decide +kernel

/-- **C14.0** (regenerated from the source on every run) the library declares no mutable global or per-thread state
    (`static mut`, `thread_local!`, `OnceLock`/`OnceCell`/`lazy_static!`, `static … : Mutex|RwLock|Atomic…`), as the model assumes
    by making `parseBytes` a function of `(config, parser state, buffer)`: a truncated packet cannot be completed from bytes remembered outside the parser value. -/
theorem C14_no_global_state : Generated.noGlobals = true := by decide


end Netflow.Props
