/-
  Props/C06c.lean — C06, the EXACT characterisation of how a call changes the template caches, for
  ARBITRARY input bytes, at `parseBytes` level and for every configuration `c` (no side condition on
  the tables):

    "A parser's caches change only through the complete, well-formed template records contained in
     input of an allowed version … templates are never evicted."

  * `P1.replayPkt` / `P1.replay` apply to the caches exactly the template records REPORTED in a packet /
    a list of packets, in order (definitions in Lemmas/P1Replay.lean).
  * `C06_state_is_replay_of_reported` : state after a call = replay of the packets the call returned,
    unless the call ended in the error a failing V9 packet is reported as.
  * `C06_v9_failed_packet_teaches` : that clause is needed — a V9 packet that fails half way keeps the
    templates of its earlier flowsets and is reported as an error only.
  * `C06_state_is_replay_always` / `C06_v9_failed_packet_learns_prefix` : the unconditional form — the
    failing V9 packet teaches exactly the flowsets of its (recorded) bytes that parse before the failure.
  * `C06_ipfix_state_is_replay` : the IPFIX maps are ALWAYS the replay of the reported packets.
  * `C06_changes_only_by_templates_v9` / `_ipfix`, `C06_untouched_without_template_sets` : an id that no
    reported set defines keeps its entry (never evicted, never changed); a call that reports no
    template set changes nothing.
  * history forms over `List Bytes`.
  Property theorems only; helper lemmas live in Lemmas/P1Replay.lean.
-/
import NetflowModel.Lemmas.P1Replay
namespace Netflow.Props
open Netflow Netflow.P1 Netflow.C1x

/-! ### 1. the state after a call is the replay of what the call reported -/

/-- **C06c.1** for every configuration, state and buffer: if the result of the call does not end in
    a V9 partial-parse error, the caches afterwards are exactly the caches before with the reported
    template records applied in order — nothing else was learned, nothing was forgotten. -/
theorem C06_state_is_replay_of_reported (c : Config) (st : PState) (buf : Bytes) (st' : PState) (pkts : List Packet)
    (h : parseBytes c st buf = (st', .done pkts))
    (hlast : ∀ b r, pkts.getLast? ≠ some (.error (.partialParse 9 b) r)) :
    st' = replay st pkts :=
  (parseBytes_replay c st st' buf pkts h).2 ((endsInV9Err_iff pkts).2 hlast)

/-- the same with the decidable form of the side condition -/
theorem C06_state_is_replay_of_reported_dec (c : Config) (st : PState) (buf : Bytes) (st' : PState) (pkts : List Packet)
    (h : parseBytes c st buf = (st', .done pkts)) (hlast : endsInV9Err pkts = false) :
    st' = replay st pkts :=
  (parseBytes_replay c st st' buf pkts h).2 hlast

/-- without destructuring the result (`parseBytes` always returns `done`, `parseBytes_done`) -/
theorem C06_state_is_replay_of_reported_fn (c : Config) (st : PState) (buf : Bytes)
    (hlast : endsInV9Err (outPkts (parseBytes c st buf).2) = false) :
    (parseBytes c st buf).1 = replay st (outPkts (parseBytes c st buf).2) :=
  (parseBytes_replay c st _ buf _ (parseBytes_eq_done c st buf)).2 hlast

/-- **C06c.1, IPFIX** no clause is needed for the IPFIX maps: whatever the call returned (including
    a failing V9 packet, an IPFIX message reported as an error, garbage), the two IPFIX maps are the
    replay of the reported packets. -/
theorem C06_ipfix_state_is_replay (c : Config) (st : PState) (buf : Bytes) (st' : PState) (pkts : List Packet)
    (h : parseBytes c st buf = (st', .done pkts)) :
    st'.ipT = (replay st pkts).ipT ∧ st'.ipO = (replay st pkts).ipO :=
  (parseBytes_replay c st st' buf pkts h).1

/-- an IPFIX message that is reported as an error teaches nothing — for EVERY configuration
    (`C06_ipfix_truncated_frame` in C06.lean needs `framingOk`; the set loop's `Many0` error needs a
    set header of zero bytes, and then no set has a body). -/
theorem C06_ipfix_error_frame (c : Config) (st st' : PState) (i : Bytes)
    (h : parseIpfix c st i = (st', .err)) : st' = st :=
  parseIpfix_err_frame c st st' i h

/-! ### 2. the clause is needed: a failing V9 packet teaches -/

private def c06cCfg : Config := { t := Generated.tables, allowed := [5, 7, 9, 10] }
private def c06cT : V9Template := { id := 256, fieldCount := 1, fields := [{ typ := 1, len := 3 }] }
private def c06cIpT : IpTemplate := { id := 256, fieldCount := 1, fields := [{ typ := 1, len := 3, ent := none }], pad := [] }

/-- V9 header announcing TWO flowsets; a complete template flowset (id 256); then two stray bytes -/
private def c06cFailBuf : Bytes :=
  [0,9, 0,2, 0,0,0,1, 0,0,0,2, 0,0,0,3, 0,0,0,4,  0,0, 0,12, 1,0, 0,1, 0,1, 0,3,  0,0]

/-- **C06c.2** (`…_fails`-style witness) the statement of `C06_state_is_replay_of_reported` without its
    side condition is FALSE of the model: the call below returns a single V9 partial-parse error, so
    the replay of what it reported is the initial (empty) state, yet template 256 of the first flowset
    has been learned. -/
theorem C06_v9_failed_packet_teaches :
    parseBytes c06cCfg {} c06cFailBuf =
      ({ v9T := [(256, c06cT)] }, .done [.error (.partialParse 9 (c06cFailBuf.drop 2)) c06cFailBuf]) ∧
    replay {} [.error (.partialParse 9 (c06cFailBuf.drop 2)) c06cFailBuf] = {} ∧
    ({ v9T := [(256, c06cT)] } : PState) ≠ replay {} [.error (.partialParse 9 (c06cFailBuf.drop 2)) c06cFailBuf] := by
  decide

/-- the unrestricted statement, and its refutation -/
def C06_state_is_replay_full : Prop :=
  ∀ (c : Config) (st : PState) (buf : Bytes) (st' : PState) (pkts : List Packet),
    parseBytes c st buf = (st', .done pkts) → st' = replay st pkts

theorem C06_state_is_replay_full_fails : ¬ C06_state_is_replay_full := by
  intro h
  obtain ⟨h1, _, h3⟩ := C06_v9_failed_packet_teaches
  exact h3 (h _ _ _ _ _ h1)

/-! ### 3. the unconditional form: what the failing V9 packet teaches -/

/-- **C06c.3** for every call: the caches afterwards are the EXTENDED replay `replayX` of the returned
    list, which treats the error element of a failing V9 packet as "the flowsets of the recorded
    remaining bytes that parse before the failure" (`v9Learned`). -/
theorem C06_state_is_replay_always (c : Config) (st : PState) (buf : Bytes) (st' : PState) (pkts : List Packet)
    (h : parseBytes c st buf = (st', .done pkts)) : st' = replayX c st pkts :=
  parseBytesF_replayX c _ _ _ _ _ h

/-- `replayX` is `replay` on lists without a V9 partial-parse error -/
theorem C06_replayX_is_replay (c : Config) (st : PState) (pkts : List Packet)
    (h : ∀ b r, Packet.error (.partialParse 9 b) r ∉ pkts) : replayX c st pkts = replay st pkts :=
  replayX_eq_replay c pkts st h

/-- `v9Learned` on a V9 packet that IS returned: exactly its reported flowsets (so `replayX` and
    `replay` treat returned and failing V9 packets alike: the flowsets that parsed) -/
theorem C06_v9_learned_is_reported (c : Config) (st st' : PState) (i : Bytes) (hd : List Nat) (ss : List V9Set) (r : Bytes)
    (h : parseV9 c st i = (st', .ok (.v9 hd ss, r))) : v9Learned c st i = ss :=
  v9Learned_ok c st st' i hd ss r h

/-- an error element can only be the last element of a call's result -/
theorem C06_errors_only_last (c : Config) (st : PState) (buf : Bytes) (st' : PState) (pkts : List Packet)
    (h : parseBytes c st buf = (st', .done pkts)) : ∀ p ∈ pkts.dropLast, ∀ e r, p ≠ .error e r :=
  parseBytesF_errors_last c _ _ _ _ _ h

/-- **C06c.3** the complement of `C06_state_is_replay_of_reported`: when the call DOES end in a V9
    partial-parse error with recorded bytes `b`, the caches are the replay of the packets before it,
    followed by the template records of the flowsets of `b` that parse (in the state reached so far) —
    complete, well-formed template records contained in the input, and nothing else. -/
theorem C06_v9_failed_packet_learns_prefix (c : Config) (st : PState) (buf : Bytes) (st' : PState) (pkts : List Packet)
    (b r : Bytes)
    (h : parseBytes c st buf = (st', .done pkts))
    (hlast : pkts.getLast? = some (.error (.partialParse 9 b) r)) :
    st' = (v9Learned c (replay st pkts.dropLast) b).foldl replayV9Set (replay st pkts.dropLast) := by
  have hne : pkts ≠ [] := by
    intro e; subst e; simp at hlast
  have hsplit : pkts = pkts.dropLast ++ [.error (.partialParse 9 b) r] := by
    have := List.dropLast_concat_getLast hne
    rw [List.getLast?_eq_some_getLast hne] at hlast
    simp only [Option.some.injEq] at hlast
    rw [hlast] at this
    exact this.symm
  have hfront : replayX c st pkts.dropLast = replay st pkts.dropLast :=
    replayX_eq_replay c _ st (fun b' r' hm => C06_errors_only_last c st buf st' pkts h _ hm _ _ rfl)
  have e := C06_state_is_replay_always c st buf st' pkts h
  rw [hsplit, replayX_concat, hfront] at e
  exact e

/-! ### 4. never evicted, never changed: an id no reported set defines keeps its entry -/

/-- **C06c.4, V9** if no reported V9 flowset defines template id `id` (as template or options
    template) and the call does not end in a failing V9 packet, both V9 entries of `id` are what
    they were: an existing definition is neither evicted nor altered, an unknown id stays unknown. -/
theorem C06_changes_only_by_templates_v9 (c : Config) (st : PState) (buf : Bytes) (st' : PState) (pkts : List Packet)
    (id : Nat)
    (h : parseBytes c st buf = (st', .done pkts))
    (hlast : ∀ b r, pkts.getLast? ≠ some (.error (.partialParse 9 b) r))
    (hdef : ∀ hd ss, Packet.v9 hd ss ∈ pkts → ∀ s ∈ ss, v9Defines id s = false) :
    amLookup id st'.v9T = amLookup id st.v9T ∧ amLookup id st'.v9O = amLookup id st.v9O := by
  rw [C06_state_is_replay_of_reported c st buf st' pkts h hlast]
  apply replay_other_v9
  intro p hp
  cases p with
  | v9 hd ss =>
    simp only [pktDefinesV9, List.any_eq_false]
    intro s hs
    simp [hdef hd ss hp s hs]
  | _ => rfl

/-- **C06c.4, IPFIX** no clause about the last element: if no reported IPFIX set defines `id`, both
    IPFIX entries of `id` are what they were. -/
theorem C06_changes_only_by_templates_ipfix (c : Config) (st : PState) (buf : Bytes) (st' : PState) (pkts : List Packet)
    (id : Nat)
    (h : parseBytes c st buf = (st', .done pkts))
    (hdef : ∀ hd ss, Packet.ipfix hd ss ∈ pkts → ∀ s ∈ ss, ipDefines id s = false) :
    amLookup id st'.ipT = amLookup id st.ipT ∧ amLookup id st'.ipO = amLookup id st.ipO := by
  obtain ⟨e1, e2⟩ := C06_ipfix_state_is_replay c st buf st' pkts h
  rw [e1, e2]
  apply replay_other_ip
  intro p hp
  cases p with
  | ipfix hd ss =>
    simp only [pktDefinesIp, List.any_eq_false]
    intro s hs
    simp [hdef hd ss hp s hs]
  | _ => rfl

/-- **C06c.4** a call that reports no template / options-template set at all (V5 / V7 packets, data
    sets, errors other than a failing V9 packet, nothing) leaves the whole state untouched. -/
theorem C06_untouched_without_template_sets (c : Config) (st : PState) (buf : Bytes) (st' : PState) (pkts : List Packet)
    (h : parseBytes c st buf = (st', .done pkts))
    (hlast : ∀ b r, pkts.getLast? ≠ some (.error (.partialParse 9 b) r))
    (hno : ∀ p ∈ pkts, pktHasTemplateSet p = false) : st' = st := by
  rw [C06_state_is_replay_of_reported c st buf st' pkts h hlast]
  exact replay_no_template pkts st hno

/-- the V9 maps can only be changed by V9 packets, the IPFIX maps only by IPFIX messages — at replay
    level (with `C06_state_is_replay_of_reported`: at `parseBytes` level) -/
theorem C06_replay_scoped (st : PState) (hd : List Nat) (ss9 : List V9Set) (ssI : List IpSet) :
    ((replayPkt st (.v9 hd ss9)).ipT = st.ipT ∧ (replayPkt st (.v9 hd ss9)).ipO = st.ipO) ∧
    ((replayPkt st (.ipfix hd ssI)).v9T = st.v9T ∧ (replayPkt st (.ipfix hd ssI)).v9O = st.v9O) :=
  ⟨foldl_replayV9Set_ip ss9 st, foldl_replayIpSet_v9 ssI st⟩

/-! ### 5. histories of calls -/

/-- **C06c.5** over a whole history of calls (state threaded as in `C06_never_evicted`): if no call
    reported a failing V9 packet, the final caches are the replay of everything reported, in order. -/
theorem C06_history_is_replay (c : Config) (st : PState) (hist : List Bytes)
    (h : ∀ b r, Packet.error (.partialParse 9 b) r ∉ histPkts c st hist) :
    hist.foldl (fun s b => (parseBytes c s b).1) st = replay st (histPkts c st hist) :=
  hist_replay c hist st h

/-- **C06c.5, IPFIX** unconditionally -/
theorem C06_history_is_replay_ipfix (c : Config) (st : PState) (hist : List Bytes) :
    (hist.foldl (fun s b => (parseBytes c s b).1) st).ipT = (replay st (histPkts c st hist)).ipT ∧
    (hist.foldl (fun s b => (parseBytes c s b).1) st).ipO = (replay st (histPkts c st hist)).ipO :=
  hist_replay_ip c hist st

/-- **C06c.5** never evicted, never changed — history form, V9 -/
theorem C06_history_changes_only_by_templates_v9 (c : Config) (st : PState) (hist : List Bytes) (id : Nat)
    (h : ∀ b r, Packet.error (.partialParse 9 b) r ∉ histPkts c st hist)
    (hdef : ∀ p ∈ histPkts c st hist, pktDefinesV9 id p = false) :
    amLookup id (hist.foldl (fun s b => (parseBytes c s b).1) st).v9T = amLookup id st.v9T ∧
    amLookup id (hist.foldl (fun s b => (parseBytes c s b).1) st).v9O = amLookup id st.v9O := by
  rw [C06_history_is_replay c st hist h]
  exact replay_other_v9 id _ st hdef

/-- **C06c.5** never evicted, never changed — history form, IPFIX (no clause) -/
theorem C06_history_changes_only_by_templates_ipfix (c : Config) (st : PState) (hist : List Bytes) (id : Nat)
    (hdef : ∀ p ∈ histPkts c st hist, pktDefinesIp id p = false) :
    amLookup id (hist.foldl (fun s b => (parseBytes c s b).1) st).ipT = amLookup id st.ipT ∧
    amLookup id (hist.foldl (fun s b => (parseBytes c s b).1) st).ipO = amLookup id st.ipO := by
  obtain ⟨e1, e2⟩ := C06_history_is_replay_ipfix c st hist
  rw [e1, e2]
  exact replay_other_ip id _ st hdef

/-! ### non-vacuity: concrete objects meeting the hypotheses of the theorems above -/

/-- V9 template packet (template 256: one 3-byte field), V9 data packet, IPFIX template message
    (template 256), IPFIX data message -/
private def c06cV9T : Bytes := [0,9, 0,1, 0,0,0,1, 0,0,0,2, 0,0,0,3, 0,0,0,4,  0,0, 0,12, 1,0, 0,1, 0,1, 0,3]
private def c06cV9D : Bytes := [0,9, 0,1, 0,0,0,1, 0,0,0,2, 0,0,0,3, 0,0,0,4,  1,0, 0,8, 1,2,3, 0]
private def c06cIpTm : Bytes := [0,10, 0,28, 0,0,0,1, 0,0,0,2, 0,0,0,3,  0,2, 0,12, 1,0, 0,1, 0,1, 0,3]
private def c06cIpD : Bytes := [0,10, 0,24, 0,0,0,1, 0,0,0,2, 0,0,0,3,  1,0, 0,8, 1,2,3, 0]

private def c06cPkts : List Packet :=
  [.v9 [9, 1, 1, 2, 3, 4] [{ id := 0, len := 12, body := .templates [c06cT] [] }],
   .v9 [9, 1, 1, 2, 3, 4] [{ id := 256, len := 8, body := .data [[(0, 1, .num (.u24 66051))]] [0] }],
   .ipfix [10, 28, 1, 2, 3] [{ id := 2, len := 12, body := .template c06cIpT }],
   .ipfix [10, 24, 1, 2, 3] [{ id := 256, len := 8, body := .data [[(0, 1, .num (.u24 66051))]] [0] }]]

/-- `C06_state_is_replay_of_reported`: one buffer with template + data of both protocols; the four
    packets are returned, the side condition holds, and the replay is a non-trivial state -/
example : parseBytes c06cCfg {} (c06cV9T ++ c06cV9D ++ c06cIpTm ++ c06cIpD) =
      ({ v9T := [(256, c06cT)], ipT := [(256, c06cIpT)] }, .done c06cPkts) ∧
    endsInV9Err c06cPkts = false ∧
    replay {} c06cPkts = { v9T := [(256, c06cT)], ipT := [(256, c06cIpT)] } := by decide

example : ∀ b r, c06cPkts.getLast? ≠ some (.error (.partialParse 9 b) r) := (endsInV9Err_iff _).1 (by decide)

/-- the replay really overwrites: starting from a state where 256 is a V9 OPTIONS template and an
    IPFIX template with another field list, the reported records move / redefine it -/
example : replay { v9O := [(256, { id := 256, scopeLen := 0, optLen := 0, scope := [], opts := [] })],
                   ipT := [(256, { c06cIpT with fields := [{ typ := 2, len := 9, ent := none }] })] } c06cPkts =
    { v9T := [(256, c06cT)], ipT := [(256, c06cIpT)] } := by decide

/-- `C06_v9_failed_packet_learns_prefix`: the failing buffer of `C06_v9_failed_packet_teaches` — the
    flowsets of the recorded bytes that parse are the one template flowset -/
example : (outPkts (parseBytes c06cCfg {} c06cFailBuf).2).getLast? =
      some (.error (.partialParse 9 (c06cFailBuf.drop 2)) c06cFailBuf) ∧
    v9Learned c06cCfg {} (c06cFailBuf.drop 2) = [{ id := 0, len := 12, body := .templates [c06cT] [] }] ∧
    replayX c06cCfg {} [.error (.partialParse 9 (c06cFailBuf.drop 2)) c06cFailBuf] = { v9T := [(256, c06cT)] } := by
  decide

/-- the same failing packet AFTER a returned IPFIX template message in the same buffer: the front
    packet is replayed, then the prefix of the failing packet -/
example : parseBytes c06cCfg {} (c06cIpTm ++ c06cFailBuf) =
    ({ v9T := [(256, c06cT)], ipT := [(256, c06cIpT)] },
     .done [.ipfix [10, 28, 1, 2, 3] [{ id := 2, len := 12, body := .template c06cIpT }],
            .error (.partialParse 9 (c06cFailBuf.drop 2)) c06cFailBuf]) := by decide

/-- `C06_v9_learned_is_reported`: a V9 packet that is returned -/
example : parseV9 c06cCfg {} (c06cV9T.drop 2) =
    ({ v9T := [(256, c06cT)] }, .ok (.v9 [9, 1, 1, 2, 3, 4] [{ id := 0, len := 12, body := .templates [c06cT] [] }], [])) := by
  decide

/-- `C06_changes_only_by_templates_v9` / `_ipfix`: id 300 is known beforehand and no reported set
    defines it (the sets define 256) -/
example : (∀ p ∈ c06cPkts, pktDefinesV9 300 p = false) ∧ (∀ p ∈ c06cPkts, pktDefinesIp 300 p = false) ∧
    (∃ p ∈ c06cPkts, pktDefinesV9 256 p = true) ∧ (∃ p ∈ c06cPkts, pktDefinesIp 256 p = true) ∧
    amLookup 300 (replay { v9T := [(300, { c06cT with id := 300 })] } c06cPkts).v9T = some { c06cT with id := 300 } := by
  decide

/-- `C06_untouched_without_template_sets`: a V5 packet and the two data packets parsed in a state
    that knows template 256 in both protocols — no template set is reported -/
example : (parseBytes c06cCfg { v9T := [(256, c06cT)], ipT := [(256, c06cIpT)] }
      ([0, 5, 0, 0, 0, 0, 0, 1, 0, 0, 0, 2, 0, 0, 0, 3, 0, 0, 0, 4, 5, 6, 0, 7] ++ c06cV9D ++ c06cIpD)).2 =
      .done [.v5 [5, 0, 1, 2, 3, 4, 5, 6, 7] [], c06cPkts[1], c06cPkts[3]] ∧
    pktHasTemplateSet (.v5 [5, 0, 1, 2, 3, 4, 5, 6, 7] []) = false ∧
    pktHasTemplateSet c06cPkts[1] = false ∧ pktHasTemplateSet c06cPkts[3] = false ∧
    pktHasTemplateSet c06cPkts[0] = true := by decide

/-- `C06_ipfix_error_frame` / `C06_ipfix_state_is_replay`: an IPFIX message announcing 36 bytes that
    carries a complete template set and then ends is an error and teaches nothing -/
example : parseBytes c06cCfg {} [0,10, 0,36, 0,0,0,1, 0,0,0,2, 0,0,0,3,   0,2, 0,12, 1,0, 0,1, 0,1, 0,3] =
    ({}, .done [.error (.partialParse 10 [0,36, 0,0,0,1, 0,0,0,2, 0,0,0,3,   0,2, 0,12, 1,0, 0,1, 0,1, 0,3])
                  [0,10, 0,36, 0,0,0,1, 0,0,0,2, 0,0,0,3,   0,2, 0,12, 1,0, 0,1, 0,1, 0,3]]) := by decide

/-- `C06_history_is_replay`: template in the first call, data in the second, IPFIX in the third —
    no failing V9 packet anywhere in the history -/
example : histPkts c06cCfg {} [c06cV9T, c06cV9D, c06cIpTm ++ c06cIpD] = c06cPkts ∧
    (∀ p ∈ histPkts c06cCfg {} [c06cV9T, c06cV9D, c06cIpTm ++ c06cIpD], ∀ b r, p ≠ .error (.partialParse 9 b) r) := by
  have e : histPkts c06cCfg {} [c06cV9T, c06cV9D, c06cIpTm ++ c06cIpD] = c06cPkts := by decide
  refine ⟨e, ?_⟩
  rw [e]
  intro p hp b r hpe
  subst hpe
  revert hp
  simp [c06cPkts]

end Netflow.Props
