/-
  Props/C04.lean — property C04: "V9 flowsets decode record by record exactly as the governing
  template says", as a PRINT-THEN-PARSE theorem: writing an abstract V9 message with the RFC 3954
  writer `Spec.encV9` and parsing the bytes with the model of the crate gives the packet that
  `Spec.expMsg` expects, and the parser's template caches keep representing the exporter's memory.

  * `C04_full`        — the full-strength statement (every message `Spec.expMsg` accepts as `.pkt`).
  * `C04_full_fails`  — it is FALSE of the model (protocol numbers 146..254: known crate defect).
  * `C04Conformant`   — the extra, decidable, conformance conditions.
  * `C04_partial`     — the statement under `C04Conformant`, parametric in the configuration.
  * `C04_generated_partial` — instantiated for the generated tables.
  * `C04_*_fails`     — one concrete witness per conformance condition that is really needed.
-/
import NetflowModel.Lemmas.A5V9Witness
import NetflowModel.Lemmas.G1Arms
namespace Netflow.Props
open Netflow Netflow.Spec

/-! ### statement -/

/-- C04, full strength, for the generated tables (any allowed-version list containing 9, either
    setting of `parse_unknown_fields`): for every exporter-side template memory `d`, every parser
    state representing it, every V9 message for which the specification expects a packet `p` (the
    `.inexpressible` case, options data with ≥ 2 records, is excluded by the `.pkt` premise) and every
    trailing input `rest`, the parser returns exactly `p`, leaves exactly `rest`, and its caches
    represent the updated memory. -/
def C04_full : Prop :=
  ∀ (allowed : List Nat) (uf : Bool), allowed.contains 9 = true →
  ∀ (d d' : Defs) (st : PState) (m : V9Msg) (p : Packet) (rest : Bytes),
    Repr9 d.v9 st →
    expMsg { t := Generated.tables, allowed := allowed, unknownFields := uf } Generated.protoNames d (.v9 m) = some (d', .pkt p) →
    ∃ st', parsePacket { t := Generated.tables, allowed := allowed, unknownFields := uf } st (encV9 m ++ rest) = (st', .ok p rest) ∧
      Repr9 d'.v9 st'

/-- Conformance conditions that `Spec.expMsg` does not impose but the round trip needs
    (all decidable): header numbers fit their wire widths, and per flowset `setConf`
    (see Lemmas/A5V9Frame.lean): bodies fit the 16-bit length, template records well formed,
    template padding not parseable as a record (true for 0..3 bytes), data flowset ids ≥ 2 and
    < 65536, per-field conditions `fieldOk` (protocol number where discriminant parse = IANA variant,
    8/16-byte signed values fit 32 bits, unknown field types only with `parse_unknown_fields`),
    options templates decodable (`optDataOk`: known scope types, no zero-length field). -/
def C04Conformant (c : Config) (names : List (Nat × String)) (d : List (Nat × V9Def)) (m : V9Msg) : Bool :=
  decide (m.count < 65536) && decide (m.sysUpTime < 4294967296) && decide (m.unixSecs < 4294967296) &&
  decide (m.seq < 4294967296) && decide (m.sourceId < 4294967296) && setsConf c names d m.sets

/-! ### the packet layer -/

/-- LAYER (h), header: `V9::parse` on everything after the version -/
theorem C04_parseV9_enc (c : Config) (names : List (Nat × String)) (harms : DnArmsOk c.t.dnArms) (hl : V9LayoutOk c.t)
    (d d2 : List (Nat × V9Def)) (st : PState) (m : V9Msg) (outs : List V9Set) (rest : Bytes)
    (hR : Repr9 d st) (hcount : m.count = m.sets.length)
    (hexp : expV9Sets c names d m.sets = some (d2, some outs))
    (hconf : C04Conformant c names d m = true) :
    ∃ st', parseV9 c st (toBE 2 m.count ++ (toBE 4 m.sysUpTime ++ (toBE 4 m.unixSecs ++ (toBE 4 m.seq ++
              (toBE 4 m.sourceId ++ (m.sets.flatMap encV9FS ++ rest)))))) =
            (st', .ok (.v9 [9, m.count, m.sysUpTime, m.unixSecs, m.seq, m.sourceId] outs, rest)) ∧ Repr9 d2 st' := by
  simp only [C04Conformant, Bool.and_eq_true, decide_eq_true_eq] at hconf
  obtain ⟨⟨⟨⟨⟨h1, h2⟩, h3⟩, h4⟩, h5⟩, hs⟩ := hconf
  obtain ⟨st', p, hR'⟩ := v9ParseSets_enc c names harms hl m.sets d d2 st outs rest hR hexp hs
  refine ⟨st', ?_, hR'⟩
  obtain ⟨hk, hi, -⟩ := hl
  have hp := parseLayout_v9Hdr c.t.protoFromU8 c.t.v9Hdr hk m.count m.sysUpTime m.unixSecs m.seq m.sourceId
    (m.sets.flatMap encV9FS ++ rest) h1 h2 h3 h4 h5
  have hg : c.t.v9Hdr.get "count" [9, m.count, m.sysUpTime, m.unixSecs, m.seq, m.sourceId] = m.sets.length := by
    simp [Layout.get, hi, hcount]
  simp only [parseV9, hp, hg, p]

/-- **C04 (partial)** — print-then-parse for V9, parametric in the configuration.
    Extra hypotheses relative to `C04_full`:
    * `harms`, `hl` — decidable facts about the tables (arm table of `DataNumber::parse`, V9 layouts,
      flowset ids 0/1, dispatch of version 9), true of the generated tables;
    * `hconf : C04Conformant …` — the conformance conditions `Spec.expMsg` does not impose.  Each is
      needed: see the `C04_*_fails` witnesses below.  In particular the conclusion is NOT available for
      protocol fields holding 146..254, 8/16-byte signed values outside 32 bits (crate defects), for
      options templates with an unknown scope type or a zero-length field, template padding of 4+
      bytes, data flowset ids 0/1, numbers exceeding their wire width (gaps of the spec's notion of
      conformance).
    `Repr9` includes that both caches are key-sorted (true of every state the parser builds). -/
theorem C04_partial (c : Config) (names : List (Nat × String)) (harms : DnArmsOk c.t.dnArms) (hl : V9LayoutOk c.t)
    (hallow : c.allowed.contains 9 = true)
    (d d' : Defs) (st : PState) (m : V9Msg) (p : Packet) (rest : Bytes)
    (hR : Repr9 d.v9 st)
    (hexp : expMsg c names d (.v9 m) = some (d', .pkt p))
    (hconf : C04Conformant c names d.v9 m = true) :
    ∃ st', parsePacket c st (encV9 m ++ rest) = (st', .ok p rest) ∧ Repr9 d'.v9 st' := by
  simp only [expMsg] at hexp
  by_cases hc : m.count = m.sets.length
  · simp only [hc, ne_eq, not_true_eq_false, ↓reduceIte] at hexp
    cases he : expV9Sets c names d.v9 m.sets with
    | none => simp [he] at hexp
    | some r =>
      obtain ⟨d2, o⟩ := r
      cases o with
      | none => simp [he] at hexp
      | some outs =>
        simp only [he, Option.some.injEq, Prod.mk.injEq, Exp.pkt.injEq] at hexp
        obtain ⟨rfl, rfl⟩ := hexp
        obtain ⟨st', hp, hR'⟩ := C04_parseV9_enc c names harms hl d.v9 d2 st m outs rest hR hc he hconf
        refine ⟨st', ?_, hR'⟩
        have hd := hl.2.2.2.2.2.2.2
        have hv : beU 2 (toBE 2 9 ++ (toBE 2 m.count ++ (toBE 4 m.sysUpTime ++ (toBE 4 m.unixSecs ++ (toBE 4 m.seq ++
              (toBE 4 m.sourceId ++ (m.sets.flatMap encV9FS ++ rest))))))) = some (9, _) :=
          beU_toBE_append _ (by decide)
        simp only [parsePacket, encV9, List.append_assoc, hv, hallow, ↓reduceIte, hd, parseVersioned,
          Nat.reduceEqDiff]
        rw [hp]
        simp only [liftRes, hc]
  · simp only [ne_eq, hc, not_false_eq_true, ↓reduceIte] at hexp
    simp at hexp

/-- **C04 for the shipped tables** (any allowed list containing 9, either feature setting). -/
theorem C04_generated_partial (allowed : List Nat) (uf : Bool) (hallow : allowed.contains 9 = true)
    (d d' : Defs) (st : PState) (m : V9Msg) (p : Packet) (rest : Bytes)
    (hR : Repr9 d.v9 st)
    (hexp : expMsg { t := Generated.tables, allowed := allowed, unknownFields := uf } Generated.protoNames d (.v9 m) = some (d', .pkt p))
    (hconf : C04Conformant { t := Generated.tables, allowed := allowed, unknownFields := uf } Generated.protoNames d.v9 m = true) :
    ∃ st', parsePacket { t := Generated.tables, allowed := allowed, unknownFields := uf } st (encV9 m ++ rest) = (st', .ok p rest) ∧
      Repr9 d'.v9 st' :=
  C04_partial _ Generated.protoNames dnArmsOk_generated v9LayoutOk_generated hallow d d' st m p rest hR hexp hconf

/-! ### non-vacuity: a concrete message meeting every hypothesis of `C04_partial` -/

/-- template 256 = (IPV4_SRC_ADDR/4, PROTOCOL/1, IN_BYTES/2, LAST_SWITCHED/4 [ms duration]),
    options template 257 = (scope System/4; option 34 SAMPLING_INTERVAL/4) -/
def exTemplate : V9Template := { id := 256, fieldCount := 4, fields := [⟨8, 4⟩, ⟨4, 1⟩, ⟨1, 2⟩, ⟨21, 4⟩] }
def exOptTemplate : V9OptTemplate := { id := 257, scopeLen := 4, optLen := 4, scope := [⟨1, 4⟩], opts := [⟨34, 4⟩] }

/-- a template flowset, an options-template flowset, a data flowset with 2 records of 11 bytes and
    2 bytes of padding, and an options-data flowset with one record -/
def exMsg : V9Msg :=
  { count := 4, sysUpTime := 1000, unixSecs := 1700000000, seq := 7, sourceId := 42,
    sets := [.templates [exTemplate] [], .optTemplates [exOptTemplate] [0, 0],
             .data 256 [[[10, 0, 0, 1], [6], [1, 0], [0, 0, 4, 210]], [[192, 168, 0, 9], [145], [255, 255], [0, 1, 0, 0]]] [0, 0],
             .data 257 [[[0, 0, 0, 1], [0, 0, 0, 100]]] []] }

/-- the specification expects a packet for `exMsg` (from an empty template memory) and `exMsg` is
    `C04Conformant`: the hypotheses of `C04_partial` / `C04_generated_partial` are jointly satisfiable
    (`Repr9.empty` gives the state) -/
example : isPkt (expMsg genConfig Generated.protoNames {} (.v9 exMsg)) = true ∧
    C04Conformant genConfig Generated.protoNames [] exMsg = true ∧ genConfig.allowed.contains 9 = true := by
  decide +kernel

/-- …and the conclusion, instantiated: whatever follows the message is left untouched -/
example (d' : Defs) (p : Packet) (h : expMsg genConfig Generated.protoNames {} (.v9 exMsg) = some (d', .pkt p)) :
    ∃ st', parsePacket genConfig {} (encV9 exMsg ++ [0, 5, 0, 0]) = (st', .ok p [0, 5, 0, 0]) ∧ Repr9 d'.v9 st' :=
  C04_generated_partial [5, 7, 9, 10] true (by decide) {} d' {} exMsg p _ Repr9.empty h (by decide +kernel)

/-! ### witnesses: `C04_full` is false, and every conformance condition is needed -/

/-- KNOWN CRATE DEFECT (protocol 146..254): template 256 = (PROTOCOL/1), one record holding protocol
    number 200.  The spec expects one record `Protocol = Unknown`; the crate's discriminant-based
    `ProtocolTypes::parse` fails, the record loop drops the record and reports its byte as padding. -/
theorem C04_proto_146_254_fails :
    Deviates [(256, .t ⟨256, 1, [⟨4, 1⟩]⟩)] { v9T := [(256, ⟨256, 1, [⟨4, 1⟩]⟩)] } (msgOf [.data 256 [[[200]]] []]) :=
  deviatesB_sound (repr9_single_t _ _) (by decide +kernel)

/-- what the parser returns in that case: no record, the record's byte as padding -/
theorem C04_proto_146_254_result :
    parsePacket genConfig { v9T := [(256, ⟨256, 1, [⟨4, 1⟩]⟩)] } (encV9 (msgOf [.data 256 [[[200]]] []])) =
      ({ v9T := [(256, ⟨256, 1, [⟨4, 1⟩]⟩)] }, .ok (.v9 [9, 1, 0, 0, 0, 0] [⟨256, 5, .data [] [200]⟩]) []) := by
  decide +kernel

/-- **`C04_full` is false of the model.** -/
theorem C04_full_fails : ¬ C04_full := by
  intro h
  obtain ⟨hR, d', p, he, hne⟩ := C04_proto_146_254_fails
  obtain ⟨st', hp, _⟩ := h [5, 7, 9, 10] true (by decide) { v9 := [(256, .t ⟨256, 1, [⟨4, 1⟩]⟩)] } d' _ _ p [] hR he
  apply hne
  rw [List.append_nil] at hp
  exact congrArg Prod.snd hp

/-- KNOWN CRATE DEFECT (8/16-byte signed value outside 32 bits is truncated by `as i32`).  No V9 field
    of the generated table has a signed type (`v9Ty_generated_not_signed`), so for V9 this carve-out is
    vacuous and the witness is at field level; it bites in IPFIX (C05). -/
theorem C04_signed_wide_field_fails :
    interpSpec Generated.protoNames .signed [0, 0, 0, 1, 0, 0, 0, 0] = some (.num (.i32 4294967296)) ∧
    parseValue genConfig.vc .signed 8 [0, 0, 0, 1, 0, 0, 0, 0] = some (.num (.i32 0), []) :=
  parseValue_signed_wide_fails

/-- SPEC GAP (zero-length field in an options template): `Spec.expV9Set` accepts it, the crate's
    `many0` reports no progress and the whole packet fails. -/
theorem C04_optdata_zero_len_fails :
    Deviates [(256, .o ⟨256, 4, 4, [⟨1, 0⟩], [⟨1, 1⟩]⟩)] { v9O := [(256, ⟨256, 4, 4, [⟨1, 0⟩], [⟨1, 1⟩]⟩)] }
      (msgOf [.data 256 [[[], [5]]] []]) :=
  deviatesB_sound (repr9_single_o _ _) (by decide +kernel)

/-- SPEC GAP (unknown scope field type 9): the scope loop stops at once with no scope field and the
    option loop then reads the scope bytes as option values. -/
theorem C04_optdata_unknown_scope_fails :
    Deviates [(256, .o ⟨256, 4, 4, [⟨9, 1⟩], [⟨1, 1⟩]⟩)] { v9O := [(256, ⟨256, 4, 4, [⟨9, 1⟩], [⟨1, 1⟩]⟩)] }
      (msgOf [.data 256 [[[7], [5]]] []]) :=
  deviatesB_sound (repr9_single_o _ _) (by decide +kernel)

/-- SPEC GAP (padding of 4+ bytes in a template flowset): greedy `many0` reports four zero bytes as
    a further template (id 0, no fields) — and caches it. -/
theorem C04_template_zero_pad_fails :
    Deviates [] {} (msgOf [.templates [⟨256, 1, [⟨1, 4⟩]⟩] [0, 0, 0, 0]]) :=
  deviatesB_sound Repr9.empty (by decide +kernel)

/-- SPEC GAP (template ids below 256 are not excluded): a data flowset whose id is 1 is parsed as an
    options-template flowset whatever the template memory says. -/
theorem C04_data_id_reserved_fails :
    Deviates [(1, .t ⟨1, 1, [⟨1, 1⟩]⟩)] { v9T := [(1, ⟨1, 1, [⟨1, 1⟩]⟩)] } (msgOf [.data 1 [[[5]]] []]) :=
  deviatesB_sound (repr9_single_t _ _) (by decide +kernel)

/-- SPEC GAP (header numbers are not range-checked): `sysUpTime = 2^32` is written as 0. -/
theorem C04_header_range_fails :
    Deviates [] {} { count := 0, sysUpTime := 4294967296, unixSecs := 0, seq := 0, sourceId := 0, sets := [] } :=
  deviatesB_sound Repr9.empty (by decide +kernel)

/-- SPEC GAP (template records are not checked for well-formedness): a template whose count field
    disagrees with its field list is read back differently. -/
theorem C04_template_count_fails :
    Deviates [] {} (msgOf [.templates [⟨256, 2, [⟨1, 4⟩]⟩] []]) :=
  deviatesB_sound Repr9.empty (by decide +kernel)

/-- the lookup-only part of `Repr9` (what one would write first) -/
def Repr9Lookup (d : List (Nat × V9Def)) (st : PState) : Prop :=
  (∀ id t, amLookup id d = some (.t t) ↔ amLookup id st.v9T = some t) ∧
  (∀ id t, amLookup id d = some (.o t) ↔ amLookup id st.v9O = some t)

/-- MODEL REMARK: the lookup-only relation is NOT preserved by a template flowset when a cache is not
    in canonical (key-sorted) form: `amErase` removes the first entry only, so a shadowed duplicate
    becomes visible.  Every cache the parser builds is sorted (`AmSorted.insert/erase`), so this concerns
    artificial states only; it is why `Repr9` carries the two sortedness components. -/
theorem C04_repr_lookup_only_not_preserved :
    ∃ (d : List (Nat × V9Def)) (st : PState) (t : V9Template),
      Repr9Lookup d st ∧ ¬ Repr9Lookup ([t].foldl (fun d t => v9Insert d t.id (.t t)) d) (insertV9Templates st [t]) := by
  refine ⟨[(300, .o ⟨300, 0, 0, [], []⟩)], { v9O := [(300, ⟨300, 0, 0, [], []⟩), (300, ⟨300, 4, 0, [⟨1, 4⟩], []⟩)] },
    ⟨300, 0, []⟩, ⟨?_, ?_⟩, ?_⟩
  · intro id t
    simp only [amLookup]
    by_cases h : id = 300 <;> simp [h]
  · intro id t
    simp only [amLookup]
    by_cases h : id = 300 <;> simp [h]
  · intro h
    have := (h.2 300 ⟨300, 4, 0, [⟨1, 4⟩], []⟩).mpr (by decide)
    revert this
    decide

/-- **C04.G** (regenerated on every run) the value decoder of the model IS the interpretation (`Arms.lean`) of the arms of
    `FieldValue::from_field_type` as `tools/translate.py` reads them from data_number.rs now: which reader, which constructor and which duration unit each library type uses. -/
theorem C04_value_arms_generated (c : ValueCfg) (ty : FType) (len : Nat) (i : Bytes) :
    parseValue c ty len i = parseValueBy Generated.valueArms c ty len i :=
  G1.parseValue_eq_generated c ty len i

end Netflow.Props
