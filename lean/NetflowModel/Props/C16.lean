/-
  Props/C16.lean — C16: every parse result serialises to JSON, deterministically and faithfully.

  The model of `serde_json::to_value(&NetflowPacket)` is `toJ : Config → JNames → Packet → JVal`
  (Json.lean).  At run time the driver parses the crate's real JSON text and compares it with `toJ` of
  the decoded value; the theorems below are about `toJ` itself.

  * TOTALITY / DETERMINISM are definitional: `toJ` is a total Lean function of the decoded value (and of
    the name tables), so "serialisation succeeds" and "the same result serialises to the same JSON, also
    across parser instances" hold by construction — the decoded value does not mention the hash-map
    caches.  No theorem is needed (`C16_deterministic` below is `rfl`-trivial and only there to name it).
  * FLOAT SPECIALS: `.f64 bits` is carried through as its 64 bits (`JVal.f64`); the driver maps NaN/±∞
    to `null` exactly as serde_json does.  Model-level remark, no theorem.
  * TEMPLATE ORDER: `C16_record_keys_in_template_order`, `C16_ipfix_record_keys_in_template_order`,
    `C16_parse_results_keys_in_template_order`.
  * WHAT THE JSON OMITS: `C16_skipped_only_paddings` (paddings) and `C16_untagged_numbers` (the width tag
    of a `DataNumber`, `#[serde(untagged)]`).
  * FAITHFULNESS as injectivity: `C16_faithful_partial` / `C16_faithful_iff`: two well-formed packets
    have the same JSON iff they agree after erasing paddings and width tags (`jnorm`).  Well-formedness
    (`pktWf`) is PROVED for every parse result (`C16_parse_results_wellformed`, under `TablesCover`), the
    name-table side conditions are discharged for the generated tables by kernel evaluation
    (`jsonNames_ok`, `jsonCover`), so `C16_generated_faithful` has no hypothesis left besides "p and q are
    elements of lists returned by `parse_bytes`".  `ip6Text` injectivity is proved, not assumed.
    The full-strength statement with `erasePads` only (`C16_full`) is FALSE of the model and of the crate
    (`C16_full_fails`): `DataNumber::U8(5)` and `DataNumber::U32(5)` both serialise to `5`.
  Helper lemmas live in Lemmas/B1Json.lean.
-/
import NetflowModel.Lemmas.B1Json
import NetflowModel.Generated
namespace Netflow.Props
open Netflow Netflow.B1

/-! ### determinism (definitional) -/

/-- serialising the same decoded value twice gives the same JSON (trivial: `toJ` is a function) -/
theorem C16_deterministic (c : Config) (nm : JNames) (p q : Packet) (h : p = q) : toJ c nm p = toJ c nm q := by
  rw [h]

/-! ### records' fields are in template order -/

/-- V9: a record decoded against `fields` has entry indices `0, 1, …, |fields|-1` in this order, the
    field enum of the k-th entry is the one of the k-th template field, and hence the member names of
    its JSON object are the decimal strings `"0", "1", …` in template order, without duplicates. -/
theorem C16_record_keys_in_template_order (c : Config) (nm : JNames) (names : List (Nat × String))
    (fields : List TField) (i : Bytes) (rec : Rec) (r : Bytes) (h : v9ParseRec c fields 0 i = some (rec, r)) :
    rec.map (·.1) = List.range fields.length ∧
    rec.map (·.2.1) = fields.map (fun f => c.t.v9Field f.typ) ∧
    jKeys (recJ nm names rec) = (List.range fields.length).map toString ∧
    (jKeys (recJ nm names rec)).Nodup := by
  obtain ⟨h1, h2⟩ := v9ParseRec_shape c _ _ _ _ _ h
  rw [← List.range_eq_range'] at h1
  refine ⟨h1, h2, ?_, ?_⟩
  · rw [jKeys_recJ, h1]
  · rw [jKeys_recJ, h1]; exact toString_keys_nodup _

/-- IPFIX: one record is a run of single-entry maps; the k-th map has the single key `k` and carries the
    field enum of the k-th template field. -/
theorem C16_ipfix_record_keys_in_template_order (c : Config) (nm : JNames) (fields : List IpTField) (i : Bytes)
    (recs : List Rec) (r : Bytes) (h : ipParseRec c fields 0 i = some (recs, r)) :
    recs.map (fun m => m.map (·.1)) = (List.range fields.length).map (fun k => [k]) ∧
    recs.map (fun m => m.map (·.2.1)) = fields.map (fun f => [ipFieldDisc c f]) ∧
    recs.map (fun m => jKeys (recJ nm nm.ipField m)) = (List.range fields.length).map (fun k => [toString k]) := by
  obtain ⟨h1, h2⟩ := ipParseRec_shape c _ _ _ _ _ h
  rw [← List.range_eq_range'] at h1
  refine ⟨h1, h2, ?_⟩
  have : recs.map (fun m => jKeys (recJ nm nm.ipField m)) = (recs.map (fun m => m.map (·.1))).map (·.map toString) := by
    simp [jKeys_recJ]
  rw [this, h1]; simp

/-- whole parse results: in every packet `parse_bytes` returns, the records of a V9 `Data` body all have
    keys `0..n-1` in order (n = the template's field count), and the maps of an IPFIX `Data` /
    `OptionsData` body are `k` blocks of single-entry maps keyed `0, 1, …, n-1`. -/
theorem C16_parse_results_keys_in_template_order (c : Config) (st st' : PState) (buf : Bytes) (ps : List Packet)
    (h : parseBytes c st buf = (st', .done ps)) : ∀ p ∈ ps, PktAll V9KeysOk IpKeysOk p :=
  parseBytes_keys c st st' buf ps h

/-! ### what the JSON does not show -/

/-- the JSON does not depend on any padding: `erasePads` sets every `#[serde(skip_serializing)]` field
    (V9 `Templates`/`OptionsTemplates`/`Data`/`OptionsData` padding, IPFIX `Template`/`OptionsTemplate`/
    `Data`/`OptionsData` padding) to `[]` -/
theorem C16_skipped_only_paddings (c : Config) (nm : JNames) (p : Packet) : toJ c nm p = toJ c nm (erasePads p) :=
  (toJ_erasePads c nm p).symm

/-- the JSON does not depend on the width tag of a decoded number (`#[serde(untagged)] enum DataNumber`) -/
theorem C16_untagged_numbers (c : Config) (nm : JNames) (p : Packet) : toJ c nm p = toJ c nm (forgetWidths p) :=
  (toJ_forgetWidths c nm p).symm

/-! ### faithfulness -/

/-- FAITHFULNESS (injectivity of `toJ` modulo what it provably omits).  Hypotheses: the three enum name
    tables are injective on their key sets (`NamesOk`), and both packets are well formed for the tables
    (`pktWf`: header / record value lists aligned with their layouts, every enum discriminant is a key of
    its name table, `Ipv4Addr` values `< 2^32`, `Ipv6Addr` values `< 2^128`, V9 scope kinds in `1..5`).
    Conclusion: equal JSON ⇒ equal header fields, set headers, template definitions, record indices, field
    enums and decoded field values; only the paddings and the `DataNumber` width tags may differ.
    `_partial`: the conclusion is about `jnorm = forgetWidths ∘ erasePads`, not `erasePads` alone (that
    statement is false, see `C16_full_fails`), and `pktWf` is a hypothesis here (it is established for every
    parse result separately: `C16_parse_results_wellformed`, `C16_generated_faithful`).
    `ip6Text` injectivity (zero-run compression, IPv4-mapped form) is PROVED (`B1.ip6Text_inj`), not assumed. -/
theorem C16_faithful_partial (c : Config) (nm : JNames) (hn : NamesOk nm) (p q : Packet)
    (hp : pktWf c nm p = true) (hq : pktWf c nm q = true) (h : toJ c nm p = toJ c nm q) : jnorm p = jnorm q :=
  toJ_inj hn hp hq h

/-- exact characterisation of the JSON's information content on well-formed packets -/
theorem C16_faithful_iff (c : Config) (nm : JNames) (hn : NamesOk nm) (p q : Packet)
    (hp : pktWf c nm p = true) (hq : pktWf c nm q = true) : toJ c nm p = toJ c nm q ↔ jnorm p = jnorm q := by
  constructor
  · exact toJ_inj hn hp hq
  · intro h
    rw [← toJ_jnorm c nm p, ← toJ_jnorm c nm q, h]

/-- per-layer versions (usable without a whole packet) -/
theorem C16_field_value_faithful (nm : JNames) (hp : NameInj nm.proto) (v w : FieldValue)
    (hv : fvWf nm v = true) (hw : fvWf nm w = true) (h : fieldValueJ nm v = fieldValueJ nm w) : normFv v = normFv w :=
  fieldValueJ_inj hp hv hw h

theorem C16_record_faithful (nm : JNames) (names : List (Nat × String)) (hp : NameInj nm.proto) (hn : NameInj names)
    (r s : Rec) (hr : recWf nm names r = true) (hs : recWf nm names s = true)
    (h : recJ nm names r = recJ nm names s) : normRec r = normRec s :=
  recJ_inj hp hn hr hs h

theorem C16_v9_body_faithful (c : Config) (nm : JNames) (hn : NamesOk nm) (a b : V9Body)
    (ha : v9BodyWf nm a = true) (hb : v9BodyWf nm b = true) (h : v9BodyJ c nm a = v9BodyJ c nm b) :
    numV9 (padV9 a) = numV9 (padV9 b) :=
  v9BodyJ_inj hn ha hb h

theorem C16_ipfix_body_faithful (c : Config) (nm : JNames) (hn : NamesOk nm) (a b : IpBody)
    (ha : ipBodyWf nm a = true) (hb : ipBodyWf nm b = true) (h : ipBodyJ c nm a = ipBodyJ c nm b) :
    numIp (padIp a) = numIp (padIp b) :=
  ipBodyJ_inj hn ha hb h

theorem C16_error_faithful (a b : ErrKind) (h : errKindJ a = errKindJ b) : a = b := errKindJ_inj h

theorem C16_layout_faithful (nm : JNames) (hp : NameInj nm.proto) (lay : Layout) (a b : List Nat)
    (ha : layoutWf nm lay a = true) (hb : layoutWf nm lay b = true) (h : layoutJ nm lay a = layoutJ nm lay b) : a = b :=
  layoutJ_inj hp ha hb h

/-- leaf printers -/
theorem C16_ip4Text_injective (m n : Nat) (hm : m < 2 ^ 32) (hn : n < 2 ^ 32) (h : ip4Text m = ip4Text n) : m = n :=
  ip4Text_inj hm hn h

theorem C16_ip6Text_injective (m n : Nat) (hm : m < 2 ^ 128) (hn : n < 2 ^ 128) (h : ip6Text m = ip6Text n) : m = n :=
  ip6Text_inj hm hn h

theorem C16_macText_injective (x y : Bytes) (h : macText x = macText y) : x = y := macText_inj h

theorem C16_index_keys_injective (j k : Nat) (h : toString j = toString k) : j = k := toString_nat_inj h

example : ip6Text 0 = "::" := by decide
example : ip6Text 1 = "::1" := by decide
example : ip6Text 0xffff0a000001 = "::ffff:10.0.0.1" := by decide
example : ip6Text 0x20010db8000000000000000000000001 = "2001:db8::1" := by decide
example : ip6Text 0x20010db8000000010000000000000001 = "2001:db8:0:1::1" := by decide
example : ip6Text 0x00010002000300040005000600070008 = "1:2:3:4:5:6:7:8" := by decide
example : ip4Text 0xc0a80001 = "192.168.0.1" := by decide
example : macText [0x00, 0x1b, 0x2c, 0xff, 0xa0, 0x09] = "00:1B:2C:FF:A0:09".toUTF8.data.toList := by decide

/-! ### the generated tables -/

/-- the name tables the driver uses, taken from the generated Rust-derived tables -/
def jsonNames : JNames :=
  { proto := Generated.protoNames, v9Field := Generated.v9FieldNames, ipField := Generated.ipFieldNames,
    scope := Generated.scopeNames, ipv4Fields := Generated.ipv4Fields }

def jsonCfg : Config := { t := Generated.tables, allowed := Generated.defaultAllowed }

set_option maxRecDepth 100000 in
theorem jsonNames_proto_inj : injTblB Generated.protoNames = true := by decide +kernel
set_option maxRecDepth 100000 in
theorem jsonNames_v9Field_inj : injTblB Generated.v9FieldNames = true := by decide +kernel
set_option maxRecDepth 100000 in
theorem jsonNames_ipField_inj : injTblB Generated.ipFieldNames = true := by decide +kernel

/-- side condition of `C16_faithful_partial` for the generated tables: `ProtocolTypes`, `V9Field`,
    `IPFixField` variant names are pairwise distinct (so the externally tagged enum names identify the
    variant) -/
theorem jsonNames_ok : NamesOk jsonNames :=
  ⟨nameInj_of_injTblB jsonNames_proto_inj, nameInj_of_injTblB jsonNames_v9Field_inj,
   nameInj_of_injTblB jsonNames_ipField_inj⟩

/-- `C16_faithful_partial` instantiated for the generated tables -/
theorem C16_generated_faithful_partial (p q : Packet)
    (hp : pktWf jsonCfg jsonNames p = true) (hq : pktWf jsonCfg jsonNames q = true)
    (h : toJ jsonCfg jsonNames p = toJ jsonCfg jsonNames q) : jnorm p = jnorm q :=
  C16_faithful_partial jsonCfg jsonNames jsonNames_ok p q hp hq h

/-! ### every parse result is well formed, so faithfulness applies to all parse results -/

/-- well-formedness is not an assumption about parse results: if the name tables have an entry for every
    discriminant the crate's conversions (`From<u8> for ProtocolTypes`, `ProtocolTypes::parse`,
    `V9Field::from`, `IPFixField::from`, `IPFixField::Enterprise`, known `ScopeFieldType`s) can produce and
    `Ipv4Addr` struct fields are at most four bytes wide (`TablesCover`), every packet returned by
    `parse_bytes` — for any parser state and any input — satisfies `pktWf`. -/
theorem C16_parse_results_wellformed (c : Config) (nm : JNames) (hc : TablesCover c nm) (st st' : PState)
    (buf : Bytes) (ps : List Packet) (h : parseBytes c st buf = (st', .done ps)) : ∀ p ∈ ps, pktWf c nm p = true :=
  parseBytes_wf hc st st' buf ps h

/-- FAITHFULNESS for parse results: any two packets returned by `parse_bytes` (by any two parser states on
    any two inputs) that serialise to the same JSON agree in everything except paddings and `DataNumber`
    width tags. -/
theorem C16_faithful_parse_results (c : Config) (nm : JNames) (hn : NamesOk nm) (hc : TablesCover c nm)
    (st1 st1' st2 st2' : PState) (buf1 buf2 : Bytes) (ps qs : List Packet)
    (h1 : parseBytes c st1 buf1 = (st1', .done ps)) (h2 : parseBytes c st2 buf2 = (st2', .done qs))
    (p q : Packet) (hp : p ∈ ps) (hq : q ∈ qs) (h : toJ c nm p = toJ c nm q) : jnorm p = jnorm q :=
  toJ_inj hn (parseBytes_wf hc _ _ _ _ h1 p hp) (parseBytes_wf hc _ _ _ _ h2 q hq) h

/-- a configuration over the generated tables (any allowed-version set, either setting of the
    `parse_unknown_fields` feature) -/
def jsonCfgOf (allowed : List Nat) (uf : Bool) : Config :=
  { t := Generated.tables, allowed := allowed, unknownFields := uf }

set_option maxRecDepth 100000 in
theorem jsonCover_protoFrom : ∀ x, Generated.tables.protoFromU8 x ∈ keysOf jsonNames.proto :=
  lookupD_mem (by decide +kernel) (by decide +kernel)

set_option maxRecDepth 100000 in
theorem jsonCover_protoDiscs :
    Generated.protoDiscs.all (fun d => (keysOf jsonNames.proto).contains d) = true := by decide +kernel

set_option maxRecDepth 100000 in
theorem jsonCover_v9Field : ∀ x, Generated.tables.v9Field x ∈ keysOf jsonNames.v9Field :=
  lookupD_mem (by decide +kernel) (by decide +kernel)

set_option maxRecDepth 100000 in
theorem jsonCover_ipField : ∀ x, Generated.tables.ipField x ∈ keysOf jsonNames.ipField :=
  lookupD_mem (by decide +kernel) (by decide +kernel)

set_option maxRecDepth 100000 in
theorem jsonCover_ipEnt : Generated.tables.ipEnterprise ∈ keysOf jsonNames.ipField := by decide +kernel

theorem jsonCover_layouts :
    layoutOk jsonNames Generated.tables.v5Hdr = true ∧ layoutOk jsonNames Generated.tables.v5Rec = true ∧
    layoutOk jsonNames Generated.tables.v7Hdr = true ∧ layoutOk jsonNames Generated.tables.v7Rec = true ∧
    layoutOk jsonNames Generated.tables.v9Hdr = true ∧ layoutOk jsonNames Generated.tables.ipHdr = true := by
  decide +kernel

/-- the generated tables satisfy `TablesCover` (all side conditions by kernel evaluation) -/
theorem jsonCover (allowed : List Nat) (uf : Bool) : TablesCover (jsonCfgOf allowed uf) jsonNames where
  protoFrom := jsonCover_protoFrom
  protoParse := by
    intro x p h
    simp only [jsonCfgOf, Generated.tables] at h
    split at h
    · next hc =>
      simp only [Option.some.injEq] at h
      subst h
      have := jsonCover_protoDiscs
      simp only [List.all_eq_true, List.contains_iff_mem] at this hc
      exact this _ hc
    · simp at h
  v9Field := jsonCover_v9Field
  ipField := jsonCover_ipField
  ipEnt := jsonCover_ipEnt
  scope := by
    intro x h
    simp only [jsonCfgOf, Generated.tables] at h ⊢
    simpa [Generated.scopeKnownDiscs] using h
  v5Hdr := jsonCover_layouts.1
  v5Rec := jsonCover_layouts.2.1
  v7Hdr := jsonCover_layouts.2.2.1
  v7Rec := jsonCover_layouts.2.2.2.1
  v9Hdr := jsonCover_layouts.2.2.2.2.1
  ipHdr := jsonCover_layouts.2.2.2.2.2

/-- C16 faithfulness for the crate as generated, with NO remaining hypothesis besides "these are parse
    results": two packets returned by `parse_bytes` with equal JSON are equal up to paddings and width tags. -/
theorem C16_generated_faithful (allowed : List Nat) (uf : Bool)
    (st1 st1' st2 st2' : PState) (buf1 buf2 : Bytes) (ps qs : List Packet)
    (h1 : parseBytes (jsonCfgOf allowed uf) st1 buf1 = (st1', .done ps))
    (h2 : parseBytes (jsonCfgOf allowed uf) st2 buf2 = (st2', .done qs))
    (p q : Packet) (hp : p ∈ ps) (hq : q ∈ qs)
    (h : toJ (jsonCfgOf allowed uf) jsonNames p = toJ (jsonCfgOf allowed uf) jsonNames q) : jnorm p = jnorm q :=
  C16_faithful_parse_results _ jsonNames jsonNames_ok (jsonCover allowed uf) _ _ _ _ _ _ _ _ h1 h2 p q hp hq h

/-- the member names of every fixed-layout struct object are pairwise distinct (with
    `C16_record_keys_in_template_order` for records: no JSON object produced by `toJ` for a parse result
    repeats a member name; all other objects have literal, distinct member names) -/
theorem C16_generated_layout_names_distinct :
    ∀ lay ∈ [Generated.tables.v5Hdr, Generated.tables.v5Rec, Generated.tables.v7Hdr, Generated.tables.v7Rec,
             Generated.tables.v9Hdr, Generated.tables.ipHdr], (lay.map (·.name)).Nodup := by
  decide +kernel

/-- non-vacuity of the parse-result theorems: a concrete buffer (a V5 header announcing zero records
    followed by one stray byte) on which `parse_bytes` returns a V5 packet and an error element -/
example : parseBytes (jsonCfgOf [5, 7, 9, 10] true) {}
      [0, 5, 0, 0, 0, 0, 3, 232, 101, 83, 241, 0, 0, 0, 0, 0, 0, 0, 0, 42, 0, 0, 0, 0, 9] =
    ({}, .done [.v5 [5, 0, 1000, 1700000000, 0, 42, 0, 0, 0] [], .error .incomplete [9]]) := by
  decide +kernel

/-! ### the full-strength statement fails: width tags are not recoverable -/

/-- injectivity modulo paddings only -/
def C16_full : Prop :=
  ∀ (c : Config) (nm : JNames), NamesOk nm → ∀ p q : Packet, pktWf c nm p = true → pktWf c nm q = true →
    toJ c nm p = toJ c nm q → erasePads p = erasePads q

def c16WitnessU8 : Packet :=
  .v9 [9, 1, 0, 0, 0, 0] [{ id := 256, len := 5, body := .data [[(0, 5, .num (.u8 5))]] [] }]
def c16WitnessU32 : Packet :=
  .v9 [9, 1, 0, 0, 0, 0] [{ id := 256, len := 5, body := .data [[(0, 5, .num (.u32 5))]] [] }]

/-- `DataNumber::U8(5)` and `DataNumber::U32(5)` have the same JSON (`5`): the untagged enum loses the
    width, so decoded values are recoverable from the JSON only up to `forgetWidths`. -/
theorem C16_full_fails : ¬ C16_full := by
  intro h
  have := h jsonCfg jsonNames jsonNames_ok c16WitnessU8 c16WitnessU32 (by decide) (by decide) (by rfl)
  revert this
  decide

/-! ### non-vacuity: concrete packets, evaluated with the generated tables -/

def c16V5Example : Packet := .v5 [5, 1, 1000, 1700000000, 0, 42, 0, 0, 0]
  [[0x0a000001, 0x0a000002, 0, 1, 2, 10, 1000, 100, 200, 1234, 80, 0, 0x18, 6, 6, 0, 64512, 64513, 24, 24, 0]]

example : pktWf jsonCfg jsonNames c16V5Example = true := by decide

example : toJ jsonCfg jsonNames c16V5Example =
  .obj [("V5", .obj [("header", .obj [("version", .num 5), ("count", .num 1), ("sys_up_time", .num 1000),
      ("unix_secs", .num 1700000000), ("unix_nsecs", .num 0), ("flow_sequence", .num 42), ("engine_type", .num 0),
      ("engine_id", .num 0), ("sampling_interval", .num 0)]),
    ("flowsets", .arr [.obj [("src_addr", strJ "10.0.0.1"), ("dst_addr", strJ "10.0.0.2"), ("next_hop", strJ "0.0.0.0"),
      ("input", .num 1), ("output", .num 2), ("d_pkts", .num 10), ("d_octets", .num 1000), ("first", .num 100),
      ("last", .num 200), ("src_port", .num 1234), ("dst_port", .num 80), ("pad1", .num 0), ("tcp_flags", .num 24),
      ("protocol_number", .num 6), ("protocol_type", strJ "Tcp"), ("tos", .num 0), ("src_as", .num 64512),
      ("dst_as", .num 64513), ("src_mask", .num 24), ("dst_mask", .num 24), ("pad2", .num 0)]])])] := by
  rfl

/-- a V9 packet with one template flowset and one data flowset (one record: source address, protocol,
    byte count), with non-empty paddings -/
def c16V9Template : V9Template :=
  { id := 256, fieldCount := 3, fields := [{ typ := 8, len := 4 }, { typ := 4, len := 1 }, { typ := 1, len := 4 }] }

def c16V9Record : Rec := [(0, 8, .ip4 0xc0a80001), (1, 4, .proto 6), (2, 1, .num (.u32 1500))]

def c16V9Example : Packet :=
  .v9 [9, 2, 5000, 1700000000, 7, 1]
    [{ id := 0, len := 20, body := .templates [c16V9Template] [] },
     { id := 256, len := 16, body := .data [c16V9Record] [0, 0, 0] }]

example : pktWf jsonCfg jsonNames c16V9Example = true := by decide

example : toJ jsonCfg jsonNames c16V9Example =
  .obj [("V9", .obj [("header", .obj [("version", .num 9), ("count", .num 2), ("sys_up_time", .num 5000),
      ("unix_secs", .num 1700000000), ("sequence_number", .num 7), ("source_id", .num 1)]),
    ("flowsets", .arr [
      .obj [("header", .obj [("flowset_id", .num 0), ("length", .num 20)]),
            ("body", .obj [("Template", .obj [("templates", .arr [.obj [("template_id", .num 256), ("field_count", .num 3),
              ("fields", .arr [
                .obj [("field_type_number", .num 8), ("field_type", strJ "Ipv4SrcAddr"), ("field_length", .num 4)],
                .obj [("field_type_number", .num 4), ("field_type", strJ "Protocol"), ("field_length", .num 1)],
                .obj [("field_type_number", .num 1), ("field_type", strJ "InBytes"), ("field_length", .num 4)]])]])])])],
      .obj [("header", .obj [("flowset_id", .num 256), ("length", .num 16)]),
            ("body", .obj [("Data", .obj [("fields", .arr [.obj [
              ("0", .arr [strJ "Ipv4SrcAddr", .obj [("Ip4Addr", strJ "192.168.0.1")]]),
              ("1", .arr [strJ "Protocol", .obj [("ProtocolType", strJ "Tcp")]]),
              ("2", .arr [strJ "InBytes", .obj [("DataNumber", .num 1500)]])]])])])]])])] := by
  rfl

/-- non-vacuity of `C16_record_keys_in_template_order`: the record of `c16V9Example` is what the model parser
    decodes from nine bytes against the example template -/
example : v9ParseRec jsonCfg c16V9Template.fields 0 [192, 168, 0, 1, 6, 0, 0, 5, 220] = some (c16V9Record, []) := by
  decide +kernel

/-- non-vacuity of `C16_ipfix_record_keys_in_template_order` -/
example : ipParseRec jsonCfg [{ typ := 8, len := 4, ent := none }, { typ := 4, len := 1, ent := none }] 0
      [192, 168, 0, 1, 6] = some ([[(0, 8, .ip4 0xc0a80001)], [(1, 4, .num (.u8 6))]], []) := by
  decide +kernel

/-- the padding of the data flowset is the only thing `erasePads` changes here, and the JSON is the same -/
example : erasePads c16V9Example ≠ c16V9Example ∧ toJ jsonCfg jsonNames (erasePads c16V9Example) = toJ jsonCfg jsonNames c16V9Example :=
  ⟨by decide, by rfl⟩

/-- the witnesses of `C16_full_fails` are well formed and identified by `jnorm` -/
example : pktWf jsonCfg jsonNames c16WitnessU8 = true ∧ jnorm c16WitnessU8 = jnorm c16WitnessU32 ∧ c16WitnessU8 ≠ c16WitnessU32 :=
  ⟨by decide, by decide, by decide⟩

/-- **C16.0** (regenerated from the source on every run) the library declares no mutable global or per-thread state
    (`static mut`, `thread_local!`, `OnceLock`/`OnceCell`/`lazy_static!`, `static … : Mutex|RwLock|Atomic…`), as the model assumes
    by making `parseBytes` a function of `(config, parser state, buffer)`: serialisation and parsing read no state outside the values they are given (determinism across parser instances). -/
theorem C16_no_global_state : Generated.noGlobals = true := by decide


end Netflow.Props
