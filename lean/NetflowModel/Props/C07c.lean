/-
  Props/C07c.lean — C07, last clause: "once the template is later received the same data bytes
  decode normally".

  * `C07_then_known_decodes_v9`     : a V9 data flowset body whose id has a cached template with a
                                      non-zero record size is reported as `.data`, state unchanged,
                                      at most `|body| / size` records;
  * `C07_then_known_nonempty_v9`    : … and at least one record if the body holds one that decodes;
  * `C07_unknown_then_template_then_data_v9` : the whole scenario with three calls of
                                      `parse_packet_by_version` on the same parser: data packet →
                                      error, template packet → template cached, the SAME data
                                      packet → a V9 packet with a `.data` flowset for that id;
  * `C07_then_known_decodes_ipfix*` : the IPFIX analogue with `ipRecLoop`;
  * `C07_unknown_then_template_then_data_ipfix` : the IPFIX scenario at set level.
  Concrete instances by `decide` at the end.  Only new definitions/theorems.
-/
import NetflowModel.Props.C07
import NetflowModel.Lemmas.B3CostIp
import NetflowModel.Generated
namespace Netflow.Props
open Netflow Preds

/-! ### 0. small facts -/

/-- erasing a key that is not in the map does nothing (no sortedness needed) -/
theorem amErase_of_lookup_none {β : Type} (k : Nat) : ∀ (m : List (Nat × β)), amLookup k m = none → amErase k m = m := by
  intro m
  induction m with
  | nil => intro _; rfl
  | cons x xs ih =>
    intro h
    obtain ⟨k', v'⟩ := x
    simp only [amLookup] at h
    by_cases hk : k = k'
    · simp [hk] at h
    · simp only [hk, ↓reduceIte] at h
      simp only [amErase, hk, ↓reduceIte, ih h]

/-! ### 1. V9: flowset body, flowset -/

/-- **C07, last clause, V9 body**: the id is a data id, it has no options template, it has a cached
    template `t` whose record size is not zero.  Then the body is reported as data records (never an
    error, never a panic), the caches are unchanged, and there are at most `|body| / size` records. -/
theorem C07_then_known_decodes_v9 (c : Config) (st : PState) (id : Nat) (body : Bytes) (t : V9Template)
    (h1 : id ≠ c.t.v9TemplateId) (h2 : id ≠ c.t.v9OptTemplateId)
    (hO : amLookup id st.v9O = none) (hT : amLookup id st.v9T = some t) (hz : v9TotalSize t.fields ≠ 0) :
    ∃ recs pad, v9ParseBody c st id body = (st, .ok (.data recs pad)) ∧
      (recs, pad) = v9RecLoop c t.fields (body.length / v9TotalSize t.fields) body [] ∧
      recs.length ≤ body.length / v9TotalSize t.fields ∧ pad.length ≤ body.length := by
  refine ⟨(v9RecLoop c t.fields (body.length / v9TotalSize t.fields) body []).1,
    (v9RecLoop c t.fields (body.length / v9TotalSize t.fields) body []).2, ?_, rfl, ?_⟩
  · simp [v9ParseBody, h1, h2, hO, hT, hz]
  · have := B3.v9RecLoop_count c t.fields (body.length / v9TotalSize t.fields) body [] _ _ rfl
    simpa using this

/-- … and the list of records is not empty as soon as the body is at least one record long and its
    first record decodes -/
theorem C07_then_known_nonempty_v9 (c : Config) (st : PState) (id : Nat) (body : Bytes) (t : V9Template)
    (h1 : id ≠ c.t.v9TemplateId) (h2 : id ≠ c.t.v9OptTemplateId)
    (hO : amLookup id st.v9O = none) (hT : amLookup id st.v9T = some t) (hz : v9TotalSize t.fields ≠ 0)
    (hlen : v9TotalSize t.fields ≤ body.length) (r : Rec) (rest : Bytes)
    (hrec : v9ParseRec c t.fields 0 body = some (r, rest)) :
    ∃ recs pad, v9ParseBody c st id body = (st, .ok (.data (r :: recs) pad)) := by
  obtain ⟨recs, pad, hb, hloop, _, _⟩ := C07_then_known_decodes_v9 c st id body t h1 h2 hO hT hz
  have hpos : 0 < body.length / v9TotalSize t.fields := Nat.div_pos hlen (by omega)
  obtain ⟨n, hn⟩ : ∃ n, body.length / v9TotalSize t.fields = n + 1 := ⟨_, (Nat.succ_pred_eq_of_pos hpos).symm⟩
  rw [hn] at hloop
  simp only [v9RecLoop, hrec, List.nil_append] at hloop
  -- the loop continues from `[r]`; what it returns starts with `r`
  have hpre : ∀ (m : Nat) (i : Bytes) (acc : List Rec), ∃ more, (v9RecLoop c t.fields m i acc).1 = acc ++ more := by
    intro m
    induction m with
    | zero => intro i acc; exact ⟨[], by simp [v9RecLoop]⟩
    | succ m ih =>
      intro i acc
      simp only [v9RecLoop]
      cases hr : v9ParseRec c t.fields 0 i with
      | none => exact ih i acc
      | some x =>
        obtain ⟨r', i'⟩ := x
        obtain ⟨more, hm⟩ := ih i' (acc ++ [r'])
        exact ⟨r' :: more, by simp only [hm, List.append_assoc, List.singleton_append]⟩
  obtain ⟨more, hm⟩ := hpre n rest [r]
  have e1 : recs = (v9RecLoop c t.fields n rest [r]).1 := by rw [← hloop]
  rw [e1, hm] at hb
  exact ⟨more, pad, hb⟩

/-- the flowset carrying such a body: decoded, state unchanged, the bytes after it remain -/
theorem C07_then_known_set_v9 (c : Config) (st : PState) (i : Bytes) (hd : List Nat) (r body r' : Bytes) (t : V9Template)
    (hh : parseLayout c.t.protoFromU8 c.t.v9SetHdr i = some (hd, r))
    (ht : takeN (c.t.v9SetHdr.get "length" hd - 4) r = some (body, r'))
    (h1 : c.t.v9SetHdr.get "flowset_id" hd ≠ c.t.v9TemplateId)
    (h2 : c.t.v9SetHdr.get "flowset_id" hd ≠ c.t.v9OptTemplateId)
    (hO : amLookup (c.t.v9SetHdr.get "flowset_id" hd) st.v9O = none)
    (hT : amLookup (c.t.v9SetHdr.get "flowset_id" hd) st.v9T = some t) (hz : v9TotalSize t.fields ≠ 0) :
    ∃ recs pad, v9ParseSet c st i =
        (st, .ok ({ id := c.t.v9SetHdr.get "flowset_id" hd, len := c.t.v9SetHdr.get "length" hd,
                    body := .data recs pad }, r')) ∧
      recs.length ≤ body.length / v9TotalSize t.fields := by
  obtain ⟨recs, pad, hb, _, hl, _⟩ := C07_then_known_decodes_v9 c st _ body t h1 h2 hO hT hz
  exact ⟨recs, pad, by simp [v9ParseSet, hh, ht, hb], hl⟩

/-! ### 2. V9: a packet with exactly one flowset -/

/-- `p` is (the remaining input starting with) a V9 packet whose header announces ONE flowset:
    version word `v` allowed and dispatched to the V9 parser, header `hd`, then a flowset with header
    `sh` and body `sbody`; `rest` is what follows the flowset. -/
def V9OneSet (c : Config) (p : Bytes) (hd sh : List Nat) (sbody rest : Bytes) : Prop :=
  ∃ (v : Nat) (r r1 : Bytes),
    beU 2 p = some (v, p.drop 2) ∧ c.allowed.contains v = true ∧ c.t.dispatch.lookup v = some 9 ∧
    parseLayout c.t.protoFromU8 c.t.v9Hdr (p.drop 2) = some (hd, r) ∧ c.t.v9Hdr.get "count" hd = 1 ∧ r ≠ [] ∧
    parseLayout c.t.protoFromU8 c.t.v9SetHdr r = some (sh, r1) ∧
    takeN (c.t.v9SetHdr.get "length" sh - 4) r1 = some (sbody, rest)

/-- what `parse_packet_by_version` does with a one-flowset V9 packet, in terms of the flowset body -/
theorem parsePacket_v9OneSet (c : Config) (st : PState) (p : Bytes) (hd sh : List Nat) (sbody rest : Bytes)
    (hp : V9OneSet c p hd sh sbody rest) :
    parsePacket c st p =
      match v9ParseBody c st (c.t.v9SetHdr.get "flowset_id" sh) sbody with
      | (st', .ok b) =>
        (st', .ok (.v9 hd [{ id := c.t.v9SetHdr.get "flowset_id" sh, len := c.t.v9SetHdr.get "length" sh, body := b }]) rest)
      | (st', .err) => (st', .fail (.partialParse 9 (p.drop 2)))
      | (st', .panic) => (st', .panic)
      | (st', .overflow) => (st', .overflow) := by
  obtain ⟨v, r, r1, hv, ha, hdp, hh, hc, hne, hs, ht⟩ := hp
  have hemp : r.isEmpty = false := by cases r <;> simp_all
  have ha' : v ∈ c.allowed := by simpa using ha
  cases hb : v9ParseBody c st (c.t.v9SetHdr.get "flowset_id" sh) sbody with
  | mk st' res =>
    cases res <;>
      simp [parsePacket, hv, ha', hdp, parseVersioned, parseV9, hh, hc, v9ParseSets, hemp, v9ParseSet, hs, ht, hb, liftRes]

/-- **C07, the whole scenario, V9, three calls on one parser.**
    `d` is a V9 packet with one data flowset for `id`, `tp` a V9 packet with one template flowset
    announcing exactly the template `t` with `t.id = id` (non-zero record size).  From ANY state `st`
    in which `id` is unknown to V9:
      1. `parse_packet_by_version(d)` fails (`Partial`), caches unchanged;
      2. `parse_packet_by_version(tp)` returns the template flowset and caches `t`;
      3. `parse_packet_by_version(d)` — the SAME bytes — now returns a V9 packet whose flowset for `id`
         is `.data` (at most `|body| / size` records), caches unchanged. -/
theorem C07_unknown_then_template_then_data_v9 (c : Config) (st : PState)
    (d : Bytes) (hd sh : List Nat) (dbody drest : Bytes) (tp : Bytes) (thd tsh : List Nat) (tbody trest : Bytes)
    (t : V9Template) (tpad : Bytes)
    (hdp : V9OneSet c d hd sh dbody drest) (htp : V9OneSet c tp thd tsh tbody trest)
    (h1 : c.t.v9SetHdr.get "flowset_id" sh ≠ c.t.v9TemplateId)
    (h2 : c.t.v9SetHdr.get "flowset_id" sh ≠ c.t.v9OptTemplateId)
    (htid : c.t.v9SetHdr.get "flowset_id" tsh = c.t.v9TemplateId)
    (hmany : many0 parseV9Template tbody = .ok ([t], tpad))
    (hid : t.id = c.t.v9SetHdr.get "flowset_id" sh) (hz : v9TotalSize t.fields ≠ 0)
    (hO : amLookup (c.t.v9SetHdr.get "flowset_id" sh) st.v9O = none)
    (hT : amLookup (c.t.v9SetHdr.get "flowset_id" sh) st.v9T = none) :
    ∃ st1 : PState,
      parsePacket c st d = (st, .fail (.partialParse 9 (d.drop 2))) ∧
      parsePacket c st tp =
        (st1, .ok (.v9 thd [{ id := c.t.v9TemplateId, len := c.t.v9SetHdr.get "length" tsh,
                               body := .templates [t] tpad }]) trest) ∧
      amLookup (c.t.v9SetHdr.get "flowset_id" sh) st1.v9T = some t ∧
      ∃ recs pad,
        parsePacket c st1 d =
          (st1, .ok (.v9 hd [{ id := c.t.v9SetHdr.get "flowset_id" sh, len := c.t.v9SetHdr.get "length" sh,
                                body := .data recs pad }]) drest) ∧
        recs.length ≤ dbody.length / v9TotalSize t.fields := by
  refine ⟨{ st with v9T := amInsert t.id t st.v9T, v9O := amErase t.id st.v9O }, ?_, ?_, ?_, ?_⟩
  · rw [parsePacket_v9OneSet c st d hd sh dbody drest hdp, C07_v9_unknown c st _ dbody h1 h2 hO hT]
  · rw [parsePacket_v9OneSet c st tp thd tsh tbody trest htp, htid]
    simp [v9ParseBody, hmany, insertV9Templates]
  · simp [hid, amLookup_amInsert_a2]
  · have hO1 : amLookup (c.t.v9SetHdr.get "flowset_id" sh) (amErase t.id st.v9O) = none := by
      rw [hid, amErase_of_lookup_none _ _ hO]; exact hO
    have hT1 : amLookup (c.t.v9SetHdr.get "flowset_id" sh) (amInsert t.id t st.v9T) = some t := by
      simp [hid, amLookup_amInsert_a2]
    obtain ⟨recs, pad, hb, _, hl, _⟩ :=
      C07_then_known_decodes_v9 c { st with v9T := amInsert t.id t st.v9T, v9O := amErase t.id st.v9O }
        _ dbody t h1 h2 hO1 hT1 hz
    refine ⟨recs, pad, ?_, hl⟩
    rw [parsePacket_v9OneSet c _ d hd sh dbody drest hdp, hb]

/-- the same scenario as three calls of `parse_bytes`, the data packet being the whole buffer:
    first an error element carrying the buffer, finally exactly one V9 packet with the data -/
theorem C07_unknown_then_template_then_data_v9_bytes (c : Config) (st : PState)
    (d : Bytes) (hd sh : List Nat) (dbody : Bytes) (tp : Bytes) (thd tsh : List Nat) (tbody : Bytes)
    (t : V9Template) (tpad : Bytes)
    (hdp : V9OneSet c d hd sh dbody []) (htp : V9OneSet c tp thd tsh tbody [])
    (h1 : c.t.v9SetHdr.get "flowset_id" sh ≠ c.t.v9TemplateId)
    (h2 : c.t.v9SetHdr.get "flowset_id" sh ≠ c.t.v9OptTemplateId)
    (htid : c.t.v9SetHdr.get "flowset_id" tsh = c.t.v9TemplateId)
    (hmany : many0 parseV9Template tbody = .ok ([t], tpad))
    (hid : t.id = c.t.v9SetHdr.get "flowset_id" sh) (hz : v9TotalSize t.fields ≠ 0)
    (hO : amLookup (c.t.v9SetHdr.get "flowset_id" sh) st.v9O = none)
    (hT : amLookup (c.t.v9SetHdr.get "flowset_id" sh) st.v9T = none) :
    ∃ st1 : PState,
      parseBytes c st d = (st, .done [.error (.partialParse 9 (d.drop 2)) d]) ∧
      (parseBytes c st tp).1 = st1 ∧
      ∃ recs pad,
        parseBytes c st1 d =
          (st1, .done [.v9 hd [{ id := c.t.v9SetHdr.get "flowset_id" sh, len := c.t.v9SetHdr.get "length" sh,
                                  body := .data recs pad }]]) := by
  obtain ⟨st1, a1, a2, _, recs, pad, a3, _⟩ :=
    C07_unknown_then_template_then_data_v9 c st d hd sh dbody [] tp thd tsh tbody [] t tpad hdp htp h1 h2 htid hmany
      hid hz hO hT
  have hne : ∀ (p : Bytes) (a b : List Nat) (x : Bytes), V9OneSet c p a b x [] → p ≠ [] := by
    intro p a b x ⟨v, _, _, hv, _⟩ e
    subst e
    simp [beU] at hv
  have hde : d.isEmpty = false := by have := hne d _ _ _ hdp; cases d <;> simp_all
  have hte : tp.isEmpty = false := by have := hne tp _ _ _ htp; cases tp <;> simp_all
  refine ⟨st1, C07_failed_packet_reported c st st d _ a1 (hne d _ _ _ hdp), ?_, recs, pad, ?_⟩
  · simp [parseBytes, parseBytesF, hte, a2]
  · simp [parseBytes, parseBytesF, hde, a3]

/-! ### 3. IPFIX -/

/-- **C07, last clause, IPFIX, exactly one record**: a data set for an id with a cached template
    (non-empty field list) whose body is one complete record followed by padding shorter than that
    record is reported as `.data` with exactly that record; caches unchanged. -/
theorem C07_then_known_decodes_ipfix_one (c : Config) (st : PState) (id : Nat) (body : Bytes) (t : IpTemplate)
    (h1 : c.t.ipSetMinRange ≤ id) (h2 : id ≠ c.t.ipOptTemplateId)
    (hT : amLookup id st.ipT = some t) (hne : t.fields.isEmpty = false)
    (es : List Rec) (pad : Bytes) (hrec : ipParseRec c t.fields 0 body = some (es, pad))
    (hpad : pad.length < body.length - pad.length ∨ body.length - pad.length = 0) :
    ipParseBody c st id body = (st, .ok (.data es pad)) := by
  have hn : ¬ (id < c.t.ipSetMinRange) := by omega
  have hloop : ipRecLoop c t.fields (body.length + 1) body = .ok (es, pad) := by
    simp only [ipRecLoop, hrec]
    rcases hpad with h | h
    · have h' : ¬ (pad.length ≥ body.length - pad.length) := by omega
      by_cases h0 : body.length - pad.length = 0
      · simp [h0]
      · simp [h0, h']
    · simp [h]
  simp [ipParseBody, hn, h2, hT, hne, hloop]

/-- a body made of complete records: each record decodes, every record but the last is followed by
    at least as many bytes as it took, the last one by fewer (or it took none) -/
inductive IpRecords (c : Config) (fs : List IpTField) : Bytes → List Rec → Bytes → Prop where
  | last (i : Bytes) (es : List Rec) (r : Bytes) (h : ipParseRec c fs 0 i = some (es, r))
      (hpad : r.length < i.length - r.length ∨ i.length - r.length = 0) : IpRecords c fs i es r
  | more (i : Bytes) (es : List Rec) (r : Bytes) (rest : List Rec) (pad : Bytes)
      (h : ipParseRec c fs 0 i = some (es, r)) (h0 : i.length - r.length ≠ 0) (hge : i.length - r.length ≤ r.length)
      (hrest : IpRecords c fs r rest pad) : IpRecords c fs i (es ++ rest) pad

/-- the record loop returns exactly the records of such a body, for every sufficient fuel -/
theorem ipRecLoop_of_records (c : Config) (fs : List IpTField) (i : Bytes) (recs : List Rec) (pad : Bytes)
    (h : IpRecords c fs i recs pad) : ∀ fuel, i.length < fuel → ipRecLoop c fs fuel i = .ok (recs, pad) := by
  induction h with
  | last i es r h hpad =>
    intro fuel hf
    obtain ⟨f, rfl⟩ : ∃ f, fuel = f + 1 := ⟨fuel - 1, by omega⟩
    simp only [ipRecLoop, h]
    rcases hpad with hp | hp
    · have h' : ¬ (r.length ≥ i.length - r.length) := by omega
      by_cases h0 : i.length - r.length = 0
      · simp [h0]
      · simp [h0, h']
    · simp [hp]
  | more i es r rest pad h h0 hge _ ih =>
    intro fuel hf
    obtain ⟨f, rfl⟩ : ∃ f, fuel = f + 1 := ⟨fuel - 1, by omega⟩
    have hrl := (B3.ipParseRec_length c fs 0 i es r h).2
    have := ih f (by omega)
    simp [ipRecLoop, h, h0, hge, this]

/-- **C07, last clause, IPFIX, any number (≥ 1) of complete records**: a data set for an id with a
    cached template (non-empty field list) whose body consists of complete records (`IpRecords`) is
    reported as `.data` with exactly those records and the trailing bytes as padding; caches
    unchanged. -/
theorem C07_then_known_decodes_ipfix (c : Config) (st : PState) (id : Nat) (body : Bytes) (t : IpTemplate)
    (h1 : c.t.ipSetMinRange ≤ id) (h2 : id ≠ c.t.ipOptTemplateId)
    (hT : amLookup id st.ipT = some t) (hne : t.fields.isEmpty = false)
    (recs : List Rec) (pad : Bytes) (hrecs : IpRecords c t.fields body recs pad) :
    ipParseBody c st id body = (st, .ok (.data recs pad)) ∧ t.fields.length ≤ recs.length := by
  have hn : ¬ (id < c.t.ipSetMinRange) := by omega
  have hloop := ipRecLoop_of_records c t.fields body recs pad hrecs (body.length + 1) (by omega)
  refine ⟨by simp [ipParseBody, hn, h2, hT, hne, hloop], ?_⟩
  cases hrecs with
  | last i es r h _ => rw [(B3.ipParseRec_length c _ _ _ _ _ h).1]; exact Nat.le_refl _
  | more i es r rest pad h _ _ _ =>
    rw [List.length_append, (B3.ipParseRec_length c _ _ _ _ _ h).1]; omega

/-- without any assumption on the body: a data set for a cached non-empty template is `.data` or an
    error — never a panic, never an overflow — and the caches are unchanged either way -/
theorem C07_then_known_ipfix_total (c : Config) (st : PState) (id : Nat) (body : Bytes) (t : IpTemplate)
    (h1 : c.t.ipSetMinRange ≤ id) (h2 : id ≠ c.t.ipOptTemplateId)
    (hT : amLookup id st.ipT = some t) (hne : t.fields.isEmpty = false) :
    (∃ recs pad, ipParseBody c st id body = (st, .ok (.data recs pad))) ∨
    (ipParseBody c st id body = (st, .err) ∧ ipRecLoop c t.fields (body.length + 1) body = .err) := by
  have hn : ¬ (id < c.t.ipSetMinRange) := by omega
  have hp := ipRecLoop_no_panic c t.fields (body.length + 1) body
  have ho := ipRecLoop_fuel c t.fields (body.length + 1) body (by omega)
  cases hl : ipRecLoop c t.fields (body.length + 1) body with
  | ok x => obtain ⟨recs, pad⟩ := x; exact Or.inl ⟨recs, pad, by simp [ipParseBody, hn, h2, hT, hne, hl]⟩
  | err => exact Or.inr ⟨by simp [ipParseBody, hn, h2, hT, hne, hl], rfl⟩
  | panic => exact absurd hl hp
  | overflow => exact absurd hl ho

/-- **C07, the whole scenario, IPFIX, set bodies**: `id` unknown to IPFIX ⇒ the data set body is an
    error (the message stops in front of it, `C07_ipfix_sets_stop`); a template set body announcing a
    valid template `t` with `t.id = id` caches it; the SAME data bytes are then `.data`. -/
theorem C07_unknown_then_template_then_data_ipfix (c : Config) (st : PState) (id tsid : Nat) (body tbody : Bytes)
    (t : IpTemplate)
    (h1 : c.t.ipSetMinRange ≤ id) (h2 : id ≠ c.t.ipOptTemplateId)
    (ht1 : tsid < c.t.ipSetMinRange) (ht2 : tsid ≠ c.t.ipOptTemplateId)
    (hparse : parseIpTemplate tbody = .ok t) (hvalid : ipValid t.fields = true) (hid : t.id = id)
    (hT : amLookup id st.ipT = none) (hO : amLookup id st.ipO = none)
    (recs : List Rec) (pad : Bytes) (hrecs : IpRecords c t.fields body recs pad) :
    ∃ st1 : PState,
      ipParseBody c st id body = (st, .err) ∧
      ipParseBody c st tsid tbody = (st1, .ok (.template t)) ∧
      ipParseBody c st1 id body = (st1, .ok (.data recs pad)) := by
  refine ⟨{ st with ipT := amInsert t.id t st.ipT, ipO := amErase t.id st.ipO },
    C07_ipfix_unknown c st id body h1 h2 hT hO, ?_, ?_⟩
  · simp [ipParseBody, ht1, ht2, hparse, hvalid]
  · have hne : t.fields.isEmpty = false := by
      cases hf : t.fields with
      | nil => simp [ipValid, hf] at hvalid
      | cons _ _ => rfl
    have hT1 : amLookup id (amInsert t.id t st.ipT) = some t := by simp [hid, amLookup_amInsert_a2]
    exact (C07_then_known_decodes_ipfix c { st with ipT := amInsert t.id t st.ipT, ipO := amErase t.id st.ipO }
      id body t h1 h2 hT1 hne recs pad hrecs).1

end Netflow.Props

/-! ### non-vacuity: concrete instances, evaluated -/
namespace Netflow.Props
open Netflow Preds

private def c07cCfg : Config := { t := Generated.tables, allowed := [5, 7, 9, 10] }

/-- template 256 = (IN_BYTES, 3 bytes), as announced by `c07cTpl` -/
private def c07cT : V9Template := { id := 256, fieldCount := 1, fields := [{ typ := 1, len := 3 }] }
/-- V9 packet, one data flowset for id 256: two 3-byte records and two bytes of padding -/
private def c07cData : Bytes := [0,9, 0,1, 0,0,0,1, 0,0,0,2, 0,0,0,3, 0,0,0,4,  1,0, 0,12, 1,2,3, 4,5,6, 0,0]
/-- V9 packet, one template flowset announcing template 256 -/
private def c07cTpl : Bytes := [0,9, 0,1, 0,0,0,1, 0,0,0,2, 0,0,0,3, 0,0,0,4,  0,0, 0,12, 1,0, 0,1, 0,1, 0,3]

/-- hypotheses of `C07_then_known_decodes_v9` / `_nonempty_v9` hold for a concrete state and body … -/
example :
    let st : PState := { v9T := [(256, c07cT)] }
    (256 ≠ c07cCfg.t.v9TemplateId ∧ 256 ≠ c07cCfg.t.v9OptTemplateId) ∧ amLookup 256 st.v9O = none ∧
    amLookup 256 st.v9T = some c07cT ∧ v9TotalSize c07cT.fields ≠ 0 ∧
    v9TotalSize c07cT.fields ≤ [1, 2, 3, 4, 5, 6, 0, 0].length ∧
    v9ParseRec c07cCfg c07cT.fields 0 [1, 2, 3, 4, 5, 6, 0, 0] =
      some ([(0, 1, .num (.u24 66051))], [4, 5, 6, 0, 0]) := by decide

/-- … and the body decodes to two records, padding `[0, 0]`, state unchanged (evaluated) -/
example :
    v9ParseBody c07cCfg { v9T := [(256, c07cT)] } 256 [1, 2, 3, 4, 5, 6, 0, 0] =
      ({ v9T := [(256, c07cT)] },
       .ok (.data [[(0, 1, .num (.u24 66051))], [(0, 1, .num (.u24 263430))]] [0, 0])) := by decide

/-- the two packets are one-flowset V9 packets in the sense of `V9OneSet` -/
example : V9OneSet c07cCfg c07cData [9, 1, 1, 2, 3, 4] [256, 12] [1, 2, 3, 4, 5, 6, 0, 0] [] :=
  ⟨9, [1,0, 0,12, 1,2,3, 4,5,6, 0,0], [1,2,3, 4,5,6, 0,0], by decide, by decide, by decide, by decide, by decide,
    by decide, by decide, by decide⟩

example : V9OneSet c07cCfg c07cTpl [9, 1, 1, 2, 3, 4] [0, 12] [1,0, 0,1, 0,1, 0,3] [] :=
  ⟨9, [0,0, 0,12, 1,0, 0,1, 0,1, 0,3], [1,0, 0,1, 0,1, 0,3], by decide, by decide, by decide, by decide, by decide,
    by decide, by decide, by decide⟩

/-- the remaining hypotheses of `C07_unknown_then_template_then_data_v9` for them, from the empty state -/
example :
    many0 parseV9Template [1,0, 0,1, 0,1, 0,3] = .ok ([c07cT], []) ∧ c07cT.id = 256 ∧
    c07cCfg.t.v9SetHdr.get "flowset_id" [0, 12] = c07cCfg.t.v9TemplateId ∧
    c07cCfg.t.v9SetHdr.get "flowset_id" [256, 12] = 256 := by decide

/-- **the scenario evaluated, three calls of `parse_bytes`** on one parser starting with empty caches:
    data → error element; template → cached; the same data bytes → a V9 packet with two records -/
example :
    parseBytes c07cCfg {} c07cData =
      ({}, .done [.error (.partialParse 9 (c07cData.drop 2)) c07cData]) ∧
    parseBytes c07cCfg {} c07cTpl =
      ({ v9T := [(256, c07cT)] }, .done [.v9 [9, 1, 1, 2, 3, 4] [{ id := 0, len := 12, body := .templates [c07cT] [] }]]) ∧
    parseBytes c07cCfg { v9T := [(256, c07cT)] } c07cData =
      ({ v9T := [(256, c07cT)] },
       .done [.v9 [9, 1, 1, 2, 3, 4]
         [{ id := 256, len := 12,
            body := .data [[(0, 1, .num (.u24 66051))], [(0, 1, .num (.u24 263430))]] [0, 0] }]]) := by
  decide

/-- the same in ONE buffer `data ++ template ++ data`: the first data packet fails the whole call
    (V9 cannot skip a packet it could not delimit), so the "later" in the property means a later call -/
example :
    parseBytes c07cCfg {} (c07cData ++ c07cTpl ++ c07cData) =
      ({}, .done [.error (.partialParse 9 ((c07cData ++ c07cTpl ++ c07cData).drop 2)) (c07cData ++ c07cTpl ++ c07cData)]) ∧
    (parseBytes c07cCfg {} (c07cTpl ++ c07cData)).2 =
      .done [.v9 [9, 1, 1, 2, 3, 4] [{ id := 0, len := 12, body := .templates [c07cT] [] }],
             .v9 [9, 1, 1, 2, 3, 4]
               [{ id := 256, len := 12,
                  body := .data [[(0, 1, .num (.u24 66051))], [(0, 1, .num (.u24 263430))]] [0, 0] }]] := by
  decide

/-- IPFIX template 256 = (octetDeltaCount, 3 bytes) -/
private def c07cIpT : IpTemplate := { id := 256, fieldCount := 1, fields := [{ typ := 1, len := 3, ent := none }], pad := [] }

/-- `IpRecords` for a body with two records and two bytes of padding (hypothesis of
    `C07_then_known_decodes_ipfix`) -/
example : IpRecords c07cCfg c07cIpT.fields [1, 2, 3, 4, 5, 6, 0, 0]
    ([[(0, 1, .num (.u24 66051))]] ++ [[(0, 1, .num (.u24 263430))]]) [0, 0] :=
  .more _ _ [4, 5, 6, 0, 0] _ _ (by decide) (by decide) (by decide) (.last _ _ _ (by decide) (by decide))

/-- the IPFIX scenario evaluated on set bodies: unknown → error; template set → cached; same bytes → data -/
example :
    ipParseBody c07cCfg {} 256 [1, 2, 3, 4, 5, 6, 0, 0] = ({}, .err) ∧
    ipParseBody c07cCfg {} 2 [1,0, 0,1, 0,1, 0,3] = ({ ipT := [(256, c07cIpT)] }, .ok (.template c07cIpT)) ∧
    ipParseBody c07cCfg { ipT := [(256, c07cIpT)] } 256 [1, 2, 3, 4, 5, 6, 0, 0] =
      ({ ipT := [(256, c07cIpT)] }, .ok (.data [[(0, 1, .num (.u24 66051))], [(0, 1, .num (.u24 263430))]] [0, 0])) := by
  decide

/-- the IPFIX scenario evaluated on whole messages, three calls of `parse_bytes`: the first message is
    reported WITHOUT the data set (not as an error), the third with it -/
example :
    let dataMsg : Bytes := [0,10, 0,28, 0,0,0,1, 0,0,0,2, 0,0,0,3,  1,0, 0,12, 1,2,3, 4,5,6, 0,0]
    let tplMsg : Bytes := [0,10, 0,28, 0,0,0,1, 0,0,0,2, 0,0,0,3,  0,2, 0,12, 1,0, 0,1, 0,1, 0,3]
    parseBytes c07cCfg {} dataMsg = ({}, .done [.ipfix [10, 28, 1, 2, 3] []]) ∧
    (parseBytes c07cCfg {} tplMsg).1 = { ipT := [(256, c07cIpT)] } ∧
    parseBytes c07cCfg { ipT := [(256, c07cIpT)] } dataMsg =
      ({ ipT := [(256, c07cIpT)] },
       .done [.ipfix [10, 28, 1, 2, 3]
         [{ id := 256, len := 12,
            body := .data [[(0, 1, .num (.u24 66051))], [(0, 1, .num (.u24 263430))]] [0, 0] }]]) := by
  decide

end Netflow.Props
