/-
  Props/C15c.lean — C15 "Parsing cost is bounded by input size plus output size", the WORK of the V9 data path
  (`CostWork.lean`: field-decode attempts, each of which may allocate a map entry, and template-element copies).

  Two defects of the first half of C15 were found with this model, reproduced on the crate and repaired
  (`known_findings.json`, "fixed"; commits 4588be7 and fe99cfc):
    * the record loop of `FieldParser::parse` (v9) was a `fold` that went on after a record that does not decode — and failed again,
      with a fresh clone of the template, on every remaining iteration: `|body| / total_size` × (fields) operations for NO output;
    * every data / options-data flowset cloned the whole cached template.
  What is proved here:
    * `C15_v9_stop_same_result`       the repaired loop (stop at the first failing record) returns exactly what the `fold` returned
    * `C15_v9_work_paid_by_records`   its work is paid by the records it returns, plus ONE template's worth (the attempt that failed):
                                      no hypothesis on the template — zero-length fields included
    * `C15_v9_flowset_work_paid`      the same at the flowset level (`v9BodyWork`, what the oracle's `workOf` sums)
    * `C15_v9_work_linear_honest`     without zero-length fields the attempts of a flowset are at most its bytes (and the old `fold` was
                                      within twice that: `C15_v9_retry_linear_honest` — the defect needed zero-length fields)
    * `C15_v9_retry_work`             the `fold` before the repair: `n·(2k+2)` operations and an EMPTY result on `n` iterations of a
                                      template with `k` free fields in front of a field that does not decode
    * `C15_v9_retry_no_linear_bound`  hence no bound `A·|body| + B·size(result) + C` held before the repair
    * `C15_v9_retry_generated`        instance for the tables generated from the Rust source (APPLICATION_DESCRIPTION × k, PROTOCOL = 200)
    * `C15_ipfix_work_paid_by_records` IPFIX: the attempts of a data set that DECODES are paid by the records returned
    * `C15_ipfix_work_product`        IPFIX, any data set (the first failing field discards the whole set): at most fields × (bytes + 1)
    * `C15_ipfix_set_work`            the same for what `workOf` adds per set (`ipBodyWork`, including the clone of the cached template)
    * `C15_v9_set_work_paid`, `C15_ipfix_set_work_paid`  per REPORTED set: modelled work ≤ the set's share of `resultSize` + fields of the
                                      governing template (the form the first half of the property takes, set by set)
    * `C15_ipfix_discarded_work_fails` a set of `n` good records and one bad one under `k` zero-length fields costs `(n+1)·(k+1)` attempts
                                      and returns NOTHING — part of the recorded finding "zero-length fields" (not repairable without
                                      changing what a half-decodable set returns)
-/
import NetflowModel.Lemmas.P6WorkIp
namespace Netflow.Props
open Netflow Cost P6

/-- **the repair is behaviour-preserving**: stopping at the first record that does not decode returns exactly what the `fold` that
    went on (and failed again on every remaining iteration) returned — any template, any number of iterations, any input. -/
theorem C15_v9_stop_same_result (c : Config) (fs : List TField) (n : Nat) (i : Bytes) (acc : List Rec) :
    v9RecLoopStop c fs n i acc = v9RecLoop c fs n i acc := v9RecLoopStop_eq c fs n i acc

/-- the same for the control function the regenerated skeleton runs, whichever form the source has -/
theorem C15_v9_loop_form_irrelevant (stop : Bool) (c : Config) (fs : List TField) (n : Nat) (i : Bytes) (acc : List Rec) :
    v9RecLoopK stop c fs n i acc = v9RecLoop c fs n i acc := G2.v9RecLoopK_eq stop c fs n i acc

/-- one record attempt costs at most one decode per field -/
theorem C15_v9_attempts_le (c : Config) (fs : List TField) (i : Bytes) : v9RecAttempts c fs i ≤ fs.length :=
  v9RecAttempts_le c fs i

/-- **C15, first half, V9 record loop (the code as it is now)**: the decode attempts of the loop are paid by the RECORDS IT RETURNS —
    plus one template's worth for the attempt on which it stopped.  No hypothesis on the template (zero-length fields included), on the
    number of iterations or on the input. -/
theorem C15_v9_work_paid_by_records (c : Config) (fs : List TField) (n : Nat) (i : Bytes) :
    v9RecWorkStop c fs n i ≤ ((v9RecLoop c fs n i []).1.map recSize).sum + fs.length := by
  have h1 := v9_work_stop_le c fs n i []
  have hl := v9RecLoop_lengths c fs n i [] (by simp)
  have h2 := sum_ge_of_all fs.length (v9RecLoop c fs n i []).1 (by
    intro r hr
    have := recSize_ge r
    rw [hl r hr] at this
    omega)
  simp only [List.length_nil, Nat.mul_zero, Nat.add_zero, Nat.mul_add, Nat.mul_one] at h1
  omega

/-- the same at the flowset level: what `workOf` adds for a V9 data flowset is at most the size of the records the flowset decodes to
    plus the number of fields of the governing template -/
theorem C15_v9_flowset_work_paid (c : Config) (st : PState) (id : Nat) (body : Bytes) (t : V9Template)
    (h1 : id ≠ c.t.v9TemplateId) (h2 : id ≠ c.t.v9OptTemplateId)
    (h3 : amLookup id st.v9O = none) (h4 : amLookup id st.v9T = some t) :
    v9BodyWork c st id body ≤
      ((v9RecLoop c t.fields (body.length / v9TotalSize t.fields) body []).1.map recSize).sum + t.fields.length := by
  unfold v9BodyWork
  simp only [h1, h2, or_self, if_false, h3, h4]
  by_cases hz : v9TotalSize t.fields = 0
  · simp [hz]
  · simp only [hz, if_false]
    exact C15_v9_work_paid_by_records c t.fields _ body

/-- every other kind of V9 flowset adds nothing to `workOf`: its steps consume bytes of the buffer -/
theorem C15_v9_other_flowsets_free (c : Config) (st : PState) (id : Nat) (body : Bytes)
    (h : id = c.t.v9TemplateId ∨ id = c.t.v9OptTemplateId ∨ (amLookup id st.v9O).isSome ∨ amLookup id st.v9T = none) :
    v9BodyWork c st id body = 0 := by
  unfold v9BodyWork
  by_cases h12 : id = c.t.v9TemplateId ∨ id = c.t.v9OptTemplateId
  · simp [h12]
  · simp only [h12, if_false]
    cases h3 : amLookup id st.v9O with
    | some _ => rfl
    | none =>
      rcases h with h | h | h | h
      · exact absurd (Or.inl h) h12
      · exact absurd (Or.inr h) h12
      · simp [h3] at h
      · simp [h]

/-- **C15, first half, V9 data flowset under a template WITHOUT zero-length fields** (at most 65535 fields — `field_count` is a `u16`):
    the decode attempts are at most the bytes of the flowset body — linear in the input, whatever decodes or not. -/
theorem C15_v9_work_linear_honest (c : Config) (fs : List TField) (hpos : ∀ f ∈ fs, 1 ≤ f.len) (hk : fs.length ≤ 65535)
    (body : Bytes) : v9RecWorkStop c fs (body.length / v9TotalSize fs) body ≤ body.length :=
  Nat.le_trans (v9RecWorkStop_le_iters c fs _ body) (fields_times_iters_le _ _ _ (v9TotalSize_ge fs hpos hk))

/-- … and so was the retrying `fold` (twice that: a clone and an attempt per field): the defect repaired by 4588be7 needed a template
    whose record size is smaller than its number of fields, i.e. zero-length fields — exactly the hypothesis of `C15_v9_retry_work` -/
theorem C15_v9_retry_linear_honest (c : Config) (fs : List TField) (hpos : ∀ f ∈ fs, 1 ≤ f.len) (hk : fs.length ≤ 65535)
    (body : Bytes) : v9RecWorkRetry c fs (body.length / v9TotalSize fs) body ≤ 2 * body.length :=
  Nat.le_trans (v9RecWorkRetry_le_iters c fs _ body)
    (Nat.mul_le_mul_left 2 (fields_times_iters_le _ _ _ (v9TotalSize_ge fs hpos hk)))

/-- non-vacuity: the 5-tuple template of ordinary traffic meets the hypotheses -/
example : (∀ f ∈ ([{ typ := 8, len := 4 }, { typ := 12, len := 4 }, { typ := 7, len := 2 }, { typ := 11, len := 2 }, { typ := 4, len := 1 }] : List TField), 1 ≤ f.len) ∧
    ([{ typ := 8, len := 4 }, { typ := 12, len := 4 }, { typ := 7, len := 2 }, { typ := 11, len := 2 }, { typ := 4, len := 1 }] : List TField).length ≤ 65535 := by
  decide

/-! ### before the repair -/

/-- **the `fold` before the repair**: under a template of `k` fields that decode without consuming anything (`z`: zero-length fields)
    in front of a field `f` that does not decode at `i`, `n` iterations cost `n·(2k + 2)` operations (a clone of the `k + 1` template
    fields and `k + 1` decode attempts each) and return NOTHING; the loop as it is now makes `k + 1` attempts once. -/
theorem C15_v9_retry_work (c : Config) (z f : TField) (v0 : FieldValue)
    (hz : ∀ j, parseValue c.vc (c.t.v9Ty (c.t.v9Field z.typ)) z.len j = some (v0, j))
    (i : Bytes) (hf : parseValue c.vc (c.t.v9Ty (c.t.v9Field f.typ)) f.len i = none) (k n : Nat) :
    v9RecWorkRetry c (List.replicate k z ++ [f]) n i = n * (2 * k + 2) ∧
    v9RecLoop c (List.replicate k z ++ [f]) n i [] = ([], i) ∧
    v9RecWorkStop c (List.replicate k z ++ [f]) (n + 1) i = k + 1 := by
  have hfail := parseRec_replicate_fail c z f v0 hz i hf k 0
  have hatt : v9RecAttempts c (List.replicate k z ++ [f]) i = k + 1 := by
    rw [attempts_replicate c z v0 hz k [f] i]; simp [v9RecAttempts, hf]
  refine ⟨?_, G2.v9RecLoop_fail c _ n i [] hfail, ?_⟩
  · rw [v9RecWorkRetry_fail c _ n i hfail, hatt]
    simp only [List.length_append, List.length_replicate, List.length_cons, List.length_nil]
    congr 1; omega
  · simp only [v9RecWorkStop, hfail, hatt, Nat.add_zero]

/-- **no linear bound before the repair**: for all constants `A`, `B` there is a number `k` of free fields such that for EVERY number
    `n ≥ 1` of iterations (= bytes of the flowset body when the record size is 1) the work exceeds `A·n + B` — while the result is empty,
    so `B·size(result) + C` is a constant too. -/
theorem C15_v9_retry_no_linear_bound (c : Config) (z f : TField) (v0 : FieldValue)
    (hz : ∀ j, parseValue c.vc (c.t.v9Ty (c.t.v9Field z.typ)) z.len j = some (v0, j))
    (i : Bytes) (hf : parseValue c.vc (c.t.v9Ty (c.t.v9Field f.typ)) f.len i = none) (A B : Nat) :
    ∃ k, ∀ n, 1 ≤ n → A * n + B < v9RecWorkRetry c (List.replicate k z ++ [f]) n i ∧
      (v9RecLoop c (List.replicate k z ++ [f]) n i []).1 = [] := by
  refine ⟨A + B, fun n hn => ?_⟩
  obtain ⟨h1, h2, _⟩ := C15_v9_retry_work c z f v0 hz i hf (A + B) n
  rw [h1, h2]
  refine ⟨?_, rfl⟩
  have h3 : n * A + n * B + n * (A + B + 2) = n * (2 * (A + B) + 2) := by
    rw [← Nat.mul_add, ← Nat.mul_add]; congr 1; omega
  have h1 : A * n = n * A := Nat.mul_comm A n
  have hb : B ≤ n * B := Nat.le_mul_of_pos_left B hn
  have h4 : n ≤ n * (A + B + 2) := Nat.le_mul_of_pos_right n (by omega)
  rw [← h3, h1]; omega

/-- the zero-length string field and the protocol field of the instance below -/
def zeroStrField : TField := { typ := 94, len := 0 }
def protoField : TField := { typ := 4, len := 1 }

/-- **instance for the tables generated from the Rust source**: `k` fields APPLICATION_DESCRIPTION (94) of length 0 in front of
    PROTOCOL (4), record size 1, every body byte 200 (146..254 is no `ProtocolTypes` discriminant): before the repair a body of `n`
    bytes cost `n·(2k+2)` operations for an empty result — the replay `corpus/C15/fixed-v9-retry.json` (k = 39, n = 200: 836 KB
    allocated for a 224-byte packet). -/
theorem C15_v9_retry_generated (allowed : List Nat) (uf : Bool) (k n : Nat) (rest : Bytes) :
    v9RecWorkRetry (cfg15 allowed uf) (List.replicate k zeroStrField ++ [protoField]) n (200 :: rest) = n * (2 * k + 2) ∧
    v9RecLoop (cfg15 allowed uf) (List.replicate k zeroStrField ++ [protoField]) n (200 :: rest) [] = ([], 200 :: rest) ∧
    v9RecWorkStop (cfg15 allowed uf) (List.replicate k zeroStrField ++ [protoField]) (n + 1) (200 :: rest) = k + 1 := by
  have hty : Generated.tables.v9Ty (Generated.tables.v9Field 94) = .str := by decide
  have hty4 : Generated.tables.v9Ty (Generated.tables.v9Field 4) = .proto := by decide
  have hp : Generated.tables.protoParse 200 = none := by decide
  apply C15_v9_retry_work (cfg15 allowed uf) zeroStrField protoField (.str (utf8Lossy []))
  · intro j
    show parseValue _ (Generated.tables.v9Ty (Generated.tables.v9Field 94)) 0 j = _
    rw [hty]
    simp [parseValue, takeN]
  · show parseValue _ (Generated.tables.v9Ty (Generated.tables.v9Field 4)) 1 (200 :: rest) = none
    rw [hty4]
    have hb : beU 1 (200 :: rest) = some (200, rest) := by simp [beU, beNat]
    simp only [parseValue, hb]
    show (match Generated.tables.protoParse 200 with | none => none | some p => some (FieldValue.proto p, rest)) = none
    rw [hp]

/-- non-vacuity / concrete numbers: the witness of the repaired defect (k = 39, a 200-byte body) — 16 000 operations before, 40 now -/
example : v9RecWorkRetry (cfg15 [9] true) (List.replicate 39 zeroStrField ++ [protoField]) 200 (List.replicate 200 200) = 16000 ∧
    v9RecWorkStop (cfg15 [9] true) (List.replicate 39 zeroStrField ++ [protoField]) 200 (List.replicate 200 200) = 40 := by
  have h := C15_v9_retry_generated [9] true 39 200 (List.replicate 199 200)
  have h' := C15_v9_retry_generated [9] true 39 199 (List.replicate 199 200)
  exact ⟨h.1, h'.2.2⟩

/-- non-vacuity of `C15_v9_work_paid_by_records` with records actually returned: two 1-byte records (PROTOCOL = 6, 17) -/
example : (v9RecLoop (cfg15 [9] true) [protoField] 2 [6, 17] []).1.length = 2 ∧
    v9RecWorkStop (cfg15 [9] true) [protoField] 2 [6, 17] = 2 := by decide

/-! ### IPFIX -/

/-- **IPFIX, a data set that decodes**: the decode attempts of the record loop are paid by the records it returns -/
theorem C15_ipfix_work_paid_by_records (c : Config) (fs : List IpTField) (fuel : Nat) (i : Bytes) (recs : List Rec) (r : Bytes)
    (h : ipRecLoop c fs fuel i = .ok (recs, r)) : ipRecWork c fs fuel i ≤ (recs.map recSize).sum :=
  ipRecWork_ok c fs fuel i recs r h

/-- **IPFIX, any data set** (decoded or discarded): every iteration but the last consumes a byte, so the attempts are at most
    fields × (bytes of the set + 1) — the product bound; linear in the bytes for a fixed template -/
theorem C15_ipfix_work_product (c : Config) (fs : List IpTField) (fuel : Nat) (i : Bytes) :
    ipRecWork c fs fuel i ≤ fs.length * (i.length + 1) := ipRecWork_le c fs fuel i

/-- what `workOf` adds for one IPFIX set: nothing for template sets; for a data set the clone of the cached template plus the loop -/
theorem C15_ipfix_set_work (c : Config) (st : PState) (id : Nat) (body : Bytes) (M : Nat)
    (hT : ∀ t, amLookup id st.ipT = some t → t.fields.length ≤ M)
    (hO : ∀ t, amLookup id st.ipO = some t → t.fields.length ≤ M) :
    ipBodyWork c st id body ≤ M * (body.length + 2) := by
  unfold ipBodyWork
  split
  · exact Nat.zero_le _
  · cases h1 : amLookup id st.ipT with
    | some t =>
      have hk := hT t h1
      have hw := ipRecWork_le c t.fields (body.length + 1) body
      have h2 : t.fields.length * (body.length + 1) ≤ M * (body.length + 1) := Nat.mul_le_mul_right _ hk
      simp only [Nat.mul_add, Nat.mul_one] at h2 hw ⊢
      omega
    | none =>
      cases h2 : amLookup id st.ipO with
      | some t =>
        have hk := hO t h2
        have hw := ipRecWork_le c t.fields (body.length + 1) body
        have h3 : t.fields.length * (body.length + 1) ≤ M * (body.length + 1) := Nat.mul_le_mul_right _ hk
        simp only [Nat.mul_add, Nat.mul_one] at h3 hw ⊢
        omega
      | none => exact Nat.zero_le _

/-- the enterprise field of length zero and the one-byte protocol field of the witness below -/
def zeroEntField : IpTField := { typ := 1, len := 0, ent := some 9 }
def ipProtoField : IpTField := { typ := 4, len := 1, ent := none }

/-- a variable-length string field (interfaceName, declared length 65535) -/
def ipVarStrField : IpTField := { typ := 82, len := 65535, ent := none }

/-- **work that is discarded** (recorded finding "zero-length fields", IPFIX): under 30 zero-length fields in front of a
    variable-length interfaceName, a set of 3 good records ("A", "B", "C") and one whose length prefix (9) exceeds what is left makes
    `4·31 = 124` decode attempts and returns NOTHING — the `?` in the record loop discards the whole set. -/
theorem C15_ipfix_discarded_work_fails :
    ipRecWork (cfg15 [10] true) (List.replicate 30 zeroEntField ++ [ipVarStrField]) 9 [1, 65, 1, 66, 1, 67, 9, 0] = 124 ∧
    ipRecLoop (cfg15 [10] true) (List.replicate 30 zeroEntField ++ [ipVarStrField]) 9 [1, 65, 1, 66, 1, 67, 9, 0] = .err := by
  decide +kernel

/-- non-vacuity of `C15_ipfix_work_paid_by_records`: two one-byte records decode, two attempts -/
example : ∃ recs r, ipRecLoop (cfg15 [10] true) [ipProtoField] 3 [6, 17] = .ok (recs, r) ∧ recs.length = 2 ∧
    ipRecWork (cfg15 [10] true) [ipProtoField] 3 [6, 17] = 2 := by
  refine ⟨_, _, rfl, ?_, ?_⟩ <;> decide +kernel

/-! ### per set: work against what the set contributes to the RESULT -/

/-- **C15, first half, one V9 flowset that is reported**: the modelled work of the flowset is at most its share of `resultSize`
    (`v9SetSize`) plus the number of fields of the governing template — whatever the template (zero-length fields included). -/
theorem C15_v9_set_work_paid (c : Config) (st st' : PState) (id len : Nat) (body : Bytes) (b : V9Body) (M : Nat)
    (h : v9ParseBody c st id body = (st', .ok b))
    (hM : ∀ t, amLookup id st.v9T = some t → t.fields.length ≤ M) :
    v9BodyWork c st id body ≤ v9SetSize { id := id, len := len, body := b } + M := by
  by_cases h12 : id = c.t.v9TemplateId ∨ id = c.t.v9OptTemplateId
  · rw [C15_v9_other_flowsets_free c st id body (by rcases h12 with h1 | h2; exact Or.inl h1; exact Or.inr (Or.inl h2))]
    exact Nat.zero_le _
  · have h1 : id ≠ c.t.v9TemplateId := fun e => h12 (Or.inl e)
    have h2 : id ≠ c.t.v9OptTemplateId := fun e => h12 (Or.inr e)
    cases h3 : amLookup id st.v9O with
    | some ot =>
      rw [C15_v9_other_flowsets_free c st id body (Or.inr (Or.inr (Or.inl (by simp [h3]))))]
      exact Nat.zero_le _
    | none =>
      cases h4 : amLookup id st.v9T with
      | none =>
        rw [C15_v9_other_flowsets_free c st id body (Or.inr (Or.inr (Or.inr h4)))]
        exact Nat.zero_le _
      | some t =>
        have hw := C15_v9_flowset_work_paid c st id body t h1 h2 h3 h4
        have hk := hM t h4
        simp only [v9ParseBody, h1, h2, if_false, h3, h4] at h
        by_cases hz : v9TotalSize t.fields = 0
        · simp [hz] at h
        · simp only [hz, if_false, Prod.mk.injEq, Res.ok.injEq] at h
          obtain ⟨_, hb⟩ := h
          rw [← hb]
          simp only [v9SetSize]
          omega

/-- **the same for one IPFIX data set that is reported**: the clone of the cached template and the decode attempts are at most the
    set's share of `resultSize` (`ipSetSize`) plus the number of fields of the governing template -/
theorem C15_ipfix_set_work_paid (c : Config) (st st' : PState) (id len : Nat) (body : Bytes) (b : IpBody) (M : Nat)
    (h : ipParseBody c st id body = (st', .ok b))
    (hT : ∀ t, amLookup id st.ipT = some t → t.fields.length ≤ M)
    (hO : ∀ t, amLookup id st.ipO = some t → t.fields.length ≤ M) :
    ipBodyWork c st id body ≤ ipSetSize { id := id, len := len, body := b } + M := by
  unfold ipBodyWork
  split
  · exact Nat.zero_le _
  · rename_i hcls
    have g1 : ¬ (id < c.t.ipSetMinRange ∧ id ≠ c.t.ipOptTemplateId) := fun e => hcls (Or.inl e)
    have g2 : ¬ id = c.t.ipOptTemplateId := fun e => hcls (Or.inr e)
    simp only [ipParseBody, g1, g2, if_false] at h
    cases h1 : amLookup id st.ipT with
    | some t =>
      have hk := hT t h1
      simp only [h1] at h ⊢
      by_cases he : t.fields.isEmpty = true
      · simp [he] at h
      · simp only [he, Bool.false_eq_true, if_false] at h
        cases hl : ipRecLoop c t.fields (body.length + 1) body with
        | ok q =>
          obtain ⟨recs, pad⟩ := q
          simp only [hl, Prod.mk.injEq, Res.ok.injEq] at h
          have hw := ipRecWork_ok c t.fields _ body recs pad hl
          rw [← h.2]; simp only [ipSetSize]; omega
        | err => simp [hl] at h
        | panic => simp [hl] at h
        | overflow => simp [hl] at h
    | none =>
      simp only [h1] at h ⊢
      cases h2 : amLookup id st.ipO with
      | some t =>
        have hk := hO t h2
        simp only [h2] at h ⊢
        by_cases he : t.fields.isEmpty = true
        · simp [he] at h
        · simp only [he, Bool.false_eq_true, if_false] at h
          cases hl : ipRecLoop c t.fields (body.length + 1) body with
          | ok q =>
            obtain ⟨recs, pad⟩ := q
            simp only [hl, Prod.mk.injEq, Res.ok.injEq] at h
            have hw := ipRecWork_ok c t.fields _ body recs pad hl
            rw [← h.2]; simp only [ipSetSize]; omega
          | err => simp [hl] at h
          | panic => simp [hl] at h
          | overflow => simp [hl] at h
      | none => exact Nat.zero_le _

end Netflow.Props
