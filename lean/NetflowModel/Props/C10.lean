/-
  Props/C10.lean — C10: re-exporting a decoded IPFIX message reproduces the bytes it came from.

  The full-strength statement `C10_full` is FALSE of the model (the model mirrors the crate's lossy
  re-export); each lossy cause has a concrete witness below (`C10_fails_*`).  `C10_partial` proves
  the round trip on the class `IpLossless` (Lemmas/A7ExportIpfix.lean).
-/
import NetflowModel.Lemmas.A7ExportStream
import NetflowModel.Generated
import NetflowModel.Lemmas.G1Arms
namespace Netflow.Props
open Netflow Netflow.A7 Preds

/-- C10, full strength (`i` is the input after the 2-byte version word, which the exporter also
    writes): FALSE of the model, see `C10_full_fails`. -/
def C10_full : Prop :=
  ∀ (c : Config) (st : PState) (i : Bytes) (st' : PState) (h : List Nat) (ss : List IpSet) (rest : Bytes),
    parseIpfix c st i = (st', .ok (.ipfix h ss, rest)) →
    exportIpfix c h ss = .ok (toBE 2 10 ++ i.take (i.length - rest.length))

/-- C10 on the lossless class.  PARTIAL: needs `IpLossless c st h ss` —
    (1) all sets decoded: the decoded sets' lengths add up to `length - 16` (otherwise the export
        is SHORTER than the message: the parser silently drops everything from the first
        undecodable set on);
    (2) no field specifier of a template / options-template set in the message has the enterprise
        bit (it is stripped on re-export);
    (3) every template / options template (cached or announced) whose id is the id of a data set of
        the message has only fixed-length fields (`len ≠ 65535`: the variable-length prefix is not
        re-emitted) that are enterprise-specific or `LosslessField`;
    (4) every decoded data value is `ValueOk`.
    All four are genuinely needed (`C10_fails_*`). -/
theorem C10_partial (c : Config) (hs : ipSetHdrOk c.t = true) (hk : ipHdrOk c.t = true)
    (st st' : PState) (i : Bytes) (h : List Nat) (ss : List IpSet) (rest : Bytes)
    (hp : parseIpfix c st i = (st', .ok (.ipfix h ss, rest)))
    (hl : IpLossless c st h ss = true) :
    exportIpfix c h ss = .ok (toBE 2 10 ++ i.take (i.length - rest.length)) := by
  simp only [IpLossless, Bool.and_eq_true, beq_iff_eq] at hl
  obtain ⟨⟨hl1, hl2⟩, hl3⟩ := hl
  exact parseIpfix_coh c hs hk (ipDataIds ss) st st' i h ss rest hp hl1 (ipSetsOk_of_lossless c ss hl2) hl3

/-- the side conditions hold for the tables generated from the Rust source -/
theorem C10_generated_tables_ok :
    ipSetHdrOk Generated.tables = true ∧ ipHdrOk Generated.tables = true ∧ dispatchOk Generated.tables = true := by
  refine ⟨?_, ?_, ?_⟩ <;> decide

theorem C10_partial_generated (c : Config) (ht : c.t = Generated.tables)
    (st st' : PState) (i : Bytes) (h : List Nat) (ss : List IpSet) (rest : Bytes)
    (hp : parseIpfix c st i = (st', .ok (.ipfix h ss, rest)))
    (hl : IpLossless c st h ss = true) :
    exportIpfix c h ss = .ok (toBE 2 10 ++ i.take (i.length - rest.length)) :=
  C10_partial c (by rw [ht]; exact C10_generated_tables_ok.1) (by rw [ht]; exact C10_generated_tables_ok.2.1)
    st st' i h ss rest hp hl

/-- the same through `parse_packet_by_version` and the packet exporter: the re-export is the prefix
    of the buffer the message occupied, version word included.  PARTIAL as `C10_partial`. -/
theorem C10_packet_partial (c : Config) (ht : c.t = Generated.tables)
    (st st' : PState) (buf : Bytes) (h : List Nat) (ss : List IpSet) (rest : Bytes)
    (hp : parsePacket c st buf = (st', .ok (.ipfix h ss) rest)) (hl : IpLossless c st h ss = true) :
    exportPacket c (.ipfix h ss) = some (.ok (buf.take (buf.length - rest.length))) :=
  parsePacket_ipfix_coh c (by rw [ht]; exact C10_generated_tables_ok.2.2)
    (by rw [ht]; exact C10_generated_tables_ok.1) (by rw [ht]; exact C10_generated_tables_ok.2.1)
    st st' buf h ss rest hp hl

theorem C10_generated_export_ok : exportTablesOk Generated.tables = true := by decide

/-- C10 in terms of the oracle predicate `reexportOk` over a whole `parse_bytes` run: every IPFIX
    message of the result re-exports to the slice of the buffer it occupied.  PARTIAL: needs
    `streamLossless c isIpfixPkt …` — each IPFIX message is `IpLossless` w.r.t. the cache state in
    which it was parsed. -/
theorem C10_stream_partial (c : Config) (ht : c.t = Generated.tables)
    (st st' : PState) (buf : Bytes) (pkts : List Packet)
    (h : parseBytes c st buf = (st', .done pkts))
    (hl : streamLossless c isIpfixPkt (buf.length + 1) st buf = true) :
    reexportOk c isIpfixPkt buf pkts (pkts.map (exportPacket c)) = true :=
  reexport_stream c (by rw [ht]; exact C10_generated_export_ok) isIpfixPkt (fun _ hp => Or.inr hp)
    _ st st' buf pkts h hl

/-! ### concrete objects -/

/-- the configuration generated from the Rust source, default allowed versions -/
def cfg10 : Config := { t := Generated.tables, allowed := Generated.defaultAllowed }

/-- a parser state that has learnt one IPFIX template (id 256) with the given fields -/
def stI10 (fs : List IpTField) : PState :=
  { ipT := [(256, { id := 256, fieldCount := fs.length, fields := fs, pad := [] })] }

/-- IPFIX header after the version word with the given total length: export_time = 1,
    sequence_number = 2, observation_domain_id = 3 -/
def ihdr10 (len : Nat) : Bytes := [0, UInt8.ofNat len, 0,0,0,1, 0,0,0,2, 0,0,0,3]

/-! #### non-vacuity of `C10_partial` -/

/-- template set (id 256: octetDeltaCount/4, sourceIPv4Address/4, sourceTransportPort/2) and a data
    set with one record and two bytes of padding, parsed from an EMPTY cache -/
def msgOk10 : Bytes :=
  ihdr10 52 ++ [0,2, 0,20, 1,0, 0,3, 0,1,0,4, 0,8,0,4, 0,7,0,2] ++
  [1,0, 0,16, 0,0,1,0, 10,0,0,1, 0,80, 0,0]

example :
    (match parseIpfix cfg10 {} msgOk10 with
     | (_, .ok (.ipfix h ss, rest)) => IpLossless cfg10 {} h ss && ss.length == 2 && rest.isEmpty
     | _ => false) = true ∧
    ipReexport cfg10 {} msgOk10 = some (.ok ([0, 10] ++ msgOk10), [0, 10] ++ msgOk10) := by
  constructor <;> decide +kernel

/-- non-vacuity of `C10_stream_partial`: the message above followed by a second message whose
    data set holds two records decoded with the template learnt from the first -/
def bufOk10 : Bytes :=
  [0, 10] ++ msgOk10 ++ [0, 10] ++ ihdr10 40 ++
  [1,0, 0,24, 0,0,2,0, 10,0,0,2, 1,187, 0,0,3,0, 10,0,0,3, 0,53]

example :
    streamLossless cfg10 isIpfixPkt (bufOk10.length + 1) {} bufOk10 = true ∧
    (match parseBytes cfg10 {} bufOk10 with
     | (_, .done pkts) => pkts.length == 2 && pkts.all isIpfixPkt
     | _ => false) = true := by
  constructor <;> decide +kernel

/-- non-vacuity of `C10_packet_partial` -/
example :
    (match parsePacket cfg10 {} ([0, 10] ++ msgOk10) with
     | (_, .ok (.ipfix h ss) rest) => IpLossless cfg10 {} h ss && ss.length == 2 && rest.isEmpty
     | _ => false) = true := by
  decide +kernel

/-- a CACHED template may contain enterprise-specific fields (their data are kept as raw bytes):
    enterprise field 5 / PEN 9 of length 3, then an unknown field 600 of length 2 -/
example :
    (match parseIpfix cfg10 (stI10 [⟨5, 3, some 9⟩, ⟨600, 2, none⟩]) (ihdr10 25 ++ [1,0, 0,9, 7,8,9, 1,2]) with
     | (_, .ok (.ipfix h ss, rest)) =>
        IpLossless cfg10 (stI10 [⟨5, 3, some 9⟩, ⟨600, 2, none⟩]) h ss && ss.length == 1 && rest.isEmpty
     | _ => false) = true := by
  decide +kernel

/-! #### template sets holding several template records -/

/-- FINDING: a template set is always parsed as ONE template — the second record's id and field
    count become a bogus field specifier `(257, 1)` — and yet the re-export is byte-exact, because
    id, count, all specifiers and the trailing bytes are re-emitted in order.  (Instance of
    `C10_partial`: no enterprise bit, no data set.) -/
example :
    ipReexport cfg10 {} (ihdr10 36 ++ [0,2, 0,20, 1,0, 0,1, 0,1,0,4, 1,1, 0,1, 0,2,0,4]) =
      some (.ok ([0, 10] ++ ihdr10 36 ++ [0,2, 0,20, 1,0, 0,1, 0,1,0,4, 1,1, 0,1, 0,2,0,4]),
        [0, 10] ++ ihdr10 36 ++ [0,2, 0,20, 1,0, 0,1, 0,1,0,4, 1,1, 0,1, 0,2,0,4]) ∧
    (match parseIpfix cfg10 {} (ihdr10 36 ++ [0,2, 0,20, 1,0, 0,1, 0,1,0,4, 1,1, 0,1, 0,2,0,4]) with
     | (_, .ok (.ipfix h ss, _)) => IpLossless cfg10 {} h ss &&
         ss.map (·.body) == [.template ⟨256, 1, [⟨1, 4, none⟩, ⟨257, 1, none⟩, ⟨2, 4, none⟩], []⟩]
     | _ => false) = true := by
  constructor <;> decide +kernel

/-- … unless the second record's template id is ≥ 32768: it is then read as an enterprise
    specifier (the following 4 bytes as its PEN) and comes back with the top bit cleared -/
theorem C10_fails_multi_template :
    ipReexport cfg10 {} (ihdr10 36 ++ [0,2, 0,20, 1,0, 0,1, 0,1,0,4, 0x80,1, 0,1, 0,2,0,4]) =
      some (.ok ([0, 10] ++ ihdr10 36 ++ [0,2, 0,20, 1,0, 0,1, 0,1,0,4, 0,1, 0,1, 0,2,0,4]),
        [0, 10] ++ ihdr10 36 ++ [0,2, 0,20, 1,0, 0,1, 0,1,0,4, 0x80,1, 0,1, 0,2,0,4]) := by
  decide +kernel

/-! #### the lossy causes: one witness each -/

theorem C10_full_reexport (H : C10_full) (c : Config) (st : PState) (i : Bytes) (o : Out Bytes) (e : Bytes)
    (h : ipReexport c st i = some (o, e)) : o = .ok e := by
  unfold ipReexport at h
  split at h
  · rename_i st' hd ss rest hp
    simp only [Option.some.injEq, Prod.mk.injEq] at h
    obtain ⟨e1, e2⟩ := h
    subst e1 e2
    exact H c st i st' hd ss rest hp
  · cases h

/-- enterprise bit: specifier `80 01 00 04` + PEN 9 comes back as `00 01 00 04` + PEN 9 -/
theorem C10_fails_enterprise :
    ipReexport cfg10 {} (ihdr10 32 ++ [0,2, 0,16, 1,0, 0,1, 0x80,1, 0,4, 0,0,0,9]) =
      some (.ok ([0, 10] ++ ihdr10 32 ++ [0,2, 0,16, 1,0, 0,1, 0,1, 0,4, 0,0,0,9]),
        [0, 10] ++ ihdr10 32 ++ [0,2, 0,16, 1,0, 0,1, 0x80,1, 0,4, 0,0,0,9]) := by
  decide +kernel

/-- variable length: interfaceName (field 82) declared with length 65535; the one-byte length
    prefix `03` is consumed and not re-emitted (while the set header still says length 8) -/
theorem C10_fails_varlen :
    ipReexport cfg10 (stI10 [⟨82, 65535, none⟩]) (ihdr10 24 ++ [1,0, 0,8, 3, 97,98,99]) =
      some (.ok ([0, 10] ++ ihdr10 24 ++ [1,0, 0,8, 97,98,99]),
        [0, 10] ++ ihdr10 24 ++ [1,0, 0,8, 3, 97,98,99]) := by
  decide +kernel

/-- 8-byte millisecond timestamps (flowStartMilliseconds, field 152) come back as 4-byte seconds -/
theorem C10_fails_duration :
    ipReexport cfg10 (stI10 [⟨152, 8, none⟩]) (ihdr10 28 ++ [1,0, 0,12, 0,0,0,0,0,0,7,208]) =
      some (.ok ([0, 10] ++ ihdr10 28 ++ [1,0, 0,12, 0,0,0,2]),
        [0, 10] ++ ihdr10 28 ++ [1,0, 0,12, 0,0,0,0,0,0,7,208]) := by
  decide +kernel

/-- … and when the seconds do not fit 32 bits, `to_be_bytes` FAILS (here 2^32 * 1000 ms) -/
theorem C10_fails_duration_err :
    ipReexport cfg10 (stI10 [⟨152, 8, none⟩]) (ihdr10 28 ++ [1,0, 0,12, 0,0,3,232,0,0,0,0]) =
      some (.err, [0, 10] ++ ihdr10 28 ++ [1,0, 0,12, 0,0,3,232,0,0,0,0]) := by
  decide +kernel

/-- sets after an undecodable set vanish: a data set for an unknown template (id 300) followed by a
    perfectly good template set; the message is accepted with ZERO sets, the header still says
    length 44, and the export is the 16 header bytes only -/
theorem C10_fails_dropped_sets :
    ipReexport cfg10 {} (ihdr10 44 ++ [1,44, 0,8, 1,2,3,4] ++ [0,2, 0,20, 1,0, 0,3, 0,1,0,4, 0,8,0,4, 0,7,0,2]) =
      some (.ok ([0, 10] ++ ihdr10 44),
        [0, 10] ++ ihdr10 44 ++ [1,44, 0,8, 1,2,3,4] ++ [0,2, 0,20, 1,0, 0,3, 0,1,0,4, 0,8,0,4, 0,7,0,2]) := by
  decide +kernel

/-- signed numbers: field 434 (the only signed IPFIX type in the table) with 2 bytes is stored as
    `I32` and comes back sign-extended to 4 bytes -/
theorem C10_fails_signed_width :
    ipReexport cfg10 (stI10 [⟨434, 2, none⟩]) (ihdr10 22 ++ [1,0, 0,6, 0xFF,0xFE]) =
      some (.ok ([0, 10] ++ ihdr10 22 ++ [1,0, 0,6, 0xFF,0xFF,0xFF,0xFE]),
        [0, 10] ++ ihdr10 22 ++ [1,0, 0,6, 0xFF,0xFE]) := by
  decide +kernel

/-- MAC addresses (sourceMacAddress, field 56) come back as 17 ASCII bytes -/
theorem C10_fails_mac :
    ipReexport cfg10 (stI10 [⟨56, 6, none⟩]) (ihdr10 26 ++ [1,0, 0,10, 1,2,3,4,5,6]) =
      some (.ok ([0, 10] ++ ihdr10 26 ++ [1,0, 0,10, 48,49,58, 48,50,58, 48,51,58, 48,52,58, 48,53,58, 48,54]),
        [0, 10] ++ ihdr10 26 ++ [1,0, 0,10, 1,2,3,4,5,6]) := by
  decide +kernel

/-- strings that are not valid UTF-8 (interfaceName, field 82, fixed length 2) -/
theorem C10_fails_utf8 :
    ipReexport cfg10 (stI10 [⟨82, 2, none⟩]) (ihdr10 22 ++ [1,0, 0,6, 0xFF,0x41]) =
      some (.ok ([0, 10] ++ ihdr10 22 ++ [1,0, 0,6, 0xEF,0xBF,0xBD,0x41]),
        [0, 10] ++ ihdr10 22 ++ [1,0, 0,6, 0xFF,0x41]) := by
  decide +kernel

/-- C10 at full strength is false of the model -/
theorem C10_full_fails : ¬ C10_full := by
  intro H
  have := C10_full_reexport H _ _ _ _ _ C10_fails_enterprise
  revert this
  decide +kernel

/-- **C10.G** (regenerated on every run) the value encoders of the model ARE the interpretations of the arms of
    `FieldValue::to_be_bytes` and `DataNumber::to_be_bytes` as read from data_number.rs now. -/
theorem C10_export_arms_generated (c : ValueCfg) (v : FieldValue) :
    v.toBE c = toBEBy Generated.exportArms c v := G1.toBE_eq_generated c v

theorem C10_number_export_arms_generated (d : DataNumber) :
    d.toBE = dnToBEBy Generated.dnExportArms d := G1.dnToBE_eq_generated d

end Netflow.Props
