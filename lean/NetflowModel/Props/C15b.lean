/-
  Props/C15b.lean — C15 "Parsing cost is bounded by input size plus output size", continued.

  `Props/C15.lean` bounds the size of the RESULT under `Honest st ∧ HonestPkts pkts`.  Here:

  A. the bytes COPIED by `parse_bytes` itself (`Cost.copyCost`: the initial `packet.to_vec()`, the
     `remaining.to_vec()` of every `ParsedNetflow`, the copy inside `Partial` / `UnknownVersion`)
       * `C15_copy_upper`            ≤ |buf|·(number of elements returned + 3)   (sharper: + 1)
       * `C15_copy_packed`           on `n` header-only IPFIX messages it is EXACTLY 8·n·(n+1)
       * `C15_copy_quadratic_fails`  hence no bound A·|buf| + B exists (known finding "buffer packed
                                     with packets", as a theorem)
  B. the size of the result WITHOUT the honesty hypotheses
       * `C15_result_fields_bound`   ≤ (115 + 112·M)·|buf| + 184 if no data template (cached or
                                     reported) has more than `M` fields
       * `C15_result_product_bound`  ≤ 184·(|buf| + 1)·(1 + maxFields)   for EVERY state and buffer
       * per layer: `C15_ipfix_records_product`, `C15_v9_records_product`, and the matching lower
         bound `C15_product_sharp` (the product is attained up to the constant).
-/
import NetflowModel.Lemmas.P5Fields
import NetflowModel.Props.C15
namespace Netflow.Props
open Netflow Cost B3 P5

/-! ## A. bytes copied by the packet loop -/

/-- every element of the result accounts for at most one copy of the buffer, on top of the initial
    copy (any configuration, any state, any buffer; no hypothesis) -/
theorem C15_copy_upper_sharp (c : Config) (st : PState) (buf : Bytes) :
    copyCost c (buf.length + 1) st buf ≤ buf.length * (npkts c st buf + 1) := by
  have := copyLoop_le c (buf.length + 1) st buf
  unfold copyCost npkts parseBytes
  rw [Nat.mul_succ]
  omega

/-- **C15, copies, upper bound**: the bytes copied during one `parse_bytes` call are at most
    `|buf|·(npkts + 3)`, `npkts` = number of elements returned — linear in `|buf|` whenever the number
    of packets per buffer is bounded (one datagram = one packet: `C15_copy_single`). -/
theorem C15_copy_upper (c : Config) (st : PState) (buf : Bytes) :
    copyCost c (buf.length + 1) st buf ≤ buf.length * (npkts c st buf + 3) := by
  have h1 := C15_copy_upper_sharp c st buf
  have h2 : buf.length * (npkts c st buf + 1) ≤ buf.length * (npkts c st buf + 3) :=
    Nat.mul_le_mul_left _ (by omega)
  omega

/-- one datagram = one packet: at most two copies of the buffer -/
theorem C15_copy_single (c : Config) (st st' : PState) (buf : Bytes) (p : Packet)
    (h : parseBytes c st buf = (st', .done [p])) : copyCost c (buf.length + 1) st buf ≤ 2 * buf.length := by
  have h1 := C15_copy_upper_sharp c st buf
  have : npkts c st buf = 1 := by simp [npkts, h, outPkts]
  rw [this] at h1
  omega

/-- non-vacuity of `C15_copy_single`: one V5 packet with two records -/
example : ∃ st' p, parseBytes (cfg15 [5] true) {} (toBE 2 5 ++ toBE 2 2 ++ List.replicate (20 + 96) 7) = (st', .done [p]) :=
  match check15_sound (c := cfg15 [5] true) (st := {}) (buf := toBE 2 5 ++ toBE 2 2 ++ List.replicate (20 + 96) 7)
      (q := fun ps => decide (ps.length = 1)) (by decide +kernel) with
  | ⟨st', [p], h, _⟩ => ⟨st', p, h⟩
  | ⟨_, [], _, hq⟩ => by simp at hq
  | ⟨_, _ :: _ :: _, _, hq⟩ => by simp at hq

/-- the generated tables (with version 10 allowed) accept a header-only IPFIX message -/
theorem C15_generated_packOk (allowed : List Nat) (uf : Bool) (h10 : allowed.contains 10 = true) :
    packOk (cfg15 allowed uf) = true := by
  have h : packOk (cfg15 [10] uf) = true := by cases uf <;> decide
  simp only [packOk, cfg15, Bool.and_eq_true] at h ⊢
  exact ⟨⟨⟨h10, h.1.1.2⟩, h.1.2⟩, h.2⟩

/-- **the extremal family**: on a buffer of `n` header-only IPFIX messages (16 bytes each)
    `parse_bytes` copies `16·n` bytes up front and `16·(n-1-i)` bytes after message `i`:
    exactly `8·n·(n+1)` bytes in total, i.e. `16·n + 8·n·(n-1)`. -/
theorem C15_copy_packed (c : Config) (hk : packOk c = true) (n : Nat) (st : PState) :
    copyCost c ((packed n).length + 1) st (packed n) = 16 * n + packedCopies n ∧
    copyCost c ((packed n).length + 1) st (packed n) = 8 * (n * n) + 8 * n ∧
    (packed n).length = 16 * n ∧ npkts c st (packed n) = n := by
  have h1 := copyLoop_packed c hk n ((packed n).length + 1) st (by rw [packed_length]; omega)
  have h2 := packedCopies_closed n
  have h3 := packed_length n
  obtain ⟨pkts, h4, h5⟩ := parseBytesF_packed c hk n ((packed n).length + 1) st (by rw [packed_length]; omega)
  refine ⟨?_, ?_, h3, ?_⟩
  · unfold copyCost; rw [h1, h3]
  · unfold copyCost; rw [h1, h3]; omega
  · simp only [npkts, parseBytes, h4, outPkts, h5]

/-- … hence at least `8·n·(n-1)` -/
theorem C15_copy_packed_lower (c : Config) (hk : packOk c = true) (n : Nat) (st : PState) :
    8 * (n * (n - 1)) ≤ copyCost c ((packed n).length + 1) st (packed n) := by
  obtain ⟨_, h, _, _⟩ := C15_copy_packed c hk n st
  rw [h]
  have : n * (n - 1) ≤ n * n := Nat.mul_le_mul_left n (by omega)
  omega

/-- the statement that FAILS: the bytes copied by `parse_bytes` are bounded by a fixed multiple of the
    buffer length (plus a constant) -/
def C15_copy_linear (c : Config) (st : PState) : Prop :=
  ∃ A B, ∀ buf : Bytes, copyCost c (buf.length + 1) st buf ≤ A * buf.length + B

/-- **C15, copies, no linear bound** (known finding "buffer packed with packets"): whatever the
    cache state, no constants `A`, `B` bound the copied bytes by `A·|buf| + B`; the witness for
    `A`, `B` is the buffer of `2A + B + 1` header-only IPFIX messages. -/
theorem C15_copy_quadratic_fails (c : Config) (hk : packOk c = true) (st : PState) :
    ¬ ∃ A B, ∀ buf : Bytes, copyCost c (buf.length + 1) st buf ≤ A * buf.length + B := by
  rintro ⟨A, B, h⟩
  obtain ⟨n, hn⟩ : ∃ n, n = 2 * A + B + 1 := ⟨_, rfl⟩
  have h1 := h (packed n)
  obtain ⟨_, h2, h3, _⟩ := C15_copy_packed c hk n st
  rw [h2, h3] at h1
  have e1 : A * (16 * n) = 16 * (A * n) := Nat.mul_left_comm _ _ _
  have e2 : n * n = 2 * (A * n) + B * n + n := by
    have : n * n = (2 * A + B + 1) * n := congrArg (· * n) hn
    rw [this, Nat.add_mul, Nat.add_mul, Nat.one_mul, Nat.mul_assoc]
  have e3 : B ≤ B * n := Nat.le_mul_of_pos_right _ (by omega)
  rw [e1, e2] at h1
  omega

theorem C15_copy_linear_fails (c : Config) (hk : packOk c = true) (st : PState) : ¬ C15_copy_linear c st :=
  C15_copy_quadratic_fails c hk st

/-- for the tables generated from the Rust source, every allowed set containing 10, every cache -/
theorem C15_copy_quadratic_fails_generated (allowed : List Nat) (uf : Bool) (h10 : allowed.contains 10 = true)
    (st : PState) :
    ¬ ∃ A B, ∀ buf : Bytes, copyCost (cfg15 allowed uf) (buf.length + 1) st buf ≤ A * buf.length + B :=
  C15_copy_quadratic_fails _ (C15_generated_packOk allowed uf h10) st

/-- non-vacuity of the `packOk` hypothesis -/
example : packOk (cfg15 [5, 7, 9, 10] true) = true := by decide

/-- concrete instance, `n = 3` (by evaluation): three messages, 48 bytes, 48 + 32 + 16 + 0 = 96 bytes copied -/
example : copyCost (cfg15 [5, 7, 9, 10] true) ((packed 3).length + 1) {} (packed 3) = 96 ∧
    (packed 3).length = 48 ∧ npkts (cfg15 [5, 7, 9, 10] true) {} (packed 3) = 3 ∧
    96 = 8 * (3 * 3) + 8 * 3 := by decide

/-- the error element: `Partial` carries its own copy of the bytes after the version word
    (a truncated V5 packet of 10 bytes: 10 for the initial copy + 8 inside the error) -/
example : copyCost (cfg15 [5] true) 11 {} (toBE 2 5 ++ List.replicate 8 0) = 18 := by decide

/-! ## B. the size of the result without the honesty hypotheses -/

/-- **per layer, IPFIX**: a data set decoded with a template of `k` fields (ANY declared lengths,
    zero included) has size at most `(112·k + 3)·(|body| + 1)`: records × fields, never worse. -/
theorem C15_ipfix_records_product (c : Config) (fs : List IpTField) (fuel : Nat) (body : Bytes)
    (recs : List Rec) (pad : Bytes) (h : ipRecLoop c fs fuel body = .ok (recs, pad)) :
    (recs.map recSize).sum + pad.length ≤ (112 * fs.length + 3) * (body.length + 1) := by
  have a := ipRecLoop_cost0 c fs (112 * fs.length) (112 * fs.length + 3) (Nat.le_refl _) rfl _ _ _ _ h
  have b : pad.length ≤ (112 * fs.length + 3) * pad.length := Nat.le_mul_of_pos_left _ (by omega)
  rw [Nat.mul_succ]
  omega

/-- **per layer, V9**: a data flowset decoded with a template of `k` fields and `n` loop iterations
    (`n = |body| / total_size ≤ |body|` in `v9ParseBody`) has size at most `(64 + 48·k)·n + 3·|body|`. -/
theorem C15_v9_records_product (c : Config) (fs : List TField) (n : Nat) (body : Bytes)
    (recs : List Rec) (pad : Bytes) (h : v9RecLoop c fs n body [] = (recs, pad)) :
    (recs.map recSize).sum + pad.length ≤ (64 + 48 * fs.length) * n + 3 * body.length := by
  have a := v9RecLoop_cost0 c fs (64 + 48 * fs.length) (Nat.le_refl _) _ _ _ _ _ h
  simp only [List.map_nil, List.sum_nil] at a
  omega

/-- non-vacuity of `C15_v9_records_product`: the V9 template `[len 0, len 1]` (2 fields), 3 iterations over a
    3-byte body: 3 records of 2 entries, size 480 ≤ (64 + 48·2)·3 + 3·3 -/
example : (v9RecLoop (cfg15 [9] true) [⟨94, 0⟩, ⟨4, 1⟩] 3 [6, 6, 6] []).2 = [] ∧
    (v9RecLoop (cfg15 [9] true) [⟨94, 0⟩, ⟨4, 1⟩] 3 [6, 6, 6] []).1.length = 3 ∧
    ((v9RecLoop (cfg15 [9] true) [⟨94, 0⟩, ⟨4, 1⟩] 3 [6, 6, 6] []).1.map recSize).sum = 480 := by decide

/-- the product is attained up to the constant: with the template `zeroFs k` (`k` zero-length
    fields and one 1-byte field, `k + 1` fields in all) the size is `(112·(k+1) + 1)·|body|`, between
    nothing and the upper bound `(112·(k+1) + 3)·(|body| + 1)` of `C15_ipfix_records_product`. -/
theorem C15_product_sharp (c : Config) (k : Nat) (body : Bytes) (hb : body ≠ []) :
    ∃ recs, ipRecLoop c (zeroFs k) (body.length + 1) body = .ok (recs, []) ∧
      (recs.map recSize).sum = (112 * (zeroFs k).length + 1) * body.length ∧
      (recs.map recSize).sum ≤ (112 * (zeroFs k).length + 3) * (body.length + 1) := by
  obtain ⟨recs, h1, _, h3⟩ := ipRecLoop_zeroFs c k body (body.length + 1) hb (by omega)
  refine ⟨recs, h1, by rw [h3, zeroFs_length], ?_⟩
  have := C15_ipfix_records_product c _ _ _ _ _ h1
  simpa using this

/-- **C15, second half, with a field-count bound instead of honesty.**  If no cached data template
    and no data template reported in the result has more than `M` fields (declared lengths
    arbitrary, ZERO INCLUDED), the size of the result of `parse_bytes` is at most
    `(115 + 112·M)·|buf| + 184`. -/
theorem C15_result_fields_bound (c : Config) (hc : costOk c.t = true) (M : Nat) (st st' : PState) (buf : Bytes)
    (pkts : List Packet) (hF : FLe M st = true) (h : parseBytes c st buf = (st', .done pkts))
    (hP : FLePkts M pkts = true) :
    resultSize pkts ≤ fieldW M * buf.length + 184 := by
  have := parseBytesF_cost0 c hc (fieldW M) M (Nat.le_refl _) _ _ _ _ _ hF h hP
  simp only [resultSize]
  omega

/-- **C15, second half, product bound — every state, every buffer, no hypothesis on the
    templates**: `resultSize ≤ 184·(|buf| + 1)·(1 + maxFields)`, where `maxFields` is the largest
    number of fields of a data template in the cache or announced in the buffer.  Inflation by
    zero-length fields is bounded by (bytes) × (fields), never worse. -/
theorem C15_result_product_bound (c : Config) (hc : costOk c.t = true) (st st' : PState) (buf : Bytes)
    (pkts : List Packet) (h : parseBytes c st buf = (st', .done pkts)) :
    resultSize pkts ≤ 184 * (buf.length + 1) * (1 + maxFields c st buf) := by
  obtain ⟨M, hM⟩ : ∃ M, M = maxFields c st buf := ⟨_, rfl⟩
  have h1 : stateMaxFields st ≤ M := by rw [hM]; exact Nat.le_max_left _ _
  have h2 : pktsMaxFields pkts ≤ M := by
    rw [hM]; unfold maxFields; rw [h]; exact Nat.le_max_right _ _
  have := C15_result_fields_bound c hc M st st' buf pkts (FLe_of_max _ _ h1) h (FLePkts_of_max _ _ h2)
  have := product_arith buf.length M
  rw [← hM]
  unfold fieldW at *
  omega

/-- the same without mentioning the outcome (`parse_bytes` always returns: `parseBytes_done`) -/
theorem C15_result_product_bound_total (c : Config) (hc : costOk c.t = true) (st : PState) (buf : Bytes) :
    resultSize (outPkts (parseBytes c st buf).2) ≤ 184 * (buf.length + 1) * (1 + maxFields c st buf) := by
  obtain ⟨pkts, hp⟩ := parseBytes_done c st buf
  have h : parseBytes c st buf = ((parseBytes c st buf).1, .done pkts) := by rw [← hp]
  have := C15_result_product_bound c hc st _ buf pkts h
  rw [hp]
  exact this

/-- instantiated with the tables generated from the Rust source -/
theorem C15_result_product_bound_generated (allowed : List Nat) (uf : Bool) (st : PState) (buf : Bytes) :
    resultSize (outPkts (parseBytes (cfg15 allowed uf) st buf).2) ≤
      184 * (buf.length + 1) * (1 + maxFields (cfg15 allowed uf) st buf) :=
  C15_result_product_bound_total _ C15_generated_costOk st buf

/-- the honest linear bound of `Props/C15.lean` cannot be recovered from a field-count bound alone:
    the witness of `C15_zero_length_fails` (41 fields) breaks `256·(|buf| + wire) + 1024` while
    satisfying the product bound. -/
theorem C15_product_vs_linear :
    ∃ st' pkts, parseBytes (cfg15 [10] true) { ipT := [(256, tpl15 40 0)] } (ipMsg15 256 (List.replicate 20 65)) = (st', .done pkts) ∧
      (decide (maxFields (cfg15 [10] true) { ipT := [(256, tpl15 40 0)] } (ipMsg15 256 (List.replicate 20 65)) = 41) &&
       decide (resultSize pkts = 91996) &&
       decide (resultSize pkts ≤ 184 * ((ipMsg15 256 (List.replicate 20 65)).length + 1) * (1 + 41)) &&
       !resultBounded 256 1024 (ipMsg15 256 (List.replicate 20 65)) { ipT := [(256, tpl15 40 0)] } pkts) = true :=
  check15_sound (by decide +kernel)

/-- non-vacuity of `C15_result_fields_bound`, and the concrete 2-field zero-length template: the cache
    holds the IPFIX template `[len 0, len 1]` (NOT honest, 2 fields); a data set of 4 bytes yields
    4 records × 2 maps, result size 1036 ≤ (115 + 112·2)·24 + 184. -/
example : Honest { ipT := [(256, tpl15 1 0)] } = false ∧ FLe 2 { ipT := [(256, tpl15 1 0)] } = true ∧
    ∃ st' pkts, parseBytes (cfg15 [10] true) { ipT := [(256, tpl15 1 0)] } (ipMsg15 256 (List.replicate 4 65)) = (st', .done pkts) ∧
      (FLePkts 2 pkts && decide (resultSize pkts = 1036) &&
       decide ((ipMsg15 256 (List.replicate 4 65)).length = 24) &&
       decide (maxFields (cfg15 [10] true) { ipT := [(256, tpl15 1 0)] } (ipMsg15 256 (List.replicate 4 65)) = 2) &&
       decide (resultSize pkts ≤ fieldW 2 * 24 + 184)) = true :=
  ⟨by decide, by decide, check15_sound (by decide +kernel)⟩

/-- a template whose 2 fields are BOTH of declared length zero: a data set with an empty body still
    yields one record of 2 maps (the loop's `total_taken == 0 → break` keeps the record) — this is why
    the product bound has `|buf| + 1` and not `|buf|` per set. -/
example : ipRecLoop (cfg15 [10] true) [⟨82, 0, none⟩, ⟨82, 0, none⟩] 1 [] =
    .ok ([[(0, Generated.tables.ipField 82, .str [])], [(1, Generated.tables.ipField 82, .str [])]], []) := by
  decide +kernel

end Netflow.Props
