/-
  Props/Ctl.lean — the property theorems restated for the CONTROL SKELETON REGENERATED FROM THE SOURCE.

  `parseBytesK Generated.ctl` is the model whose constants, comparison operators, dispatch-arm orders and flags were
  read from src/lib.rs, v9.rs, ipfix.rs, v5.rs, v7.rs by tools/translate.py on THIS run (GeneratedCtl.lean).
  `Cnn_ctl_model` says it is the hand-written model of the other theorem files; the corollaries restate headline
  theorems of the properties whose subject is that control code for it.  An edit of the source that changes one of
  the extracted items (e.g. `saturating_sub(4)` → `(3)`, `<` → `<=` in the IPFIX set classifier, the two
  `contains_key` arms swapped, the allowed-version gate behind the dispatch) regenerates a different `Ctl`; these
  theorems then no longer check, whatever the generators happen to hit.
-/
import NetflowModel.Lemmas.G2Ctl
import NetflowModel.Props.C01
import NetflowModel.Props.C02
import NetflowModel.Props.C06
import NetflowModel.Props.C07
import NetflowModel.Props.C11
import NetflowModel.Props.C12
import NetflowModel.Props.C14
namespace Netflow.Props
open Netflow Netflow.G2 Preds

/-- the skeleton read from the source is the modelled one: all 29 extracted items at once -/
theorem Ctl_skeleton_is_modelled : Generated.ctl = Ctl.std := by decide

/-- the regenerated skeleton, run as a parser, IS the hand-written model (every config, state, buffer) -/
theorem Ctl_model (c : Config) (st : PState) (buf : Bytes) :
    parseBytesK Generated.ctl c st buf = parseBytes c st buf := parseBytes_ctl c st buf

theorem C01_ctl_model (c : Config) (st : PState) (buf : Bytes) :
    parseBytesK Generated.ctl c st buf = parseBytes c st buf := parseBytes_ctl c st buf

/-- **C01** for the regenerated skeleton: every call returns (no panic outcome, no fuel exhaustion), after any history -/
theorem C01_ctl_returns (c : Config) (hist : List Bytes) (buf : Bytes) :
    ∃ pkts, (parseBytesK Generated.ctl c (hist.foldl (fun st b => (parseBytesK Generated.ctl c st b).1) {}) buf).2 = .done pkts := by
  have hfold : (fun st b => (parseBytesK Generated.ctl c st b).1) = (fun st b => (parseBytes c st b).1) := by
    funext st b; rw [parseBytes_ctl]
  rw [hfold, parseBytes_ctl]
  exact C01_returns_after_history c hist buf

/-- **C02** for the regenerated skeleton and the regenerated tables -/
theorem C02_ctl (allowed : List Nat) (uf : Bool) (st st' : PState) (buf : Bytes) (pkts : List Packet)
    (h : parseBytesK Generated.ctl { t := Generated.tables, allowed := allowed, unknownFields := uf } st buf = (st', .done pkts)) :
    decomposes { t := Generated.tables, allowed := allowed, unknownFields := uf } buf pkts = true := by
  rw [parseBytes_ctl] at h
  exact C02_generated allowed uf st st' buf pkts h

/-- **C06** (never evicted) for the regenerated skeleton, over a whole history of calls -/
theorem C06_ctl_never_evicted (c : Config) (st : PState) (hist : List Bytes) (id : Nat) :
    (KnownV9 st id → KnownV9 (hist.foldl (fun s b => (parseBytesK Generated.ctl c s b).1) st) id) ∧
    (KnownIp st id → KnownIp (hist.foldl (fun s b => (parseBytesK Generated.ctl c s b).1) st) id) := by
  have hfold : (fun s b => (parseBytesK Generated.ctl c s b).1) = (fun s b => (parseBytes c s b).1) := by
    funext s b; rw [parseBytes_ctl]
  rw [hfold]
  exact C06_never_evicted c st hist id

/-- **C07** for the regenerated skeleton: records only for templates the parser holds -/
theorem C07_ctl_records_only_for_known (c : Config) (st st' : PState) (buf : Bytes) (pkts : List Packet)
    (h : parseBytesK Generated.ctl c st buf = (st', .done pkts)) : ∀ p ∈ pkts, DataKnown c st' p := by
  rw [parseBytes_ctl] at h
  exact C07_records_only_for_known c st st' buf pkts h

/-- **C11** for the regenerated skeleton -/
theorem C11_ctl_chain (c : Config) (hf : c.t.framingOk = true) (st : PState) (ps : List Bytes)
    (h : chainOk c st ps = true) :
    parseBytesK Generated.ctl c st ps.flatten = ((foldCalls c st ps).1, .done (foldCalls c st ps).2) := by
  rw [parseBytes_ctl]
  exact C11_chain c hf st ps h

/-- **C12** for the regenerated skeleton (gate before dispatch is one of the extracted items) -/
theorem C12_ctl_filter (c : Config) (hf : c.t.framingOk = true) (S A : List Nat) (hA : AllowsAll A)
    (st stA : PState) (buf : Bytes) (pktsA : List Packet)
    (h : parseBytesK Generated.ctl (c.withAllowed A) st buf = (stA, .done pktsA)) :
    parseBytesK Generated.ctl (c.withAllowed S) st buf =
      (stateAfter (c.withAllowed A) (buf.length + 1) (takeAllowed (c.withAllowed A) S (buf.length + 1) buf pktsA).length st buf,
       .done (takeAllowed (c.withAllowed A) S (buf.length + 1) buf pktsA)) := by
  rw [parseBytes_ctl] at h ⊢
  exact C12_filter c hf S A hA st stA buf pktsA h

theorem C04_ctl_model (c : Config) (st : PState) (i : Bytes) : parseV9K Generated.ctl c st i = parseV9 c st i := parseV9_ctl c st i
theorem C09_ctl_model (c : Config) (st : PState) (i : Bytes) : parseV9K Generated.ctl c st i = parseV9 c st i := parseV9_ctl c st i
theorem C05_ctl_model (c : Config) (st : PState) (i : Bytes) : parseIpfixK Generated.ctl c st i = parseIpfix c st i := parseIpfix_ctl c st i
theorem C10_ctl_model (c : Config) (st : PState) (i : Bytes) : parseIpfixK Generated.ctl c st i = parseIpfix c st i := parseIpfix_ctl c st i
theorem C14_ctl_model (c : Config) (st : PState) (buf : Bytes) :
    parsePacketK Generated.ctl c st buf = parsePacket c st buf := parsePacket_ctl c st buf
theorem C15_ctl_model (c : Config) (st : PState) (buf : Bytes) :
    parseBytesK Generated.ctl c st buf = parseBytes c st buf := parseBytes_ctl c st buf
theorem C17_ctl_model (c : Config) (st : PState) (buf : Bytes) :
    parseBytesK Generated.ctl c st buf = parseBytes c st buf := parseBytes_ctl c st buf

/-- non-vacuity: the regenerated skeleton decodes a concrete V9 template + data packet -/
example :
    (parseBytesK Generated.ctl { t := Generated.tables, allowed := [9] } {}
      [0, 9, 0, 2, 0, 0, 0, 1, 0, 0, 0, 2, 0, 0, 0, 3, 0, 0, 0, 4,
       0, 0, 0, 12, 1, 0, 0, 1, 0, 1, 0, 2,
       1, 0, 0, 8, 0xAB, 0xCD, 0x12, 0x34]).2 =
      .done [.v9 [9, 2, 1, 2, 3, 4]
        [{ id := 0, len := 12, body := .templates [{ id := 256, fieldCount := 1, fields := [{ typ := 1, len := 2 }] }] [] },
         { id := 256, len := 8, body := .data [[(0, 1, .num (.u16 0xABCD))], [(0, 1, .num (.u16 0x1234))]] [] }]] := by
  decide

end Netflow.Props

namespace Netflow.Props
open Netflow

/-! ### the extracted items matter: with one of them changed, the K-model violates the property (concrete witnesses)

These are the model-side counterparts of seeded source changes: each theorem takes `Ctl.std` with ONE item replaced by the value a
plausible edit would produce and exhibits a packet on which the property's statement fails for `parseBytesK`. -/

/-- a V9 packet that only announces template 256 -/
def ctlV9Tpl : Bytes :=
  [0, 9, 0, 1, 0, 0, 0, 1, 0, 0, 0, 2, 0, 0, 0, 3, 0, 0, 0, 4, 0, 0, 0, 12, 1, 0, 0, 1, 0, 1, 0, 2]

/-- **C12 / C06** need the gate BEFORE the dispatch: with `gateFirst := false` a packet of a refused version teaches its template
    (the caches change although nothing is reported) -/
theorem Ctl_gate_order_matters :
    (parseBytesK { Ctl.std with gateFirst := false } { t := Generated.tables, allowed := [5] } {} ctlV9Tpl).2 = .done [] ∧
    (parseBytesK { Ctl.std with gateFirst := false } { t := Generated.tables, allowed := [5] } {} ctlV9Tpl).1 ≠ {} ∧
    (parseBytesK Ctl.std { t := Generated.tables, allowed := [5] } {} ctlV9Tpl).1 = {} := by decide

/-- a V9 template of total size zero, then data for it -/
def ctlV9Zero : Bytes :=
  [0, 9, 0, 2, 0, 0, 0, 1, 0, 0, 0, 2, 0, 0, 0, 3, 0, 0, 0, 4, 0, 0, 0, 12, 1, 0, 0, 1, 0, 1, 0, 0, 1, 0, 0, 8, 1, 2, 3, 4]

/-- **C01** needs the zero-size guard: without it (`v9ZeroIsErr := false`, the code before fix bf87dd4) the call panics -/
theorem Ctl_zero_guard_matters :
    (parseBytesK { Ctl.std with v9ZeroIsErr := false } { t := Generated.tables, allowed := [9] } {} ctlV9Zero).2 = .panic [] ∧
    ∃ pkts, (parseBytesK Ctl.std { t := Generated.tables, allowed := [9] } {} ctlV9Zero).2 = .done pkts := by
  constructor
  · decide
  · exact ⟨_, rfl⟩

/-- an IPFIX message whose only set has the RESERVED id 255 and a template-shaped body -/
def ctlIp255 : Bytes :=
  [0, 10, 0, 28, 0, 0, 0, 1, 0, 0, 0, 2, 0, 0, 0, 3, 0, 255, 0, 12, 1, 0, 0, 1, 0, 1, 0, 4]

/-- **C06 / C07** need `<` in the IPFIX set classifier: with `<=` (seed C07-c) a set with id 255 — a data-set id for which nothing is
    cached — is read as a template set and changes the caches -/
theorem Ctl_set_classifier_matters :
    (parseBytesK { Ctl.std with ipTmplCmp := .le } { t := Generated.tables, allowed := [10] } {} ctlIp255).1 ≠ {} ∧
    (parseBytesK Ctl.std { t := Generated.tables, allowed := [10] } {} ctlIp255).1 = {} := by decide

end Netflow.Props
