/-
  Props/C16c.lean — C16, READ-BACK: "the header fields, template definitions and decoded field values in the JSON
  equal those of the decoded structure".

  Props/C16.lean proves faithfulness as INJECTIVITY of `toJ` (`C16_generated_faithful`); a serialiser that wrote
  `src_port` under the name `dst_port` would still be injective.  Here the JSON tree is read back by an independent,
  NAME-KEYED reader `readJ` (JsonRead.lean: members found by `lookup` of their name, enum variants by their tag,
  record entries by parsing the decimal member name; never by position in an object) and compared with the NORMAL
  FORM `normPkt` of the decoded packet (JsonRead.lean), which forgets exactly what the JSON cannot carry:
    * every `padding` (`#[serde(skip_serializing)]`),
    * the width tag of a `DataNumber` (`#[serde(untagged)]`): the normal form holds the integer,
    * error message strings (free text of nom; `JVal.anyStr` in the model),
  and keeps as TEXT what the JSON shows as text: `Ipv4Addr` / `Ipv6Addr` / MAC strings and the variant names of
  `ProtocolTypes`, `V9Field`, `IPFixField`, `ScopeFieldType`, `ScopeDataField` (`C16_normal_form_exact` lifts the text back to
  values with the injectivity lemmas of Lemmas/B1Json.lean: equal normal forms ⇔ equal up to paddings and width tags).

  * `C16_read_back`                 every packet of every parse result (any allowed set, either feature setting, any
                                    state, any buffer) reads back as its normal form — no hypothesis left.
  * `C16_read_back_v5 … _error`     the same per variant, with the normal form spelled out.
  * `C16_read_back_of`              parametric form (any tables; hypotheses `SchemaOk`, `pktWf`, sorted record indices).
  * `C16_read_back_determines`      equal JSON ⇒ equal normal forms (through the reader, not through injectivity of `toJ`).
  * `C16_normal_form_exact`, `C16_toJ_factors`, `C16_normal_form_ignores_pads_widths`
                                    the normal form forgets nothing else.
  * `C16_struct_order_irrelevant`, `C16_record_order_irrelevant`
                                    the reader is name-keyed: permuting the members of a struct object / of a record
                                    object does not change what is read.
  * `C16_swap_detected`, `C16_swap_values_v5_ports`, `C16_reorder_v5_ports`
                                    a tree in which two members carry each other's VALUE reads back as a DIFFERENT normal
                                    form (so `C16_read_back` pins the member-to-field mapping), while a tree whose
                                    members are merely written in another ORDER reads back the same.
  Helper lemmas: Lemmas/P2Read.lean.
-/
import NetflowModel.Lemmas.P2Read
import NetflowModel.Props.C16
namespace Netflow.Props
open Netflow Netflow.JRead Netflow.B1 Netflow.P2

/-! ### parametric read-back -/

/-- READ-BACK, parametric in the tables: if the Rust field names of each derive(Nom) struct are pairwise distinct
    (`SchemaOk`), the packet has one value per struct field (`pktWf`, proved for parse results:
    `C16_parse_results_wellformed`) and its records have strictly ascending indices (proved for parse results:
    `C16_parse_results_keys_in_template_order`), the name-keyed reader returns the packet's normal form.
    All three hypotheses are discharged for parse results of the generated tables in `C16_read_back`. -/
theorem C16_read_back_of (c : Config) (nm : JNames) (hs : SchemaOk c) (p : Packet) (hw : pktWf c nm p = true)
    (hk : PktAll V9Asc IpAsc p) : readJ (schemaOf c) (toJ c nm p) = some (normPkt c nm p) :=
  readJ_toJ c nm hs p hw hk

/-- read-back for every parse result of any tables that satisfy `SchemaOk` and `TablesCover` -/
theorem C16_read_back_parse_results (c : Config) (nm : JNames) (hs : SchemaOk c) (hc : TablesCover c nm)
    (st st' : PState) (buf : Bytes) (ps : List Packet) (h : parseBytes c st buf = (st', .done ps)) :
    ∀ p ∈ ps, readJ (schemaOf c) (toJ c nm p) = some (normPkt c nm p) := fun p hp =>
  readJ_toJ c nm hs p (parseBytes_wf hc st st' buf ps h p hp) (pktAll_asc (parseBytes_keys c st st' buf ps h p hp))

/-! ### the generated tables -/

/-- the schema the reader is given: the Rust field names of `V5Header`, `V5 FlowSet`, `V7Header`, `V7 FlowSet`,
    V9 `Header`, IPFIX `Header` (taken from the generated layouts; spelled out in `jsonSchema_eq`) -/
def jsonSchema : Schema := schemaOf jsonCfg

/-- the schema, literally -/
theorem jsonSchema_eq : jsonSchema =
    { v5Hdr := ["version", "count", "sys_up_time", "unix_secs", "unix_nsecs", "flow_sequence", "engine_type", "engine_id",
                "sampling_interval"],
      v5Rec := ["src_addr", "dst_addr", "next_hop", "input", "output", "d_pkts", "d_octets", "first", "last", "src_port",
                "dst_port", "pad1", "tcp_flags", "protocol_number", "protocol_type", "tos", "src_as", "dst_as", "src_mask",
                "dst_mask", "pad2"],
      v7Hdr := ["version", "count", "sys_up_time", "unix_secs", "unix_nsecs", "flow_sequence", "reserved"],
      v7Rec := ["src_addr", "dst_addr", "next_hop", "input", "output", "d_pkts", "d_octets", "first", "last", "src_port",
                "dst_port", "flags_fields_valid", "tcp_flags", "protocol_number", "protocol_type", "tos", "src_as",
                "dst_as", "src_mask", "dst_mask", "flags_fields_invalid", "router_src"],
      v9Hdr := ["version", "count", "sys_up_time", "unix_secs", "sequence_number", "source_id"],
      ipHdr := ["version", "length", "export_time", "sequence_number", "observation_domain_id"] } := by
  decide +kernel

theorem jsonSchema_of (allowed : List Nat) (uf : Bool) : schemaOf (jsonCfgOf allowed uf) = jsonSchema := rfl

/-- side condition of `C16_read_back_of` for the generated tables: no struct declares a field name twice -/
theorem jsonSchemaOk (allowed : List Nat) (uf : Bool) : SchemaOk (jsonCfgOf allowed uf) where
  v5Hdr := C16_generated_layout_names_distinct Generated.tables.v5Hdr (by simp)
  v5Rec := C16_generated_layout_names_distinct Generated.tables.v5Rec (by simp)
  v7Hdr := C16_generated_layout_names_distinct Generated.tables.v7Hdr (by simp)
  v7Rec := C16_generated_layout_names_distinct Generated.tables.v7Rec (by simp)
  v9Hdr := C16_generated_layout_names_distinct Generated.tables.v9Hdr (by simp)
  ipHdr := C16_generated_layout_names_distinct Generated.tables.ipHdr (by simp)

/-- **C16 READ-BACK.**  For every allowed-version set, either setting of `parse_unknown_fields`, every parser state
    and every buffer, every packet `p` that `parse_bytes` returns satisfies: the name-keyed reader applied to the JSON
    tree of `p` returns the normal form of `p` — every header field under its Rust name, every set header, every
    template definition, every record entry under its index with its field-enum name and its decoded value, every
    error element with its `remaining` bytes.  Text-valued leaves are compared as text (see `C16_normal_form_exact`). -/
theorem C16_read_back (allowed : List Nat) (uf : Bool) (st st' : PState) (buf : Bytes) (ps : List Packet)
    (h : parseBytes (jsonCfgOf allowed uf) st buf = (st', .done ps)) :
    ∀ p ∈ ps, readJ jsonSchema (toJ (jsonCfgOf allowed uf) jsonNames p) = some (normPkt (jsonCfgOf allowed uf) jsonNames p) :=
  C16_read_back_parse_results _ jsonNames (jsonSchemaOk allowed uf) (jsonCover allowed uf) st st' buf ps h

/-! per variant, with the normal form spelled out -/

theorem C16_read_back_v5 (allowed : List Nat) (uf : Bool) (st st' : PState) (buf : Bytes) (ps : List Packet)
    (h : parseBytes (jsonCfgOf allowed uf) st buf = (st', .done ps)) (hd : List Nat) (rs : List (List Nat))
    (hp : Packet.v5 hd rs ∈ ps) :
    readJ jsonSchema (toJ (jsonCfgOf allowed uf) jsonNames (.v5 hd rs)) =
      some (.v5 (normStruct jsonNames Generated.tables.v5Hdr hd) (rs.map (normStruct jsonNames Generated.tables.v5Rec))) :=
  C16_read_back allowed uf st st' buf ps h _ hp

theorem C16_read_back_v7 (allowed : List Nat) (uf : Bool) (st st' : PState) (buf : Bytes) (ps : List Packet)
    (h : parseBytes (jsonCfgOf allowed uf) st buf = (st', .done ps)) (hd : List Nat) (rs : List (List Nat))
    (hp : Packet.v7 hd rs ∈ ps) :
    readJ jsonSchema (toJ (jsonCfgOf allowed uf) jsonNames (.v7 hd rs)) =
      some (.v7 (normStruct jsonNames Generated.tables.v7Hdr hd) (rs.map (normStruct jsonNames Generated.tables.v7Rec))) :=
  C16_read_back allowed uf st st' buf ps h _ hp

theorem C16_read_back_v9 (allowed : List Nat) (uf : Bool) (st st' : PState) (buf : Bytes) (ps : List Packet)
    (h : parseBytes (jsonCfgOf allowed uf) st buf = (st', .done ps)) (hd : List Nat) (ss : List V9Set)
    (hp : Packet.v9 hd ss ∈ ps) :
    readJ jsonSchema (toJ (jsonCfgOf allowed uf) jsonNames (.v9 hd ss)) =
      some (.v9 (normStruct jsonNames Generated.tables.v9Hdr hd)
        (ss.map fun s => { id := s.id, len := s.len, body := normV9Body (jsonCfgOf allowed uf) jsonNames s.body })) :=
  C16_read_back allowed uf st st' buf ps h _ hp

theorem C16_read_back_ipfix (allowed : List Nat) (uf : Bool) (st st' : PState) (buf : Bytes) (ps : List Packet)
    (h : parseBytes (jsonCfgOf allowed uf) st buf = (st', .done ps)) (hd : List Nat) (ss : List IpSet)
    (hp : Packet.ipfix hd ss ∈ ps) :
    readJ jsonSchema (toJ (jsonCfgOf allowed uf) jsonNames (.ipfix hd ss)) =
      some (.ipfix (normStruct jsonNames Generated.tables.ipHdr hd)
        (ss.map fun s => { id := s.id, len := s.len, body := normIpBody (jsonCfgOf allowed uf) jsonNames s.body })) :=
  C16_read_back allowed uf st st' buf ps h _ hp

/-- error elements need no hypothesis at all: kind, version and both `remaining` byte strings are read back -/
theorem C16_read_back_error (c : Config) (nm : JNames) (sc : Schema) (k : ErrKind) (rem : Bytes) :
    readJ sc (toJ c nm (.error k rem)) = some (.error (normErr k) rem) := by
  simp [readJ, toJ, fieldWith, field, List.lookup, readErrKind_J]

/-! ### per-layer versions (usable without a whole packet) -/

/-- a derive(Nom) struct: each Rust field name looked up in the object gives the value decoded for that field -/
theorem C16_read_back_struct (nm : JNames) (lay : Layout) (vals : List Nat) (hn : (lay.map (·.name)).Nodup)
    (hl : vals.length = lay.length) :
    readStruct (lay.map (·.name)) (layoutJ nm lay vals) = some (normStruct nm lay vals) :=
  readStruct_J nm lay vals hn hl

/-- a decoded field value: the variant by its tag, the content by kind (no hypothesis) -/
theorem C16_read_back_field_value (nm : JNames) (v : FieldValue) :
    readFieldValue (fieldValueJ nm v) = some (normFieldValue nm v) :=
  readFieldValue_J nm v

/-- a record: every member name is a decimal index; the entries come back under their indices -/
theorem C16_read_back_record (nm : JNames) (names : List (Nat × String)) (r : Rec) (h : KeysAsc r) :
    readRec (recJ nm names r) = some (normRecN nm names r) :=
  readRec_J nm names r h

theorem C16_read_back_v9_body (c : Config) (nm : JNames) (b : V9Body) (h : V9Asc b) :
    readV9Body (v9BodyJ c nm b) = some (normV9Body c nm b) :=
  readV9Body_J c nm b h

theorem C16_read_back_ipfix_body (c : Config) (nm : JNames) (b : IpBody) (h : IpAsc b) :
    readIpBody (ipBodyJ c nm b) = some (normIpBody c nm b) :=
  readIpBody_J c nm b h

/-- template definitions need no hypothesis: id, counts and every (number, enum name, length[, enterprise]) -/
theorem C16_read_back_templates (c : Config) (nm : JNames) (ts : List V9Template) (pad : Bytes) :
    readV9Body (v9BodyJ c nm (.templates ts pad)) = some (normV9Body c nm (.templates ts pad)) :=
  readV9Body_J c nm _ trivial

theorem C16_read_back_ipfix_template (c : Config) (nm : JNames) (t : IpTemplate) :
    readIpBody (ipBodyJ c nm (.template t)) = some (.template t.id t.fieldCount (t.fields.map (normIpTField c nm))) :=
  readIpBody_J c nm _ trivial

/-- decimal member names are read back as the index -/
theorem C16_index_key_read_back (n : Nat) : keyNat (toString n) = some n := keyNat_toString n

/-! ### what the normal form keeps and forgets -/

/-- `toJ` factors through the normal form: the JSON tree is a function of `normPkt p` alone (`writeN`, Lemmas/P2Read.lean,
    is a writer of normal forms) — the normal form forgets nothing the JSON shows -/
theorem C16_toJ_factors (c : Config) (nm : JNames) (p : Packet) : writeN (normPkt c nm p) = toJ c nm p :=
  writeN_normPkt c nm p

/-- the normal form does not see paddings and `DataNumber` width tags (`B1.jnorm` erases both) -/
theorem C16_normal_form_ignores_pads_widths (c : Config) (nm : JNames) (p : Packet) :
    normPkt c nm (jnorm p) = normPkt c nm p :=
  normPkt_jnorm c nm p

/-- EXACTNESS of the normal form, text lifted back to values: for well-formed packets (every parse result is) and name
    tables without repeated variant names, two packets have the same normal form iff they agree in everything except
    paddings and width tags.  So comparing `Ipv4Addr` / `Ipv6Addr` / MAC / enum names as TEXT in `C16_read_back` loses
    nothing: `ip4Text`, `ip6Text`, `macText` and the name tables are injective (`B1.ip4Text_inj`, `B1.ip6Text_inj`,
    `B1.macText_inj`, `NamesOk`). -/
theorem C16_normal_form_exact (c : Config) (nm : JNames) (hn : NamesOk nm) (p q : Packet)
    (hp : pktWf c nm p = true) (hq : pktWf c nm q = true) : normPkt c nm p = normPkt c nm q ↔ jnorm p = jnorm q := by
  constructor
  · intro h
    apply toJ_inj hn hp hq
    rw [← writeN_normPkt, ← writeN_normPkt, h]
  · intro h
    rw [← normPkt_jnorm c nm p, ← normPkt_jnorm c nm q, h]

/-- exactness for the generated tables and parse results -/
theorem C16_generated_normal_form_exact (allowed : List Nat) (uf : Bool)
    (st1 st1' st2 st2' : PState) (buf1 buf2 : Bytes) (ps qs : List Packet)
    (h1 : parseBytes (jsonCfgOf allowed uf) st1 buf1 = (st1', .done ps))
    (h2 : parseBytes (jsonCfgOf allowed uf) st2 buf2 = (st2', .done qs))
    (p q : Packet) (hp : p ∈ ps) (hq : q ∈ qs) :
    normPkt (jsonCfgOf allowed uf) jsonNames p = normPkt (jsonCfgOf allowed uf) jsonNames q ↔ jnorm p = jnorm q :=
  C16_normal_form_exact _ jsonNames jsonNames_ok p q
    (parseBytes_wf (jsonCover allowed uf) _ _ _ _ h1 p hp) (parseBytes_wf (jsonCover allowed uf) _ _ _ _ h2 q hq)

/-- the JSON determines the normal form — obtained by READING the tree, not from injectivity of the writer -/
theorem C16_read_back_determines (allowed : List Nat) (uf : Bool)
    (st1 st1' st2 st2' : PState) (buf1 buf2 : Bytes) (ps qs : List Packet)
    (h1 : parseBytes (jsonCfgOf allowed uf) st1 buf1 = (st1', .done ps))
    (h2 : parseBytes (jsonCfgOf allowed uf) st2 buf2 = (st2', .done qs))
    (p q : Packet) (hp : p ∈ ps) (hq : q ∈ qs)
    (h : toJ (jsonCfgOf allowed uf) jsonNames p = toJ (jsonCfgOf allowed uf) jsonNames q) :
    normPkt (jsonCfgOf allowed uf) jsonNames p = normPkt (jsonCfgOf allowed uf) jsonNames q := by
  have e1 := C16_read_back allowed uf st1 st1' buf1 ps h1 p hp
  have e2 := C16_read_back allowed uf st2 st2' buf2 qs h2 q hq
  rw [h, e2] at e1
  exact (Option.some.inj e1).symm

/-! ### the reader is name-keyed: member order is irrelevant -/

/-- permuting the members of a struct object (distinct names) does not change what `readStruct` returns: every
    member is found by its name, wherever it stands -/
theorem C16_struct_order_irrelevant (names : List String) (kvs kvs' : List (String × JVal)) (hp : kvs.Perm kvs')
    (hn : (kvs.map (·.1)).Nodup) : readStruct names (.obj kvs) = readStruct names (.obj kvs') :=
  readStruct_perm names hp hn

/-- the same for any single member access of any object -/
theorem C16_member_order_irrelevant (kvs kvs' : List (String × JVal)) (hp : kvs.Perm kvs')
    (hn : (kvs.map (·.1)).Nodup) (k : String) : field k (.obj kvs) = field k (.obj kvs') :=
  field_perm hp hn k

/-- a record object whose members are written in ANY order (`r'` a permutation of the index-sorted `r`) is read as
    the index-sorted record: entries are placed by their decimal member name -/
theorem C16_record_order_irrelevant (nm : JNames) (names : List (Nat × String)) (r r' : Rec) (hp : r'.Perm r)
    (h : KeysAsc r) : readRec (recJ nm names r') = some (normRecN nm names r) :=
  readRec_perm nm names r r' hp h

/-! ### the read-back theorem pins the member-to-field mapping -/

/-- no tree that the writer produces for a packet with a DIFFERENT normal form is read as the normal form of `p`.
    In particular a writer that exchanged the values of two struct members, two record entries, two template fields, …
    (which yields the tree of the packet `q` with those values exchanged) is refuted by `C16_read_back` as soon as the two
    values differ. -/
theorem C16_swap_detected (c : Config) (nm : JNames) (hs : SchemaOk c) (p q : Packet) (hw : pktWf c nm q = true)
    (hk : PktAll V9Asc IpAsc q) (hne : normPkt c nm q ≠ normPkt c nm p) :
    readJ (schemaOf c) (toJ c nm q) ≠ some (normPkt c nm p) := by
  rw [readJ_toJ c nm hs q hw hk]
  intro h
  exact hne (Option.some.inj h)

/-- the V5 packet of Props/C16.lean (`src_port = 1234`, `dst_port = 80`) with the two port VALUES exchanged -/
def c16cV5PortsSwapped : Packet := .v5 [5, 1, 1000, 1700000000, 0, 42, 0, 0, 0]
  [[0x0a000001, 0x0a000002, 0, 1, 2, 10, 1000, 100, 200, 80, 1234, 0, 0x18, 6, 6, 0, 64512, 64513, 24, 24, 0]]

/-- the JSON tree of `c16V5Example` in which the members `src_port` and `dst_port` carry each other's VALUE
    (what a serialiser with the two fields mixed up would write) -/
def c16cTreeValuesSwapped : JVal :=
  .obj [("V5", .obj [("header", .obj [("version", .num 5), ("count", .num 1), ("sys_up_time", .num 1000),
      ("unix_secs", .num 1700000000), ("unix_nsecs", .num 0), ("flow_sequence", .num 42), ("engine_type", .num 0),
      ("engine_id", .num 0), ("sampling_interval", .num 0)]),
    ("flowsets", .arr [.obj [("src_addr", strJ "10.0.0.1"), ("dst_addr", strJ "10.0.0.2"), ("next_hop", strJ "0.0.0.0"),
      ("input", .num 1), ("output", .num 2), ("d_pkts", .num 10), ("d_octets", .num 1000), ("first", .num 100),
      ("last", .num 200), ("src_port", .num 80), ("dst_port", .num 1234), ("pad1", .num 0), ("tcp_flags", .num 24),
      ("protocol_number", .num 6), ("protocol_type", strJ "Tcp"), ("tos", .num 0), ("src_as", .num 64512),
      ("dst_as", .num 64513), ("src_mask", .num 24), ("dst_mask", .num 24), ("pad2", .num 0)]])])]

/-- the JSON tree of `c16V5Example` with the members `src_port` and `dst_port` (and `header` / `flowsets`, and
    `version` / `count`) written in the opposite ORDER, each still carrying its own value -/
def c16cTreeReordered : JVal :=
  .obj [("V5", .obj [
    ("flowsets", .arr [.obj [("src_addr", strJ "10.0.0.1"), ("dst_addr", strJ "10.0.0.2"), ("next_hop", strJ "0.0.0.0"),
      ("input", .num 1), ("output", .num 2), ("d_pkts", .num 10), ("d_octets", .num 1000), ("first", .num 100),
      ("last", .num 200), ("dst_port", .num 80), ("src_port", .num 1234), ("pad1", .num 0), ("tcp_flags", .num 24),
      ("protocol_number", .num 6), ("protocol_type", strJ "Tcp"), ("tos", .num 0), ("src_as", .num 64512),
      ("dst_as", .num 64513), ("src_mask", .num 24), ("dst_mask", .num 24), ("pad2", .num 0)]]),
    ("header", .obj [("count", .num 1), ("version", .num 5), ("sys_up_time", .num 1000),
      ("unix_secs", .num 1700000000), ("unix_nsecs", .num 0), ("flow_sequence", .num 42), ("engine_type", .num 0),
      ("engine_id", .num 0), ("sampling_interval", .num 0)])])]

/-- the true tree reads back as the normal form of the packet (instance of the theorem, here by evaluation) -/
theorem C16_read_back_v5_example :
    readJ jsonSchema (toJ jsonCfg jsonNames c16V5Example) = some (normPkt jsonCfg jsonNames c16V5Example) := by
  decide +kernel

/-- VALUES exchanged between `src_port` and `dst_port`: the reader returns the normal form of the packet with the
    ports exchanged, which is NOT the normal form of the packet — the read-back theorem fails for such a writer -/
theorem C16_swap_values_v5_ports :
    readJ jsonSchema c16cTreeValuesSwapped = some (normPkt jsonCfg jsonNames c16cV5PortsSwapped) ∧
    readJ jsonSchema c16cTreeValuesSwapped ≠ some (normPkt jsonCfg jsonNames c16V5Example) := by
  decide +kernel

/-- ORDER exchanged (names travel with their values): the reader returns the same normal form as for the true tree -/
theorem C16_reorder_v5_ports :
    c16cTreeReordered ≠ toJ jsonCfg jsonNames c16V5Example ∧
    readJ jsonSchema c16cTreeReordered = some (normPkt jsonCfg jsonNames c16V5Example) := by
  refine ⟨?_, by decide +kernel⟩
  intro h
  simp [c16cTreeReordered, c16V5Example, toJ] at h

/-! ### non-vacuity: concrete buffers, parse results and their read-back, evaluated with the generated tables -/

/-- a V9 export packet: one template set (id 256: source address, protocol, byte count) and one data set with one
    record and three bytes of padding -/
def c16cV9Buf : Bytes :=
  [0, 9, 0, 2, 0, 0, 19, 136, 101, 83, 241, 0, 0, 0, 0, 7, 0, 0, 0, 1,
   0, 0, 0, 20, 1, 0, 0, 3, 0, 8, 0, 4, 0, 4, 0, 1, 0, 1, 0, 4,
   1, 0, 0, 16, 192, 168, 0, 1, 6, 0, 0, 5, 220, 0, 0, 0]

/-- `parse_bytes` decodes it to the V9 packet `c16V9Example` of Props/C16.lean (hypothesis of `C16_read_back` met) -/
example : parseBytes (jsonCfgOf [5, 7, 9, 10] true) {} c16cV9Buf =
    ({ v9T := [(256, c16V9Template)] }, .done [c16V9Example]) := by
  decide +kernel

/-- … and its JSON tree reads back as: header fields by name, the template definition, the record keyed 0, 1, 2 with
    enum names and values (address and enum names as text, the `U32` as the integer 1500), no padding -/
example : readJ jsonSchema (toJ (jsonCfgOf [5, 7, 9, 10] true) jsonNames c16V9Example) =
    some (.v9 [("version", .nat 9), ("count", .nat 2), ("sys_up_time", .nat 5000), ("unix_secs", .nat 1700000000),
               ("sequence_number", .nat 7), ("source_id", .nat 1)]
      [{ id := 0, len := 20, body := .templates [{ id := 256, fieldCount := 3, fields :=
          [{ typ := 8, name := textOf "Ipv4SrcAddr", len := 4, ent := none },
           { typ := 4, name := textOf "Protocol", len := 1, ent := none },
           { typ := 1, name := textOf "InBytes", len := 4, ent := none }] }] },
       { id := 256, len := 16, body := .data
          [[(0, textOf "Ipv4SrcAddr", .ip4 (textOf "192.168.0.1")), (1, textOf "Protocol", .proto (textOf "Tcp")),
            (2, textOf "InBytes", .num 1500)]] }]) := by
  decide +kernel

/-- an IPFIX message: one template set (id 256: source address, protocol) and one data set with one record and one
    byte of padding; a decoded IPFIX record is a run of single-entry maps -/
def c16cIpfixBuf : Bytes :=
  [0, 10, 0, 42, 101, 83, 241, 0, 0, 0, 0, 7, 0, 0, 0, 1,
   0, 2, 0, 16, 1, 0, 0, 2, 0, 8, 0, 4, 0, 4, 0, 1,
   1, 0, 0, 10, 192, 168, 0, 1, 6, 0]

def c16cIpfixTemplate : IpTemplate :=
  { id := 256, fieldCount := 2, fields := [{ typ := 8, len := 4, ent := none }, { typ := 4, len := 1, ent := none }], pad := [] }

def c16cIpfixExample : Packet :=
  .ipfix [10, 42, 1700000000, 7, 1]
    [{ id := 2, len := 16, body := .template c16cIpfixTemplate },
     { id := 256, len := 10, body := .data [[(0, 8, .ip4 0xc0a80001)], [(1, 4, .num (.u8 6))]] [0] }]

example : (parseBytes (jsonCfgOf [5, 7, 9, 10] true) {} c16cIpfixBuf).2 = .done [c16cIpfixExample] := by
  decide +kernel

example : readJ jsonSchema (toJ (jsonCfgOf [5, 7, 9, 10] true) jsonNames c16cIpfixExample) =
    some (.ipfix [("version", .nat 10), ("length", .nat 42), ("export_time", .nat 1700000000), ("sequence_number", .nat 7),
                  ("observation_domain_id", .nat 1)]
      [{ id := 2, len := 16, body := .template 256 2
          [{ typ := 8, name := textOf "SourceIpv4address", len := 4, ent := none },
           { typ := 4, name := textOf "ProtocolIdentifier", len := 1, ent := none }] },
       { id := 256, len := 10, body := .data
          [[(0, textOf "SourceIpv4address", .ip4 (textOf "192.168.0.1"))], [(1, textOf "ProtocolIdentifier", .num 6)]] }]) := by
  decide +kernel

/-- the V5 packet followed by a stray byte of Props/C16.lean: the error element reads back with its `remaining` byte -/
example : readJ jsonSchema (toJ (jsonCfgOf [5, 7, 9, 10] true) jsonNames (.error .incomplete [9])) =
    some (.error .incomplete [9]) := by
  decide +kernel

/-- hypotheses of `C16_read_back_of` / `C16_swap_detected` / `C16_normal_form_exact` met by the example packets -/
example : SchemaOk jsonCfg ∧ pktWf jsonCfg jsonNames c16V9Example = true ∧ PktAll V9Asc IpAsc c16V9Example ∧
    pktWf jsonCfg jsonNames c16cIpfixExample = true ∧ PktAll V9Asc IpAsc c16cIpfixExample ∧
    normPkt jsonCfg jsonNames c16cV5PortsSwapped ≠ normPkt jsonCfg jsonNames c16V5Example := by
  refine ⟨jsonSchemaOk _ _, by decide, ?_, by decide, ?_, by decide +kernel⟩
  · intro s hs
    simp only [List.mem_cons, List.not_mem_nil, or_false] at hs
    rcases hs with rfl | rfl
    · trivial
    · intro r hr
      simp only [List.mem_cons, List.not_mem_nil, or_false] at hr
      subst hr
      simp [KeysAsc, c16V9Record]
  · intro s hs
    simp only [List.mem_cons, List.not_mem_nil, or_false] at hs
    rcases hs with rfl | rfl
    · trivial
    · intro r hr
      simp only [List.mem_cons, List.not_mem_nil, or_false] at hr
      rcases hr with rfl | rfl <;> simp [KeysAsc]

/-- `C16_record_order_irrelevant`, concretely: the record of `c16V9Example` written with its members in the order
    2, 0, 1 is read as the record in template order -/
example : readRec (recJ jsonNames jsonNames.v9Field [c16V9Record[2], c16V9Record[0], c16V9Record[1]]) =
    some (normRecN jsonNames jsonNames.v9Field c16V9Record) := by
  decide +kernel

/-- `C16_struct_order_irrelevant` / `C16_read_back_struct`: hypotheses met by the V9 header layout -/
example : (Generated.tables.v9Hdr.map (·.name)).Nodup ∧ [9, 2, 5000, 1700000000, 7, 1].length = Generated.tables.v9Hdr.length := by
  decide +kernel

/-- the width tag is not read back (it is not in the JSON): `U8(5)` and `U32(5)` have the same normal form -/
example : normPkt jsonCfg jsonNames c16WitnessU8 = normPkt jsonCfg jsonNames c16WitnessU32 ∧ c16WitnessU8 ≠ c16WitnessU32 := by
  decide +kernel

end Netflow.Props
