/-
  Props/C17.lean — property C17 (cargo feature `parse_unknown_fields`, in the model
  `Config.unknownFields`):

    "with the parse_unknown_fields feature turned off, every packet that contains only fields known
     to the library decodes, re-exports and converts exactly as in the default build, and a data
     record containing a field the library does not know is not reported as decoded data".

  The flag is read in exactly one place of the model, the `.unknown` arm of `parseValue`.
  "Known to the library": the field's library type is not `FType.unknown`
  (V9 `c.t.v9Ty (c.t.v9Field f.typ)`, IPFIX non-enterprise `c.t.ipTy (c.t.ipField f.typ)`;
  enterprise fields never go through `parseValue`).

  What is proved (all parametric in `c : Config`, instantiated for `Generated.tables` at the end):
    1. value level    `C17_value_same`, `C17_value_unknown_off`
    2. record level   `C17_v9_record_same`, `C17_v9_record_unknown_off`, `C17_ipfix_record_same`,
                      `C17_ipfix_record_unknown_off`
    3. set level      `C17_v9_set_same`, `C17_ipfix_set_same` (known-only caches ⇒ one set parses
                      identically), `C17_v9_unknown_set_off`, `C17_ipfix_unknown_set_off`
       call level     `C17_known_only_same` (whole `parse_bytes` call: same packets, same caches),
                      `C17_export_same`, `C17_common_same`, `C17_known_only_views_same`
    4. `C17_unknown_not_decoded` (flag off ⇒ `Findings.noUnknownEntries`, for EVERY state and buffer)
    5. `C17_generated_*`, concrete witnesses by `decide +kernel`.

  About the hypotheses of `C17_known_only_same`.  Known-only caches at the START of the call are not
  enough: a template set arriving in the same buffer can cache an unknown-typed template that a later
  data set uses (`C17_state_alone_insufficient`).  The theorem therefore also asks that no template
  REPORTED by the flag-on run is unknown-typed (`Findings.reportsUnknownTemplate`).  The hypothesis
  "the caches AFTER the call are known-only" of the plan turned out to be unnecessary and is dropped
  (the statement proved is stronger).  One side condition on the tables is needed: the IPFIX set
  header occupies bytes (`0 < c.t.ipSetHdr.wireLen`, true of the generated tables by `decide`); it
  makes the `many0` no-progress error of `ipParseSets` unreachable, which is the only way an IPFIX
  message could fail AFTER some of its sets were processed without reporting them.

  NOT a theorem: "the crate compiles with the feature off" — that is checked at run time by building
  the crate with `--no-default-features`; nothing in this file says anything about it.
-/
import NetflowModel.Lemmas.B2Feature
import NetflowModel.Generated
import NetflowModel.Lemmas.G1Arms
namespace Netflow.Props
open Netflow Netflow.B2

/-! ### 1. value level -/

/-- a field of a type known to the library decodes identically in both builds -/
theorem C17_value_same (vc : ValueCfg) (ty : FType) (len : Nat) (i : Bytes) (h : ty ≠ .unknown) :
    parseValue { vc with unknownFields := false } ty len i = parseValue { vc with unknownFields := true } ty len i :=
  parseValue_known vc false true ty h len i

example : FType.unsigned ≠ .unknown ∧
    parseValue { dnArms := Generated.dnArms, protoParse := fun _ => none, protoToU8 := id, unknownFields := false }
      .unsigned 2 [1, 2, 3] = some (.num (.u16 258), [3]) := by decide

/-- with the feature off a field of unknown type never decodes -/
theorem C17_value_unknown_off (vc : ValueCfg) (len : Nat) (i : Bytes) :
    parseValue { vc with unknownFields := false } .unknown len i = none := rfl

/-- (for contrast) with the feature on it decodes like a `Vec` field: the raw bytes -/
theorem C17_value_unknown_on (vc : ValueCfg) (len : Nat) (i : Bytes) :
    parseValue { vc with unknownFields := true } .unknown len i = parseValue vc .vec len i := rfl

/-! ### 2. record level -/

/-- V9: every field of the template known ⇒ the record decodes identically -/
theorem C17_v9_record_same (c : Config) (fs : List TField)
    (hk : ∀ f ∈ fs, c.t.v9Ty (c.t.v9Field f.typ) ≠ .unknown) (idx : Nat) (i : Bytes) :
    v9ParseRec { c with unknownFields := false } fs idx i = v9ParseRec { c with unknownFields := true } fs idx i :=
  v9ParseRec_known c false true fs hk idx i

/-- V9, feature off: a template with an unknown-typed field never yields a record -/
theorem C17_v9_record_unknown_off (c : Config) (fs : List TField)
    (hu : ∃ f ∈ fs, c.t.v9Ty (c.t.v9Field f.typ) = .unknown) (idx : Nat) (i : Bytes) :
    v9ParseRec { c with unknownFields := false } fs idx i = none :=
  v9ParseRec_unknown_off c fs hu idx i

/-- IPFIX: every non-enterprise field of the template known ⇒ the record decodes identically -/
theorem C17_ipfix_record_same (c : Config) (fs : List IpTField)
    (hk : ∀ f ∈ fs, f.ent = none → c.t.ipTy (c.t.ipField f.typ) ≠ .unknown) (idx : Nat) (i : Bytes) :
    ipParseRec { c with unknownFields := false } fs idx i = ipParseRec { c with unknownFields := true } fs idx i :=
  ipParseRec_known c false true fs hk idx i

/-- IPFIX, feature off: a template with an unknown-typed non-enterprise field never yields a record -/
theorem C17_ipfix_record_unknown_off (c : Config) (fs : List IpTField)
    (hu : ∃ f ∈ fs, f.ent = none ∧ c.t.ipTy (c.t.ipField f.typ) = .unknown) (idx : Nat) (i : Bytes) :
    ipParseRec { c with unknownFields := false } fs idx i = none :=
  ipParseRec_unknown_off c fs hu idx i

example : (∀ f ∈ [(⟨1, 4⟩ : TField), ⟨8, 4⟩], Generated.tables.v9Ty (Generated.tables.v9Field f.typ) ≠ .unknown) ∧
    (∃ f ∈ [(⟨1, 4⟩ : TField), ⟨600, 4⟩], Generated.tables.v9Ty (Generated.tables.v9Field f.typ) = .unknown) := by
  decide

/-! ### 3. set level and whole call -/

/-- no cached template has a field of a type unknown to the library (the oracle's test) -/
def KnownOnly (c : Config) (st : PState) : Prop := Findings.usesUnknown c st = false

instance (c : Config) (st : PState) : Decidable (KnownOnly c st) := by unfold KnownOnly; infer_instance

/-- `KnownOnly` spelled out: exactly the caches `parseValue` is ever driven from (V9 data templates,
    IPFIX templates and options templates; V9 options data is decoded without `parseValue`) -/
theorem C17_knownOnly_iff (c : Config) (st : PState) :
    KnownOnly c st ↔
      (∀ e ∈ st.v9T, ∀ f ∈ e.2.fields, c.t.v9Ty (c.t.v9Field f.typ) ≠ .unknown) ∧
      (∀ e ∈ st.ipT, ∀ f ∈ e.2.fields, f.ent = none → c.t.ipTy (c.t.ipField f.typ) ≠ .unknown) ∧
      (∀ e ∈ st.ipO, ∀ f ∈ e.2.fields, f.ent = none → c.t.ipTy (c.t.ipField f.typ) ≠ .unknown) :=
  knownOnly_iff c st

/-- with known-only caches ONE V9 flowset (of any kind) parses identically: result and new caches -/
theorem C17_v9_set_same (c : Config) (st : PState) (hk : KnownOnly c st) (i : Bytes) :
    v9ParseSet { c with unknownFields := false } st i = v9ParseSet { c with unknownFields := true } st i :=
  v9ParseSet_same c false true st ((knownOnly_iff c st).1 hk) i

/-- with known-only caches ONE IPFIX set (of any kind) parses identically -/
theorem C17_ipfix_set_same (c : Config) (st : PState) (hk : KnownOnly c st) (i : Bytes) :
    ipParseSet { c with unknownFields := false } st i = ipParseSet { c with unknownFields := true } st i :=
  ipParseSet_same c false true st ((knownOnly_iff c st).1 hk) i

/-- V9, feature off: a data flowset whose template has an unknown-typed field is reported with no
    record at all, its whole body as padding (or fails like in the default build when the template's
    record size is 0) -/
theorem C17_v9_unknown_set_off (c : Config) (st : PState) (id : Nat) (body : Bytes) (t : V9Template)
    (h1 : id ≠ c.t.v9TemplateId) (h2 : id ≠ c.t.v9OptTemplateId) (hO : amLookup id st.v9O = none)
    (hT : amLookup id st.v9T = some t) (hu : ∃ f ∈ t.fields, c.t.v9Ty (c.t.v9Field f.typ) = .unknown) :
    v9ParseBody { c with unknownFields := false } st id body =
      if v9TotalSize t.fields = 0 then (st, .err) else (st, .ok (.data [] body)) :=
  v9ParseBody_unknown_off c st id body t h1 h2 hO hT hu

/-- IPFIX, feature off: a data set whose (options) template has an unknown-typed non-enterprise field
    is a nom error — the set, and every set after it in the message, is not reported -/
theorem C17_ipfix_unknown_set_off (c : Config) (st : PState) (id : Nat) (body : Bytes)
    (h1 : ¬ (id < c.t.ipSetMinRange ∧ id ≠ c.t.ipOptTemplateId)) (h2 : id ≠ c.t.ipOptTemplateId)
    (hu : (∃ t, amLookup id st.ipT = some t ∧
            ∃ f ∈ t.fields, f.ent = none ∧ c.t.ipTy (c.t.ipField f.typ) = .unknown) ∨
          (amLookup id st.ipT = none ∧ ∃ t, amLookup id st.ipO = some t ∧
            ∃ f ∈ t.fields, f.ent = none ∧ c.t.ipTy (c.t.ipField f.typ) = .unknown)) :
    ipParseBody { c with unknownFields := false } st id body = (st, .err) := by
  rcases hu with ⟨t, hT, hu⟩ | ⟨hT, t, hO, hu⟩
  · exact ipParseBody_unknown_off_t c st id body t h1 h2 hT hu
  · exact ipParseBody_unknown_off_o c st id body t h1 h2 hT hO hu

/-- non-vacuity of the set-level theorems: a known-only cache; a cache, set id and template meeting the
    hypotheses of `C17_v9_unknown_set_off` / `C17_ipfix_unknown_set_off` for the generated tables -/
example : KnownOnly { t := Generated.tables, allowed := [] } { v9T := [(256, ⟨256, 2, [⟨1, 4⟩, ⟨8, 4⟩]⟩)] } := by decide

example :
    let c : Config := { t := Generated.tables, allowed := [] }
    let st : PState := { v9T := [(256, ⟨256, 1, [⟨600, 4⟩]⟩)] }
    (256 ≠ c.t.v9TemplateId) ∧ (256 ≠ c.t.v9OptTemplateId) ∧ amLookup 256 st.v9O = none ∧
    amLookup 256 st.v9T = some ⟨256, 1, [⟨600, 4⟩]⟩ ∧
    (∃ f ∈ [(⟨600, 4⟩ : TField)], c.t.v9Ty (c.t.v9Field f.typ) = .unknown) ∧ v9TotalSize [⟨600, 4⟩] ≠ 0 := by
  decide

example :
    let c : Config := { t := Generated.tables, allowed := [] }
    let st : PState := { ipT := [(256, ⟨256, 1, [⟨600, 4, none⟩], []⟩)] }
    ¬ (256 < c.t.ipSetMinRange ∧ 256 ≠ c.t.ipOptTemplateId) ∧ (256 ≠ c.t.ipOptTemplateId) ∧
    amLookup 256 st.ipT = some ⟨256, 1, [⟨600, 4, none⟩], []⟩ ∧
    (∃ f ∈ [(⟨600, 4, none⟩ : IpTField)], f.ent = none ∧ c.t.ipTy (c.t.ipField f.typ) = .unknown) := by
  decide +kernel

/-- **C17, first half.**  If no unknown-typed template is cached before the call and none is
    announced by the packets the default build (`unknownFields := true`) returns, then the build
    without the feature returns exactly the same: same packets, same caches.
    (`hw` is a side condition on the tables, see the file header; the plan's extra hypothesis on the
    caches after the call is not needed.) -/
theorem C17_known_only_same (c : Config) (hw : 0 < c.t.ipSetHdr.wireLen) (st : PState) (buf : Bytes)
    (st' : PState) (pkts : List Packet)
    (hst : Findings.usesUnknown c st = false)
    (hrun : parseBytes { c with unknownFields := true } st buf = (st', .done pkts))
    (hrep : Findings.reportsUnknownTemplate c pkts = false) :
    parseBytes { c with unknownFields := false } st buf = parseBytes { c with unknownFields := true } st buf := by
  rw [hrun]
  exact parseBytesF_same c hw false true _ st buf st' pkts ((knownOnly_iff c st).1 hst) hrun
    (reports_false_pktKnown c pkts hrep)

/-- the form announced in the plan (with the redundant hypothesis on the final caches) -/
theorem C17_known_only_same' (c : Config) (hw : 0 < c.t.ipSetHdr.wireLen) (st : PState) (buf : Bytes)
    (st' : PState) (pkts : List Packet)
    (hst : Findings.usesUnknown c st = false)
    (hrun : parseBytes { c with unknownFields := true } st buf = (st', .done pkts))
    (_hst' : Findings.usesUnknown c st' = false)
    (hrep : Findings.reportsUnknownTemplate c pkts = false) :
    parseBytes { c with unknownFields := false } st buf = parseBytes { c with unknownFields := true } st buf :=
  C17_known_only_same c hw st buf st' pkts hst hrun hrep

/-- the exporters never read the flag -/
theorem C17_export_same (c : Config) (p : Packet) :
    exportPacket { c with unknownFields := false } p = exportPacket { c with unknownFields := true } p := by
  exact (exportPacket_flag c false p).trans (exportPacket_flag c true p).symm

/-- the common-flow view never reads the flag -/
theorem C17_common_same (c : Config) (p : Packet) :
    toCommon { c with unknownFields := false } p = toCommon { c with unknownFields := true } p := by
  exact (toCommon_flag c false p).trans (toCommon_flag c true p).symm

/-- consequently, under the hypotheses of `C17_known_only_same`, decoded packets, their re-export and
    their common view all coincide between the two builds -/
theorem C17_known_only_views_same (c : Config) (hw : 0 < c.t.ipSetHdr.wireLen) (st : PState) (buf : Bytes)
    (st' : PState) (pkts : List Packet)
    (hst : Findings.usesUnknown c st = false)
    (hrun : parseBytes { c with unknownFields := true } st buf = (st', .done pkts))
    (hrep : Findings.reportsUnknownTemplate c pkts = false) :
    parseBytes { c with unknownFields := false } st buf = (st', .done pkts) ∧
    pkts.map (exportPacket { c with unknownFields := false }) = pkts.map (exportPacket { c with unknownFields := true }) ∧
    pkts.map (toCommon { c with unknownFields := false }) = pkts.map (toCommon { c with unknownFields := true }) ∧
    commonFlat { c with unknownFields := false } pkts = commonFlat { c with unknownFields := true } pkts := by
  refine ⟨(C17_known_only_same c hw st buf st' pkts hst hrun hrep).trans hrun, ?_, ?_, ?_⟩
  · exact List.map_congr_left (fun p _ => C17_export_same c p)
  · exact List.map_congr_left (fun p _ => C17_common_same c p)
  · unfold commonFlat
    simp only [C17_common_same]

/-! ### 4. feature off: nothing of unknown type is reported as decoded data -/

/-- **C17, second half.**  Whatever the caches and the buffer: with the feature off no decoded data
    record carries an entry whose field type is unknown to the library (enterprise entries, which are
    raw bytes in both builds, are exempt exactly as in the oracle predicate).  No side condition. -/
theorem C17_unknown_not_decoded (c : Config) (st : PState) (buf : Bytes) (st' : PState) (pkts : List Packet)
    (h : parseBytes { c with unknownFields := false } st buf = (st', .done pkts)) :
    Findings.noUnknownEntries c pkts = true :=
  pktClean_noUnknownEntries c pkts (parseBytesF_off_clean c _ st buf st' pkts h)

/-! ### 5. the generated tables -/

/-- the configuration the crate is built with (`b` = is the feature on) -/
def C17cfg (allowed : List Nat) (b : Bool) : Config := { t := Generated.tables, allowed := allowed, unknownFields := b }

theorem C17_generated_known_only_same (allowed : List Nat) (st : PState) (buf : Bytes) (st' : PState) (pkts : List Packet)
    (hst : Findings.usesUnknown (C17cfg allowed true) st = false)
    (hrun : parseBytes (C17cfg allowed true) st buf = (st', .done pkts))
    (hrep : Findings.reportsUnknownTemplate (C17cfg allowed true) pkts = false) :
    parseBytes (C17cfg allowed false) st buf = (st', .done pkts) ∧
    pkts.map (exportPacket (C17cfg allowed false)) = pkts.map (exportPacket (C17cfg allowed true)) ∧
    pkts.map (toCommon (C17cfg allowed false)) = pkts.map (toCommon (C17cfg allowed true)) ∧
    commonFlat (C17cfg allowed false) pkts = commonFlat (C17cfg allowed true) pkts :=
  C17_known_only_views_same (C17cfg allowed true) (show 0 < Generated.tables.ipSetHdr.wireLen by decide) st buf st' pkts hst hrun hrep

theorem C17_generated_unknown_not_decoded (allowed : List Nat) (st : PState) (buf : Bytes) (st' : PState)
    (pkts : List Packet) (h : parseBytes (C17cfg allowed false) st buf = (st', .done pkts)) :
    Findings.noUnknownEntries (C17cfg allowed false) pkts = true :=
  C17_unknown_not_decoded (C17cfg allowed false) st buf st' pkts h

/-- for the generated tables the enterprise exemption of `Findings.noUnknownEntries` exempts only
    entries produced by enterprise fields: no field NUMBER is mapped to the `Enterprise` variant, so
    a non-enterprise field never carries the discriminant `ipEnterprise` -/
theorem C17_generated_enterprise_disc (typ : Nat) :
    Generated.tables.ipField typ ≠ Generated.tables.ipEnterprise := by
  have hall : (Generated.ipFieldTbl.all fun e => e.2 != Generated.ipEnterprise) = true := by decide +kernel
  show Generated.lookupD Generated.ipFieldTbl Generated.ipFieldDefault typ ≠ Generated.ipEnterprise
  unfold Generated.lookupD
  cases hl : Generated.ipFieldTbl.lookup typ with
  | none => decide
  | some d =>
    have hm := lookup_mem hl
    rw [List.all_eq_true] at hall
    have := hall _ hm
    simpa using this

/-! ### witnesses -/

/-- the packets of a `.done` outcome -/
def c17Pkts : Outcome → List Packet
  | .done ps => ps
  | _ => []

def c17Hdr9 (count : UInt8) : Bytes := [0, 9, 0, count, 0, 0, 0, 1, 0, 0, 0, 2, 0, 0, 0, 3, 0, 0, 0, 4]

/-- V9: template 256 = [IN_BYTES(1)/4, IPV4_SRC_ADDR(8)/4], then one data record for it -/
def c17Known : Bytes :=
  c17Hdr9 2 ++ [0, 0, 0, 16, 1, 0, 0, 2, 0, 1, 0, 4, 0, 8, 0, 4] ++ [1, 0, 0, 12, 0, 0, 0, 42, 192, 168, 0, 1]

/-- V9: template 256 = [field number 600 / 4] (no such `V9Field`: type `Unknown`), then one record -/
def c17Unknown : Bytes :=
  c17Hdr9 2 ++ [0, 0, 0, 12, 1, 0, 0, 1, 2, 88, 0, 4] ++ [1, 0, 0, 8, 0xde, 0xad, 0xbe, 0xef]

/-- IPFIX: template 256 = [element 600 / 4] (type `Unknown`), then one record -/
def c17UnknownIp : Bytes :=
  [0, 10, 0, 36, 0, 0, 0, 1, 0, 0, 0, 2, 0, 0, 0, 3] ++ [0, 2, 0, 12, 1, 0, 0, 1, 2, 88, 0, 4] ++
    [1, 0, 0, 8, 0xde, 0xad, 0xbe, 0xef]

/-- non-vacuity of `C17_known_only_same`: its hypotheses hold for `c17Known` from empty caches, and
    the (identical) result really contains a decoded data record -/
example :
    Findings.usesUnknown (C17cfg [5, 7, 9, 10] true) {} = false ∧
    parseBytes (C17cfg [5, 7, 9, 10] true) {} c17Known =
      ({ v9T := [(256, ⟨256, 2, [⟨1, 4⟩, ⟨8, 4⟩]⟩)] },
       .done [.v9 [9, 2, 1, 2, 3, 4]
         [⟨0, 16, .templates [⟨256, 2, [⟨1, 4⟩, ⟨8, 4⟩]⟩] []⟩,
          ⟨256, 12, .data [[(0, 1, .num (.u32 42)), (1, 8, .ip4 3232235521)]] []⟩]]) ∧
    Findings.reportsUnknownTemplate (C17cfg [5, 7, 9, 10] true)
      (c17Pkts (parseBytes (C17cfg [5, 7, 9, 10] true) {} c17Known).2) = false ∧
    parseBytes (C17cfg [5, 7, 9, 10] false) {} c17Known = parseBytes (C17cfg [5, 7, 9, 10] true) {} c17Known := by
  decide +kernel

/-- known-only caches before the call are NOT enough (why `C17_known_only_same` also looks at the
    templates reported by the call): from empty caches `c17Unknown` decodes differently.  Feature on:
    the record is there, its field as raw bytes; feature off: the data flowset has no record. -/
theorem C17_state_alone_insufficient :
    Findings.usesUnknown (C17cfg [5, 7, 9, 10] true) {} = false ∧
    (parseBytes (C17cfg [5, 7, 9, 10] true) {} c17Unknown).2 =
      .done [.v9 [9, 2, 1, 2, 3, 4]
        [⟨0, 12, .templates [⟨256, 1, [⟨600, 4⟩]⟩] []⟩, ⟨256, 8, .data [[(0, 284, .vec [0xde, 0xad, 0xbe, 0xef])]] []⟩]] ∧
    (parseBytes (C17cfg [5, 7, 9, 10] false) {} c17Unknown).2 =
      .done [.v9 [9, 2, 1, 2, 3, 4]
        [⟨0, 12, .templates [⟨256, 1, [⟨600, 4⟩]⟩] []⟩, ⟨256, 8, .data [] [0xde, 0xad, 0xbe, 0xef]⟩]] ∧
    Generated.tables.v9Ty (Generated.tables.v9Field 600) = .unknown := by
  decide +kernel

/-- the oracle predicates on that witness: the flag-on output reports an unknown-typed template and
    carries an unknown-typed entry, the flag-off output carries none (`C17_unknown_not_decoded`) -/
example :
    Findings.reportsUnknownTemplate (C17cfg [5, 7, 9, 10] true)
      (c17Pkts (parseBytes (C17cfg [5, 7, 9, 10] true) {} c17Unknown).2) = true ∧
    Findings.noUnknownEntries (C17cfg [5, 7, 9, 10] true)
      (c17Pkts (parseBytes (C17cfg [5, 7, 9, 10] true) {} c17Unknown).2) = false ∧
    Findings.noUnknownEntries (C17cfg [5, 7, 9, 10] false)
      (c17Pkts (parseBytes (C17cfg [5, 7, 9, 10] false) {} c17Unknown).2) = true := by
  decide +kernel

/-- IPFIX witness: feature on, the record of the unknown-typed template is decoded as raw bytes;
    feature off, the data set is not reported at all (the message ends after the template set) -/
example :
    (parseBytes (C17cfg [5, 7, 9, 10] true) {} c17UnknownIp).2 =
      .done [.ipfix [10, 36, 1, 2, 3]
        [⟨2, 12, .template ⟨256, 1, [⟨600, 4, none⟩], []⟩⟩, ⟨256, 8, .data [[(0, 504, .vec [0xde, 0xad, 0xbe, 0xef])]] []⟩]] ∧
    (parseBytes (C17cfg [5, 7, 9, 10] false) {} c17UnknownIp).2 =
      .done [.ipfix [10, 36, 1, 2, 3] [⟨2, 12, .template ⟨256, 1, [⟨600, 4, none⟩], []⟩⟩]] ∧
    Generated.tables.ipTy (Generated.tables.ipField 600) = .unknown := by
  decide +kernel

/-- **C17.G** (regenerated on every run) the value decoder of the model IS the interpretation (`Arms.lean`) of the arms of
    `FieldValue::from_field_type` as `tools/translate.py` reads them from data_number.rs now: in particular the `Unknown` arm is the only one that depends on the cargo feature (`.unknownGated`). -/
theorem C17_value_arms_generated (c : ValueCfg) (ty : FType) (len : Nat) (i : Bytes) :
    parseValue c ty len i = parseValueBy Generated.valueArms c ty len i :=
  G1.parseValue_eq_generated c ty len i

end Netflow.Props
