/-
  Props/C11.lean — C11: packets chained in one buffer decode exactly as if delivered one per call.

  `selfDelimiting c st a` (Lemmas/A3Local.lean, decidable): `parse_packet_by_version` accepts `a` in
  state `st` with nothing left over and — for a V9 packet — the header count equals the number of
  decoded flowsets.  `chainOk c st ps`: every buffer of `ps` is self-delimiting in the state reached
  after the previous ones.  `foldCalls c st ps`: one `parse_bytes` call per buffer on the same parser
  (final state, concatenated results).

  Property theorems only; the locality lemmas live in Lemmas/A3Local.lean.
-/
import NetflowModel.Lemmas.A3Local
import NetflowModel.Generated
namespace Netflow.Props
open Netflow Preds

/-- **C11, one packet** (general form): an accepted packet (V9: count = number of flowsets) is
    decoded identically, with the same state change, whatever bytes follow it; the appended bytes are
    handed through to `remaining`.  No hypothesis on the tables is needed. -/
theorem C11_step_ext (c : Config) (st st' : PState) (a : Bytes) (pkt : Packet) (rest : Bytes)
    (h : parsePacket c st a = (st', .ok pkt rest)) (hc : pktCountOk c pkt = true) (b : Bytes) :
    parsePacket c st (a ++ b) = (st', .ok pkt (rest ++ b)) :=
  parsePacket_ext h hc b

/-- **C11, one packet**: a self-delimiting packet followed by `b` yields the same packet, the same
    state, and `remaining = b`. -/
theorem C11_step (c : Config) (st st' : PState) (a : Bytes) (pkt : Packet)
    (h : parsePacket c st a = (st', .ok pkt [])) (hc : pktCountOk c pkt = true) (b : Bytes) :
    parsePacket c st (a ++ b) = (st', .ok pkt b) := by
  simpa using parsePacket_ext h hc b

/-- the same, from the decidable predicate -/
theorem C11_step_selfDelimiting (c : Config) (st : PState) (a : Bytes) (h : selfDelimiting c st a = true) :
    ∃ st' pkt, parsePacket c st a = (st', .ok pkt []) ∧ ∀ b, parsePacket c st (a ++ b) = (st', .ok pkt b) := by
  obtain ⟨st', pkt, hp, hc⟩ := selfDelimiting_inv h
  exact ⟨st', pkt, hp, C11_step c st st' a pkt hp hc⟩

/-- **C11, chain**: parsing the concatenation of a chain of self-delimiting packets in one call
    returns, in order, the concatenation of what one call per packet returns, and ends in the same
    parser state. -/
theorem C11_chain (c : Config) (hf : c.t.framingOk = true) (st : PState) (ps : List Bytes)
    (h : chainOk c st ps = true) :
    parseBytes c st ps.flatten = ((foldCalls c st ps).1, .done (foldCalls c st ps).2) := by
  have := parseBytes_chain_append c hf ps st h []
  rw [List.append_nil, parseBytes_nil] at this
  rw [this]
  simp [Outcome.prepend]

/-- **C11, chain followed by anything**: after a chain of self-delimiting packets `parse_bytes`
    continues with the tail `t` exactly as a fresh call on `t` would in the state after the chain
    (used by C14). -/
theorem C11_chain_append (c : Config) (hf : c.t.framingOk = true) (st : PState) (ps : List Bytes)
    (h : chainOk c st ps = true) (t : Bytes) :
    parseBytes c st (ps.flatten ++ t) =
      ((parseBytes c (foldCalls c st ps).1 t).1, (parseBytes c (foldCalls c st ps).1 t).2.prepend (foldCalls c st ps).2) :=
  parseBytes_chain_append c hf ps st h t

/-- **C11, every partition**: for every way `gs` of cutting the chain into consecutive calls at
    packet boundaries, delivering one group per call gives the same results and final state as one
    packet per call … -/
theorem C11_partition (c : Config) (hf : c.t.framingOk = true) :
    ∀ (gs : List (List Bytes)) (st : PState), chainOk c st gs.flatten = true →
      foldCalls c st (gs.map List.flatten) = foldCalls c st gs.flatten := by
  intro gs
  induction gs with
  | nil => intro st _; rfl
  | cons g gs ih =>
    intro st h
    rw [List.flatten_cons] at h
    obtain ⟨h1, h2⟩ := chainOk_append c hf _ _ _ h
    rw [List.map_cons, List.flatten_cons, foldCalls_append]
    simp only [foldCalls]
    rw [C11_chain c hf st g h1]
    simp only [Outcome.pkts]
    rw [ih _ h2]

/-- … and hence the same as delivering everything in a single call. -/
theorem C11_partition_joined (c : Config) (hf : c.t.framingOk = true) (gs : List (List Bytes)) (st : PState)
    (h : chainOk c st gs.flatten = true) :
    parseBytes c st gs.flatten.flatten =
      ((foldCalls c st (gs.map List.flatten)).1, .done (foldCalls c st (gs.map List.flatten)).2) := by
  rw [C11_partition c hf gs st h]
  exact C11_chain c hf st _ h

/-- **C11** for the tables generated from the Rust source: every allowed set, every cache state. -/
theorem C11_generated (allowed : List Nat) (uf : Bool) (st : PState) (gs : List (List Bytes))
    (h : chainOk { t := Generated.tables, allowed := allowed, unknownFields := uf } st gs.flatten = true) :
    let c : Config := { t := Generated.tables, allowed := allowed, unknownFields := uf }
    parseBytes c st gs.flatten.flatten = ((foldCalls c st gs.flatten).1, .done (foldCalls c st gs.flatten).2) ∧
    foldCalls c st (gs.map List.flatten) = foldCalls c st gs.flatten :=
  ⟨C11_chain _ C02_generated_framing st _ h, C11_partition _ C02_generated_framing gs st h⟩

/-! ### the V9 side condition is necessary -/

/-- C11's one-packet statement WITHOUT the "count = number of flowsets" restriction that the property
    itself makes for V9 packets (this is stronger than the property, and false) -/
def C11_noCountHyp : Prop :=
  ∀ (c : Config) (st st' : PState) (a : Bytes) (pkt : Packet), c.t.framingOk = true →
    parsePacket c st a = (st', .ok pkt []) → ∀ b, parsePacket c st (a ++ b) = (st', .ok pkt b)

/-- a V9 header announcing one flowset followed by nothing is accepted as an empty packet; with more
    bytes behind it the loop continues into them (here: it fails on them).  So the restriction the
    property makes for V9 cannot be dropped. -/
theorem C11_noCountHyp_fails : ¬ C11_noCountHyp := by
  intro h
  have := h { t := Generated.tables, allowed := [9] } {} {}
    [0, 9, 0, 1, 0, 0, 0, 1, 0, 0, 0, 2, 0, 0, 0, 3, 0, 0, 0, 4] (.v9 [9, 1, 1, 2, 3, 4] [])
    (by decide) (by decide) [0, 5]
  revert this
  decide

/-! ### non-vacuity -/

namespace C11ex
def cfg : Config := { t := Generated.tables, allowed := [5, 7, 9, 10] }
/-- a V5 packet with one record -/
def v5p : Bytes := [0,5, 0,1, 0,0,0,1, 0,0,0,2, 0,0,0,3, 0,0,0,4, 5,6, 0,7] ++ List.replicate 48 1
/-- an IPFIX message defining template 256 (sourceIPv4Address/4, destinationIPv4Address/4) -/
def ipT : Bytes := [0,10, 0,32, 0,0,0,1, 0,0,0,1, 0,0,0,1,  0,2, 0,16, 1,0, 0,2, 0,8,0,4, 0,12,0,4]
/-- an IPFIX message with one data set for template 256 -/
def ipD : Bytes := [0,10, 0,28, 0,0,0,2, 0,0,0,2, 0,0,0,1,  1,0, 0,12, 10,0,0,1, 10,0,0,2]
/-- a V9 packet: template flowset 256 and a data flowset using it (count = 2 = number of flowsets) -/
def v9p : Bytes := [0,9, 0,2, 0,0,0,1, 0,0,0,2, 0,0,0,3, 0,0,0,4,  0,0, 0,16, 1,0, 0,2, 0,8,0,4, 0,12,0,4,
  1,0, 0,12, 10,0,0,1, 10,0,0,2]
end C11ex
open C11ex

/-- a mixed chain (V5, IPFIX template, IPFIX data, V9) satisfies the hypothesis of `C11_chain` … -/
example : chainOk cfg {} [v5p, ipT, ipD, v9p] = true := by decide +kernel

/-- … the data message really depends on the template message before it (alone it decodes no set) … -/
example : (foldCalls cfg {} [ipD]).2 = [.ipfix [10, 28, 2, 2, 1] []] := by decide +kernel

/-- … and in the chain it is decoded with the template learned from the previous call. -/
example : ((foldCalls cfg {} [v5p, ipT, ipD, v9p]).2.drop 2).head? =
    some (.ipfix [10, 28, 2, 2, 1]
      [{ id := 256, len := 12,
         body := .data [[(0, 8, .ip4 167772161)], [(1, 12, .ip4 167772162)]] [] }]) := by decide +kernel

/-- the theorem instantiated on the example: joined delivery and the partition `[[v5, T], [D, v9]]` -/
example : parseBytes cfg {} (v5p ++ ipT ++ ipD ++ v9p) =
    ((foldCalls cfg {} [v5p ++ ipT, ipD ++ v9p]).1, .done (foldCalls cfg {} [v5p ++ ipT, ipD ++ v9p]).2) := by
  have h : chainOk cfg {} [[v5p, ipT], [ipD, v9p]].flatten = true := by decide +kernel
  have := C11_partition_joined cfg C02_generated_framing [[v5p, ipT], [ipD, v9p]] {} h
  simpa using this

/-- **C11.0** (regenerated from the source on every run) the library declares no mutable global or per-thread state
    (`static mut`, `thread_local!`, `OnceLock`/`OnceCell`/`lazy_static!`, `static … : Mutex|RwLock|Atomic…`), as the model assumes
    by making `parseBytes` a function of `(config, parser state, buffer)`: a call can hand nothing to the next call except through the parser value, so splitting a buffer into calls cannot change what is decoded. -/
theorem C11_no_global_state : Generated.noGlobals = true := by decide


end Netflow.Props
