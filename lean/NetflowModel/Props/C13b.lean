/-
  Props/C13b.lean — the UNIVERSAL statements behind the recorded C13 findings for V9.

  Props/C13.lean exhibits one packet (`C13_v9_fails`) whose common view lacks protocol and
  first/last seen.  Here: that is not an accident of that packet, it happens for EVERY V9 data record
  the parser can produce.
   * `parseValue_kind`           : the kind (`FieldValue` constructor) of a decoded value is a function
                                   of the library type of the field (`tyAccepts`);
   * `C13_v9_rec_kinds`          : every entry `(idx, disc, v)` of a record produced by `v9ParseRec`
                                   has the kind of `v9Ty disc`;
   * `C13_v9_kinds`              : … and so has every entry of every data record of every V9 packet in
                                   every result of `parse_bytes`;
   * `C13_v9_proto_never_projected` / `C13_v9_times_never_projected` : if the converter's PROTOCOL
                                   key has library type `ProtocolType` (resp. FIRST/LAST_SWITCHED a
                                   duration type) then NO common flow of any V9 packet of any result
                                   has `protoNum`/`protoType` (resp. `first`/`last`) — no matter
                                   whether the field is there once, twice or not at all;
   * `C13_generated_v9_never_projected` : the instance for the tables generated from the Rust source;
   * `C13_v9_proto_always_wrong` : whenever a returned V9 packet has a data record WITH a PROTOCOL
                                   field, its common view differs from the specified one.
  Only new definitions/theorems.
-/
import NetflowModel.Props.C13
import NetflowModel.Lemmas.B1Json
namespace Netflow.Props
open Netflow Preds

/-! ### 1. the kind of a decoded value is determined by the field's library type -/

/-- which `FieldValue` constructor `FieldValue::from_field_type` produces for a `FieldDataType` -/
def tyAccepts : FType → FieldValue → Bool
  | .unsigned, .num _ => true
  | .signed, .num _ => true
  | .str, .str _ => true
  | .ip4, .ip4 _ => true
  | .ip6, .ip6 _ => true
  | .mac, .mac _ => true
  | .durS, .dur _ _ => true
  | .durMs, .dur _ _ => true
  | .durUs, .dur _ _ => true
  | .durNs, .dur _ _ => true
  | .proto, .proto _ => true
  | .f64, .f64 _ => true
  | .vec, .vec _ => true
  | .unknown, .vec _ => true
  | _, _ => false

/-- the four duration types -/
def isDurTy : FType → Bool
  | .durS | .durMs | .durUs | .durNs => true
  | _ => false

/-- **whatever the bytes, the length and the configuration**: a value decoded for a field of library
    type `ty` has the kind of `ty` -/
theorem parseValue_kind (vc : ValueCfg) (ty : FType) (len : Nat) (i : Bytes) (v : FieldValue) (r : Bytes)
    (h : parseValue vc ty len i = some (v, r)) : tyAccepts ty v = true := by
  unfold parseValue at h
  cases ty <;> simp only at h <;> (repeat' split at h) <;>
    simp only [Option.some.injEq, Prod.mk.injEq, reduceCtorEq] at h <;>
    (try (obtain ⟨rfl, _⟩ := h)) <;> (try rfl) <;> (try contradiction)

/-- a `ProtocolType` value is not a `DataNumber::U8` — the only thing `u8::try_from(&FieldValue)` accepts -/
theorem asU8_none_of_proto {v : FieldValue} (h : tyAccepts .proto v = true) : asU8 v = none := by
  cases v <;> simp_all [tyAccepts, asU8]

/-- a `Duration` value is not a `DataNumber::U32` -/
theorem asU32_none_of_dur {ty : FType} {v : FieldValue} (hd : isDurTy ty = true) (h : tyAccepts ty v = true) :
    asU32 v = none := by
  cases ty <;> simp [isDurTy] at hd <;> cases v <;> simp_all [tyAccepts, asU32]

/-! ### 2. every entry the V9 record parser produces has the kind of its field -/

/-- every entry of the record carries a value of the kind of its field's library type -/
def RecKinds (c : Config) (rec : Rec) : Prop := ∀ e ∈ rec, tyAccepts (c.t.v9Ty e.2.1) e.2.2 = true

/-- **C13, record level (any tables)**: every entry `(idx, disc, v)` produced by
    `FieldParser::parse_data_field` has `v` of the kind of `FieldDataType::from(disc)`. -/
theorem C13_v9_rec_kinds (c : Config) :
    ∀ (fs : List TField) (idx : Nat) (i : Bytes) (rec : Rec) (r : Bytes),
      v9ParseRec c fs idx i = some (rec, r) → RecKinds c rec := by
  intro fs
  induction fs with
  | nil =>
    intro idx i rec r h
    simp only [v9ParseRec, Option.some.injEq, Prod.mk.injEq] at h
    intro e he
    rw [← h.1] at he
    simp at he
  | cons f fs ih =>
    intro idx i rec r h
    simp only [v9ParseRec] at h
    cases hv : parseValue c.vc (c.t.v9Ty (c.t.v9Field f.typ)) f.len i with
    | none => simp [hv] at h
    | some x =>
      obtain ⟨v, r1⟩ := x
      simp only [hv] at h
      cases hr : v9ParseRec c fs (idx + 1) r1 with
      | none => simp [hr] at h
      | some y =>
        obtain ⟨es, r2⟩ := y
        simp only [hr, Option.some.injEq, Prod.mk.injEq] at h
        intro e he
        rw [← h.1] at he
        rcases List.mem_cons.mp he with he | he
        · subst he
          exact parseValue_kind _ _ _ _ _ _ hv
        · exact ih _ _ _ _ hr e he

/-- the property of decoded flowset bodies that is lifted to whole results -/
def V9KindsOk (c : Config) : V9Body → Prop
  | .data recs _ => ∀ rec ∈ recs, RecKinds c rec
  | _ => True

theorem v9ParseBody_kinds (c : Config) (st st' : PState) (id : Nat) (body : Bytes) (b : V9Body)
    (h : v9ParseBody c st id body = (st', .ok b)) : V9KindsOk c b := by
  unfold v9ParseBody at h
  repeat' split at h
  all_goals simp only [Prod.mk.injEq, Res.ok.injEq, reduceCtorEq, and_false] at h
  all_goals try (obtain ⟨_, rfl⟩ := h; trivial)
  next t _ =>
    split at h
    · simp at h
    · simp only [Prod.mk.injEq, Res.ok.injEq] at h
      obtain ⟨_, rfl⟩ := h
      apply B1.v9RecLoop_all c t.fields (RecKinds c)
      · intro i rec r hr
        exact C13_v9_rec_kinds c _ _ _ _ _ hr
      · simp

theorem mem_v9DataRecs {rec : Rec} : ∀ {ss : List V9Set}, rec ∈ v9DataRecs ss →
    ∃ s ∈ ss, ∃ recs pad, s.body = .data recs pad ∧ rec ∈ recs := by
  intro ss
  induction ss with
  | nil => intro h; simp [v9DataRecs] at h
  | cons s ss ih =>
    intro h
    unfold v9DataRecs at h
    cases hb : s.body with
    | data recs pad =>
      simp only [hb, List.mem_append] at h
      rcases h with h | h
      · exact ⟨s, List.mem_cons_self, recs, pad, hb, h⟩
      · obtain ⟨s', hs', x⟩ := ih h
        exact ⟨s', List.mem_cons_of_mem _ hs', x⟩
    | templates _ _ =>
      simp only [hb] at h
      obtain ⟨s', hs', x⟩ := ih h
      exact ⟨s', List.mem_cons_of_mem _ hs', x⟩
    | optTemplates _ _ =>
      simp only [hb] at h
      obtain ⟨s', hs', x⟩ := ih h
      exact ⟨s', List.mem_cons_of_mem _ hs', x⟩
    | optData _ _ _ =>
      simp only [hb] at h
      obtain ⟨s', hs', x⟩ := ih h
      exact ⟨s', List.mem_cons_of_mem _ hs', x⟩

/-- **C13, whole call (any tables, any allowed set, any earlier state, any buffer)**: every entry of
    every data record of every V9 packet in the result of `parse_bytes` has the kind of its field. -/
theorem C13_v9_kinds (c : Config) (st st' : PState) (buf : Bytes) (pkts : List Packet)
    (h : parseBytes c st buf = (st', .done pkts)) :
    ∀ hd ss, Packet.v9 hd ss ∈ pkts → ∀ rec ∈ v9DataRecs ss, RecKinds c rec := by
  intro hd ss hp rec hrec
  have hall := parseBytesF_all (c := c) (Q9 := V9KindsOk c) (Qi := fun _ => True)
    (v9ParseBody_kinds c) (fun _ _ _ _ _ _ => trivial) _ _ _ _ _ h _ hp
  obtain ⟨s, hs, recs, pad, hb, hm⟩ := mem_v9DataRecs hrec
  have := hall s hs
  rw [hb] at this
  exact this rec hm

/-! ### 3. consequences for the common view of one record -/

theorem recGet_mem {r : Rec} {disc : Nat} {v : FieldValue} (h : recGet r disc = some v) :
    ∃ e ∈ r, e.2.1 = disc ∧ e.2.2 = v := by
  unfold recGet at h
  cases hf : r.reverse.find? (fun e => e.2.1 == disc) with
  | none => simp [hf] at h
  | some e =>
    simp only [hf, Option.some.injEq] at h
    have hm := List.mem_of_find?_eq_some hf
    have hp := List.find?_some hf
    exact ⟨e, List.mem_reverse.1 hm, by simpa using hp, h⟩

theorem firstField_mem {r : Rec} {disc : Nat} {v : FieldValue} (h : firstField r disc = some v) :
    ∃ e ∈ r, e.2.1 = disc ∧ e.2.2 = v := by
  unfold firstField at h
  cases hf : r.find? (fun e => e.2.1 == disc) with
  | none => simp [hf] at h
  | some e =>
    simp only [hf, Option.some.injEq] at h
    exact ⟨e, List.mem_of_find?_eq_some hf, by simpa using List.find?_some hf, h⟩

/-- a record whose entries have the kinds of their fields, PROTOCOL being a `ProtocolType` field:
    no entry for PROTOCOL is a `U8`, and the common flow has neither protocol number nor name —
    whether the record has that field once, several times, or not at all -/
theorem C13_rec_proto_never (c : Config) (hty : c.t.v9Ty c.t.commonV9.proto = .proto) (rec : Rec) (hk : RecKinds c rec) :
    (∀ e ∈ rec, e.2.1 = c.t.commonV9.proto → (∃ d, e.2.2 = .proto d) ∧ asU8 e.2.2 = none) ∧
    (commonOfRec c.t.protoFromU8 c.t.commonV9 rec).protoNum = none ∧
    (commonOfRec c.t.protoFromU8 c.t.commonV9 rec).protoType = none := by
  have h1 : ∀ e ∈ rec, e.2.1 = c.t.commonV9.proto → (∃ d, e.2.2 = .proto d) ∧ asU8 e.2.2 = none := by
    intro e he hd
    have := hk e he
    rw [hd, hty] at this
    refine ⟨?_, asU8_none_of_proto this⟩
    cases hv : e.2.2 <;> simp_all [tyAccepts]
  have h2 : (recGet rec c.t.commonV9.proto).bind asU8 = none := by
    cases hg : recGet rec c.t.commonV9.proto with
    | none => rfl
    | some v =>
      obtain ⟨e, he, hd, hv⟩ := recGet_mem hg
      rw [← hv]
      exact (h1 e he hd).2
  exact ⟨h1, by simp [commonOfRec, h2], by simp [commonOfRec, h2]⟩

/-- the same for FIRST/LAST_SWITCHED when they are duration fields -/
theorem C13_rec_times_never (c : Config) (hf : isDurTy (c.t.v9Ty c.t.commonV9.first) = true)
    (hl : isDurTy (c.t.v9Ty c.t.commonV9.last) = true) (rec : Rec) (hk : RecKinds c rec) :
    (∀ e ∈ rec, e.2.1 = c.t.commonV9.first ∨ e.2.1 = c.t.commonV9.last → asU32 e.2.2 = none) ∧
    (commonOfRec c.t.protoFromU8 c.t.commonV9 rec).first = none ∧
    (commonOfRec c.t.protoFromU8 c.t.commonV9 rec).last = none := by
  have h1 : ∀ e ∈ rec, e.2.1 = c.t.commonV9.first ∨ e.2.1 = c.t.commonV9.last → asU32 e.2.2 = none := by
    intro e he hd
    have := hk e he
    rcases hd with hd | hd
    · rw [hd] at this; exact asU32_none_of_dur hf this
    · rw [hd] at this; exact asU32_none_of_dur hl this
  have h2 : ∀ k, k = c.t.commonV9.first ∨ k = c.t.commonV9.last → (recGet rec k).bind asU32 = none := by
    intro k hk'
    cases hg : recGet rec k with
    | none => rfl
    | some v =>
      obtain ⟨e, he, hd, hv⟩ := recGet_mem hg
      rw [← hv]
      exact h1 e he (by rw [hd]; exact hk')
  exact ⟨h1, by simp [commonOfRec, h2 _ (Or.inl rfl)], by simp [commonOfRec, h2 _ (Or.inr rfl)]⟩

/-! ### 4. whole call -/

/-- **C13, universal form of the PROTOCOL finding** (any tables in which the converter's PROTOCOL key
    is a `ProtocolType` field): for every result of `parse_bytes`, every V9 packet in it, every data
    record of that packet — no entry for PROTOCOL is a `DataNumber::U8` (it is a `ProtocolType`),
    and the record's common flow has `protocol_number = None` and `protocol_type = None`. -/
theorem C13_v9_proto_never_projected (c : Config) (hty : c.t.v9Ty c.t.commonV9.proto = .proto)
    (st st' : PState) (buf : Bytes) (pkts : List Packet) (h : parseBytes c st buf = (st', .done pkts)) :
    ∀ hd ss, Packet.v9 hd ss ∈ pkts → ∀ rec ∈ v9DataRecs ss,
      (∀ e ∈ rec, e.2.1 = c.t.commonV9.proto → (∃ d, e.2.2 = .proto d) ∧ asU8 e.2.2 = none) ∧
      (commonOfRec c.t.protoFromU8 c.t.commonV9 rec).protoNum = none ∧
      (commonOfRec c.t.protoFromU8 c.t.commonV9 rec).protoType = none :=
  fun hd ss hp rec hr => C13_rec_proto_never c hty rec (C13_v9_kinds c st st' buf pkts h hd ss hp rec hr)

/-- **C13, universal form of the FIRST/LAST_SWITCHED finding**. -/
theorem C13_v9_times_never_projected (c : Config) (hf : isDurTy (c.t.v9Ty c.t.commonV9.first) = true)
    (hl : isDurTy (c.t.v9Ty c.t.commonV9.last) = true)
    (st st' : PState) (buf : Bytes) (pkts : List Packet) (h : parseBytes c st buf = (st', .done pkts)) :
    ∀ hd ss, Packet.v9 hd ss ∈ pkts → ∀ rec ∈ v9DataRecs ss,
      (∀ e ∈ rec, e.2.1 = c.t.commonV9.first ∨ e.2.1 = c.t.commonV9.last → asU32 e.2.2 = none) ∧
      (commonOfRec c.t.protoFromU8 c.t.commonV9 rec).first = none ∧
      (commonOfRec c.t.protoFromU8 c.t.commonV9 rec).last = none :=
  fun hd ss hp rec hr => C13_rec_times_never c hf hl rec (C13_v9_kinds c st st' buf pkts h hd ss hp rec hr)

/-- in terms of `as_netflow_common`: every flow of the common view of every V9 packet of every result
    lacks the four attributes -/
theorem C13_v9_common_flows_lack (c : Config) (hty : c.t.v9Ty c.t.commonV9.proto = .proto)
    (hf : isDurTy (c.t.v9Ty c.t.commonV9.first) = true) (hl : isDurTy (c.t.v9Ty c.t.commonV9.last) = true)
    (st st' : PState) (buf : Bytes) (pkts : List Packet) (h : parseBytes c st buf = (st', .done pkts)) :
    ∀ hd ss, Packet.v9 hd ss ∈ pkts → ∀ cm, toCommon c (.v9 hd ss) = some cm →
      ∀ fl ∈ cm.flows, fl.protoNum = none ∧ fl.protoType = none ∧ fl.first = none ∧ fl.last = none := by
  intro hd ss hp cm hcm fl hfl
  simp only [toCommon, Option.some.injEq] at hcm
  rw [← hcm] at hfl
  simp only [List.mem_map] at hfl
  obtain ⟨rec, hrec, rfl⟩ := hfl
  obtain ⟨_, a, b⟩ := C13_v9_proto_never_projected c hty st st' buf pkts h hd ss hp rec hrec
  obtain ⟨_, d, e⟩ := C13_v9_times_never_projected c hf hl st st' buf pkts h hd ss hp rec hrec
  exact ⟨a, b, d, e⟩

/-- **the instance for the tables generated from the Rust source** (any allowed set, feature flag,
    earlier state and buffer): V9 field 4 (PROTOCOL) is a `ProtocolType` field, 22/21
    (FIRST/LAST_SWITCHED) are `DurationMillis` fields; so `as_netflow_common` of a V9 packet NEVER
    reports a protocol number, a protocol name, a first-seen or a last-seen time. -/
theorem C13_generated_v9_never_projected (allowed : List Nat) (uf : Bool) (st st' : PState) (buf : Bytes)
    (pkts : List Packet)
    (h : parseBytes { t := Generated.tables, allowed := allowed, unknownFields := uf } st buf = (st', .done pkts)) :
    ∀ hd ss, Packet.v9 hd ss ∈ pkts →
      ∀ cm, toCommon { t := Generated.tables, allowed := allowed, unknownFields := uf } (.v9 hd ss) = some cm →
      ∀ fl ∈ cm.flows, fl.protoNum = none ∧ fl.protoType = none ∧ fl.first = none ∧ fl.last = none :=
  C13_v9_common_flows_lack _
    (show Generated.tables.v9Ty Generated.tables.commonV9.proto = .proto by decide)
    (show isDurTy (Generated.tables.v9Ty Generated.tables.commonV9.first) = true by decide)
    (show isDurTy (Generated.tables.v9Ty Generated.tables.commonV9.last) = true by decide) st st' buf pkts h

/-- the side conditions, spelled out: field numbers and library types in the generated tables -/
theorem C13_generated_v9_keys :
    Generated.commonV9.proto = 4 ∧ Generated.commonV9.first = 22 ∧ Generated.commonV9.last = 21 ∧
    Generated.tables.v9Ty 4 = .proto ∧ Generated.tables.v9Ty 22 = .durMs ∧ Generated.tables.v9Ty 21 = .durMs ∧
    -- IPFIX is not affected: the same keys are plain unsigned fields there
    Generated.tables.ipTy 4 = .unsigned ∧ Generated.tables.ipTy 22 = .unsigned ∧ Generated.tables.ipTy 21 = .unsigned := by
  decide

/-! ### 5. hence the view is wrong whenever the field is there -/

/-- **C13 fails for EVERY V9 packet with a PROTOCOL field**: if some data record of a returned V9 packet
    has an entry for PROTOCOL, the specified flow of that record has a protocol number, the common flow
    does not, and the packet's common view differs from the specified one. -/
theorem C13_v9_proto_always_wrong (c : Config) (names : List (Nat × String)) (hty : c.t.v9Ty c.t.commonV9.proto = .proto)
    (st st' : PState) (buf : Bytes) (pkts : List Packet) (h : parseBytes c st buf = (st', .done pkts))
    (hd : List Nat) (ss : List V9Set) (hp : Packet.v9 hd ss ∈ pkts)
    (rec : Rec) (hrec : rec ∈ v9DataRecs ss) (e : Entry) (he : e ∈ rec) (hed : e.2.1 = c.t.commonV9.proto) :
    (∃ n, (specFlow c.t names c.t.commonV9 rec).protoNum = some n) ∧
    (commonOfRec c.t.protoFromU8 c.t.commonV9 rec).protoNum = none ∧
    toCommon c (.v9 hd ss) ≠ specCommon c names (.v9 hd ss) := by
  obtain ⟨hk, hn, _⟩ := C13_v9_proto_never_projected c hty st st' buf pkts h hd ss hp rec hrec
  have hspec : ∃ n, (specFlow c.t names c.t.commonV9 rec).protoNum = some n := by
    cases hff : firstField rec c.t.commonV9.proto with
    | none =>
      unfold firstField at hff
      cases hf : rec.find? (fun e => e.2.1 == c.t.commonV9.proto) with
      | none =>
        rw [List.find?_eq_none] at hf
        exact absurd (by simpa using hed) (hf e he)
      | some x => simp [hf] at hff
    | some v =>
      obtain ⟨e', he', hd', hv'⟩ := firstField_mem hff
      obtain ⟨⟨d, hdv⟩, _⟩ := hk e' he' hd'
      refine ⟨c.t.protoToU8 d, ?_⟩
      simp [specFlow, hff, ← hv', hdv, protoNumOf]
  refine ⟨hspec, hn, ?_⟩
  intro heq
  simp only [toCommon, specCommon, Option.some.injEq, Common.mk.injEq] at heq
  have hmap := heq.2.2
  have := List.map_inj_left.mp hmap rec hrec
  obtain ⟨n, hn'⟩ := hspec
  rw [← this, hn] at hn'
  exact absurd hn' (by simp)

/-! ### non-vacuity -/

/-- the hypotheses of the whole-call theorems are met by the C13 witness packet: the call succeeds,
    the V9 packet is in the result, it has a data record with a PROTOCOL entry … -/
example :
    parseBytes c13Cfg {} c13V9 = ({ v9T := [(256, c13V9tmpl)] }, .done [c13V9pkt]) ∧
    c13V9rec ∈ v9DataRecs [{ id := 0, len := 20, body := .templates [c13V9tmpl] [] },
                            { id := 256, len := 11, body := .data [c13V9rec] [] }] ∧
    ((0, 4, FieldValue.proto 6) : Entry) ∈ c13V9rec ∧ c13Cfg.t.v9Ty c13Cfg.t.commonV9.proto = .proto := by
  refine ⟨by decide +kernel, by decide, by decide, by decide⟩

/-- … `RecKinds` holds of it (evaluated, not via the theorem) and fails for a record in which PROTOCOL
    is a `U8` — the kind the converter wants but the parser never produces -/
example :
    (c13V9rec.all fun e => tyAccepts (Generated.tables.v9Ty e.2.1) e.2.2) = true ∧
    ([(0, 4, FieldValue.num (.u8 6))].all fun e => tyAccepts (Generated.tables.v9Ty e.2.1) e.2.2) = false ∧
    (commonOfRec Generated.tables.protoFromU8 Generated.commonV9 [(0, 4, .num (.u8 6))]).protoNum = some 6 := by
  decide

end Netflow.Props
