/-
  Props/C07b.lean — the runtime predicate `Preds.noRecordsFor tid proto pkts` holds of the MODEL on the
  buffer shape the generator uses for C07:

      pre.flatten ++ p

  where `pre` is a chain of self-delimiting accepted packets (`chainOk`, Lemmas/A3Local) and `p` is ONE
  packet of the protocol `proto` (9 / 10) whose flowsets / sets are
      `front` : a chain of sets that each decode in turn (`C1x.v9SetChain` / `C1x.ipSetChain`; in the
                generator: a template set for another id, possibly a data set for it), possibly empty,
      then a set whose header carries the id `tid`,
  `tid` being a data id of the protocol that is not known to that protocol's caches in the state reached
  in front of that set (`¬ KnownV9 st2 tid` / `¬ KnownIp st2 tid`).

  Two forms of the last hypothesis are given:
    * `C07_noRecordsFor_v9` / `_ipfix`   : `tid` unknown in the state `st2` reached after `front`;
    * `C07_noRecordsFor_v9'` / `_ipfix'` : `tid` unknown in the state reached after `pre` AND no set of `front`
      defines it (`C1x.v9Defines` / `C1x.ipDefines` false on the decoded front sets) — the form "not cached
      after `pre`, not defined earlier inside `p` itself".
  The special case "the unknown data set is the FIRST set of `p`" is `front := []` (`…_first`).
  Helper lemmas: Lemmas/C1xOracles.lean.
-/
import NetflowModel.Lemmas.C1xOracles
import NetflowModel.Props.C07
import NetflowModel.Generated
namespace Netflow.Props
open Netflow Preds Netflow.C1x

/-- **C07, V9, oracle form.**  The packet `p` carrying the unknown data flowset becomes the final error
    element (after the reported packets of `pre`), and `noRecordsFor tid 9` holds of the result. -/
theorem C07_noRecordsFor_v9 (c : Config) (hf : c.t.framingOk = true) (st st2 : PState) (pre : List Bytes)
    (p body : Bytes) (v : Nat) (hd : List Nat) (front : List Bytes) (ss : List V9Set) (b : Bytes)
    (sh : List Nat) (r1 : Bytes) (tid : Nat)
    (hpre : chainOk c st pre = true)
    -- `p` is a V9 packet: version word, header, then `front` and the rest `b`
    (hv : beU 2 p = some (v, body)) (ha : c.allowed.contains v = true) (hdp : c.t.dispatch.lookup v = some 9)
    (hh : parseLayout c.t.protoFromU8 c.t.v9Hdr body = some (hd, front.flatten ++ b))
    -- the flowsets in front decode, one after the other, from the state reached after `pre`
    (hfront : v9SetChain c (foldCalls c st pre).1 front = some (st2, ss))
    -- the header count reaches the next flowset, whose header carries `tid`
    (hcount : front.length < c.t.v9Hdr.get "count" hd)
    (hs : parseLayout c.t.protoFromU8 c.t.v9SetHdr b = some (sh, r1))
    (hid : c.t.v9SetHdr.get "flowset_id" sh = tid)
    -- `tid` is a data id, unknown to V9 at that point
    (h1 : tid ≠ c.t.v9TemplateId) (h2 : tid ≠ c.t.v9OptTemplateId) (hunk : ¬ KnownV9 st2 tid) :
    parseBytes c st (pre.flatten ++ p) =
      (st2, .done ((foldCalls c st pre).2 ++ [.error (.partialParse 9 body) p])) ∧
    noRecordsFor tid 9 ((foldCalls c st pre).2 ++ [.error (.partialParse 9 body) p]) = true := by
  have hw : c.t.v9SetHdr.wireLen = 4 := by
    simp only [Tables.framingOk, Bool.and_eq_true, beq_iff_eq] at hf; exact hf.1.1.1
  have hpk := parsePacket_v9_unknown c hw _ st2 p body v hd front ss b sh r1 tid hv ha hdp hh hfront hcount hs hid h1 h2 hunk
  have hne : p ≠ [] := by
    have := (beU_some hv).1
    intro e; subst e; simp at this
  have hcall := parseBytes_fail c hne hpk
  have hwhole := parseBytes_chain_append c hf pre st hpre p
  rw [hcall] at hwhole
  simp only [Outcome.prepend] at hwhole
  refine ⟨hwhole, ?_⟩
  apply noRecordsFor_concat
  · intro _ hd' ss' hm
    exact (C07_no_set_for_unknown c st st2 _ _ tid hwhole).1 h1 h2 hunk hd' ss' hm
  · intro h; simp at h
  · exact Or.inl ⟨rfl, body, p, rfl⟩
  · exact chainOk_no_error c hf pre st hpre

/-- **C07, IPFIX, oracle form.**  The message `p` is reported with exactly the sets of `front` (none of id
    `tid`), after the reported packets of `pre`, and `noRecordsFor tid 10` holds of the result. -/
theorem C07_noRecordsFor_ipfix (c : Config) (hf : c.t.framingOk = true) (st st2 : PState) (pre : List Bytes)
    (p body : Bytes) (v : Nat) (hd : List Nat) (r : Bytes) (front : List Bytes) (ss : List IpSet) (b : Bytes)
    (sh : List Nat) (r1 : Bytes) (tid : Nat)
    (hpre : chainOk c st pre = true)
    -- `p` is ONE complete IPFIX message: version word, header, `length - 16` bytes = `front` and the rest `b`
    (hv : beU 2 p = some (v, body)) (ha : c.allowed.contains v = true) (hdp : c.t.dispatch.lookup v = some 10)
    (hh : parseLayout c.t.protoFromU8 c.t.ipHdr body = some (hd, r))
    (ht : takeN (c.t.ipHdr.get "length" hd - 16) r = some (front.flatten ++ b, []))
    -- the sets in front decode, one after the other, from the state reached after `pre`
    (hfront : ipSetChain c (foldCalls c st pre).1 front = some (st2, ss))
    -- the next set's header carries `tid`
    (hs : parseLayout c.t.protoFromU8 c.t.ipSetHdr b = some (sh, r1))
    (hid : c.t.ipSetHdr.get "header_id" sh = tid)
    -- `tid` is a data id, unknown to IPFIX at that point
    (h1 : c.t.ipSetMinRange ≤ tid) (h2 : tid ≠ c.t.ipOptTemplateId) (hunk : ¬ KnownIp st2 tid) :
    parseBytes c st (pre.flatten ++ p) = (st2, .done ((foldCalls c st pre).2 ++ [.ipfix hd ss])) ∧
    noRecordsFor tid 10 ((foldCalls c st pre).2 ++ [.ipfix hd ss]) = true := by
  have hw : 0 < c.t.ipSetHdr.wireLen := by
    simp only [Tables.framingOk, Bool.and_eq_true, beq_iff_eq] at hf; omega
  have hpk := parsePacket_ipfix_unknown c hw _ st2 p body v hd r _ [] front ss b sh r1 tid hv ha hdp hh ht rfl hfront
    hs hid h1 h2 hunk
  have hcall := parseBytes_selfDelimiting c hf hpk
  have hwhole := parseBytes_chain_append c hf pre st hpre p
  rw [hcall] at hwhole
  simp only [Outcome.prepend] at hwhole
  refine ⟨hwhole, ?_⟩
  apply noRecordsFor_concat
  · intro h; simp at h
  · intro _ hd' ss' hm
    exact (C07_no_set_for_unknown c st st2 _ _ tid hwhole).2 h1 h2 hunk hd' ss' hm
  · exact Or.inr ⟨rfl, hd, ss, rfl⟩
  · exact chainOk_no_error c hf pre st hpre

/-! ### "not cached after `pre`, not defined earlier inside `p`" -/

/-- **C07, V9**, with the hypothesis on `tid` split as in the property text: unknown to V9 in the state
    reached after `pre`, and defined by no template / options-template flowset of `front`. -/
theorem C07_noRecordsFor_v9' (c : Config) (hf : c.t.framingOk = true) (st st2 : PState) (pre : List Bytes)
    (p body : Bytes) (v : Nat) (hd : List Nat) (front : List Bytes) (ss : List V9Set) (b : Bytes)
    (sh : List Nat) (r1 : Bytes) (tid : Nat)
    (hpre : chainOk c st pre = true)
    (hv : beU 2 p = some (v, body)) (ha : c.allowed.contains v = true) (hdp : c.t.dispatch.lookup v = some 9)
    (hh : parseLayout c.t.protoFromU8 c.t.v9Hdr body = some (hd, front.flatten ++ b))
    (hfront : v9SetChain c (foldCalls c st pre).1 front = some (st2, ss))
    (hcount : front.length < c.t.v9Hdr.get "count" hd)
    (hs : parseLayout c.t.protoFromU8 c.t.v9SetHdr b = some (sh, r1))
    (hid : c.t.v9SetHdr.get "flowset_id" sh = tid)
    (h1 : tid ≠ c.t.v9TemplateId) (h2 : tid ≠ c.t.v9OptTemplateId)
    (hunk : ¬ KnownV9 (foldCalls c st pre).1 tid) (hdef : ∀ s ∈ ss, v9Defines tid s = false) :
    parseBytes c st (pre.flatten ++ p) =
      (st2, .done ((foldCalls c st pre).2 ++ [.error (.partialParse 9 body) p])) ∧
    noRecordsFor tid 9 ((foldCalls c st pre).2 ++ [.error (.partialParse 9 body) p]) = true :=
  C07_noRecordsFor_v9 c hf st st2 pre p body v hd front ss b sh r1 tid hpre hv ha hdp hh hfront hcount hs hid h1 h2
    (fun hk => by
      rcases v9SetChain_known c tid front _ st2 ss hfront hk with h | ⟨s, hs', hd'⟩
      · exact hunk h
      · rw [hdef s hs'] at hd'; exact absurd hd' (by simp))

/-- **C07, IPFIX**, same split of the hypothesis on `tid`. -/
theorem C07_noRecordsFor_ipfix' (c : Config) (hf : c.t.framingOk = true) (st st2 : PState) (pre : List Bytes)
    (p body : Bytes) (v : Nat) (hd : List Nat) (r : Bytes) (front : List Bytes) (ss : List IpSet) (b : Bytes)
    (sh : List Nat) (r1 : Bytes) (tid : Nat)
    (hpre : chainOk c st pre = true)
    (hv : beU 2 p = some (v, body)) (ha : c.allowed.contains v = true) (hdp : c.t.dispatch.lookup v = some 10)
    (hh : parseLayout c.t.protoFromU8 c.t.ipHdr body = some (hd, r))
    (ht : takeN (c.t.ipHdr.get "length" hd - 16) r = some (front.flatten ++ b, []))
    (hfront : ipSetChain c (foldCalls c st pre).1 front = some (st2, ss))
    (hs : parseLayout c.t.protoFromU8 c.t.ipSetHdr b = some (sh, r1))
    (hid : c.t.ipSetHdr.get "header_id" sh = tid)
    (h1 : c.t.ipSetMinRange ≤ tid) (h2 : tid ≠ c.t.ipOptTemplateId)
    (hunk : ¬ KnownIp (foldCalls c st pre).1 tid) (hdef : ∀ s ∈ ss, ipDefines tid s = false) :
    parseBytes c st (pre.flatten ++ p) = (st2, .done ((foldCalls c st pre).2 ++ [.ipfix hd ss])) ∧
    noRecordsFor tid 10 ((foldCalls c st pre).2 ++ [.ipfix hd ss]) = true :=
  C07_noRecordsFor_ipfix c hf st st2 pre p body v hd r front ss b sh r1 tid hpre hv ha hdp hh ht hfront hs hid h1 h2
    (fun hk => by
      rcases ipSetChain_known c tid front _ st2 ss hfront hk with h | ⟨s, hs', hd'⟩
      · exact hunk h
      · rw [hdef s hs'] at hd'; exact absurd hd' (by simp))

/-! ### the clean special case: the unknown data set is the FIRST set of `p` -/

theorem C07_noRecordsFor_v9_first (c : Config) (hf : c.t.framingOk = true) (st : PState) (pre : List Bytes)
    (p body : Bytes) (v : Nat) (hd : List Nat) (b : Bytes) (sh : List Nat) (r1 : Bytes) (tid : Nat)
    (hpre : chainOk c st pre = true)
    (hv : beU 2 p = some (v, body)) (ha : c.allowed.contains v = true) (hdp : c.t.dispatch.lookup v = some 9)
    (hh : parseLayout c.t.protoFromU8 c.t.v9Hdr body = some (hd, b))
    (hcount : 0 < c.t.v9Hdr.get "count" hd)
    (hs : parseLayout c.t.protoFromU8 c.t.v9SetHdr b = some (sh, r1))
    (hid : c.t.v9SetHdr.get "flowset_id" sh = tid)
    (h1 : tid ≠ c.t.v9TemplateId) (h2 : tid ≠ c.t.v9OptTemplateId)
    (hunk : ¬ KnownV9 (foldCalls c st pre).1 tid) :
    parseBytes c st (pre.flatten ++ p) =
      ((foldCalls c st pre).1, .done ((foldCalls c st pre).2 ++ [.error (.partialParse 9 body) p])) ∧
    noRecordsFor tid 9 ((foldCalls c st pre).2 ++ [.error (.partialParse 9 body) p]) = true :=
  C07_noRecordsFor_v9 c hf st _ pre p body v hd [] [] b sh r1 tid hpre hv ha hdp (by simpa using hh) rfl
    (by simpa using hcount) hs hid h1 h2 hunk

theorem C07_noRecordsFor_ipfix_first (c : Config) (hf : c.t.framingOk = true) (st : PState) (pre : List Bytes)
    (p body : Bytes) (v : Nat) (hd : List Nat) (r : Bytes) (b : Bytes) (sh : List Nat) (r1 : Bytes) (tid : Nat)
    (hpre : chainOk c st pre = true)
    (hv : beU 2 p = some (v, body)) (ha : c.allowed.contains v = true) (hdp : c.t.dispatch.lookup v = some 10)
    (hh : parseLayout c.t.protoFromU8 c.t.ipHdr body = some (hd, r))
    (ht : takeN (c.t.ipHdr.get "length" hd - 16) r = some (b, []))
    (hs : parseLayout c.t.protoFromU8 c.t.ipSetHdr b = some (sh, r1))
    (hid : c.t.ipSetHdr.get "header_id" sh = tid)
    (h1 : c.t.ipSetMinRange ≤ tid) (h2 : tid ≠ c.t.ipOptTemplateId)
    (hunk : ¬ KnownIp (foldCalls c st pre).1 tid) :
    parseBytes c st (pre.flatten ++ p) =
      ((foldCalls c st pre).1, .done ((foldCalls c st pre).2 ++ [.ipfix hd []])) ∧
    noRecordsFor tid 10 ((foldCalls c st pre).2 ++ [.ipfix hd []]) = true :=
  C07_noRecordsFor_ipfix c hf st _ pre p body v hd r [] [] b sh r1 tid hpre hv ha hdp hh (by simpa using ht) rfl
    hs hid h1 h2 hunk

end Netflow.Props

/-! ### non-vacuity (generated tables): a V5 packet, then the packet with
    [template 257] [data 257] [data 256 — unknown] -/
namespace Netflow.Props
open Netflow Preds Netflow.C1x

private def c07bCfg : Config := { t := Generated.tables, allowed := [5, 7, 9, 10] }
private def c07bV5 : Bytes := [0, 5, 0, 0, 0, 0, 0, 1, 0, 0, 0, 2, 0, 0, 0, 3, 0, 0, 0, 4, 5, 6, 0, 7]
/-- V9 template flowset: 257 = [IN_BYTES / 3] -/
private def c07bT9 : Bytes := [0,0, 0,12, 1,1, 0,1, 0,1, 0,3]
/-- IPFIX template set: 257 = [octetDeltaCount / 3] -/
private def c07bT10 : Bytes := [0,2, 0,12, 1,1, 0,1, 0,1, 0,3]
/-- data set for 257, one record -/
private def c07bD257 : Bytes := [1,1, 0,8, 1,2,3,0]
/-- data set for 256 -/
private def c07bD256 : Bytes := [1,0, 0,8, 1,2,3,0]
private def c07bBody9 : Bytes := [0,3, 0,0,0,1, 0,0,0,2, 0,0,0,3, 0,0,0,4] ++ c07bT9 ++ c07bD257 ++ c07bD256
private def c07bBody10 : Bytes := [0,44, 0,0,0,1, 0,0,0,2, 0,0,0,3] ++ c07bT10 ++ c07bD257 ++ c07bD256
private def c07bSt9 : PState := { v9T := [(257, ⟨257, 1, [⟨1, 3⟩]⟩)] }
private def c07bSt10 : PState := { ipT := [(257, ⟨257, 1, [⟨1, 3, none⟩], []⟩)] }
private def c07bSs9 : List V9Set :=
  [⟨0, 12, .templates [⟨257, 1, [⟨1, 3⟩]⟩] []⟩, ⟨257, 8, .data [[(0, 1, .num (.u24 66051))]] [0]⟩]
private def c07bSs10 : List IpSet :=
  [⟨2, 12, .template ⟨257, 1, [⟨1, 3, none⟩], []⟩⟩, ⟨257, 8, .data [[(0, 1, .num (.u24 66051))]] [0]⟩]

/-- every hypothesis of `C07_noRecordsFor_v9'` (hence of `C07_noRecordsFor_v9`) is met by a concrete buffer
    whose unknown data flowset is the THIRD flowset of its packet, behind a decoded data record -/
example :
    noRecordsFor 256 9 ((foldCalls c07bCfg {} [c07bV5]).2 ++ [.error (.partialParse 9 c07bBody9) ([0, 9] ++ c07bBody9)]) = true :=
  (C07_noRecordsFor_v9' c07bCfg (by decide) {} c07bSt9 [c07bV5] ([0, 9] ++ c07bBody9) c07bBody9 9 [9, 3, 1, 2, 3, 4]
    [c07bT9, c07bD257] c07bSs9 c07bD256 [256, 8] [1, 2, 3, 0] 256
    (by decide +kernel) (by decide +kernel) (by decide +kernel) (by decide +kernel) (by decide +kernel) (by decide +kernel)
    (by decide +kernel) (by decide +kernel) (by decide +kernel) (by decide +kernel) (by decide +kernel) (by decide +kernel)
    (by decide +kernel)).2

/-- the same for `C07_noRecordsFor_ipfix'` -/
example :
    noRecordsFor 256 10 ((foldCalls c07bCfg {} [c07bV5]).2 ++ [.ipfix [10, 44, 1, 2, 3] c07bSs10]) = true :=
  (C07_noRecordsFor_ipfix' c07bCfg (by decide) {} c07bSt10 [c07bV5] ([0, 10] ++ c07bBody10) c07bBody10 10 [10, 44, 1, 2, 3]
    (c07bT10 ++ c07bD257 ++ c07bD256) [c07bT10, c07bD257] c07bSs10 c07bD256 [256, 8] [1, 2, 3, 0] 256
    (by decide +kernel) (by decide +kernel) (by decide +kernel) (by decide +kernel) (by decide +kernel) (by decide +kernel)
    (by decide +kernel) (by decide +kernel) (by decide +kernel) (by decide +kernel) (by decide +kernel) (by decide +kernel)
    (by decide +kernel)).2

/-- and the whole-call results the theorems speak about really are what `parseBytes` returns, with a decoded
    record reported in front of the unknown set (IPFIX) / nothing of the V9 packet reported -/
example :
    parseBytes c07bCfg {} ([c07bV5].flatten ++ ([0, 9] ++ c07bBody9)) =
      (c07bSt9, .done [.v5 [5, 0, 1, 2, 3, 4, 5, 6, 7] [], .error (.partialParse 9 c07bBody9) ([0, 9] ++ c07bBody9)]) ∧
    parseBytes c07bCfg {} ([c07bV5].flatten ++ ([0, 10] ++ c07bBody10)) =
      (c07bSt10, .done [.v5 [5, 0, 1, 2, 3, 4, 5, 6, 7] [], .ipfix [10, 44, 1, 2, 3] c07bSs10]) := by
  decide +kernel

/-- first-set special cases: hypotheses met by the V5 packet followed by a packet holding only the unknown set -/
example :
    noRecordsFor 256 9 ((foldCalls c07bCfg {} [c07bV5]).2 ++
      [.error (.partialParse 9 ([0,1, 0,0,0,1, 0,0,0,2, 0,0,0,3, 0,0,0,4] ++ c07bD256))
        ([0, 9] ++ ([0,1, 0,0,0,1, 0,0,0,2, 0,0,0,3, 0,0,0,4] ++ c07bD256))]) = true :=
  (C07_noRecordsFor_v9_first c07bCfg (by decide) {} [c07bV5] _ _ 9 [9, 1, 1, 2, 3, 4] c07bD256 [256, 8] [1, 2, 3, 0] 256
    (by decide +kernel) (by decide +kernel) (by decide +kernel) (by decide +kernel) (by decide +kernel) (by decide +kernel)
    (by decide +kernel) (by decide +kernel) (by decide +kernel) (by decide +kernel) (by decide +kernel)).2

example :
    noRecordsFor 256 10 ((foldCalls c07bCfg {} [c07bV5]).2 ++ [.ipfix [10, 24, 1, 2, 3] []]) = true :=
  (C07_noRecordsFor_ipfix_first c07bCfg (by decide) {} [c07bV5] ([0, 10] ++ ([0,24, 0,0,0,1, 0,0,0,2, 0,0,0,3] ++ c07bD256))
    ([0,24, 0,0,0,1, 0,0,0,2, 0,0,0,3] ++ c07bD256) 10 [10, 24, 1, 2, 3] c07bD256 c07bD256 [256, 8] [1, 2, 3, 0] 256
    (by decide +kernel) (by decide +kernel) (by decide +kernel) (by decide +kernel) (by decide +kernel) (by decide +kernel)
    (by decide +kernel) (by decide +kernel) (by decide +kernel) (by decide +kernel) (by decide +kernel)).2

/-- the generated tables meet the side condition `framingOk` of all theorems of this file -/
theorem C07_generated_framing : Generated.tables.framingOk = true := by decide

end Netflow.Props

