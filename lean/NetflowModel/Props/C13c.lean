/-
  Props/C13c.lean — C13 on records that define a projected key MORE THAN ONCE.
  `Props/C13.lean` leaves such packets open (`commonOk` skips them): the property says "equal the corresponding decoded
  fields of that record", and with two fields of one type either is a corresponding field.  What is NOT open is that every
  attribute is the conversion of SOME decoded field with that key and is absent only when there is none.  The oracle
  (`Preds.commonOkDup`) and the correspondence (`Preds.commonCorr`, `Preds.flatCorr`) use exactly this any-candidate
  form; here it is proved of the model:
    * `C13_model_choice`   (unconditional) `commonOfRec` — the last-wins `BTreeMap` — always picks one of the candidates;
    * `C13_v9_dup_partial` (partial, as `C13_v9_partial`: accepted kinds, protocol numbers off `badProtos`) the model's view of
                           ANY V9 packet, duplicates or not, meets the specified any-candidate view `specDupOk`;
    * `C13_commonOkDup_partial` the oracle predicate as a whole on `parse_bytes` results;
    * `C13_choice_is_open` two different choices among duplicates both meet it (so the predicate does not pin the choice),
      `C13_choice_not_arbitrary` a value that is none of the candidates does not.
-/
import NetflowModel.Props.C13
namespace Netflow.Props
open Netflow Preds

/-! ### `recGet` returns one of the candidates -/

theorem c13_find_mem_filter {α : Type} (p : α → Bool) : ∀ (l : List α) (e : α), l.find? p = some e → e ∈ l.filter p := by
  intro l e h
  exact List.mem_filter.2 ⟨List.mem_of_find?_eq_some h, List.find?_some h⟩

theorem recGet_some_mem (r : Rec) (d : Nat) (v : FieldValue) (h : recGet r d = some v) : v ∈ fieldsOf r d := by
  unfold recGet at h
  cases hf : r.reverse.find? (fun e => e.2.1 == d) with
  | none => rw [hf] at h; cases h
  | some e =>
    rw [hf] at h
    simp only [Option.some.injEq] at h
    subst h
    have hm := List.mem_of_find?_eq_some hf
    have hp := List.find?_some hf
    unfold fieldsOf
    exact List.mem_map.2 ⟨e, List.mem_filter.2 ⟨List.mem_reverse.1 hm, hp⟩, rfl⟩

theorem recGet_none_fieldsOf (r : Rec) (d : Nat) (h : recGet r d = none) : fieldsOf r d = [] := by
  have hall := (C13_recGet_none_iff r d).1 h
  unfold fieldsOf
  rw [List.map_eq_nil_iff, List.filter_eq_nil_iff]
  intro e he
  simpa using hall e he

theorem fieldsOf_nil_recGet (r : Rec) (d : Nat) (h : fieldsOf r d = []) : recGet r d = none := by
  cases hg : recGet r d with
  | none => rfl
  | some v =>
    have := recGet_some_mem r d v hg
    rw [h] at this
    cases this

/-- the conversion of what `recGet` finds is the conversion of one of the candidates (absent when there is none) -/
theorem anyOf_recGet {α : Type} [BEq α] [LawfulBEq α] (r : Rec) (d : Nat) (conv : FieldValue → Option α) :
    anyOf (fieldsOf r d) conv ((recGet r d).bind conv) = true := by
  unfold anyOf
  cases hg : recGet r d with
  | none => simp [recGet_none_fieldsOf r d hg]
  | some v =>
    have hm := recGet_some_mem r d v hg
    have hne : (fieldsOf r d).isEmpty = false := by
      cases hf : fieldsOf r d with
      | nil => rw [hf] at hm; cases hm
      | cons _ _ => rfl
    simp only [hne, Bool.false_eq_true, ↓reduceIte, Option.bind_some, List.any_eq_true]
    exact ⟨v, hm, by simp⟩

theorem anyOf_ip (r : Rec) (a b : Nat) (conv : FieldValue → Option IpAddrM) :
    anyOf (if (fieldsOf r a).isEmpty then fieldsOf r b else fieldsOf r a) conv
      (((recGet r a).orElse fun _ => recGet r b).bind conv) = true := by
  cases hg : recGet r a with
  | none =>
    simp only [recGet_none_fieldsOf r a hg, List.isEmpty_nil, ↓reduceIte, Option.orElse_none]
    exact anyOf_recGet r b conv
  | some v =>
    have hm := recGet_some_mem r a v hg
    have hne : (fieldsOf r a).isEmpty = false := by
      cases hf : fieldsOf r a with
      | nil => rw [hf] at hm; cases hm
      | cons _ _ => rfl
    simp only [hne, Bool.false_eq_true, ↓reduceIte, Option.orElse_some]
    have := anyOf_recGet r a conv
    rw [hg] at this
    exact this

/-- changing the converter on the candidates only -/
theorem anyOf_congr {α : Type} [BEq α] (cands : List FieldValue) (f g : FieldValue → Option α) (x : Option α)
    (hfg : ∀ v ∈ cands, f v = g v) (h : anyOf cands f x = true) : anyOf cands g x = true := by
  unfold anyOf at h ⊢
  by_cases he : cands.isEmpty = true
  · simpa [he] using h
  · simp only [he, Bool.false_eq_true, ↓reduceIte, List.any_eq_true] at h ⊢
    obtain ⟨v, hv, hx⟩ := h
    exact ⟨v, hv, by rw [← hfg v hv]; exact hx⟩

/-! ### the model always picks one of the candidates -/

/-- **C13, duplicates, unconditional**: whatever the record, every attribute of the model's common flow is the conversion
    (by the crate's converters) of one of the record's fields with that key, absent only when no field has it or the chosen
    one does not convert; the protocol name is `From<u8>` of the protocol number. -/
theorem C13_model_choice (proto : Nat → Nat) (k : CommonKeys) (r : Rec) :
    flowAnyOk asIp asU16 asU8 asU32 asString proto k r (commonOfRec proto k r) = true := by
  simp only [flowAnyOk, commonOfRec, Bool.and_eq_true, beq_iff_eq]
  refine ⟨⟨⟨⟨⟨⟨⟨⟨⟨?_, ?_⟩, ?_⟩, ?_⟩, ?_⟩, ?_⟩, ?_⟩, ?_⟩, ?_⟩, ?_⟩
  · exact anyOf_ip r k.src4 k.src6 asIp
  · exact anyOf_ip r k.dst4 k.dst6 asIp
  · exact anyOf_recGet r k.sport asU16
  · exact anyOf_recGet r k.dport asU16
  · exact anyOf_recGet r k.proto asU8
  · trivial
  · exact anyOf_recGet r k.first asU32
  · exact anyOf_recGet r k.last asU32
  · exact anyOf_recGet r k.smac asString
  · exact anyOf_recGet r k.dmac asString

theorem c13_zip_map_all' {α β : Type} (f : α → β) (g : α × β → Bool) (l : List α) :
    (l.zip (l.map f)).all g = l.all fun a => g (a, f a) := c13_zip_map_all f g l

/-- the model's view of every V9 packet is within the correspondence `modelDupOk` (so `commonCorr` relaxes, never tightens) -/
theorem C13_model_within_corr (c : Config) (h : List Nat) (ss : List V9Set) :
    modelDupOk c (.v9 h ss) (toCommon c (.v9 h ss)) = true := by
  simp only [modelDupOk, toCommon, List.length_map, beq_self_eq_true, Bool.true_and, c13_zip_map_all', List.all_eq_true]
  intro r _
  exact C13_model_choice _ _ r

/-! ### against the specified view — PARTIAL as for records without duplicates -/

/-- every candidate of the scalar keys has the accepted kind -/
def kindsAcceptedAll (k : CommonKeys) (r : Rec) : Bool :=
  (fieldsOf r k.sport).all isU16 && (fieldsOf r k.dport).all isU16 && (fieldsOf r k.proto).all isU8 &&
  (fieldsOf r k.first).all isU32 && (fieldsOf r k.last).all isU32

/-- every candidate protocol number is a byte off `badProtos` -/
def protoGoodAll (k : CommonKeys) (r : Rec) : Bool :=
  (fieldsOf r k.proto).all fun v =>
    match v with
    | .num (.u8 n) => decide (n < 256) && !badProtos.contains n
    | _ => true

/-- **C13, one record with duplicates allowed** — PARTIAL (every candidate of the scalar keys decoded as the accepted kind,
    protocol numbers off `badProtos`): the model's flow meets the SPECIFIED any-candidate form. -/
theorem C13_rec_dup_partial (t : Tables) (names : List (Nat × String)) (ht : ProtoTableOk t names) (k : CommonKeys) (r : Rec)
    (hk : kindsAcceptedAll k r = true) (hg : protoGoodAll k r = true) :
    flowAnyOk asIp numOf (protoNumOf t) timeOf asString (Spec.protoSpecDisc names) k r (commonOfRec t.protoFromU8 k r) = true := by
  simp only [kindsAcceptedAll, Bool.and_eq_true, List.all_eq_true] at hk
  obtain ⟨⟨⟨⟨k1, k2⟩, k3⟩, k4⟩, k5⟩ := hk
  simp only [protoGoodAll, List.all_eq_true] at hg
  have hm := C13_model_choice t.protoFromU8 k r
  simp only [flowAnyOk, Bool.and_eq_true, beq_iff_eq] at hm ⊢
  obtain ⟨⟨⟨⟨⟨⟨⟨⟨⟨m1, m2⟩, m3⟩, m4⟩, m5⟩, _⟩, m7⟩, m8⟩, m9⟩, m10⟩ := hm
  refine ⟨⟨⟨⟨⟨⟨⟨⟨⟨m1, m2⟩, ?_⟩, ?_⟩, ?_⟩, ?_⟩, ?_⟩, ?_⟩, m9⟩, m10⟩
  · exact anyOf_congr _ _ _ _ (fun v hv => asU16_eq_of_isU16 (k1 v hv)) m3
  · exact anyOf_congr _ _ _ _ (fun v hv => asU16_eq_of_isU16 (k2 v hv)) m4
  · exact anyOf_congr _ _ _ _ (fun v hv => asU8_eq_of_isU8 (k3 v hv)) m5
  · -- the protocol name: `From<u8>` of the chosen number is the specified name off `badProtos`
    simp only [commonOfRec]
    cases hgt : recGet r k.proto with
    | none => rfl
    | some v =>
      have hv := recGet_some_mem r k.proto v hgt
      have h8 := k3 v hv
      have hgv := hg v hv
      cases v with
      | num d =>
        cases d with
        | u8 n =>
          simp only [Bool.and_eq_true, decide_eq_true_eq, Bool.not_eq_true', List.contains_eq_mem,
            decide_eq_false_iff_not] at hgv
          simp [asU8, ht n hgv.1 hgv.2]
        | _ => simp [isU8] at h8
      | _ => simp [isU8] at h8
  · exact anyOf_congr _ _ _ _ (fun v hv => asU32_eq_of_isU32 (k4 v hv)) m7
  · exact anyOf_congr _ _ _ _ (fun v hv => asU32_eq_of_isU32 (k5 v hv)) m8

/-- **C13, V9 packets with or without duplicate keys** — PARTIAL (as `C13_v9_partial`, the kind condition now on every
    candidate): the model's common view of a V9 packet returned by the parser meets `specDupOk`. -/
theorem C13_v9_dup_partial (c : Config) (hl : c.t.commonLayoutOk = true) (names : List (Nat × String))
    (ht : ProtoTableOk c.t names)
    (st st' : PState) (buf : Bytes) (h : List Nat) (ss : List V9Set) (rest : Bytes)
    (hp : parsePacket c st buf = (st', .ok (.v9 h ss) rest))
    (hk : ∀ r ∈ v9DataRecs ss, kindsAcceptedAll c.t.commonV9 r = true ∧ protoGoodAll c.t.commonV9 r = true) :
    specDupOk c names (.v9 h ss) (toCommon c (.v9 h ss)) = true := by
  obtain ⟨e1, _⟩ := C13_v9_shape c hl names st st' buf h ss rest hp
  rw [e1]
  simp only [specDupOk, List.length_map, beq_self_eq_true, Bool.true_and, c13_zip_map_all', List.all_eq_true]
  intro r hr
  exact C13_rec_dup_partial c.t names ht _ r (hk r hr).1 (hk r hr).2

/-- the kind condition of `commonViewGood`, on every candidate -/
def commonViewGoodAll (c : Config) : Packet → Bool
  | .v9 _ ss => (v9DataRecs ss).all fun r => kindsAcceptedAll c.t.commonV9 r && protoGoodAll c.t.commonV9 r
  | _ => true

/-- **C13 as checked by the oracle, duplicates included** — PARTIAL (restricted to `commonViewGood` packets whose candidates
    all have the accepted kinds): converting every element of a `parse_bytes` result meets `commonOkDup`. -/
theorem C13_commonOkDup_partial (c : Config) (hl : c.t.commonLayoutOk = true) (names : List (Nat × String))
    (ht : ProtoTableOk c.t names) (st st' : PState) (buf : Bytes) (pkts : List Packet)
    (h : parseBytes c st buf = (st', .done pkts)) (hg : ∀ p ∈ pkts, commonViewGood c p = true)
    (hga : ∀ p ∈ pkts, commonViewGoodAll c p = true) :
    commonOkDup c names pkts (pkts.map (toCommon c)) = true := by
  unfold commonOkDup
  rw [C13_commonOk_partial c hl names ht st st' buf pkts h hg, Bool.true_and, c13_zip_map_all']
  simp only [List.all_eq_true, Bool.or_eq_true, Bool.not_eq_true']
  intro p hp
  right
  have horig := parseBytesF_origin c _ _ _ _ _ h
  have hl' := hl
  simp only [Tables.commonLayoutOk, Bool.and_eq_true, beq_iff_eq] at hl'
  obtain ⟨⟨⟨⟨⟨⟨⟨h5, h7⟩, h9⟩, h10⟩, r5⟩, r7⟩, t9⟩, t10⟩ := hl'
  rcases horig p hp with ⟨k, r, e⟩ | ho
  · subst e; rfl
  · cases ho with
    | v5 hd rs i r hf => rfl
    | v7 hd rs i r hf => rfl
    | ipfix hd ss i r hh => rfl
    | v9 hd ss i r hh =>
      have hgp := hga _ hp
      simp only [commonViewGoodAll, List.all_eq_true, Bool.and_eq_true] at hgp
      simp only [specDupOk, toCommon, parseLayout_const hh h9, t9, List.length_map, beq_self_eq_true, Bool.true_and,
        c13_zip_map_all', List.all_eq_true]
      intro x hx
      exact C13_rec_dup_partial c.t names ht _ x (hgp x hx).1 (hgp x hx).2

/-- for the generated tables (any allowed set, both feature settings) -/
theorem C13_generated_dup_partial (allowed : List Nat) (uf : Bool) (st st' : PState) (buf : Bytes) (pkts : List Packet)
    (h : parseBytes { t := Generated.tables, allowed := allowed, unknownFields := uf } st buf = (st', .done pkts))
    (hg : ∀ p ∈ pkts, commonViewGood { t := Generated.tables, allowed := allowed, unknownFields := uf } p = true)
    (hga : ∀ p ∈ pkts, commonViewGoodAll { t := Generated.tables, allowed := allowed, unknownFields := uf } p = true) :
    commonOkDup { t := Generated.tables, allowed := allowed, unknownFields := uf } Generated.protoNames pkts
      (pkts.map (toCommon { t := Generated.tables, allowed := allowed, unknownFields := uf })) = true :=
  C13_commonOkDup_partial _ C13_generated_layout _ C13_generated_protoTable _ _ _ _ h hg hga

/-! ### the predicate neither pins the choice nor admits anything -/

/-- a record with source port twice (values 80 and 443), decoded as `U16` -/
def c13DupRec : Rec := [(0, 7, .num (.u16 80)), (1, 7, .num (.u16 443))]
def c13Keys : CommonKeys := Generated.tables.commonV9

/-- both choices meet the any-candidate form … -/
theorem C13_choice_is_open :
    c13Keys.sport = 7 ∧
    flowAnyOk asIp numOf (protoNumOf Generated.tables) timeOf asString (Spec.protoSpecDisc Generated.protoNames) c13Keys c13DupRec
      { srcPort := some 80 } = true ∧
    flowAnyOk asIp numOf (protoNumOf Generated.tables) timeOf asString (Spec.protoSpecDisc Generated.protoNames) c13Keys c13DupRec
      { srcPort := some 443 } = true ∧
    (commonOfRec Generated.tables.protoFromU8 c13Keys c13DupRec).srcPort = some 443 := by
  decide

/-- … a value that is neither, or an absent one, does not -/
theorem C13_choice_not_arbitrary :
    flowAnyOk asIp numOf (protoNumOf Generated.tables) timeOf asString (Spec.protoSpecDisc Generated.protoNames) c13Keys c13DupRec
      { srcPort := some 81 } = false ∧
    flowAnyOk asIp numOf (protoNumOf Generated.tables) timeOf asString (Spec.protoSpecDisc Generated.protoNames) c13Keys c13DupRec
      { } = false ∧
    flowAnyOk asIp numOf (protoNumOf Generated.tables) timeOf asString (Spec.protoSpecDisc Generated.protoNames) c13Keys c13DupRec
      { srcPort := some 80, dstPort := some 80 } = false := by
  decide

/-! ### the hypotheses of `C13_generated_dup_partial` are met by a parsed packet that HAS a duplicate key -/

/-- a V9 packet: template 256 = (L4_SRC_PORT/2, L4_SRC_PORT/2, IPV4_SRC_ADDR/4), one data record (80, 443, 10.0.0.1) -/
def c13DupV9 : Bytes :=
  [0,9, 0,2, 0,0,0,1, 0,0,0,2, 0,0,0,3, 0,0,0,4,
   0,0, 0,20, 1,0, 0,3, 0,7, 0,2, 0,7, 0,2, 0,8, 0,4,
   1,0, 0,12, 0,80, 1,187, 10,0,0,1]

def c13DupTmpl : V9Template :=
  { id := 256, fieldCount := 3, fields := [{ typ := 7, len := 2 }, { typ := 7, len := 2 }, { typ := 8, len := 4 }] }
def c13DupPkt : Packet :=
  .v9 [9, 2, 1, 2, 3, 4]
    [{ id := 0, len := 20, body := .templates [c13DupTmpl] [] },
     { id := 256, len := 12, body := .data [[(0, 7, .num (.u16 80)), (1, 7, .num (.u16 443)), (2, 8, .ip4 167772161)]] [] }]

/-- the packet parses, has a duplicate projected key, meets every hypothesis, and the oracle predicate holds of its view
    (source port: the LAST of the two, 443) -/
theorem C13_dup_nonvacuous :
    parseBytes c13Cfg {} c13DupV9 = ({ v9T := [(256, c13DupTmpl)] }, .done [c13DupPkt]) ∧
    pktHasDupKeys c13Cfg c13DupPkt = true ∧
    commonViewGood c13Cfg c13DupPkt = true ∧ commonViewGoodAll c13Cfg c13DupPkt = true ∧
    commonOkDup c13Cfg Generated.protoNames [c13DupPkt] [toCommon c13Cfg c13DupPkt] = true ∧
    (toCommon c13Cfg c13DupPkt).map (fun cm => cm.flows.map (·.srcPort)) = some [some 443] := by
  decide +kernel

end Netflow.Props
