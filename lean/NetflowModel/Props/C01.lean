/-
  Props/C01.lean — C01 on the model: `parse_bytes` always returns a list (no panic site is
  reachable, no fuel-bounded loop runs out of fuel = every loop terminates), what it returns
  re-exports without tripping the 24-bit range assertion, the packet chain is at most
  `|buf|` deep, and every cached IPFIX template keeps the validity that drives per-record
  progress.  Property theorems only; helper lemmas live in Lemmas/A2State.lean, Lemmas/A2Export.lean.

  Totality: `parseBytes`, `exportPacket`, `toCommon` and every other model function is a total
  Lean function accepted by the kernel without `partial`; the places where the Rust code could
  fail are explicit outcomes (`Outcome.panic/overflow`, `Res.panic/overflow`, `Out.panic`,
  `Loop.outOfFuel`), and the theorems below show none of them is produced.
-/
import NetflowModel.Lemmas.A2Export
import NetflowModel.Props.C02
import NetflowModel.Lemmas.G1Arms
namespace Netflow.Props
open Netflow Preds

/-! ### 1. no panic -/

/-- **C01.1** no panic site is reachable: from any cache state, on any bytes, under any
    configuration the outcome of `parse_bytes` is never `panic`. -/
theorem C01_no_panic (c : Config) (st : PState) (buf : Bytes) (ps : List Packet) :
    (parseBytes c st buf).2 ≠ .panic ps :=
  parseBytesF_no_panic c _ st buf ps

/-- the version-specific parsers never panic either (one packet) -/
theorem C01_packet_no_panic (c : Config) (st : PState) (buf : Bytes) : (parsePacket c st buf).2 ≠ .panic :=
  parsePacket_no_panic c st buf

/-! ### 2. termination: no loop runs out of the fuel the model gives it -/

/-- `many0` never exhausts fuel `|i|+1` for a parser that returns suffixes of its input -/
theorem C01_many0_terminates {α : Type} (p : P α) (hp : Suffix p) (i : Bytes) : many0F p (i.length + 1) i ≠ .outOfFuel :=
  many0_fuel hp i

/-- the template-record parsers under `many0` return suffixes -/
theorem C01_template_parsers_suffix : Suffix parseV9Template ∧ Suffix parseV9OptTemplate ∧ Suffix parseIpTField :=
  ⟨parseV9Template_suffix, parseV9OptTemplate_suffix, parseIpTField_suffix⟩

/-- the IPFIX record loop (repaired: a loop that breaks when a record consumed 0 bytes) never
    exhausts fuel `|i|+1`, for EVERY field list — also for a hand-inserted all-zero-length one -/
theorem C01_ipfix_records_terminate (c : Config) (fs : List IpTField) (i : Bytes) :
    ipRecLoop c fs (i.length + 1) i ≠ .overflow :=
  ipRecLoop_fuel c fs _ i (Nat.lt_succ_self _)

/-- the IPFIX set loop never exhausts fuel `|i|+1` -/
theorem C01_ipfix_sets_terminate (c : Config) (st : PState) (i : Bytes) :
    (ipParseSets c (i.length + 1) st i).2 ≠ .overflow :=
  ipParseSets_fuel c _ st i (Nat.lt_succ_self _)

/-- one packet: no fuel exhaustion anywhere below `parse_packet_by_version` -/
theorem C01_packet_no_overflow (c : Config) (st : PState) (buf : Bytes) : (parsePacket c st buf).2 ≠ .overflow :=
  parsePacket_no_overflow c st buf

/-- every successfully parsed packet consumed at least its version word, so the packet loop
    has enough fuel -/
theorem C01_packet_progress (c : Config) (st st' : PState) (buf : Bytes) (p : Packet) (rest : Bytes)
    (h : parsePacket c st buf = (st', .ok p rest)) : rest.length + 2 ≤ buf.length :=
  parsePacket_progress c st st' buf p rest h

/-- **C01.2** no loop of the model exhausts its fuel: `parse_bytes` terminates.  (No hypothesis
    on the tables is needed: every stage returns a suffix of its input.) -/
theorem C01_no_overflow (c : Config) (st : PState) (buf : Bytes) (ps : List Packet) :
    (parseBytes c st buf).2 ≠ .overflow ps :=
  parseBytesF_fuel_a2 c _ st buf ps (Nat.lt_succ_self _)

/-! ### 3. it returns -/

/-- **C01.3** `parse_bytes` returns a list of packets, from every cache state, for every buffer,
    every allowed-version set, every table. -/
theorem C01_returns (c : Config) (st : PState) (buf : Bytes) : ∃ pkts, (parseBytes c st buf).2 = .done pkts :=
  parseBytes_done c st buf

/-- **C01.3** for the tables generated from the Rust source -/
theorem C01_returns_generated (allowed : List Nat) (uf : Bool) (st : PState) (buf : Bytes) :
    ∃ pkts, (parseBytes { t := Generated.tables, allowed := allowed, unknownFields := uf } st buf).2 = .done pkts :=
  C01_returns _ st buf

/-- ... and for any history of earlier buffers (the state reached is just another `st`) -/
theorem C01_returns_after_history (c : Config) (hist : List Bytes) (buf : Bytes) :
    ∃ pkts, (parseBytes c (hist.foldl (fun st b => (parseBytes c st b).1) {}) buf).2 = .done pkts :=
  C01_returns c _ buf

/-! ### 4. what it returns re-exports without a panic -/

/-- **C01.4** (parametric) if the arm table of `DataNumber::parse` produces the 24-bit variants
    only from 3-byte fields (`dnArmsOk`, decidable), no packet returned by `parse_bytes` — from
    any cache state — makes its exporter panic.  (`Out.err` remains possible: durations ≥ 2^32 s.) -/
theorem C01_export_no_panic (c : Config) (ha : dnArmsOk c.t.dnArms = true) (st : PState) (buf : Bytes)
    (pkts : List Packet) (h : (parseBytes c st buf).2 = .done pkts) :
    ∀ p ∈ pkts, exportPacket c p ≠ some .panic := by
  intro p hp
  apply exportPacket_ne_panic
  have : parseBytes c st buf = ((parseBytes c st buf).1, .done pkts) := by rw [← h]
  exact parseBytesF_all (fun _ _ _ _ _ hb => v9ParseBody_ok c ha _ _ _ _ _ hb)
    (fun _ _ _ _ _ hb => ipParseBody_ok c ha _ _ _ _ _ hb) _ _ _ _ _ this p hp

/-- the arm-table side condition holds for the generated table -/
theorem C01_generated_arms : dnArmsOk Generated.tables.dnArms = true := by decide

/-- **C01.4** for the generated tables -/
theorem C01_export_no_panic_generated (allowed : List Nat) (uf : Bool) (st : PState) (buf : Bytes)
    (pkts : List Packet)
    (h : (parseBytes { t := Generated.tables, allowed := allowed, unknownFields := uf } st buf).2 = .done pkts) :
    ∀ p ∈ pkts, exportPacket { t := Generated.tables, allowed := allowed, unknownFields := uf } p ≠ some .panic :=
  C01_export_no_panic _ C01_generated_arms st buf pkts h

/-- the value-level fact behind C01.4: a decoded `U24` is `< 2^24`, a decoded `I24` is in
    `[-2^23, 2^23)` -/
theorem C01_value_in_range (vc : ValueCfg) (ha : dnArmsOk vc.dnArms = true) (ty : FType) (len : Nat) (i r : Bytes)
    (v : FieldValue) (h : parseValue vc ty len i = some (v, r)) : ValueOk v ∧ v.toBE vc ≠ .panic :=
  ⟨parseValue_ok ha h, FieldValue.toBE_ne_panic vc (parseValue_ok ha h)⟩

/-- the side condition is needed: with an arm table that yields `U24` from a 4-byte field the
    exporter's range assertion fires (so `dnArmsOk` is not vacuous padding) -/
theorem C01_arms_condition_needed :
    ∃ d r, DataNumber.parse [((4, false), .u24)] 4 false [1, 0, 0, 0] = some (d, r) ∧ d.toBE = .panic :=
  ⟨_, _, rfl, by decide⟩

/-! ### 5. depth of the packet chain -/

/-- **C01.5** every element but the last consumed ≥ 2 bytes: `2·#packets ≤ |buf| + 1`. -/
theorem C01_depth_strong (c : Config) (st : PState) (buf : Bytes) (pkts : List Packet)
    (h : (parseBytes c st buf).2 = .done pkts) : 2 * pkts.length ≤ buf.length + 1 := by
  have : parseBytes c st buf = ((parseBytes c st buf).1, .done pkts) := by rw [← h]
  exact parseBytesF_count c _ _ _ _ _ this

/-- **C01.5** the number of packets returned — the depth the packet recursion of the Rust
    `parse_bytes` reached before it was turned into a loop — is at most `|buf|`. -/
theorem C01_depth (c : Config) (st : PState) (buf : Bytes) (pkts : List Packet)
    (h : (parseBytes c st buf).2 = .done pkts) : pkts.length ≤ buf.length := by
  have := C01_depth_strong c st buf pkts h
  cases buf with
  | nil => simp only [List.length_nil] at *; omega
  | cons b bs => simp only [List.length_cons] at *; omega

/-! ### 6. the IPFIX cache invariant that drives per-record progress -/

/- `CacheValid st` (Lemmas/A2State.lean): every cached IPFIX template / options template has a
   field of non-zero declared length:
   `(∀ e ∈ st.ipT, ipValid e.2.fields = true) ∧ (∀ e ∈ st.ipO, ipValid e.2.fields = true)` -/

theorem C01_cache_valid_empty : CacheValid {} := by
  constructor <;> intro e he <;> simp at he

/-- **C01.6** `CacheValid` is preserved by `parse_bytes` on arbitrary bytes (insertion is guarded
    by `is_valid`; V9 input does not touch the IPFIX maps). -/
theorem C01_ipfix_cache_valid (c : Config) (st : PState) (buf : Bytes) (h : CacheValid st) :
    CacheValid (parseBytes c st buf).1 := by
  refine parseBytes_inv (I := CacheValid) ?_ ?_ st buf h
  · intro st id b hI
    have : (v9ParseBody c st id b).1.ipT = st.ipT ∧ (v9ParseBody c st id b).1.ipO = st.ipO :=
      v9ParseBody_ip_frame c st id b
    unfold CacheValid
    rw [this.1, this.2]; exact hI
  · intro st id b hI
    exact ipParseBody_cache_valid c st id b hI

end Netflow.Props

/-! ### non-vacuity: concrete objects meeting the hypotheses of the theorems above -/
namespace Netflow.Props
open Netflow Preds

private def c01Cfg : Config := { t := Generated.tables, allowed := [5, 7, 9, 10] }

/-- a V9 packet: template 256 = one 3-byte unsigned field, then a data flowset with the extremal
    value 0xFFFFFF -/
private def c01V9 : Bytes :=
  [0,9, 0,2, 0,0,0,1, 0,0,0,2, 0,0,0,3, 0,0,0,4,   0,0, 0,12, 1,0, 0,1, 0,1, 0,3,   1,0, 0,8, 255,255,255, 0]

/-- the same as an IPFIX message -/
private def c01Ip : Bytes :=
  [0,10, 0,36, 0,0,0,1, 0,0,0,2, 0,0,0,3,   0,2, 0,12, 1,0, 0,1, 0,1, 0,3,   1,0, 0,8, 255,255,255, 0]

/-- hypotheses of `C01_export_no_panic` / `C01_depth` are met by a result that carries a `U24`
    (the only kind of value that could trip the exporter), at its maximum -/
example : (parseBytes c01Cfg {} c01V9).2 = .done [.v9 [9, 2, 1, 2, 3, 4]
      [{ id := 0, len := 12, body := .templates [{ id := 256, fieldCount := 1, fields := [{ typ := 1, len := 3 }] }] [] },
       { id := 256, len := 8, body := .data [[(0, 1, .num (.u24 16777215))]] [0] }]] := by decide

/-- ... and re-exporting such a packet yields `ok` bytes -/
example : exportPacket c01Cfg (.v9 [9, 2, 1, 2, 3, 4]
      [{ id := 256, len := 8, body := .data [[(0, 1, .num (.u24 16777215))]] [0] }]) =
    some (.ok [0,9, 0,2, 0,0,0,1, 0,0,0,2, 0,0,0,3, 0,0,0,4, 1,0, 0,8, 255,255,255, 0]) := by decide

/-- `C01_value_in_range`: a 3-byte signed field decodes to an in-range `I24` (here −1) -/
example : parseValue c01Cfg.vc .signed 3 [255, 255, 255, 7] = some (.num (.i24 (-1)), [7]) := by decide

/-- `C01_packet_progress`: a successfully parsed packet -/
example : (parsePacket c01Cfg {} [0, 5, 0, 0, 0, 0, 0, 1, 0, 0, 0, 2, 0, 0, 0, 3, 0, 0, 0, 4, 5, 6, 0, 7, 9]).2 =
    .ok (.v5 [5, 0, 1, 2, 3, 4, 5, 6, 7] []) [9] := by decide

/-- `C01_depth` is attained: one byte, one (error) element -/
example : (parseBytes c01Cfg {} [9]).2 = .done [.error .incomplete [9]] := by decide

/-- `C01_ipfix_cache_valid` on a non-empty cache: the state after the IPFIX message above holds
    template 256 and is valid -/
example : CacheValid (parseBytes c01Cfg {} c01Ip).1 ∧
    (parseBytes c01Cfg {} c01Ip).1.ipT = [(256, { id := 256, fieldCount := 1, fields := [{ typ := 1, len := 3, ent := none }], pad := [] })] :=
  ⟨C01_ipfix_cache_valid _ _ _ C01_cache_valid_empty, by decide⟩

/-- an all-zero-length template is NOT inserted (the guard that `CacheValid` records) -/
example : (parseBytes c01Cfg {} [0,10, 0,28, 0,0,0,1, 0,0,0,2, 0,0,0,3,   0,2, 0,12, 1,0, 0,1, 0,1, 0,0]).1 = {} := by decide

/-- **C01.G** (regenerated on every run) the only panicking encoders are the two byteorder 24-bit writers, exactly as the
    arms of `DataNumber::to_be_bytes` read from the source now say; every `From<DataNumber> for usize` arm is a plain cast. -/
theorem C01_number_export_arms_generated (d : DataNumber) :
    d.toBE = dnToBEBy Generated.dnExportArms d := G1.dnToBE_eq_generated d

theorem C01_usize_casts_generated : ∀ a : DnArm, a ∈ Generated.dnUsizeCasts := G1.dnUsize_all_casts

end Netflow.Props
