/-
  Props/C14b.lean — C14, header-announced form.

  Props/C14.lean assumes that the UN-truncated packet is accepted and cuts it.  The property's
  antecedent is weaker: the buffer "ends before the end announced by the packet's own header
  (V5/V7 count, IPFIX message length, V9 flowset length)".  Here nothing is assumed about a longer
  buffer: only the bytes that are present are looked at.

  `announcedShort v body` (Lemmas/P4Short.lean, decidable) is that antecedent for a packet of version
  `v` whose bytes after the version word are `body`.  `Tables.announceOk` (decidable, true of
  `Generated.tables`): the V9 / flowset / IPFIX header sizes and the offsets of `count` / `length`.

  Headlines: `C14_announced_short` (one packet: state unchanged, one error carrying the whole buffer),
  `C14_announced_short_after_chain` (after a chain of accepted packets), `C14_announced_short_v9_after`
  (V9, after `k` complete flowsets: the caches may have learnt their templates), and the corollaries
  for `Generated.tables`.  Per-version forms `C14_announced_short_v5 / _v7 / _ipfix / _v9`.

  Property theorems only; helper lemmas live in Lemmas/P4Short.lean.
-/
import NetflowModel.Lemmas.P4Short
import NetflowModel.Props.C03
import NetflowModel.Props.C06
import NetflowModel.Props.C14
namespace Netflow.Props
open Netflow Preds

/-! ### 1. one call of `parse_packet_by_version` -/

/-- **C14, header-announced, one packet, dispatcher level**: a buffer whose version word `v`
    (5, 7, 9 or 10, allowed and dispatched to its own parser) is followed by fewer bytes than its
    own header announces is rejected as `Partial` with its version and the bytes after the version
    word, and the template caches are unchanged — for V9 too, because the flowset that is short is
    the first one. -/
theorem C14_announced_short_step (c : Config) (hok : c.t.ciscoOk = true) (hao : c.t.announceOk = true)
    (st : PState) (buf body : Bytes) (v : Nat)
    (hv : beU 2 buf = some (v, body)) (ha : c.allowed.contains v = true) (hd : c.t.dispatch.lookup v = some v)
    (hs : announcedShort v body = true) :
    parsePacket c st buf = (st, .fail (.partialParse v body)) := by
  obtain ⟨hl2, _, hbody⟩ := beU_some hv
  have hlen : buf.length = body.length + 2 := by rw [hbody, List.length_drop]; omega
  rcases announcedShort_cases hs with ⟨rfl, h⟩ | ⟨rfl, h⟩ | ⟨rfl, h⟩ | ⟨rfl, h⟩
  · have := C03_short_v5 c hok st buf body hv ha hd (by rw [← hbody, hlen]; omega)
    rw [← hbody] at this
    exact this
  · have := C03_short_v7 c hok st buf body hv ha hd (by rw [← hbody, hlen]; omega)
    rw [← hbody] at this
    exact this
  · exact parsePacket_ipfix_short c hao st buf body hv ha hd (by omega)
  · rcases h with h | ⟨hc, h18, h⟩
    · exact parsePacket_v9_hdr_short c hao st buf body hv ha hd h
    · have hb : body = body.take 18 ++ ([] ++ body.drop 18) := by simp
      rw [hb] at hv
      have := parsePacket_v9_short_after c hao 0 st st buf (body.take 18) [] (body.drop 18) [] hv ha hd
        (by rw [List.length_take]; omega) rfl rfl
        (by rw [List.take_take]; exact hc)
        (by intro e; have := congrArg List.length e; simp at this; omega)
        (by rw [List.drop_drop, List.length_drop]
            rcases h with h | h
            · left; omega
            · right; omega)
      rw [← hb] at this
      exact this

/-! ### 2. `parse_bytes`: the short packet alone -/

/-- **C14, header-announced form**: a buffer that ends before the end announced by its own header
    (`announcedShort`) makes `parse_bytes` return exactly one element, an error whose kind is
    `Partial` with the packet's version and whose `remaining` is the WHOLE buffer; no flow record of
    the packet is reported and the template caches are unchanged. -/
theorem C14_announced_short (c : Config) (hok : c.t.ciscoOk = true) (hao : c.t.announceOk = true)
    (st : PState) (buf body : Bytes) (v : Nat)
    (hv : beU 2 buf = some (v, body)) (ha : c.allowed.contains v = true) (hd : c.t.dispatch.lookup v = some v)
    (hs : announcedShort v body = true) :
    parseBytes c st buf = (st, .done [.error (.partialParse v body) buf]) :=
  parseBytes_fail c (ne_nil_of_beU (by decide) hv) (C14_announced_short_step c hok hao st buf body v hv ha hd hs)

/-- **V5**: header complete (22 bytes after the version word) and fewer than `22 + 48 * count` bytes -/
theorem C14_announced_short_v5 (c : Config) (hok : c.t.ciscoOk = true) (st : PState) (buf body : Bytes)
    (hv : beU 2 buf = some (5, body)) (ha : c.allowed.contains 5 = true) (hd : c.t.dispatch.lookup 5 = some 5)
    (_hh : 22 ≤ body.length) (hs : body.length < 22 + 48 * beNat (body.take 2)) :
    parseBytes c st buf = (st, .done [.error (.partialParse 5 body) buf]) := by
  obtain ⟨hl2, _, hbody⟩ := beU_some hv
  have hlen : buf.length = body.length + 2 := by rw [hbody, List.length_drop]; omega
  have := C03_short_v5 c hok st buf body hv ha hd (by rw [← hbody, hlen]; omega)
  rw [← hbody] at this
  exact parseBytes_fail c (ne_nil_of_beU (by decide) hv) this

/-- **V5**, header itself incomplete -/
theorem C14_short_header_v5 (c : Config) (hok : c.t.ciscoOk = true) (st : PState) (buf body : Bytes)
    (hv : beU 2 buf = some (5, body)) (ha : c.allowed.contains 5 = true) (hd : c.t.dispatch.lookup 5 = some 5)
    (hs : body.length < 22) :
    parseBytes c st buf = (st, .done [.error (.partialParse 5 body) buf]) := by
  obtain ⟨hl2, _, hbody⟩ := beU_some hv
  have hlen : buf.length = body.length + 2 := by rw [hbody, List.length_drop]; omega
  have := C03_short_v5 c hok st buf body hv ha hd (by rw [hlen]; omega)
  rw [← hbody] at this
  exact parseBytes_fail c (ne_nil_of_beU (by decide) hv) this

/-- **V7**: header complete and fewer than `22 + 52 * count` bytes after the version word -/
theorem C14_announced_short_v7 (c : Config) (hok : c.t.ciscoOk = true) (st : PState) (buf body : Bytes)
    (hv : beU 2 buf = some (7, body)) (ha : c.allowed.contains 7 = true) (hd : c.t.dispatch.lookup 7 = some 7)
    (_hh : 22 ≤ body.length) (hs : body.length < 22 + 52 * beNat (body.take 2)) :
    parseBytes c st buf = (st, .done [.error (.partialParse 7 body) buf]) := by
  obtain ⟨hl2, _, hbody⟩ := beU_some hv
  have hlen : buf.length = body.length + 2 := by rw [hbody, List.length_drop]; omega
  have := C03_short_v7 c hok st buf body hv ha hd (by rw [← hbody, hlen]; omega)
  rw [← hbody] at this
  exact parseBytes_fail c (ne_nil_of_beU (by decide) hv) this

/-- **V7**, header itself incomplete -/
theorem C14_short_header_v7 (c : Config) (hok : c.t.ciscoOk = true) (st : PState) (buf body : Bytes)
    (hv : beU 2 buf = some (7, body)) (ha : c.allowed.contains 7 = true) (hd : c.t.dispatch.lookup 7 = some 7)
    (hs : body.length < 22) :
    parseBytes c st buf = (st, .done [.error (.partialParse 7 body) buf]) := by
  obtain ⟨hl2, _, hbody⟩ := beU_some hv
  have hlen : buf.length = body.length + 2 := by rw [hbody, List.length_drop]; omega
  have := C03_short_v7 c hok st buf body hv ha hd (by rw [hlen]; omega)
  rw [← hbody] at this
  exact parseBytes_fail c (ne_nil_of_beU (by decide) hv) this

/-- **IPFIX**: header complete (14 bytes after the version word) and the buffer is shorter than the
    message length (first word after the version, counted from the version word) -/
theorem C14_announced_short_ipfix (c : Config) (hao : c.t.announceOk = true) (st : PState) (buf body : Bytes)
    (hv : beU 2 buf = some (10, body)) (ha : c.allowed.contains 10 = true) (hd : c.t.dispatch.lookup 10 = some 10)
    (_hh : 14 ≤ body.length) (hs : buf.length < beNat (body.take 2)) :
    parseBytes c st buf = (st, .done [.error (.partialParse 10 body) buf]) := by
  obtain ⟨hl2, _, hbody⟩ := beU_some hv
  have hlen : buf.length = body.length + 2 := by rw [hbody, List.length_drop]; omega
  exact parseBytes_fail c (ne_nil_of_beU (by decide) hv)
    (parsePacket_ipfix_short c hao st buf body hv ha hd (by omega))

/-- **IPFIX**, header itself incomplete -/
theorem C14_short_header_ipfix (c : Config) (hao : c.t.announceOk = true) (st : PState) (buf body : Bytes)
    (hv : beU 2 buf = some (10, body)) (ha : c.allowed.contains 10 = true) (hd : c.t.dispatch.lookup 10 = some 10)
    (hs : body.length < 14) :
    parseBytes c st buf = (st, .done [.error (.partialParse 10 body) buf]) :=
  parseBytes_fail c (ne_nil_of_beU (by decide) hv) (parsePacket_ipfix_short c hao st buf body hv ha hd (Or.inl hs))

/-- **IPFIX**, the hypothesis of `C06_ipfix_short_is_err` lifted to `parse_bytes` (needs `framingOk`
    only: the announced length is read off the decoded header instead of the raw bytes) -/
theorem C14_announced_short_ipfix_decoded (c : Config) (hf : c.t.framingOk = true) (st : PState) (buf body : Bytes)
    (hv : beU 2 buf = some (10, body)) (ha : c.allowed.contains 10 = true) (hd : c.t.dispatch.lookup 10 = some 10)
    (hs : body.length < 14 ∨ ∃ h r, parseLayout c.t.protoFromU8 c.t.ipHdr body = some (h, r) ∧
            r.length < c.t.ipHdr.get "length" h - 16) :
    parseBytes c st buf = (st, .done [.error (.partialParse 10 body) buf]) := by
  refine parseBytes_fail c (ne_nil_of_beU (by decide) hv) ?_
  rw [parsePacket_dispatch c st hv ha hd, parseVersioned_10, C06_ipfix_short_is_err c hf st body hs]
  rfl

/-- **V9, first flowset**: header complete (18 bytes after the version word), `count ≥ 1`, the first
    flowset's header is present and its `length - 4` exceeds the bytes that follow it: one error
    carrying the whole buffer, caches unchanged -/
theorem C14_announced_short_v9 (c : Config) (hok : c.t.ciscoOk = true) (hao : c.t.announceOk = true)
    (st : PState) (buf body : Bytes)
    (hv : beU 2 buf = some (9, body)) (ha : c.allowed.contains 9 = true) (hd : c.t.dispatch.lookup 9 = some 9)
    (hc : 1 ≤ beNat (body.take 2)) (hh : 22 ≤ body.length)
    (hs : body.length - 22 < beNat ((body.drop 20).take 2) - 4) :
    parseBytes c st buf = (st, .done [.error (.partialParse 9 body) buf]) :=
  C14_announced_short c hok hao st buf body 9 hv ha hd
    (by simp only [announcedShort, Bool.or_eq_true, Bool.and_eq_true, decide_eq_true_eq, beq_iff_eq]
        refine Or.inr ⟨trivial, ?_⟩
        omega)

/-- **V9**, packet header incomplete, or `count ≥ 1` and the first flowset's 4-byte header incomplete -/
theorem C14_short_header_v9 (c : Config) (hok : c.t.ciscoOk = true) (hao : c.t.announceOk = true)
    (st : PState) (buf body : Bytes)
    (hv : beU 2 buf = some (9, body)) (ha : c.allowed.contains 9 = true) (hd : c.t.dispatch.lookup 9 = some 9)
    (hs : body.length < 18 ∨ (1 ≤ beNat (body.take 2) ∧ 18 < body.length ∧ body.length < 22)) :
    parseBytes c st buf = (st, .done [.error (.partialParse 9 body) buf]) :=
  C14_announced_short c hok hao st buf body 9 hv ha hd
    (by simp only [announcedShort, Bool.or_eq_true, Bool.and_eq_true, decide_eq_true_eq, beq_iff_eq]
        refine Or.inr ⟨trivial, ?_⟩
        omega)

/-! ### 3. V9 after `k` complete flowsets -/

/-- **C14, V9, general form**: the packet is `version 9 ++ hb ++ i1 ++ i2` with `hb` the 18 header
    bytes, `i1` exactly `k` complete flowsets (the flowset loop decodes `k` flowsets from `i1` in `k`
    iterations and leaves nothing) with `k` below the header count, and `i2` a non-empty rest whose
    flowset header is incomplete or announces (`length - 4`) more than what follows it.  Then
    `parse_bytes` returns one error whose `remaining` is the WHOLE packet — none of the `k` decoded
    flowsets is reported — but the parser state is `st1`, the state after those `k` flowsets: the
    caches HAVE learnt their templates (`C14_v9_after_state_changes` below shows `st1 ≠ st` happens). -/
theorem C14_announced_short_v9_after (c : Config) (hao : c.t.announceOk = true) (k : Nat) (st st1 : PState)
    (buf hb i1 i2 : Bytes) (ss : List V9Set)
    (hv : beU 2 buf = some (9, hb ++ (i1 ++ i2))) (ha : c.allowed.contains 9 = true)
    (hd : c.t.dispatch.lookup 9 = some 9) (hhb : hb.length = 18)
    (h1 : v9ParseSets c k st i1 = (st1, .ok (ss, []))) (hl : ss.length = k) (hk : k < beNat (hb.take 2))
    (hne : i2 ≠ []) (hs : i2.length < 4 ∨ i2.length - 4 < beNat ((i2.drop 2).take 2) - 4) :
    parseBytes c st buf = (st1, .done [.error (.partialParse 9 (hb ++ (i1 ++ i2))) buf]) :=
  parseBytes_fail c (ne_nil_of_beU (by decide) hv)
    (parsePacket_v9_short_after c hao k st st1 buf hb i1 i2 ss hv ha hd hhb h1 hl hk hne hs)

/-! ### 4. after a chain of accepted packets -/

/-- **prefix form, generic**: a chain `qs` of accepted (self-delimiting) packets followed by a buffer
    `p` that `parse_packet_by_version` rejects in the state reached after the chain: the result is the
    chain's packets (what one call per packet returns) followed by ONE error whose `remaining` is
    exactly `p` -/
theorem C14_rejected_after_chain (c : Config) (hf : c.t.framingOk = true) (st : PState) (qs : List Bytes)
    (hq : chainOk c st qs = true) (p : Bytes) (st2 : PState) (e : ErrKind) (hne : p ≠ [])
    (hp : parsePacket c (foldCalls c st qs).1 p = (st2, .fail e)) :
    parseBytes c st (qs.flatten ++ p) = (st2, .done ((foldCalls c st qs).2 ++ [.error e p])) :=
  parseBytes_short_after_chain c hf st qs hq hne hp

/-- **C14, header-announced, prefix form**: a chain `qs` of accepted packets followed by a packet `p`
    that ends before the end its own header announces: `parse_bytes` returns the packets of the chain,
    then — as last element — the error `Partial(v, bytes after the version word)` whose `remaining`
    is exactly `p`; the state is the one reached after the chain. -/
theorem C14_announced_short_after_chain (c : Config) (hf : c.t.framingOk = true) (hok : c.t.ciscoOk = true)
    (hao : c.t.announceOk = true) (st : PState) (qs : List Bytes) (hq : chainOk c st qs = true)
    (p body : Bytes) (v : Nat)
    (hv : beU 2 p = some (v, body)) (ha : c.allowed.contains v = true) (hd : c.t.dispatch.lookup v = some v)
    (hs : announcedShort v body = true) :
    parseBytes c st (qs.flatten ++ p) =
      ((foldCalls c st qs).1, .done ((foldCalls c st qs).2 ++ [.error (.partialParse v body) p])) :=
  parseBytes_short_after_chain c hf st qs hq (ne_nil_of_beU (by decide) hv)
    (C14_announced_short_step c hok hao _ p body v hv ha hd hs)

/-- the same with the chain's result named, in the shape of `C14_truncated` -/
theorem C14_announced_short_after_chain' (c : Config) (hf : c.t.framingOk = true) (hok : c.t.ciscoOk = true)
    (hao : c.t.announceOk = true) (st st1 : PState) (qs : List Bytes) (out : List Packet)
    (hq : chainOk c st qs = true) (hpre : parseBytes c st qs.flatten = (st1, .done out))
    (p body : Bytes) (v : Nat)
    (hv : beU 2 p = some (v, body)) (ha : c.allowed.contains v = true) (hd : c.t.dispatch.lookup v = some v)
    (hs : announcedShort v body = true) :
    parseBytes c st (qs.flatten ++ p) = (st1, .done (out ++ [.error (.partialParse v body) p])) := by
  have hc := C11_chain c hf st qs hq
  rw [hpre] at hc
  simp only [Prod.mk.injEq, Outcome.done.injEq] at hc
  obtain ⟨e1, e2⟩ := hc
  rw [C14_announced_short_after_chain c hf hok hao st qs hq p body v hv ha hd hs, ← e1, ← e2]

/-- **prefix form, V9 after `k` complete flowsets**: chain, then a V9 packet whose `(k+1)`-th flowset
    is short: the chain's packets, then one error carrying the whole V9 packet; the state is the one
    after the chain AND the `k` flowsets -/
theorem C14_announced_short_v9_after_chain (c : Config) (hf : c.t.framingOk = true) (hao : c.t.announceOk = true)
    (k : Nat) (st st1 : PState) (qs : List Bytes) (hq : chainOk c st qs = true)
    (p hb i1 i2 : Bytes) (ss : List V9Set)
    (hv : beU 2 p = some (9, hb ++ (i1 ++ i2))) (ha : c.allowed.contains 9 = true)
    (hd : c.t.dispatch.lookup 9 = some 9) (hhb : hb.length = 18)
    (h1 : v9ParseSets c k (foldCalls c st qs).1 i1 = (st1, .ok (ss, []))) (hl : ss.length = k)
    (hk : k < beNat (hb.take 2))
    (hne : i2 ≠ []) (hs : i2.length < 4 ∨ i2.length - 4 < beNat ((i2.drop 2).take 2) - 4) :
    parseBytes c st (qs.flatten ++ p) =
      (st1, .done ((foldCalls c st qs).2 ++ [.error (.partialParse 9 (hb ++ (i1 ++ i2))) p])) :=
  parseBytes_short_after_chain c hf st qs hq (ne_nil_of_beU (by decide) hv)
    (parsePacket_v9_short_after c hao k _ st1 p hb i1 i2 ss hv ha hd hhb h1 hl hk hne hs)

/-! ### 5. the tables generated from the Rust source -/

/-- the header facts hold for the generated layouts: V9 header 18 bytes with `count` first, flowset
    header 4 bytes with `length` second, IPFIX header 14 bytes with `length` first -/
theorem C14_generated_announceOk : Generated.tables.announceOk = true := by decide

theorem C14_generated_dispatch (v : Nat) (hv : v ∈ [5, 7, 9, 10]) : Generated.tables.dispatch.lookup v = some v := by
  simp only [List.mem_cons, List.not_mem_nil, or_false] at hv
  rcases hv with rfl | rfl | rfl | rfl <;> decide

/-- **C14, header-announced form, generated tables**: every allowed set containing the version,
    every cache state, every buffer -/
theorem C14_announced_short_generated (allowed : List Nat) (uf : Bool) (st : PState) (buf body : Bytes) (v : Nat)
    (hv : beU 2 buf = some (v, body)) (h4 : v ∈ [5, 7, 9, 10]) (ha : v ∈ allowed)
    (hs : announcedShort v body = true) :
    parseBytes { t := Generated.tables, allowed := allowed, unknownFields := uf } st buf =
      (st, .done [.error (.partialParse v body) buf]) :=
  C14_announced_short _ C03_generated_ciscoOk C14_generated_announceOk st buf body v hv
    (by simpa using ha) (C14_generated_dispatch v h4) hs

/-- **prefix form, generated tables** -/
theorem C14_announced_short_after_chain_generated (allowed : List Nat) (uf : Bool) (st : PState) (qs : List Bytes)
    (p body : Bytes) (v : Nat) :
    let c : Config := { t := Generated.tables, allowed := allowed, unknownFields := uf }
    chainOk c st qs = true → beU 2 p = some (v, body) → v ∈ [5, 7, 9, 10] → v ∈ allowed →
    announcedShort v body = true →
    parseBytes c st (qs.flatten ++ p) =
      ((foldCalls c st qs).1, .done ((foldCalls c st qs).2 ++ [.error (.partialParse v body) p])) := by
  intro c hq hv h4 ha hs
  exact C14_announced_short_after_chain c C02_generated_framing C03_generated_ciscoOk C14_generated_announceOk
    st qs hq p body v hv (by simpa [c] using ha) (C14_generated_dispatch v h4) hs

/-- **V9 after `k` complete flowsets, generated tables** (alone and after a chain) -/
theorem C14_announced_short_v9_after_generated (allowed : List Nat) (uf : Bool) (k : Nat) (st st1 : PState)
    (qs : List Bytes) (p hb i1 i2 : Bytes) (ss : List V9Set) :
    let c : Config := { t := Generated.tables, allowed := allowed, unknownFields := uf }
    chainOk c st qs = true → beU 2 p = some (9, hb ++ (i1 ++ i2)) → 9 ∈ allowed → hb.length = 18 →
    v9ParseSets c k (foldCalls c st qs).1 i1 = (st1, .ok (ss, [])) → ss.length = k → k < beNat (hb.take 2) →
    i2 ≠ [] → (i2.length < 4 ∨ i2.length - 4 < beNat ((i2.drop 2).take 2) - 4) →
    parseBytes c st (qs.flatten ++ p) =
      (st1, .done ((foldCalls c st qs).2 ++ [.error (.partialParse 9 (hb ++ (i1 ++ i2))) p])) := by
  intro c hq hv ha hhb h1 hl hk hne hs
  exact C14_announced_short_v9_after_chain c C02_generated_framing C14_generated_announceOk k st st1 qs hq
    p hb i1 i2 ss hv (by simpa [c] using ha) (C14_generated_dispatch 9 (by decide)) hhb h1 hl hk hne hs

/-! ### 6. what is NOT covered, and why -/

/-- the V9 antecedent read as "fewer flowsets than the header count announces" (instead of "a
    flowset shorter than its own length field"): a V9 buffer whose header announces `count ≥ 1`
    flowsets and that ends right after the header -/
def C14_v9_countShort : Prop :=
  ∀ (c : Config) (st : PState) (buf body : Bytes), c.t.framingOk = true → c.t.announceOk = true →
    beU 2 buf = some (9, body) → c.allowed.contains 9 = true → c.t.dispatch.lookup 9 = some 9 →
    body.length = 18 → 1 ≤ beNat (body.take 2) →
    ∃ st2, parseBytes c st buf = (st2, .done [.error (.partialParse 9 body) buf])

/-- … is accepted as a V9 packet with no flowsets (the flowset loop skips iterations on empty
    input): the header count is not an announced END of the packet for this crate, which is why the
    V9 clause of `announcedShort` asks for a short FLOWSET (as the property text does) -/
theorem C14_v9_countShort_fails : ¬ C14_v9_countShort := by
  intro h
  obtain ⟨st2, h1⟩ := h { t := Generated.tables, allowed := [9] } {}
    [0, 9, 0, 3, 0, 0, 0, 1, 0, 0, 0, 2, 0, 0, 0, 3, 0, 0, 0, 4]
    [0, 3, 0, 0, 0, 1, 0, 0, 0, 2, 0, 0, 0, 3, 0, 0, 0, 4]
    (by decide) (by decide) (by decide) (by decide) (by decide) (by decide) (by decide)
  have h2 : parseBytes { t := Generated.tables, allowed := [9] } {}
      [0, 9, 0, 3, 0, 0, 0, 1, 0, 0, 0, 2, 0, 0, 0, 3, 0, 0, 0, 4] = ({}, .done [.v9 [9, 3, 1, 2, 3, 4] []]) := by
    decide +kernel
  rw [h2] at h1
  simp at h1

/-! ### 7. non-vacuity: a concrete buffer for every theorem -/

open C11ex

namespace C14bex
/-- V5 header announcing 2 records, one record present -/
def v5short : Bytes := [0,5, 0,2, 0,0,0,1, 0,0,0,2, 0,0,0,3, 0,0,0,4, 5,6, 0,7] ++ List.replicate 48 1
/-- V7 header announcing 1 record, 51 of its 52 bytes present -/
def v7short : Bytes := [0,7, 0,1, 0,0,0,1, 0,0,0,2, 0,0,0,3, 0,0,0,4, 0,0,0,0] ++ List.replicate 51 1
/-- IPFIX message of announced length 28, 24 bytes present -/
def ipShort : Bytes := [0,10, 0,28, 0,0,0,2, 0,0,0,2, 0,0,0,1,  1,0, 0,12, 10,0,0,1]
/-- V9, count 1, first flowset announces 16 bytes, 8 present -/
def v9short : Bytes := [0,9, 0,1, 0,0,0,1, 0,0,0,2, 0,0,0,3, 0,0,0,4,  0,0, 0,16, 1,0, 0,2]
/-- V9, count 2: a complete template flowset, then a data flowset announcing 12 bytes with 6 present -/
def v9short2 : Bytes := [0,9, 0,2, 0,0,0,1, 0,0,0,2, 0,0,0,3, 0,0,0,4,  0,0, 0,16, 1,0, 0,2, 0,8,0,4, 0,12,0,4,
  1,0, 0,12, 10,0]
def tmpl : V9Template := { id := 256, fieldCount := 2, fields := [{ typ := 8, len := 4 }, { typ := 12, len := 4 }] }
end C14bex
open C14bex

/-- `C14_announced_short_v5`: 72 bytes present, 24 + 2·48 = 120 announced -/
example : parseBytes cfg {} v5short = ({}, .done [.error (.partialParse 5 (v5short.drop 2)) v5short]) :=
  C14_announced_short_v5 cfg (by decide) {} v5short (v5short.drop 2) (by decide +kernel) (by decide) (by decide)
    (by decide) (by decide +kernel)

/-- `C14_short_header_v5`: 10 bytes -/
example : parseBytes cfg {} (v5short.take 10) =
    ({}, .done [.error (.partialParse 5 ((v5short.take 10).drop 2)) (v5short.take 10)]) :=
  C14_short_header_v5 cfg (by decide) {} _ _ (by decide +kernel) (by decide) (by decide) (by decide)

/-- `C14_announced_short_v7` -/
example : parseBytes cfg {} v7short = ({}, .done [.error (.partialParse 7 (v7short.drop 2)) v7short]) :=
  C14_announced_short_v7 cfg (by decide) {} v7short (v7short.drop 2) (by decide +kernel) (by decide) (by decide)
    (by decide) (by decide +kernel)

/-- `C14_short_header_v7`: 23 bytes -/
example : parseBytes cfg {} (v7short.take 23) =
    ({}, .done [.error (.partialParse 7 ((v7short.take 23).drop 2)) (v7short.take 23)]) :=
  C14_short_header_v7 cfg (by decide) {} _ _ (by decide +kernel) (by decide) (by decide) (by decide)

/-- `C14_announced_short_ipfix`: 24 < 28 -/
example : parseBytes cfg {} ipShort = ({}, .done [.error (.partialParse 10 (ipShort.drop 2)) ipShort]) :=
  C14_announced_short_ipfix cfg (by decide) {} ipShort (ipShort.drop 2) (by decide) (by decide) (by decide)
    (by decide) (by decide)

/-- `C14_short_header_ipfix`: 9 bytes -/
example : parseBytes cfg {} (ipShort.take 9) =
    ({}, .done [.error (.partialParse 10 ((ipShort.take 9).drop 2)) (ipShort.take 9)]) :=
  C14_short_header_ipfix cfg (by decide) {} _ _ (by decide) (by decide) (by decide) (by decide)

/-- `C14_announced_short_ipfix_decoded`: the decoded header says 28, 8 bytes follow it -/
example : parseBytes cfg {} ipShort = ({}, .done [.error (.partialParse 10 (ipShort.drop 2)) ipShort]) :=
  C14_announced_short_ipfix_decoded cfg (by decide) {} ipShort (ipShort.drop 2) (by decide) (by decide) (by decide)
    (Or.inr ⟨[10, 28, 2, 2, 1], [1,0, 0,12, 10,0,0,1], by decide, by decide⟩)

/-- `C14_announced_short_v9`: 4 bytes follow the flowset header, 12 announced -/
example : parseBytes cfg {} v9short = ({}, .done [.error (.partialParse 9 (v9short.drop 2)) v9short]) :=
  C14_announced_short_v9 cfg (by decide) (by decide) {} v9short (v9short.drop 2) (by decide) (by decide) (by decide)
    (by decide) (by decide) (by decide)

/-- `C14_short_header_v9`: 22 bytes = header and half a flowset header -/
example : parseBytes cfg {} (v9short.take 22) =
    ({}, .done [.error (.partialParse 9 ((v9short.take 22).drop 2)) (v9short.take 22)]) :=
  C14_short_header_v9 cfg (by decide) (by decide) {} _ _ (by decide) (by decide) (by decide)
    (Or.inr (by decide))

/-- `C14_announced_short` / `announcedShort` on all five buffers -/
example : announcedShort 5 (v5short.drop 2) = true ∧ announcedShort 7 (v7short.drop 2) = true ∧
    announcedShort 10 (ipShort.drop 2) = true ∧ announcedShort 9 (v9short.drop 2) = true ∧
    announcedShort 9 (v9short2.drop 2) = false := by
  refine ⟨by decide +kernel, by decide +kernel, by decide, by decide, by decide⟩

/-- `C14_announced_short_v9_after` with `k = 1`: the template flowset is complete, the data flowset
    is short; one error carrying all 42 bytes, and the state returned has learnt template 256 -/
example : parseBytes cfg {} v9short2 =
    ({ v9T := [(256, tmpl)] }, .done [.error (.partialParse 9 (v9short2.drop 2)) v9short2]) :=
  C14_announced_short_v9_after cfg (by decide) 1 {} { v9T := [(256, tmpl)] } v9short2
    [0,2, 0,0,0,1, 0,0,0,2, 0,0,0,3, 0,0,0,4] [0,0, 0,16, 1,0, 0,2, 0,8,0,4, 0,12,0,4] [1,0, 0,12, 10,0]
    [{ id := 0, len := 16, body := .templates [tmpl] [] }]
    (by decide) (by decide) (by decide) (by decide) (by decide +kernel) (by decide) (by decide) (by decide)
    (Or.inr (by decide))

/-- the state after a short V9 packet can differ from the state before (the template of the complete
    first flowset is cached although the packet is reported as an error) -/
theorem C14_v9_after_state_changes : (parseBytes cfg {} v9short2).1 ≠ {} := by decide +kernel

/-- `C14_announced_short_after_chain`: chain `[V5, IPFIX template]`, then the short IPFIX data message -/
example : parseBytes cfg {} ([v5p, ipT].flatten ++ ipShort) =
    ((foldCalls cfg {} [v5p, ipT]).1,
     .done ((foldCalls cfg {} [v5p, ipT]).2 ++ [.error (.partialParse 10 (ipShort.drop 2)) ipShort])) :=
  C14_announced_short_after_chain cfg (by decide) (by decide) (by decide) {} [v5p, ipT] (by decide +kernel)
    ipShort (ipShort.drop 2) 10 (by decide) (by decide) (by decide) (by decide)

/-- … the two packets of the chain really are reported before the error -/
example : ((foldCalls cfg {} [v5p, ipT]).2).length = 2 := by decide +kernel

/-- `C14_announced_short_after_chain'` -/
example : parseBytes cfg {} ([v5p, ipT].flatten ++ v5short) =
    ((parseBytes cfg {} [v5p, ipT].flatten).1,
     .done ((parseBytes cfg {} [v5p, ipT].flatten).2.pkts ++ [.error (.partialParse 5 (v5short.drop 2)) v5short])) :=
  C14_announced_short_after_chain' cfg (by decide) (by decide) (by decide) {} _ [v5p, ipT] _ (by decide +kernel)
    (by decide +kernel) v5short (v5short.drop 2) 5 (by decide +kernel) (by decide) (by decide) (by decide +kernel)

/-- `C14_announced_short_v9_after_chain`: chain `[V5]`, then the V9 packet whose second flowset is short -/
example : parseBytes cfg {} ([v5p].flatten ++ v9short2) =
    ({ v9T := [(256, tmpl)] },
     .done ((foldCalls cfg {} [v5p]).2 ++ [.error (.partialParse 9 (v9short2.drop 2)) v9short2])) :=
  C14_announced_short_v9_after_chain cfg (by decide) (by decide) 1 {} { v9T := [(256, tmpl)] } [v5p] (by decide +kernel)
    v9short2 [0,2, 0,0,0,1, 0,0,0,2, 0,0,0,3, 0,0,0,4] [0,0, 0,16, 1,0, 0,2, 0,8,0,4, 0,12,0,4] [1,0, 0,12, 10,0]
    [{ id := 0, len := 16, body := .templates [tmpl] [] }]
    (by decide) (by decide) (by decide) (by decide) (by decide +kernel) (by decide) (by decide) (by decide)
    (Or.inr (by decide))

/-- `C14_rejected_after_chain` with a rejected buffer of another kind (a lone byte: `Incomplete`) -/
example : parseBytes cfg {} ([v5p].flatten ++ [0]) =
    ((foldCalls cfg {} [v5p]).1, .done ((foldCalls cfg {} [v5p]).2 ++ [.error .incomplete [0]])) :=
  C14_rejected_after_chain cfg (by decide) {} [v5p] (by decide +kernel) [0] _ .incomplete (by decide) (by decide +kernel)

/-- the generated-tables corollaries, instantiated -/
example : parseBytes { t := Generated.tables, allowed := [9, 10], unknownFields := false } {} v9short =
    ({}, .done [.error (.partialParse 9 (v9short.drop 2)) v9short]) :=
  C14_announced_short_generated [9, 10] false {} v9short (v9short.drop 2) 9 (by decide) (by decide) (by decide) (by decide)

end Netflow.Props
