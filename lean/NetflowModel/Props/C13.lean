/-
  Props/C13.lean — C13: the common-flow view (`as_netflow_common`,
  `parse_bytes_as_netflow_common_flowsets`) as a projection of what was decoded.
  Holds for V5/V7 except for the protocol NAME of numbers 0, 1, 144, 255; for V9 the shape (version,
  timestamp, one flow per data record in order) holds and every attribute agrees with the decoded
  field whenever that field was decoded as the kind the converter accepts — which the parser's own
  output violates for PROTOCOL and FIRST/LAST_SWITCHED (`…_fails`); for IPFIX version/timestamp hold
  but there is one "flow" per FIELD (`…_fails`).  The flattening helper is the in-order concatenation.
-/
import NetflowModel.Lemmas.A4Common
import NetflowModel.Generated
import NetflowModel.Lemmas.G1Arms
namespace Netflow.Props
open Netflow Preds

/-! ### errors, flattening -/

/-- **C13, errors**: an error element converts to an error -/
theorem C13_errors (c : Config) (k : ErrKind) (r : Bytes) : toCommon c (.error k r) = none := rfl

/-- conversely only error elements convert to an error -/
theorem C13_errors_only (c : Config) (p : Packet) (h : toCommon c p = none) : ∃ k r, p = .error k r := by
  cases p <;> simp [toCommon] at h
  exact ⟨_, _, rfl⟩

/-- **C13, helper**: `parse_bytes_as_netflow_common_flowsets` is the in-order concatenation of the
    flows of the common views of all non-error packets -/
theorem C13_flat (c : Config) (pkts : List Packet) :
    commonFlat c pkts = (pkts.filterMap (toCommon c)).flatMap (·.flows) := by
  induction pkts with
  | nil => rfl
  | cons p ps ih =>
    unfold commonFlat at ih ⊢
    rw [List.flatMap_cons, ih]
    cases h : toCommon c p with
    | none => simp [h]
    | some cm => simp [h]

/-! ### V5 / V7 -/

/-- **C13, V5**, unconditional part: a V5 packet returned by the parser converts to version 5, its
    `sys_up_time`, and one flow per record in order; each flow equals the specified flow in every
    attribute except that the protocol name is `From<u8>` of the protocol number (a byte). -/
theorem C13_fixed_v5 (c : Config) (hl : c.t.commonLayoutOk = true) (names : List (Nat × String))
    (st st' : PState) (buf : Bytes) (h : List Nat) (rs : List (List Nat)) (rest : Bytes)
    (hp : parsePacket c st buf = (st', .ok (.v5 h rs) rest)) :
    toCommon c (.v5 h rs) = some
      { version := 5, timestamp := c.t.v5Hdr.get "sys_up_time" h,
        flows := rs.map fun r => { specFixedFlow names c.t.v5Rec r with
                                   protoType := some (c.t.protoFromU8 (c.t.v5Rec.get "protocol_number" r)) } } ∧
    ∀ r ∈ rs, c.t.v5Rec.get "protocol_number" r < 256 := by
  simp only [Tables.commonLayoutOk, Bool.and_eq_true, beq_iff_eq] at hl
  obtain ⟨⟨⟨⟨⟨⟨⟨h5, h7⟩, h9⟩, h10⟩, r5⟩, r7⟩, t9⟩, t10⟩ := hl
  cases parsePacket_origin _ _ _ _ _ _ hp with
  | v5 _ _ i r hf =>
    obtain ⟨⟨r1, hh⟩, hrs⟩ := parseFixed_parts _ _ _ _ _ _ _ hf
    refine ⟨?_, ?_⟩
    · simp only [toCommon, parseLayout_const hh h5, Option.some.injEq, Common.mk.injEq, true_and]
      apply List.map_congr_left
      intro x hx
      obtain ⟨i', r', hx'⟩ := hrs x hx
      exact (commonOfFixed_eq _ names _ r5 _ _ _ hx').1
    · intro x hx
      obtain ⟨i', r', hx'⟩ := hrs x hx
      exact (commonOfFixed_eq _ names _ r5 _ _ _ hx').2

/-- **C13, V7**, unconditional part (as for V5) -/
theorem C13_fixed_v7 (c : Config) (hl : c.t.commonLayoutOk = true) (names : List (Nat × String))
    (st st' : PState) (buf : Bytes) (h : List Nat) (rs : List (List Nat)) (rest : Bytes)
    (hp : parsePacket c st buf = (st', .ok (.v7 h rs) rest)) :
    toCommon c (.v7 h rs) = some
      { version := 7, timestamp := c.t.v7Hdr.get "sys_up_time" h,
        flows := rs.map fun r => { specFixedFlow names c.t.v7Rec r with
                                   protoType := some (c.t.protoFromU8 (c.t.v7Rec.get "protocol_number" r)) } } ∧
    ∀ r ∈ rs, c.t.v7Rec.get "protocol_number" r < 256 := by
  simp only [Tables.commonLayoutOk, Bool.and_eq_true, beq_iff_eq] at hl
  obtain ⟨⟨⟨⟨⟨⟨⟨h5, h7⟩, h9⟩, h10⟩, r5⟩, r7⟩, t9⟩, t10⟩ := hl
  cases parsePacket_origin _ _ _ _ _ _ hp with
  | v7 _ _ i r hf =>
    obtain ⟨⟨r1, hh⟩, hrs⟩ := parseFixed_parts _ _ _ _ _ _ _ hf
    refine ⟨?_, ?_⟩
    · simp only [toCommon, parseLayout_const hh h7, Option.some.injEq, Common.mk.injEq, true_and]
      apply List.map_congr_left
      intro x hx
      obtain ⟨i', r', hx'⟩ := hrs x hx
      exact (commonOfFixed_eq _ names _ r7 _ _ _ hx').1
    · intro x hx
      obtain ⟨i', r', hx'⟩ := hrs x hx
      exact (commonOfFixed_eq _ names _ r7 _ _ _ hx').2

/-- **C13, V5** — PARTIAL: the full equality with the specified view needs that no record carries
    protocol number 0, 1, 144 or 255, for which `From<u8> for ProtocolTypes` does not yield the IANA
    name (`C13_fixed_fails`). -/
theorem C13_fixed_v5_partial (c : Config) (hl : c.t.commonLayoutOk = true) (names : List (Nat × String))
    (ht : ProtoTableOk c.t names)
    (st st' : PState) (buf : Bytes) (h : List Nat) (rs : List (List Nat)) (rest : Bytes)
    (hp : parsePacket c st buf = (st', .ok (.v5 h rs) rest))
    (hgood : ∀ r ∈ rs, c.t.v5Rec.get "protocol_number" r ∉ badProtos) :
    toCommon c (.v5 h rs) = specCommon c names (.v5 h rs) := by
  obtain ⟨e, hlt⟩ := C13_fixed_v5 c hl names st st' buf h rs rest hp
  rw [e]
  simp only [specCommon, Option.some.injEq, Common.mk.injEq, true_and]
  apply List.map_congr_left
  intro r hr
  rw [ht _ (hlt r hr) (hgood r hr)]
  rfl

/-- **C13, V7** — PARTIAL: as `C13_fixed_v5_partial`. -/
theorem C13_fixed_v7_partial (c : Config) (hl : c.t.commonLayoutOk = true) (names : List (Nat × String))
    (ht : ProtoTableOk c.t names)
    (st st' : PState) (buf : Bytes) (h : List Nat) (rs : List (List Nat)) (rest : Bytes)
    (hp : parsePacket c st buf = (st', .ok (.v7 h rs) rest))
    (hgood : ∀ r ∈ rs, c.t.v7Rec.get "protocol_number" r ∉ badProtos) :
    toCommon c (.v7 h rs) = specCommon c names (.v7 h rs) := by
  obtain ⟨e, hlt⟩ := C13_fixed_v7 c hl names st st' buf h rs rest hp
  rw [e]
  simp only [specCommon, Option.some.injEq, Common.mk.injEq, true_and]
  apply List.map_congr_left
  intro r hr
  rw [ht _ (hlt r hr) (hgood r hr)]
  rfl

/-! ### V9 / IPFIX records -/

/-- **C13, one template-described record** — PARTIAL (needs: no projected key twice; for the
    conditional attributes, the decoded value has the kind the converter accepts).  Every attribute of
    the common flow equals the corresponding decoded field:
    addresses (IPv4 before IPv6) and MACs always; ports when the field is absent or a `U16`; protocol
    number when absent or a `U8`; first/last seen when absent or a `U32`; the protocol name when the
    number is a `U8` byte off `badProtos`. -/
theorem C13_rec_partial (t : Tables) (names : List (Nat × String)) (k : CommonKeys) (r : Rec)
    (hd : dupKeys k r = false) :
    let cf := commonOfRec t.protoFromU8 k r
    let sf := specFlow t names k r
    cf.srcAddr = sf.srcAddr ∧ cf.dstAddr = sf.dstAddr ∧ cf.srcMac = sf.srcMac ∧ cf.dstMac = sf.dstMac ∧
    ((firstField r k.sport).all isU16 = true → cf.srcPort = sf.srcPort) ∧
    ((firstField r k.dport).all isU16 = true → cf.dstPort = sf.dstPort) ∧
    ((firstField r k.proto).all isU8 = true → cf.protoNum = sf.protoNum) ∧
    ((firstField r k.first).all isU32 = true → cf.first = sf.first) ∧
    ((firstField r k.last).all isU32 = true → cf.last = sf.last) ∧
    ((firstField r k.proto).all isU8 = true → protoGood k r = true → ProtoTableOk t names → cf.protoType = sf.protoType) := by
  have hk := dupKeys_false hd
  have e1 := recGet_eq_firstField r k.src4 (hk _ (by simp))
  have e2 := recGet_eq_firstField r k.src6 (hk _ (by simp))
  have e3 := recGet_eq_firstField r k.dst4 (hk _ (by simp))
  have e4 := recGet_eq_firstField r k.dst6 (hk _ (by simp))
  have e5 := recGet_eq_firstField r k.sport (hk _ (by simp))
  have e6 := recGet_eq_firstField r k.dport (hk _ (by simp))
  have e7 := recGet_eq_firstField r k.proto (hk _ (by simp))
  have e8 := recGet_eq_firstField r k.first (hk _ (by simp))
  have e9 := recGet_eq_firstField r k.last (hk _ (by simp))
  have e10 := recGet_eq_firstField r k.smac (hk _ (by simp))
  have e11 := recGet_eq_firstField r k.dmac (hk _ (by simp))
  simp only [commonOfRec, specFlow, e1, e2, e3, e4, e5, e6, e7, e8, e9, e10, e11, ip_orElse_eq, true_and]
  refine ⟨?_, ?_, ?_, ?_, ?_, ?_, ?_, ?_⟩
  · cases firstField r k.src4 <;> rfl
  · cases firstField r k.dst4 <;> rfl
  · exact bind_congr_of_all (fun _ h => asU16_eq_of_isU16 h)
  · exact bind_congr_of_all (fun _ h => asU16_eq_of_isU16 h)
  · exact bind_congr_of_all (fun _ h => asU8_eq_of_isU8 h)
  · exact bind_congr_of_all (fun _ h => asU32_eq_of_isU32 h)
  · exact bind_congr_of_all (fun _ h => asU32_eq_of_isU32 h)
  · intro h8 hg ht
    unfold protoGood at hg
    cases hv : firstField r k.proto with
    | none => rfl
    | some v =>
      rw [hv] at h8 hg
      simp only [Option.all_some] at h8 hg
      cases v with
      | num d =>
        cases d with
        | u8 n =>
          simp only [Bool.and_eq_true, decide_eq_true_eq, Bool.not_eq_true', List.contains_eq_mem,
            decide_eq_false_iff_not] at hg
          simp [asU8, protoNumOf, numOf, ht n hg.1 hg.2]
        | _ => simp [isU8] at h8
      | _ => simp [isU8] at h8

/-- an attribute whose field the record does not have is absent from the common flow -/
theorem C13_rec_absent (proto : Nat → Nat) (k : CommonKeys) (r : Rec) :
    let cf := commonOfRec proto k r
    (recGet r k.src4 = none → recGet r k.src6 = none → cf.srcAddr = none) ∧
    (recGet r k.dst4 = none → recGet r k.dst6 = none → cf.dstAddr = none) ∧
    (recGet r k.sport = none → cf.srcPort = none) ∧ (recGet r k.dport = none → cf.dstPort = none) ∧
    (recGet r k.proto = none → cf.protoNum = none ∧ cf.protoType = none) ∧
    (recGet r k.first = none → cf.first = none) ∧ (recGet r k.last = none → cf.last = none) ∧
    (recGet r k.smac = none → cf.srcMac = none) ∧ (recGet r k.dmac = none → cf.dstMac = none) := by
  simp only [commonOfRec]
  refine ⟨?_, ?_, ?_, ?_, ?_, ?_, ?_, ?_, ?_⟩ <;> intros <;> simp_all

/-- a record has the field (some entry carries the discriminant) iff `recGet` finds it -/
theorem C13_recGet_none_iff (r : Rec) (disc : Nat) : recGet r disc = none ↔ ∀ e ∈ r, e.2.1 ≠ disc := by
  unfold recGet
  cases h : r.reverse.find? (fun e => e.2.1 == disc) with
  | none =>
    simp only [true_iff]
    rw [List.find?_eq_none] at h
    intro e he
    have := h e (List.mem_reverse.2 he)
    simpa using this
  | some e =>
    simp only [reduceCtorEq, false_iff]
    intro hall
    have hm := List.mem_of_find?_eq_some h
    have hp := List.find?_some h
    exact hall e (List.mem_reverse.1 hm) (by simpa using hp)

/-- **C13, one record, all attributes** — PARTIAL: the common flow IS the specified flow when no
    projected key occurs twice, every present scalar field has the accepted kind and the protocol
    number is off `badProtos`. -/
theorem C13_rec_eq_partial (t : Tables) (names : List (Nat × String)) (ht : ProtoTableOk t names) (k : CommonKeys) (r : Rec)
    (hd : dupKeys k r = false) (hk : kindsAccepted k r = true) (hg : protoGood k r = true) :
    commonOfRec t.protoFromU8 k r = specFlow t names k r := by
  simp only [kindsAccepted, Bool.and_eq_true] at hk
  obtain ⟨⟨⟨⟨k1, k2⟩, k3⟩, k4⟩, k5⟩ := hk
  obtain ⟨a1, a2, a3, a4, a5, a6, a7, a8, a9, a10⟩ := C13_rec_partial t names k r hd
  have b5 := a5 k1
  have b6 := a6 k2
  have b7 := a7 k3
  have b8 := a8 k4
  have b9 := a9 k5
  have b10 := a10 k3 hg ht
  cases hc : commonOfRec t.protoFromU8 k r
  cases hs : specFlow t names k r
  simp only [hc, hs] at a1 a2 a3 a4 b5 b6 b7 b8 b9 b10
  simp only [CommonFlow.mk.injEq]
  exact ⟨a1, a2, b5, b6, b7, b10, b8, b9, a3, a4⟩

/-! ### V9 packets -/

/-- **C13, V9, shape**: a V9 packet returned by the parser converts to version 9, its `sys_up_time`
    and exactly one flow per data record, in order — the same shape as the specified view, whose
    i-th flow is `specFlow` of the same i-th record. -/
theorem C13_v9_shape (c : Config) (hl : c.t.commonLayoutOk = true) (names : List (Nat × String))
    (st st' : PState) (buf : Bytes) (h : List Nat) (ss : List V9Set) (rest : Bytes)
    (hp : parsePacket c st buf = (st', .ok (.v9 h ss) rest)) :
    toCommon c (.v9 h ss) = some
      { version := 9, timestamp := c.t.v9Hdr.get "sys_up_time" h,
        flows := (v9DataRecs ss).map (commonOfRec c.t.protoFromU8 c.t.commonV9) } ∧
    specCommon c names (.v9 h ss) = some
      { version := 9, timestamp := c.t.v9Hdr.get "sys_up_time" h,
        flows := (v9DataRecs ss).map (specFlow c.t names c.t.commonV9) } := by
  simp only [Tables.commonLayoutOk, Bool.and_eq_true, beq_iff_eq] at hl
  obtain ⟨⟨⟨⟨⟨⟨⟨h5, h7⟩, h9⟩, h10⟩, r5⟩, r7⟩, t9⟩, t10⟩ := hl
  cases parsePacket_origin _ _ _ _ _ _ hp with
  | v9 _ _ i r hh =>
    refine ⟨?_, rfl⟩
    simp only [toCommon, parseLayout_const hh h9, t9]

/-- **C13, V9** — PARTIAL: the common view of a V9 packet equals the specified view when every data
    record is free of duplicate projected keys, all its present scalar projected fields were decoded
    as the kinds the converters accept, and protocol numbers are off `badProtos`.  The parser's own
    output violates the kind condition whenever a template contains PROTOCOL or FIRST/LAST_SWITCHED
    (`C13_v9_fails`). -/
theorem C13_v9_partial (c : Config) (hl : c.t.commonLayoutOk = true) (names : List (Nat × String))
    (ht : ProtoTableOk c.t names)
    (st st' : PState) (buf : Bytes) (h : List Nat) (ss : List V9Set) (rest : Bytes)
    (hp : parsePacket c st buf = (st', .ok (.v9 h ss) rest))
    (hd : pktHasDupKeys c (.v9 h ss) = false)
    (hk : ∀ r ∈ v9DataRecs ss, kindsAccepted c.t.commonV9 r = true ∧ protoGood c.t.commonV9 r = true) :
    toCommon c (.v9 h ss) = specCommon c names (.v9 h ss) := by
  obtain ⟨e1, e2⟩ := C13_v9_shape c hl names st st' buf h ss rest hp
  rw [e1, e2]
  simp only [Option.some.injEq, Common.mk.injEq, true_and]
  apply List.map_congr_left
  intro r hr
  simp only [pktHasDupKeys, List.any_eq_false] at hd
  have hd' : dupKeys c.t.commonV9 r = false := by simpa using hd r hr
  exact C13_rec_eq_partial c.t names ht _ r hd' (hk r hr).1 (hk r hr).2

/-- number of flows = number of data records, flow `i` is the projection of record `i` -/
theorem C13_v9_flows (c : Config) (h : List Nat) (ss : List V9Set) :
    ∃ cm, toCommon c (.v9 h ss) = some cm ∧ cm.flows.length = (v9DataRecs ss).length ∧
      ∀ i (hi : i < (v9DataRecs ss).length),
        cm.flows[i]? = some (commonOfRec c.t.protoFromU8 c.t.commonV9 ((v9DataRecs ss)[i])) := by
  refine ⟨_, rfl, by simp, ?_⟩
  intro i hi
  simp [hi]

/-! ### IPFIX packets -/

/-- **C13, IPFIX** — PARTIAL (only version, timestamp and the NUMBER of flows are established; the
    flows themselves are wrong, `C13_ipfix_fails`): an IPFIX message returned by the parser converts
    to version 10, its `export_time`, and one "flow" per decoded per-field map. -/
theorem C13_ipfix_partial (c : Config) (hl : c.t.commonLayoutOk = true) (names : List (Nat × String))
    (st st' : PState) (buf : Bytes) (h : List Nat) (ss : List IpSet) (rest : Bytes)
    (hp : parsePacket c st buf = (st', .ok (.ipfix h ss) rest)) :
    ∃ cm sm, toCommon c (.ipfix h ss) = some cm ∧ specCommon c names (.ipfix h ss) = some sm ∧
      cm.version = 10 ∧ sm.version = 10 ∧ cm.timestamp = c.t.ipHdr.get "export_time" h ∧ sm.timestamp = cm.timestamp ∧
      cm.flows = (ipDataRecs ss).map (commonOfRec c.t.protoFromU8 c.t.commonIp) ∧
      cm.flows.length = (ipDataRecs ss).length := by
  simp only [Tables.commonLayoutOk, Bool.and_eq_true, beq_iff_eq] at hl
  obtain ⟨⟨⟨⟨⟨⟨⟨h5, h7⟩, h9⟩, h10⟩, r5⟩, r7⟩, t9⟩, t10⟩ := hl
  cases parsePacket_origin _ _ _ _ _ _ hp with
  | ipfix _ _ i r hh =>
    refine ⟨_, _, rfl, rfl, ?_, rfl, ?_, ?_, rfl, by simp⟩
    · exact parseLayout_const hh h10
    · simp only [t10]
    · simp only [t10]

/-! ### the result list as a whole, in terms of the oracle predicate `commonOk` -/

/-- packets on which the view is specified AND delivered: V5/V7 records with protocol numbers off
    `badProtos`; V9 data records whose present scalar projected fields have the accepted kinds;
    IPFIX messages without decoded data records; errors -/
def commonViewGood (c : Config) : Packet → Bool
  | .v5 _ rs => rs.all fun r => !badProtos.contains (c.t.v5Rec.get "protocol_number" r)
  | .v7 _ rs => rs.all fun r => !badProtos.contains (c.t.v7Rec.get "protocol_number" r)
  | .v9 _ ss => (v9DataRecs ss).all fun r => kindsAccepted c.t.commonV9 r && protoGood c.t.commonV9 r
  | .ipfix _ ss => (ipDataRecs ss).isEmpty
  | .error _ _ => true

/-- **C13, V5 and V7** — PARTIAL (protocol numbers 0, 1, 144, 255 excluded, see `C13_fixed_fails`):
    a fixed-format packet returned by the parser has exactly the specified common view. -/
theorem C13_fixed_partial (c : Config) (hl : c.t.commonLayoutOk = true) (names : List (Nat × String))
    (ht : ProtoTableOk c.t names) (st st' : PState) (buf : Bytes) (p : Packet) (rest : Bytes)
    (hp : parsePacket c st buf = (st', .ok p rest)) (hfix : isFixedPkt p = true) (hg : commonViewGood c p = true) :
    toCommon c p = specCommon c names p := by
  cases p with
  | v5 h rs =>
    simp only [commonViewGood, List.all_eq_true, Bool.not_eq_true', List.contains_eq_mem, decide_eq_false_iff_not] at hg
    exact C13_fixed_v5_partial c hl names ht _ _ _ _ _ _ hp hg
  | v7 h rs =>
    simp only [commonViewGood, List.all_eq_true, Bool.not_eq_true', List.contains_eq_mem, decide_eq_false_iff_not] at hg
    exact C13_fixed_v7_partial c hl names ht _ _ _ _ _ _ hp hg
  | _ => simp [isFixedPkt] at hfix

theorem c13_zip_map_all {α β : Type} (f : α → β) (g : α × β → Bool) :
    ∀ (l : List α), (l.zip (l.map f)).all g = l.all fun a => g (a, f a) := by
  intro l
  induction l with
  | nil => rfl
  | cons a l ih => simp [ih]

/-- **C13 as checked by the oracle** — PARTIAL (restricted to `commonViewGood` packets): converting every
    element of a `parse_bytes` result yields the specified views. -/
theorem C13_commonOk_partial (c : Config) (hl : c.t.commonLayoutOk = true) (names : List (Nat × String))
    (ht : ProtoTableOk c.t names) (st st' : PState) (buf : Bytes) (pkts : List Packet)
    (h : parseBytes c st buf = (st', .done pkts)) (hg : ∀ p ∈ pkts, commonViewGood c p = true) :
    commonOk c names pkts (pkts.map (toCommon c)) = true := by
  have horig := parseBytesF_origin c _ _ _ _ _ h
  unfold commonOk
  rw [c13_zip_map_all]
  simp only [List.length_map, beq_self_eq_true, Bool.true_and, List.all_eq_true, Bool.or_eq_true, beq_iff_eq]
  intro p hp
  by_cases hdup : pktHasDupKeys c p = true
  · exact Or.inl hdup
  · right
    have hdup' : pktHasDupKeys c p = false := by simpa using hdup
    have hgp := hg p hp
    have hl' := hl
    simp only [Tables.commonLayoutOk, Bool.and_eq_true, beq_iff_eq] at hl'
    obtain ⟨⟨⟨⟨⟨⟨⟨h5, h7⟩, h9⟩, h10⟩, r5⟩, r7⟩, t9⟩, t10⟩ := hl'
    rcases horig p hp with ⟨k, r, e⟩ | ho
    · subst e; rfl
    · cases ho with
      | v5 hd rs i r hf =>
        obtain ⟨⟨r1, hh⟩, hrs⟩ := parseFixed_parts _ _ _ _ _ _ _ hf
        simp only [commonViewGood, List.all_eq_true, Bool.not_eq_true', List.contains_eq_mem, decide_eq_false_iff_not] at hgp
        simp only [toCommon, specCommon, parseLayout_const hh h5, Option.some.injEq, Common.mk.injEq, true_and]
        apply List.map_congr_left
        intro x hx
        obtain ⟨i', r', hx'⟩ := hrs x hx
        obtain ⟨e, hlt⟩ := commonOfFixed_eq _ names _ r5 _ _ _ hx'
        rw [e, ht _ hlt (hgp x hx)]; rfl
      | v7 hd rs i r hf =>
        obtain ⟨⟨r1, hh⟩, hrs⟩ := parseFixed_parts _ _ _ _ _ _ _ hf
        simp only [commonViewGood, List.all_eq_true, Bool.not_eq_true', List.contains_eq_mem, decide_eq_false_iff_not] at hgp
        simp only [toCommon, specCommon, parseLayout_const hh h7, Option.some.injEq, Common.mk.injEq, true_and]
        apply List.map_congr_left
        intro x hx
        obtain ⟨i', r', hx'⟩ := hrs x hx
        obtain ⟨e, hlt⟩ := commonOfFixed_eq _ names _ r7 _ _ _ hx'
        rw [e, ht _ hlt (hgp x hx)]; rfl
      | v9 hd ss i r hh =>
        simp only [commonViewGood, List.all_eq_true, Bool.and_eq_true] at hgp
        simp only [toCommon, specCommon, parseLayout_const hh h9, t9, Option.some.injEq, Common.mk.injEq, true_and]
        apply List.map_congr_left
        intro x hx
        simp only [pktHasDupKeys, List.any_eq_false] at hdup'
        have hd' : dupKeys c.t.commonV9 x = false := by simpa using hdup' x hx
        exact (C13_rec_eq_partial c.t names ht _ x hd' (hgp x hx).1 (hgp x hx).2).symm
      | ipfix hd ss i r hh =>
        simp only [commonViewGood, List.isEmpty_iff] at hgp
        simp only [toCommon, specCommon, parseLayout_const hh h10, t10, hgp, regroup, List.map_nil, List.reverse_nil]

/-! ### instances for the tables generated from the Rust source -/

theorem C13_generated_layout : Generated.tables.commonLayoutOk = true := by decide

private theorem protoTbl1 : ∀ n, n < 64 → n ∉ badProtos →
    Generated.tables.protoFromU8 n = Spec.protoSpecDisc Generated.protoNames n := by
  unfold badProtos; decide +kernel
private theorem protoTbl2 : ∀ n, n < 128 → 64 ≤ n → n ∉ badProtos →
    Generated.tables.protoFromU8 n = Spec.protoSpecDisc Generated.protoNames n := by
  unfold badProtos; decide +kernel
private theorem protoTbl3 : ∀ n, n < 192 → 128 ≤ n → n ∉ badProtos →
    Generated.tables.protoFromU8 n = Spec.protoSpecDisc Generated.protoNames n := by
  unfold badProtos; decide +kernel
private theorem protoTbl4 : ∀ n, n < 256 → 192 ≤ n → n ∉ badProtos →
    Generated.tables.protoFromU8 n = Spec.protoSpecDisc Generated.protoNames n := by
  unfold badProtos; decide +kernel

/-- off 0, 1, 144, 255 the generated `From<u8> for ProtocolTypes` yields the variant carrying the IANA name -/
theorem C13_generated_protoTable : ProtoTableOk Generated.tables Generated.protoNames := by
  intro n hn hb
  by_cases h1 : n < 64
  · exact protoTbl1 n h1 hb
  · by_cases h2 : n < 128
    · exact protoTbl2 n h2 (by omega) hb
    · by_cases h3 : n < 192
      · exact protoTbl3 n h3 (by omega) hb
      · exact protoTbl4 n hn (by omega) hb

/-- the configuration the crate ships: generated tables, default allowed set -/
def c13Cfg : Config := { t := Generated.tables, allowed := Generated.defaultAllowed }

/-- **C13** for the generated tables, on `commonViewGood` results (any allowed set, both feature settings) -/
theorem C13_generated_partial (allowed : List Nat) (uf : Bool) (st st' : PState) (buf : Bytes) (pkts : List Packet)
    (h : parseBytes { t := Generated.tables, allowed := allowed, unknownFields := uf } st buf = (st', .done pkts))
    (hg : ∀ p ∈ pkts, commonViewGood { t := Generated.tables, allowed := allowed, unknownFields := uf } p = true) :
    commonOk { t := Generated.tables, allowed := allowed, unknownFields := uf } Generated.protoNames pkts
      (pkts.map (toCommon { t := Generated.tables, allowed := allowed, unknownFields := uf })) = true :=
  C13_commonOk_partial _ C13_generated_layout _ C13_generated_protoTable _ _ _ _ h hg

/-! ### where C13 FAILS (concrete witnesses, generated tables) -/

/-- a V5 packet with one record carrying protocol number `p` -/
def c13V5one (p : UInt8) : Bytes :=
  [0,5, 0,1, 0,0,0,1, 0,0,0,2, 0,0,0,3, 0,0,0,4, 5, 6, 0,7,
   10,0,0,1, 10,0,0,2, 0,0,0,0, 0,1, 0,2, 0,0,0,3, 0,0,0,4, 0,0,0,5, 0,0,0,6, 0,80, 1,187, 0, 0, p, 0, 0,1, 0,2, 24, 24, 0,0]
/-- its decoded record: protocol number `p`, protocol name discriminant `q` -/
def c13V5rec (p q : Nat) : List Nat := [167772161, 167772162, 0, 1, 2, 3, 4, 5, 6, 80, 443, 0, 0, p, q, 0, 1, 2, 24, 24, 0]
def c13V5hdr : List Nat := [5, 1, 1, 2, 3, 4, 5, 6, 7]

/-- **C13 fails for V5/V7 protocol names** 0, 1, 144, 255: the parser decodes the packets below, and
    the common view's protocol name (`Unknown`=145, `Hopopt`=0, `Reserved`=255, `Unknown`=145) is not the
    IANA name of the number (`Hopopt`=0, `Icmp`=1, `Aggfrag`=144, `Reserved`=255). -/
theorem C13_fixed_fails :
    (parsePacket c13Cfg {} (c13V5one 0) = ({}, .ok (.v5 c13V5hdr [c13V5rec 0 145]) []) ∧
      toCommon c13Cfg (.v5 c13V5hdr [c13V5rec 0 145]) ≠ specCommon c13Cfg Generated.protoNames (.v5 c13V5hdr [c13V5rec 0 145])) ∧
    (parsePacket c13Cfg {} (c13V5one 1) = ({}, .ok (.v5 c13V5hdr [c13V5rec 1 0]) []) ∧
      toCommon c13Cfg (.v5 c13V5hdr [c13V5rec 1 0]) ≠ specCommon c13Cfg Generated.protoNames (.v5 c13V5hdr [c13V5rec 1 0])) ∧
    (parsePacket c13Cfg {} (c13V5one 144) = ({}, .ok (.v5 c13V5hdr [c13V5rec 144 255]) []) ∧
      toCommon c13Cfg (.v5 c13V5hdr [c13V5rec 144 255]) ≠ specCommon c13Cfg Generated.protoNames (.v5 c13V5hdr [c13V5rec 144 255])) ∧
    (parsePacket c13Cfg {} (c13V5one 255) = ({}, .ok (.v5 c13V5hdr [c13V5rec 255 145]) []) ∧
      toCommon c13Cfg (.v5 c13V5hdr [c13V5rec 255 145]) ≠ specCommon c13Cfg Generated.protoNames (.v5 c13V5hdr [c13V5rec 255 145])) := by
  decide +kernel

/-- the four numbers are exactly where the table deviates -/
theorem C13_fixed_fails_table : ∀ n ∈ badProtos,
    Generated.tables.protoFromU8 n ≠ Spec.protoSpecDisc Generated.protoNames n := by
  unfold badProtos; decide +kernel

/-- a V9 packet: template 256 = (PROTOCOL/1, FIRST_SWITCHED/4, L4_SRC_PORT/2), then one data record -/
def c13V9 : Bytes :=
  [0,9, 0,2, 0,0,0,1, 0,0,0,2, 0,0,0,3, 0,0,0,4,
   0,0, 0,20, 1,0, 0,3, 0,4, 0,1, 0,22, 0,4, 0,7, 0,2,
   1,0, 0,11, 6, 0,0,3,232, 0,80]
/-- the record the parser decodes from it: protocol as `ProtocolTypes`, first-seen as `Duration` -/
def c13V9rec : Rec := [(0, 4, .proto 6), (1, 22, .dur 1 0), (2, 7, .num (.u16 80))]

def c13V9tmpl : V9Template :=
  { id := 256, fieldCount := 3, fields := [{ typ := 4, len := 1 }, { typ := 22, len := 4 }, { typ := 7, len := 2 }] }
def c13V9pkt : Packet :=
  .v9 [9, 2, 1, 2, 3, 4]
    [{ id := 0, len := 20, body := .templates [c13V9tmpl] [] }, { id := 256, len := 11, body := .data [c13V9rec] [] }]

/-- **C13 fails for V9 protocol and first/last seen**: the record decoded by the parser carries
    protocol 6 and first-seen 1000 ms, the specified flow has them, the common flow has neither
    (the converters accept only `DataNumber::U8` / `U32`, the parser produces `ProtocolType` /
    `Duration`); the port, decoded as `U16`, survives. -/
theorem C13_v9_fails :
    parseBytes c13Cfg {} c13V9 = ({ v9T := [(256, c13V9tmpl)] }, .done [c13V9pkt]) ∧
    (specFlow Generated.tables Generated.protoNames Generated.commonV9 c13V9rec).protoNum = some 6 ∧
    (commonOfRec Generated.tables.protoFromU8 Generated.commonV9 c13V9rec).protoNum = none ∧
    (specFlow Generated.tables Generated.protoNames Generated.commonV9 c13V9rec).protoType = some 6 ∧
    (commonOfRec Generated.tables.protoFromU8 Generated.commonV9 c13V9rec).protoType = none ∧
    (specFlow Generated.tables Generated.protoNames Generated.commonV9 c13V9rec).first = some 1000 ∧
    (commonOfRec Generated.tables.protoFromU8 Generated.commonV9 c13V9rec).first = none ∧
    (commonOfRec Generated.tables.protoFromU8 Generated.commonV9 c13V9rec).srcPort = some 80 ∧
    pktHasDupKeys c13Cfg c13V9pkt = false ∧
    toCommon c13Cfg c13V9pkt ≠ specCommon c13Cfg Generated.protoNames c13V9pkt := by
  decide +kernel

/-- an IPFIX message: template 256 = (sourceIPv4Address/4, destinationIPv4Address/4), one data record -/
def c13Ipfix : Bytes :=
  [0,10, 0,44, 0,0,0,1, 0,0,0,2, 0,0,0,3,
   0,2, 0,16, 1,0, 0,2, 0,8, 0,4, 0,12, 0,4,
   1,0, 0,12, 10,0,0,1, 10,0,0,2]
def c13IpfixTmpl : IpTemplate :=
  { id := 256, fieldCount := 2, fields := [{ typ := 8, len := 4, ent := none }, { typ := 12, len := 4, ent := none }], pad := [] }
def c13IpfixPkt : Packet :=
  .ipfix [10, 44, 1, 2, 3]
    [{ id := 2, len := 16, body := .template c13IpfixTmpl },
     { id := 256, len := 12, body := .data [[(0, 8, .ip4 167772161)], [(1, 12, .ip4 167772162)]] [] }]

/-- **C13 fails for IPFIX**: one record of two fields converts to TWO flows (one per field, each
    with a single attribute) where the specified view has ONE flow carrying both addresses. -/
theorem C13_ipfix_fails :
    parseBytes c13Cfg {} c13Ipfix = ({ ipT := [(256, c13IpfixTmpl)] }, .done [c13IpfixPkt]) ∧
    ((toCommon c13Cfg c13IpfixPkt).map (·.flows.length)) = some 2 ∧
    ((specCommon c13Cfg Generated.protoNames c13IpfixPkt).map (·.flows.length)) = some 1 ∧
    pktHasDupKeys c13Cfg c13IpfixPkt = false ∧
    toCommon c13Cfg c13IpfixPkt ≠ specCommon c13Cfg Generated.protoNames c13IpfixPkt := by
  decide +kernel

/-- the full-strength property: on every `parse_bytes` result of the shipped configuration, the
    converted views are the specified ones (up to packets with duplicate projected keys) -/
def C13_full : Prop :=
  ∀ (st st' : PState) (buf : Bytes) (pkts : List Packet),
    parseBytes c13Cfg st buf = (st', .done pkts) →
    commonOk c13Cfg Generated.protoNames pkts (pkts.map (toCommon c13Cfg)) = true

/-- **C13 is false of the model** (hence, by correspondence, of the crate): the IPFIX message above -/
theorem C13_full_fails : ¬ C13_full := by
  intro h
  have := h _ _ _ _ C13_ipfix_fails.1
  revert this
  decide +kernel

end Netflow.Props

/-! ### non-vacuity -/
namespace Netflow.Props
open Netflow Preds

/-- `C13_fixed_v5(_partial)`: a V5 packet with a TCP record is returned by the parser and its
    protocol number is off `badProtos` -/
example : parsePacket c13Cfg {} (c13V5one 6) = ({}, .ok (.v5 c13V5hdr [c13V5rec 6 6]) []) ∧
    (∀ r ∈ [c13V5rec 6 6], c13Cfg.t.v5Rec.get "protocol_number" r ∉ badProtos) ∧
    toCommon c13Cfg (.v5 c13V5hdr [c13V5rec 6 6]) = specCommon c13Cfg Generated.protoNames (.v5 c13V5hdr [c13V5rec 6 6]) := by
  decide +kernel

/-- `C13_rec_partial` / `C13_rec_eq_partial`: a record with addresses, ports (`U16`) and a protocol
    decoded as `U8` (the shape the IPFIX decoder yields for `protocolIdentifier`) meets all hypotheses -/
example :
    let r : Rec := [(0, 8, .ip4 1), (1, 12, .ip4 2), (2, 7, .num (.u16 80)), (3, 11, .num (.u16 443)), (4, 4, .num (.u8 6))]
    dupKeys Generated.commonV9 r = false ∧ kindsAccepted Generated.commonV9 r = true ∧ protoGood Generated.commonV9 r = true ∧
    (commonOfRec Generated.tables.protoFromU8 Generated.commonV9 r).protoNum = some 6 := by
  decide +kernel

/-- `C13_v9_shape` / `C13_v9_partial`: a V9 packet (template of address + port, one record) returned by
    the parser whose records meet the kind condition; the views agree -/
example :
    parsePacket c13Cfg {}
      [0,9, 0,2, 0,0,0,1, 0,0,0,2, 0,0,0,3, 0,0,0,4, 0,0, 0,16, 1,0, 0,2, 0,8, 0,4, 0,7, 0,2, 1,0, 0,10, 10,0,0,1, 0,80] =
      ({ v9T := [(256, { id := 256, fieldCount := 2, fields := [{ typ := 8, len := 4 }, { typ := 7, len := 2 }] })] },
       .ok (.v9 [9, 2, 1, 2, 3, 4]
              [{ id := 0, len := 16, body := .templates [{ id := 256, fieldCount := 2, fields := [{ typ := 8, len := 4 }, { typ := 7, len := 2 }] }] [] },
               { id := 256, len := 10, body := .data [[(0, 8, .ip4 167772161), (1, 7, .num (.u16 80))]] [] }]) []) ∧
    (∀ r ∈ [([(0, 8, .ip4 167772161), (1, 7, .num (.u16 80))] : Rec)],
      dupKeys Generated.commonV9 r = false ∧ kindsAccepted Generated.commonV9 r = true ∧ protoGood Generated.commonV9 r = true) := by
  decide +kernel

/-- `C13_ipfix_partial`: the message of `C13_ipfix_fails` is returned by the parser -/
example : parsePacket c13Cfg {} c13Ipfix = ({ ipT := [(256, c13IpfixTmpl)] }, .ok c13IpfixPkt []) := by decide +kernel

/-- `C13_commonOk_partial`: a buffer of two V5 packets, all `commonViewGood` -/
example : ∃ st' pkts, parseBytes c13Cfg {} (c13V5one 6 ++ c13V5one 17) = (st', .done pkts) ∧
    pkts.length = 2 ∧ ∀ p ∈ pkts, commonViewGood c13Cfg p = true :=
  ⟨{}, [.v5 c13V5hdr [c13V5rec 6 6], .v5 c13V5hdr [c13V5rec 17 17]], by decide +kernel, rfl, by decide +kernel⟩

/-- **C13.0** (regenerated from the source on every run) the library declares no mutable global or per-thread state
    (`static mut`, `thread_local!`, `OnceLock`/`OnceCell`/`lazy_static!`, `static … : Mutex|RwLock|Atomic…`), as the model assumes
    by making `parseBytes` a function of `(config, parser state, buffer)`: the common view is a function of the decoded packet alone. -/
theorem C13_no_global_state : Generated.noGlobals = true := by decide


/-- **C13.G** (regenerated on every run) the conversions the common view applies to decoded values — `impl_try_from!` pairs,
    `TryFrom<&FieldValue> for String` / `for IpAddr`, and the `Option<T>` types of `NetflowCommonFlowSet` that select them — are,
    as read from the source now, the ones `commonOfRec` models (`asU8`, `asU16`, `asU32`, `asString`, `asIp`). -/
theorem C13_conversions_generated (v : FieldValue) :
    (asU8 v).map Int.ofNat = convNumBy Generated.convNumArms "u8" v ∧
    (asU16 v).map Int.ofNat = convNumBy Generated.convNumArms "u16" v ∧
    (asU32 v).map Int.ofNat = convNumBy Generated.convNumArms "u32" v ∧
    asString v = convStringBy Generated.convStringTags v ∧
    asIp v = convIpBy Generated.convIpTags v :=
  ⟨G1.asU8_eq_generated v, G1.asU16_eq_generated v, G1.asU32_eq_generated v, G1.asString_eq_generated v, G1.asIp_eq_generated v⟩

theorem C13_flow_types_generated :
    Generated.commonFlowTypes =
      [("src_addr", "IpAddr"), ("dst_addr", "IpAddr"), ("src_port", "u16"), ("dst_port", "u16"), ("protocol_number", "u8"),
       ("protocol_type", "ProtocolTypes"), ("first_seen", "u32"), ("last_seen", "u32"), ("src_mac", "String"), ("dst_mac", "String")] :=
  G1.commonFlowTypes_as_modelled

end Netflow.Props
