/-
  Props/C06Refine.lean — the UNIFIED REFINEMENT theorem behind properties C04 + C05 + C06 + C11:

    the model of `NetflowParser` (template caches + `parse_bytes`) REFINES the specification's
    exporter-memory semantics (`Spec.Defs` + `Spec.expMsgs`), for every conformant HISTORY of calls,
    each call carrying any mix of V5, V7, V9 and IPFIX messages written by the RFC / Cisco writers
    `Spec.enc`.

  * `C06_refine_full`, `C06_refine_full_fails` — the statement without conformance hypotheses is FALSE
    (witness: one V5 record with protocol number 1; the V9 / IPFIX witnesses are in C04 / C05).
  * `C06_refine_step_partial`   — one message of any version (followed by arbitrary bytes).
  * `C06_refine_call_partial`   — one `parse_bytes` call.
  * `C06_refine_partial`        — a history of calls from any represented memory: `B4.Refines`.
  * `C06_refine_generated_partial` — from the empty parser / empty memory, generated tables.
  * corollaries: (a) `C06_refine_latest_wins_partial` (+ `C06_refine_spec_latest_wins`),
    (b) `C06_refine_split_independent_partial`,
    (c) `C06_refine_repr_components`, `C06_refine_isolation_partial` (one message),
        `C06_refine_v9_blind_to_ipfix_partial`, `C06_refine_ipfix_blind_to_v9_partial` (whole streams).
  * non-vacuity: `c06rHist` (call 1: V5 packet + V9 template message; call 2: V9 data message) and
    `c06rHistMixed` (IPFIX template / data with the SAME template id interleaved), by `decide +kernel`.
  Helper lemmas: Lemmas/B4Fixed.lean (V5/V7 print-then-parse), Lemmas/B4Stream.lean (glue).
-/
import NetflowModel.Lemmas.B4Stream
namespace Netflow.Props
open Netflow Netflow.Spec Netflow.B4

/-! ### the full-strength statement and its refutation -/

/-- full strength: for the generated tables with all four versions allowed, EVERY history for which
    the specification expects a packet per message is refined call by call from the empty parser:
    call `k` returns exactly the expected packets and afterwards the caches represent the exporter
    memory (`B4.Refines`). -/
def C06_refine_full : Prop :=
  ∀ (c : Config), c.t = Generated.tables → c.allowed.contains 5 = true → c.allowed.contains 7 = true →
    c.allowed.contains 9 = true → c.allowed.contains 10 = true →
  ∀ (hist : List (List Msg)) (D' : Defs) (pkts : List Packet),
    expMsgs c Generated.protoNames {} hist.flatten = some (D', pkts.map .pkt) →
    Refines c Generated.protoNames {} {} hist

/-! ### what is provable -/

/-- **one message, any version** (PARTIAL: needs `MsgConformant`).  From a state representing the
    exporter memory `D` (both protocols), the bytes of a conformant message followed by ANY bytes are
    decoded to exactly the packet the specification expects from `D`; the state reached does not
    depend on the trailing bytes, represents the updated memory `D'` (both protocols), and the
    message touched only its own protocol's half (`B4.Untouched`): V5/V7 nothing at all.

    Missing for full strength: `MsgConformant` = `C04Conformant` (V9), `C05Conformant` (IPFIX) — see
    the `C04_*_fails` / `C05_*_fails` witnesses — and for V5/V7 `B4.fixedConf`: values within their
    Cisco field widths, fewer than 65536 records, and no record whose protocol number is named
    wrongly by `From<u8> for ProtocolTypes` (0, 1, 144, 255 for the generated tables:
    `B4.protoAgree_generated_fails`, `C06_refine_v5_proto_fails`). -/
theorem C06_refine_step_partial (c : Config) (names : List (Nat × String)) (H : SideConds c)
    (D D' : Defs) (st : PState) (m : Msg) (p : Packet)
    (hR : Repr D st) (hconf : MsgConformant c names D m = true) (hexp : expMsg c names D m = some (D', .pkt p)) :
    ∃ st', (∀ rest, parsePacket c st (enc m ++ rest) = (st', .ok p rest)) ∧ Repr D' st' ∧ Untouched m D D' st st' := by
  obtain ⟨st', h1, _, h3, h4⟩ := step c names H D D' st m p hR hconf hexp
  exact ⟨st', h1, h3, h4⟩

/-- **one call** (PARTIAL as above, conformance threaded through the call by `MsgsConformant`): the
    concatenated bytes of a conformant message list, parsed by one `parse_bytes` call, give exactly
    the expected packets, in order; each message is decoded against the memory as updated by the
    messages before it IN THE SAME BUFFER; the final state represents the final memory. -/
theorem C06_refine_call_partial (c : Config) (names : List (Nat × String)) (H : SideConds c)
    (ms : List Msg) (D D' : Defs) (st : PState) (pkts : List Packet)
    (hR : Repr D st) (hconf : MsgsConformant c names D ms = true)
    (hexp : expMsgs c names D ms = some (D', pkts.map .pkt)) :
    ∃ st', parseBytes c st (ms.flatMap enc) = (st', .done pkts) ∧ Repr D' st' := by
  obtain ⟨st', h1, h2, _⟩ := call_refines c names H ms D D' st pkts hR hconf hexp
  exact ⟨st', h1, h2⟩

/-- **C06 refinement (partial)** — a history of calls.  Hypotheses: the side conditions on the tables
    (`SideConds`, all decidable, true of the generated tables), a start state representing the start
    memory, conformance threaded through the flattened history, and the specification expects a
    packet for every message (`hexp`).  Conclusion `Refines`: for EVERY call `k`, the packets
    returned are exactly `Spec.expMsgs c names D_{k-1} msgs_k` and the state after the call
    represents `D_k` — `Repr9 D_k.v9 st_k ∧ ReprIp D_k.ip st_k`.  Also: the concatenation of all
    returned packets is the specification's fold over the flattened history, and the final state
    represents the final memory. -/
theorem C06_refine_partial (c : Config) (names : List (Nat × String)) (H : SideConds c)
    (hist : List (List Msg)) (D D' : Defs) (st : PState) (pkts : List Packet)
    (hR : Repr D st) (hconf : MsgsConformant c names D hist.flatten = true)
    (hexp : expMsgs c names D hist.flatten = some (D', pkts.map .pkt)) :
    Refines c names D st hist ∧
    ∃ st', foldCalls c st (hist.map (·.flatMap enc)) = (st', pkts) ∧ Repr D' st' :=
  history_refines c names H hist D D' st pkts hR hconf hexp

/-- **C06 refinement for the shipped tables**, from the empty parser and the empty exporter memory,
    any allowed list containing 5, 7, 9, 10, either setting of `parse_unknown_fields`; both remaining
    hypotheses are decidable (`MsgsConformant`, `expAllPkt`). -/
theorem C06_refine_generated_partial (c : Config) (hc : c.t = Generated.tables)
    (h5 : c.allowed.contains 5 = true) (h7 : c.allowed.contains 7 = true)
    (h9 : c.allowed.contains 9 = true) (h10 : c.allowed.contains 10 = true)
    (hist : List (List Msg))
    (hconf : MsgsConformant c Generated.protoNames {} hist.flatten = true)
    (hexp : expAllPkt c Generated.protoNames {} hist.flatten = true) :
    Refines c Generated.protoNames {} {} hist := by
  obtain ⟨D', pkts, he⟩ := expAllPkt_elim hexp
  exact (C06_refine_partial c _ (SideConds.generated c hc h5 h7 h9 h10) hist {} D' {} pkts Repr.empty hconf he).1

/-! ### corollary (a): latest definition wins, wherever it arrived -/

/-- **(a)** the packet produced for a message `m` depends only on the messages BEFORE it in the
    flattened history — whether they arrived in the same buffer or in any earlier call: cut the
    flattened history anywhere as `pre ++ m :: post`; the packet at position `|pre|` of the
    concatenated results of all calls is the packet the specification expects for `m` from the
    memory `Dpre` obtained by folding `pre` (in which, by `C06_refine_spec_latest_wins`, every
    template id maps to its most recent definition of either kind). -/
theorem C06_refine_latest_wins_partial (c : Config) (names : List (Nat × String)) (H : SideConds c)
    (hist : List (List Msg)) (D D' : Defs) (st : PState) (pkts : List Packet)
    (hR : Repr D st) (hconf : MsgsConformant c names D hist.flatten = true)
    (hexp : expMsgs c names D hist.flatten = some (D', pkts.map .pkt))
    (pre : List Msg) (m : Msg) (post : List Msg) (hsplit : hist.flatten = pre ++ m :: post) :
    ∃ (Dpre Dm : Defs) (ppre : List Packet) (p : Packet),
      expMsgs c names D pre = some (Dpre, ppre.map .pkt) ∧ expMsg c names Dpre m = some (Dm, .pkt p) ∧
      (foldCalls c st (hist.map (·.flatMap enc))).2[pre.length]? = some p := by
  obtain ⟨_, st', hf, _⟩ := C06_refine_partial c names H hist D D' st pkts hR hconf hexp
  rw [hsplit] at hexp
  obtain ⟨D1, p1, p2, e, h1, h2⟩ := expMsgs_append_inv pre (m :: post) D D' pkts hexp
  obtain ⟨Dm, p, p2', e', h3, _⟩ := expMsgs_cons_inv h2
  subst e e'
  refine ⟨D1, Dm, p1, p, h1, h3, ?_⟩
  have hl : p1.length = pre.length := by
    have := expMsgs_length pre D D1 _ h1
    simpa using this
  rw [hf, ← hl]
  simp

/-- the specification's memory is "latest definition wins, of either kind": after recording a
    definition for `id` a lookup of `id` returns it, whatever was recorded before (a template
    replaces an options template and vice versa), and other ids are unaffected -/
theorem C06_refine_spec_latest_wins (d : List (Nat × V9Def)) (e : List (Nat × IpDef)) (id j : Nat) (v : V9Def) (w : IpDef) :
    amLookup id (v9Insert d id v) = some v ∧ amLookup id (ipInsert e id w) = some w ∧
    (j ≠ id → amLookup j (v9Insert d id v) = amLookup j d ∧ amLookup j (ipInsert e id w) = amLookup j e) := by
  refine ⟨by simp [v9Insert, amLookup_amInsert], by simp [ipInsert, amLookup_amInsert], fun h => ?_⟩
  simp [v9Insert, ipInsert, amLookup_amInsert, h]

/-! ### corollary (b): independence of how the stream is cut into calls -/

/-- **(b)** two histories with the same flattened message list — i.e. the same export stream cut
    into calls differently (at message boundaries) — give the same final parser state (all four
    caches, literally) and the same concatenated packet list, namely the specification's fold. -/
theorem C06_refine_split_independent_partial (c : Config) (names : List (Nat × String)) (H : SideConds c)
    (hist1 hist2 : List (List Msg)) (D D' : Defs) (st : PState) (pkts : List Packet)
    (hR : Repr D st) (hflat : hist2.flatten = hist1.flatten)
    (hconf : MsgsConformant c names D hist1.flatten = true)
    (hexp : expMsgs c names D hist1.flatten = some (D', pkts.map .pkt)) :
    foldCalls c st (hist2.map (·.flatMap enc)) = foldCalls c st (hist1.map (·.flatMap enc)) ∧
    (foldCalls c st (hist1.map (·.flatMap enc))).2 = pkts := by
  obtain ⟨st', hc, hf, _⟩ := call_chain c names H hist1.flatten D D' st pkts hR hconf hexp
  have key : ∀ hist : List (List Msg), hist.flatten = hist1.flatten →
      foldCalls c st (hist.map (·.flatMap enc)) = (st', pkts) := by
    intro hist hfl
    have := C11_partition c H.framing (hist.map (fun ms => ms.map enc)) st
      (by rw [flatten_map_map_enc, hfl]; exact hc)
    rw [map_map_enc_flatten, flatten_map_map_enc, hfl, hf] at this
    exact this
  rw [key hist2 hflat, key hist1 rfl]
  exact ⟨rfl, rfl⟩

/-! ### corollary (c): nothing learned for one protocol is visible to the other -/

/-- **(c), relation level**: the representation relation is the conjunction of two relations over
    disjoint parts: `Repr9` mentions only `D.v9` and the two V9 caches, `ReprIp` only `D.ip` and the
    two IPFIX caches.  Hence replacing the IPFIX half of memory and caches by ANY other represented
    pair keeps the V9 half represented, and vice versa. -/
theorem C06_refine_repr_components (D : Defs) (st : PState) :
    (Repr D st ↔ Repr9 D.v9 st ∧ ReprIp D.ip st) ∧
    (∀ st', st'.v9T = st.v9T → st'.v9O = st.v9O → Repr9 D.v9 st → Repr9 D.v9 st') ∧
    (∀ st', st'.ipT = st.ipT → st'.ipO = st.ipO → ReprIp D.ip st → ReprIp D.ip st') :=
  ⟨⟨fun h => ⟨h.v9, h.ip⟩, fun h => ⟨h.1, h.2⟩⟩, fun _ h1 h2 h => Repr9.congr h h1 h2,
   fun _ h1 h2 h => ReprIp.congr h h1 h2⟩

/-- **(c), step level**: in the refinement a V9 message changes neither the IPFIX memory nor the IPFIX
    caches, an IPFIX message neither the V9 memory nor the V9 caches, a V5/V7 message nothing:
    `Untouched m D D' st st'` is, by cases on `m` (`C06_refine_untouched_cases`),
    `.v9 _ ↦ D'.ip = D.ip ∧ st'.ipT = st.ipT ∧ st'.ipO = st.ipO`,
    `.ipfix _ ↦ D'.v9 = D.v9 ∧ st'.v9T = st.v9T ∧ st'.v9O = st.v9O`, otherwise `D' = D ∧ st' = st`. -/
theorem C06_refine_isolation_partial (c : Config) (names : List (Nat × String)) (H : SideConds c)
    (D D' : Defs) (st : PState) (m : Msg) (p : Packet)
    (hR : Repr D st) (hconf : MsgConformant c names D m = true) (hexp : expMsg c names D m = some (D', .pkt p)) :
    ∃ st', parsePacket c st (enc m) = (st', .ok p []) ∧ Untouched m D D' st st' := by
  obtain ⟨st', h1, _, _, h4⟩ := step_nil c names H D D' st m p hR hconf hexp
  exact ⟨st', h1, h4⟩

theorem C06_refine_untouched_cases (D D' : Defs) (st st' : PState) :
    (∀ m, Untouched (.v9 m) D D' st st' ↔ (D'.ip = D.ip ∧ st'.ipT = st.ipT ∧ st'.ipO = st.ipO)) ∧
    (∀ m, Untouched (.ipfix m) D D' st st' ↔ (D'.v9 = D.v9 ∧ st'.v9T = st.v9T ∧ st'.v9O = st.v9O)) ∧
    (∀ h rs, Untouched (.v5 h rs) D D' st st' ↔ (D' = D ∧ st' = st)) ∧
    (∀ h rs, Untouched (.v7 h rs) D D' st st' ↔ (D' = D ∧ st' = st)) :=
  ⟨fun _ => Iff.rfl, fun _ => Iff.rfl, fun _ _ => Iff.rfl, fun _ _ => Iff.rfl⟩

/-- **(c), stream level — V9 decoding is blind to IPFIX traffic**: delete every IPFIX message from a
    conformant stream and start from ANY state `st0` whose V9 caches represent the same V9 memory
    (its IPFIX caches may represent any IPFIX memory `ip0`, e.g. none): `parse_bytes` returns
    exactly the non-IPFIX packets of the original run — every V5/V7/V9 packet is decoded
    identically — and both runs end representing the same V9 memory.  (Stated for one call; by
    corollary (b) the cut into calls is irrelevant.) -/
theorem C06_refine_v9_blind_to_ipfix_partial (c : Config) (names : List (Nat × String)) (H : SideConds c)
    (ms : List Msg) (D D' : Defs) (st st0 : PState) (ip0 : List (Nat × IpDef)) (pkts : List Packet)
    (hR : Repr D st) (hR0 : Repr ⟨D.v9, ip0⟩ st0) (hconf : MsgsConformant c names D ms = true)
    (hexp : expMsgs c names D ms = some (D', pkts.map .pkt)) :
    ∃ st' st0', parseBytes c st (ms.flatMap enc) = (st', .done pkts) ∧
      parseBytes c st0 ((ms.filter (fun m => !isIpfixMsg m)).flatMap enc) =
        (st0', .done (pkts.filter (fun p => !isIpfixPkt p))) ∧
      Repr9 D'.v9 st' ∧ Repr9 D'.v9 st0' ∧ ReprIp ip0 st0' := by
  obtain ⟨st', h1, h2⟩ := C06_refine_call_partial c names H ms D D' st pkts hR hconf hexp
  obtain ⟨e1, e2⟩ := expMsgs_drop_ipfix c names ip0 ms D D' pkts hexp hconf
  obtain ⟨st0', h3, h4⟩ := C06_refine_call_partial c names H _ _ _ st0 _ hR0 e2 e1
  exact ⟨st', st0', h1, h3, h2.v9, h4.v9, h4.ip⟩

/-- **(c), stream level — IPFIX decoding is blind to V9 traffic** (symmetric). -/
theorem C06_refine_ipfix_blind_to_v9_partial (c : Config) (names : List (Nat × String)) (H : SideConds c)
    (ms : List Msg) (D D' : Defs) (st st0 : PState) (v0 : List (Nat × V9Def)) (pkts : List Packet)
    (hR : Repr D st) (hR0 : Repr ⟨v0, D.ip⟩ st0) (hconf : MsgsConformant c names D ms = true)
    (hexp : expMsgs c names D ms = some (D', pkts.map .pkt)) :
    ∃ st' st0', parseBytes c st (ms.flatMap enc) = (st', .done pkts) ∧
      parseBytes c st0 ((ms.filter (fun m => !isV9Msg m)).flatMap enc) =
        (st0', .done (pkts.filter (fun p => !isV9Pkt p))) ∧
      ReprIp D'.ip st' ∧ ReprIp D'.ip st0' ∧ Repr9 v0 st0' := by
  obtain ⟨st', h1, h2⟩ := C06_refine_call_partial c names H ms D D' st pkts hR hconf hexp
  obtain ⟨e1, e2⟩ := expMsgs_drop_v9 c names v0 ms D D' pkts hexp hconf
  obtain ⟨st0', h3, h4⟩ := C06_refine_call_partial c names H _ _ _ st0 _ hR0 e2 e1
  exact ⟨st', st0', h1, h3, h2.ip, h4.ip, h4.v9⟩

/-! ### non-vacuity: a concrete mixed history -/

def c06rCfg : Config := { t := Generated.tables, allowed := [5, 7, 9, 10] }

/-- a V5 packet with one record (10.0.0.1 → 10.0.0.2, ports 1234 → 80, protocol number `proto`) -/
def c06rV5 (proto : Nat) : Msg :=
  .v5 [1000, 1700000000, 5, 77, 1, 2, 100]
    [[167772161, 167772162, 0, 1, 2, 10, 1000, 100, 200, 1234, 80, 0, 24, proto, 0, 0, 0, 24, 24, 0]]

/-- V9: template 256 = (IPV4_SRC_ADDR/4, PROTOCOL/1, IN_BYTES/2, LAST_SWITCHED/4) -/
def c06rV9T : Msg :=
  .v9 { count := 1, sysUpTime := 1000, unixSecs := 1700000000, seq := 7, sourceId := 42, sets := [.templates [exTemplate] []] }

/-- V9: one data record for template 256, two bytes of padding -/
def c06rV9D : Msg :=
  .v9 { count := 1, sysUpTime := 2000, unixSecs := 1700000001, seq := 8, sourceId := 42,
        sets := [.data 256 [[[10, 0, 0, 1], [6], [1, 0], [0, 0, 4, 210]]] [0, 0]] }

/-- IPFIX: template 256 (the SAME id as the V9 template) = (protocolIdentifier/1) -/
def c06rIpT : Msg :=
  .ipfix { exportTime := 1, seq := 2, odid := 3,
           sets := [.templates [{ id := 256, fields := [{ typ := 4, len := 1, ent := none }] }] []] }

/-- IPFIX: two data records for template 256 -/
def c06rIpD : Msg :=
  .ipfix { exportTime := 4, seq := 5, odid := 3, sets := [.data 256 [[⟨[6], .fixed⟩], [⟨[17], .fixed⟩]] []] }

/-- call 1: V5 packet + V9 template message; call 2: V9 data message -/
def c06rHist : List (List Msg) := [[c06rV5 6, c06rV9T], [c06rV9D]]

/-- the same with IPFIX messages using the same template id interleaved -/
def c06rHistMixed : List (List Msg) := [[c06rV5 6, c06rV9T, c06rIpT], [c06rV9D, c06rIpD]]

/-- a different cut of the same stream into calls -/
def c06rHistMixed' : List (List Msg) := [[c06rV5 6], [c06rV9T, c06rIpT, c06rV9D], [], [c06rIpD]]

/-- the hypotheses of `C06_refine_generated_partial` hold for the two-call history -/
example : MsgsConformant c06rCfg Generated.protoNames {} c06rHist.flatten = true ∧
    expAllPkt c06rCfg Generated.protoNames {} c06rHist.flatten = true := by decide +kernel

/-- …hence it is refined call by call -/
example : Refines c06rCfg Generated.protoNames {} {} c06rHist :=
  C06_refine_generated_partial c06rCfg rfl (by decide) (by decide) (by decide) (by decide) c06rHist
    (by decide +kernel) (by decide +kernel)

/-- the mixed history (V5, V9 and IPFIX in the same buffers, same template id in both protocols) -/
example : Refines c06rCfg Generated.protoNames {} {} c06rHistMixed :=
  C06_refine_generated_partial c06rCfg rfl (by decide) (by decide) (by decide) (by decide) c06rHistMixed
    (by decide +kernel) (by decide +kernel)

/-- the conclusion, evaluated: the V9 data message of call 2 is decoded with the template that
    arrived in call 1 (and not with the IPFIX template of the same id), the IPFIX data with the
    IPFIX template -/
example : ((foldCalls c06rCfg {} (c06rHistMixed.map (·.flatMap enc))).2.drop 3) =
    [.v9 [9, 1, 2000, 1700000001, 8, 42]
       [⟨256, 17, .data [[(0, 8, .ip4 167772161), (1, 4, .proto 6), (2, 1, .num (.u16 256)), (3, 21, .dur 1 234000000)]] [0, 0]⟩],
     .ipfix [10, 22, 4, 5, 3]
       [⟨256, 6, .data [[(0, 4, .num (.u8 6))], [(0, 4, .num (.u8 17))]] []⟩]] := by
  decide +kernel

/-- corollary (b) instantiated: the other cut gives the same state and the same packets -/
example : foldCalls c06rCfg {} (c06rHistMixed'.map (·.flatMap enc)) = foldCalls c06rCfg {} (c06rHistMixed.map (·.flatMap enc)) := by
  obtain ⟨D', pkts, he⟩ := expAllPkt_elim (c := c06rCfg) (names := Generated.protoNames) (D := {})
    (ms := c06rHistMixed.flatten) (by decide +kernel)
  exact (C06_refine_split_independent_partial c06rCfg Generated.protoNames
    (SideConds.generated c06rCfg rfl (by decide) (by decide) (by decide) (by decide))
    c06rHistMixed c06rHistMixed' {} D' {} pkts Repr.empty (by decide) (by decide +kernel) he).1

/-- corollary (c) instantiated: parsing the stream without its IPFIX messages from the empty parser
    gives the three non-IPFIX packets of the mixed run -/
example : ∃ st0', parseBytes c06rCfg {} ((c06rHistMixed.flatten.filter (fun m => !isIpfixMsg m)).flatMap enc) =
    (st0', .done (((foldCalls c06rCfg {} (c06rHistMixed.map (·.flatMap enc))).2).filter (fun p => !isIpfixPkt p))) := by
  have H := SideConds.generated c06rCfg rfl (by decide) (by decide) (by decide) (by decide)
  obtain ⟨D', pkts, he⟩ := expAllPkt_elim (c := c06rCfg) (names := Generated.protoNames) (D := {})
    (ms := c06rHistMixed.flatten) (by decide +kernel)
  have hc : MsgsConformant c06rCfg Generated.protoNames {} c06rHistMixed.flatten = true := by decide +kernel
  obtain ⟨_, _, hf, _⟩ := C06_refine_partial c06rCfg _ H c06rHistMixed {} D' {} pkts Repr.empty hc he
  obtain ⟨_, st0', _, h2, _⟩ := C06_refine_v9_blind_to_ipfix_partial c06rCfg _ H c06rHistMixed.flatten {} D' {} {} [] pkts
    Repr.empty Repr.empty hc he
  rw [hf]
  exact ⟨st0', h2⟩

/-! ### witness: the V5/V7 protocol-name hypothesis is needed, `C06_refine_full` is false -/

/-- KNOWN CRATE DEFECT (`From<u8> for ProtocolTypes`, numbers 0, 1, 144, 255): for a V5 record with
    protocol number 1 (ICMP) the specification expects the variant `Icmp` (discriminant 1), the crate
    reports `Hopopt` (discriminant 0); the message is accepted by the specification (`expAllPkt`),
    is not `MsgConformant`, and the conclusion of the refinement fails for it (`callOk = false`). -/
theorem C06_refine_v5_proto_fails :
    callOk c06rCfg Generated.protoNames {} {} [c06rV5 1] = false ∧
    expAllPkt c06rCfg Generated.protoNames {} [c06rV5 1] = true ∧
    MsgConformant c06rCfg Generated.protoNames {} (c06rV5 1) = false ∧
    MsgConformant c06rCfg Generated.protoNames {} (c06rV5 6) = true := by
  decide +kernel

/-- **the full-strength refinement statement is false of the model** -/
theorem C06_refine_full_fails : ¬ C06_refine_full := by
  intro h
  obtain ⟨D', pkts, he⟩ := expAllPkt_elim C06_refine_v5_proto_fails.2.1
  have hr := h c06rCfg rfl (by decide) (by decide) (by decide) (by decide) [[c06rV5 1]] D' pkts he
  have := Refines.callOk hr
  rw [C06_refine_v5_proto_fails.1] at this
  exact absurd this (by decide)

end Netflow.Props
