/-
  Props/C07.lean — C07 on the model: a data flowset / set whose template id is in neither cache
  of its protocol is never decoded into records; V9 reports the packet as an error, IPFIX stops
  the message in front of that set; the caches are unchanged by it.
  Property theorems only; helper lemmas live in Lemmas/A2State.lean.
-/
import NetflowModel.Lemmas.A2State
import NetflowModel.Props.C02
namespace Netflow.Props
open Netflow Preds

/-! ### 1. V9 -/

/-- **C07.1 / C07.4** a V9 data flowset body for an id in neither V9 map: error, state unchanged
    (the IPFIX maps are not consulted at all). -/
theorem C07_v9_unknown (c : Config) (st : PState) (id : Nat) (body : Bytes)
    (h1 : id ≠ c.t.v9TemplateId) (h2 : id ≠ c.t.v9OptTemplateId)
    (hO : amLookup id st.v9O = none) (hT : amLookup id st.v9T = none) :
    v9ParseBody c st id body = (st, .err) := by
  simp [v9ParseBody, h1, h2, hO, hT]

/-- the flowset carrying it: error, state unchanged -/
theorem C07_v9_unknown_set (c : Config) (st : PState) (i : Bytes) (hd : List Nat) (r body r' : Bytes)
    (hh : parseLayout c.t.protoFromU8 c.t.v9SetHdr i = some (hd, r))
    (ht : takeN (c.t.v9SetHdr.get "length" hd - 4) r = some (body, r'))
    (h1 : c.t.v9SetHdr.get "flowset_id" hd ≠ c.t.v9TemplateId)
    (h2 : c.t.v9SetHdr.get "flowset_id" hd ≠ c.t.v9OptTemplateId)
    (hO : amLookup (c.t.v9SetHdr.get "flowset_id" hd) st.v9O = none)
    (hT : amLookup (c.t.v9SetHdr.get "flowset_id" hd) st.v9T = none) :
    v9ParseSet c st i = (st, .err) := by
  simp [v9ParseSet, hh, ht, C07_v9_unknown c st _ body h1 h2 hO hT]

/-- a failing flowset at the head of the remaining input fails the flowset loop with the state
    as it was in front of that flowset -/
theorem C07_v9_unknown_sets (c : Config) (st : PState) (n : Nat) (i : Bytes) (hne : i ≠ [])
    (h : v9ParseSet c st i = (st, .err)) : v9ParseSets c (n + 1) st i = (st, .err) := by
  have : i.isEmpty = false := by cases i <;> simp_all
  simp [v9ParseSets, this, h]

/-- an error in a later flowset propagates; the state is the one produced by the preceding
    flowsets (templates they defined stay defined, nothing else changes) -/
theorem C07_v9_err_propagates (c : Config) (st st1 st2 : PState) (n : Nat) (i r : Bytes) (s : V9Set) (hne : i ≠ [])
    (h1 : v9ParseSet c st i = (st1, .ok (s, r))) (h2 : v9ParseSets c n st1 r = (st2, .err)) :
    v9ParseSets c (n + 1) st i = (st2, .err) := by
  have : i.isEmpty = false := by cases i <;> simp_all
  simp [v9ParseSets, this, h1, h2]

/-- the flowset loop reports an error only with the state produced by the sets before it:
    an error from `k` flowsets deep is the packet's result -/
theorem C07_v9_packet_error (c : Config) (st st' : PState) (i : Bytes) (hd : List Nat) (r : Bytes)
    (hh : parseLayout c.t.protoFromU8 c.t.v9Hdr i = some (hd, r))
    (h : v9ParseSets c (c.t.v9Hdr.get "count" hd) st r = (st', .err)) :
    parseV9 c st i = (st', .err) ∧
    parseVersioned c st 9 i = (st', .fail (.partialParse 9 i)) := by
  have e : parseV9 c st i = (st', .err) := by simp [parseV9, hh, h]
  exact ⟨e, by simp [parseVersioned, e, liftRes]⟩

/-- a failing packet is reported as the final error element carrying the whole remaining buffer;
    nothing is decoded from it or after it -/
theorem C07_failed_packet_reported (c : Config) (st st' : PState) (buf : Bytes) (e : ErrKind)
    (h : parsePacket c st buf = (st', .fail e)) (hne : buf ≠ []) :
    parseBytes c st buf = (st', .done [.error e buf]) := by
  have : buf.isEmpty = false := by cases buf <;> simp_all
  simp [parseBytes, parseBytesF, this, h]

/-! ### 2. IPFIX -/

/-- **C07.2 / C07.4** an IPFIX data set body for an id in neither IPFIX map: error, state unchanged -/
theorem C07_ipfix_unknown (c : Config) (st : PState) (id : Nat) (body : Bytes)
    (h1 : c.t.ipSetMinRange ≤ id) (h2 : id ≠ c.t.ipOptTemplateId)
    (hT : amLookup id st.ipT = none) (hO : amLookup id st.ipO = none) :
    ipParseBody c st id body = (st, .err) := by
  have : ¬ (id < c.t.ipSetMinRange) := by omega
  simp [ipParseBody, this, h2, hO, hT]

theorem C07_ipfix_unknown_set (c : Config) (st : PState) (i : Bytes) (hd : List Nat) (r body r' : Bytes)
    (hh : parseLayout c.t.protoFromU8 c.t.ipSetHdr i = some (hd, r))
    (ht : takeN (c.t.ipSetHdr.get "length" hd - 4) r = some (body, r'))
    (h1 : c.t.ipSetMinRange ≤ c.t.ipSetHdr.get "header_id" hd)
    (h2 : c.t.ipSetHdr.get "header_id" hd ≠ c.t.ipOptTemplateId)
    (hT : amLookup (c.t.ipSetHdr.get "header_id" hd) st.ipT = none)
    (hO : amLookup (c.t.ipSetHdr.get "header_id" hd) st.ipO = none) :
    ipParseSet c st i = (st, .err) := by
  simp [ipParseSet, hh, ht, C07_ipfix_unknown c st _ body h1 h2 hT hO]

/-- the set loop STOPS in front of a set that does not parse: nothing from it, nothing after it,
    the sets before it are kept (next theorem), state as in front of it -/
theorem C07_ipfix_sets_stop (c : Config) (st st' : PState) (f : Nat) (i : Bytes)
    (h : ipParseSet c st i = (st', .err)) : ipParseSets c (f + 1) st i = (st', .ok []) := by
  simp [ipParseSets, h]

/-- sets decoded before the failing one are kept -/
theorem C07_ipfix_sets_keep_earlier (c : Config) (st st1 st2 : PState) (f : Nat) (i r : Bytes) (s : IpSet) (ss : List IpSet)
    (h1 : ipParseSet c st i = (st1, .ok (s, r))) (hl : r.length ≠ i.length)
    (h2 : ipParseSets c f st1 r = (st2, .ok ss)) : ipParseSets c (f + 1) st i = (st2, .ok (s :: ss)) := by
  simp [ipParseSets, h1, hl, h2]

/-- the message is still a successfully decoded IPFIX packet, consuming its announced length -/
theorem C07_ipfix_message_ok (c : Config) (st st' : PState) (i : Bytes) (hd : List Nat) (r body r' : Bytes) (ss : List IpSet)
    (hh : parseLayout c.t.protoFromU8 c.t.ipHdr i = some (hd, r))
    (ht : takeN (c.t.ipHdr.get "length" hd - 16) r = some (body, r'))
    (h : ipParseSets c (body.length + 1) st body = (st', .ok ss)) :
    parseIpfix c st i = (st', .ok (.ipfix hd ss, r')) := by
  simp [parseIpfix, hh, ht, h]

/-! ### 3. the `unwrap_or_default()` fallbacks are unreachable: records only under a cached template -/

/-- **C07.3** V9: a decoded data body exists only if the id has a cached template; a decoded
    options-data body only if it has a cached options template; and the state is unchanged. -/
theorem C07_no_records_v9 (c : Config) (st st' : PState) (id : Nat) (body : Bytes) :
    (∀ recs pad, v9ParseBody c st id body = (st', .ok (.data recs pad)) →
        (amLookup id st.v9T).isSome ∧ amLookup id st.v9O = none ∧ st' = st) ∧
    (∀ ss os pad, v9ParseBody c st id body = (st', .ok (.optData ss os pad)) →
        (amLookup id st.v9O).isSome ∧ st' = st) := by
  constructor
  · intro recs pad h
    unfold v9ParseBody at h
    grind
  · intro ss os pad h
    unfold v9ParseBody at h
    grind

/-- **C07.3** IPFIX, same -/
theorem C07_no_records_ipfix (c : Config) (st st' : PState) (id : Nat) (body : Bytes) :
    (∀ recs pad, ipParseBody c st id body = (st', .ok (.data recs pad)) →
        (amLookup id st.ipT).isSome ∧ st' = st) ∧
    (∀ recs pad, ipParseBody c st id body = (st', .ok (.optData recs pad)) →
        (amLookup id st.ipO).isSome ∧ amLookup id st.ipT = none ∧ st' = st) := by
  constructor
  · intro recs pad h
    unfold ipParseBody at h
    grind
  · intro recs pad h
    unfold ipParseBody at h
    grind

/-- **C07.3** in the contrapositive reading of the property: an id unknown to the protocol never
    yields a decoded body of any kind (so no `V9Set` / `IpSet` for it can appear in a result) -/
theorem C07_unknown_never_ok (c : Config) (st : PState) (id : Nat) (body : Bytes) :
    (id ≠ c.t.v9TemplateId → id ≠ c.t.v9OptTemplateId → amLookup id st.v9O = none → amLookup id st.v9T = none →
      ∀ b, (v9ParseBody c st id body).2 ≠ .ok b) ∧
    (c.t.ipSetMinRange ≤ id → id ≠ c.t.ipOptTemplateId → amLookup id st.ipT = none → amLookup id st.ipO = none →
      ∀ b, (ipParseBody c st id body).2 ≠ .ok b) := by
  constructor
  · intro h1 h2 hO hT b; rw [C07_v9_unknown c st id body h1 h2 hO hT]; simp
  · intro h1 h2 hT hO b; rw [C07_ipfix_unknown c st id body h1 h2 hT hO]; simp

/-- the other protocol's caches are irrelevant: an id defined ONLY for IPFIX is unknown to V9 and
    vice versa (whatever `ipT`/`ipO` contain) -/
theorem C07_other_protocol_irrelevant (c : Config) (st : PState) (id : Nat) (body : Bytes)
    (ipT : List (Nat × IpTemplate)) (ipO : List (Nat × IpOptTemplate))
    (h1 : id ≠ c.t.v9TemplateId) (h2 : id ≠ c.t.v9OptTemplateId)
    (hO : amLookup id st.v9O = none) (hT : amLookup id st.v9T = none) :
    v9ParseBody c { st with ipT := ipT, ipO := ipO } id body = ({ st with ipT := ipT, ipO := ipO }, .err) :=
  C07_v9_unknown c _ id body h1 h2 hO hT

/-! ### 4. the state is unchanged -/

/-- **C07.4** summary: in every unknown-template situation above the caches are returned unchanged. -/
theorem C07_unknown_keeps_state (c : Config) (st : PState) (id : Nat) (body : Bytes) :
    (id ≠ c.t.v9TemplateId → id ≠ c.t.v9OptTemplateId → amLookup id st.v9O = none → amLookup id st.v9T = none →
      (v9ParseBody c st id body).1 = st) ∧
    (c.t.ipSetMinRange ≤ id → id ≠ c.t.ipOptTemplateId → amLookup id st.ipT = none → amLookup id st.ipO = none →
      (ipParseBody c st id body).1 = st) := by
  constructor
  · intro h1 h2 hO hT; rw [C07_v9_unknown c st id body h1 h2 hO hT]
  · intro h1 h2 hT hO; rw [C07_ipfix_unknown c st id body h1 h2 hT hO]

/-! ### 5. whole call -/

/-- **C07** (whole call, any buffer, any earlier state): every data flowset / set that appears in
    ANY packet returned by `parse_bytes` carries an id that is known to its protocol's caches when
    the call returns.  (`DataKnown`, Lemmas/A2State.lean; ids are never evicted — C06 — so "known
    at the end" is implied by "known when it was decoded".) -/
theorem C07_records_only_for_known (c : Config) (st st' : PState) (buf : Bytes) (pkts : List Packet)
    (h : parseBytes c st buf = (st', .done pkts)) : ∀ p ∈ pkts, DataKnown c st' p :=
  parseBytesF_dk c _ _ _ _ _ h

/-- **C07** contrapositive, in the shape of the first conjunct of `Preds.noRecordsFor`: if `tid`
    (a data-set id) is STILL unknown to V9 when the call returns, no V9 packet of the result
    contains a flowset with that id; same for IPFIX. -/
theorem C07_no_set_for_unknown (c : Config) (st st' : PState) (buf : Bytes) (pkts : List Packet) (tid : Nat)
    (h : parseBytes c st buf = (st', .done pkts)) :
    (tid ≠ c.t.v9TemplateId → tid ≠ c.t.v9OptTemplateId → ¬ KnownV9 st' tid →
      ∀ hd ss, Packet.v9 hd ss ∈ pkts → ∀ s ∈ ss, s.id ≠ tid) ∧
    (c.t.ipSetMinRange ≤ tid → tid ≠ c.t.ipOptTemplateId → ¬ KnownIp st' tid →
      ∀ hd ss, Packet.ipfix hd ss ∈ pkts → ∀ s ∈ ss, s.id ≠ tid) := by
  have hk := C07_records_only_for_known c st st' buf pkts h
  constructor
  · intro h1 h2 hn hd ss hp s hs e
    have := hk _ hp s hs (by rw [e]; exact h1) (by rw [e]; exact h2)
    rw [e] at this
    exact hn this
  · intro h1 h2 hn hd ss hp s hs e
    have := hk _ hp s hs (by rw [e]; exact h1) (by rw [e]; exact h2)
    rw [e] at this
    exact hn this

end Netflow.Props

/-! ### non-vacuity: concrete objects meeting the hypotheses of the theorems above -/
namespace Netflow.Props
open Netflow Preds

private def c07Cfg : Config := { t := Generated.tables, allowed := [5, 7, 9, 10] }
/-- a state that knows id 256 only for IPFIX -/
private def c07St : PState :=
  { ipT := [(256, { id := 256, fieldCount := 1, fields := [{ typ := 1, len := 3, ent := none }], pad := [] })] }
/-- V9 data flowset for id 256 -/
private def c07Set : Bytes := [1,0, 0,8, 1,2,3, 0]

/-- hypotheses of `C07_v9_unknown` / `C07_other_protocol_irrelevant`: 256 is a data id, in neither
    V9 map (although IPFIX knows it) -/
example : (256 ≠ c07Cfg.t.v9TemplateId ∧ 256 ≠ c07Cfg.t.v9OptTemplateId) ∧
    amLookup 256 c07St.v9O = none ∧ amLookup 256 c07St.v9T = none ∧ (amLookup 256 c07St.ipT).isSome := by decide

/-- hypotheses of `C07_v9_unknown_set`: header and body of the flowset are present -/
example : parseLayout c07Cfg.t.protoFromU8 c07Cfg.t.v9SetHdr c07Set = some ([256, 8], [1, 2, 3, 0]) ∧
    takeN (8 - 4) [1, 2, 3, 0] = some ([1, 2, 3, 0], []) := by decide

/-- hypotheses of `C07_v9_err_propagates`: flowset 1 defines template 257, flowset 2 is data for the
    unknown 256 — the error carries the state in which 257 is defined -/
example : (v9ParseSet c07Cfg {} ([0,0, 0,12, 1,1, 0,1, 0,1, 0,3] ++ c07Set)).2 =
      .ok ({ id := 0, len := 12, body := .templates [{ id := 257, fieldCount := 1, fields := [{ typ := 1, len := 3 }] }] [] }, c07Set) ∧
    v9ParseSets c07Cfg 2 {} ([0,0, 0,12, 1,1, 0,1, 0,1, 0,3] ++ c07Set) =
      ({ v9T := [(257, { id := 257, fieldCount := 1, fields := [{ typ := 1, len := 3 }] })] }, .err) := by decide

/-- whole call, V9: the packet is reported as an error, caches unchanged, although IPFIX knows 256 -/
example : parseBytes c07Cfg c07St ([0,9, 0,1, 0,0,0,1, 0,0,0,2, 0,0,0,3, 0,0,0,4] ++ c07Set) =
    (c07St, .done [.error (.partialParse 9 ([0,1, 0,0,0,1, 0,0,0,2, 0,0,0,3, 0,0,0,4] ++ c07Set))
                     ([0,9, 0,1, 0,0,0,1, 0,0,0,2, 0,0,0,3, 0,0,0,4] ++ c07Set)]) := by decide

/-- whole call, IPFIX from the empty state: the message is reported without the set, caches unchanged
    (hypotheses of `C07_ipfix_unknown*`, `C07_ipfix_sets_stop`, `C07_ipfix_message_ok`) -/
example : parseBytes c07Cfg {} ([0,10, 0,24, 0,0,0,1, 0,0,0,2, 0,0,0,3] ++ c07Set) =
    ({}, .done [.ipfix [10, 24, 1, 2, 3] []]) := by decide

/-- `C07_ipfix_sets_keep_earlier`: a template set for 257 followed by data for the unknown 256 —
    the first set is kept, the second omitted -/
example : (parseBytes c07Cfg {} ([0,10, 0,36, 0,0,0,1, 0,0,0,2, 0,0,0,3,  0,2, 0,12, 1,1, 0,1, 0,1, 0,3] ++ c07Set)).2 =
    .done [.ipfix [10, 36, 1, 2, 3]
      [{ id := 2, len := 12, body := .template { id := 257, fieldCount := 1, fields := [{ typ := 1, len := 3, ent := none }], pad := [] } }]] := by
  decide

/-- `C07_no_records_*`: a decoded data body does exist once the template is known (same bytes) -/
example : ipParseBody c07Cfg c07St 256 [1, 2, 3, 0] = (c07St, .ok (.data [[(0, 1, .num (.u24 66051))]] [0])) := by decide

/-- `C07_failed_packet_reported`: earlier packets of the buffer are still reported — a V5 packet
    followed by the V9 packet with the unknown data flowset -/
example : (parseBytes c07Cfg {} ([0, 5, 0, 0, 0, 0, 0, 1, 0, 0, 0, 2, 0, 0, 0, 3, 0, 0, 0, 4, 5, 6, 0, 7] ++
      [0,9, 0,1, 0,0,0,1, 0,0,0,2, 0,0,0,3, 0,0,0,4] ++ c07Set)).2 =
    .done [.v5 [5, 0, 1, 2, 3, 4, 5, 6, 7] [],
           .error (.partialParse 9 ([0,1, 0,0,0,1, 0,0,0,2, 0,0,0,3, 0,0,0,4] ++ c07Set))
             ([0,9, 0,1, 0,0,0,1, 0,0,0,2, 0,0,0,3, 0,0,0,4] ++ c07Set)] ∧
    noRecordsFor 256 9 [.v5 [5, 0, 1, 2, 3, 4, 5, 6, 7] [],
           .error (.partialParse 9 ([0,1, 0,0,0,1, 0,0,0,2, 0,0,0,3, 0,0,0,4] ++ c07Set))
             ([0,9, 0,1, 0,0,0,1, 0,0,0,2, 0,0,0,3, 0,0,0,4] ++ c07Set)] = true := by decide

end Netflow.Props
