/-
  Props/H1.lean — the per-call property theorems lifted to ARBITRARY HISTORIES of calls on one parser
  value in which the caller may change the public field `allowed_versions` between calls
  (`H1.Call`, `H1.runHistory`, `H1.stateBefore`, Lemmas/H1History.lean), plus one cross-cutting corollary
  about the JSON text (C16).

  Every history theorem is the corresponding per-call theorem applied at the cache state the history has
  reached (`H1.call_eq`): the per-call theorems are quantified over the start state AND over the
  configuration, and nothing but the four caches is carried from one call to the next
  (`C06_no_global_state`), so what earlier calls allowed or refused matters only through the caches.

    C01  `C01_history_returns`, `C01_history_returns_at`
    C02  `C02_history`, `C02_history_generated`
    C06  `C06_history_wf`, `C06_history_wf_from_empty`, `C06_history_disallowed_frame`
    C12  `C12_history`, `C12_history_generated`, `C12_history_refused_teaches_nothing`
    C07  `C07_history_refused_template_stays_unknown_v9` / `_ipfix` (+ `_generated` first-set forms),
         `C07_history_no_set_for_unknown`
    C14  `C14_history`, `C14_history_generated`
    C16  `C16_text_determines_value_partial`, `C16_text_equal_text_partial`,
         `C16_text_determines_value_full` (a `Prop`) and `C16_text_determines_value_full_fails`
-/
import NetflowModel.Lemmas.H1History
import NetflowModel.Props.C01
import NetflowModel.Props.C06
import NetflowModel.Props.C07b
import NetflowModel.Props.C12
import NetflowModel.Props.C14
import NetflowModel.Props.C16b
namespace Netflow.Props
open Netflow Preds Netflow.H1 Netflow.C1x

/-! ### C01 — every call of every history returns -/

/-- **C01 over histories**: whatever the start caches, whatever the allowed sets of the individual calls,
    every call of the history returns a list (`.done _`): no panic, no exhausted loop.  (`C01_returns` has no
    side condition on the tables, so none is needed here.) -/
theorem C01_history_returns (t : Tables) (uf : Bool) (st : PState) (hist : List Call) :
    ∀ o ∈ (runHistory t uf st hist).2, ∃ pkts, o = .done pkts :=
  outcomes_all (Q := fun o => ∃ pkts, o = .done pkts) t uf (fun call s => C01_returns (cfgOf t uf call) s call.buf) st hist

/-- indexed form: the k-th call returns -/
theorem C01_history_returns_at (t : Tables) (uf : Bool) (st : PState) (hist : List Call) (k : Nat) (call : Call)
    (hk : hist[k]? = some call) : ∃ pkts, (runHistory t uf st hist).2[k]? = some (.done pkts) := by
  obtain ⟨pkts, hp⟩ := C01_returns (cfgOf t uf call) (stateBefore t uf st hist k) call.buf
  exact ⟨pkts, by rw [outcome_eq t uf st hist k call hk, hp]⟩

/-- for the tables generated from the Rust source, from the fresh parser -/
theorem C01_history_returns_generated (uf : Bool) (hist : List Call) :
    ∀ o ∈ (runHistory Generated.tables uf {} hist).2, ∃ pkts, o = .done pkts :=
  C01_history_returns Generated.tables uf {} hist

/-- one outcome per call -/
theorem C01_history_one_outcome_per_call (t : Tables) (uf : Bool) (st : PState) (hist : List Call) :
    (runHistory t uf st hist).2.length = hist.length := runHistory_length t uf st hist

/-! ### C02 — every call's result decomposes that call's buffer under that call's allowed set -/

/-- **C02 over histories**: the list returned by the k-th call is a left-to-right decomposition of the k-th
    buffer, where "silent stop" is judged by the allowed set in force DURING THAT CALL. -/
theorem C02_history (t : Tables) (hf : t.framingOk = true) (uf : Bool) (st : PState) (hist : List Call) (k : Nat)
    (call : Call) (hk : hist[k]? = some call) :
    ∃ pkts, (runHistory t uf st hist).2[k]? = some (.done pkts) ∧
      decomposes (cfgOf t uf call) call.buf pkts = true := by
  obtain ⟨o, ho, hc⟩ := call_eq t uf st hist k call hk
  obtain ⟨pkts, hp⟩ := C01_returns (cfgOf t uf call) (stateBefore t uf st hist k) call.buf
  rw [hc] at hp
  simp only at hp
  subst hp
  exact ⟨pkts, ho, C02 (cfgOf t uf call) hf _ _ _ _ hc⟩

theorem C02_history_generated (uf : Bool) (st : PState) (hist : List Call) (k : Nat) (call : Call)
    (hk : hist[k]? = some call) :
    ∃ pkts, (runHistory Generated.tables uf st hist).2[k]? = some (.done pkts) ∧
      decomposes { t := Generated.tables, allowed := call.allowed, unknownFields := uf } call.buf pkts = true :=
  C02_history Generated.tables C02_generated_framing uf st hist k call hk

/-! ### C06 — the caches stay canonical; a refused buffer is a no-op -/

/-- **C06 over histories**: `StateWf` (strictly sorted keys in all four maps) holds at the start of every call
    and at the end of the history. -/
theorem C06_history_wf (t : Tables) (uf : Bool) (st : PState) (hist : List Call) (h : StateWf st) :
    (∀ k, StateWf (stateBefore t uf st hist k)) ∧ StateWf (runHistory t uf st hist).1 := by
  have hk : ∀ k, StateWf (stateBefore t uf st hist k) := fun k =>
    stateBefore_inv (I := StateWf) t uf (fun call s hs => C06_state_wf (cfgOf t uf call) s call.buf hs) st hist k h
  exact ⟨hk, by rw [runHistory_final]; exact hk _⟩

/-- from the fresh parser -/
theorem C06_history_wf_from_empty (t : Tables) (uf : Bool) (hist : List Call) :
    (∀ k, StateWf (stateBefore t uf {} hist k)) ∧ StateWf (runHistory t uf {} hist).1 :=
  C06_history_wf t uf {} hist C06_state_wf_empty

/-- **C06 over histories, refused call**: if the FIRST version word of the k-th buffer is not in the k-th
    call's allowed set, that call returns `[]` and leaves all four caches as they were — whatever the rest of
    the buffer is, and whatever earlier or later calls allow.  (Lifting of `C06_disallowed_frame`.) -/
theorem C06_history_disallowed_frame (t : Tables) (uf : Bool) (st : PState) (hist : List Call) (k : Nat) (call : Call)
    (v : Nat) (hk : hist[k]? = some call) (hv : versionOf call.buf = some v) (ha : call.allowed.contains v = false) :
    stateBefore t uf st hist (k + 1) = stateBefore t uf st hist k ∧
    (runHistory t uf st hist).2[k]? = some (.done []) := by
  obtain ⟨o, ho, hc⟩ := call_eq t uf st hist k call hk
  rw [C06_disallowed_frame (cfgOf t uf call) _ call.buf v hv ha] at hc
  simp only [Prod.mk.injEq] at hc
  exact ⟨hc.1.symm, by rw [ho, ← hc.2]⟩

/-! ### C12 — the allowed set of a call filters THAT call, from the state the history has reached -/

/-- **C12 over histories**: let `S_k` be the allowed set of the k-th call and `s_k = stateBefore … k`.  The
    all-allowed run of the k-th buffer FROM `s_k` returns some list `pktsA`; the k-th call returns exactly
    `takeAllowed … S_k … pktsA` and ends in the cache state the all-allowed run had after that many packet steps.
    What earlier calls allowed or refused enters only through `s_k`. -/
theorem C12_history (t : Tables) (hf : t.framingOk = true) (uf : Bool) (A : List Nat) (hA : AllowsAll A)
    (st : PState) (hist : List Call) (k : Nat) (call : Call) (hk : hist[k]? = some call) :
    ∃ stA pktsA,
      parseBytes { t := t, allowed := A, unknownFields := uf } (stateBefore t uf st hist k) call.buf = (stA, .done pktsA) ∧
      (runHistory t uf st hist).2[k]? =
        some (.done (takeAllowed { t := t, allowed := A, unknownFields := uf } call.allowed (call.buf.length + 1) call.buf pktsA)) ∧
      stateBefore t uf st hist (k + 1) =
        stateAfter { t := t, allowed := A, unknownFields := uf } (call.buf.length + 1)
          (takeAllowed { t := t, allowed := A, unknownFields := uf } call.allowed (call.buf.length + 1) call.buf pktsA).length
          (stateBefore t uf st hist k) call.buf := by
  obtain ⟨o, ho, hc⟩ := call_eq t uf st hist k call hk
  obtain ⟨pktsA, hpA⟩ := C01_returns { t := t, allowed := A, unknownFields := uf } (stateBefore t uf st hist k) call.buf
  have hall : parseBytes { t := t, allowed := A, unknownFields := uf } (stateBefore t uf st hist k) call.buf =
      ((parseBytes { t := t, allowed := A, unknownFields := uf } (stateBefore t uf st hist k) call.buf).1, .done pktsA) := by
    rw [← hpA]
  have hflt := C12_filter { t := t, allowed := [], unknownFields := uf } hf call.allowed A hA _ _ call.buf pktsA hall
  have hc' : parseBytes (Config.withAllowed { t := t, allowed := [], unknownFields := uf } call.allowed)
      (stateBefore t uf st hist k) call.buf = (stateBefore t uf st hist (k + 1), o) := hc
  rw [hflt] at hc'
  simp only [Prod.mk.injEq] at hc'
  exact ⟨_, pktsA, hall, by rw [ho, ← hc'.2], hc'.1.symm⟩

theorem C12_history_generated (uf : Bool) (A : List Nat) (hA : AllowsAll A)
    (st : PState) (hist : List Call) (k : Nat) (call : Call) (hk : hist[k]? = some call) :
    ∃ stA pktsA,
      parseBytes { t := Generated.tables, allowed := A, unknownFields := uf } (stateBefore Generated.tables uf st hist k) call.buf =
        (stA, .done pktsA) ∧
      (runHistory Generated.tables uf st hist).2[k]? =
        some (.done (takeAllowed { t := Generated.tables, allowed := A, unknownFields := uf } call.allowed
          (call.buf.length + 1) call.buf pktsA)) ∧
      stateBefore Generated.tables uf st hist (k + 1) =
        stateAfter { t := Generated.tables, allowed := A, unknownFields := uf } (call.buf.length + 1)
          (takeAllowed { t := Generated.tables, allowed := A, unknownFields := uf } call.allowed
            (call.buf.length + 1) call.buf pktsA).length
          (stateBefore Generated.tables uf st hist k) call.buf :=
  C12_history Generated.tables C02_generated_framing uf A hA st hist k call hk

/-- **C12 over histories, a refused packet teaches nothing**: if the first version word of the k-th buffer is
    not in `S_k`, the caches at the start of call `k+1` are the caches at the start of call `k` — a refused
    packet never changes the caches, whatever it contains (a template definition in particular) and whatever
    the caller allows later. -/
theorem C12_history_refused_teaches_nothing (t : Tables) (uf : Bool) (st : PState) (hist : List Call) (k : Nat)
    (call : Call) (v : Nat) (hk : hist[k]? = some call) (hv : versionOf call.buf = some v)
    (ha : call.allowed.contains v = false) :
    stateBefore t uf st hist (k + 1) = stateBefore t uf st hist k :=
  (C06_history_disallowed_frame t uf st hist k call v hk hv ha).1

/-- … and a run of refused calls of any length: if every call from position `k` to position `k + n - 1` is
    refused at its first version word, the caches at the start of call `k + n` are those at the start of call `k` -/
theorem C12_history_refused_run_teaches_nothing (t : Tables) (uf : Bool) (st : PState) (hist : List Call) (k n : Nat)
    (h : ∀ j, j < n → ∃ call v, hist[k + j]? = some call ∧ versionOf call.buf = some v ∧ call.allowed.contains v = false) :
    stateBefore t uf st hist (k + n) = stateBefore t uf st hist k := by
  induction n with
  | zero => rfl
  | succ n ih =>
    obtain ⟨call, v, hk, hv, ha⟩ := h n (Nat.lt_succ_self n)
    have := C12_history_refused_teaches_nothing t uf st hist (k + n) call v hk hv ha
    rw [← Nat.add_assoc, this]
    exact ih (fun j hj => h j (Nat.lt_succ_of_lt hj))

/-! ### C07 — a template carried by a refused packet stays unknown -/

/-- **C07 over histories, V9**: suppose template id `tid` is unknown to V9 at the start of call `k` (more
    generally: after the accepted packets `pre` in front of the packet of interest, see below), call `k` is REFUSED
    at its first version word (so whatever it carried — e.g. a template flowset defining `tid` — is not learned),
    and call `k+1`, under ANY allowed set that contains the version word of `p`, receives the buffer
    `pre.flatten ++ p` of the shape `C07_noRecordsFor_v9'` covers: `pre` a chain of self-delimiting accepted
    packets, `p` one V9 packet whose flowsets are `front` (decoding in turn, none defining `tid`) followed by a
    flowset whose header carries the data id `tid`.  Then call `k+1` reports `p` as the final `Partial` error
    element, `noRecordsFor tid 9` holds of its result, and its final caches are those reached after `front`.
    All hypotheses are about `stateBefore … k`, the state BEFORE the refused call. -/
theorem C07_history_refused_template_stays_unknown_v9 (t : Tables) (hf : t.framingOk = true) (uf : Bool)
    (st : PState) (hist : List Call) (k : Nat) (callk call' : Call) (vk : Nat)
    (hk : hist[k]? = some callk) (hvk : versionOf callk.buf = some vk) (hrk : callk.allowed.contains vk = false)
    (hk1 : hist[k + 1]? = some call')
    (st2 : PState) (pre : List Bytes) (p body : Bytes) (v : Nat) (hd : List Nat) (front : List Bytes)
    (ss : List V9Set) (b : Bytes) (sh : List Nat) (r1 : Bytes) (tid : Nat)
    (hbuf : call'.buf = pre.flatten ++ p)
    (hpre : chainOk (cfgOf t uf call') (stateBefore t uf st hist k) pre = true)
    (hv : beU 2 p = some (v, body)) (ha : call'.allowed.contains v = true) (hdp : t.dispatch.lookup v = some 9)
    (hh : parseLayout t.protoFromU8 t.v9Hdr body = some (hd, front.flatten ++ b))
    (hfront : v9SetChain (cfgOf t uf call') (foldCalls (cfgOf t uf call') (stateBefore t uf st hist k) pre).1 front = some (st2, ss))
    (hcount : front.length < t.v9Hdr.get "count" hd)
    (hs : parseLayout t.protoFromU8 t.v9SetHdr b = some (sh, r1))
    (hid : t.v9SetHdr.get "flowset_id" sh = tid)
    (h1 : tid ≠ t.v9TemplateId) (h2 : tid ≠ t.v9OptTemplateId)
    (hunk : ¬ KnownV9 (foldCalls (cfgOf t uf call') (stateBefore t uf st hist k) pre).1 tid)
    (hdef : ∀ s ∈ ss, v9Defines tid s = false) :
    (runHistory t uf st hist).2[k + 1]? =
      some (.done ((foldCalls (cfgOf t uf call') (stateBefore t uf st hist k) pre).2 ++ [.error (.partialParse 9 body) p])) ∧
    noRecordsFor tid 9 ((foldCalls (cfgOf t uf call') (stateBefore t uf st hist k) pre).2 ++ [.error (.partialParse 9 body) p]) = true ∧
    stateBefore t uf st hist (k + 2) = st2 := by
  have hsame := C12_history_refused_teaches_nothing t uf st hist k callk vk hk hvk hrk
  obtain ⟨o, ho, hc⟩ := call_eq t uf st hist (k + 1) call' hk1
  rw [hsame, hbuf] at hc
  obtain ⟨e1, e2⟩ := C07_noRecordsFor_v9' (cfgOf t uf call') hf (stateBefore t uf st hist k) st2 pre p body v hd front ss b
    sh r1 tid hpre hv ha hdp hh hfront hcount hs hid h1 h2 hunk hdef
  rw [e1] at hc
  simp only [Prod.mk.injEq] at hc
  exact ⟨by rw [ho, ← hc.2], e2, hc.1.symm⟩

/-- **C07 over histories, IPFIX**: the same with an IPFIX message `p` in the shape `C07_noRecordsFor_ipfix'`
    covers; the message is reported with exactly the sets of `front`, none of id `tid`. -/
theorem C07_history_refused_template_stays_unknown_ipfix (t : Tables) (hf : t.framingOk = true) (uf : Bool)
    (st : PState) (hist : List Call) (k : Nat) (callk call' : Call) (vk : Nat)
    (hk : hist[k]? = some callk) (hvk : versionOf callk.buf = some vk) (hrk : callk.allowed.contains vk = false)
    (hk1 : hist[k + 1]? = some call')
    (st2 : PState) (pre : List Bytes) (p body : Bytes) (v : Nat) (hd : List Nat) (r : Bytes) (front : List Bytes)
    (ss : List IpSet) (b : Bytes) (sh : List Nat) (r1 : Bytes) (tid : Nat)
    (hbuf : call'.buf = pre.flatten ++ p)
    (hpre : chainOk (cfgOf t uf call') (stateBefore t uf st hist k) pre = true)
    (hv : beU 2 p = some (v, body)) (ha : call'.allowed.contains v = true) (hdp : t.dispatch.lookup v = some 10)
    (hh : parseLayout t.protoFromU8 t.ipHdr body = some (hd, r))
    (ht : takeN (t.ipHdr.get "length" hd - 16) r = some (front.flatten ++ b, []))
    (hfront : ipSetChain (cfgOf t uf call') (foldCalls (cfgOf t uf call') (stateBefore t uf st hist k) pre).1 front = some (st2, ss))
    (hs : parseLayout t.protoFromU8 t.ipSetHdr b = some (sh, r1))
    (hid : t.ipSetHdr.get "header_id" sh = tid)
    (h1 : t.ipSetMinRange ≤ tid) (h2 : tid ≠ t.ipOptTemplateId)
    (hunk : ¬ KnownIp (foldCalls (cfgOf t uf call') (stateBefore t uf st hist k) pre).1 tid)
    (hdef : ∀ s ∈ ss, ipDefines tid s = false) :
    (runHistory t uf st hist).2[k + 1]? =
      some (.done ((foldCalls (cfgOf t uf call') (stateBefore t uf st hist k) pre).2 ++ [.ipfix hd ss])) ∧
    noRecordsFor tid 10 ((foldCalls (cfgOf t uf call') (stateBefore t uf st hist k) pre).2 ++ [.ipfix hd ss]) = true ∧
    stateBefore t uf st hist (k + 2) = st2 := by
  have hsame := C12_history_refused_teaches_nothing t uf st hist k callk vk hk hvk hrk
  obtain ⟨o, ho, hc⟩ := call_eq t uf st hist (k + 1) call' hk1
  rw [hsame, hbuf] at hc
  obtain ⟨e1, e2⟩ := C07_noRecordsFor_ipfix' (cfgOf t uf call') hf (stateBefore t uf st hist k) st2 pre p body v hd r front ss b
    sh r1 tid hpre hv ha hdp hh ht hfront hs hid h1 h2 hunk hdef
  rw [e1] at hc
  simp only [Prod.mk.injEq] at hc
  exact ⟨by rw [ho, ← hc.2], e2, hc.1.symm⟩

/-- generated tables, the plain reading of the property — V9: `tid` unknown to V9 at the start of call `k`;
    call `k` refused; call `k+1` (any allowed set containing 9) is ONE V9 packet whose first flowset is a data
    flowset for `tid`.  Then call `k+1` returns exactly the `Partial` error element and the caches are still
    those of the start of call `k`. -/
theorem C07_history_refused_template_stays_unknown_v9_generated (uf : Bool)
    (st : PState) (hist : List Call) (k : Nat) (callk call' : Call) (vk : Nat)
    (hk : hist[k]? = some callk) (hvk : versionOf callk.buf = some vk) (hrk : callk.allowed.contains vk = false)
    (hk1 : hist[k + 1]? = some call') (ha : call'.allowed.contains 9 = true)
    (body : Bytes) (hd : List Nat) (b : Bytes) (sh : List Nat) (r1 : Bytes) (tid : Nat)
    (hbuf : call'.buf = [0, 9] ++ body)
    (hh : parseLayout Generated.tables.protoFromU8 Generated.tables.v9Hdr body = some (hd, b))
    (hcount : 0 < Generated.tables.v9Hdr.get "count" hd)
    (hs : parseLayout Generated.tables.protoFromU8 Generated.tables.v9SetHdr b = some (sh, r1))
    (hid : Generated.tables.v9SetHdr.get "flowset_id" sh = tid)
    (h1 : tid ≠ 0) (h2 : tid ≠ 1)
    (hunk : ¬ KnownV9 (stateBefore Generated.tables uf st hist k) tid) :
    (runHistory Generated.tables uf st hist).2[k + 1]? = some (.done [.error (.partialParse 9 body) ([0, 9] ++ body)]) ∧
    noRecordsFor tid 9 [.error (.partialParse 9 body) ([0, 9] ++ body)] = true ∧
    stateBefore Generated.tables uf st hist (k + 2) = stateBefore Generated.tables uf st hist k := by
  have := C07_history_refused_template_stays_unknown_v9 Generated.tables C02_generated_framing uf st hist k callk call' vk
    hk hvk hrk hk1 (stateBefore Generated.tables uf st hist k) [] ([0, 9] ++ body) body 9 hd [] [] b sh r1 tid
    (by simpa using hbuf) rfl (by simp [beU, beNat]) ha (by decide) (by simpa using hh) rfl (by simpa using hcount)
    hs hid h1 h2 hunk (by simp)
  simpa [foldCalls] using this

/-- generated tables — IPFIX: `tid ≥ 256` unknown to IPFIX at the start of call `k`; call `k` refused; call `k+1`
    (any allowed set containing 10) is ONE complete IPFIX message whose first set is a data set for `tid`.  Then
    call `k+1` returns the message with NO set, and the caches are still those of the start of call `k`. -/
theorem C07_history_refused_template_stays_unknown_ipfix_generated (uf : Bool)
    (st : PState) (hist : List Call) (k : Nat) (callk call' : Call) (vk : Nat)
    (hk : hist[k]? = some callk) (hvk : versionOf callk.buf = some vk) (hrk : callk.allowed.contains vk = false)
    (hk1 : hist[k + 1]? = some call') (ha : call'.allowed.contains 10 = true)
    (body : Bytes) (hd : List Nat) (r b : Bytes) (sh : List Nat) (r1 : Bytes) (tid : Nat)
    (hbuf : call'.buf = [0, 10] ++ body)
    (hh : parseLayout Generated.tables.protoFromU8 Generated.tables.ipHdr body = some (hd, r))
    (ht : takeN (Generated.tables.ipHdr.get "length" hd - 16) r = some (b, []))
    (hs : parseLayout Generated.tables.protoFromU8 Generated.tables.ipSetHdr b = some (sh, r1))
    (hid : Generated.tables.ipSetHdr.get "header_id" sh = tid)
    (h1 : 256 ≤ tid)
    (hunk : ¬ KnownIp (stateBefore Generated.tables uf st hist k) tid) :
    (runHistory Generated.tables uf st hist).2[k + 1]? = some (.done [.ipfix hd []]) ∧
    noRecordsFor tid 10 [.ipfix hd []] = true ∧
    stateBefore Generated.tables uf st hist (k + 2) = stateBefore Generated.tables uf st hist k := by
  have h2 : tid ≠ Generated.tables.ipOptTemplateId := by
    have : Generated.tables.ipOptTemplateId = 3 := rfl
    omega
  have h1' : Generated.tables.ipSetMinRange ≤ tid := by
    have : Generated.tables.ipSetMinRange = 255 := rfl
    omega
  have := C07_history_refused_template_stays_unknown_ipfix Generated.tables C02_generated_framing uf st hist k callk call' vk
    hk hvk hrk hk1 (stateBefore Generated.tables uf st hist k) [] ([0, 10] ++ body) body 10 hd r [] [] b sh r1 tid
    (by simpa using hbuf) rfl (by simp [beU, beNat]) ha (by decide) hh (by simpa using ht) rfl
    hs hid h1' h2 hunk (by simp)
  simpa [foldCalls] using this

/-- **C07 over histories, shape-free form** (lifting of `C07_no_set_for_unknown`): whatever the k-th buffer
    looks like and whatever the allowed sets are — if a data id is unknown to its protocol when the k-th call
    RETURNS (`stateBefore … (k+1)`), no packet returned by the k-th call contains a flowset / set with that id. -/
theorem C07_history_no_set_for_unknown (t : Tables) (uf : Bool) (st : PState) (hist : List Call) (k : Nat) (call : Call)
    (pkts : List Packet) (tid : Nat) (hk : hist[k]? = some call)
    (ho : (runHistory t uf st hist).2[k]? = some (.done pkts)) :
    (tid ≠ t.v9TemplateId → tid ≠ t.v9OptTemplateId → ¬ KnownV9 (stateBefore t uf st hist (k + 1)) tid →
      ∀ hd ss, Packet.v9 hd ss ∈ pkts → ∀ s ∈ ss, s.id ≠ tid) ∧
    (t.ipSetMinRange ≤ tid → tid ≠ t.ipOptTemplateId → ¬ KnownIp (stateBefore t uf st hist (k + 1)) tid →
      ∀ hd ss, Packet.ipfix hd ss ∈ pkts → ∀ s ∈ ss, s.id ≠ tid) := by
  obtain ⟨o, ho', hc⟩ := call_eq t uf st hist k call hk
  rw [ho'] at ho
  simp only [Option.some.injEq] at ho
  subst ho
  exact C07_no_set_for_unknown (cfgOf t uf call) _ _ _ pkts tid hc

/-! ### C14 — truncation at any point of a history -/

/-- **C14 over histories**: `C14_truncated` with `st := stateBefore … k` and the k-th call's configuration.
    If the k-th buffer is a chain `qs` of accepted packets followed by a packet `p` cut strictly inside
    (`0 < j < |p|`, for V9 not on a flowset boundary) — "accepted" and "complete" judged in the cache state the
    history has reached and under the k-th allowed set — then the k-th call reports the chain's packets and, last,
    an error whose remaining bytes are exactly the truncated packet; and for a V5 / V7 / IPFIX packet the caches
    after the truncated call (`stateBefore … (k+1)`) are the caches after the complete prefix (`st1`). -/
theorem C14_history (t : Tables) (hf : t.framingOk = true) (uf : Bool) (st : PState) (hist : List Call) (k : Nat)
    (call : Call) (hk : hist[k]? = some call)
    (st1 st' : PState) (qs : List Bytes) (out : List Packet) (p : Bytes) (pkt : Packet) (j : Nat)
    (hbuf : call.buf = qs.flatten ++ p.take j)
    (hq : chainOk (cfgOf t uf call) (stateBefore t uf st hist k) qs = true)
    (hpre : parseBytes (cfgOf t uf call) (stateBefore t uf st hist k) qs.flatten = (st1, .done out))
    (h : parsePacket (cfgOf t uf call) st1 p = (st', .ok pkt []))
    (hj0 : 0 < j) (hj : j < p.length) (hb : j ∉ v9Boundaries (cfgOf t uf call) pkt) :
    ∃ e, (runHistory t uf st hist).2[k]? = some (.done (out ++ [.error e (p.take j)])) ∧
      ((j < 2 ∧ e = .incomplete) ∨
       (2 ≤ j ∧ ∃ v, versionOf p = some v ∧ e = .partialParse v ((p.take j).drop 2))) ∧
      (pkt.isV9 = false → stateBefore t uf st hist (k + 1) = st1) := by
  obtain ⟨o, ho, hc⟩ := call_eq t uf st hist k call hk
  obtain ⟨st2, e, h1, h2, h3⟩ := C14_truncated (cfgOf t uf call) hf _ st1 st' qs out p pkt hq hpre h j hj0 hj hb
  rw [hbuf, h1] at hc
  simp only [Prod.mk.injEq] at hc
  exact ⟨e, by rw [ho, ← hc.2], h2, fun hv => by rw [← hc.1]; exact h3 hv⟩

theorem C14_history_generated (uf : Bool) (st : PState) (hist : List Call) (k : Nat)
    (call : Call) (hk : hist[k]? = some call)
    (st1 st' : PState) (qs : List Bytes) (out : List Packet) (p : Bytes) (pkt : Packet) (j : Nat)
    (hbuf : call.buf = qs.flatten ++ p.take j)
    (hq : chainOk (cfgOf Generated.tables uf call) (stateBefore Generated.tables uf st hist k) qs = true)
    (hpre : parseBytes (cfgOf Generated.tables uf call) (stateBefore Generated.tables uf st hist k) qs.flatten = (st1, .done out))
    (h : parsePacket (cfgOf Generated.tables uf call) st1 p = (st', .ok pkt []))
    (hj0 : 0 < j) (hj : j < p.length) (hb : j ∉ v9Boundaries (cfgOf Generated.tables uf call) pkt) :
    ∃ e, (runHistory Generated.tables uf st hist).2[k]? = some (.done (out ++ [.error e (p.take j)])) ∧
      (pkt.isV9 = false → stateBefore Generated.tables uf st hist (k + 1) = st1) := by
  obtain ⟨e, h1, _, h3⟩ := C14_history Generated.tables C02_generated_framing uf st hist k call hk st1 st' qs out p pkt j
    hbuf hq hpre h hj0 hj hb
  exact ⟨e, h1, h3⟩

end Netflow.Props

/-! ### C16 — equal text ⇒ equal decoded structure (up to paddings and number-width tags) -/
namespace Netflow.Props
open Netflow Preds Netflow.H1 Netflow.B1 Netflow.JText Netflow.J1

/-- **C16, the text determines the decoded value.**  Take two packets `p`, `q` from ANY two parse results
    (any cache states, any buffers, any two allowed sets — e.g. two calls of one history) whose JSON values
    are `plain`.  If one and the same JSON tree `t` — what the RFC 8259 reader makes of a text — is accepted
    by the ordered matcher for both, then `p` and `q` agree in everything except paddings and `DataNumber`
    width tags (`jnorm`).  Combines `C16_match_injective_partial` (the tree determines the JSON value) with
    faithfulness of `toJ` on parse results (`C16_parse_results_wellformed` + `C16_generated_faithful_partial`).
    `_partial`: the hypotheses `plain` exclude packets with a float leaf (two float bit patterns can print the
    same: NaN / ±∞ all print `null`, see `C16_text_determines_value_full_fails`) and packets with the
    error-message wildcard, i.e. `Incomplete` / `Partial` error elements (`errKindJ` puts `.anyStr` there);
    `UnknownVersion` error elements are plain. -/
theorem C16_text_determines_value_partial (a1 a2 : List Nat) (uf : Bool)
    (st1 st1' st2 st2' : PState) (buf1 buf2 : Bytes) (ps qs : List Packet)
    (h1 : parseBytes (jsonCfgOf a1 uf) st1 buf1 = (st1', .done ps))
    (h2 : parseBytes (jsonCfgOf a2 uf) st2 buf2 = (st2', .done qs))
    (p q : Packet) (hp : p ∈ ps) (hq : q ∈ qs)
    (isFinite : Nat → Bool) (fmatch : Nat → List Char → Bool) (t : JTree)
    (hpp : plain (toJ (jsonCfgOf a1 uf) jsonNames p) = true)
    (hqp : plain (toJ (jsonCfgOf a2 uf) jsonNames q) = true)
    (hm1 : jmatchT isFinite fmatch (toJ (jsonCfgOf a1 uf) jsonNames p) t = true)
    (hm2 : jmatchT isFinite fmatch (toJ (jsonCfgOf a2 uf) jsonNames q) t = true) : jnorm p = jnorm q := by
  have e := C16_match_injective_partial isFinite fmatch _ _ t hpp hqp hm1 hm2
  rw [toJ_tables (jsonCfgOf a2 uf) (jsonCfgOf a1 uf) rfl] at e
  have w1 := C16_parse_results_wellformed _ jsonNames (jsonCover a1 uf) _ _ _ _ h1 p hp
  have w2 := C16_parse_results_wellformed _ jsonNames (jsonCover a2 uf) _ _ _ _ h2 q hq
  rw [pktWf_tables (jsonCfgOf a2 uf) (jsonCfgOf a1 uf) rfl] at w2
  exact C16_faithful_partial (jsonCfgOf a1 uf) jsonNames jsonNames_ok p q w1 w2 e

/-- the same in terms of the TEXT the modelled writer prints (`C16_parse_results_text`: the reader reads that
    text back as the tree of the value, and the matcher accepts it): two plain parse results with the same
    printed text agree up to paddings and width tags.  `hfp` is the specification of the unmodelled float
    printer / reader pair, exactly as in `C16_parse_results_text` (vacuous with `isFinite := fun _ => false`). -/
theorem C16_text_equal_text_partial (a1 a2 : List Nat) (uf : Bool)
    (st1 st1' st2 st2' : PState) (buf1 buf2 : Bytes) (ps qs : List Packet)
    (h1 : parseBytes (jsonCfgOf a1 uf) st1 buf1 = (st1', .done ps))
    (h2 : parseBytes (jsonCfgOf a2 uf) st2 buf2 = (st2', .done qs))
    (p q : Packet) (hp : p ∈ ps) (hq : q ∈ qs)
    (isFinite : Nat → Bool) (fmatch : Nat → List Char → Bool) (fp : Nat → List Char)
    (hfp : ∀ bits, isFinite bits = true → fmatch bits (fp bits) = true ∧ numOk (fp bits) = true)
    (hpp : plain (toJ (jsonCfgOf a1 uf) jsonNames p) = true)
    (hqp : plain (toJ (jsonCfgOf a2 uf) jsonNames q) = true)
    (htext : printTree (treeOf isFinite fp decUtf8 (toJ (jsonCfgOf a1 uf) jsonNames p)) =
             printTree (treeOf isFinite fp decUtf8 (toJ (jsonCfgOf a2 uf) jsonNames q))) : jnorm p = jnorm q := by
  obtain ⟨r1, m1⟩ := C16_parse_results_text _ jsonNames _ _ _ _ h1 isFinite fmatch fp hfp p hp
  obtain ⟨r2, m2⟩ := C16_parse_results_text _ jsonNames _ _ _ _ h2 isFinite fmatch fp hfp q hq
  rw [htext, r2, Option.some.injEq] at r1
  rw [r1] at m2
  exact C16_text_determines_value_partial a1 a2 uf st1 st1' st2 st2' buf1 buf2 ps qs h1 h2 p q hp hq isFinite fmatch _
    hpp hqp m1 m2

/-- the full-strength statement: no `plain` restriction -/
def C16_text_determines_value_full : Prop :=
  ∀ (a1 a2 : List Nat) (uf : Bool) (st1 st1' st2 st2' : PState) (buf1 buf2 : Bytes) (ps qs : List Packet),
    parseBytes (jsonCfgOf a1 uf) st1 buf1 = (st1', .done ps) →
    parseBytes (jsonCfgOf a2 uf) st2 buf2 = (st2', .done qs) →
    ∀ (p q : Packet), p ∈ ps → q ∈ qs →
    ∀ (isFinite : Nat → Bool) (fmatch : Nat → List Char → Bool) (t : JTree),
      jmatchT isFinite fmatch (toJ (jsonCfgOf a1 uf) jsonNames p) t = true →
      jmatchT isFinite fmatch (toJ (jsonCfgOf a2 uf) jsonNames q) t = true → jnorm p = jnorm q

/-- IEEE-754 binary64: the exponent field is not all ones -/
def h1IsFinite : Nat → Bool := fun b => b / 4503599627370496 % 2048 != 2047

/-- one IPFIX message: template 256 = [absoluteError(320) / 8 bytes, a `float64`], one data record = +∞ -/
def h1BufInf : Bytes :=
  [0,10, 0,40, 0,0,0,1, 0,0,0,2, 0,0,0,3,  0,2, 0,12, 1,0, 0,1, 1,64, 0,8,  1,0, 0,12, 0x7F,0xF0,0,0,0,0,0,0]
/-- the same with a quiet NaN -/
def h1BufNaN : Bytes :=
  [0,10, 0,40, 0,0,0,1, 0,0,0,2, 0,0,0,3,  0,2, 0,12, 1,0, 0,1, 1,64, 0,8,  1,0, 0,12, 0x7F,0xF8,0,0,0,0,0,0]

def h1PktFloat (bits : Nat) : Packet :=
  .ipfix [10, 40, 1, 2, 3]
    [{ id := 2, len := 12, body := .template { id := 256, fieldCount := 1, fields := [{ typ := 320, len := 8, ent := none }], pad := [] } },
     { id := 256, len := 12, body := .data [[(0, 320, .f64 bits)]] [] }]

/-- the caches after either message -/
def h1StFloat : PState :=
  { ipT := [(256, { id := 256, fieldCount := 1, fields := [{ typ := 320, len := 8, ent := none }], pad := [] })] }

/-- the JSON tree both serialise to: the float member is `null` -/
def h1FloatTree : JTree :=
  treeOf h1IsFinite (fun _ => []) decAscii (toJ (jsonCfgOf [10] true) jsonNames (h1PktFloat 9218868437227405312))

set_option maxRecDepth 100000 in
/-- the full statement is FALSE, of the model and of the crate: serde_json writes `null` for every non-finite
    float, so a record holding +∞ and a record holding NaN have the same JSON text although the decoded values
    differ.  (Needs no sloppy float reader: the witness uses the reader that accepts nothing.)

    The other non-`plain` leaf, the error-message wildcard `.anyStr`, does NOT give a counterexample inside the
    model: the model's `ErrKind` does not carry nom's message text at all (`.incomplete`, `.partialParse v rem`),
    so "two error packets whose messages differ" are one and the same model value; everything the model does
    carry of an error element (kind, version, both `remaining` byte lists) is printed and is recovered
    (`C16_error_faithful`).  So the only genuine loss beyond paddings and width tags is the float one. -/
theorem C16_text_determines_value_full_fails : ¬ C16_text_determines_value_full := by
  intro h
  have := h [10] [10] true {} h1StFloat {} h1StFloat h1BufInf h1BufNaN
    [h1PktFloat 9218868437227405312] [h1PktFloat 9221120237041090560]
    (by decide +kernel) (by decide +kernel) _ _ (List.mem_singleton.2 rfl) (List.mem_singleton.2 rfl)
    h1IsFinite (fun _ _ => false) h1FloatTree (by decide +kernel) (by decide +kernel)
  revert this
  decide +kernel

end Netflow.Props

/-! ### non-vacuity: concrete histories over the generated tables -/
namespace Netflow.Props
open Netflow Preds Netflow.H1 Netflow.B1 Netflow.JText Netflow.J1 Netflow.C1x

/-- a V9 packet with ONE data flowset for template 256 (4 bytes: 10.0.0.1); `c12V9` (Props/C12) is the V9
    packet DEFINING template 256 = [IPV4_SRC_ADDR / 4], `c12V5` an empty V5 packet -/
def h1D9 : Bytes := [0,9, 0,1, 0,0,0,1, 0,0,0,2, 0,0,0,3, 0,0,0,4,  1,0, 0,8, 10,0,0,1]

/-- the three-call history of the seeded bug:
    call 0, allowed {5}   : the V9 template packet — REFUSED;
    call 1, allowed {5,9} : V9 data for that template id;
    call 2, allowed {}    : a V5 packet — refused. -/
def h1Hist : List Call := [⟨[5], c12V9⟩, ⟨[5, 9], h1D9⟩, ⟨[], c12V5⟩]

/-- what the model returns on it: nothing, then the data packet as a `Partial` error (template 256 was never
    learned), then nothing; the caches are empty at the end -/
example : runHistory Generated.tables true {} h1Hist =
    ({}, [.done [], .done [.error (.partialParse 9 (h1D9.drop 2)) h1D9], .done []]) := by decide +kernel

/-- contrast: had call 0 allowed version 9, call 1 would decode a record -/
example : (runHistory Generated.tables true {} [⟨[9], c12V9⟩, ⟨[5, 9], h1D9⟩, ⟨[], c12V5⟩]).2[1]? =
    some (.done [.v9 [9, 1, 1, 2, 3, 4] [⟨256, 8, .data [[(0, 8, .ip4 167772161)]] []⟩]]) := by decide +kernel

/-- hypotheses `hist[k]? = some call` of `C01_history_returns_at`, `C02_history`, `C12_history`, `C14_history`, … -/
example : h1Hist[1]? = some ⟨[5, 9], h1D9⟩ := rfl

/-- hypotheses of `C06_history_disallowed_frame` / `C12_history_refused_teaches_nothing` at k = 0 and k = 2 -/
example : h1Hist[0]? = some ⟨[5], c12V9⟩ ∧ versionOf c12V9 = some 9 ∧ ([5] : List Nat).contains 9 = false ∧
    h1Hist[2]? = some ⟨[], c12V5⟩ ∧ versionOf c12V5 = some 5 ∧ ([] : List Nat).contains 5 = false := by decide

/-- … and the theorem instantiated: the caches before call 1 are the caches before call 0 -/
example : stateBefore Generated.tables true {} h1Hist 1 = stateBefore Generated.tables true {} h1Hist 0 :=
  C12_history_refused_teaches_nothing Generated.tables true {} h1Hist 0 ⟨[5], c12V9⟩ 9 rfl (by decide) (by decide)

/-- hypothesis of `C12_history_refused_run_teaches_nothing` (k = 0, n = 1) -/
example : ∀ j, j < 1 → ∃ call v, h1Hist[0 + j]? = some call ∧ versionOf call.buf = some v ∧ call.allowed.contains v = false := by
  intro j hj
  have : j = 0 := by omega
  subst this
  exact ⟨⟨[5], c12V9⟩, 9, rfl, by decide, by decide⟩

/-- `C06_history_wf`: a non-empty canonical start state -/
example : StateWf { v9T := [(256, ⟨256, 1, [⟨8, 4⟩]⟩)] } := by simp [StateWf, amSorted]

/-- `C07_history_refused_template_stays_unknown_v9_generated` on `h1Hist` (k = 0, tid = 256): every
    hypothesis is met, and the conclusion is what the evaluation above shows -/
example :
    (runHistory Generated.tables true {} h1Hist).2[0 + 1]? = some (.done [.error (.partialParse 9 (h1D9.drop 2)) ([0, 9] ++ h1D9.drop 2)]) ∧
    noRecordsFor 256 9 [.error (.partialParse 9 (h1D9.drop 2)) ([0, 9] ++ h1D9.drop 2)] = true ∧
    stateBefore Generated.tables true {} h1Hist (0 + 2) = stateBefore Generated.tables true {} h1Hist 0 :=
  C07_history_refused_template_stays_unknown_v9_generated true {} h1Hist 0 ⟨[5], c12V9⟩ ⟨[5, 9], h1D9⟩ 9
    rfl (by decide) (by decide) rfl (by decide) (h1D9.drop 2) [9, 1, 1, 2, 3, 4] [1,0, 0,8, 10,0,0,1] [256, 8] [10, 0, 0, 1] 256
    rfl (by decide +kernel) (by decide +kernel) (by decide +kernel) (by decide +kernel) (by decide) (by decide)
    (by simp [KnownV9, amLookup])

/-- the IPFIX twin: call 0 (allowed {5}) is the IPFIX message defining template 256 — refused; call 1 (allowed
    {10}) is a data message for 256: reported with no set (`C11ex.ipT`, `C11ex.ipD`, Props/C11) -/
def h1HistIp : List Call := [⟨[5], C11ex.ipT⟩, ⟨[10], C11ex.ipD⟩]

example :
    (runHistory Generated.tables true {} h1HistIp).2[0 + 1]? = some (.done [.ipfix [10, 28, 2, 2, 1] []]) ∧
    noRecordsFor 256 10 [.ipfix [10, 28, 2, 2, 1] []] = true ∧
    stateBefore Generated.tables true {} h1HistIp (0 + 2) = stateBefore Generated.tables true {} h1HistIp 0 :=
  C07_history_refused_template_stays_unknown_ipfix_generated true {} h1HistIp 0 ⟨[5], C11ex.ipT⟩ ⟨[10], C11ex.ipD⟩ 10
    rfl (by decide) (by decide) rfl (by decide) (C11ex.ipD.drop 2) [10, 28, 2, 2, 1] [1,0, 0,12, 10,0,0,1, 10,0,0,2]
    [1,0, 0,12, 10,0,0,1, 10,0,0,2] [256, 12] [10,0,0,1, 10,0,0,2] 256
    rfl (by decide +kernel) (by decide +kernel) (by decide +kernel) (by decide +kernel) (by decide)
    (by simp [KnownIp, amLookup])

/-- the GENERAL V9 theorem with a non-empty chain `pre` and a non-empty `front`: call 0 (allowed {5}) is the
    V9 packet defining 256 — refused; call 1 (allowed {5,9}) is a V5 packet followed by a V9 packet with the
    flowsets [template 257] [data 257] [data 256] -/
def h1T257 : Bytes := [0,0, 0,12, 1,1, 0,1, 0,1, 0,3]
def h1D257 : Bytes := [1,1, 0,8, 1,2,3,0]
def h1D256 : Bytes := [1,0, 0,8, 1,2,3,0]
def h1Body9 : Bytes := [0,3, 0,0,0,1, 0,0,0,2, 0,0,0,3, 0,0,0,4] ++ h1T257 ++ h1D257 ++ h1D256
def h1Hist2 : List Call := [⟨[5], c12V9⟩, ⟨[5, 9], [c12V5].flatten ++ ([0, 9] ++ h1Body9)⟩]

example :
    (runHistory Generated.tables true {} h1Hist2).2[0 + 1]? =
      some (.done ([.v5 [5, 0, 1, 2, 3, 4, 5, 6, 7] []] ++ [.error (.partialParse 9 h1Body9) ([0, 9] ++ h1Body9)])) ∧
    stateBefore Generated.tables true {} h1Hist2 (0 + 2) = { v9T := [(257, ⟨257, 1, [⟨1, 3⟩]⟩)] } := by
  have := C07_history_refused_template_stays_unknown_v9 Generated.tables C02_generated_framing true {} h1Hist2 0
    ⟨[5], c12V9⟩ ⟨[5, 9], [c12V5].flatten ++ ([0, 9] ++ h1Body9)⟩ 9 rfl (by decide) (by decide) rfl
    { v9T := [(257, ⟨257, 1, [⟨1, 3⟩]⟩)] } [c12V5] ([0, 9] ++ h1Body9) h1Body9 9 [9, 3, 1, 2, 3, 4] [h1T257, h1D257]
    [⟨0, 12, .templates [⟨257, 1, [⟨1, 3⟩]⟩] []⟩, ⟨257, 8, .data [[(0, 1, .num (.u24 66051))]] [0]⟩]
    h1D256 [256, 8] [1, 2, 3, 0] 256
    rfl (by decide +kernel) (by decide +kernel) (by decide) (by decide) (by decide +kernel) (by decide +kernel)
    (by decide +kernel) (by decide +kernel) (by decide +kernel) (by decide) (by decide)
    (by
      have e : (foldCalls (cfgOf Generated.tables true ⟨[5, 9], [c12V5].flatten ++ ([0, 9] ++ h1Body9)⟩)
          (stateBefore Generated.tables true {} h1Hist2 0) [c12V5]).1 = {} := by decide +kernel
      rw [e]; simp [KnownV9, amLookup])
    (by decide)
  have hf : (foldCalls (cfgOf Generated.tables true ⟨[5, 9], [c12V5].flatten ++ ([0, 9] ++ h1Body9)⟩)
      (stateBefore Generated.tables true {} h1Hist2 0) [c12V5]).2 = [.v5 [5, 0, 1, 2, 3, 4, 5, 6, 7] []] := by decide +kernel
  rw [hf] at this
  exact ⟨this.1, this.2.2⟩

/-- `C07_history_no_set_for_unknown`: hypotheses met at call 1 of `h1Hist` -/
example : (runHistory Generated.tables true {} h1Hist).2[1]? = some (.done [.error (.partialParse 9 (h1D9.drop 2)) h1D9]) ∧
    ¬ KnownV9 (stateBefore Generated.tables true {} h1Hist (1 + 1)) 256 :=
  ⟨by decide +kernel, by
    have : stateBefore Generated.tables true {} h1Hist (1 + 1) = {} := by decide +kernel
    rw [this]; simp [KnownV9, amLookup]⟩

/-- `C12_history`: a history in which the filter cuts INSIDE a buffer, from a non-empty cache state.
    call 0 (allowed {9}) learns template 256; call 1 (allowed {5}) gets V5 ++ V9-data ++ V5 and reports the first
    V5 packet only; call 2 (allowed {5,9}) gets the same buffer and reports all three, the record decoded. -/
def h1Hist3 : List Call := [⟨[9], c12V9⟩, ⟨[5], c12V5 ++ h1D9 ++ c12V5⟩, ⟨[5, 9], c12V5 ++ h1D9 ++ c12V5⟩]

example : (runHistory Generated.tables true {} h1Hist3).2 =
    [.done [.v9 [9, 1, 1, 2, 3, 4] [⟨0, 12, .templates [⟨256, 1, [⟨8, 4⟩]⟩] []⟩]],
     .done [.v5 [5, 0, 1, 2, 3, 4, 5, 6, 7] []],
     .done [.v5 [5, 0, 1, 2, 3, 4, 5, 6, 7] [], .v9 [9, 1, 1, 2, 3, 4] [⟨256, 8, .data [[(0, 8, .ip4 167772161)]] []⟩],
            .v5 [5, 0, 1, 2, 3, 4, 5, 6, 7] []]] := by decide +kernel

/-- the all-allowed run of call 1's buffer from the state before call 1, with the concrete all-allowing list, and
    `takeAllowed` cutting it to what call 1 returned (hypotheses `hA`, `hk` of `C12_history`: `allowsAll_range`, `rfl`) -/
example :
    (parseBytes { t := Generated.tables, allowed := List.range 65536, unknownFields := true }
      (stateBefore Generated.tables true {} h1Hist3 1) (c12V5 ++ h1D9 ++ c12V5)).2 =
      .done [.v5 [5, 0, 1, 2, 3, 4, 5, 6, 7] [], .v9 [9, 1, 1, 2, 3, 4] [⟨256, 8, .data [[(0, 8, .ip4 167772161)]] []⟩],
             .v5 [5, 0, 1, 2, 3, 4, 5, 6, 7] []] ∧
    takeAllowed { t := Generated.tables, allowed := List.range 65536, unknownFields := true } [5] 77 (c12V5 ++ h1D9 ++ c12V5)
      [.v5 [5, 0, 1, 2, 3, 4, 5, 6, 7] [], .v9 [9, 1, 1, 2, 3, 4] [⟨256, 8, .data [[(0, 8, .ip4 167772161)]] []⟩],
       .v5 [5, 0, 1, 2, 3, 4, 5, 6, 7] []] = [.v5 [5, 0, 1, 2, 3, 4, 5, 6, 7] []] := by
  constructor <;> decide +kernel

/-- `C14_history_generated`: call 0 (allowed {5}) a refused V9 packet; call 1 (allowed {5,7,9,10}) the chain
    [V5, IPFIX template] followed by the IPFIX data message cut one byte before its end.  The caches after call 1
    are those after the complete prefix: template 256 known, nothing else. -/
def h1Hist4 : List Call := [⟨[5], c12V9⟩, ⟨[5, 7, 9, 10], [C11ex.v5p, C11ex.ipT].flatten ++ C11ex.ipD.take 27⟩]

example : ∃ e, (runHistory Generated.tables true {} h1Hist4).2[1]? =
      some (.done ((foldCalls C11ex.cfg {} [C11ex.v5p, C11ex.ipT]).2 ++ [.error e (C11ex.ipD.take 27)])) ∧
    (true = true → stateBefore Generated.tables true {} h1Hist4 (1 + 1) = (foldCalls C11ex.cfg {} [C11ex.v5p, C11ex.ipT]).1) := by
  obtain ⟨e, h1, h2⟩ := C14_history_generated true {} h1Hist4 1 ⟨[5, 7, 9, 10], [C11ex.v5p, C11ex.ipT].flatten ++ C11ex.ipD.take 27⟩ rfl
    (foldCalls C11ex.cfg {} [C11ex.v5p, C11ex.ipT]).1 (foldCalls C11ex.cfg {} [C11ex.v5p, C11ex.ipT]).1
    [C11ex.v5p, C11ex.ipT] (foldCalls C11ex.cfg {} [C11ex.v5p, C11ex.ipT]).2 C11ex.ipD
    (.ipfix [10, 28, 2, 2, 1] [{ id := 256, len := 12, body := .data [[(0, 8, .ip4 167772161)], [(1, 12, .ip4 167772162)]] [] }])
    27 rfl (by decide +kernel) (by decide +kernel) (by decide +kernel) (by decide) (by decide) (by decide)
  exact ⟨e, h1, fun _ => h2 rfl⟩

/-- `C16_text_determines_value_partial`: two DIFFERENT packets from two parse results under two different allowed
    sets (the padding byte differs) that are plain and match one and the same tree — so the theorem applies, and
    indeed they agree after `jnorm` -/
def h1PadPkt (pad : UInt8) : Packet := .v9 [9, 1, 1, 2, 3, 4] [⟨256, 8, .data [[(0, 1, .num (.u24 66051))]] [pad]⟩]
def h1PadSt : PState := { v9T := [(256, ⟨256, 1, [⟨1, 3⟩]⟩)] }
def h1PadBuf (pad : UInt8) : Bytes := [0,9, 0,1, 0,0,0,1, 0,0,0,2, 0,0,0,3, 0,0,0,4,  1,0, 0,8, 1,2,3, pad]

example :
    parseBytes (jsonCfgOf [9] true) h1PadSt (h1PadBuf 0) = (h1PadSt, .done [h1PadPkt 0]) ∧
    parseBytes (jsonCfgOf [5, 9] true) h1PadSt (h1PadBuf 7) = (h1PadSt, .done [h1PadPkt 7]) ∧
    h1PadPkt 0 ≠ h1PadPkt 7 ∧
    plain (toJ (jsonCfgOf [9] true) jsonNames (h1PadPkt 0)) = true ∧
    plain (toJ (jsonCfgOf [5, 9] true) jsonNames (h1PadPkt 7)) = true ∧
    jmatchT (fun _ => false) (fun _ _ => false) (toJ (jsonCfgOf [9] true) jsonNames (h1PadPkt 0))
      (treeOf (fun _ => false) (fun _ => []) decAscii (toJ (jsonCfgOf [9] true) jsonNames (h1PadPkt 0))) = true ∧
    jmatchT (fun _ => false) (fun _ _ => false) (toJ (jsonCfgOf [5, 9] true) jsonNames (h1PadPkt 7))
      (treeOf (fun _ => false) (fun _ => []) decAscii (toJ (jsonCfgOf [9] true) jsonNames (h1PadPkt 0))) = true := by
  refine ⟨by decide +kernel, by decide +kernel, by decide, by decide +kernel, by decide +kernel, by decide +kernel,
    by decide +kernel⟩

example : jnorm (h1PadPkt 0) = jnorm (h1PadPkt 7) :=
  C16_text_determines_value_partial [9] [5, 9] true h1PadSt h1PadSt h1PadSt h1PadSt (h1PadBuf 0) (h1PadBuf 7)
    [h1PadPkt 0] [h1PadPkt 7] (by decide +kernel) (by decide +kernel) _ _ (List.mem_singleton.2 rfl) (List.mem_singleton.2 rfl)
    (fun _ => false) (fun _ _ => false)
    (treeOf (fun _ => false) (fun _ => []) decAscii (toJ (jsonCfgOf [9] true) jsonNames (h1PadPkt 0)))
    (by decide +kernel) (by decide +kernel) (by decide +kernel) (by decide +kernel)

/-- hypothesis `hfp` of `C16_text_equal_text_partial` is satisfiable (vacuously, for the reader that calls no
    float finite — irrelevant for plain values; a non-trivial instance is in Props/C16b) -/
example : ∀ bits, (fun _ : Nat => false) bits = true →
    (fun (_ : Nat) (_ : List Char) => false) bits ((fun _ : Nat => ([] : List Char)) bits) = true ∧
      numOk ((fun _ : Nat => ([] : List Char)) bits) = true := by
  intro bits h; simp at h

/-- the witnesses of `C16_text_determines_value_full_fails`: both are parse results, both match the same tree
    (float member `null`), and they differ after `jnorm` -/
example :
    parseBytes (jsonCfgOf [10] true) {} h1BufInf = (h1StFloat, .done [h1PktFloat 9218868437227405312]) ∧
    parseBytes (jsonCfgOf [10] true) {} h1BufNaN = (h1StFloat, .done [h1PktFloat 9221120237041090560]) ∧
    h1IsFinite 9218868437227405312 = false ∧ h1IsFinite 9221120237041090560 = false ∧ h1IsFinite 4607182418800017408 = true ∧
    jnorm (h1PktFloat 9218868437227405312) ≠ jnorm (h1PktFloat 9221120237041090560) := by
  refine ⟨by decide +kernel, by decide +kernel, by decide, by decide, by decide, by decide +kernel⟩

end Netflow.Props
