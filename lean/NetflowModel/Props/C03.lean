/-
  Props/C03.lean — C03: V5 and V7 packets decode exactly per the Cisco fixed layouts.

  * the generated `derive(Nom)` layouts are the Cisco tables (`C03_layouts_are_cisco`);
  * a buffer that starts with a complete V5 (V7) packet decodes to a header and exactly
    `count` records, every field being the big-endian value at its Cisco offset, and the packet ends
    after `24 + 48*count` (`24 + 52*count`) bytes (`C03_decode_v5/_v7`);
  * a shorter buffer is `Partial`, never a packet with fewer records (`C03_short_v5/_v7`);
  * the symbolic protocol attached to a record is `ProtocolTypes::from(protocol_number)`; that
    table gives the IANA name for 252 of the 256 numbers (`C03_protoName_iana_partial`) and a WRONG
    name for 0, 1, 144 and 255 (`C03_protoName_fails_*`, `C03_full_fails`).
  Property theorems only; the generic layout lemmas are in Lemmas/A1Layout.lean.
-/
import NetflowModel.Lemmas.A1Layout
import NetflowModel.Props.C02
import NetflowModel.Generated
namespace Netflow.Props
open Netflow Preds

/-! ### 1. the layouts generated from the Rust structs are the Cisco tables -/

/-- field names, widths and order of the four `derive(Nom)` structs are those of the Cisco V5/V7
    export format (the injected `version` constant counted at its declared 2 bytes; the computed
    `protocol_type` occupies no bytes) -/
theorem C03_layouts_are_cisco :
    Spec.layoutWire Generated.v5Hdr = Spec.ciscoV5Hdr ∧ Spec.layoutWire Generated.v5Rec = Spec.ciscoV5Rec ∧
    Spec.layoutWire Generated.v7Hdr = Spec.ciscoV7Hdr ∧ Spec.layoutWire Generated.v7Rec = Spec.ciscoV7Rec := by
  decide

/-- the Cisco sizes: 24-byte headers, 48- and 52-byte records -/
theorem C03_cisco_sizes :
    Spec.totalLen Spec.ciscoV5Hdr = 24 ∧ Spec.totalLen Spec.ciscoV5Rec = 48 ∧
    Spec.totalLen Spec.ciscoV7Hdr = 24 ∧ Spec.totalLen Spec.ciscoV7Rec = 52 := by
  decide

/-- all decidable side conditions of the decode theorems (layouts are Cisco's, well formed:
    distinct names, version constant first, no other constants, `protocol_type` computed from the
    1-byte `protocol_number` in front of it, `count` is the word at offset 2) hold for the tables
    generated from the current Rust source -/
theorem C03_generated_ciscoOk : Generated.tables.ciscoOk = true := by decide

/-! ### 2./3. closed form of `parse_packet_by_version` on a version-5 / version-7 buffer -/

/-- what `fixedDecodesNP` says record by record: record `k` is decoded from offset
    `|hdrSpec| + |recSpec| * k`, and its symbolic protocol is `proto` of its protocol number -/
theorem C03_records_at (proto : Nat → Nat) (hdrLay recLay : Layout) (hdrSpec recSpec : List (String × Nat))
    (buf : Bytes) (h : List Nat) (rs : List (List Nat))
    (hd : fixedDecodesNP proto hdrLay recLay hdrSpec recSpec buf h rs = true) :
    fieldsAtOffsets hdrLay hdrSpec buf h = true ∧ h.length = hdrLay.length ∧ rs.length = hdrLay.get "count" h ∧
    ∀ (k : Nat) (hk : k < rs.length),
      fieldsAtOffsets recLay recSpec (buf.drop (Spec.totalLen hdrSpec + Spec.totalLen recSpec * k)) rs[k] = true ∧
      recLay.get "protocol_type" rs[k] = proto (recLay.get "protocol_number" rs[k]) ∧
      recLay.get "protocol_number" rs[k] < 256 ∧ rs[k].length = recLay.length := by
  simp only [fixedDecodesNP, Bool.and_eq_true, beq_iff_eq] at hd
  refine ⟨hd.1.1.1, hd.1.1.2, hd.1.2, ?_⟩
  intro k hk
  have := recsAtOffsetsNP_getElem proto recLay recSpec rs _ hd.2 k hk
  rw [List.drop_drop] at this
  exact this

/-- **C03, complete V5 packet** (any configuration whose tables satisfy `ciscoOk`): a buffer whose
    version word is 5 (allowed, dispatched to the V5 parser) and that holds at least
    `24 + 48 * count` bytes, `count` being the big-endian word at offset 2, yields — without touching
    the template caches — a V5 packet with exactly `count` records, every header field and every
    field of record `k` equal to the big-endian value at its Cisco offset (`+ 24 + 48*k`), and the
    remaining input starts right after byte `24 + 48 * count`. -/
theorem C03_decode_v5 (c : Config) (hok : c.t.ciscoOk = true) (st : PState) (buf body : Bytes)
    (hv : beU 2 buf = some (5, body)) (ha : c.allowed.contains 5 = true) (hd : c.t.dispatch.lookup 5 = some 5)
    (hlen : 24 + 48 * beNat ((buf.drop 2).take 2) ≤ buf.length) :
    ∃ h rs, parsePacket c st buf = (st, .ok (.v5 h rs) (buf.drop (24 + 48 * beNat ((buf.drop 2).take 2)))) ∧
      rs.length = beNat ((buf.drop 2).take 2) ∧
      fixedDecodesNP c.t.protoFromU8 c.t.v5Hdr c.t.v5Rec Spec.ciscoV5Hdr Spec.ciscoV5Rec buf h rs = true := by
  simp only [Tables.ciscoOk, Bool.and_eq_true] at hok
  obtain ⟨_, hver, hbody⟩ := beU_some hv
  subst hbody
  have h24 : Spec.totalLen Spec.ciscoV5Hdr = 24 := by decide
  have h48 : Spec.totalLen Spec.ciscoV5Rec = 48 := by decide
  obtain ⟨h, rs, hp, hl, hdec⟩ := fixed_decode c 5 c.t.v5Hdr c.t.v5Rec Spec.ciscoV5Hdr Spec.ciscoV5Rec hok.1 buf
    hver.symm (by rw [h24, h48]; exact hlen)
  rw [h24, h48] at hp
  have ha' : 5 ∈ c.allowed := by simpa using ha
  exact ⟨h, rs, by simp [parsePacket, hv, ha', hd, parseVersioned, hp], hl, hdec⟩

/-- **C03, complete V7 packet**: as `C03_decode_v5` with 52-byte records. -/
theorem C03_decode_v7 (c : Config) (hok : c.t.ciscoOk = true) (st : PState) (buf body : Bytes)
    (hv : beU 2 buf = some (7, body)) (ha : c.allowed.contains 7 = true) (hd : c.t.dispatch.lookup 7 = some 7)
    (hlen : 24 + 52 * beNat ((buf.drop 2).take 2) ≤ buf.length) :
    ∃ h rs, parsePacket c st buf = (st, .ok (.v7 h rs) (buf.drop (24 + 52 * beNat ((buf.drop 2).take 2)))) ∧
      rs.length = beNat ((buf.drop 2).take 2) ∧
      fixedDecodesNP c.t.protoFromU8 c.t.v7Hdr c.t.v7Rec Spec.ciscoV7Hdr Spec.ciscoV7Rec buf h rs = true := by
  simp only [Tables.ciscoOk, Bool.and_eq_true] at hok
  obtain ⟨_, hver, hbody⟩ := beU_some hv
  subst hbody
  have h24 : Spec.totalLen Spec.ciscoV7Hdr = 24 := by decide
  have h52 : Spec.totalLen Spec.ciscoV7Rec = 52 := by decide
  obtain ⟨h, rs, hp, hl, hdec⟩ := fixed_decode c 7 c.t.v7Hdr c.t.v7Rec Spec.ciscoV7Hdr Spec.ciscoV7Rec hok.2 buf
    hver.symm (by rw [h24, h52]; exact hlen)
  rw [h24, h52] at hp
  have ha' : 7 ∈ c.allowed := by simpa using ha
  exact ⟨h, rs, by simp [parsePacket, hv, ha', hd, parseVersioned, hp], hl, hdec⟩

/-- **C03, truncated V5 packet**: fewer than 24 bytes, or fewer than the `24 + 48 * count` the header
    announces, is `Partial` with the bytes after the version word — never a packet with fewer or
    invented records; the caches are untouched. -/
theorem C03_short_v5 (c : Config) (hok : c.t.ciscoOk = true) (st : PState) (buf body : Bytes)
    (hv : beU 2 buf = some (5, body)) (ha : c.allowed.contains 5 = true) (hd : c.t.dispatch.lookup 5 = some 5)
    (hshort : buf.length < 24 ∨ buf.length < 24 + 48 * beNat ((buf.drop 2).take 2)) :
    parsePacket c st buf = (st, .fail (.partialParse 5 (buf.drop 2))) := by
  simp only [Tables.ciscoOk, Bool.and_eq_true] at hok
  obtain ⟨hl2, hver, hbody⟩ := beU_some hv
  subst hbody
  have hp := fixed_short c 5 c.t.v5Hdr c.t.v5Rec Spec.ciscoV5Hdr Spec.ciscoV5Rec hok.1 buf hl2 hver.symm
    (by rw [show Spec.totalLen Spec.ciscoV5Hdr = 24 by decide, show Spec.totalLen Spec.ciscoV5Rec = 48 by decide]
        exact hshort)
  have ha' : 5 ∈ c.allowed := by simpa using ha
  simp [parsePacket, hv, ha', hd, parseVersioned, hp]

/-- **C03, truncated V7 packet**. -/
theorem C03_short_v7 (c : Config) (hok : c.t.ciscoOk = true) (st : PState) (buf body : Bytes)
    (hv : beU 2 buf = some (7, body)) (ha : c.allowed.contains 7 = true) (hd : c.t.dispatch.lookup 7 = some 7)
    (hshort : buf.length < 24 ∨ buf.length < 24 + 52 * beNat ((buf.drop 2).take 2)) :
    parsePacket c st buf = (st, .fail (.partialParse 7 (buf.drop 2))) := by
  simp only [Tables.ciscoOk, Bool.and_eq_true] at hok
  obtain ⟨hl2, hver, hbody⟩ := beU_some hv
  subst hbody
  have hp := fixed_short c 7 c.t.v7Hdr c.t.v7Rec Spec.ciscoV7Hdr Spec.ciscoV7Rec hok.2 buf hl2 hver.symm
    (by rw [show Spec.totalLen Spec.ciscoV7Hdr = 24 by decide, show Spec.totalLen Spec.ciscoV7Rec = 52 by decide]
        exact hshort)
  have ha' : 7 ∈ c.allowed := by simpa using ha
  simp [parsePacket, hv, ha', hd, parseVersioned, hp]

/-! ### 4. protocol names -/

/-- the numbers whose name `From<u8> for ProtocolTypes` gets wrong -/
def protoBad : List Nat := [0, 1, 144, 255]

/-- the name check for the numbers `lo, lo+1, …, lo+n-1` -/
def protoNamesOkFrom (lo n : Nat) : Bool :=
  (List.range n).all fun k => protoBad.contains (lo + k) ||
    (Generated.protoNames.lookup (Generated.tables.protoFromU8 (lo + k)) == some (Spec.ianaName (lo + k)))

theorem C03_protoName_table_0 : protoNamesOkFrom 0 64 = true := by decide +kernel
theorem C03_protoName_table_64 : protoNamesOkFrom 64 64 = true := by decide +kernel
theorem C03_protoName_table_128 : protoNamesOkFrom 128 64 = true := by decide +kernel
theorem C03_protoName_table_192 : protoNamesOkFrom 192 64 = true := by decide +kernel

theorem C03_protoName_table (n : Nat) (hn : n < 256) :
    (protoBad.contains n ||
      (Generated.protoNames.lookup (Generated.tables.protoFromU8 n) == some (Spec.ianaName n))) = true := by
  have pick : ∀ lo, protoNamesOkFrom lo 64 = true → lo ≤ n → n < lo + 64 →
      (protoBad.contains n ||
        (Generated.protoNames.lookup (Generated.tables.protoFromU8 n) == some (Spec.ianaName n))) = true := by
    intro lo h h1 h2
    have := List.all_eq_true.mp h (n - lo) (List.mem_range.mpr (by omega))
    rwa [show lo + (n - lo) = n by omega] at this
  by_cases h1 : n < 64
  · exact pick 0 C03_protoName_table_0 (by omega) (by omega)
  · by_cases h2 : n < 128
    · exact pick 64 C03_protoName_table_64 (by omega) (by omega)
    · by_cases h3 : n < 192
      · exact pick 128 C03_protoName_table_128 (by omega) (by omega)
      · exact pick 192 C03_protoName_table_192 (by omega) (by omega)

/-- **protocol names, 252 of 256 numbers**: `ProtocolTypes::from(n)` is the variant named by IANA for
    protocol number `n`.  PARTIAL: the full statement (all 256 numbers) is false, see the four
    `C03_protoName_fails_*` theorems — numbers 0, 1, 144 and 255 are excluded. -/
theorem C03_protoName_iana_partial (n : Nat) (hn : n < 256) (hb : n ∉ [0, 1, 144, 255]) :
    Generated.protoNames.lookup (Generated.tables.protoFromU8 n) = some (Spec.ianaName n) := by
  have := C03_protoName_table n hn
  have hb' : n ∉ protoBad := hb
  simp only [Bool.or_eq_true, List.contains_eq_mem, decide_eq_true_eq, beq_iff_eq] at this
  rcases this with h | h
  · exact absurd h hb'
  · exact h

/-- non-vacuity of `C03_protoName_iana_partial`: TCP, UDP, ICMPv6 -/
example : (6 < 256 ∧ 6 ∉ [0, 1, 144, 255]) ∧ (17 < 256 ∧ 17 ∉ [0, 1, 144, 255]) ∧ Spec.ianaName 6 = "Tcp" ∧
    Spec.ianaName 17 = "Udp" ∧ Spec.ianaName 58 = "Ipv6Icmp" := by decide

/-- protocol number 0 (HOPOPT) is named `Unknown` -/
theorem C03_protoName_fails_0 :
    Generated.protoNames.lookup (Generated.tables.protoFromU8 0) = some "Unknown" ∧ Spec.ianaName 0 = "Hopopt" := by
  decide

/-- protocol number 1 (ICMP) is named `Hopopt` -/
theorem C03_protoName_fails_1 :
    Generated.protoNames.lookup (Generated.tables.protoFromU8 1) = some "Hopopt" ∧ Spec.ianaName 1 = "Icmp" := by
  decide

/-- protocol number 144 (AGGFRAG) is named `Reserved` -/
theorem C03_protoName_fails_144 :
    Generated.protoNames.lookup (Generated.tables.protoFromU8 144) = some "Reserved" ∧ Spec.ianaName 144 = "Aggfrag" := by
  decide

/-- protocol number 255 (Reserved) is named `Unknown` -/
theorem C03_protoName_fails_255 :
    Generated.protoNames.lookup (Generated.tables.protoFromU8 255) = some "Unknown" ∧ Spec.ianaName 255 = "Reserved" := by
  decide

/-- the enum's declared discriminants (what the V9/IPFIX `ProtocolType` decoder uses) ARE the IANA
    numbers: variant `d ≤ 144` is the IANA name of `d`, 145 is `Unknown`, 255 is `Reserved` — the defect
    is only in the hand-written `From<u8>` arms -/
theorem C03_discriminants_are_iana :
    (∀ p ∈ Generated.protoNames, p.1 ≤ 144 → p.2 = Spec.ianaName p.1) ∧
    Generated.protoNames.lookup 145 = some "Unknown" ∧ Generated.protoNames.lookup 255 = some "Reserved" ∧
    Generated.protoNames.map (·.1) = Generated.protoDiscs := by
  refine ⟨?_, by decide +kernel, by decide +kernel, by decide +kernel⟩
  have h1 : (Generated.protoNames.take 50).all (fun p => decide (p.1 ≤ 144 → p.2 = Spec.ianaName p.1)) = true := by
    decide +kernel
  have h2 : ((Generated.protoNames.drop 50).take 50).all (fun p => decide (p.1 ≤ 144 → p.2 = Spec.ianaName p.1)) = true := by
    decide +kernel
  have h3 : ((Generated.protoNames.drop 50).drop 50).all (fun p => decide (p.1 ≤ 144 → p.2 = Spec.ianaName p.1)) = true := by
    decide +kernel
  intro p hp
  rw [← List.take_append_drop 50 Generated.protoNames, List.mem_append] at hp
  rcases hp with hp | hp
  · exact of_decide_eq_true (List.all_eq_true.mp h1 p hp)
  · rw [← List.take_append_drop 50 (Generated.protoNames.drop 50), List.mem_append] at hp
    rcases hp with hp | hp
    · exact of_decide_eq_true (List.all_eq_true.mp h2 p hp)
    · exact of_decide_eq_true (List.all_eq_true.mp h3 p hp)

/-- **C03 with protocol names** (the oracle predicate `Preds.fixedDecodes`), V5.  PARTIAL: needs
    a name table `names` that is right outside a set `bad` of numbers, and that no record of the
    packet carries a protocol number in `bad` (for the generated tables: `bad = [0, 1, 144, 255]`).
    The hypothesis on the records is stated on the INPUT bytes (byte 38 of each 48-byte record). -/
theorem C03_decode_v5_partial (c : Config) (hok : c.t.ciscoOk = true) (names : List (Nat × String)) (bad : List Nat)
    (hnames : ∀ n, n < 256 → n ∉ bad → names.lookup (c.t.protoFromU8 n) = some (Spec.ianaName n))
    (st : PState) (buf body : Bytes)
    (hv : beU 2 buf = some (5, body)) (ha : c.allowed.contains 5 = true) (hd : c.t.dispatch.lookup 5 = some 5)
    (hlen : 24 + 48 * beNat ((buf.drop 2).take 2) ≤ buf.length)
    (hgood : ∀ k, k < beNat ((buf.drop 2).take 2) → beNat ((buf.drop (24 + 48 * k + 38)).take 1) ∉ bad) :
    ∃ h rs, parsePacket c st buf = (st, .ok (.v5 h rs) (buf.drop (24 + 48 * beNat ((buf.drop 2).take 2)))) ∧
      fixedDecodes names c.t.v5Hdr c.t.v5Rec Spec.ciscoV5Hdr Spec.ciscoV5Rec buf h rs = true := by
  obtain ⟨h, rs, hp, hl, hdec⟩ := C03_decode_v5 c hok st buf body hv ha hd hlen
  refine ⟨h, rs, hp, fixedDecodes_of_NP names _ _ _ _ _ buf h rs hdec ?_⟩
  intro r hr
  obtain ⟨k, hk, rfl⟩ := List.getElem_of_mem hr
  obtain ⟨_, _, _, hrec⟩ := C03_records_at _ _ _ _ _ _ _ _ hdec
  obtain ⟨hf, hpt, hpn, _⟩ := hrec k hk
  simp only [fieldsAtOffsets, List.all_eq_true, beq_iff_eq] at hf
  have hnum := hf ("protocol_number", 1) (by decide)
  rw [show Spec.offsetOf Spec.ciscoV5Rec "protocol_number" = 38 by decide,
    show Spec.totalLen Spec.ciscoV5Hdr = 24 by decide, show Spec.totalLen Spec.ciscoV5Rec = 48 by decide,
    List.drop_drop] at hnum
  have hg := hgood k (by omega)
  rw [← hnum] at hg
  simp only [protoIsIana, hpt, beq_iff_eq]
  exact hnames _ hpn hg

/-- **C03 with protocol names**, V7 (byte 38 of each 52-byte record).  PARTIAL as `C03_decode_v5_partial`. -/
theorem C03_decode_v7_partial (c : Config) (hok : c.t.ciscoOk = true) (names : List (Nat × String)) (bad : List Nat)
    (hnames : ∀ n, n < 256 → n ∉ bad → names.lookup (c.t.protoFromU8 n) = some (Spec.ianaName n))
    (st : PState) (buf body : Bytes)
    (hv : beU 2 buf = some (7, body)) (ha : c.allowed.contains 7 = true) (hd : c.t.dispatch.lookup 7 = some 7)
    (hlen : 24 + 52 * beNat ((buf.drop 2).take 2) ≤ buf.length)
    (hgood : ∀ k, k < beNat ((buf.drop 2).take 2) → beNat ((buf.drop (24 + 52 * k + 38)).take 1) ∉ bad) :
    ∃ h rs, parsePacket c st buf = (st, .ok (.v7 h rs) (buf.drop (24 + 52 * beNat ((buf.drop 2).take 2)))) ∧
      fixedDecodes names c.t.v7Hdr c.t.v7Rec Spec.ciscoV7Hdr Spec.ciscoV7Rec buf h rs = true := by
  obtain ⟨h, rs, hp, hl, hdec⟩ := C03_decode_v7 c hok st buf body hv ha hd hlen
  refine ⟨h, rs, hp, fixedDecodes_of_NP names _ _ _ _ _ buf h rs hdec ?_⟩
  intro r hr
  obtain ⟨k, hk, rfl⟩ := List.getElem_of_mem hr
  obtain ⟨_, _, _, hrec⟩ := C03_records_at _ _ _ _ _ _ _ _ hdec
  obtain ⟨hf, hpt, hpn, _⟩ := hrec k hk
  simp only [fieldsAtOffsets, List.all_eq_true, beq_iff_eq] at hf
  have hnum := hf ("protocol_number", 1) (by decide)
  rw [show Spec.offsetOf Spec.ciscoV7Rec "protocol_number" = 38 by decide,
    show Spec.totalLen Spec.ciscoV7Hdr = 24 by decide, show Spec.totalLen Spec.ciscoV7Rec = 52 by decide,
    List.drop_drop] at hnum
  have hg := hgood k (by omega)
  rw [← hnum] at hg
  simp only [protoIsIana, hpt, beq_iff_eq]
  exact hnames _ hpn hg

/-! ### 5. instantiation for the generated tables -/

/-- the configuration the crate builds from the generated tables -/
abbrev genCfg (allowed : List Nat) (uf : Bool := true) : Config :=
  { t := Generated.tables, allowed := allowed, unknownFields := uf }

/-- **C03 (V5) for the generated tables**, every allowed set containing 5, every cache state, every buffer:
    complete packets decode per Cisco (`fixedDecodesNP`: all fields at their offsets, `count` records,
    `protocol_type = ProtocolTypes::from(protocol_number)`), truncated ones are `Partial`. -/
theorem C03_generated_v5 (allowed : List Nat) (uf : Bool) (h5 : 5 ∈ allowed) (st : PState) (buf body : Bytes)
    (hv : beU 2 buf = some (5, body)) :
    (24 + 48 * beNat ((buf.drop 2).take 2) ≤ buf.length →
      ∃ h rs, parsePacket (genCfg allowed uf) st buf =
          (st, .ok (.v5 h rs) (buf.drop (24 + 48 * beNat ((buf.drop 2).take 2)))) ∧
        rs.length = beNat ((buf.drop 2).take 2) ∧
        fixedDecodesNP Generated.tables.protoFromU8 Generated.v5Hdr Generated.v5Rec Spec.ciscoV5Hdr Spec.ciscoV5Rec
          buf h rs = true) ∧
    (buf.length < 24 + 48 * beNat ((buf.drop 2).take 2) →
      parsePacket (genCfg allowed uf) st buf = (st, .fail (.partialParse 5 (buf.drop 2)))) := by
  have ha : (genCfg allowed uf).allowed.contains 5 = true := by simpa using h5
  have hd : (genCfg allowed uf).t.dispatch.lookup 5 = some 5 := by
    show Generated.dispatch.lookup 5 = some 5
    decide
  exact ⟨fun hlen => C03_decode_v5 _ C03_generated_ciscoOk st buf body hv ha hd hlen,
    fun hs => C03_short_v5 _ C03_generated_ciscoOk st buf body hv ha hd (Or.inr hs)⟩

/-- **C03 (V7) for the generated tables**. -/
theorem C03_generated_v7 (allowed : List Nat) (uf : Bool) (h7 : 7 ∈ allowed) (st : PState) (buf body : Bytes)
    (hv : beU 2 buf = some (7, body)) :
    (24 + 52 * beNat ((buf.drop 2).take 2) ≤ buf.length →
      ∃ h rs, parsePacket (genCfg allowed uf) st buf =
          (st, .ok (.v7 h rs) (buf.drop (24 + 52 * beNat ((buf.drop 2).take 2)))) ∧
        rs.length = beNat ((buf.drop 2).take 2) ∧
        fixedDecodesNP Generated.tables.protoFromU8 Generated.v7Hdr Generated.v7Rec Spec.ciscoV7Hdr Spec.ciscoV7Rec
          buf h rs = true) ∧
    (buf.length < 24 + 52 * beNat ((buf.drop 2).take 2) →
      parsePacket (genCfg allowed uf) st buf = (st, .fail (.partialParse 7 (buf.drop 2)))) := by
  have ha : (genCfg allowed uf).allowed.contains 7 = true := by simpa using h7
  have hd : (genCfg allowed uf).t.dispatch.lookup 7 = some 7 := by
    show Generated.dispatch.lookup 7 = some 7
    decide
  exact ⟨fun hlen => C03_decode_v7 _ C03_generated_ciscoOk st buf body hv ha hd hlen,
    fun hs => C03_short_v7 _ C03_generated_ciscoOk st buf body hv ha hd (Or.inr hs)⟩

/-- **C03 with IANA protocol names for the generated tables** (the oracle predicate
    `Preds.fixedDecodes Generated.protoNames`), V5.  PARTIAL: no record may carry protocol number
    0, 1, 144 or 255 (byte 38 of the record). -/
theorem C03_generated_v5_partial (allowed : List Nat) (uf : Bool) (h5 : 5 ∈ allowed) (st : PState) (buf body : Bytes)
    (hv : beU 2 buf = some (5, body)) (hlen : 24 + 48 * beNat ((buf.drop 2).take 2) ≤ buf.length)
    (hgood : ∀ k, k < beNat ((buf.drop 2).take 2) → beNat ((buf.drop (24 + 48 * k + 38)).take 1) ∉ [0, 1, 144, 255]) :
    ∃ h rs, parsePacket (genCfg allowed uf) st buf =
        (st, .ok (.v5 h rs) (buf.drop (24 + 48 * beNat ((buf.drop 2).take 2)))) ∧
      fixedDecodes Generated.protoNames Generated.v5Hdr Generated.v5Rec Spec.ciscoV5Hdr Spec.ciscoV5Rec buf h rs = true :=
  C03_decode_v5_partial (genCfg allowed uf) C03_generated_ciscoOk Generated.protoNames [0, 1, 144, 255]
    C03_protoName_iana_partial st buf body hv (by simpa using h5)
    (show Generated.dispatch.lookup 5 = some 5 by decide) hlen hgood

/-- **C03 with IANA protocol names for the generated tables**, V7.  PARTIAL as above. -/
theorem C03_generated_v7_partial (allowed : List Nat) (uf : Bool) (h7 : 7 ∈ allowed) (st : PState) (buf body : Bytes)
    (hv : beU 2 buf = some (7, body)) (hlen : 24 + 52 * beNat ((buf.drop 2).take 2) ≤ buf.length)
    (hgood : ∀ k, k < beNat ((buf.drop 2).take 2) → beNat ((buf.drop (24 + 52 * k + 38)).take 1) ∉ [0, 1, 144, 255]) :
    ∃ h rs, parsePacket (genCfg allowed uf) st buf =
        (st, .ok (.v7 h rs) (buf.drop (24 + 52 * beNat ((buf.drop 2).take 2)))) ∧
      fixedDecodes Generated.protoNames Generated.v7Hdr Generated.v7Rec Spec.ciscoV7Hdr Spec.ciscoV7Rec buf h rs = true :=
  C03_decode_v7_partial (genCfg allowed uf) C03_generated_ciscoOk Generated.protoNames [0, 1, 144, 255]
    C03_protoName_iana_partial st buf body hv (by simpa using h7)
    (show Generated.dispatch.lookup 7 = some 7 by decide) hlen hgood

/-! ### the full-strength statement and its refutation -/

/-- a V5 packet with one record: src 10.0.0.1 → dst 10.0.0.2, protocol number `p`, distinct values in
    every field -/
def v5Sample (p : UInt8) : Bytes :=
  [0, 5, 0, 1, 0, 0, 0, 1, 0, 0, 0, 2, 0, 0, 0, 3, 0, 0, 0, 4, 5, 6, 0, 7,
   10, 0, 0, 1, 10, 0, 0, 2, 10, 0, 0, 254, 0, 11, 0, 12, 0, 0, 0, 13, 0, 0, 0, 14, 0, 0, 0, 15, 0, 0, 0, 16,
   0x12, 0x34, 0xfe, 0xdc, 17, 18, p, 19, 0, 20, 0, 21, 22, 23, 0, 24]

/-- **C03 as stated** (model, generated tables, V5 half): every V5 packet returned by
    `parse_packet_by_version` satisfies the oracle predicate `fixedDecodes`, protocol NAMES included. -/
def C03_full : Prop :=
  ∀ (allowed : List Nat) (st st' : PState) (buf : Bytes) (h : List Nat) (rs : List (List Nat)) (rest : Bytes),
    parsePacket (genCfg allowed) st buf = (st', .ok (.v5 h rs) rest) →
    fixedDecodes Generated.protoNames Generated.v5Hdr Generated.v5Rec Spec.ciscoV5Hdr Spec.ciscoV5Rec buf h rs = true

/-- the sample packet with protocol number 1 (ICMP) decodes, every field from its Cisco offset … -/
theorem C03_sample_decodes :
    parsePacket (genCfg [5]) {} (v5Sample 1) =
      ({}, .ok (.v5 [5, 1, 1, 2, 3, 4, 5, 6, 7]
        [[0x0a000001, 0x0a000002, 0x0a0000fe, 11, 12, 13, 14, 15, 16, 0x1234, 0xfedc, 17, 18, 1, 0, 19, 20, 21, 22, 23, 24]]) []) := by
  decide +kernel

/-- … but its symbolic protocol is discriminant 0 = `Hopopt`, not `Icmp`: **C03 as stated is false of
    the model** (and of the crate: the snapshot test pins `protocol_type: Hopopt`-style names).
    Witnesses for the other three numbers: `C03_protoName_fails_0/_144/_255`. -/
theorem C03_full_fails : ¬ C03_full := by
  intro hfull
  have := hfull [5] {} {} (v5Sample 1) _ _ _ C03_sample_decodes
  revert this
  decide +kernel

/-- non-vacuity of `C03_decode_v5` / `C03_generated_v5_partial`: the sample with protocol 6 meets every
    hypothesis (version word 5, 72 = 24 + 48·1 bytes, protocol byte 6 ∉ {0,1,144,255}) … -/
example : beU 2 (v5Sample 6) = some (5, (v5Sample 6).drop 2) ∧
    24 + 48 * beNat (((v5Sample 6).drop 2).take 2) ≤ (v5Sample 6).length ∧
    (∀ k, k < beNat (((v5Sample 6).drop 2).take 2) →
      beNat (((v5Sample 6).drop (24 + 48 * k + 38)).take 1) ∉ [0, 1, 144, 255]) := by
  refine ⟨by decide, by decide, ?_⟩
  intro k hk
  have h1 : beNat (((v5Sample 6).drop 2).take 2) = 1 := by decide
  have : k = 0 := by omega
  subst this
  decide

/-- … and the oracle predicate evaluates to `true` on its decoding (protocol 6 = `Tcp`) -/
example :
    fixedDecodes Generated.protoNames Generated.v5Hdr Generated.v5Rec Spec.ciscoV5Hdr Spec.ciscoV5Rec (v5Sample 6)
      [5, 1, 1, 2, 3, 4, 5, 6, 7]
      [[0x0a000001, 0x0a000002, 0x0a0000fe, 11, 12, 13, 14, 15, 16, 0x1234, 0xfedc, 17, 18, 6, 6, 19, 20, 21, 22, 23, 24]] = true := by
  decide +kernel

/-- non-vacuity of `C03_short_v5`: the sample cut after 71 bytes is `Partial` -/
example : parsePacket (genCfg [5]) {} ((v5Sample 6).take 71) = ({}, .fail (.partialParse 5 (((v5Sample 6).take 71).drop 2))) := by
  decide +kernel

/-- a V7 packet with two records (UDP, GRE) -/
def v7Sample : Bytes :=
  [0, 7, 0, 2, 0, 0, 0, 1, 0, 0, 0, 2, 0, 0, 0, 3, 0, 0, 0, 4, 0, 0, 0, 0] ++
  [10, 0, 0, 1, 10, 0, 0, 2, 10, 0, 0, 254, 0, 11, 0, 12, 0, 0, 0, 13, 0, 0, 0, 14, 0, 0, 0, 15, 0, 0, 0, 16,
   0x12, 0x34, 0xfe, 0xdc, 17, 18, 17, 19, 0, 20, 0, 21, 22, 23, 0, 24, 192, 168, 0, 1] ++
  [10, 0, 0, 3, 10, 0, 0, 4, 10, 0, 0, 253, 0, 31, 0, 32, 0, 0, 0, 33, 0, 0, 0, 34, 0, 0, 0, 35, 0, 0, 0, 36,
   0xab, 0xcd, 0x00, 0x35, 37, 38, 47, 39, 0, 40, 0, 41, 42, 43, 0, 44, 192, 168, 0, 2]

/-- non-vacuity of `C03_decode_v7` / `C03_generated_v7_partial`: hypotheses hold for `v7Sample ++ [1, 2, 3]`,
    the model returns two records and the three trailing bytes, and the oracle predicate is `true` -/
example :
    beU 2 (v7Sample ++ [1, 2, 3]) = some (7, (v7Sample ++ [1, 2, 3]).drop 2) ∧
    24 + 52 * beNat (((v7Sample ++ [1, 2, 3]).drop 2).take 2) ≤ (v7Sample ++ [1, 2, 3]).length ∧
    (match parsePacket (genCfg [7]) {} (v7Sample ++ [1, 2, 3]) with
     | (_, .ok (.v7 h rs) rest) =>
       rs.length == 2 && rest == [1, 2, 3] &&
       fixedDecodes Generated.protoNames Generated.v7Hdr Generated.v7Rec Spec.ciscoV7Hdr Spec.ciscoV7Rec
         (v7Sample ++ [1, 2, 3]) h rs
     | _ => false) = true := by
  decide +kernel

/-- non-vacuity of `C03_short_v7`: one byte short of the second record is `Partial`, not a
    one-record packet -/
example : parsePacket (genCfg [7]) {} (v7Sample.take 127) = ({}, .fail (.partialParse 7 ((v7Sample.take 127).drop 2))) := by
  decide +kernel

end Netflow.Props

namespace Netflow.Props
open Netflow Preds

/-! ### 6. the oracle predicate `c03ok` along a whole `parse_bytes` run -/

/-- **C03 along a whole run, in the oracle's vocabulary** (every fuel of the parse loop, every
    fuel `n` of the predicate).  PARTIAL: the hypothesis `protoNamesOkPkts` (every decoded V5/V7 record
    has the IANA name of its number) is needed because the crate's `From<u8>` table is wrong for
    0, 1, 144 and 255; everything else `c03ok` checks — offsets, record counts, packet boundaries,
    truncation ⇒ error — holds unconditionally. -/
theorem C03_stream_fuel_partial (c : Config) (hok : c.t.ciscoOk = true) (hf : c.t.framingOk = true)
    (hd5 : c.t.dispatch.lookup 5 = some 5) (hd7 : c.t.dispatch.lookup 7 = some 7) (names : List (Nat × String)) :
    ∀ (fuel n : Nat) (st st' : PState) (buf : Bytes) (pkts : List Packet),
      parseBytesF c fuel st buf = (st', .done pkts) → protoNamesOkPkts c names pkts = true →
      c03ok c names n buf pkts = true := by
  have hd : ∀ x ∈ c.t.dispatch, x.1 = x.2 := by
    have hf' := hf
    simp only [Tables.framingOk, Bool.and_eq_true, List.all_eq_true, beq_iff_eq] at hf'
    exact hf'.2
  intro fuel
  induction fuel with
  | zero => intro n st st' buf pkts h; simp [parseBytesF] at h
  | succ fuel ih =>
    intro n st st' buf pkts h hnm
    cases n with
    | zero => rfl
    | succ n =>
    unfold parseBytesF at h
    by_cases he : buf.isEmpty = true
    · have : buf = [] := by simpa using he
      subst this
      exact c03ok_of_no_version c names _ _ _ (by simp [versionOf, beU])
    · simp only [he, Bool.false_eq_true, ↓reduceIte] at h
      cases hp : parsePacket c st buf with
      | mk st1 step =>
        simp only [hp] at h
        rcases parsePacket_inv c st st1 buf step hp with ⟨hl, _, hs⟩ | ⟨v, hv, ha, _, hs⟩ | ⟨v, hv, ha, hdn, _, hs⟩ | ⟨v, kind, hv, ha, hdk, hpv⟩
        · have hnl : ¬ 2 ≤ buf.length := by omega
          exact c03ok_of_no_version c names _ _ _ (by simp [versionOf, beU, hnl])
        · simp only [c03ok, versionOf, hv, ha]
          simp
        · -- allowed but no dispatch arm: not 5, not 7
          have h5 : v ≠ 5 := by intro e; rw [e, hd5] at hdn; simp at hdn
          have h7 : v ≠ 7 := by intro e; rw [e, hd7] at hdn; simp at hdn
          subst hs
          simp only [Prod.mk.injEq, Outcome.done.injEq] at h
          rw [← h.2, c03ok_other c names n buf v _ (by simp [versionOf, hv]) ha h5 h7]
          simp [wireLen]
        · have hvk : v = kind := hd _ (lookup_mem hdk)
          have hvo : versionOf buf = some v := by simp [versionOf, hv]
          -- what the rest of the loop does with an `ok` step, uniformly
          have hloop : ∀ (pkt : Packet) (rest : Bytes), step = .ok pkt rest →
              ∃ ps, pkts = pkt :: ps ∧ c03ok c names n rest ps = true := by
            intro pkt rest hstep
            subst hstep
            simp only at h
            by_cases hre : rest.isEmpty = true
            · simp only [hre, ↓reduceIte, Prod.mk.injEq, Outcome.done.injEq] at h
              have : rest = [] := by simpa using hre
              subst this
              exact ⟨[], h.2.symm, c03ok_of_no_version c names _ _ _ (by simp [versionOf, beU])⟩
            · simp only [hre, Bool.false_eq_true, ↓reduceIte] at h
              cases hrec : parseBytesF c fuel st1 rest with
              | mk st2 out =>
                simp only [hrec, Prod.mk.injEq] at h
                cases out with
                | done ps =>
                  simp only [Outcome.cons, Outcome.done.injEq] at h
                  rw [← h.2] at hnm
                  exact ⟨ps, h.2.symm, ih n _ _ _ _ hrec (protoNamesOkPkts_cons c names pkt ps hnm).2⟩
                | panic ps => simp [Outcome.cons] at h
                | overflow ps => simp [Outcome.cons] at h
          by_cases h5 : v = 5
          · subst h5
            by_cases hlen : 24 + 48 * beNat ((buf.drop 2).take 2) ≤ buf.length
            · obtain ⟨hh, rs, hpp, _, hdec⟩ := C03_decode_v5 c hok st buf _ hv ha hd5 hlen
              rw [hp, Prod.mk.injEq] at hpp
              obtain ⟨ps, hps, hrest⟩ := hloop _ _ hpp.2
              subst hps
              rw [c03ok_v5_complete c names n buf hh rs ps hvo ha hlen, hrest, Bool.and_true]
              refine fixedDecodes_of_NP names _ _ _ _ _ buf hh rs hdec ?_
              have := (protoNamesOkPkts_cons c names _ ps hnm).1
              simpa [protoNamesOkPkts] using this
            · have hs : buf.length < 24 ∨ buf.length < 24 + 48 * beNat ((buf.drop 2).take 2) := Or.inr (by omega)
              have hpp := C03_short_v5 c hok st buf _ hv ha hd5 hs
              rw [hp, Prod.mk.injEq] at hpp
              rw [hpp.2] at h
              simp only [Prod.mk.injEq, Outcome.done.injEq] at h
              rw [← h.2]
              exact c03ok_v5_short c names n buf _ _ hvo ha hs
          · by_cases h7 : v = 7
            · subst h7
              by_cases hlen : 24 + 52 * beNat ((buf.drop 2).take 2) ≤ buf.length
              · obtain ⟨hh, rs, hpp, _, hdec⟩ := C03_decode_v7 c hok st buf _ hv ha hd7 hlen
                rw [hp, Prod.mk.injEq] at hpp
                obtain ⟨ps, hps, hrest⟩ := hloop _ _ hpp.2
                subst hps
                rw [c03ok_v7_complete c names n buf hh rs ps hvo ha hlen, hrest, Bool.and_true]
                refine fixedDecodes_of_NP names _ _ _ _ _ buf hh rs hdec ?_
                have := (protoNamesOkPkts_cons c names _ ps hnm).1
                simpa [protoNamesOkPkts] using this
              · have hs : buf.length < 24 ∨ buf.length < 24 + 52 * beNat ((buf.drop 2).take 2) := Or.inr (by omega)
                have hpp := C03_short_v7 c hok st buf _ hv ha hd7 hs
                rw [hp, Prod.mk.injEq] at hpp
                rw [hpp.2] at h
                simp only [Prod.mk.injEq, Outcome.done.injEq] at h
                rw [← h.2]
                exact c03ok_v7_short c names n buf _ _ hvo ha hs
            · rw [c03ok_other c names n buf v _ hvo ha h5 h7]
              cases step with
              | ok pkt rest =>
                obtain ⟨ps, hps, hrest⟩ := hloop pkt rest rfl
                subst hps
                obtain ⟨m, hw, hm, hr⟩ := C02_versioned_ok c hf _ _ _ _ _ _ hpv
                have hrest' : rest = buf.drop (2 + m) := by rw [hr, List.drop_drop]
                simp only [hw]
                rw [← hrest', hrest]
                simp
              | fail e =>
                simp only [Prod.mk.injEq, Outcome.done.injEq] at h
                rw [← h.2]
                simp [wireLen]
              | unallowed => exact absurd hpv (C02_versioned_not_unallowed c _ _ _ _)
              | panic => simp at h
              | overflow => simp at h


/-- **C03 for `parse_bytes` as modelled** (fuel `|buf| + 1`), in the oracle's vocabulary.  PARTIAL: see
    `C03_stream_fuel_partial`. -/
theorem C03_stream_partial (c : Config) (hok : c.t.ciscoOk = true) (hf : c.t.framingOk = true)
    (hd5 : c.t.dispatch.lookup 5 = some 5) (hd7 : c.t.dispatch.lookup 7 = some 7) (names : List (Nat × String))
    (n : Nat) (st st' : PState) (buf : Bytes) (pkts : List Packet)
    (h : parseBytes c st buf = (st', .done pkts)) (hnm : protoNamesOkPkts c names pkts = true) :
    c03ok c names n buf pkts = true :=
  C03_stream_fuel_partial c hok hf hd5 hd7 names _ n _ _ _ _ h hnm

/-- **C03 along a run for the generated tables**: every allowed set, cache state, buffer and predicate
    fuel.  PARTIAL: only results in which some V5/V7 record has protocol number 0, 1, 144 or 255
    (`protoNamesOkPkts … = false`) can violate the oracle predicate — cf. `C03_c03ok_fails`. -/
theorem C03_generated_stream_partial (allowed : List Nat) (uf : Bool) (n : Nat) (st st' : PState) (buf : Bytes)
    (pkts : List Packet) (h : parseBytes (genCfg allowed uf) st buf = (st', .done pkts))
    (hnm : protoNamesOkPkts (genCfg allowed uf) Generated.protoNames pkts = true) :
    c03ok (genCfg allowed uf) Generated.protoNames n buf pkts = true :=
  C03_stream_partial (genCfg allowed uf) C03_generated_ciscoOk C02_generated_framing
    (show Generated.dispatch.lookup 5 = some 5 by decide) (show Generated.dispatch.lookup 7 = some 7 by decide)
    Generated.protoNames n st st' buf pkts h hnm

/-- non-vacuity: two V5 packets (TCP, UDP) and a stray byte — the hypotheses hold and the oracle
    predicate evaluates to `true` -/
example :
    let buf := v5Sample 6 ++ v5Sample 17 ++ [9]
    let pkts := match (parseBytes (genCfg [5, 7, 9, 10]) {} buf).2 with | .done ps => ps | _ => []
    (pkts.length == 3 && protoNamesOkPkts (genCfg [5, 7, 9, 10]) Generated.protoNames pkts &&
      c03ok (genCfg [5, 7, 9, 10]) Generated.protoNames (buf.length + 1) buf pkts) = true := by
  decide +kernel

/-- the oracle predicate is `false` on the model's own output for the ICMP sample: the defect
    `C03_protoName_fails_1` as the check sees it -/
theorem C03_c03ok_fails :
    (parseBytes (genCfg [5]) {} (v5Sample 1)).2 =
      .done [.v5 [5, 1, 1, 2, 3, 4, 5, 6, 7]
        [[0x0a000001, 0x0a000002, 0x0a0000fe, 11, 12, 13, 14, 15, 16, 0x1234, 0xfedc, 17, 18, 1, 0, 19, 20, 21, 22, 23, 24]]] ∧
    c03ok (genCfg [5]) Generated.protoNames 73 (v5Sample 1)
      [.v5 [5, 1, 1, 2, 3, 4, 5, 6, 7]
        [[0x0a000001, 0x0a000002, 0x0a0000fe, 11, 12, 13, 14, 15, 16, 0x1234, 0xfedc, 17, 18, 1, 0, 19, 20, 21, 22, 23, 24]]] = false := by
  constructor <;> decide +kernel

end Netflow.Props
