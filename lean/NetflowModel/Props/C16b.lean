/-
  Props/C16b.lean — C16 at the TEXT level: "… produces well-formed JSON … records' fields in template order".

  JsonText.lean defines an order-preserving syntax tree `JTree`, a total RFC 8259 reader `parseJ`, the compact writer
  of serde_json `printTree`, and the ORDERED matcher `jmatchT` that the run-time oracle applies to the text the crate
  produced (`parseJ text = some tree` and `jmatchT … (toJ c nm p) tree = true`).  The theorems below tie them together.

  * WRITER / READER ROUND TRIP: `C16_text_roundtrip` (`parseJ (printTree t) = some t` for every well-formed tree, i.e.
    every tree whose number literals are valid JSON numbers — strings and member names are arbitrary), its
    in-context generalisation `C16_text_roundtrip_in_context` (any continuation that cannot extend a number, enough
    fuel), the fuel bound `C16_text_fuel_bound`, the leaf lemmas `C16_text_string_roundtrip`,
    `C16_text_number_in_context`, `C16_text_intLit_valid`; the hypotheses are necessary
    (`C16_text_roundtrip_needs_wf`, `C16_text_roundtrip_needs_noExt`).  No restriction on number literals was needed:
    nothing here is `_partial`.
  * THE TREE A VALUE DENOTES: `J1.treeOf isFinite fp dec : JVal → JTree` (float printer `fp` and UTF-8 decoder `dec` are
    parameters, the serialiser's float printer is not modelled).  `C16_match_treeOf`: the matcher accepts it.
  * THE MATCHER IS ORDERED: `C16_match_ordered` (same member names in the same order, same count; arrays of equal
    length), `C16_match_elementwise` (k-th member against k-th member), `C16_record_text_keys`,
    `C16_v9_record_text_keys_in_template_order` (a record object read back from text has the member names
    "0", "1", …, "n-1" in template order).
  * THE TEXT DETERMINES THE VALUE: `C16_match_injective_partial` (values without floats and wildcard strings).
  * STRINGS: `C16_utf8Lossy_valid` (the model of `from_utf8_lossy` only produces valid UTF-8),
    `C16_parse_results_strings_valid` (every string in the JSON value of every parse result is valid UTF-8, so core's
    decoder `decUtf8` inverts the encoder on it).
  * HEADLINE: `C16_value_text` (any value, hypotheses on its leaves) / `C16_parse_results_text` (every parse result; the
    only hypothesis left is the specification of the unmodelled float printer / float reader pair): the text the
    modelled writer prints for any parse result is accepted by the reader, reads back as the tree of the value, and
    matches in order.  `C16_parse_results_text_keys`: records read back from text have their members in template order.
  Helper lemmas live in Lemmas/J1Text.lean and Lemmas/J1Utf8.lean.
-/
import NetflowModel.Lemmas.J1Text
import NetflowModel.Lemmas.J1Utf8
import NetflowModel.Props.C16
namespace Netflow.Props
open Netflow Netflow.JText Netflow.J1

/-! ### 1. writer / reader round trip -/

/-- WELL-FORMEDNESS of the writer's output (grammar level): the compact writer followed by the RFC 8259 reader is the
    identity on every tree whose number literals are valid JSON numbers (`WfTree`; a literal is valid iff the
    reader's number scanner accepts exactly the whole literal).  Strings and member names are arbitrary character
    lists (quotes, backslashes, control characters, non-BMP characters …; `Char` excludes surrogates). -/
theorem C16_text_roundtrip (t : JTree) (h : WfTree t = true) : parseJ (printTree t) = some t :=
  parseJ_print t h

/-- the generalisation that the induction needs: in front of any continuation `rest` that cannot extend a number
    literal (`noExt`: empty, or not starting with a digit, `.`, `e`, `E`; inside arrays and objects the continuation
    starts with `,` `]` `}`) and with at least `need t` fuel, `parseVal` reads exactly the printed tree. -/
theorem C16_text_roundtrip_in_context (t : JTree) (h : WfTree t = true) (fuel : Nat) (rest : List Char)
    (hf : need t ≤ fuel) (hr : noExt rest = true) : parseVal fuel (printTree t ++ rest) = some (t, rest) :=
  parseVal_print t h fuel rest hf hr

/-- fuel sufficiency: `parseJ` runs `parseVal` with `2 * length + 2` -/
theorem C16_text_fuel_bound (t : JTree) : need t ≤ 2 * (printTree t).length + 1 := need_le t

/-- strings: reading the escaped characters of `s` followed by a closing quote gives back `s` (every branch of
    `escChar`, including `\u00XX` for control characters) -/
theorem C16_text_string_roundtrip (s rest acc : List Char) :
    parseStrBody (s.flatMap escChar ++ '"' :: rest) acc = some (acc.reverse ++ s, rest) :=
  parseStrBody_print s rest acc

/-- numbers: whatever `parseNum` reads from `cs` it also reads from `cs ++ rest` when `rest` cannot extend a number -/
theorem C16_text_number_in_context (cs lit r rest : List Char) (hr : noExt rest = true)
    (h : parseNum cs = some (lit, r)) : parseNum (cs ++ rest) = some (lit, r ++ rest) :=
  parseNum_append rest hr cs lit r h

/-- every integer literal `itoa` writes (any `Int`: u128 counters, negative i32 …) is a valid JSON number -/
theorem C16_text_intLit_valid (z : Int) : parseNum (intLit z) = some (intLit z, []) := by
  have := numOk_intLit z
  simpa [numOk] using this

/-- `WfTree` cannot be dropped: a tree with the "literal" `01` prints to text the reader rejects, and the empty
    literal prints to the empty text -/
theorem C16_text_roundtrip_needs_wf :
    parseJ (printTree (.arr [.num ['0', '1']])) = none ∧ parseJ (printTree (.num [])) = none := ⟨rfl, rfl⟩

/-- `noExt` cannot be dropped: in front of a digit the literal `1` is read as `15` -/
theorem C16_text_roundtrip_needs_noExt :
    parseVal 5 (printTree (.num ['1']) ++ ['5']) = some (.num ['1', '5'], []) := rfl

/-! non-vacuity: a tree with every constructor, escapes of every kind, a fraction/exponent literal -/

def c16bTree : JTree :=
  .obj [(['a', '"'], .arr [.num ['-', '1', '.', '5', 'e', '+', '3'], .null, .bool true, .bool false,
                          .str ['x', '"', '\\', '/', '\n', '\r', '\t', Char.ofNat 8, Char.ofNat 12, Char.ofNat 1,
                                Char.ofNat 31, Char.ofNat 0x7f, Char.ofNat 0xe9, Char.ofNat 0x1F600]]),
        ([], .obj []), (['k'], .arr []), (['a', '"'], .num ['0'])]

example : WfTree c16bTree = true := by decide

example : printTree c16bTree =
    ['{', '"', 'a', '\\', '"', '"', ':', '[', '-', '1', '.', '5', 'e', '+', '3', ',', 'n', 'u', 'l', 'l', ',',
     't', 'r', 'u', 'e', ',', 'f', 'a', 'l', 's', 'e', ',',
     '"', 'x', '\\', '"', '\\', '\\', '/', '\\', 'n', '\\', 'r', '\\', 't', '\\', 'b', '\\', 'f',
     '\\', 'u', '0', '0', '0', '1', '\\', 'u', '0', '0', '1', 'f', Char.ofNat 0x7f, Char.ofNat 0xe9, Char.ofNat 0x1F600,
     '"', ']', ',', '"', '"', ':', '{', '}', ',', '"', 'k', '"', ':', '[', ']', ',', '"', 'a', '\\', '"', '"', ':', '0', '}'] := by
  rfl

example : parseJ (printTree c16bTree) = some c16bTree := C16_text_roundtrip c16bTree (by decide)

/-- non-vacuity of `C16_text_roundtrip_in_context`: inside an array, 40 units of fuel -/
example : parseVal 40 (printTree c16bTree ++ [',', '1', ']']) = some (c16bTree, [',', '1', ']']) :=
  C16_text_roundtrip_in_context c16bTree (by decide) 40 [',', '1', ']'] (by decide) (by decide)

/-- the same by evaluation of the reader (it is fuel-structural) -/
example : parseJ (printTree c16bTree) = some c16bTree := by rfl

/-- the reader also accepts white space and the escapes the writer never produces (`\/`, `\u` with surrogate pairs,
    upper-case hex, capital `E`); they read back as a different text but the same kind of tree -/
example : parseJ [' ', '[', ' ', '1', 'E', '2', ' ', ',', '\n', '"', '\\', '/', '\\', 'u', '0', '0', 'E', '9',
                  '\\', 'u', 'D', '8', '3', 'D', '\\', 'u', 'D', 'E', '0', '0', '"', ' ', ']', '\t'] =
    some (.arr [.num ['1', 'E', '2'], .str ['/', Char.ofNat 0xe9, Char.ofNat 0x1F600]]) := by rfl

/-! what "well-formed" means: texts the reader rejects -/

/-- leading zero -/
example : parseJ ['[', '0', '1', ']'] = none := by rfl
/-- trailing garbage after the value -/
example : parseJ ['1', ' ', 'x'] = none := by rfl
example : parseJ ['[', ']', ']'] = none := by rfl
example : parseJ ['n', 'u', 'l', 'l', 'n', 'u', 'l', 'l'] = none := by rfl
/-- a raw control character inside a string -/
example : parseJ ['"', 'a', '\n', '"'] = none := by rfl
example : parseJ ['"', Char.ofNat 0x1f, '"'] = none := by rfl
/-- a lone high surrogate escape, a lone low surrogate escape, a high surrogate followed by a non-surrogate -/
example : parseJ ['"', '\\', 'u', 'd', '8', '0', '0', '"'] = none := by rfl
example : parseJ ['"', '\\', 'u', 'd', 'c', '0', '0', '"'] = none := by rfl
example : parseJ ['"', '\\', 'u', 'd', '8', '0', '0', '\\', 'u', '0', '0', '4', '1', '"'] = none := by rfl
/-- an unterminated string, an unknown escape, a short `\u` -/
example : parseJ ['"', 'a', 'b'] = none := by rfl
example : parseJ ['"', '\\', 'x', '"'] = none := by rfl
example : parseJ ['"', '\\', 'u', '1', '2', '"'] = none := by rfl
/-- numbers: bare minus, trailing dot, empty exponent, leading plus, hexadecimal -/
example : parseJ ['-'] = none := by rfl
example : parseJ ['1', '.'] = none := by rfl
example : parseJ ['1', 'e'] = none := by rfl
example : parseJ ['+', '1'] = none := by rfl
example : parseJ ['0', 'x', '1', '0'] = none := by rfl
/-- structure: trailing comma, missing colon, unquoted member name, unclosed array, empty text, NaN -/
example : parseJ ['[', '1', ',', ']'] = none := by rfl
example : parseJ ['{', '"', 'a', '"', '1', '}'] = none := by rfl
example : parseJ ['{', 'a', ':', '1', '}'] = none := by rfl
example : parseJ ['[', '1', ',', '2'] = none := by rfl
example : parseJ [] = none := by rfl
example : parseJ ['N', 'a', 'N'] = none := by rfl

/-! ### 2./3. the tree a value denotes, and the matcher -/

/-- COMPLETENESS of the matcher: it accepts the tree a value denotes.  Hypotheses, on the leaves of `v` only
    (`Leaves`): for every finite float `bits` occurring in `v` the driver's float reader accepts what the float printer
    wrote (`fmatch bits (fp bits)`), and for every string `b` occurring in `v` the decoder inverts the UTF-8 encoder
    (`utf8Of (dec b) = b`; with `dec := J1.decUtf8` this says `b` is valid UTF-8, `J1.utf8Of_decUtf8`). -/
theorem C16_match_treeOf (isFinite : Nat → Bool) (fmatch : Nat → List Char → Bool) (fp : Nat → List Char)
    (dec : Bytes → List Char) (v : JVal)
    (h : Leaves (fun bits => isFinite bits = true → fmatch bits (fp bits) = true) (fun b => utf8Of (dec b) = b) v) :
    jmatchT isFinite fmatch v (treeOf isFinite fp dec v) = true :=
  jmatchT_treeOf isFinite fmatch fp dec v h

/-- the matcher is ORDERED: an object matches only an object with the same member names in the same order (hence the
    same number of members, duplicates included); an array matches only an array of the same length.  This is the
    "fields in template order" clause at the text level. -/
theorem C16_match_ordered (isFinite : Nat → Bool) (fmatch : Nat → List Char → Bool) :
    (∀ (kvs : List (String × JVal)) (t : JTree), jmatchT isFinite fmatch (.obj kvs) t = true →
      ∃ ms, t = .obj ms ∧ ms.map (·.1) = kvs.map (·.1.toList)) ∧
    (∀ (xs : List JVal) (t : JTree), jmatchT isFinite fmatch (.arr xs) t = true →
      ∃ ys, t = .arr ys ∧ ys.length = xs.length) := by
  constructor
  · intro kvs t h
    obtain ⟨ms, rfl, hm⟩ := jmatchT_obj_inv isFinite fmatch h
    exact ⟨ms, rfl, goObj_keys isFinite fmatch kvs ms hm⟩
  · intro xs t h
    obtain ⟨ys, rfl, hm⟩ := jmatchT_arr_inv isFinite fmatch h
    exact ⟨ys, rfl, goArr_length isFinite fmatch xs ys hm⟩

/-- … and position by position: the k-th member (element) of the tree matches the k-th member (element) of the value -/
theorem C16_match_elementwise (isFinite : Nat → Bool) (fmatch : Nat → List Char → Bool) :
    (∀ (kvs : List (String × JVal)) (ms : List (List Char × JTree)),
      jmatchT isFinite fmatch (.obj kvs) (.obj ms) = true →
      ∀ (k : Nat) (kv : String × JVal) (m : List Char × JTree), kvs[k]? = some kv → ms[k]? = some m →
        m.1 = kv.1.toList ∧ jmatchT isFinite fmatch kv.2 m.2 = true) ∧
    (∀ (xs : List JVal) (ys : List JTree), jmatchT isFinite fmatch (.arr xs) (.arr ys) = true →
      ∀ (k : Nat) (x : JVal) (y : JTree), xs[k]? = some x → ys[k]? = some y → jmatchT isFinite fmatch x y = true) := by
  constructor
  · intro kvs ms h
    rw [jmatchT] at h
    exact goObj_get isFinite fmatch kvs ms h
  · intro xs ys h
    rw [jmatchT] at h
    exact goArr_get isFinite fmatch xs ys h

/-- THE TEXT DETERMINES THE VALUE: two values that match the same tree are equal.  `_partial`: for values without
    floats and without wildcard strings (`plain`).  With floats the statement depends on the unmodelled float reader
    `fmatch` (two bit patterns may accept the same literal, e.g. `0.0`/`-0.0` under a sloppy reader), and the wildcard
    `.anyStr` (nom's error messages) matches every string by design. -/
theorem C16_match_injective_partial (isFinite : Nat → Bool) (fmatch : Nat → List Char → Bool) (v w : JVal) (t : JTree)
    (hv : plain v = true) (hw : plain w = true)
    (h1 : jmatchT isFinite fmatch v t = true) (h2 : jmatchT isFinite fmatch w t = true) : v = w :=
  jmatchT_inj isFinite fmatch v w t hv hw h1 h2

/-- the unrestricted statement -/
def C16_match_injective_full : Prop :=
  ∀ (isFinite : Nat → Bool) (fmatch : Nat → List Char → Bool) (v w : JVal) (t : JTree),
    jmatchT isFinite fmatch v t = true → jmatchT isFinite fmatch w t = true → v = w

/-- … is false: the wildcard string and a concrete string match the same tree -/
theorem C16_match_injective_full_fails : ¬ C16_match_injective_full := by
  intro h
  have := h (fun _ => true) (fun _ _ => true) .anyStr (.str []) (.str []) (by rfl) (by rfl)
  cases this

/-- integer literals identify the integer (used by injectivity) -/
theorem C16_intLit_injective (a b : Int) (h : intLit a = intLit b) : a = b := intLit_inj h

/-! non-vacuity of the matcher theorems: a value with every constructor; the float `0` is "finite" and printed `0.0`,
    the float `1` is "not finite" and printed `null` -/

def c16bVal : JVal :=
  .obj [("k", .arr [.num (-5), .num 340282366920938463463374607431768211455, .f64 0, .f64 1,
                    .str [104, 105], .anyStr, .null, .obj []])]

def c16bFinite : Nat → Bool := fun b => b == 0
def c16bFp : Nat → List Char := fun _ => ['0', '.', '0']
def c16bFmatch : Nat → List Char → Bool := fun b lit => b == 0 && lit == ['0', '.', '0']

example : Leaves (fun bits => c16bFinite bits = true → c16bFmatch bits (c16bFp bits) = true)
    (fun b => utf8Of (decAscii b) = b) c16bVal :=
  leavesB_sound (fun bits => !c16bFinite bits || c16bFmatch bits (c16bFp bits)) (fun b => utf8Of (decAscii b) == b)
    c16bVal (by decide) |>.mono (fun b hb hf => by simpa [hf] using hb) (fun b hb => by simpa using hb)

example : plain (.obj [("k", .arr [.num (-5), .str [104, 105], .null, .obj []])]) = true := by decide

/-! ### 4. headline: the text of a value, the text of a parse result -/

/-- for ANY model value `v`: the tree it denotes is well formed, so the text the modelled writer prints for it is
    accepted by the reader and reads back as that very tree, and the ordered matcher accepts it.  Hypotheses on the
    leaves of `v` only: the float printer writes a valid JSON number that the float reader accepts, for the finite floats
    in `v`; the decoder inverts `utf8Of` on the strings in `v`. -/
theorem C16_value_text (isFinite : Nat → Bool) (fmatch : Nat → List Char → Bool) (fp : Nat → List Char)
    (dec : Bytes → List Char) (v : JVal)
    (h : Leaves (fun bits => isFinite bits = true → fmatch bits (fp bits) = true ∧ numOk (fp bits) = true)
      (fun b => utf8Of (dec b) = b) v) :
    WfTree (treeOf isFinite fp dec v) = true ∧
    parseJ (printTree (treeOf isFinite fp dec v)) = some (treeOf isFinite fp dec v) ∧
    jmatchT isFinite fmatch v (treeOf isFinite fp dec v) = true := by
  have hw : WfTree (treeOf isFinite fp dec v) = true :=
    WfTree_treeOf isFinite fp dec v (h.mono (fun _ hb hf => (hb hf).2) (fun _ _ => trivial))
  exact ⟨hw, parseJ_print _ hw,
    jmatchT_treeOf isFinite fmatch fp dec v (h.mono (fun _ hb hf => (hb hf).1) (fun _ hb => hb))⟩

/-- the model of `String::from_utf8_lossy` (`utf8Lossy`: Rust's `Utf8Chunks` state machine with the `E0/ED/F0/F4`
    second-byte ranges) only produces valid UTF-8 (core's `ByteArray.IsValidUTF8`), for every input -/
theorem C16_utf8Lossy_valid (bs : Bytes) : ValidUtf8 (utf8Lossy bs) := validUtf8_lossy bs

/-- `ValidUtf8` is exactly "some list of characters encodes to these bytes", and core's decoder finds it -/
theorem C16_validUtf8_iff (b : Bytes) : ValidUtf8 b ↔ ∃ s, utf8Of s = b := validUtf8_iff b

theorem C16_decUtf8_inverts (b : Bytes) (h : ValidUtf8 b) : utf8Of (decUtf8 b) = b := utf8Of_decUtf8 b h

/-- every string anywhere in the JSON value of every parse result is valid UTF-8: decoded string fields are
    `utf8Lossy` output, MAC addresses are ASCII, everything else (enum variant names, dotted quads, IPv6 texts) comes
    from a Lean `String`; float leaves are unconstrained -/
theorem C16_parse_results_strings_valid (c : Config) (nm : JNames) (st st' : PState) (buf : Bytes) (ps : List Packet)
    (h : parseBytes c st buf = (st', .done ps)) :
    ∀ p ∈ ps, Leaves (fun _ => True) ValidUtf8 (toJ c nm p) :=
  parseBytes_leaves c nm st st' buf ps h

/-- non-vacuity of `C16_value_text` (the value of the matcher examples above, ASCII decoder) -/
example : Leaves (fun bits => c16bFinite bits = true → c16bFmatch bits (c16bFp bits) = true ∧ numOk (c16bFp bits) = true)
    (fun b => utf8Of (decAscii b) = b) c16bVal :=
  leavesB_sound (fun bits => !c16bFinite bits || (c16bFmatch bits (c16bFp bits) && numOk (c16bFp bits)))
    (fun b => utf8Of (decAscii b) == b) c16bVal (by decide) |>.mono
      (fun b hb hf => by simpa [hf] using hb) (fun b hb => by simpa using hb)

/-- HEADLINE: for every configuration, name tables, parser state and input, and every packet `p` that `parse_bytes`
    returns: the text the modelled writer prints for `toJ c nm p` is well-formed JSON (the reader accepts it and reads
    back the very tree of the value), and the ordered matcher accepts it — so the run-time oracle clause
    "`parseJ text = some tree` and `jmatchT (toJ c nm p) tree`" is met by the modelled serialiser on every parse
    result, member for member and in order.  Strings are decoded by core's UTF-8 decoder `decUtf8`; that every string
    of a parse result is valid UTF-8 is PROVED (`C16_parse_results_strings_valid`).
    The one hypothesis `hfp` is the specification of a component that is a PARAMETER of the model, not part of it: the
    float printer `fp` (ryu inside serde_json) writes a valid JSON number that the driver's float reader `fmatch`
    accepts, for every finite float.  (For values without finite floats it is vacuous.) -/
theorem C16_parse_results_text (c : Config) (nm : JNames) (st st' : PState) (buf : Bytes) (ps : List Packet)
    (hparse : parseBytes c st buf = (st', .done ps))
    (isFinite : Nat → Bool) (fmatch : Nat → List Char → Bool) (fp : Nat → List Char)
    (hfp : ∀ bits, isFinite bits = true → fmatch bits (fp bits) = true ∧ numOk (fp bits) = true) :
    ∀ p ∈ ps,
      parseJ (printTree (treeOf isFinite fp decUtf8 (toJ c nm p))) = some (treeOf isFinite fp decUtf8 (toJ c nm p)) ∧
      jmatchT isFinite fmatch (toJ c nm p) (treeOf isFinite fp decUtf8 (toJ c nm p)) = true := by
  intro p hp
  have hl := parseBytes_leaves c nm st st' buf ps hparse p hp
  have := C16_value_text isFinite fmatch fp decUtf8 (toJ c nm p)
    (hl.mono (fun b _ => hfp b) (fun b hb => utf8Of_decUtf8 b hb))
  exact ⟨this.2.1, this.2.2⟩

/-- strings the model takes from Lean `String`s (enum variant names, `Ipv4Addr`/`Ipv6Addr` Display texts) are valid -/
theorem C16_strJ_valid (s : String) : Leaves (fun _ => True) ValidUtf8 (strJ s) := by
  rw [strJ, Leaves]; exact validUtf8_string s

/-! ### records' fields in template order, at the text level -/

/-- a record object read back from text: ANY tree that matches `recJ nm names r` is an object whose member names are the
    decimal indices of the record's entries, in the entries' order, nothing added, nothing dropped, nothing swapped -/
theorem C16_record_text_keys (isFinite : Nat → Bool) (fmatch : Nat → List Char → Bool) (nm : JNames)
    (names : List (Nat × String)) (r : Rec) (t : JTree) (h : jmatchT isFinite fmatch (recJ nm names r) t = true) :
    ∃ ms, t = .obj ms ∧ ms.map (·.1) = r.map (fun e => (toString e.1).toList) := by
  obtain ⟨ms, rfl, hk⟩ := (C16_match_ordered isFinite fmatch).1 _ t h
  refine ⟨ms, rfl, ?_⟩
  rw [hk, List.map_map]
  rfl

/-- V9: a record decoded against the template fields `fields`, serialised, and read back from text has the member names
    `"0", "1", …, "n-1"` (n = number of template fields) in this order — template order. -/
theorem C16_v9_record_text_keys_in_template_order (isFinite : Nat → Bool) (fmatch : Nat → List Char → Bool)
    (c : Config) (nm : JNames) (names : List (Nat × String)) (fields : List TField) (i : Bytes) (rec : Rec) (r : Bytes)
    (hrec : v9ParseRec c fields 0 i = some (rec, r)) (t : JTree)
    (h : jmatchT isFinite fmatch (recJ nm names rec) t = true) :
    ∃ ms, t = .obj ms ∧ ms.map (·.1) = (List.range fields.length).map (fun k => (toString k).toList) := by
  obtain ⟨ms, rfl, hk⟩ := C16_record_text_keys isFinite fmatch nm names rec _ h
  refine ⟨ms, rfl, ?_⟩
  have h1 := (C16_record_keys_in_template_order c nm names fields i rec r hrec).1
  rw [hk, ← h1, List.map_map]
  rfl

/-- the tree of a record object, concretely: member names in entry order -/
theorem C16_record_tree_keys (isFinite : Nat → Bool) (fp : Nat → List Char) (dec : Bytes → List Char) (nm : JNames)
    (names : List (Nat × String)) (r : Rec) :
    ∃ ms, treeOf isFinite fp dec (recJ nm names r) = .obj ms ∧ ms.map (·.1) = r.map (fun e => (toString e.1).toList) := by
  refine ⟨_, by rw [recJ, treeOf], ?_⟩
  rw [treeOfM_eq_map, List.map_map, List.map_map]
  rfl

/-- … and records' fields are in template order in the TEXT: in every V9 packet `parse_bytes` returns, all records of a
    `Data` flowset, serialised and read back from text (any tree the matcher accepts), are objects with the member names
    `"0", "1", …, "n-1"` in this order, for one `n` per flowset (the template's field count) -/
theorem C16_parse_results_text_keys (isFinite : Nat → Bool) (fmatch : Nat → List Char → Bool)
    (c : Config) (nm : JNames) (st st' : PState) (buf : Bytes) (ps : List Packet)
    (hparse : parseBytes c st buf = (st', .done ps)) :
    ∀ p ∈ ps, ∀ (hd : List Nat) (ss : List V9Set), p = .v9 hd ss → ∀ s ∈ ss, ∀ (recs : List Rec) (pad : Bytes),
      s.body = .data recs pad →
      ∃ n, ∀ rec ∈ recs, ∀ t, jmatchT isFinite fmatch (recJ nm nm.v9Field rec) t = true →
        ∃ ms, t = .obj ms ∧ ms.map (·.1) = (List.range n).map (fun k => (toString k).toList) := by
  intro p hp hd ss hpe s hs recs pad hb
  have hk := C16_parse_results_keys_in_template_order c st st' buf ps hparse p hp
  subst hpe
  have h1 := hk s hs
  rw [hb] at h1
  obtain ⟨n, hn⟩ := h1
  refine ⟨n, fun rec hrec t ht => ?_⟩
  obtain ⟨ms, rfl, hms⟩ := C16_record_text_keys isFinite fmatch nm nm.v9Field rec t ht
  refine ⟨ms, rfl, ?_⟩
  rw [hms, ← hn rec hrec, List.map_map]
  rfl

/-! non-vacuity of the parse-result theorems: a V9 packet with a template flowset (one field: `ApplicationName`, a string
    of 3 bytes) and a data flowset whose string is NOT valid UTF-8 (`a`, `0xFF`, `b`): `parse_bytes` returns one packet,
    the string is decoded lossily to `a U+FFFD b`, which is valid UTF-8 -/

def c16bPacketBytes : Bytes :=
  [0, 9, 0, 2, 0, 0, 0, 1, 0, 0, 0, 2, 0, 0, 0, 3, 0, 0, 0, 4,
   0, 0, 0, 12, 1, 0, 0, 1, 0, 96, 0, 3,
   1, 0, 0, 8, 0x61, 0xFF, 0x62, 0]

def c16bPacket : Packet :=
  .v9 [9, 2, 1, 2, 3, 4]
    [{ id := 0, len := 12, body := .templates [{ id := 256, fieldCount := 1, fields := [{ typ := 96, len := 3 }] }] [] },
     { id := 256, len := 8, body := .data [[(0, 96, .str [0x61, 0xEF, 0xBF, 0xBD, 0x62])]] [0] }]

example : (parseBytes jsonCfg {} c16bPacketBytes).2 = .done [c16bPacket] := by decide +kernel

/-- `utf8Lossy` on ill-formed input: an overlong `E0 80`, a valid 4-byte sequence, a surrogate `ED A0 80`, and a lead
    byte beyond U+10FFFF -/
example : utf8Lossy [0xE0, 0x80, 0x41, 0xF0, 0x9F, 0x98, 0x80, 0xED, 0xA0, 0x80, 0xF4, 0x90] =
    [0xEF, 0xBF, 0xBD, 0xEF, 0xBF, 0xBD, 0x41, 0xF0, 0x9F, 0x98, 0x80, 0xEF, 0xBF, 0xBD, 0xEF, 0xBF, 0xBD,
     0xEF, 0xBF, 0xBD, 0xEF, 0xBF, 0xBD, 0xEF, 0xBF, 0xBD] := by decide

/-- the float-printer hypothesis `hfp` of the headline is satisfiable -/
example : ∀ bits, c16bFinite bits = true → c16bFmatch bits (c16bFp bits) = true ∧ numOk (c16bFp bits) = true := by
  intro bits h
  simp only [c16bFinite, beq_iff_eq] at h
  subst h
  exact ⟨by decide, by decide⟩

/-- the headline, instantiated on the concrete parse result above -/
example : ∃ st', parseBytes jsonCfg {} c16bPacketBytes = (st', .done [c16bPacket]) ∧
    jmatchT c16bFinite c16bFmatch (toJ jsonCfg jsonNames c16bPacket)
      (treeOf c16bFinite c16bFp decUtf8 (toJ jsonCfg jsonNames c16bPacket)) = true := by
  have h : (parseBytes jsonCfg {} c16bPacketBytes).2 = .done [c16bPacket] := by decide +kernel
  refine ⟨(parseBytes jsonCfg {} c16bPacketBytes).1, Prod.ext rfl h, ?_⟩
  exact (C16_parse_results_text jsonCfg jsonNames {} _ c16bPacketBytes [c16bPacket] (Prod.ext rfl h)
    c16bFinite c16bFmatch c16bFp (by
      intro bits hb
      simp only [c16bFinite, beq_iff_eq] at hb
      subst hb
      exact ⟨by decide, by decide⟩) c16bPacket (by simp)).2

end Netflow.Props
