/-
  Props/C06.lean — C06 on the model, the part that holds for ARBITRARY bytes: frame conditions
  (what can change the template caches), isolation between the two protocols, persistence (no
  eviction) and "the latest definition wins".  Split independence is C11.
  Property theorems only; helper lemmas live in Lemmas/A2State.lean.
-/
import NetflowModel.Lemmas.A2State
import NetflowModel.Props.C02
namespace Netflow.Props
open Netflow Preds

/-! ### 1. frame: fixed-format packets, rejected versions, short buffers -/

/-- **C06.1** a buffer with fewer than two bytes, a version that is not allowed, a version without
    dispatch arm, and every arm other than the V9 / IPFIX ones (V5, V7) leave all four caches
    untouched — whatever the rest of the bytes is. -/
theorem C06_fixed_frame (c : Config) (st st' : PState) (buf : Bytes) (s : Step)
    (h : parsePacket c st buf = (st', s))
    (hk : match versionOf buf with
          | none => True
          | some v => c.allowed.contains v = false ∨ ∀ k, c.t.dispatch.lookup v = some k → k ≠ 9 ∧ k ≠ 10) :
    st' = st := by
  rcases parsePacket_inv c st st' buf s h with ⟨_, e, _⟩ | ⟨_, _, _, e, _⟩ | ⟨_, _, _, _, e, _⟩ | ⟨v, k, hv, ha, hd, hp⟩
  · exact e
  · exact e
  · exact e
  · simp only [versionOf, hv] at hk
    rcases hk with hk | hk
    · rw [ha] at hk; simp at hk
    · obtain ⟨h9, h10⟩ := hk k hd
      have := parseVersioned_frame c st k (buf.drop 2) h9 h10
      rw [hp] at this
      exact this

/-- instance for the generated dispatch table: version words 5 and 7 (and every word other than
    9 and 10) never change the caches -/
theorem C06_fixed_frame_generated (allowed : List Nat) (uf : Bool) (st st' : PState) (buf : Bytes) (s : Step) (v : Nat)
    (h : parsePacket { t := Generated.tables, allowed := allowed, unknownFields := uf } st buf = (st', s))
    (hv : versionOf buf = some v) (h9 : v ≠ 9) (h10 : v ≠ 10) : st' = st := by
  apply C06_fixed_frame _ st st' buf s h
  rw [hv]
  right
  intro k hk
  have := lookup_mem hk
  have hd : ∀ x ∈ Generated.tables.dispatch, x.1 = x.2 := by decide
  have := hd _ this
  simp only at this
  omega

/-- a whole call: a buffer whose first version word is not allowed changes nothing and returns
    nothing -/
theorem C06_disallowed_frame (c : Config) (st : PState) (buf : Bytes) (v : Nat)
    (hv : versionOf buf = some v) (ha : c.allowed.contains v = false) :
    parseBytes c st buf = (st, .done []) := by
  have hb : beU 2 buf = some (v, buf.drop 2) := by
    simp only [versionOf] at hv
    cases hb : beU 2 buf with
    | none => simp [hb] at hv
    | some x =>
      obtain ⟨v', r⟩ := x
      simp only [hb, Option.some.injEq] at hv
      obtain ⟨_, _, h3⟩ := beU_some hb
      rw [hv, h3]
  have hne : buf.isEmpty = false := by
    have := (beU_some hb).1
    cases buf with
    | nil => simp at this
    | cons => rfl
  have ha' : v ∉ c.allowed := by simpa using ha
  simp [parseBytes, parseBytesF, hne, parsePacket, hb, ha']

/-! ### 2. each protocol writes only its own two maps -/

/-- **C06.2** V9 input never touches the IPFIX caches -/
theorem C06_v9_touches_only_v9 (c : Config) (st : PState) (i : Bytes) :
    (parseV9 c st i).1.ipT = st.ipT ∧ (parseV9 c st i).1.ipO = st.ipO :=
  parseV9_inv (I := fun s => s.ipT = st.ipT ∧ s.ipO = st.ipO)
    (fun s id b hI => by
      obtain ⟨f1, f2⟩ := v9ParseBody_ip_frame c s id b
      exact ⟨f1.trans hI.1, f2.trans hI.2⟩) st i ⟨rfl, rfl⟩

/-- **C06.2** IPFIX input never touches the V9 caches -/
theorem C06_ipfix_touches_only_ipfix (c : Config) (st : PState) (i : Bytes) :
    (parseIpfix c st i).1.v9T = st.v9T ∧ (parseIpfix c st i).1.v9O = st.v9O :=
  parseIpfix_inv (I := fun s => s.v9T = st.v9T ∧ s.v9O = st.v9O)
    (fun s id b hI => by
      obtain ⟨f1, f2⟩ := ipParseBody_v9_frame c s id b
      exact ⟨f1.trans hI.1, f2.trans hI.2⟩) st i ⟨rfl, rfl⟩

/-! ### 3. each protocol reads only its own two maps (isolation) -/

/-- **C06.3** the V9 parser's result, and the V9 maps it leaves behind, depend only on the V9
    maps: nothing learned from IPFIX input is visible to V9 decoding. -/
theorem C06_v9_reads_only_v9 (c : Config) (s1 s2 : PState) (i : Bytes) (h : AgreeV9 s1 s2) :
    (parseV9 c s1 i).2 = (parseV9 c s2 i).2 ∧ AgreeV9 (parseV9 c s1 i).1 (parseV9 c s2 i).1 :=
  parseV9_rel (v9ParseBody_respects_agree c) s1 s2 i h

/-- **C06.3** symmetric: IPFIX decoding depends only on the IPFIX maps -/
theorem C06_ipfix_reads_only_ipfix (c : Config) (s1 s2 : PState) (i : Bytes) (h : AgreeIp s1 s2) :
    (parseIpfix c s1 i).2 = (parseIpfix c s2 i).2 ∧ AgreeIp (parseIpfix c s1 i).1 (parseIpfix c s2 i).1 :=
  parseIpfix_rel (ipParseBody_respects_agree c) s1 s2 i h

/-- consequence of 2 and 3: swapping in ANY IPFIX caches changes neither what a V9 packet decodes
    to nor the V9 caches afterwards -/
theorem C06_v9_isolated (c : Config) (st : PState) (ipT : List (Nat × IpTemplate)) (ipO : List (Nat × IpOptTemplate))
    (i : Bytes) :
    (parseV9 c { st with ipT := ipT, ipO := ipO } i).2 = (parseV9 c st i).2 ∧
    (parseV9 c { st with ipT := ipT, ipO := ipO } i).1 =
      { (parseV9 c st i).1 with ipT := ipT, ipO := ipO } := by
  obtain ⟨e, a1, a2⟩ := C06_v9_reads_only_v9 c { st with ipT := ipT, ipO := ipO } st i ⟨rfl, rfl⟩
  obtain ⟨b1, b2⟩ := C06_v9_touches_only_v9 c { st with ipT := ipT, ipO := ipO } i
  refine ⟨e, ?_⟩
  cases hx : (parseV9 c { st with ipT := ipT, ipO := ipO } i).1 with
  | mk x1 x2 x3 x4 =>
    rw [hx] at a1 a2 b1 b2
    simp only at a1 a2 b1 b2
    simp [a1, a2, b1, b2]

theorem C06_ipfix_isolated (c : Config) (st : PState) (v9T : List (Nat × V9Template)) (v9O : List (Nat × V9OptTemplate))
    (i : Bytes) :
    (parseIpfix c { st with v9T := v9T, v9O := v9O } i).2 = (parseIpfix c st i).2 ∧
    (parseIpfix c { st with v9T := v9T, v9O := v9O } i).1 =
      { (parseIpfix c st i).1 with v9T := v9T, v9O := v9O } := by
  obtain ⟨e, a1, a2⟩ := C06_ipfix_reads_only_ipfix c { st with v9T := v9T, v9O := v9O } st i ⟨rfl, rfl⟩
  obtain ⟨b1, b2⟩ := C06_ipfix_touches_only_ipfix c { st with v9T := v9T, v9O := v9O } i
  refine ⟨e, ?_⟩
  cases hx : (parseIpfix c { st with v9T := v9T, v9O := v9O } i).1 with
  | mk x1 x2 x3 x4 =>
    rw [hx] at a1 a2 b1 b2
    simp only at a1 a2 b1 b2
    simp [a1, a2, b1, b2]

/-! ### 4. input that ends early, data sets -/

/-- with a set header that occupies bytes (true of the generated layout) the IPFIX set loop never
    reports an error: it just stops -/
theorem C06_ipfix_sets_never_err (c : Config) (hw : 0 < c.t.ipSetHdr.wireLen) (f : Nat) (st : PState) (i : Bytes) :
    (ipParseSets c f st i).2 ≠ .err :=
  ipParseSets_no_err c hw f st i

/-- **C06.4** an IPFIX message that is reported as an error (header incomplete, or fewer bytes
    than its length field announces — the `take` precedes all set parsing) changes nothing. -/
theorem C06_ipfix_truncated_frame (c : Config) (hf : c.t.framingOk = true) (st st' : PState) (i : Bytes)
    (h : parseIpfix c st i = (st', .err)) : st' = st := by
  have hw : 0 < c.t.ipSetHdr.wireLen := by
    simp only [Tables.framingOk, Bool.and_eq_true, beq_iff_eq] at hf
    omega
  unfold parseIpfix at h
  have := ipParseSets_no_err c hw
  grind

/-- **C06.4** for the generated tables -/
theorem C06_ipfix_truncated_frame_generated (allowed : List Nat) (uf : Bool) (st st' : PState) (i : Bytes)
    (h : parseIpfix { t := Generated.tables, allowed := allowed, unknownFields := uf } st i = (st', .err)) : st' = st :=
  C06_ipfix_truncated_frame _ C02_generated_framing st st' i h

/-- truncation, explicitly: fewer bytes than header + announced length ⇒ error, state unchanged -/
theorem C06_ipfix_short_is_err (c : Config) (hf : c.t.framingOk = true) (st : PState) (i : Bytes)
    (hs : i.length < 14 ∨ ∃ hd r, parseLayout c.t.protoFromU8 c.t.ipHdr i = some (hd, r) ∧
            r.length < c.t.ipHdr.get "length" hd - 16) :
    parseIpfix c st i = (st, .err) := by
  have hw : c.t.ipHdr.wireLen = 14 := by
    simp only [Tables.framingOk, Bool.and_eq_true, beq_iff_eq] at hf
    omega
  unfold parseIpfix
  rcases hs with hs | ⟨hd, r, hp, hl⟩
  · have := (parseLayout_none_iff c.t.protoFromU8 c.t.ipHdr i).2 (by omega)
    simp [this]
  · simp only [hp]
    have : takeN (c.t.ipHdr.get "length" hd - 16) r = none := by simp [takeN]; omega
    simp [this]

/-- **C06.4** a set body that does not parse (in particular a template record that ends early)
    leaves the state unchanged — V9 and IPFIX -/
theorem C06_failed_body_frame (c : Config) (st : PState) (id : Nat) (b : Bytes) :
    ((v9ParseBody c st id b).2 = .err → (v9ParseBody c st id b).1 = st) ∧
    ((ipParseBody c st id b).2 = .err → (ipParseBody c st id b).1 = st) :=
  ⟨fun h => v9ParseBody_err_frame c st id b (by rw [h]; simp),
   fun h => ipParseBody_err_frame c st id b (by rw [h]; simp)⟩

/-- **C06.4** data sets never change the state (whatever they contain, decodable or not) -/
theorem C06_data_set_frame (c : Config) (st : PState) (id : Nat) (b : Bytes) :
    (id ≠ c.t.v9TemplateId → id ≠ c.t.v9OptTemplateId → (v9ParseBody c st id b).1 = st) ∧
    (c.t.ipSetMinRange ≤ id → id ≠ c.t.ipOptTemplateId → (ipParseBody c st id b).1 = st) :=
  ⟨v9ParseBody_data_frame c st id b, ipParseBody_data_frame c st id b⟩

/-! ### 5. persistence: templates are never evicted -/

/-- **C06.5** an id known to the V9 decoder (as template or options template — a redefinition with
    the other kind MOVES it to the sibling map) is still known after any further input. -/
theorem C06_never_evicted_v9 (c : Config) (st : PState) (buf : Bytes) (id : Nat) (h : KnownV9 st id) :
    KnownV9 (parseBytes c st buf).1 id :=
  parseBytes_inv (I := fun s => KnownV9 s id) (fun s i b hI => v9ParseBody_known c id s i b hI)
    (fun s i b hI => ipParseBody_knownV9 c id s i b hI) st buf h

theorem C06_never_evicted_ipfix (c : Config) (st : PState) (buf : Bytes) (id : Nat) (h : KnownIp st id) :
    KnownIp (parseBytes c st buf).1 id :=
  parseBytes_inv (I := fun s => KnownIp s id) (fun s i b hI => v9ParseBody_knownIp c id s i b hI)
    (fun s i b hI => ipParseBody_known c id s i b hI) st buf h

/-- **C06.5** both, over a whole history of calls -/
theorem C06_never_evicted (c : Config) (st : PState) (hist : List Bytes) (id : Nat) :
    (KnownV9 st id → KnownV9 (hist.foldl (fun s b => (parseBytes c s b).1) st) id) ∧
    (KnownIp st id → KnownIp (hist.foldl (fun s b => (parseBytes c s b).1) st) id) := by
  induction hist generalizing st with
  | nil => exact ⟨fun h => h, fun h => h⟩
  | cons b bs ih =>
    simp only [List.foldl_cons]
    exact ⟨fun h => (ih _).1 (C06_never_evicted_v9 c st b id h), fun h => (ih _).2 (C06_never_evicted_ipfix c st b id h)⟩

/-- the maps stay canonical (strictly sorted keys: at most one definition per id and kind) -/
theorem C06_state_wf (c : Config) (st : PState) (buf : Bytes) (h : StateWf st) : StateWf (parseBytes c st buf).1 :=
  parseBytes_inv (I := StateWf) (fun s i b hI => v9ParseBody_wf c s i b hI) (fun s i b hI => ipParseBody_wf c s i b hI) st buf h

theorem C06_state_wf_empty : StateWf {} := StateWf_empty

/-! ### 6. the latest definition wins -/

/-- **C06.6** V9 template flowset: after inserting the templates `pre ++ t :: post` where no
    template in `post` redefines `t.id`, the id maps to `t`, and (canonical maps) it is no longer
    an options-template id. -/
theorem C06_latest_wins_v9 (st : PState) (pre post : List V9Template) (t : V9Template)
    (hlast : ∀ u ∈ post, u.id ≠ t.id) :
    amLookup t.id (insertV9Templates st (pre ++ t :: post)).v9T = some t ∧
    (amSorted st.v9O → amLookup t.id (insertV9Templates st (pre ++ t :: post)).v9O = none) := by
  rw [insertV9Templates_append]
  simp only [insertV9Templates]
  obtain ⟨a1, a2⟩ := insertV9Templates_other t.id post
    { insertV9Templates st pre with
      v9T := amInsert t.id t (insertV9Templates st pre).v9T, v9O := amErase t.id (insertV9Templates st pre).v9O } hlast
  rw [a1, a2]
  refine ⟨by simp [amLookup_amInsert_a2], fun hs => ?_⟩
  simp only
  apply amLookup_amErase_self_a2
  -- erasures keep the sibling map sorted
  clear a1 a2
  induction pre generalizing st with
  | nil => exact hs
  | cons p ps ih => simp only [insertV9Templates]; exact ih _ (amSorted_amErase _ _ hs)

/-- **C06.6** ids not mentioned in a template flowset keep their definition (both kinds) -/
theorem C06_others_kept_v9 (st : PState) (ts : List V9Template) (id : Nat) (h : ∀ u ∈ ts, u.id ≠ id) :
    amLookup id (insertV9Templates st ts).v9T = amLookup id st.v9T ∧
    amLookup id (insertV9Templates st ts).v9O = amLookup id st.v9O :=
  insertV9Templates_other id ts st h

/-- **C06.6** V9 options-template flowset, symmetric -/
theorem C06_latest_wins_v9_opt (st : PState) (pre post : List V9OptTemplate) (t : V9OptTemplate)
    (hlast : ∀ u ∈ post, u.id ≠ t.id) :
    amLookup t.id (insertV9OptTemplates st (pre ++ t :: post)).v9O = some t ∧
    (amSorted st.v9T → amLookup t.id (insertV9OptTemplates st (pre ++ t :: post)).v9T = none) := by
  rw [insertV9OptTemplates_append]
  simp only [insertV9OptTemplates]
  obtain ⟨a1, a2⟩ := insertV9OptTemplates_other t.id post
    { insertV9OptTemplates st pre with
      v9O := amInsert t.id t (insertV9OptTemplates st pre).v9O, v9T := amErase t.id (insertV9OptTemplates st pre).v9T } hlast
  rw [a1, a2]
  refine ⟨by simp [amLookup_amInsert_a2], fun hs => ?_⟩
  simp only
  apply amLookup_amErase_self_a2
  clear a1 a2
  induction pre generalizing st with
  | nil => exact hs
  | cons p ps ih => simp only [insertV9OptTemplates]; exact ih _ (amSorted_amErase _ _ hs)

theorem C06_others_kept_v9_opt (st : PState) (ts : List V9OptTemplate) (id : Nat) (h : ∀ u ∈ ts, u.id ≠ id) :
    amLookup id (insertV9OptTemplates st ts).v9T = amLookup id st.v9T ∧
    amLookup id (insertV9OptTemplates st ts).v9O = amLookup id st.v9O :=
  insertV9OptTemplates_other id ts st h

/-- **C06.6** IPFIX template set (one template per set): when the set parses, its template is the
    definition of its id, the id is no longer an options-template id, all other ids are unchanged -/
theorem C06_latest_wins_ipfix (c : Config) (st st' : PState) (id : Nat) (b : Bytes) (t : IpTemplate)
    (h : ipParseBody c st id b = (st', .ok (.template t))) :
    amLookup t.id st'.ipT = some t ∧ (amSorted st.ipO → amLookup t.id st'.ipO = none) ∧
    (∀ k, k ≠ t.id → amLookup k st'.ipT = amLookup k st.ipT ∧ amLookup k st'.ipO = amLookup k st.ipO) ∧
    ipValid t.fields = true := by
  have e : st' = { st with ipT := amInsert t.id t st.ipT, ipO := amErase t.id st.ipO } ∧ ipValid t.fields = true := by
    unfold ipParseBody at h
    grind
  obtain ⟨e, hv⟩ := e
  subst e
  refine ⟨by simp [amLookup_amInsert_a2], fun hs => amLookup_amErase_self_a2 _ _ hs, fun k hk => ?_, hv⟩
  simp [amLookup_amInsert_a2, hk, amLookup_amErase_ne_a2 hk]

theorem C06_latest_wins_ipfix_opt (c : Config) (st st' : PState) (id : Nat) (b : Bytes) (t : IpOptTemplate)
    (h : ipParseBody c st id b = (st', .ok (.optTemplate t))) :
    amLookup t.id st'.ipO = some t ∧ (amSorted st.ipT → amLookup t.id st'.ipT = none) ∧
    (∀ k, k ≠ t.id → amLookup k st'.ipT = amLookup k st.ipT ∧ amLookup k st'.ipO = amLookup k st.ipO) ∧
    ipValid t.fields = true := by
  have e : st' = { st with ipO := amInsert t.id t st.ipO, ipT := amErase t.id st.ipT } ∧ ipValid t.fields = true := by
    unfold ipParseBody at h
    grind
  obtain ⟨e, hv⟩ := e
  subst e
  refine ⟨by simp [amLookup_amInsert_a2], fun hs => amLookup_amErase_self_a2 _ _ hs, fun k hk => ?_, hv⟩
  simp [amLookup_amInsert_a2, hk, amLookup_amErase_ne_a2 hk]

/-- the V9 body parser installs exactly the templates it reports, in order -/
theorem C06_v9_templates_installed (c : Config) (st st' : PState) (id : Nat) (b : Bytes) (ts : List V9Template) (pad : Bytes)
    (h : v9ParseBody c st id b = (st', .ok (.templates ts pad))) : st' = insertV9Templates st ts := by
  unfold v9ParseBody at h
  grind

theorem C06_v9_opt_templates_installed (c : Config) (st st' : PState) (id : Nat) (b : Bytes) (ts : List V9OptTemplate) (pad : Bytes)
    (h : v9ParseBody c st id b = (st', .ok (.optTemplates ts pad))) : st' = insertV9OptTemplates st ts := by
  unfold v9ParseBody at h
  grind

/-- **C06** a data flowset / set is decoded with exactly the CURRENT definition of its id: the result
    depends on the caches only through the two lookups of that id in the protocol's own maps
    (with `C06_latest_wins_*`: the most recent definition received, of either kind). -/
theorem C06_data_decoded_by_lookup (c : Config) (s1 s2 : PState) (id : Nat) (b : Bytes) :
    (id ≠ c.t.v9TemplateId → id ≠ c.t.v9OptTemplateId →
      amLookup id s1.v9T = amLookup id s2.v9T → amLookup id s1.v9O = amLookup id s2.v9O →
      (v9ParseBody c s1 id b).2 = (v9ParseBody c s2 id b).2) ∧
    (c.t.ipSetMinRange ≤ id → id ≠ c.t.ipOptTemplateId →
      amLookup id s1.ipT = amLookup id s2.ipT → amLookup id s1.ipO = amLookup id s2.ipO →
      (ipParseBody c s1 id b).2 = (ipParseBody c s2 id b).2) := by
  constructor
  · intro h1 h2 e1 e2
    unfold v9ParseBody
    simp only [h1, h2, ↓reduceIte, e1, e2]
    cases amLookup id s2.v9O with
    | some ot =>
      simp only
      cases v9ScopeLoop c ot.scope b with
      | none => rfl
      | some x =>
        simp only
        cases v9OptLoop c ot.opts x.2 with
        | none => rfl
        | some y => rfl
    | none =>
      simp only
      cases amLookup id s2.v9T with
      | some t => simp only; split <;> rfl
      | none => rfl
  · intro h1 h2 e1 e2
    have : ¬ (id < c.t.ipSetMinRange) := by omega
    unfold ipParseBody
    simp only [this, h2, false_and, ↓reduceIte, e1, e2]
    cases amLookup id s2.ipT with
    | some t =>
      simp only
      split
      · rfl
      · cases ipRecLoop c t.fields (b.length + 1) b <;> rfl
    | none =>
      simp only
      cases amLookup id s2.ipO with
      | some t =>
        simp only
        split
        · rfl
        · cases ipRecLoop c t.fields (b.length + 1) b <;> rfl
      | none => rfl

end Netflow.Props

/-! ### non-vacuity: concrete objects meeting the hypotheses of the theorems above -/
namespace Netflow.Props
open Netflow Preds

private def c06Cfg : Config := { t := Generated.tables, allowed := [5, 7, 9, 10] }
private def c06T (len : Nat) : V9Template := { id := 256, fieldCount := 1, fields := [{ typ := 1, len := len }] }
private def c06IpT : IpTemplate := { id := 256, fieldCount := 1, fields := [{ typ := 1, len := 3, ent := none }], pad := [] }
/-- a state with a template in each protocol's cache -/
private def c06St : PState := { v9T := [(256, c06T 3)], ipT := [(256, c06IpT)] }

/-- `C06_fixed_frame`: a V5 packet parsed in a non-empty state -/
example : parsePacket c06Cfg c06St [0, 5, 0, 0, 0, 0, 0, 1, 0, 0, 0, 2, 0, 0, 0, 3, 0, 0, 0, 4, 5, 6, 0, 7] =
    (c06St, .ok (.v5 [5, 0, 1, 2, 3, 4, 5, 6, 7] []) []) ∧
    versionOf [0, 5, 0, 0, 0, 0, 0, 1, 0, 0, 0, 2, 0, 0, 0, 3, 0, 0, 0, 4, 5, 6, 0, 7] = some 5 := by decide

/-- `C06_disallowed_frame`: version 9 while only 5 is allowed -/
example : versionOf [0, 9, 1, 2, 3] = some 9 ∧ ({ c06Cfg with allowed := [5] } : Config).allowed.contains 9 = false := by decide

/-- `C06_v9_reads_only_v9` / `C06_v9_isolated`: two states that agree on the V9 maps and differ
    on the IPFIX maps; the V9 data flowset decodes (identically) in both -/
example : AgreeV9 c06St { c06St with ipT := [] } ∧ c06St ≠ { c06St with ipT := [] } ∧
    (parseV9 c06Cfg c06St [0,1, 0,0,0,1, 0,0,0,2, 0,0,0,3, 0,0,0,4,  1,0, 0,8, 1,2,3, 0]).2 =
      .ok (.v9 [9, 1, 1, 2, 3, 4] [{ id := 256, len := 8, body := .data [[(0, 1, .num (.u24 66051))]] [0] }], []) :=
  ⟨⟨rfl, rfl⟩, by decide, by decide⟩

/-- `C06_ipfix_truncated_frame`: a message that announces 36 bytes but carries a complete template
    set and then ends: error (and, by the theorem, no template is learned) -/
example : parseIpfix c06Cfg {} [0,36, 0,0,0,1, 0,0,0,2, 0,0,0,3,   0,2, 0,12, 1,0, 0,1, 0,1, 0,3] = ({}, .err) := by decide

/-- `C06_never_evicted_*`: a known id -/
example : KnownV9 c06St 256 ∧ KnownIp c06St 256 := ⟨Or.inl rfl, Or.inl rfl⟩

/-- `C06_latest_wins_v9`: redefinition inside one flowset — the last of three definitions wins -/
example : amLookup 256 (insertV9Templates c06St ([c06T 1] ++ c06T 2 :: [{ c06T 9 with id := 300 }])).v9T = some (c06T 2) := by
  decide

/-- a redefinition with the other kind moves the id to the sibling map -/
example : (insertV9OptTemplates c06St [{ id := 256, scopeLen := 0, optLen := 0, scope := [], opts := [] }]).v9T = [] := by decide

/-- why `C06_latest_wins_*` ask for a canonical (sorted) sibling map: on a hand-built map with a
    duplicated key `amErase` removes only the first entry.  Every state reachable from `{}` is
    canonical (`C06_state_wf`). -/
example : amLookup 256 (amErase 256 [(256, c06T 1), (256, c06T 2)]) = some (c06T 2) := by decide

/-- `C06_latest_wins_ipfix`: an IPFIX template set redefining 256 (field length 3 → 2) -/
example : ipParseBody c06Cfg c06St 2 [1,0, 0,1, 0,1, 0,2] =
    ({ c06St with ipT := [(256, { c06IpT with fields := [{ typ := 1, len := 2, ent := none }] })] },
     .ok (.template { c06IpT with fields := [{ typ := 1, len := 2, ent := none }] })) := by decide

/-- `C06_state_wf`: a non-empty canonical state -/
example : StateWf c06St := by simp [StateWf, amSorted, c06St]

/-- `C06_ipfix_short_is_err`: second disjunct — header present, body shorter than announced -/
example : parseLayout c06Cfg.t.protoFromU8 c06Cfg.t.ipHdr [0,36, 0,0,0,1, 0,0,0,2, 0,0,0,3, 0,2] =
    some ([10, 36, 1, 2, 3], [0, 2]) := by decide

/-- `C06_v9_templates_installed`: a template flowset body with two records -/
example : (v9ParseBody c06Cfg {} 0 [1,0, 0,1, 0,1, 0,3,  1,1, 0,1, 0,2, 0,4]).2 =
    .ok (.templates [c06T 3, { id := 257, fieldCount := 1, fields := [{ typ := 2, len := 4 }] }] []) := by decide

/-- **C06.0** (regenerated from the source on every run) the library declares no mutable global or per-thread state
    (`static mut`, `thread_local!`, `OnceLock`/`OnceCell`/`lazy_static!`, `static … : Mutex|RwLock|Atomic…`), as the model assumes
    by making `parseBytes` a function of `(config, parser state, buffer)`: the caches of one parser value are the ONLY state: nothing is shared between parser instances or kept per thread. -/
theorem C06_no_global_state : Generated.noGlobals = true := by decide


end Netflow.Props
