/-
  Props/C05.lean — C05: IPFIX sets decode exactly as RFC 7011 and the governing template say.

  PRINT-THEN-PARSE: for an abstract IPFIX message `m`, the model parser run on the bytes written
  by the RFC 7011 writer `Spec.encIpfix m` returns exactly the packet `Spec.expMsg` expects, leaves
  the caller's `rest` untouched, and its template caches keep representing the exporter-side
  template memory.

  The full-strength statement `C05_full` is FALSE of the model (which mirrors the crate):
  `C05_full_fails`.  `C05_partial` / `C05_generated` prove it under the decidable predicate
  `C05Conformant`; each excluded class has a `…_fails` witness below.
  Property theorems only; the layered helper lemmas live in Lemmas/A6Ipfix*.lean.
-/
import NetflowModel.Lemmas.A6IpfixFindings
import NetflowModel.Generated
import NetflowModel.Lemmas.G1Arms
namespace Netflow.Props
open Netflow Spec

/-! ### the full-strength statement -/

/-- C05, full strength: every message the specification accepts (`expMsg = some (_, .pkt p)`) is
    decoded to exactly `p` by the model with the generated tables, from any parser state that
    represents the template memory, and the new state represents the new memory. -/
def C05_full : Prop :=
  ∀ (c : Config), c.t = Generated.tables → c.allowed.contains 10 = true →
  ∀ (names : List (Nat × String)) (v9 v9' : List (Nat × V9Def)) (d d' : List (Nat × IpDef)) (st : PState)
    (m : IpMsg) (p : Packet) (rest : Bytes),
    ReprIp d st →
    expMsg c names ⟨v9, d⟩ (.ipfix m) = some (⟨v9', d'⟩, .pkt p) →
    ∃ st', parsePacket c st (encIpfix m ++ rest) = (st', .ok p rest) ∧ ReprIp d' st'

/-- the message is in the scope of C05 (the specification expects a packet for it) -/
def c05Applies (c : Config) (names : List (Nat × String)) (d : List (Nat × IpDef)) (m : IpMsg) : Bool :=
  match expMsg c names ⟨[], d⟩ (.ipfix m) with
  | some (_, .pkt _) => true
  | _ => false

/-- decidable instance check of the conclusion of C05 (packet part) for one message -/
def c05Holds (c : Config) (names : List (Nat × String)) (d : List (Nat × IpDef)) (st : PState) (m : IpMsg)
    (rest : Bytes) : Bool :=
  match expMsg c names ⟨[], d⟩ (.ipfix m) with
  | some (_, .pkt p) => decide ((parsePacket c st (encIpfix m ++ rest)).2 = .ok p rest)
  | _ => true

theorem C05_full_holds (h : C05_full) (c : Config) (hc : c.t = Generated.tables) (h10 : c.allowed.contains 10 = true)
    (names : List (Nat × String)) (d : List (Nat × IpDef)) (st : PState) (m : IpMsg) (rest : Bytes)
    (hr : ReprIp d st) : c05Holds c names d st m rest = true := by
  unfold c05Holds
  split
  · rename_i D p heq
    obtain ⟨v9', d'⟩ := D
    obtain ⟨st', hp, _⟩ := h c hc h10 names [] v9' d d' st m p rest hr heq
    simp [hp]
  · rfl

/-! ### what is provable -/

/-- **C05, partial.**  Parametric in the configuration: for tables satisfying the decidable facts
    `Tables.ipfixOk` (header layouts, set-id constants, `DataNumber::parse` arms, dispatch) and in
    which no IPFIX element has the `ProtocolTypes` kind, every message the specification accepts AND
    that satisfies `C05Conformant` is decoded exactly as expected, `rest` is returned untouched, and
    the template caches keep representing the template memory.

    Missing for full strength (each with a `…_fails` witness below): `C05Conformant` excludes
    (1) data sets in which a record is longer than all the bytes that follow it although further
        (shorter) records follow, and data sets whose padding is at least as long as the last record
        (`recLoopOk`), and data sets without records;
    (2) signed fields of width 8/16 whose value does not fit 32 bits (`ipFieldValOk`);
    (3) template sets whose padding can be read as a further field specifier (`padStopsFields`:
        4 or more bytes, unless 4..7 bytes starting with the enterprise bit);
    (4) templates without a field of non-zero length, in particular template withdrawals
        (`ipValid` inside `IpTemplateOk`), options templates with scope count > field count;
    (5) unknown-typed fields when the `parse_unknown_fields` feature is off;
    (6) values the abstract message allows but the wire cannot carry (header fields ≥ 2^32, ids and
        lengths ≥ 2^16) and data sets whose id is below 256.
    Sets with two or more (options) template records are excluded by the `.pkt` premise itself. -/
theorem C05_partial (c : Config) (ht : c.t.ipfixOk = true) (hnp : NoProto c) (h10 : c.allowed.contains 10 = true)
    (names : List (Nat × String)) (v9 v9' : List (Nat × V9Def)) (d d' : List (Nat × IpDef)) (st : PState)
    (m : IpMsg) (p : Packet) (rest : Bytes)
    (hr : ReprIp d st) (hconf : C05Conformant c d m = true)
    (hexp : expMsg c names ⟨v9, d⟩ (.ipfix m) = some (⟨v9', d'⟩, .pkt p)) :
    ∃ st', parsePacket c st (encIpfix m ++ rest) = (st', .ok p rest) ∧ ReprIp d' st' := by
  simp only [expMsg] at hexp
  cases hs : expIpSets c names d m.sets with
  | none => simp [hs] at hexp
  | some x =>
    obtain ⟨d1, ss1⟩ := x
    cases ss1 with
    | none => simp [hs] at hexp
    | some ss =>
      simp only [hs, Option.some.injEq, Prod.mk.injEq, Defs.mk.injEq, Exp.pkt.injEq] at hexp
      obtain ⟨⟨_, e1⟩, e2⟩ := hexp
      subst e1 e2
      exact parsePacket_encIpfix c names ht hnp h10 d st m d1 ss rest hr hconf hs

theorem C05_generated_tables : Generated.tables.ipfixOk = true := by decide

theorem lookupD_ne {β : Type} (tbl : List (Nat × β)) (dflt bad : β) (h1 : dflt ≠ bad) (h2 : ∀ p ∈ tbl, p.2 ≠ bad)
    (n : Nat) : Generated.lookupD tbl dflt n ≠ bad := by
  unfold Generated.lookupD
  cases h : tbl.lookup n with
  | none => simpa using h1
  | some b => simpa using h2 _ (lookup_mem h)

/-- no IPFIX information element of the generated table is decoded as a `ProtocolTypes` value -/
theorem C05_generated_noProto (c : Config) (hc : c.t = Generated.tables) : NoProto c := by
  intro n
  rw [hc]
  apply lookupD_ne Generated.ipTyTbl Generated.ipTyDefault
  · decide
  · have : Generated.ipTyTbl.all (fun p => p.2 != FType.proto) = true := by decide +kernel
    intro p hp
    have := List.all_eq_true.mp this p hp
    simpa using this

/-- **C05 for the generated tables** (either setting of `parse_unknown_fields`, any allowed-version
    list containing 10): the only remaining hypothesis is `C05Conformant`. -/
theorem C05_generated (c : Config) (hc : c.t = Generated.tables) (h10 : c.allowed.contains 10 = true)
    (names : List (Nat × String)) (v9 v9' : List (Nat × V9Def)) (d d' : List (Nat × IpDef)) (st : PState)
    (m : IpMsg) (p : Packet) (rest : Bytes)
    (hr : ReprIp d st) (hconf : C05Conformant c d m = true)
    (hexp : expMsg c names ⟨v9, d⟩ (.ipfix m) = some (⟨v9', d'⟩, .pkt p)) :
    ∃ st', parsePacket c st (encIpfix m ++ rest) = (st', .ok p rest) ∧ ReprIp d' st' :=
  C05_partial c (by rw [hc]; exact C05_generated_tables) (C05_generated_noProto c hc) h10
    names v9 v9' d d' st m p rest hr hconf hexp

/-- fuel-generalised form of `C05_stream_partial` -/
theorem C05_stream_aux (c : Config) (ht : c.t.ipfixOk = true) (hnp : NoProto c) (h10 : c.allowed.contains 10 = true)
    (names : List (Nat × String)) :
    ∀ (ms : List IpMsg) (D D' : Defs) (st : PState) (pkts : List Packet) (fuel : Nat),
      ReprIp D.ip st → C05ConformantStream c D.ip ms = true →
      expMsgs c names D (ms.map .ipfix) = some (D', pkts.map .pkt) →
      (ms.flatMap encIpfix).length < fuel →
      ∃ st', parseBytesF c fuel st (ms.flatMap encIpfix) = (st', .done pkts) ∧ ReprIp D'.ip st' := by
  intro ms
  induction ms with
  | nil =>
    intro D D' st pkts fuel hr _ hexp hf
    cases fuel with
    | zero => omega
    | succ fuel =>
      simp only [List.map_nil, expMsgs, Option.some.injEq, Prod.mk.injEq] at hexp
      obtain ⟨e1, e2⟩ := hexp
      subst e1
      cases pkts with
      | cons _ _ => simp at e2
      | nil => exact ⟨st, by simp [parseBytesF], hr⟩
  | cons m ms ih =>
    intro D D' st pkts fuel hr hconf hexp hf
    cases fuel with
    | zero => omega
    | succ fuel =>
      simp only [List.map_cons, expMsgs] at hexp
      cases h1 : expMsg c names D (.ipfix m) with
      | none => simp [h1] at hexp
      | some x =>
        obtain ⟨D1, e1⟩ := x
        simp only [h1] at hexp
        cases h2 : expMsgs c names D1 (ms.map .ipfix) with
        | none => simp [h2] at hexp
        | some y =>
          obtain ⟨D2, es⟩ := y
          simp only [h2, Option.some.injEq, Prod.mk.injEq] at hexp
          obtain ⟨e2, e3⟩ := hexp
          subst e2
          cases pkts with
          | nil => simp at e3
          | cons p pkts' =>
            simp only [List.map_cons, List.cons.injEq] at e3
            obtain ⟨e4, e5⟩ := e3
            subst e4 e5
            obtain ⟨ss, g1, _, g3, g4⟩ := expMsg_ipfix_inv c names D D1 m p h1
            simp only [C05ConformantStream, Bool.and_eq_true] at hconf
            obtain ⟨hc1, hc2⟩ := hconf
            rw [← g4] at hc2
            obtain ⟨st1, hp, hr1⟩ := parsePacket_encIpfix c names ht hnp h10 D.ip st m D1.ip ss (ms.flatMap encIpfix)
              hr hc1 g1
            rw [← g3] at hp
            have hlen := encIpfix_length m
            simp only [List.flatMap_cons, List.length_append] at hf
            obtain ⟨st2, hp2, hr2⟩ := ih D1 D2 st1 pkts' fuel hr1 hc2 h2 (by omega)
            refine ⟨st2, ?_, hr2⟩
            have hne : (encIpfix m ++ ms.flatMap encIpfix).isEmpty = false := by
              cases hh : encIpfix m ++ ms.flatMap encIpfix with
              | nil =>
                have := congrArg List.length hh
                simp only [List.length_append, List.length_nil] at this
                omega
              | cons _ _ => rfl
            simp only [List.flatMap_cons, parseBytesF, hne, Bool.false_eq_true, ↓reduceIte, hp]
            by_cases he : (ms.flatMap encIpfix).isEmpty = true
            · simp only [he, ↓reduceIte]
              have hnil : ms.flatMap encIpfix = [] := by simpa using he
              rw [hnil] at hp2
              cases fuel with
              | zero => omega
              | succ f =>
                simp only [parseBytesF, List.isEmpty_nil, ↓reduceIte, Prod.mk.injEq, Outcome.done.injEq] at hp2
                rw [← hp2.1, ← hp2.2]
            · simp only [he, Bool.false_eq_true, ↓reduceIte, hp2, Outcome.cons]

/-- **C05 for a stream of IPFIX messages through `parse_bytes`**: a concatenation of conformant
    messages is decoded into exactly the expected packets, in order, and the final caches represent
    the final template memory (same extra hypotheses as `C05_partial`, threaded through the stream) -/
theorem C05_stream_partial (c : Config) (ht : c.t.ipfixOk = true) (hnp : NoProto c) (h10 : c.allowed.contains 10 = true)
    (names : List (Nat × String)) (ms : List IpMsg) (D D' : Defs) (st : PState) (pkts : List Packet)
    (hr : ReprIp D.ip st) (hconf : C05ConformantStream c D.ip ms = true)
    (hexp : expMsgs c names D (ms.map .ipfix) = some (D', pkts.map .pkt)) :
    ∃ st', parseBytes c st (ms.flatMap encIpfix) = (st', .done pkts) ∧ ReprIp D'.ip st' :=
  C05_stream_aux c ht hnp h10 names ms D D' st pkts _ hr hconf hexp (Nat.lt_succ_self _)

/-- non-vacuity of `C05_stream_partial`: the template set and the data set of `C05_good` sent as two
    separate messages (the second relies on the cache filled by the first) -/
example :
    let ms : List IpMsg := [ { exportTime := 1, seq := 2, odid := 3, sets := [.templates [{ id := 256, fields := [{ typ := 4, len := 1, ent := none }] }] []] },
                            { exportTime := 4, seq := 5, odid := 3, sets := [.data 256 [[⟨[6], .fixed⟩], [⟨[17], .fixed⟩]] []] } ]
    C05ConformantStream { t := Generated.tables, allowed := [10] } [] ms = true ∧
    (match expMsgs { t := Generated.tables, allowed := [10] } Generated.protoNames {} (ms.map .ipfix) with
     | some (_, [.pkt _, .pkt _]) => true
     | _ => false) = true := by
  decide +kernel

/-- the data-set hypothesis of `C05Conformant` implies absence of the known-finding class
    "ipfix-varlen-tail" (`Findings.varlenTail`) -/
theorem C05_conformant_not_varlenTail (c : Config) (fs : List IpTField) (recs : List (List FieldBytes)) (pad : Bytes)
    (h : ipDataConf c fs recs pad = true) : Findings.varlenTail recs pad = false := by
  simp only [ipDataConf, Bool.and_eq_true] at h
  exact recLoopOk_not_varlenTail recs pad h.2

/-! ### witnesses -/

def C05_cfg : Config := { t := Generated.tables, allowed := Generated.defaultAllowed }
def C05_cfgOff : Config := { t := Generated.tables, allowed := Generated.defaultAllowed, unknownFields := false }
def C05_msg (sets : List IpFS) : IpMsg := { exportTime := 1, seq := 2, odid := 3, sets := sets }

def C05_fU4 : IpTField := { typ := 1, len := 4, ent := none }        -- octetDeltaCount, 4 bytes
def C05_fU1 : IpTField := { typ := 4, len := 1, ent := none }        -- protocolIdentifier, 1 byte
def C05_fStr : IpTField := { typ := 82, len := 65535, ent := none }  -- interfaceName, variable length
def C05_fEnt : IpTField := { typ := 5, len := 2, ent := some 9 }     -- enterprise 9, element 5, 2 bytes
def C05_fEntVar : IpTField := { typ := 1, len := 65535, ent := some 9 }

/-- non-vacuity: a template set (fixed field, variable-length field, enterprise field; 2 padding
    bytes), a data set with two records (short-form lengths) and padding, an options template set
    with 9 padding bytes, an options data set using the long length form -/
def C05_good : IpMsg := C05_msg
  [ .templates [{ id := 256, fields := [C05_fU4, C05_fStr, C05_fEnt] }] [0, 0],
    .data 256 [[⟨[0, 0, 1, 0], .fixed⟩, ⟨[101, 116, 104], .short⟩, ⟨[1, 2], .fixed⟩],
               [⟨[0, 0, 2, 0], .fixed⟩, ⟨[108, 111], .short⟩, ⟨[3, 4], .fixed⟩]] [0, 0],
    .optTemplates [{ id := 257, scopeCount := 1, fields := [C05_fU4, C05_fStr] }] [0, 0, 0, 0, 0, 0, 0, 0, 0],
    .data 257 [[⟨[0, 0, 0, 9], .fixed⟩, ⟨[65, 66, 67], .long⟩]] [] ]

/-- non-vacuity of `C05_partial` / `C05_generated`: the hypotheses are met by `C05_good` from the
    empty state (and the conclusion is confirmed by evaluation) -/
example : C05_cfg.t.ipfixOk = true ∧ C05_cfg.allowed.contains 10 = true ∧ ReprIp [] {} ∧
    C05Conformant C05_cfg [] C05_good = true ∧ c05Applies C05_cfg Generated.protoNames [] C05_good = true ∧
    c05Holds C05_cfg Generated.protoNames [] {} C05_good [9, 9] = true :=
  ⟨by decide, by decide, ReprIp.empty, by decide +kernel, by decide +kernel, by decide +kernel⟩

/-- (1) variable-length records of 3 and 2 bytes: after the first record only 2 < 3 bytes remain, the
    loop stops, the second record is reported as padding -/
def C05_varlenTailMsg : IpMsg := C05_msg
  [ .templates [{ id := 256, fields := [C05_fEntVar] }] [],
    .data 256 [[⟨[1, 2], .short⟩], [⟨[3], .short⟩]] [] ]

theorem C05_varlenTail_fails :
    c05Applies C05_cfg Generated.protoNames [] C05_varlenTailMsg = true ∧
    c05Holds C05_cfg Generated.protoNames [] {} C05_varlenTailMsg [] = false ∧
    Findings.varlenTail [[⟨[1, 2], .short⟩], [⟨[3], .short⟩]] [] = true ∧
    (parsePacket C05_cfg {} (encIpfix C05_varlenTailMsg)).2 =
      .ok (.ipfix [10, 41, 1, 2, 3]
        [ { id := 2, len := 16, body := .template { id := 256, fieldCount := 1, fields := [C05_fEntVar], pad := [] } },
          { id := 256, len := 9, body := .data [[(0, 503, .vec [1, 2])]] [1, 3] } ]) [] := by
  decide +kernel

/-- **the full-strength statement is false of the model** -/
theorem C05_full_fails : ¬ C05_full := by
  intro h
  have h1 := C05_full_holds h C05_cfg rfl (by decide) Generated.protoNames [] {} C05_varlenTailMsg [] ReprIp.empty
  have h2 := C05_varlenTail_fails.2.1
  rw [h1] at h2
  exact absurd h2 (by decide)

/-- (2) a signed 8-byte field (element 434) holding 2^32 is reported as `I32(0)` -/
def C05_signedWideMsg : IpMsg := C05_msg
  [ .templates [{ id := 256, fields := [{ typ := 434, len := 8, ent := none }] }] [],
    .data 256 [[⟨[0, 0, 0, 1, 0, 0, 0, 0], .fixed⟩]] [] ]

theorem C05_signedWide_fails :
    c05Applies C05_cfg Generated.protoNames [] C05_signedWideMsg = true ∧
    c05Holds C05_cfg Generated.protoNames [] {} C05_signedWideMsg [] = false ∧
    Findings.signedWide [0, 0, 0, 1, 0, 0, 0, 0] = true ∧
    (parsePacket C05_cfg {} (encIpfix C05_signedWideMsg)).2 =
      .ok (.ipfix [10, 40, 1, 2, 3]
        [ { id := 2, len := 12, body := .template { id := 256, fieldCount := 1, fields := [{ typ := 434, len := 8, ent := none }], pad := [] } },
          { id := 256, len := 12, body := .data [[(0, 434, .num (.i32 0))]] [] } ]) [] := by
  decide +kernel

/-- (3) a template set with two template records (RFC 7011 §3.4.1) is outside the `.pkt` premise
    (`inexpressible`); the model reports ONE template 256 whose field list swallows the second
    record's header `(257, 1)` as a field specifier, and template 257 is never cached -/
def C05_multiTemplateMsg : IpMsg := C05_msg
  [ .templates [{ id := 256, fields := [C05_fU4] }, { id := 257, fields := [C05_fU1] }] [] ]

theorem C05_multiTemplate_fails :
    c05Applies C05_cfg Generated.protoNames [] C05_multiTemplateMsg = false ∧
    (expMsg C05_cfg Generated.protoNames {} (.ipfix C05_multiTemplateMsg)).map (·.2) = some (.inexpressible 10) ∧
    parsePacket C05_cfg {} (encIpfix C05_multiTemplateMsg) =
      ({ ipT := [(256, { id := 256, fieldCount := 1, fields := [C05_fU4, { typ := 257, len := 1, ent := none }, C05_fU1], pad := [] })] },
       .ok (.ipfix [10, 36, 1, 2, 3]
        [ { id := 2, len := 20, body := .template { id := 256, fieldCount := 1, fields := [C05_fU4, { typ := 257, len := 1, ent := none }, C05_fU1], pad := [] } } ]) []) := by
  decide +kernel

/-- (4a) four zero padding bytes after a template record are read as a further field `(0, 0)` -/
def C05_templatePadMsg : IpMsg := C05_msg [ .templates [{ id := 256, fields := [C05_fU4] }] [0, 0, 0, 0] ]

theorem C05_templatePad_fails :
    c05Applies C05_cfg Generated.protoNames [] C05_templatePadMsg = true ∧
    c05Holds C05_cfg Generated.protoNames [] {} C05_templatePadMsg [] = false ∧
    padStopsFields [0, 0, 0, 0] = false ∧
    (parsePacket C05_cfg {} (encIpfix C05_templatePadMsg)).2 =
      .ok (.ipfix [10, 32, 1, 2, 3]
        [ { id := 2, len := 16, body := .template { id := 256, fieldCount := 1, fields := [C05_fU4, { typ := 0, len := 0, ent := none }], pad := [] } } ]) [] := by
  decide +kernel

/-- (4b) data-set padding as long as the last record is decoded as one more record -/
def C05_dataPadMsg : IpMsg := C05_msg
  [ .templates [{ id := 256, fields := [C05_fU1] }] [], .data 256 [[⟨[7], .fixed⟩]] [0] ]

theorem C05_dataPad_fails :
    c05Applies C05_cfg Generated.protoNames [] C05_dataPadMsg = true ∧
    c05Holds C05_cfg Generated.protoNames [] {} C05_dataPadMsg [] = false ∧
    recLoopOk [1] 1 = false ∧
    (parsePacket C05_cfg {} (encIpfix C05_dataPadMsg)).2 =
      .ok (.ipfix [10, 34, 1, 2, 3]
        [ { id := 2, len := 12, body := .template { id := 256, fieldCount := 1, fields := [C05_fU1], pad := [] } },
          { id := 256, len := 6, body := .data [[(0, 4, .num (.u8 7))], [(0, 4, .num (.u8 0))]] [] } ]) [] := by
  decide +kernel

/-- (4c) a data set without records does not decode, and every later set of the message (here a
    template set) is silently dropped -/
def C05_noRecordsMsg : IpMsg := C05_msg
  [ .templates [{ id := 256, fields := [C05_fU1] }] [], .data 256 [] [],
    .templates [{ id := 257, fields := [C05_fU1] }] [] ]

theorem C05_noRecords_fails :
    c05Applies C05_cfg Generated.protoNames [] C05_noRecordsMsg = true ∧
    c05Holds C05_cfg Generated.protoNames [] {} C05_noRecordsMsg [] = false ∧
    parsePacket C05_cfg {} (encIpfix C05_noRecordsMsg) =
      ({ ipT := [(256, { id := 256, fieldCount := 1, fields := [C05_fU1], pad := [] })] },
       .ok (.ipfix [10, 44, 1, 2, 3]
        [ { id := 2, len := 12, body := .template { id := 256, fieldCount := 1, fields := [C05_fU1], pad := [] } } ]) []) := by
  decide +kernel

/-- (4d) a template without a field of non-zero length (here: a template withdrawal, RFC 7011 §8.1)
    is rejected (`is_valid`), and every later set of the message is silently dropped -/
def C05_withdrawalMsg : IpMsg := C05_msg
  [ .templates [{ id := 256, fields := [] }] [], .templates [{ id := 257, fields := [C05_fU1] }] [] ]

theorem C05_withdrawal_fails :
    c05Applies C05_cfg Generated.protoNames [] C05_withdrawalMsg = true ∧
    c05Holds C05_cfg Generated.protoNames [] {} C05_withdrawalMsg [] = false ∧
    parsePacket C05_cfg {} (encIpfix C05_withdrawalMsg) = ({}, .ok (.ipfix [10, 36, 1, 2, 3] []) []) := by
  decide +kernel

/-- (5a) the abstract message allows an export time of 2^32, the wire carries it modulo 2^32
    (a looseness of `Spec.expMsg`, not a crate defect) -/
theorem C05_headerRange_fails :
    c05Applies C05_cfg Generated.protoNames [] { exportTime := 4294967296, seq := 2, odid := 3, sets := [] } = true ∧
    c05Holds C05_cfg Generated.protoNames [] {} { exportTime := 4294967296, seq := 2, odid := 3, sets := [] } [] = false := by
  decide +kernel

/-- (5b) `Spec.expIpSet` accepts a data set whose id is below 256 when a template with that id was
    announced; on the wire set id 2 is a template set (a looseness of the specification) -/
def C05_lowIdMsg : IpMsg := C05_msg
  [ .templates [{ id := 2, fields := [C05_fU1] }] [], .data 2 [[⟨[7], .fixed⟩]] [] ]

theorem C05_lowId_fails :
    c05Applies C05_cfg Generated.protoNames [] C05_lowIdMsg = true ∧
    c05Holds C05_cfg Generated.protoNames [] {} C05_lowIdMsg [] = false := by
  decide +kernel

/-- (5c) an options template whose scope count exceeds its field count: the crate asks for
    `scope + field_count` field specifiers, fails, and drops the set and everything after it -/
def C05_scopeCountMsg : IpMsg := C05_msg [ .optTemplates [{ id := 256, scopeCount := 2, fields := [C05_fU1] }] [] ]

theorem C05_scopeCount_fails :
    c05Applies C05_cfg Generated.protoNames [] C05_scopeCountMsg = true ∧
    c05Holds C05_cfg Generated.protoNames [] {} C05_scopeCountMsg [] = false ∧
    (parsePacket C05_cfg {} (encIpfix C05_scopeCountMsg)).2 = .ok (.ipfix [10, 30, 1, 2, 3] []) [] := by
  decide +kernel

/-- (5d) with the `parse_unknown_fields` feature off, a data set governed by a template containing
    an element the library does not know (65) does not decode; with the feature on it does -/
def C05_unknownMsg : IpMsg := C05_msg
  [ .templates [{ id := 256, fields := [{ typ := 65, len := 1, ent := none }] }] [], .data 256 [[⟨[7], .fixed⟩]] [] ]

theorem C05_unknownOff_fails :
    c05Applies C05_cfgOff Generated.protoNames [] C05_unknownMsg = true ∧
    c05Holds C05_cfgOff Generated.protoNames [] {} C05_unknownMsg [] = false ∧
    C05Conformant C05_cfgOff [] C05_unknownMsg = false ∧
    C05Conformant C05_cfg [] C05_unknownMsg = true ∧
    c05Holds C05_cfg Generated.protoNames [] {} C05_unknownMsg [] = true := by
  decide +kernel

/-- (4e) a record that occupies no bytes ends the loop (`total_taken == 0 → break`): with a cached
    template whose only field has length 0 (not reachable through the parser, which rejects such
    templates, but allowed by `ReprIp`), two empty records are reported as one -/
theorem C05_zeroSizeRecord_fails :
    let f : IpTField := { typ := 1, len := 0, ent := some 9 }
    let st : PState := { ipT := [(256, { id := 256, fieldCount := 1, fields := [f], pad := [] })] }
    let d : List (Nat × IpDef) := [(256, .t { id := 256, fields := [f] })]
    let m : IpMsg := C05_msg [ .data 256 [[⟨[], .fixed⟩], [⟨[], .fixed⟩]] [] ]
    (∀ id, amLookup id d = absIp st id) ∧
    c05Applies C05_cfg Generated.protoNames d m = true ∧
    c05Holds C05_cfg Generated.protoNames d st m [] = false ∧
    recLoopOk [0, 0] 0 = false := by
  refine ⟨?_, by decide +kernel, by decide +kernel, by decide⟩
  intro id
  by_cases h : id = 256
  · subst h; rfl
  · simp [amLookup, absIp, h]

/-- **C05.G** (regenerated on every run) the value decoder of the model IS the interpretation (`Arms.lean`) of the arms of
    `FieldValue::from_field_type` as `tools/translate.py` reads them from data_number.rs now: which reader, which constructor and which duration unit each library type uses. -/
theorem C05_value_arms_generated (c : ValueCfg) (ty : FType) (len : Nat) (i : Bytes) :
    parseValue c ty len i = parseValueBy Generated.valueArms c ty len i :=
  G1.parseValue_eq_generated c ty len i

end Netflow.Props
