/-
  Props/C12.lean — C12: `allowed_versions` filters by the version word and by nothing else.
  With allowed set `S`, `parse_bytes` returns exactly the leading elements of the all-allowed run
  up to (excluding) the first packet whose version word is not in `S`; that packet and everything
  after it are neither reported nor allowed to change the caches.  An allowed version without a
  dispatch arm is reported as `UnknownVersion` carrying the unparsed bytes.
-/
import NetflowModel.Lemmas.A4Filter
import NetflowModel.Props.C02
namespace Netflow.Props
open Netflow Preds

/-- **C12, one packet, version allowed** (or fewer than two bytes): the call is the all-allowed call -/
theorem C12_step (c : Config) (S A : List Nat) (hA : AllowsAll A) (st : PState) (buf : Bytes)
    (h : ∀ v, versionOf buf = some v → S.contains v = true) :
    parsePacket (c.withAllowed S) st buf = parsePacket (c.withAllowed A) st buf :=
  parsePacket_allowed_in c S A hA st buf h

/-- **C12, one packet, version not allowed**: `UnallowedVersion`, the caches are untouched -/
theorem C12_step_unallowed (c : Config) (S : List Nat) (st : PState) (buf : Bytes) (v : Nat)
    (hv : versionOf buf = some v) (hS : S.contains v = false) :
    parsePacket (c.withAllowed S) st buf = (st, .unallowed) :=
  parsePacket_allowed_out c S st buf v hv hS

/-- **C12** (every fuel): if the all-allowed run returns `pktsA`, the run under `S` returns
    `takeAllowed … pktsA` and ends in the cache state the all-allowed run had after exactly that
    many packet steps. -/
theorem C12_filter_fuel (c : Config) (hf : c.t.framingOk = true) (S A : List Nat) (hA : AllowsAll A) :
    ∀ (fuel : Nat) (st stA : PState) (buf : Bytes) (pktsA : List Packet),
      parseBytesF (c.withAllowed A) fuel st buf = (stA, .done pktsA) →
      parseBytesF (c.withAllowed S) fuel st buf =
        (stateAfter (c.withAllowed A) fuel (takeAllowed (c.withAllowed A) S fuel buf pktsA).length st buf,
         .done (takeAllowed (c.withAllowed A) S fuel buf pktsA)) := by
  have hd : ∀ x ∈ c.t.dispatch, x.1 = x.2 := by
    simp only [Tables.framingOk, Bool.and_eq_true, List.all_eq_true, beq_iff_eq] at hf
    exact hf.2
  intro fuel
  induction fuel with
  | zero => intro st stA buf pktsA h; simp [parseBytesF] at h
  | succ fuel ih =>
    intro st stA buf pktsA h
    unfold parseBytesF at h ⊢
    by_cases he : buf.isEmpty = true
    · simp only [he, ↓reduceIte, Prod.mk.injEq, Outcome.done.injEq] at h ⊢
      rw [← h.2]; simp [takeAllowed, stateAfter]
    · simp only [he, Bool.false_eq_true, ↓reduceIte] at h ⊢
      cases hv : versionOf buf with
      | none =>
        -- fewer than two bytes: `Incomplete` under every allowed set
        have hb : beU 2 buf = none := by
          cases hb : beU 2 buf with
          | none => rfl
          | some x => simp [versionOf, hb] at hv
        have hpS : parsePacket (c.withAllowed S) st buf = (st, .fail .incomplete) := by simp [parsePacket, hb]
        have hpA : parsePacket (c.withAllowed A) st buf = (st, .fail .incomplete) := by simp [parsePacket, hb]
        simp only [hpA, Prod.mk.injEq, Outcome.done.injEq] at h
        simp only [hpS]
        rw [← h.2]
        simp [takeAllowed, hv, stateAfter, he, hpA]
      | some v =>
        cases hS : S.contains v with
        | false =>
          rw [parsePacket_allowed_out c S st buf v hv hS]
          have hS' : v ∉ S := by simpa using hS
          cases pktsA with
          | nil => simp [takeAllowed, stateAfter_zero]
          | cons p ps => simp [takeAllowed, hv, hS', stateAfter_zero]
        | true =>
          have hin : ∀ v', versionOf buf = some v' → S.contains v' = true := by
            intro v' hv'; rw [hv] at hv'; simp only [Option.some.injEq] at hv'; rw [← hv']; exact hS
          rw [parsePacket_allowed_in c S A hA st buf hin]
          have hS' : v ∈ S := by simpa using hS
          cases hp : parsePacket (c.withAllowed A) st buf with
          | mk st1 step =>
            simp only [hp] at h ⊢
            cases step with
            | ok pkt rest =>
              simp only at h ⊢
              -- wire length of the packet = what the parser consumed
              have hw : ∃ m, wireLen (c.withAllowed A) pkt = some (2 + m) ∧ rest = buf.drop (2 + m) := by
                rcases parsePacket_inv _ _ _ _ _ hp with ⟨_, _, hs⟩ | ⟨_, _, _, _, hs⟩ | ⟨_, _, _, _, _, hs⟩ | ⟨v', kind, _, _, _, hpv⟩
                · simp at hs
                · simp at hs
                · simp at hs
                · obtain ⟨m, hw, _, hr⟩ := C02_versioned_ok (c.withAllowed A) hf _ _ _ _ _ _ hpv
                  exact ⟨m, hw, by rw [hr, List.drop_drop]⟩
              obtain ⟨m, hw, hrest⟩ := hw
              by_cases hre : rest.isEmpty = true
              · simp only [hre, ↓reduceIte, Prod.mk.injEq, Outcome.done.injEq] at h ⊢
                rw [← h.2]
                simp [takeAllowed, hv, hS', hw, takeAllowed_nil, stateAfter, he, hp, hre]
              · simp only [hre, Bool.false_eq_true, ↓reduceIte] at h ⊢
                cases hrec : parseBytesF (c.withAllowed A) fuel st1 rest with
                | mk st2 out =>
                  simp only [hrec, Prod.mk.injEq] at h
                  cases out with
                  | done ps =>
                    simp only [Outcome.cons, Outcome.done.injEq] at h
                    rw [ih _ _ _ _ hrec, ← h.2]
                    simp [takeAllowed, hv, hS', hw, ← hrest, stateAfter, he, hp, hre, Outcome.cons]
                  | panic ps => simp [Outcome.cons] at h
                  | overflow ps => simp [Outcome.cons] at h
            | fail e =>
              simp only [Prod.mk.injEq, Outcome.done.injEq] at h ⊢
              rw [← h.2]
              simp [takeAllowed, hv, hS', wireLen, stateAfter, he, hp]
            | unallowed =>
              exfalso
              rcases parsePacket_inv _ _ _ _ _ hp with ⟨_, _, hs⟩ | ⟨v', hb, ha, _, _⟩ | ⟨_, _, _, _, _, hs⟩ | ⟨v', kind, _, _, _, hpv⟩
              · simp at hs
              · have := hA v' (beU_lt hb); simp only at ha; rw [this] at ha; simp at ha
              · simp at hs
              · exact C02_versioned_not_unallowed _ _ _ _ _ hpv
            | panic => simp at h
            | overflow => simp at h

/-- **C12** for `parse_bytes` as modelled: under allowed set `S` the result is the all-allowed
    result cut before the first packet whose version word is not in `S`, and the final cache state
    is the state of the all-allowed run after exactly the reported packets. -/
theorem C12_filter (c : Config) (hf : c.t.framingOk = true) (S A : List Nat) (hA : AllowsAll A)
    (st stA : PState) (buf : Bytes) (pktsA : List Packet)
    (h : parseBytes (c.withAllowed A) st buf = (stA, .done pktsA)) :
    parseBytes (c.withAllowed S) st buf =
      (stateAfter (c.withAllowed A) (buf.length + 1) (takeAllowed (c.withAllowed A) S (buf.length + 1) buf pktsA).length st buf,
       .done (takeAllowed (c.withAllowed A) S (buf.length + 1) buf pktsA)) :=
  C12_filter_fuel c hf S A hA _ _ _ _ _ h

/-- the reported list is a prefix of the all-allowed list -/
theorem C12_prefix (c : Config) (hf : c.t.framingOk = true) (S A : List Nat) (hA : AllowsAll A)
    (st stA : PState) (buf : Bytes) (pktsA : List Packet)
    (h : parseBytes (c.withAllowed A) st buf = (stA, .done pktsA)) :
    ∃ stS pktsS, parseBytes (c.withAllowed S) st buf = (stS, .done pktsS) ∧ pktsS <+: pktsA :=
  ⟨_, _, C12_filter c hf S A hA st stA buf pktsA h, takeAllowed_prefix _ _ _ _ _⟩

/-- meaning of `stateAfter`: after as many steps as there are reported elements, the all-allowed
    run is in its final state; after none, in its initial state -/
theorem C12_stateAfter_all (c : Config) (st stA : PState) (buf : Bytes) (pkts : List Packet)
    (h : parseBytes c st buf = (stA, .done pkts)) :
    stateAfter c (buf.length + 1) pkts.length st buf = stA ∧ stateAfter c (buf.length + 1) 0 st buf = st :=
  ⟨stateAfter_all c _ _ _ _ _ h, stateAfter_zero c _ _ _⟩

/-- nothing was cut (every packet's version word is in `S`): same list, same final caches -/
theorem C12_nothing_cut (c : Config) (hf : c.t.framingOk = true) (S A : List Nat) (hA : AllowsAll A)
    (st stA : PState) (buf : Bytes) (pktsA : List Packet)
    (h : parseBytes (c.withAllowed A) st buf = (stA, .done pktsA))
    (hk : takeAllowed (c.withAllowed A) S (buf.length + 1) buf pktsA = pktsA) :
    parseBytes (c.withAllowed S) st buf = (stA, .done pktsA) := by
  rw [C12_filter c hf S A hA st stA buf pktsA h, hk, stateAfter_all _ _ _ _ _ _ h]

/-- the very first version word is not allowed: nothing is reported and the caches are untouched,
    whatever the all-allowed run would have done (including a template packet, a panic, an overflow) -/
theorem C12_first_unallowed (c : Config) (S : List Nat) (st : PState) (buf : Bytes) (v : Nat)
    (hv : versionOf buf = some v) (hS : S.contains v = false) :
    parseBytes (c.withAllowed S) st buf = (st, .done []) := by
  have he : buf.isEmpty = false := by
    cases buf with
    | nil => simp [versionOf, beU] at hv
    | cons b bs => rfl
  simp [parseBytes, parseBytesF, he, parsePacket_allowed_out c S st buf v hv hS]

/-- **C12, second sentence**: a version that is allowed but has no dispatch arm is reported as an
    `UnknownVersion` error carrying the bytes after the version word; remaining = the whole buffer;
    the caches are untouched -/
theorem C12_unknown_allowed (c : Config) (S : List Nat) (st : PState) (buf : Bytes) (v : Nat)
    (hv : versionOf buf = some v) (hS : S.contains v = true) (hd : c.t.dispatch.lookup v = none) :
    parseBytes (c.withAllowed S) st buf = (st, .done [.error (.unknownVersion (buf.drop 2)) buf]) := by
  have he : buf.isEmpty = false := by
    cases buf with
    | nil => simp [versionOf, beU] at hv
    | cons b bs => rfl
  have hp : parsePacket (c.withAllowed S) st buf = (st, .fail (.unknownVersion (buf.drop 2))) := by
    unfold parsePacket
    cases hb : beU 2 buf with
    | none => simp [versionOf, hb] at hv
    | some vb =>
      obtain ⟨v', body⟩ := vb
      obtain ⟨_, _, hbody⟩ := beU_some hb
      simp only [versionOf, hb, Option.some.injEq] at hv
      subst hv hbody
      simp only [hS, ↓reduceIte, hd]
  simp [parseBytes, parseBytesF, he, hp]

/-! ### instances for the tables generated from the Rust source -/

/-- the generated `match version` has arms for 5, 7, 9, 10 only -/
theorem C12_generated_dispatch (v : Nat) (h : v ∉ [5, 7, 9, 10]) : Generated.tables.dispatch.lookup v = none := by
  simp only [List.mem_cons, List.not_mem_nil, or_false, not_or] at h
  obtain ⟨h5, h7, h9, h10⟩ := h
  have e5 : (v == 5) = false := by simpa using h5
  have e7 : (v == 7) = false := by simpa using h7
  have e9 : (v == 9) = false := by simpa using h9
  have e10 : (v == 10) = false := by simpa using h10
  simp only [Generated.tables, Generated.dispatch, List.lookup, e5, e7, e9, e10]

/-- **C12** for the generated tables: every `S` (any subset of {5,7,9,10} plus arbitrary extra numbers),
    every all-allowing `A`, both feature settings, every cache state, every buffer. -/
theorem C12_generated (S A : List Nat) (hA : AllowsAll A) (uf : Bool) (st stA : PState) (buf : Bytes) (pktsA : List Packet)
    (h : parseBytes { t := Generated.tables, allowed := A, unknownFields := uf } st buf = (stA, .done pktsA)) :
    parseBytes { t := Generated.tables, allowed := S, unknownFields := uf } st buf =
      (stateAfter { t := Generated.tables, allowed := A, unknownFields := uf } (buf.length + 1)
         (takeAllowed { t := Generated.tables, allowed := A, unknownFields := uf } S (buf.length + 1) buf pktsA).length st buf,
       .done (takeAllowed { t := Generated.tables, allowed := A, unknownFields := uf } S (buf.length + 1) buf pktsA)) :=
  C12_filter { t := Generated.tables, allowed := [], unknownFields := uf } C02_generated_framing S A hA st stA buf pktsA h

/-- an allowed version other than 5, 7, 9, 10 is an `UnknownVersion` error carrying the unparsed bytes -/
theorem C12_unknown_allowed_generated (S : List Nat) (uf : Bool) (st : PState) (buf : Bytes) (v : Nat)
    (hv : versionOf buf = some v) (hS : S.contains v = true) (h : v ∉ [5, 7, 9, 10]) :
    parseBytes { t := Generated.tables, allowed := S, unknownFields := uf } st buf =
      (st, .done [.error (.unknownVersion (buf.drop 2)) buf]) :=
  C12_unknown_allowed { t := Generated.tables, allowed := [], unknownFields := uf } S st buf v hv hS
    (C12_generated_dispatch v h)

end Netflow.Props

/-! ### non-vacuity -/
namespace Netflow.Props
open Netflow Preds

/-- an all-allowing list exists -/
example : AllowsAll (List.range 65536) := allowsAll_range

/-- an empty V5 packet -/
def c12V5 : Bytes := [0,5, 0,0, 0,0,0,1, 0,0,0,2, 0,0,0,3, 0,0,0,4, 5, 6, 0,7]
/-- an empty V7 packet -/
def c12V7 : Bytes := [0,7, 0,0, 0,0,0,1, 0,0,0,2, 0,0,0,3, 0,0,0,4, 0,0,0,8]
/-- a V9 packet defining template 256 -/
def c12V9 : Bytes := [0,9, 0,1, 0,0,0,1, 0,0,0,2, 0,0,0,3, 0,0,0,4, 0,0, 0,12, 1,0, 0,1, 0,8, 0,4]

/-- the all-allowed run with the concrete all-allowing list, on a V5 packet followed by a V7 packet -/
example : parseBytes { t := Generated.tables, allowed := List.range 65536 } {} (c12V5 ++ c12V7) =
    ({}, .done [.v5 [5, 0, 1, 2, 3, 4, 5, 6, 7] [], .v7 [7, 0, 1, 2, 3, 4, 8] []]) := by decide +kernel

/-- S = [5] on a V5 packet followed by a V7 packet: only the V5 packet is reported … -/
example : (parseBytes { t := Generated.tables, allowed := [5] } {} (c12V5 ++ c12V7)).2 =
    .done [.v5 [5, 0, 1, 2, 3, 4, 5, 6, 7] []] := by decide
/-- … the run allowing both reports both … -/
example : (parseBytes { t := Generated.tables, allowed := [5, 7] } {} (c12V5 ++ c12V7)).2 =
    .done [.v5 [5, 0, 1, 2, 3, 4, 5, 6, 7] [], .v7 [7, 0, 1, 2, 3, 4, 8] []] := by decide
/-- … and `takeAllowed` cuts the latter to the former. -/
example : takeAllowed { t := Generated.tables, allowed := [5, 7] } [5] 49 (c12V5 ++ c12V7)
    [.v5 [5, 0, 1, 2, 3, 4, 5, 6, 7] [], .v7 [7, 0, 1, 2, 3, 4, 8] []] = [.v5 [5, 0, 1, 2, 3, 4, 5, 6, 7] []] := by decide

/-- a filtered V9 template packet (and the V5 packet behind it) leaves the caches untouched, while the
    run that allows version 9 learns the template -/
example : parseBytes { t := Generated.tables, allowed := [5] } {} (c12V5 ++ c12V9 ++ c12V5) =
    ({}, .done [.v5 [5, 0, 1, 2, 3, 4, 5, 6, 7] []]) := by decide
example : (parseBytes { t := Generated.tables, allowed := [5, 9] } {} (c12V5 ++ c12V9 ++ c12V5)).1 =
    { v9T := [(256, { id := 256, fieldCount := 1, fields := [{ typ := 8, len := 4 }] })] } := by decide
example : stateAfter { t := Generated.tables, allowed := [5, 9] } 81 1 {} (c12V5 ++ c12V9 ++ c12V5) = {} := by decide

/-- an allowed version 77 behind a V5 packet -/
example : parseBytes { t := Generated.tables, allowed := [5, 77] } {} (c12V5 ++ [0, 77, 1, 2, 3]) =
    ({}, .done [.v5 [5, 0, 1, 2, 3, 4, 5, 6, 7] [], .error (.unknownVersion [1, 2, 3]) [0, 77, 1, 2, 3]]) := by decide

end Netflow.Props
