/-
  Props/C02.lean — C02: the list returned by `parse_bytes` is a left-to-right decomposition of
  the buffer (packets whose header-implied wire lengths add up to a prefix, at most one final error
  carrying exactly the unconsumed suffix, a silent stop only in front of a disallowed version).
  Property theorems only; helper lemmas live in Lemmas/.
-/
import NetflowModel.Lemmas.Consume
import NetflowModel.Generated
namespace Netflow.Props
open Netflow Preds

/-- a successful version-specific parse consumes exactly the wire length implied by the decoded
    packet's own header fields (minus the 2-byte version word already consumed) -/
theorem C02_versioned_ok (c : Config) (hf : c.t.framingOk = true) (st st' : PState) (kind : Nat) (body : Bytes)
    (pkt : Packet) (rest : Bytes) (h : parseVersioned c st kind body = (st', .ok pkt rest)) :
    ∃ m, wireLen c pkt = some (2 + m) ∧ m ≤ body.length ∧ rest = body.drop m := by
  simp only [Tables.framingOk, Bool.and_eq_true, beq_iff_eq] at hf
  obtain ⟨⟨⟨hw9, hwi⟩, _⟩, _⟩ := hf
  unfold parseVersioned at h
  split at h
  · cases hp : parseFixed c c.t.v5Hdr c.t.v5Rec body with
    | none => simp [hp] at h
    | some x =>
      obtain ⟨⟨hd, rs⟩, r⟩ := x
      simp only [hp, Prod.mk.injEq, Step.ok.injEq] at h
      obtain ⟨_, e1, e2⟩ := h
      subst e1 e2
      obtain ⟨a1, a2, _⟩ := parseFixed_consumes _ _ _ _ _ _ _ hp
      exact ⟨_, by simp only [wireLen]; rw [Nat.add_assoc], a1, a2⟩
  · split at h
    · cases hp : parseFixed c c.t.v7Hdr c.t.v7Rec body with
      | none => simp [hp] at h
      | some x =>
        obtain ⟨⟨hd, rs⟩, r⟩ := x
        simp only [hp, Prod.mk.injEq, Step.ok.injEq] at h
        obtain ⟨_, e1, e2⟩ := h
        subst e1 e2
        obtain ⟨a1, a2, _⟩ := parseFixed_consumes _ _ _ _ _ _ _ hp
        exact ⟨_, by simp only [wireLen]; rw [Nat.add_assoc], a1, a2⟩
    · split at h
      · cases hp : parseV9 c st body with
        | mk st1 res =>
          cases res with
          | ok pr =>
            obtain ⟨p, r⟩ := pr
            simp only [hp, liftRes, Prod.mk.injEq, Step.ok.injEq] at h
            obtain ⟨_, e1, e2⟩ := h
            subst e1 e2
            obtain ⟨hd, ss, e, a1, a2⟩ := parseV9_consumes c hw9 _ _ _ _ _ hp
            subst e
            exact ⟨_, by simp only [wireLen]; rw [Nat.add_assoc], a1, a2⟩
          | err => simp [hp, liftRes] at h
          | panic => simp [hp, liftRes] at h
          | overflow => simp [hp, liftRes] at h
      · split at h
        · cases hp : parseIpfix c st body with
          | mk st1 res =>
            cases res with
            | ok pr =>
              obtain ⟨p, r⟩ := pr
              simp only [hp, liftRes, Prod.mk.injEq, Step.ok.injEq] at h
              obtain ⟨_, e1, e2⟩ := h
              subst e1 e2
              obtain ⟨hd, ss, e, a1, a2⟩ := parseIpfix_consumes c hwi _ _ _ _ _ hp
              subst e
              refine ⟨_, ?_, a1, a2⟩
              simp only [wireLen]; congr 1; omega
            | err => simp [hp, liftRes] at h
            | panic => simp [hp, liftRes] at h
            | overflow => simp [hp, liftRes] at h
        · simp at h

/-- a failing version-specific parse reports `Partial` with the parser's own version number and
    the bytes after the version word, or `UnknownVersion` with those bytes -/
theorem C02_versioned_fail (c : Config) (st st' : PState) (kind : Nat) (body : Bytes) (e : ErrKind)
    (h : parseVersioned c st kind body = (st', .fail e)) :
    e = .partialParse kind body ∨ e = .unknownVersion body := by
  unfold parseVersioned at h
  split at h
  · rename_i hk
    cases hp : parseFixed c c.t.v5Hdr c.t.v5Rec body with
    | none => simp only [hp, Prod.mk.injEq, Step.fail.injEq] at h; exact Or.inl (by rw [← h.2, hk])
    | some x => simp [hp] at h
  · split at h
    · rename_i hk
      cases hp : parseFixed c c.t.v7Hdr c.t.v7Rec body with
      | none => simp only [hp, Prod.mk.injEq, Step.fail.injEq] at h; exact Or.inl (by rw [← h.2, hk])
      | some x => simp [hp] at h
    · split at h
      · rename_i hk
        cases hp : (parseV9 c st body).2 with
        | err => simp only [hp, liftRes, Prod.mk.injEq, Step.fail.injEq] at h; exact Or.inl (by rw [← h.2, hk])
        | ok pr => simp [hp, liftRes] at h
        | panic => simp [hp, liftRes] at h
        | overflow => simp [hp, liftRes] at h
      · split at h
        · rename_i hk
          cases hp : (parseIpfix c st body).2 with
          | err => simp only [hp, liftRes, Prod.mk.injEq, Step.fail.injEq] at h; exact Or.inl (by rw [← h.2, hk])
          | ok pr => simp [hp, liftRes] at h
          | panic => simp [hp, liftRes] at h
          | overflow => simp [hp, liftRes] at h
        · simp only [Prod.mk.injEq, Step.fail.injEq] at h; exact Or.inr h.2.symm

/-- version-specific parsers never report `UnallowedVersion` -/
theorem C02_versioned_not_unallowed (c : Config) (st st' : PState) (kind : Nat) (body : Bytes) :
    parseVersioned c st kind body ≠ (st', .unallowed) := by
  intro h
  unfold parseVersioned at h
  split at h
  · cases hp : parseFixed c c.t.v5Hdr c.t.v5Rec body <;> simp [hp] at h
  · split at h
    · cases hp : parseFixed c c.t.v7Hdr c.t.v7Rec body <;> simp [hp] at h
    · split at h
      · cases hp : (parseV9 c st body).2 <;> simp [hp, liftRes] at h
      · split at h
        · cases hp : (parseIpfix c st body).2 <;> simp [hp, liftRes] at h
        · simp at h

/-- **C02** (model, every fuel): whenever `parse_bytes` returns, its result decomposes the buffer. -/
theorem C02_fuel (c : Config) (hf : c.t.framingOk = true) :
    ∀ (fuel : Nat) (st st' : PState) (buf : Bytes) (pkts : List Packet),
      parseBytesF c fuel st buf = (st', .done pkts) → decomposes c buf pkts = true := by
  have hd : ∀ x ∈ c.t.dispatch, x.1 = x.2 := by
    simp only [Tables.framingOk, Bool.and_eq_true, List.all_eq_true, beq_iff_eq] at hf
    exact hf.2
  intro fuel
  induction fuel with
  | zero => intro st st' buf pkts h; simp [parseBytesF] at h
  | succ fuel ih =>
    intro st st' buf pkts h
    unfold parseBytesF at h
    by_cases he : buf.isEmpty = true
    · simp only [he, ↓reduceIte, Prod.mk.injEq, Outcome.done.injEq] at h
      rw [← h.2]; simp [decomposes, he]
    · simp only [he, Bool.false_eq_true, ↓reduceIte] at h
      cases hp : parsePacket c st buf with
      | mk st1 step =>
        simp only [hp] at h
        have hne : buf ≠ [] := by intro hb; simp [hb] at he
        rcases parsePacket_inv c st st1 buf step hp with ⟨hl, _, hs⟩ | ⟨v, hv, ha, _, hs⟩ | ⟨v, hv, ha, hdn, _, hs⟩ | ⟨v, kind, hv, ha, hdk, hpv⟩
        · -- fewer than two bytes: `Incomplete`, remaining = the whole buffer
          subst hs
          simp only [Prod.mk.injEq, Outcome.done.injEq] at h
          rw [← h.2]
          simp [decomposes, errConsistent, he, hl]
        · -- version not allowed: silent stop
          subst hs
          simp only [Prod.mk.injEq, Outcome.done.injEq] at h
          rw [← h.2]
          have ha' : v ∉ c.allowed := by simpa using ha
          simp [decomposes, versionOf, hv, ha']
        · -- allowed but no dispatch arm: UnknownVersion
          subst hs
          simp only [Prod.mk.injEq, Outcome.done.injEq] at h
          rw [← h.2]
          have := (beU_some hv).1
          simp [decomposes, errConsistent, he, this]
        · have hvk : v = kind := hd _ (lookup_mem hdk)
          cases step with
          | ok pkt rest =>
            obtain ⟨m, hw, hm, hr⟩ := C02_versioned_ok c hf _ _ _ _ _ _ hpv
            have hl := (beU_some hv).1
            rw [List.length_drop] at hm
            have hrest : rest = buf.drop (2 + m) := by rw [hr, List.drop_drop]
            simp only at h
            by_cases hre : rest.isEmpty = true
            · simp only [hre, ↓reduceIte, Prod.mk.injEq, Outcome.done.injEq] at h
              rw [← h.2]
              cases pkt with
              | error k r => simp [wireLen] at hw
              | _ =>
                all_goals
                  simp only [decomposes, hw]
                  have : (List.drop (2 + m) buf).isEmpty = true := by rw [← hrest]; exact hre
                  simp [this]; omega
            · simp only [hre, Bool.false_eq_true, ↓reduceIte] at h
              cases hrec : parseBytesF c fuel st1 rest with
              | mk st2 out =>
                simp only [hrec, Prod.mk.injEq] at h
                cases out with
                | done ps =>
                  simp only [Outcome.cons, Outcome.done.injEq] at h
                  have hps := ih _ _ _ _ hrec
                  rw [← h.2]
                  cases pkt with
                  | error k r => simp [wireLen] at hw
                  | _ =>
                    all_goals
                      simp only [decomposes, hw]
                      rw [← hrest]
                      simp [hps]; omega
                | panic ps => simp [Outcome.cons] at h
                | overflow ps => simp [Outcome.cons] at h
          | fail e =>
            simp only [Prod.mk.injEq, Outcome.done.injEq] at h
            rw [← h.2]
            have hl := (beU_some hv).1
            rcases C02_versioned_fail c _ _ _ _ _ hpv with he' | he'
            · subst he'
              simp [decomposes, errConsistent, he, versionOf, hv, hvk]
            · subst he'
              simp [decomposes, errConsistent, he, hl]
          | unallowed => exact absurd hpv (C02_versioned_not_unallowed c _ _ _ _)
          | panic => simp at h
          | overflow => simp at h

/-- **C02** for `parse_bytes` as modelled (fuel `|buf| + 1`), any configuration whose generated
    tables satisfy the framing facts. -/
theorem C02 (c : Config) (hf : c.t.framingOk = true) (st st' : PState) (buf : Bytes) (pkts : List Packet)
    (h : parseBytes c st buf = (st', .done pkts)) : decomposes c buf pkts = true :=
  C02_fuel c hf _ _ _ _ _ h

/-- the framing facts hold for the tables generated from the current Rust source -/
theorem C02_generated_framing : Generated.tables.framingOk = true := by decide

/-- **C02** instantiated with the generated tables: every allowed set, every cache state, every buffer. -/
theorem C02_generated (allowed : List Nat) (uf : Bool) (st st' : PState) (buf : Bytes) (pkts : List Packet)
    (h : parseBytes { t := Generated.tables, allowed := allowed, unknownFields := uf } st buf = (st', .done pkts)) :
    decomposes { t := Generated.tables, allowed := allowed, unknownFields := uf } buf pkts = true :=
  C02 _ C02_generated_framing _ _ _ _ h

/-- an empty buffer yields an empty list -/
theorem C02_empty (c : Config) (st : PState) : parseBytes c st [] = (st, .done []) := by
  simp [parseBytes, parseBytesF]

end Netflow.Props

namespace Netflow.Props
open Netflow Preds

/-- non-vacuity: a concrete buffer (an empty V5 packet followed by one stray byte) on which the
    model returns a packet and a final error, and the decomposition predicate holds. -/
example :
    (parseBytes { t := Generated.tables, allowed := [5, 7, 9, 10] } {}
      [0, 5, 0, 0, 0, 0, 0, 1, 0, 0, 0, 2, 0, 0, 0, 3, 0, 0, 0, 4, 5, 6, 0, 7, 9]).2 =
      .done [.v5 [5, 0, 1, 2, 3, 4, 5, 6, 7] [], .error .incomplete [9]] := by decide

end Netflow.Props
